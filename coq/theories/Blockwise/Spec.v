(* C04 as an executable predicate over what was OBSERVED at the two applications
   and on the wire.  Written from the property text (and RFC 7959 / RFC 7641 for
   what "the body" of a block-wise notification is); it does not mention the
   model.

   Property text: a block-wise exchange that completes hands the receiving
   application exactly the bytes the sending application supplied, exactly once
   and with the message's other options preserved.  Duplicated, stale,
   out-of-order or foreign-token blocks never corrupt, truncate or extend a
   body; concurrent transfers with different tokens never mix.  An exchange that
   cannot complete ends with an error or timeout - never with a partial body
   presented as complete, and never by hanging. *)
From Coq Require Import ZArith List Bool.
From GoCoap Require Import Base.Bytes Blockwise.Config.
Import ListNotations.
Open Scope Z_scope.

(* a message as projected by the observer: body as (length, checksum);
   block options as (szx, num, more) *)
Record pm := PM { pcode : Z; ptok : Z; pb1 : option (Z * Z * bool); pb2 : option (Z * Z * bool);
                  ps1 : option Z; ps2 : option Z; petag : option Z; pobs : option Z;
                  pother : list (Z * Z); plen : Z; psum : Z }.

(* one event as observed: side whose Handle ran (0 A, 1 B, 2 none), message handed to
   it, message it emitted (true = towards B), messages handed to the application,
   error callbacks, returns of Do/WriteMessage (exchange, 0 ok / 1 error / 2 timeout),
   table sizes, 0 / 1 panic / 2 hang *)
Record obs := Ob { o_side : Z; o_in : option pm; o_wire : option (bool * pm); o_deliv : list pm;
                   o_err : Z; o_ret : list (Z * Z); o_sizes : list Z; o_bad : Z }.

Definition oZ_eqb (a b : option Z) : bool :=
  match a, b with Some x, Some y => x =? y | None, None => true | _, _ => false end.
Definition pair_eqb (a b : Z * Z) : bool := (fst a =? fst b) && (snd a =? snd b).

(* number of times resource k changed during the scenario *)
Definition bumps (es : list ev) (k : Z) : Z :=
  fold_left (fun n e => match e with Bump k' => if k' =? k then n + 1 else n | _ => n end) es 0.

Definition find_exch (c : cfg) (tok : Z) (by_a : bool) : option exch :=
  find (fun x => (xtok x =? tok) && (if by_a then xkind x <? 2 else true)) (cexch c).

(* is (len, sum, etag) some representation v in 0..n of resource r ? *)
Fixpoint is_version (r : res) (n : nat) (len sum : Z) (etag : option Z) : bool :=
  let v := Z.of_nat n in
  ((len =? rlen r + 3 * v) && (sum =? csum (res_body r v)) && oZ_eqb etag (res_etag r v))
  || match n with O => false | S n' => is_version r n' len sum etag end.

Definition is_request (c : Z) : bool := (GET <=? c) && (c <=? DELETE).
(* a response that carries a representation: class 2.xx except 2.31 Continue *)
Definition is_success_response (c : Z) : bool := (64 <=? c) && (c <? 96) && negb (c =? Continue).

(* class of one message handed to an application; 0 = conforms.
   1 body differs from what was supplied (partial, extended, corrupted, mixed)
   3 code / other options not preserved   4 body for a token nobody used *)
Definition delivery_class (c : cfg) (es : list ev) (side : Z) (d : pm) : N :=
  if side =? 1 then
    (* B's application receives requests from A *)
    if is_request (pcode d) then
      match find_exch c (ptok d) true with
      | None => if plen d =? 0 then 0%N else 4%N
      | Some x =>
        if negb ((plen d =? xlen x) && (psum d =? csum (gen_body (xsalt x) (Z.to_nat (xlen x))))) then 1%N
        else if negb ((pcode d =? xcode x) && list_eqb pair_eqb (pother d) [(11, xpath x)]) then 3%N
        else 0%N
      end
    else if plen d =? 0 then 0%N else 1%N
  else
    (* A's application receives responses / notifications from B *)
    if negb (is_success_response (pcode d)) then (if plen d =? 0 then 0%N else 1%N)
    else
      match find_exch c (ptok d) false with
      | None => 4%N
      | Some x =>
        match nth_error (cres c) (Z.to_nat (xpath x)) with
        | None => 4%N
        | Some r =>
          if negb (is_version r (Z.to_nat (bumps es (xpath x))) (plen d) (psum d) (petag d)) then 1%N
          else if negb ((pcode d =? (if xkind x =? 2 then xcode x else resp_code (xcode x)))
                        && list_eqb pair_eqb (pother d) [(12, rcf r)]
                        && oZ_eqb (pobs d) (if xkind x =? 2 then xobs x else None)) then 3%N
          else 0%N
        end
      end.

(* "exactly once": a body is handed over at most once per transfer.  A transfer
   towards a side begins with the arrival of a first message for the token: one
   without the relevant Block option or with NUM = 0 (a network that duplicates
   the first message starts a second transfer: that is message-layer
   deduplication, C05, not block-wise).  So for every (side, token): number of
   bodies handed over <= number of such arrivals. *)
Definition relevant_block (side : Z) (m : pm) : option (Z * Z * bool) := if side =? 1 then pb1 m else pb2 m.
Definition is_first (side : Z) (m : pm) : bool :=
  match relevant_block side m with None => true | Some (_, n, _) => n =? 0 end.

Definition arrivals (os : list obs) (side tok : Z) : Z :=
  fold_left (fun n o => match o_in o with
                        | Some m => if (o_side o =? side) && (ptok m =? tok) && is_first side m then n + 1 else n
                        | None => n end) os 0.
Definition handed (os : list obs) (side tok : Z) : Z :=
  fold_left (fun n o => if o_side o =? side
                        then n + blen (filter (fun d => (ptok d =? tok) && (0 <? plen d)) (o_deliv o)) else n) os 0.

Definition once_ok (os : list obs) : bool :=
  forallb (fun o => forallb (fun d => handed os (o_side o) (ptok d) <=? arrivals os (o_side o) (ptok d)) (o_deliv o)) os.

(* a Do that returns without error returns a response: the response for its token
   was handed to A's application in the same step *)
Definition ret_ok (c : cfg) (o : obs) : bool :=
  forallb (fun r => if snd r =? 0 then
                      match nth_error (cexch c) (Z.to_nat (fst r)) with
                      | Some x => if xkind x =? 0 then existsb (fun d => ptok d =? xtok x) (o_deliv o) else true
                      | None => false
                      end
                    else true) (o_ret o).

Fixpoint first_class (l : list N) : N :=
  match l with [] => 0%N | x :: r => if N.eqb x 0 then first_class r else x end.

(* the whole property on one observed scenario: 0 holds, else the first failing clause
   (1 body, 2 more than once, 3 options, 4 foreign token, 5 Do returned ok without
   its response, 6 panic, 7 hang) *)
Definition c04_class (c : cfg) (es : list ev) (os : list obs) : N :=
  let bad := first_class (map (fun o => if o_bad o =? 0 then 0%N else if o_bad o =? 1 then 6%N else 7%N) os) in
  if negb (N.eqb bad 0) then bad
  else
    let dc := first_class (flat_map (fun o => map (delivery_class c es (o_side o)) (o_deliv o)) os) in
    if negb (N.eqb dc 0) then dc
    else if negb (once_ok os) then 2%N
    else if negb (forallb (ret_ok c) os) then 5%N
    else 0%N.

Definition c04_ok (c : cfg) (es : list ev) (os : list obs) : bool := N.eqb (c04_class c es os) 0.

(* ---- "concurrent transfers with different tokens never mix" ----
   A body that is wrong for the token it is delivered under (class 1) is classified further
   from what the applications SUPPLIED in the scenario, each body under its own token:
   8  the delivered body is, byte for byte, a body that was supplied under ANOTHER token
      (body delivered under another token);
   9  the delivered body is the beginning of a body supplied under one token followed by the
      rest of a body supplied under a different token, cut at a multiple of 16 bytes - the
      smallest block size - (blocks of transfers with distinct tokens spliced together).
   Both say that two transfers with distinct tokens interfered.  Tokens are compared as whole
   values: two tokens that differ in any byte or in their length are distinct.  Everything else
   stays class 1. *)

(* the bodies supplied towards [side] (1: request bodies A supplies to B's application; else: the
   representations B's application supplies, every version the scenario reaches), with their tokens *)
Definition supplied_to (c : cfg) (es : list ev) (side : Z) : list (Z * list Z) :=
  if side =? 1 then
    map (fun x => (xtok x, gen_body (xsalt x) (Z.to_nat (xlen x)))) (filter (fun x => xkind x <? 2) (cexch c))
  else
    flat_map (fun x => match nth_error (cres c) (Z.to_nat (xpath x)) with
                       | Some r => map (fun v => (xtok x, res_body r (Z.of_nat v)))
                                       (seq 0 (S (Z.to_nat (bumps es (xpath x)))))
                       | None => []
                       end) (cexch c).

Definition whole_of_other (sup : list (Z * list Z)) (d : pm) : bool :=
  existsb (fun p => negb (fst p =? ptok d) && (plen d =? blen (snd p)) && (psum d =? csum (snd p))) sup.

(* cut positions 16, 32, ... below n *)
Fixpoint cuts (fuel : nat) (k n : Z) : list Z :=
  match fuel with
  | O => []
  | S f => if k <? n then k :: cuts f (k + 16) n else []
  end.

Definition splice_of_two (sup : list (Z * list Z)) (d : pm) : bool :=
  existsb (fun p1 =>
    existsb (fun p2 =>
      negb (fst p1 =? fst p2) && (plen d =? blen (snd p2)) &&
      existsb (fun k => psum d =? csum (firstn (Z.to_nat k) (snd p1) ++ skipn (Z.to_nat k) (snd p2)))
              (cuts (length (snd p1)) 16 (Z.min (blen (snd p1)) (blen (snd p2))))) sup) sup.

(* 0 unless the delivery is class 1; then 8, 9 or 0 (no finer classification) *)
Definition mix_class (c : cfg) (es : list ev) (side : Z) (d : pm) : N :=
  if N.eqb (delivery_class c es side d) 1 then
    if 0 <? plen d then
      let sup := supplied_to c es side in
      if whole_of_other sup d then 8%N else if splice_of_two sup d then 9%N else 0%N
    else 0%N
  else 0%N.

(* the whole property with class 1 refined; c04_class_x = 0 exactly when c04_class = 0 *)
Definition c04_class_x (c : cfg) (es : list ev) (os : list obs) : N :=
  let k := c04_class c es os in
  if N.eqb k 1 then
    let m := first_class (flat_map (fun o => map (mix_class c es (o_side o)) (o_deliv o)) os) in
    if N.eqb m 0 then 1%N else m
  else k.
