(* C04 progress without faults, BOTH directions block-wise: a Do POST/PUT whose request body is sent
   block-wise (Block1) and whose response is block-wise too (Block2), in the full two-endpoint model,
   fault-free in-order script  Start i :: repeat (Deliver 0) n.

   Composition of
     ProofsProgressUp.C04_upload_phase     (upload, ends just before B's Handle of the last block)
     the middle step, proved here           (B hands the request to its application, keeps the answer in
                                             its sending cache and emits the first Block2 block)
     ProofsProgressDown.download_phase     (download from "first block of the response in flight")
     ProofsProgressDown.single_step        (sibling: the response fits B's first buffer)

   Theorems
     C04_both_blockwise      size m < .. : response longer than B's buffer for the negotiated SZX m
     C04_both_single_block   size m <= |response| <= buffer_size m maxB: Do returns ok with the right
                             body, BUT the message handed to A's application still carries Block2/Size2
                             and B's sending entry is never removed (as for GET, Down's finding)
   (the small response, |response| < 16, is ProofsProgressUp.C04_upload_progress).

   Hypothesis beyond those of the two phases:
     Z.min (cszxA c) (cszxB c) = 7 -> 1024 <= cmaxB c     both sides BERT: B's buffer for the response
                                                           must hold one block (download_phase's HmB) *)
From Coq Require Import ZArith List Bool Lia.
From GoCoap Require Import Base.Bytes Gen.BlockConsts Block.Model Blockwise.Config Blockwise.Model Blockwise.Proofs.
From GoCoap Require Import Blockwise.ProofsProgressUp.
From GoCoap Require Blockwise.ProofsProgressDown.
Module D := GoCoap.Blockwise.ProofsProgressDown.
Import ListNotations.
Open Scope Z_scope.
Ltac Zify.zify_post_hook ::= Z.div_mod_to_equations.

(* ------------------------------------------------------------------ the two vocabularies agree *)
Lemma exec_run_w c es : forall w, exec c w es = D.run_w c w es.
Proof. induction es as [|e es IH]; intros w; [reflexivity|]. cbn [exec D.run_w]. apply IH. Qed.
Lemma deliv_to_delivs side tr : deliv_to side tr = D.delivs side tr.
Proof. unfold deliv_to, D.delivs. symmetry. apply flat_map_concat_map. Qed.
Lemma rets_concat tr : concat (map mo_ret tr) = D.rets tr.
Proof. unfold D.rets. symmetry. apply flat_map_concat_map. Qed.

(* ------------------------------------------------------------------ arithmetic of the bound *)
(* a buffer of q blocks needs at most as many round trips as single blocks *)
Lemma ceil_mono len b q : 0 <= len -> 0 < b -> 1 <= q -> (len + q * b - 1) / (q * b) <= (len + b - 1) / b.
Proof.
  intros Hl Hb Hq.
  set (a := (len + b - 1) / b).
  assert (Ha : len <= a * b) by (unfold a; lia).
  assert (Ha0 : 0 <= a) by (unfold a; apply Z.div_pos; lia).
  clearbody a.
  assert (Hqb : 1 * b <= q * b) by (apply Z.mul_le_mono_nonneg_r; lia).
  assert (Haq : a * (1 * b) <= a * (q * b)) by (apply Z.mul_le_mono_nonneg_l; lia).
  assert (Hlt : (len + q * b - 1) / (q * b) < a + 1); [|lia].
  apply Z.div_lt_upper_bound; [lia|]. lia.
Qed.

Lemma upload_rounds_bound c len :
  0 <= cszxA c <= 7 -> 0 <= cszxB c <= 7 -> 0 <= cmaxA c -> (cszxA c = 7 -> 1024 <= cmaxA c) -> 0 <= len ->
  upload_rounds c len <= (len + size (Z.min (cszxA c) (cszxB c)) - 1) / size (Z.min (cszxA c) (cszxB c)) + 1.
Proof.
  intros HsA HsB HmA Hbert Hlen.
  destruct (upload_sizes _ _ _ HsA HsB HmA Hbert) as [Hs16 [[q [Hq HBm]] _]].
  unfold upload_rounds. cbv zeta. rewrite HBm.
  set (block := size (Z.min (cszxA c) (cszxB c))) in *.
  pose proof (ceil_mono len block q Hlen ltac:(lia) Hq) as Hc.
  assert (Hc0 : 0 <= (len + block - 1) / block) by (apply Z.div_pos; lia).
  destruct (len <=? size (cszxA c)); [lia|].
  destruct (len <=? buffer_size (cszxA c) (cmaxA c)); lia.
Qed.

(* the q of download_phase in closed form *)
Lemma down_count (q : nat) len b : 0 < b ->
  (Z.of_nat q - 1) * b < len - b <= Z.of_nat q * b -> Z.of_nat q = (len + b - 1) / b - 1.
Proof.
  intros Hb [H1 H2].
  assert (Hlo : Z.of_nat q + 1 <= (len + b - 1) / b) by (apply Z.div_le_lower_bound; lia).
  assert (Hhi : (len + b - 1) / b < Z.of_nat q + 2) by (apply Z.div_lt_upper_bound; lia).
  lia.
Qed.

(* ------------------------------------------------------------------ the common part: upload + hand-over *)
Section Both.
  Variable c : cfg.
  Variables (i : nat) (x : exch) (r : res).
  Hypothesis Hnth : nth_error (cexch c) i = Some x.
  Hypothesis Hkind : xkind x = 0.
  Hypothesis Hcode : xcode x = 2 \/ xcode x = 3.
  Hypothesis Hlen : 0 <= xlen x.
  Hypothesis HsA : 0 <= cszxA c <= 7.
  Hypothesis HsB : 0 <= cszxB c <= 7.
  Hypothesis HmA : 0 <= cmaxA c.
  Hypothesis Hbert : cszxA c = 7 -> 1024 <= cmaxA c.
  Hypothesis Hbig : size (cszxA c) < xlen x.
  Hypothesis Hno : ~ o2_region c (xlen x).
  Hypothesis Hres : nth_error (cres c) (Z.to_nat (xpath x)) = Some r.

  Local Notation tok := (xtok x).
  Local Notation m := (Z.min (cszxA c) (cszxB c)).
  Local Notation mB := (cmaxB c).
  Local Notation bB := (buffer_size (Z.min (cszxA c) (cszxB c)) (cmaxB c)).
  Local Notation rsp := (response_of c x r).
  Local Notation L2 := (blen (res_body r 0)).
  Local Notation k := (upload_rounds c (xlen x) - 1).

  (* the first wire message of the response *)
  Definition first_resp : msg := D.blk_msg rsp m 0 bB.

  (* the world after B took the last block of the request *)
  Definition w_served (h : list (bool * msg)) : world :=
    {| wa := epA c [(tok, request_of x)]; wb := with_sending (epB c []) [(tok, rsp)];
       flight := [(false, first_resp)]; whist := h; vers := []; pending := [(i, tok)] |}.

  Lemma rsp_code_ok : D.resp_code_ok (mcode rsp).
  Proof.
    cbn [response_of mcode]. unfold D.resp_code_ok.
    destruct Hcode as [E|E]; rewrite E; [change (resp_code 2) with 68|change (resp_code 3) with 65];
      unfold DELETE, Continue; lia.
  Qed.
  Lemma rsp_not_upload : is_upload (mcode rsp) = false.
  Proof. cbn [response_of mcode]. destruct Hcode as [E|E]; rewrite E; reflexivity. Qed.

  Lemma app_b_request : app_b c [] tok (request_of x) = Some rsp.
  Proof.
    exact (app_b_req c (xcode x) tok [(11, xpath x)] (gen_body (xsalt x) (Z.to_nat (xlen x))) Hcode x eq_refl r Hres).
  Qed.

  (* upload phase + the Deliver in which B hands the request over and starts the block-wise response *)
  Lemma upload_then_served : size m <= L2 ->
    let script := Start i :: repeat (Deliver 0) (2 * Z.to_nat k + 1) in
    exists h pre oB,
      exec c (init c) script = w_served h /\
      run c (init c) script = pre ++ [oB] /\
      Forall (fun o => mo_deliv o = [] /\ mo_err o = 0 /\ mo_ret o = []) pre /\
      mo_side oB = 1 /\ mo_deliv oB = [request_of x] /\ mo_err oB = 0 /\ mo_ret oB = [] /\ 1 <= k.
  Proof.
    intros Hsz script.
    destruct (C04_upload_phase c i x Hnth Hkind Hcode Hlen HsA HsB HmA Hbert Hbig Hno)
      as [h [Hex [Hq [Hk1 [_ [_ [_ [_ [_ [_ Hh]]]]]]]]]].
    cbv zeta in Hex, Hq, Hh.
    unfold script. rewrite repeat_add. cbn [repeat]. rewrite app_comm_cons, run_app, exec_app, Hex.
    set (pre := run c (init c) (Start i :: repeat (Deliver 0) (2 * Z.to_nat k))) in *. clearbody pre.
    rewrite run_cons. cbn [exec run].
    cbn [step nth_error flight with_flight remove_nth]. unfold arrive.
    cbn [wa wb whist vers pending flight with_flight].
    rewrite (Hh (app_b c [])). rewrite app_b_request.
    rewrite (D.start_sending_first (epB c []) rsp m mB {| bszx := cszxB c; bnum := 0; bmore := true |})
      by (first [exact Hsz|exact rsp_not_upload|reflexivity]).
    cbn [bszx]. replace (Z.min (cszxB c) m) with m by lia.
    eexists _, pre, _. cbn [fst snd].
    split; [reflexivity|]. split; [reflexivity|]. split; [exact Hq|].
    repeat split. exact Hk1.
  Qed.

  Lemma pend_one_keep : D.pend_keep tok [(i, tok)] = [].
  Proof. unfold D.pend_keep. cbn [filter snd]. rewrite Z.eqb_refl. reflexivity. Qed.
  Lemma pend_one_rets : D.pend_rets tok [(i, tok)] = [(Z.of_nat i, 0)].
  Proof. unfold D.pend_rets. cbn [filter snd]. rewrite Z.eqb_refl. reflexivity. Qed.

  (* ---------------------------------------------------------------- response longer than B's buffer *)
  Hypothesis HmB : m = 7 -> 1024 <= mB.

  Theorem both_blockwise : bB < L2 ->
    let q := Z.to_nat ((L2 + bB - 1) / bB - 1) in
    let n := (2 * Z.to_nat k + 1 + (1 + 2 * q))%nat in
    let script := Start i :: repeat (Deliver 0) n in
    let tr := run c (init c) script in
    let wf := exec c (init c) script in
    deliv_to 1 tr = [request_of x] /\ deliv_to 0 tr = [rsp] /\
    Forall (fun o => mo_err o = 0) tr /\
    concat (map mo_ret tr) = [(Z.of_nat i, 0)] /\ mo_ret (last tr no_mob) = [(Z.of_nat i, 0)] /\
    mo_sizes (last tr no_mob) = [0; 0; 0; 0] /\
    wa wf = epA c [] /\ wb wf = epB c [] /\ flight wf = [] /\ pending wf = [] /\ vers wf = [] /\
    (1 <= q)%nat.
  Proof.
    intros Hlong q n script tr wf.
    assert (Hm7 : 0 <= m <= 7) by lia.
    destruct (D.buffers_fit m m mB ltac:(lia) ltac:(lia) HmB) as [HbB [[kb [Hkb HbBk]] _]].
    pose proof (size_pos m Hm7) as Hs16.
    assert (Hsz : size m <= L2) by nia.
    destruct (upload_then_served Hsz) as [h [pre [oB [Hex [Htr [Hpre [HB1 [HB2 [HB3 [HB4 Hk1]]]]]]]]]].
    cbv zeta in Hex, Htr.
    (* the download phase from w_served *)
    assert (Hfb : first_resp = D.first_block rsp mB m).
    { unfold first_resp. apply (D.first_block_eq rsp (cszxA c) (cszxB c) mB m HsA ltac:(lia) ltac:(lia) HmB). exact Hlong. }
    assert (Hat : D.at_first tok (request_of x) rsp (cszxA c) (cszxB c) mB m (w_served h)).
    { unfold D.at_first, w_served. rewrite Hfb.
      cbn [wa wb flight epA epB eszx emax sending receiving with_sending tget]. rewrite Z.eqb_refl. repeat split. }
    assert (Hpend : In tok (map snd (pending (w_served h)))) by (left; reflexivity).
    destruct (D.download_phase c tok (request_of x) rsp (cszxA c) (cszxB c) mB m
                ltac:(cbn [request_of mcode]; unfold GET, DELETE; lia) eq_refl rsp_code_ok eq_refl HsA
                ltac:(lia) ltac:(lia) HmB (w_served h) Hat Hlong Hpend) as [q0 [Hq1 [Hq2 [Hdw Hdo]]]].
    replace (Z.min (cszxA c) m) with m in Hq2 by lia.
    change (blen (mbody rsp)) with L2 in Hq2.
    assert (Hq0 : q0 = q).
    { unfold q. rewrite <- (down_count q0 L2 bB HbB Hq2). rewrite Nat2Z.id. reflexivity. }
    subst q0. cbv zeta in Hdw, Hdo.
    rewrite <- !exec_run_w in Hdw, Hdo.
    (* split the script *)
    unfold tr, wf, script, n. rewrite repeat_add, app_comm_cons, run_app, exec_app, Hex, Htr.
    set (es2 := repeat (Deliver 0) (1 + 2 * q)) in *.
    set (obs2 := run c (w_served h) es2) in *. set (w2 := exec c (w_served h) es2) in *.
    destruct Hdw as [Da [Db [Df [Dv [Dp _]]]]].
    destruct Hdo as [D0 [D1 [Dn [obs' [o [Do [Dr [Dlast Dsz]]]]]]]].
    assert (Da' : wa w2 = epA c []).
    { rewrite Da. unfold w_served. cbn [wa epA sending receiving with_sending with_receiving tdel]. rewrite Z.eqb_refl. reflexivity. }
    assert (Db' : wb w2 = epB c []).
    { rewrite Db. unfold w_served. cbn [wb epB sending with_sending tdel]. rewrite Z.eqb_refl. reflexivity. }
    assert (Hpd : Forall (fun o => mo_deliv o = []) pre) by (eapply Forall_impl; [|exact Hpre]; intros o' Ho; apply Ho).
    assert (Hpr : Forall (fun o => mo_ret o = []) pre) by (eapply Forall_impl; [|exact Hpre]; intros o' Ho; apply Ho).
    assert (Hpe : Forall (fun o => mo_err o = 0) pre) by (eapply Forall_impl; [|exact Hpre]; intros o' Ho; apply Ho).
    split.
    { rewrite !deliv_to_app, (deliv_to_quiet 1 pre Hpd), (deliv_to_delivs 1 obs2), D1.
      unfold deliv_to. cbn [filter]. rewrite HB1. cbn [Z.eqb Pos.eqb map concat List.app]. rewrite HB2. reflexivity. }
    split.
    { rewrite !deliv_to_app, (deliv_to_quiet 0 pre Hpd), (deliv_to_delivs 0 obs2), D0.
      unfold deliv_to. cbn [filter]. rewrite HB1. cbn [Z.eqb map concat List.app]. reflexivity. }
    split.
    { apply Forall_app. split; [apply Forall_app; split; [exact Hpe|constructor; [exact HB3|constructor]]|exact Dn]. }
    assert (Hr' : Forall (fun o' => mo_ret o' = []) obs') by (apply D.rets_nil; exact Dr).
    change (pending (w_served h)) with [(i, tok)] in Dlast, Dp. rewrite pend_one_rets in Dlast.
    split.
    { rewrite !map_app, !concat_app, (rets_quiet pre Hpr). cbn [map concat List.app]. rewrite HB4.
      rewrite Do, map_app, concat_app, (rets_quiet obs' Hr'). cbn [map concat List.app]. rewrite Dlast. reflexivity. }
    assert (Hlast : last ((pre ++ [oB]) ++ obs2) no_mob = o).
    { rewrite Do, app_assoc. apply last_snoc. }
    rewrite Hlast.
    split; [exact Dlast|].
    split; [rewrite Dsz; unfold sizes_of; rewrite Da', Db'; reflexivity|].
    split; [exact Da'|]. split; [exact Db'|]. split; [exact Df|].
    split; [rewrite Dp; exact pend_one_keep|]. split; [rewrite Dv; reflexivity|exact Hq1].
  Qed.

  (* ---------------------------------------------------------------- response of one buffer *)
  (* size m <= |response| <= buffer_size m maxB (for m < 7: exactly one block; BERT: up to maxB/1024
     blocks): B sends ONE Block2 block with NUM = 0, M = 0.  The Do returns ok and the body is right,
     but A's application is handed the block message itself (Block2 and Size2 still set) and B keeps
     the response in its sending cache: the final table sizes are [0;0;1;0], not [0;0;0;0]. *)
  Theorem both_single_block : size m <= L2 <= bB ->
    let n := (2 * Z.to_nat k + 2)%nat in
    let script := Start i :: repeat (Deliver 0) n in
    let tr := run c (init c) script in
    let wf := exec c (init c) script in
    deliv_to 1 tr = [request_of x] /\ deliv_to 0 tr = [first_resp] /\
    mbody first_resp = res_body r 0 /\ mcode first_resp = resp_code (xcode x) /\ mtok first_resp = tok /\
    metag first_resp = res_etag r 0 /\ mother first_resp = [(12, rcf r)] /\ mb1 first_resp = None /\
    mb2 first_resp = Some {| bszx := m; bnum := 0; bmore := false |} /\ ms2 first_resp = Some L2 /\
    Forall (fun o => mo_err o = 0) tr /\
    concat (map mo_ret tr) = [(Z.of_nat i, 0)] /\ mo_ret (last tr no_mob) = [(Z.of_nat i, 0)] /\
    mo_sizes (last tr no_mob) = [0; 0; 1; 0] /\
    wa wf = epA c [] /\ wb wf = with_sending (epB c []) [(tok, rsp)] /\ flight wf = [] /\ pending wf = [].
  Proof.
    intros [Hsz Hfit] n script tr wf.
    assert (Hm7 : 0 <= m <= 7) by lia. pose proof (size_pos m Hm7) as Hs16.
    destruct (upload_then_served Hsz) as [h [pre [oB [Hex [Htr [Hpre [HB1 [HB2 [HB3 [HB4 Hk1]]]]]]]]]].
    cbv zeta in Hex, Htr.
    assert (HL0 : 0 <= L2) by apply blen_nonneg.
    assert (Hmore : D.blk_more rsp 0 bB = false).
    { pose proof (D.blk_more_iff rsp 0 bB) as Hiff. change (blen (mbody rsp)) with L2 in Hiff.
      specialize (Hiff ltac:(lia) ltac:(lia)).
      destruct (D.blk_more rsp 0 bB); [|reflexivity]. destruct Hiff as [H1 _]. specialize (H1 eq_refl). lia. }
    assert (Hb2 : mb2 first_resp = Some {| bszx := m; bnum := 0; bmore := false |}).
    { unfold first_resp, D.blk_msg. cbn [mb2 set_body set_block]. rewrite Hmore. rewrite Z.div_0_l by lia. reflexivity. }
    assert (Hbody : mbody first_resp = res_body r 0).
    { unfold first_resp, D.blk_msg, D.blk_data. cbn [mbody set_body response_of].
      apply (D.firstn_allZ bB (res_body r 0)). lia. }
    (* the last Deliver *)
    assert (Hfl : flight (w_served h) = [(false, first_resp)]) by reflexivity.
    destruct (D.single_step c (w_served h) tok (request_of x) first_resp {| bszx := m; bnum := 0; bmore := false |}
                eq_refl rsp_code_ok eq_refl Hb2 eq_refl eq_refl) as [Sa [Sb [Sf [Sv [Sp [_ Smob]]]]]];
      try reflexivity.
    { unfold w_served. cbn [wa epA sending tget]. rewrite Z.eqb_refl. reflexivity. }
    { left. reflexivity. }
    destruct Smob as [M1 [M2 [M3 [M4 M5]]]].
    change (pending (w_served h)) with [(i, tok)] in Sp, M4. rewrite pend_one_keep in Sp. rewrite pend_one_rets in M4.
    assert (Sa' : wa (fst (step c (w_served h) (Deliver 0))) = epA c []).
    { rewrite Sa. unfold w_served. cbn [wa epA sending with_sending tdel]. rewrite Z.eqb_refl. reflexivity. }
    unfold tr, wf, script, n. replace (2 * Z.to_nat k + 2)%nat with (2 * Z.to_nat k + 1 + 1)%nat by lia.
    rewrite repeat_add, app_comm_cons, run_app, exec_app, Hex, Htr.
    cbn [repeat]. rewrite run_cons. cbn [exec run].
    set (oA := snd (step c (w_served h) (Deliver 0))) in *. set (w2 := fst (step c (w_served h) (Deliver 0))) in *.
    assert (Hpd : Forall (fun o => mo_deliv o = []) pre) by (eapply Forall_impl; [|exact Hpre]; intros o' Ho; apply Ho).
    assert (Hpr : Forall (fun o => mo_ret o = []) pre) by (eapply Forall_impl; [|exact Hpre]; intros o' Ho; apply Ho).
    assert (Hpe : Forall (fun o => mo_err o = 0) pre) by (eapply Forall_impl; [|exact Hpre]; intros o' Ho; apply Ho).
    split.
    { rewrite !deliv_to_app, (deliv_to_quiet 1 pre Hpd). unfold deliv_to. cbn [filter].
      rewrite HB1, M1. cbn [Z.eqb Pos.eqb map concat List.app]. rewrite HB2. reflexivity. }
    split.
    { rewrite !deliv_to_app, (deliv_to_quiet 0 pre Hpd). unfold deliv_to. cbn [filter].
      rewrite HB1, M1. cbn [Z.eqb Pos.eqb map concat List.app]. rewrite M2. reflexivity. }
    split; [exact Hbody|]. split; [reflexivity|]. split; [reflexivity|]. split; [reflexivity|].
    split; [reflexivity|]. split; [reflexivity|]. split; [exact Hb2|]. split; [reflexivity|].
    split.
    { apply Forall_app. split; [apply Forall_app; split; [exact Hpe|constructor; [exact HB3|constructor]]|].
      constructor; [exact M3|constructor]. }
    split.
    { rewrite !map_app, !concat_app, (rets_quiet pre Hpr). cbn [map concat List.app]. rewrite HB4, M4. reflexivity. }
    rewrite last_snoc.
    split; [exact M4|].
    split; [rewrite M5; unfold sizes_of; rewrite Sa', Sb; reflexivity|].
    split; [exact Sa'|]. split; [exact Sb|]. split; [exact Sf|exact Sp].
  Qed.
End Both.

(* ------------------------------------------------------------------ top level *)
(* round trips of the download part (messages that reach A after the first block of the response) *)
Definition download_rounds (c : cfg) (len2 : Z) : Z :=
  let bB := buffer_size (Z.min (cszxA c) (cszxB c)) (cmaxB c) in (len2 + bB - 1) / bB - 1.

(* C04 progress: POST/PUT with a block-wise request AND a block-wise response, every SZX pair.
   n = 2 * (upload_rounds + download_rounds) Deliver events; round trips <= ceil(|req|/block) + ceil(|resp|/block). *)
Theorem C04_both_blockwise : forall c i x r,
  nth_error (cexch c) i = Some x -> xkind x = 0 -> xcode x = 2 \/ xcode x = 3 -> 0 <= xlen x ->
  0 <= cszxA c <= 7 -> 0 <= cszxB c <= 7 -> 0 <= cmaxA c -> (cszxA c = 7 -> 1024 <= cmaxA c) ->
  (Z.min (cszxA c) (cszxB c) = 7 -> 1024 <= cmaxB c) ->
  size (cszxA c) < xlen x -> ~ o2_region c (xlen x) ->
  nth_error (cres c) (Z.to_nat (xpath x)) = Some r ->
  let block := size (Z.min (cszxA c) (cszxB c)) in
  let L2 := blen (res_body r 0) in
  buffer_size (Z.min (cszxA c) (cszxB c)) (cmaxB c) < L2 ->
  let rounds := upload_rounds c (xlen x) + download_rounds c L2 in
  let n := (2 * Z.to_nat rounds)%nat in
  let script := Start i :: repeat (Deliver 0) n in
  let tr := run c (init c) script in
  let wf := exec c (init c) script in
  deliv_to 1 tr = [request_of x] /\ deliv_to 0 tr = [response_of c x r] /\
  Forall (fun o => mo_err o = 0) tr /\
  concat (map mo_ret tr) = [(Z.of_nat i, 0)] /\ mo_ret (last tr no_mob) = [(Z.of_nat i, 0)] /\
  mo_sizes (last tr no_mob) = [0; 0; 0; 0] /\
  wa wf = wa (init c) /\ wb wf = wb (init c) /\ flight wf = [] /\ pending wf = [] /\ vers wf = [] /\
  2 <= upload_rounds c (xlen x) /\ 1 <= download_rounds c L2 /\
  rounds <= (xlen x + block - 1) / block + (L2 + block - 1) / block.
Proof.
  intros c i x r Hnth Hkind Hcode Hlen HsA HsB HmA Hbert HmB Hbig Hno Hres block L2 Hlong rounds n script tr wf.
  pose proof (both_blockwise c i x r Hnth Hkind Hcode Hlen HsA HsB HmA Hbert Hbig Hno Hres HmB Hlong) as H.
  cbv zeta in H.
  set (m := Z.min (cszxA c) (cszxB c)) in *. set (bB := buffer_size m (cmaxB c)) in *.
  assert (Hm7 : 0 <= m <= 7) by (unfold m; lia).
  destruct (D.buffers_fit m m (cmaxB c) ltac:(lia) ltac:(lia) HmB) as [HbB [[kb [Hkb HbBk]] _]].
  fold bB in HbB, HbBk. pose proof (size_pos m Hm7) as Hs16. fold block in Hs16, HbBk.
  assert (HL0 : 0 <= L2) by apply blen_nonneg.
  assert (Hq1 : 1 <= download_rounds c L2).
  { unfold download_rounds. cbv zeta. fold m bB.
    assert (2 <= (L2 + bB - 1) / bB) by (apply Z.div_le_lower_bound; lia). lia. }
  assert (Hk1 : 2 <= upload_rounds c (xlen x)).
  { destruct (C04_upload_phase c i x Hnth Hkind Hcode Hlen HsA HsB HmA Hbert Hbig Hno) as [_ [_ [_ [Hk _]]]].
    cbv zeta in Hk. lia. }
  assert (Hn : n = (2 * Z.to_nat (upload_rounds c (xlen x) - 1) + 1 + (1 + 2 * Z.to_nat ((L2 + bB - 1) / bB - 1)))%nat).
  { unfold n, rounds. unfold download_rounds in *. cbv zeta in *. fold m bB in Hq1 |- *. lia. }
  unfold tr, wf, script. rewrite Hn.
  destruct H as [H1 [H2 [H3 [H4 [H5 [H6 [H7 [H8 [H9 [H10 [H11 _]]]]]]]]]]].
  split; [exact H1|]. split; [exact H2|]. split; [exact H3|]. split; [exact H4|]. split; [exact H5|].
  split; [exact H6|]. split; [exact H7|]. split; [exact H8|]. split; [exact H9|]. split; [exact H10|].
  split; [exact H11|]. split; [exact Hk1|]. split; [exact Hq1|].
  unfold rounds.
  pose proof (upload_rounds_bound c (xlen x) HsA HsB HmA Hbert Hlen) as Hub. fold m in Hub. fold block in Hub.
  assert (Hdb : download_rounds c L2 <= (L2 + block - 1) / block - 1).
  { unfold download_rounds. cbv zeta. fold m bB. rewrite HbBk.
    pose proof (ceil_mono L2 block kb HL0 ltac:(lia) Hkb). lia. }
  lia.
Qed.

(* the sibling: the response is at least one block but fits B's first buffer *)
Theorem C04_both_single_block : forall c i x r,
  nth_error (cexch c) i = Some x -> xkind x = 0 -> xcode x = 2 \/ xcode x = 3 -> 0 <= xlen x ->
  0 <= cszxA c <= 7 -> 0 <= cszxB c <= 7 -> 0 <= cmaxA c -> (cszxA c = 7 -> 1024 <= cmaxA c) ->
  size (cszxA c) < xlen x -> ~ o2_region c (xlen x) ->
  nth_error (cres c) (Z.to_nat (xpath x)) = Some r ->
  let m := Z.min (cszxA c) (cszxB c) in
  let L2 := blen (res_body r 0) in
  size m <= L2 <= buffer_size m (cmaxB c) ->
  let n := (2 * Z.to_nat (upload_rounds c (xlen x)))%nat in
  let script := Start i :: repeat (Deliver 0) n in
  let tr := run c (init c) script in
  let wf := exec c (init c) script in
  let handed := first_resp c x r in
  deliv_to 1 tr = [request_of x] /\ deliv_to 0 tr = [handed] /\
  mbody handed = res_body r 0 /\ mcode handed = resp_code (xcode x) /\ mtok handed = xtok x /\
  metag handed = res_etag r 0 /\ mother handed = [(12, rcf r)] /\ mb1 handed = None /\
  mb2 handed = Some {| bszx := m; bnum := 0; bmore := false |} /\ ms2 handed = Some L2 /\
  Forall (fun o => mo_err o = 0) tr /\
  concat (map mo_ret tr) = [(Z.of_nat i, 0)] /\ mo_ret (last tr no_mob) = [(Z.of_nat i, 0)] /\
  mo_sizes (last tr no_mob) = [0; 0; 1; 0] /\
  wa wf = wa (init c) /\ wb wf = with_sending (wb (init c)) [(xtok x, response_of c x r)] /\
  flight wf = [] /\ pending wf = [].
Proof.
  intros c i x r Hnth Hkind Hcode Hlen HsA HsB HmA Hbert Hbig Hno Hres m L2 Hfit n script tr wf handed.
  pose proof (both_single_block c i x r Hnth Hkind Hcode Hlen HsA HsB HmA Hbert Hbig Hno Hres Hfit) as H.
  cbv zeta in H.
  assert (Hk1 : 2 <= upload_rounds c (xlen x)).
  { destruct (C04_upload_phase c i x Hnth Hkind Hcode Hlen HsA HsB HmA Hbert Hbig Hno) as [_ [_ [_ [Hk _]]]].
    cbv zeta in Hk. lia. }
  assert (Hn : n = (2 * Z.to_nat (upload_rounds c (xlen x) - 1) + 2)%nat) by (unfold n; lia).
  unfold tr, wf, script. rewrite Hn. exact H.
Qed.

(* ------------------------------------------------------------------ witnesses by computation *)
Definition both_cfg (sa ma sb mb code len rlen : Z) : cfg :=
  Cfg sa ma sb mb [X 0 code 7 0 5 len None] [R 11 rlen true 42] [].
Definition both_summary (c : cfg) (n : nat) :=
  let tr := run c (init c) (Start 0 :: repeat (Deliver 0) n) in
  (map (fun mm => blen (mbody mm)) (deliv_to 1 tr),
   map (fun mm => (mcode mm, blen (mbody mm), mb2 mm)) (deliv_to 0 tr),
   err_count tr, concat (map mo_ret tr), mo_sizes (last tr no_mob)).

(* PUT of 150 bytes at SZX 2 against SZX 0 answered with 100 bytes: 10 + 6 round trips *)
Example both_demo :
  let c := both_cfg 2 1152 0 1152 3 150 100 in
  upload_rounds c 150 = 10 /\ download_rounds c 100 = 6 /\
  both_summary c 32 = ([150], [(65, 100, None)], 0, [(0, 0)], [0; 0; 0; 0]).
Proof. split; [reflexivity|]. split; [reflexivity|vm_compute; reflexivity]. Qed.

(* the single-block region: response of exactly one block (16 bytes at SZX 0) *)
Example both_single_demo :
  both_summary (both_cfg 2 1152 0 1152 3 150 16) 20 =
    ([150], [(65, 16, Some {| bszx := 0; bnum := 0; bmore := false |})], 0, [(0, 0)], [0; 0; 1; 0]).
Proof. vm_compute. reflexivity. Qed.

Print Assumptions C04_both_blockwise.
Print Assumptions C04_both_single_block.
