(* What the two applications supply in a C04 scenario (pure data, shared by the
   model and by the specification): the exchanges they start, the resources B
   serves, the configured block sizes, and the event script of the network. *)
From Coq Require Import ZArith List Bool.
From GoCoap Require Import Base.Bytes.
Import ListNotations.
Open Scope Z_scope.

(* resources served by B's application: version v of a resource has body
   gen_body (salt+v) (len+3v) and, if retag, ETag v+1; rcf = its Content-Format *)
Record res := R { rsalt : Z; rlen : Z; retag : bool; rcf : Z }.
Definition res_body (r : res) (v : Z) : list Z := gen_body (rsalt r + v) (Z.to_nat (rlen r + 3 * v)).
Definition res_etag (r : res) (v : Z) : option Z := if retag r then Some (v + 1) else None.

(* exchanges.  kind 0: A.Do(request); 1: A.WriteMessage(request) (one-way);
   2: B.WriteMessage(message carrying the current representation of resource xpath).
   Requests carry code xcode, token xtok, Uri-Path xpath and body gen_body xsalt xlen. *)
Record exch := X { xkind : Z; xcode : Z; xtok : Z; xpath : Z; xsalt : Z; xlen : Z; xobs : option Z }.

Record cfg := Cfg { cszxA : Z; cmaxA : Z; cszxB : Z; cmaxB : Z;
                    cexch : list exch; cres : list res; coutside : list (Z * Z) }.

Inductive ev :=
| Start (i : nat)      (* the application starts exchange i *)
| Deliver (j : nat)    (* in-flight message j reaches its destination (j > 0: it overtakes) *)
| Dup (j : nat)        (* ... and a copy stays in flight *)
| Drop (j : nat)       (* in-flight message j is lost *)
| Replay (h : nat)     (* the h-th message ever sent is delivered again *)
| Bump (k : Z)         (* resource k changes *)
| Timeout (i : nat)    (* the pending Do of exchange i gives up *)
| Expire (atB : bool). (* CheckExpirations far in the future *)

(* the script of a scenario with virtual time: the events above, the passing of d units of time
   (nothing is swept), CheckExpirations(now) at one side *)
Inductive tev :=
| Ev (e : ev)          (* an event of the untimed script *)
| Age (d : Z)          (* d units of time pass (nothing is swept) *)
| Sweep (atB : bool).  (* CheckExpirations now *)

(* the block-wise transfer timeout handed to blockwise.New (expiration), in units of virtual time:
   what an endpoint stores for a request without a context deadline is valid that long *)
Definition TRANSFER_TIMEOUT := 3600.

(* request context deadlines (context.WithTimeout): exchange index -> time the application allows,
   counted from the moment it starts the exchange; exchanges not listed have no deadline *)
Definition deadlines := list (nat * Z).
Fixpoint nassoc (l : deadlines) (i : nat) : option Z :=
  match l with [] => None | (j, d) :: r => if Nat.eqb i j then Some d else nassoc r i end.

Definition GET := 1. Definition POST := 2. Definition PUT := 3. Definition DELETE := 4.
Definition Created := 65. Definition Deleted := 66. Definition Changed := 68. Definition Content := 69.
Definition Continue := 95. Definition Incomplete := 136.

(* the response code B's application uses for a request code *)
Definition resp_code (c : Z) : Z :=
  if c =? GET then Content else if c =? POST then Changed else if c =? PUT then Created else Deleted.

Fixpoint zassoc (l : list (Z * Z)) (k : Z) : option Z :=
  match l with [] => None | (k', v) :: r => if k =? k' then Some v else zassoc r k end.
