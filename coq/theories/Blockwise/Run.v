(* Evaluators used by the correspondence shards of C04.  A case carries the
   scenario (configuration + event script) and, per event, what was observed on
   the two real blockwise.BlockWise instances. *)
From Coq Require Import ZArith NArith List Bool.
From GoCoap Require Import Base.Cases Base.Bytes Blockwise.Model.
From GoCoap Require Export Blockwise.Config Blockwise.Spec Blockwise.Timed Blockwise.SpecTime Blockwise.Deadline.
Import ListNotations.
Open Scope Z_scope.

(* the script of a case may contain the passing of time and sweeps (Timed.tev); the observed
   trace is compared with the run of the timed endpoints (Blockwise/Timed.v), which coincides
   with the run of Blockwise/Model.v on scripts without Age / Sweep (ProofsTimed.timed_conservative) *)
Inductive case :=
| Case (c : cfg) (es : list tev) (os : list obs)
  (* ... and the application may give a Do a request context with a deadline (exchange -> timeout):
     the observed trace is compared with the run of Blockwise/Deadline.v, which is Timed.trun when no
     exchange has a deadline (ProofsDeadline.deadline_conservative) *)
| CaseD (c : cfg) (dls : deadlines) (es : list tev) (os : list obs).

Definition proj_blk (b : option blk) : option (Z * Z * bool) :=
  match b with Some x => Some (bszx x, bnum x, bmore x) | None => None end.
Definition proj (m : msg) : pm :=
  PM (mcode m) (mtok m) (proj_blk (mb1 m)) (proj_blk (mb2 m)) (ms1 m) (ms2 m) (metag m) (mobs m)
     (mother m) (blen (mbody m)) (csum (mbody m)).
Definition proj_mob (o : mob) : obs :=
  Ob (mo_side o) (option_map proj (mo_in o))
     (match mo_wire o with Some (d, m) => Some (d, proj m) | None => None end)
     (map proj (mo_deliv o)) (mo_err o) (mo_ret o) (mo_sizes o) 0.

Definition oblk_eqb (a b : option (Z * Z * bool)) : bool :=
  match a, b with
  | Some (s, n, m), Some (s', n', m') => (s =? s') && (n =? n') && Bool.eqb m m'
  | None, None => true
  | _, _ => false
  end.
Definition pm_eqb (a b : pm) : bool :=
  (pcode a =? pcode b) && (ptok a =? ptok b) && oblk_eqb (pb1 a) (pb1 b) && oblk_eqb (pb2 a) (pb2 b)
  && oZ_eqb (ps1 a) (ps1 b) && oZ_eqb (ps2 a) (ps2 b) && oZ_eqb (petag a) (petag b) && oZ_eqb (pobs a) (pobs b)
  && list_eqb pair_eqb (pother a) (pother b) && (plen a =? plen b) && (psum a =? psum b).
Definition opm_eqb (a b : option pm) : bool :=
  match a, b with Some x, Some y => pm_eqb x y | None, None => true | _, _ => false end.
Definition owire_eqb (a b : option (bool * pm)) : bool :=
  match a, b with Some (d, x), Some (d', y) => Bool.eqb d d' && pm_eqb x y | None, None => true | _, _ => false end.
Definition obs_eqb (a b : obs) : bool :=
  (o_side a =? o_side b) && opm_eqb (o_in a) (o_in b) && owire_eqb (o_wire a) (o_wire b)
  && list_eqb pm_eqb (o_deliv a) (o_deliv b) && (o_err a =? o_err b)
  && list_eqb pair_eqb (o_ret a) (o_ret b) && list_eqb Z.eqb (o_sizes a) (o_sizes b) && (o_bad a =? o_bad b).

Definition model_obs (c : cfg) (es : list ev) : list obs := map proj_mob (run c (init c) es).
Definition model_obs_t (c : cfg) (es : list tev) : list obs := map proj_mob (trun c (tinit c) es).

Definition model_obs_d (c : cfg) (dls : deadlines) (es : list tev) : list obs :=
  map proj_mob (drun c dls (dinit c) es).

(* does the observed trace equal the model's, event by event? *)
Definition agrees (k : case) : bool :=
  match k with
  | Case c es os => list_eqb obs_eqb (model_obs_t c es) os
  | CaseD c dls es os => dls_ok c dls && list_eqb obs_eqb (model_obs_d c dls es) os
  end.

(* the property (Spec.c04_class, with class 1 refined by Spec.mix_class into 8 body delivered under
   another token / 9 bodies of distinct tokens spliced: Spec.c04_class_x) on the OBSERVED trace *)
(* ... then the clauses that need the clock and the shape of the script (SpecTime.c04_class_t): 10 / 11 a Do
   returned ok with the 2.31 Continue that just arrived (exchange in good standing / not), 12 the peers of a
   loss-free script keep exchanging blocks without end; a wrong response body (class 1) that is the beginning of
   one representation of the resource followed by the rest of a different one is class 13 *)
Definition pclass (k : case) : N :=
  match k with
  | Case c es os => c04_class_t c [] es os (untimed es)
  | CaseD c dls es os => c04_class_t c dls es os (untimed es)
  end.

Definition mismatches (cs : list case) : list N := bad_indices (fun c => negb (agrees c)) cs.
Definition property_failures (cs : list case) : list (N * N) := classes pclass cs.

(* debugging aid: index of the first event whose observation differs *)
Fixpoint first_diff (i : N) (a b : list obs) : option N :=
  match a, b with
  | [], [] => None
  | x :: a', y :: b' => if obs_eqb x y then first_diff (N.succ i) a' b' else Some i
  | _, _ => Some i
  end.
Definition where_differs (k : case) : option N :=
  match k with
  | Case c es os => first_diff 0%N (model_obs_t c es) os
  | CaseD c dls es os => first_diff 0%N (model_obs_d c dls es) os
  end.
