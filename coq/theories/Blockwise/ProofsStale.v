(* C04: "duplicated, stale, out-of-order ... blocks never corrupt, truncate or extend a body" at the step that
   decides it - the append-only reassembly of processReceivedMessage.  A block whose offset is not exactly the
   number of bytes held (and that does not announce another representation by a different ETag) leaves the
   reassembly buffer as it is: nothing is rewritten, nothing is cut off, nothing is handed to the application,
   whatever the block carries (no coherence assumption on the block: it may come from another transfer with the
   same token, from another representation without ETag, from anywhere).  The existing prefix theorems
   (Proofs.v) assume blocks that are slices of THE representation; under that assumption rewriting a block
   at a smaller offset is harmless, which is why they do not exclude seeded regression C04-11
   (off <= held instead of off = held).  These do. *)
From Coq Require Import ZArith Bool List Lia.
From GoCoap Require Import Base.Bytes Block.Model Blockwise.Config Blockwise.Model Blockwise.Proofs Blockwise.Spec
  Blockwise.Timed Blockwise.SpecTime Blockwise.Deadline Blockwise.Run.
Import ListNotations.
Open Scope Z_scope.

(* the ETag of block r does not announce a representation other than the one being reassembled in cm *)
Definition same_representation (r cm : msg) : Prop :=
  match metag r, metag cm with Some a, Some c => a = c | _, _ => True end.

Lemma reasm_off_held : forall cm r off,
  same_representation r cm -> off <> blen (mbody cm) -> reasm cm r off = (cm, false).
Proof.
  intros cm r off Hsame Hoff. unfold reasm, same_representation in *.
  assert (Hcm : match metag r, metag cm with
                | Some a, Some c => if a =? c then cm else set_body (set_etag cm (Some a)) []
                | _, _ => cm
                end = cm).
  { destruct (metag r) as [a|]; [|reflexivity]. destruct (metag cm) as [c|]; [|reflexivity].
    subst a. rewrite Z.eqb_refl. reflexivity. }
  rewrite Hcm. destruct (off =? blen (mbody cm)) eqn:E; [apply Z.eqb_eq in E; contradiction|reflexivity].
Qed.

(* append-only, for ANY block: what is held stays a prefix of what is held afterwards, and it is extended
   only by a block whose offset is the number of bytes held *)
Lemma reasm_append_only : forall cm r off cm' appended,
  same_representation r cm -> reasm cm r off = (cm', appended) ->
  (appended = true /\ off = blen (mbody cm) /\ mbody cm' = mbody cm ++ mbody r) \/ (appended = false /\ cm' = cm).
Proof.
  intros cm r off cm' appended Hsame H.
  destruct (Z.eq_dec off (blen (mbody cm))) as [E|E].
  - left. unfold reasm, same_representation in *.
    assert (Hcm : match metag r, metag cm with
                  | Some a, Some c => if a =? c then cm else set_body (set_etag cm (Some a)) []
                  | _, _ => cm
                  end = cm).
    { destruct (metag r) as [a|]; [|reflexivity]. destruct (metag cm) as [c|]; [|reflexivity].
      subst a. rewrite Z.eqb_refl. reflexivity. }
    rewrite Hcm in H. rewrite E, Z.eqb_refl in H. inversion H; subst. auto.
  - right. rewrite (reasm_off_held cm r off Hsame E) in H. inversion H; subst. auto.
Qed.

Section Step.
  Variable app : Z -> msg -> option msg.

  (* processReceivedMessage, any endpoint, any block message r of a non-GET/DELETE exchange that is not a
     notification, any block-size limit, whatever getSentRequest found: if a reassembly is under way for the
     token (cm) and the block's offset is not the number of bytes held, nothing is handed to the application
     and the entry is afterwards exactly what it was - or it is gone and the step is an error (4.08 + error
     callback: the refused restart of a POST/PUT response at block 0, buffer empty). *)
  Theorem stale_block_inert : forall e r maxszx (isb1 : bool) sent b cm,
    (mcode r =? GET) || (mcode r =? DELETE) = false ->
    (if isb1 then mb1 r else mb2 r) = Some b ->
    is_observe_response r = false ->
    tget (receiving e) (mtok r) = Some cm ->
    same_representation r cm ->
    bnum b * size (bszx b) <> blen (mbody cm) ->
    let res := process_received_s app e r maxszx isb1 sent in
    snd res = [] /\
    (tget (receiving (fst (fst res))) (mtok r) = Some cm \/
     (tget (receiving (fst (fst res))) (mtok r) = None /\ snd (fst res) = Fail)).
  Proof.
    intros e r maxszx isb1 sent b cm Hget Hb Hobs Hc Hsame Hoff. cbv zeta.
    unfold process_received_s. rewrite Hget, Hb.
    destruct (if isb1 then false else match sent with None => true | Some _ => false end).
    { cbn [fst snd]. split; [reflexivity|left; exact Hc]. }
    unfold observe_key. rewrite Hobs. cbn [negb].
    rewrite Hc.
    assert (Hre : reasm cm r (bnum b * size (bszx b)) = (cm, false)) by (apply reasm_off_held; assumption).
    destruct (bmore b); rewrite Hre; cbn [andb].
    all: destruct (refuse_restart isb1 (blen (mbody cm) / size (Z.min (bszx b) maxszx)) sent).
    all: cbn [fst snd]; split; [reflexivity|].
    all: cbn [receiving with_receiving].
    all: try (right; split; [rewrite tget_tdel_same; reflexivity|reflexivity]).
    all: left; apply tget_tput_same.
  Qed.

  (* ... in particular a stale LAST block (M = 0) inside the bytes held never completes the transfer *)
  Corollary stale_last_block_never_completes : forall e r maxszx (isb1 : bool) sent b cm,
    (mcode r =? GET) || (mcode r =? DELETE) = false ->
    (if isb1 then mb1 r else mb2 r) = Some b -> bmore b = false ->
    is_observe_response r = false ->
    tget (receiving e) (mtok r) = Some cm ->
    same_representation r cm ->
    bnum b * size (bszx b) < blen (mbody cm) ->
    snd (process_received_s app e r maxszx isb1 sent) = [].
  Proof.
    intros e r maxszx isb1 sent b cm Hget Hb _ Hobs Hc Hsame Hoff.
    pose proof (stale_block_inert e r maxszx isb1 sent b cm Hget Hb Hobs Hc Hsame ltac:(lia)) as H.
    cbv zeta in H. tauto.
  Qed.
End Step.

(* The history of the seeded regression on the model (harness family c04StaleBlockFamily, base download-longer):
   a download of 75 bytes without ETag completes (10 deliveries); the resource gets new content six times (93
   bytes now); the token is used again; after 10 deliveries A holds 80 bytes; the network replays message 9 of
   the wire history - the LAST block of the first download (NUM 4, M = 0, 11 bytes of the OLD content, offset
   64 < 80).  It is not taken; the download completes with exactly the 93 new bytes. *)
Definition staleblk_cfg : cfg := Cfg 0 1152 0 1152 [X 0 1 7 0 5 0 None] [R 11 75 false 42] [].
Definition staleblk_es : list tev :=
  map Ev (Start 0 :: repeat (Deliver 0) 10 ++ repeat (Bump 0) 6 ++ Start 0 :: repeat (Deliver 0) 10 ++ Replay 9 :: repeat (Deliver 0) 8).

Lemma stale_last_block_history :
  (exists o m, nth_error (model_obs_t staleblk_cfg staleblk_es) 28 = Some o /\ o_side o = 0 /\ o_in o = Some m /\
               pb2 m = Some (0, 4, false) /\ plen m = 11 /\ o_deliv o = [] /\ o_err o = 0) /\
  (exists o d, In o (model_obs_t staleblk_cfg staleblk_es) /\ o_ret o = [(0, 0)] /\ o_deliv o = [d] /\
               plen d = 93 /\ psum d = csum (res_body (R 11 75 false 42) 6)) /\
  c04_class_t staleblk_cfg [] staleblk_es (model_obs_t staleblk_cfg staleblk_es) (untimed staleblk_es) = 0%N.
Proof.
  split; [|split].
  - eexists; eexists. vm_compute. repeat split; reflexivity.
  - assert (H : exists o, nth_error (model_obs_t staleblk_cfg staleblk_es) 31 = Some o /\
                  exists d, o_ret o = [(0, 0)] /\ o_deliv o = [d] /\ plen d = 93 /\
                            psum d = csum (res_body (R 11 75 false 42) 6)).
    { eexists. split; [vm_compute; reflexivity|]. eexists. vm_compute. repeat split; reflexivity. }
    destruct H as [o [Hn [d Hd]]]. exists o, d. split; [eapply nth_error_In; exact Hn|exact Hd].
  - vm_compute. reflexivity.
Qed.
