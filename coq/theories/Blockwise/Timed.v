(* The block-wise endpoints of Blockwise/Model.v with the two caches as they are:
   pkg/cache.Cache, every element with its validity deadline, under a virtual clock.

   Model.v keeps the two token tables as plain maps and knows one way of forgetting
   (the far-future sweep).  Here each element carries [ValidUntil]:
     Cache.Load          hides an element whose deadline has passed       (cload)
     Cache.LoadOrStore   keeps a valid element, REPLACES an expired one   (cload / cstore)
     Map.LoadWithFunc    (getSentRequest, continueSendingMessage) does NOT look at the
                         deadline                                          (craw)
     Delete              removes whatever is there                         (cdel)
     CheckExpirations t  removes the elements with deadline < t; the onExpire callback
                         of a reassembly element deletes the sending element of its key
   An element is stored with deadline now + EXP (getValidUntil / Do / startSendingMessage /
   handleObserveResponse for a request without a context deadline - requests are issued
   that way here; a request whose context has a deadline is stored valid until THAT instant,
   earlier or later than now + EXP: Blockwise/Deadline.v, which is this file when no request
   has one).
   Everything else - createSendingMessage, the reassembly step, the messages - is shared
   with Model.v; the functions below are the same transcription of blockwise.go with the
   cache operations spelled out.  Blockwise/ProofsTimed.v relates the two. *)
From Coq Require Import ZArith List Bool.
From GoCoap Require Import Base.Bytes Gen.BlockConsts Block.Model Blockwise.Config Blockwise.Model.
Import ListNotations.
Open Scope Z_scope.

(* the expiration handed to blockwise.New, in units of virtual time *)
Definition EXP := 3600.

Definition cache := list (Z * (Z * msg)).   (* key -> (ValidUntil, data) *)

(* Element.IsExpired: now.After(ValidUntil) *)
Definition expired (now dl : Z) : bool := dl <? now.

Fixpoint craw (c : cache) (k : Z) : option (Z * msg) :=
  match c with [] => None | (k', v) :: r => if k =? k' then Some v else craw r k end.
Fixpoint cdel (c : cache) (k : Z) : cache :=
  match c with [] => [] | (k', v) :: r => if k =? k' then cdel r k else (k', v) :: cdel r k end.
Definition cload (now : Z) (c : cache) (k : Z) : option msg :=
  match craw c k with Some (dl, v) => if expired now dl then None else Some v | None => None end.
(* the storing branch of LoadOrStore (no element, or an expired one that is replaced) *)
Definition cstore (c : cache) (k dl : Z) (v : msg) : cache := (k, (dl, v)) :: cdel c k.
(* the data of a valid element changes in place (the payload file of a reassembly entry grows) *)
Definition cupdate (c : cache) (k : Z) (v : msg) : cache :=
  match craw c k with Some (dl, _) => (k, (dl, v)) :: cdel c k | None => c end.
(* getCachedReceivedMessage + copyToPayloadFromOffset: the valid element is used, otherwise a new one
   is stored (LoadOrStore after Load returned nil); the block is written into it *)
Definition cput (now : Z) (c : cache) (k : Z) (v : msg) : cache :=
  match cload now c k with Some _ => cupdate c k v | None => cstore c k (now + EXP) v end.
(* CheckExpirations t *)
Definition ckeep (t : Z) (c : cache) : cache := filter (fun p => negb (expired t (fst (snd p)))) c.
Definition cgone (t : Z) (c : cache) : list Z := map fst (filter (fun p => expired t (fst (snd p))) c).

Record tep := { tsnd : cache; trcv : cache; tszx : Z; tmax : Z;
                toutside : list (Z * Z); tfresh : Z; thid : Z }.
Definition with_tsnd (e : tep) (s : cache) : tep :=
  {| tsnd := s; trcv := trcv e; tszx := tszx e; tmax := tmax e;
     toutside := toutside e; tfresh := tfresh e; thid := thid e |}.
Definition with_trcv (e : tep) (r : cache) : tep :=
  {| tsnd := tsnd e; trcv := r; tszx := tszx e; tmax := tmax e;
     toutside := toutside e; tfresh := tfresh e; thid := thid e |}.
Definition with_tcounters (e : tep) (f h : Z) : tep :=
  {| tsnd := tsnd e; trcv := trcv e; tszx := tszx e; tmax := tmax e;
     toutside := toutside e; tfresh := f; thid := h |}.

(* startSendingMessage *)
Definition tstart_sending (now : Z) (e : tep) (w : option msg) (maxszx maxmsg : Z) (b : blk) : tep * outcome :=
  match w with
  | None => (e, Out None)
  | Some wm =>
    if blen (mbody wm) <? size maxszx then (e, Out w)
    else match create_sending wm maxszx maxmsg b with
         | None => (e, Fail)
         | Some (sm, _) =>
           if is_observe_response sm then (e, Out (Some sm))
           else match cload now (tsnd e) (mtok sm) with        (* LoadOrStore *)
                | Some _ => (e, Fail)
                | None => (with_tsnd e (cstore (tsnd e) (mtok sm) (now + EXP) wm), Out (Some sm))
                end
         end
  end.

(* getSentRequest: LoadWithFunc - an element is found whether its deadline has passed or not *)
Definition tget_sent_request (e : tep) (tok : Z) : option msg :=
  match craw (tsnd e) tok with
  | Some (_, m) => Some (set_body m [])
  | None => match zassoc (toutside e) tok with Some p => Some (outside_request tok p) | None => None end
  end.

(* handleObserveResponse *)
Definition tobserve_key (now : Z) (e : tep) (r : msg) (b : blk) (sent : option msg) : tep * Z * bool :=
  if is_observe_response r then
    match sent with
    | None => (e, mtok r, false)
    | Some sr =>
      let key := if bmore b then FRESH + tfresh e else - (1 + thid e) in
      let e' := if bmore b then with_tcounters e (tfresh e + 1) (thid e) else with_tcounters e (tfresh e) (thid e + 1) in
      (with_tsnd e' (cstore (tsnd e') key (now + EXP) (set_tok sr key)), key, true)
    end
  else (e, mtok r, true).

Section THandle.
  Variable app : Z -> msg -> option msg.
  Variable now : Z.

  (* processReceivedMessage *)
  Definition tprocess_received (e : tep) (r : msg) (maxszx : Z) (isb1 : bool) : tep * outcome * list msg :=
    if (mcode r =? GET) || (mcode r =? DELETE) then (e, Out (app (mtok r) r), [r])
    else
    match (if isb1 then mb1 r else mb2 r) with
    | None =>
      if isb1 && match mb2 r with Some b2 => negb (bnum b2 =? 0) | None => false end then (e, Fail, [])
      else (e, Out (app (mtok r) r), [r])
    | Some b =>
      let sent := tget_sent_request e (mtok r) in
      match (if isb1 then false else match sent with None => true | Some _ => false end) with
      | true => (e, Fail, [])
      | false =>
        let '(e0, key, obs_ok) := tobserve_key now e r b sent in
        if negb obs_ok then (e0, Fail, [])
        else
        let cached := cload now (trcv e0) key in                (* receivingMessagesCache.Load *)
        let szx0 := match cached with None => Z.min (bszx b) maxszx | Some _ => bszx b end in
        match cached, bmore b with
        | None, false =>
            if negb (bnum b =? 0) then (e0, Fail, []) else (e0, Out (app (mtok r) r), [r])
        | _, _ =>
          let cm := match cached with Some c => c | None => set_body r [] end in
          let off := bnum b * size szx0 in
          let '(cm', appended) := reasm cm r off in
          let e2 := with_trcv e0 (cput now (trcv e0) key cm') in
          if appended && negb (bmore b) then
            let full := set_block isb1 cm' None None in
            let e3 := with_trcv e2 (cdel (trcv e2) key) in
            let e4 := if mtok cm' =? key then e3 else with_tsnd e3 (cdel (tsnd e3) key) in
            (e4, Out (app (mtok r) full), [full])
          else
            let szx := Z.min szx0 maxszx in
            let psize := blen (mbody cm') in
            if refuse_restart isb1 (psize / size szx) sent then (with_trcv e2 (cdel (trcv e2) key), Fail, [])
            else
            let sm :=
              if isb1 then
                {| mcode := Continue; mtok := key; mb1 := Some {| bszx := szx; bnum := bnum b; bmore := bmore b |};
                   mb2 := None; ms1 := None; ms2 := None; metag := None; mobs := None; mother := []; mbody := [] |}
              else match sent with
                   | Some sr =>
                     {| mcode := mcode sr; mtok := key; mb1 := None;
                        mb2 := Some {| bszx := szx; bnum := psize / size szx; bmore := bmore b |};
                        ms1 := None; ms2 := ms2 sr; metag := metag sr; mobs := None; mother := mother sr; mbody := [] |}
                   | None => entity_incomplete key
                   end in
            (e2, Out (Some sm), [])
        end
      end
    end.

  (* handleReceivedMessage *)
  Definition thandle_received (e : tep) (r : msg) : tep * outcome * list msg :=
    let maxszx := tszx e in
    let start := {| bszx := maxszx; bnum := 0; bmore := true |} in
    if (mcode r =? 0) || ((225 <=? mcode r) && (mcode r <=? 229)) then (e, Out (app (mtok r) r), [r])
    else if (mcode r =? GET) || (mcode r =? DELETE) then
      let mx := fit (mb2 r) maxszx in
      let w := app (mtok r) r in
      let start := match w, mb2 r with Some wm, Some b => if mcode wm =? Content then b else start | _, _ => start end in
      let '(e', o) := tstart_sending now e w mx (tmax e) start in (e', o, [r])
    else
      let isb1 := is_upload (mcode r) in
      let mx := fit (if isb1 then mb1 r else mb2 r) maxszx in
      let '(e1, o, d) := tprocess_received e r mx isb1 in
      match o with
      | Fail => (e1, Fail, d)
      | Out w => let '(e2, o2) := tstart_sending now e1 w mx (tmax e) start in (e2, o2, d)
      end.

  (* continueSendingMessage + the clean-up in Handle *)
  Definition tcontinue_sending (e : tep) (r : msg) (orig : msg) : tep * option msg * bool :=
    let up := is_upload (mcode orig) in
    match (if up then mb1 r else mb2 r) with
    | None => (with_tsnd e (cdel (tsnd e) (mtok r)), None, true)
    | Some b =>
      match create_sending orig (tszx e) (tmax e) b with
      | None => (with_tsnd e (cdel (tsnd e) (mtok r)), None, true)
      | Some (sm, more) =>
        let e' := if negb more && (DELETE <? mcode orig) then with_tsnd e (cdel (tsnd e) (mtok r)) else e in
        (e', Some sm, false)
      end
    end.

  (* Handle; getSendingMessageCode is a Cache.Load: an expired sending element does not exist for it *)
  Definition thandle (e : tep) (r : msg) : tep * option msg * list msg * Z :=
    let received :=
      let '(e', o, d) := thandle_received e r in
      match o with
      | Out w => (e', w, d, 0)
      | Fail => (e', Some (entity_incomplete (mtok r)), d, 1)
      end in
    match cload now (tsnd e) (mtok r) with
    | Some orig =>
      if wants_to_be_received r then received
      else let '(e', w, err) := tcontinue_sending e r orig in (e', w, [], if err then 1 else 0)
    | None => received
    end.
End THandle.

(* Do *)
Definition tdo_start (now : Z) (e : tep) (r : msg) : tep * option msg :=
  match cload now (tsnd e) (mtok r) with                       (* LoadOrStore *)
  | Some _ => (e, None)
  | None =>
    let e1 := with_tsnd e (cstore (tsnd e) (mtok r) (now + EXP) r) in
    let psize := blen (mbody r) in
    if psize <=? size (tszx e) then (e1, Some r)
    else if negb (is_upload (mcode r)) then (with_tsnd e1 (cdel (tsnd e1) (mtok r)), None)
    else
      let buflen := buffer_size (tszx e) (tmax e) in
      (e1, Some (set_body (set_block true r (Some {| bszx := tszx e; bnum := 0; bmore := true |}) (Some psize))
                          (firstn (Z.to_nat buflen) (mbody r))))
  end.

(* WriteMessage *)
Definition twrite_start (now : Z) (e : tep) (r : msg) : tep * outcome :=
  tstart_sending now e (Some r) (tszx e) (tmax e) {| bszx := tszx e; bnum := 0; bmore := true |}.

(* CheckExpirations t: the reassembly cache first (onExpire deletes the sending element of the key),
   then the sending cache *)
Definition tsweep (t : Z) (e : tep) : tep :=
  let s1 := fold_left cdel (cgone t (trcv e)) (tsnd e) in
  with_tsnd (with_trcv e (ckeep t (trcv e))) (ckeep t s1).

(* ------------------------------------------------------------------------ *)
(* the two endpoints, the network and the clock                                *)

(* the script type [tev] = Ev e | Age d | Sweep side is pure scenario data: Blockwise/Config.v *)

Record tworld := { twa : tep; twb : tep; tflight : list (bool * msg); twhist : list (bool * msg);
                   tvers : list (Z * Z); tpending : list (nat * Z); tnow : Z }.

Definition tsizes_of (w : tworld) : list Z :=
  [blen (tsnd (twa w)); blen (trcv (twa w)); blen (tsnd (twb w)); blen (trcv (twb w))].

Definition temit (w : tworld) (toB : bool) (o : option msg) : tworld :=
  match o with
  | None => w
  | Some m => {| twa := twa w; twb := twb w; tflight := tflight w ++ [(toB, m)]; twhist := twhist w ++ [(toB, m)];
                 tvers := tvers w; tpending := tpending w; tnow := tnow w |}
  end.
Definition with_ta (w : tworld) (e : tep) : tworld :=
  {| twa := e; twb := twb w; tflight := tflight w; twhist := twhist w; tvers := tvers w; tpending := tpending w; tnow := tnow w |}.
Definition with_tb (w : tworld) (e : tep) : tworld :=
  {| twa := twa w; twb := e; tflight := tflight w; twhist := twhist w; tvers := tvers w; tpending := tpending w; tnow := tnow w |}.
Definition with_tflight (w : tworld) (f : list (bool * msg)) : tworld :=
  {| twa := twa w; twb := twb w; tflight := f; twhist := twhist w; tvers := tvers w; tpending := tpending w; tnow := tnow w |}.
Definition with_tpending (w : tworld) (p : list (nat * Z)) : tworld :=
  {| twa := twa w; twb := twb w; tflight := tflight w; twhist := twhist w; tvers := tvers w; tpending := p; tnow := tnow w |}.
Definition with_tvers (w : tworld) (v : list (Z * Z)) : tworld :=
  {| twa := twa w; twb := twb w; tflight := tflight w; twhist := twhist w; tvers := v; tpending := tpending w; tnow := tnow w |}.
Definition with_tnow (w : tworld) (t : Z) : tworld :=
  {| twa := twa w; twb := twb w; tflight := tflight w; twhist := twhist w; tvers := tvers w; tpending := tpending w; tnow := t |}.

Definition tquiet (w : tworld) : tworld * mob :=
  (w, {| mo_side := 2; mo_in := None; mo_wire := None; mo_deliv := []; mo_err := 0; mo_ret := []; mo_sizes := tsizes_of w |}).

(* pending Do calls whose token got a delivery return; their deferred Delete removes the element of the token *)
Fixpoint tcomplete (p : list (nat * Z)) (d : list msg) (e : tep) : list (nat * Z) * tep * list (Z * Z) :=
  match p with
  | [] => ([], e, [])
  | (i, t) :: r =>
    if existsb (fun m => mtok m =? t) d then
      let '(p', e', rets) := tcomplete r d (with_tsnd e (cdel (tsnd e) t)) in
      (p', e', (Z.of_nat i, 0) :: rets)
    else
      let '(p', e', rets) := tcomplete r d e in ((i, t) :: p', e', rets)
  end.

Definition tarrive (c : cfg) (w : tworld) (toB : bool) (m : msg) : tworld * mob :=
  if toB then
    let '(e', o, d, nerr) := thandle (app_b c (tvers w)) (tnow w) (twb w) m in
    let w1 := temit (with_tb w e') false o in
    (w1, {| mo_side := 1; mo_in := Some m; mo_wire := match o with Some x => Some (false, x) | None => None end;
            mo_deliv := d; mo_err := nerr; mo_ret := []; mo_sizes := tsizes_of w1 |})
  else
    let '(e', o, d, nerr) := thandle app_a (tnow w) (twa w) m in
    let '(p', e'', rets) := tcomplete (tpending w) d e' in
    let w1 := temit (with_tpending (with_ta w e'') p') true o in
    (w1, {| mo_side := 0; mo_in := Some m; mo_wire := match o with Some x => Some (true, x) | None => None end;
            mo_deliv := d; mo_err := nerr; mo_ret := rets; mo_sizes := tsizes_of w1 |}).

Definition tstarted (w1 : tworld) (toB : bool) (o : option msg) (rets : list (Z * Z)) : tworld * mob :=
  let w2 := temit w1 toB o in
  (w2, {| mo_side := 2; mo_in := None; mo_wire := match o with Some x => Some (toB, x) | None => None end;
          mo_deliv := []; mo_err := 0; mo_ret := rets; mo_sizes := tsizes_of w2 |}).

Definition tnotification_of (c : cfg) (w : tworld) (x : exch) : msg := notification_of c (tvers w) x.

Definition tstep (c : cfg) (w : tworld) (te : tev) : tworld * mob :=
  match te with
  | Age d => tquiet (with_tnow w (tnow w + Z.max 0 d))
  | Sweep atB =>
    if atB then tquiet (with_tb w (tsweep (tnow w) (twb w))) else tquiet (with_ta w (tsweep (tnow w) (twa w)))
  | Ev e =>
    match e with
    | Start i =>
      match nth_error (cexch c) i with
      | None => tquiet w
      | Some x =>
        let zi := Z.of_nat i in
        if xkind x =? 0 then
          let '(e', o) := tdo_start (tnow w) (twa w) (request_of x) in
          match o with
          | Some m => tstarted (with_tpending (with_ta w e') (tpending w ++ [(i, xtok x)])) true (Some m) []
          | None => tstarted (with_ta w e') true None [(zi, 1)]
          end
        else if xkind x =? 1 then
          let '(e', o) := twrite_start (tnow w) (twa w) (request_of x) in
          match o with
          | Out m => tstarted (with_ta w e') true m [(zi, 0)]
          | Fail => tstarted (with_ta w e') true None [(zi, 1)]
          end
        else
          let '(e', o) := twrite_start (tnow w) (twb w) (tnotification_of c w x) in
          match o with
          | Out m => tstarted (with_tb w e') false m [(zi, 0)]
          | Fail => tstarted (with_tb w e') false None [(zi, 1)]
          end
      end
    | Deliver j =>
      match nth_error (tflight w) j with
      | None => tquiet w
      | Some (toB, m) => tarrive c (with_tflight w (remove_nth j (tflight w))) toB m
      end
    | Dup j =>
      match nth_error (tflight w) j with
      | None => tquiet w
      | Some (toB, m) => tarrive c w toB m
      end
    | Drop j => tquiet (with_tflight w (remove_nth j (tflight w)))
    | Replay h =>
      match nth_error (twhist w) h with
      | None => tquiet w
      | Some (toB, m) => tarrive c w toB m
      end
    | Bump k => tquiet (with_tvers w (bump (tvers w) k))
    | Timeout i =>
      match find (fun p => Nat.eqb (fst p) i) (tpending w) with
      | None => tquiet w
      | Some (_, t) =>
        let w1 := with_tpending (with_ta w (with_tsnd (twa w) (cdel (tsnd (twa w)) t)))
                                (filter (fun p => negb (Nat.eqb (fst p) i)) (tpending w)) in
        (w1, {| mo_side := 2; mo_in := None; mo_wire := None; mo_deliv := []; mo_err := 0;
                mo_ret := [(Z.of_nat i, 2)]; mo_sizes := tsizes_of w1 |})
      end
    | Expire atB =>   (* CheckExpirations(now + 2 * expiration) *)
      if atB then tquiet (with_tb w (tsweep (tnow w + 2 * EXP) (twb w)))
      else tquiet (with_ta w (tsweep (tnow w + 2 * EXP) (twa w)))
    end
  end.

Definition new_tep (szx maxm : Z) (outside : list (Z * Z)) : tep :=
  {| tsnd := []; trcv := []; tszx := szx; tmax := maxm; toutside := outside; tfresh := 0; thid := 0 |}.
Definition tinit (c : cfg) : tworld :=
  {| twa := new_tep (cszxA c) (cmaxA c) (coutside c); twb := new_tep (cszxB c) (cmaxB c) [];
     tflight := []; twhist := []; tvers := []; tpending := []; tnow := 0 |}.

Fixpoint trun (c : cfg) (w : tworld) (es : list tev) : list mob :=
  match es with
  | [] => []
  | e :: r => let '(w', o) := tstep c w e in o :: trun c w' r
  end.

(* the untimed part of a script (what the specification looks at: resource changes) *)
Fixpoint untimed (es : list tev) : list ev :=
  match es with
  | [] => []
  | Ev e :: r => e :: untimed r
  | _ :: r => untimed r
  end.

(* ------------------------------------------------------------------------ *)
(* what an endpoint of Model.v sees of a timed endpoint: the elements that are valid now *)
Fixpoint live (now : Z) (c : cache) : tbl :=
  match c with
  | [] => []
  | (k, (dl, v)) :: r => if expired now dl then live now r else (k, v) :: live now r
  end.
Definition view (now : Z) (e : tep) : ep :=
  {| sending := live now (tsnd e); receiving := live now (trcv e); eszx := tszx e; emax := tmax e;
     eoutside := toutside e; efresh := tfresh e; ehid := thid e |}.
