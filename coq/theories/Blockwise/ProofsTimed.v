(* C04 with virtual time: Blockwise/Timed.v (the caches with validity deadlines) against
   Blockwise/Model.v.

   1. cache algebra: what the valid elements of a cache ([live]) look like after each
      cache operation;
   2. one Handle step: the timed endpoint behaves as the endpoint of Model.v that holds
      exactly the elements valid now (its [view]) - an element whose deadline has passed
      is invisible - with ONE exception spelled out in the statement: getSentRequest
      (LoadWithFunc) still finds an expired sending element ([tget_sent_request]);
   3. corollaries: an expired reassembly element is invisible to Handle, a token reused
      after the deadline behaves as a fresh one;
   4. ALL timed scripts (time passing and sweeps at any point): safety, exactly once,
      the whole Spec.c04_ok;
   5. scripts without Age / Sweep: the timed run IS the run of Model.v (all theorems
      about [run] are theorems about the timed system at rest);
   6. two concrete histories (the getSentRequest exception; the seeded regression's). *)
From Coq Require Import ZArith List Bool Lia.
From GoCoap Require Import Base.Bytes Gen.BlockConsts Block.Model Blockwise.Config Blockwise.Model
  Blockwise.Spec Blockwise.Proofs Blockwise.Timed Blockwise.Run Blockwise.ProofsExchange.
Import ListNotations.
Open Scope Z_scope.

(* ------------------------------------------------------------------------ *)
(* 1. cache algebra                                                          *)
Definition cwf (c : cache) : Prop := NoDup (map fst c).

Lemma cdel_keys c k x : In x (map fst (cdel c k)) -> In x (map fst c) /\ x <> k.
Proof.
  induction c as [|[k' v] c IH]; cbn [cdel map fst]; [intros []|].
  destruct (k =? k') eqn:E.
  - intros H. destruct (IH H) as [H1 H2]. split; [right; exact H1|exact H2].
  - cbn [map fst]. intros [<-|H].
    + split; [left; reflexivity|]. apply Z.eqb_neq in E. congruence.
    + destruct (IH H) as [H1 H2]. split; [right; exact H1|exact H2].
Qed.
Lemma cwf_cdel c k : cwf c -> cwf (cdel c k).
Proof.
  unfold cwf. induction c as [|[k' v] c IH]; cbn [cdel map fst]; [auto|].
  intros H. inversion H as [|? ? Hn Hd]; subst. destruct (k =? k'); [apply IH; exact Hd|].
  cbn [map fst]. constructor; [|apply IH; exact Hd]. intros Hin. apply cdel_keys in Hin. apply Hn, Hin.
Qed.
Lemma cwf_cstore c k dl v : cwf c -> cwf (cstore c k dl v).
Proof.
  intros H. unfold cstore, cwf. cbn [map fst]. constructor; [|apply cwf_cdel; exact H].
  intros Hin. apply cdel_keys in Hin. destruct Hin as [_ Hne]. congruence.
Qed.
Lemma cwf_cupdate c k v : cwf c -> cwf (cupdate c k v).
Proof.
  intros H. unfold cupdate. destruct (craw c k) as [[dl old]|]; [|exact H]. apply (cwf_cstore c k dl v H).
Qed.
Lemma cwf_cput now c k v : cwf c -> cwf (cput now c k v).
Proof. intros H. unfold cput. destruct (cload now c k); [apply cwf_cupdate|apply cwf_cstore]; exact H. Qed.

Lemma craw_cdel c k k' : craw (cdel c k) k' = if k' =? k then None else craw c k'.
Proof.
  induction c as [|[a v] c IH]; cbn [cdel craw]; [destruct (k' =? k); reflexivity|].
  destruct (k =? a) eqn:E.
  - rewrite IH. apply Z.eqb_eq in E. subst a. destruct (k' =? k); reflexivity.
  - cbn [craw]. rewrite IH. destruct (k' =? a) eqn:E2; [|reflexivity].
    apply Z.eqb_eq in E2. subst a. rewrite Z.eqb_sym, E. reflexivity.
Qed.
Lemma craw_cstore c k dl v k' : craw (cstore c k dl v) k' = if k' =? k then Some (dl, v) else craw c k'.
Proof. unfold cstore. cbn [craw]. rewrite craw_cdel. destruct (k' =? k); reflexivity. Qed.
Lemma craw_none_keys c k : craw c k = None -> ~ In k (map fst c).
Proof.
  induction c as [|[a v] c IH]; cbn [craw map fst]; [auto|]. destruct (k =? a) eqn:E; [discriminate|].
  intros H [Ha|Hin]; [apply Z.eqb_neq in E; congruence|exact (IH H Hin)].
Qed.

(* the valid elements after each operation *)
Lemma live_keys now c x : In x (map fst (live now c)) -> In x (map fst c).
Proof.
  induction c as [|[a [dl v]] c IH]; cbn [live map fst]; [auto|].
  destruct (expired now dl); cbn [map fst]; [intros H; right; exact (IH H)|intros [H|H]; [left; exact H|right; exact (IH H)]].
Qed.
Lemma live_tget now c k : cwf c -> tget (live now c) k = cload now c k.
Proof.
  unfold cload, cwf. induction c as [|[a [dl v]] c IH]; cbn [live craw map fst]; [reflexivity|].
  intros H. inversion H as [|? ? Hn Hd]; subst. specialize (IH Hd).
  destruct (k =? a) eqn:E.
  - apply Z.eqb_eq in E. subst a. destruct (expired now dl).
    + destruct (tget (live now c) k) eqn:Hg; [|reflexivity]. exfalso. apply Hn.
      apply live_keys with (now := now).
      clear - Hg. induction (live now c) as [|[a' v'] l IHl]; cbn [tget] in Hg; [discriminate|].
      cbn [map fst]. destruct (k =? a') eqn:E'; [left; apply Z.eqb_eq in E'; congruence|right; exact (IHl Hg)].
    + cbn [tget]. rewrite Z.eqb_refl. reflexivity.
  - destruct (expired now dl); [exact IH|]. cbn [tget]. rewrite E. exact IH.
Qed.
Lemma live_cdel now c k : live now (cdel c k) = tdel (live now c) k.
Proof.
  induction c as [|[a [dl v]] c IH]; cbn [cdel live]; [reflexivity|].
  destruct (k =? a) eqn:E.
  - destruct (expired now dl); [exact IH|]. cbn [tdel]. rewrite E. exact IH.
  - cbn [live]. destruct (expired now dl); [exact IH|]. cbn [tdel]. rewrite E, IH. reflexivity.
Qed.
Lemma live_cstore now c k dl v : expired now dl = false -> live now (cstore c k dl v) = tput (live now c) k v.
Proof. intros H. unfold cstore, tput. cbn [live]. rewrite H, live_cdel. reflexivity. Qed.
Lemma live_cupdate now c k v old : cload now c k = Some old -> live now (cupdate c k v) = tput (live now c) k v.
Proof.
  unfold cload, cupdate. destruct (craw c k) as [[dl o]|]; [|discriminate].
  destruct (expired now dl) eqn:E; [discriminate|]. intros _. apply (live_cstore now c k dl v E).
Qed.
Lemma expired_fresh now : expired now (now + EXP) = false.
Proof. unfold expired, EXP. apply Z.ltb_ge. lia. Qed.
Lemma live_cput now c k v : live now (cput now c k v) = tput (live now c) k v.
Proof.
  unfold cput. destruct (cload now c k) eqn:E; [eapply live_cupdate; exact E|apply live_cstore, expired_fresh].
Qed.

(* what an operation does to the raw contents: every element afterwards was there before, or is valid
   now with a deadline that is new (now + EXP) or the one it had *)
Definition frame (now : Z) (c c' : cache) : Prop :=
  forall k, craw c' k = craw c k \/ craw c' k = None \/
            exists dl v, craw c' k = Some (dl, v) /\ expired now dl = false /\
                         (dl = now + EXP \/ exists v0, craw c k = Some (dl, v0)).
Lemma frame_refl now c : frame now c c. Proof. intros k. left; reflexivity. Qed.
Lemma frame_trans now c1 c2 c3 : frame now c1 c2 -> frame now c2 c3 -> frame now c1 c3.
Proof.
  intros H12 H23 k. destruct (H23 k) as [H|[H|(dl & v & H & Hx & Hd)]]; [|right; left; exact H|].
  - rewrite H. apply H12.
  - right; right. exists dl, v. split; [exact H|]. split; [exact Hx|].
    destruct Hd as [Hd|[v0 Hd]]; [left; exact Hd|].
    destruct (H12 k) as [H'|[H'|(dl' & v' & H' & _ & Hd')]].
    + right. exists v0. rewrite <- H'. exact Hd.
    + rewrite H' in Hd. discriminate.
    + rewrite H' in Hd. injection Hd as -> ->. exact Hd'.
Qed.
Lemma frame_cdel now c k : frame now c (cdel c k).
Proof. intros k'. rewrite craw_cdel. destruct (k' =? k); [right; left; reflexivity|left; reflexivity]. Qed.
Lemma frame_cstore now c k v : frame now c (cstore c k (now + EXP) v).
Proof.
  intros k'. rewrite craw_cstore. destruct (k' =? k); [|left; reflexivity].
  right; right. exists (now + EXP), v. split; [reflexivity|]. split; [apply expired_fresh|left; reflexivity].
Qed.
Lemma frame_cput now c k v : frame now c (cput now c k v).
Proof.
  unfold cput, cload, cupdate. destruct (craw c k) as [[dl o]|] eqn:E; [|apply frame_cstore].
  destruct (expired now dl) eqn:Ex; [apply frame_cstore|].
  intros k'. change ((k, (dl, v)) :: cdel c k) with (cstore c k dl v). rewrite (craw_cstore c k dl v k').
  destruct (k' =? k) eqn:Ek; [|left; reflexivity].
  apply Z.eqb_eq in Ek. subst k'. right; right. exists dl, v. split; [reflexivity|]. split; [exact Ex|right; exists o; exact E].
Qed.

(* ------------------------------------------------------------------------ *)
(* 2. one step of an endpoint                                                *)
Definition twf (e : tep) : Prop := cwf (tsnd e) /\ cwf (trcv e).

(* how a step ends: the endpoint of Model.v reached from the view is the view of the timed endpoint
   reached; caches stay well-formed; nothing expired is created *)
Definition sim_res (now : Z) (te te' : tep) (e' : ep) : Prop :=
  view now te' = e' /\ twf te' /\ frame now (tsnd te) (tsnd te') /\ frame now (trcv te) (trcv te').

Lemma sim_res_refl now te : twf te -> sim_res now te te (view now te).
Proof. intros H. split; [reflexivity|]. split; [exact H|]. split; apply frame_refl. Qed.
Lemma sim_res_trans now te1 te2 te3 e3 :
  sim_res now te1 te2 (view now te2) -> sim_res now te2 te3 e3 -> sim_res now te1 te3 e3.
Proof.
  intros (_ & _ & F1 & F2) (V & W & G1 & G2). split; [exact V|]. split; [exact W|].
  split; eapply frame_trans; eassumption.
Qed.

Lemma view_with_tsnd now te s : view now (with_tsnd te s) = with_sending (view now te) (live now s).
Proof. reflexivity. Qed.
Lemma view_with_trcv now te r : view now (with_trcv te r) = with_receiving (view now te) (live now r).
Proof. reflexivity. Qed.

Lemma with_trcv_twice te x y : with_trcv (with_trcv te x) y = with_trcv te y. Proof. reflexivity. Qed.
Lemma with_receiving_twice e x y : with_receiving (with_receiving e x) y = with_receiving e y. Proof. reflexivity. Qed.

Section Sim.
  Variable app : Z -> msg -> option msg.
  Variable now : Z.

  Lemma tstart_sending_sim te w mx mm b : twf te ->
    let '(te', o) := tstart_sending now te w mx mm b in
    start_sending (view now te) w mx mm b = (view now te', o) /\ sim_res now te te' (view now te').
  Proof.
    intros Hwf. unfold tstart_sending, start_sending.
    destruct w as [wm|]; [|split; [reflexivity|apply sim_res_refl; exact Hwf]].
    destruct (blen (mbody wm) <? size mx); [split; [reflexivity|apply sim_res_refl; exact Hwf]|].
    destruct (create_sending wm mx mm b) as [[sm more]|]; [|split; [reflexivity|apply sim_res_refl; exact Hwf]].
    destruct (is_observe_response sm); [split; [reflexivity|apply sim_res_refl; exact Hwf]|].
    cbn [sending view]. rewrite (live_tget now (tsnd te) (mtok sm)) by apply Hwf.
    destruct (cload now (tsnd te) (mtok sm)); [split; [reflexivity|apply sim_res_refl; exact Hwf]|].
    assert (Hv : view now (with_tsnd te (cstore (tsnd te) (mtok sm) (now + EXP) wm))
                 = with_sending (view now te) (tput (live now (tsnd te)) (mtok sm) wm)).
    { rewrite view_with_tsnd, live_cstore by apply expired_fresh. reflexivity. }
    split; [rewrite Hv; reflexivity|].
    split; [reflexivity|]. split; [split; [apply cwf_cstore; apply Hwf|apply Hwf]|].
    split; [apply frame_cstore|apply frame_refl].
  Qed.

  Lemma tobserve_key_sim te r b sent : twf te ->
    let '(te', key, ok) := tobserve_key now te r b sent in
    observe_key (view now te) r b sent = (view now te', key, ok) /\ sim_res now te te' (view now te') /\ trcv te' = trcv te.
  Proof.
    intros Hwf. unfold tobserve_key, observe_key.
    destruct (is_observe_response r); [|split; [reflexivity|split; [apply sim_res_refl; exact Hwf|reflexivity]]].
    destruct sent as [sr|]; [|split; [reflexivity|split; [apply sim_res_refl; exact Hwf|reflexivity]]].
    cbn [efresh ehid view].
    destruct (bmore b).
    - split; [|split; [|reflexivity]].
      + rewrite view_with_tsnd, live_cstore by apply expired_fresh. reflexivity.
      + split; [reflexivity|]. split; [split; [apply cwf_cstore; apply Hwf|apply Hwf]|].
        split; [apply frame_cstore|apply frame_refl].
    - split; [|split; [|reflexivity]].
      + rewrite view_with_tsnd, live_cstore by apply expired_fresh. reflexivity.
      + split; [reflexivity|]. split; [split; [apply cwf_cstore; apply Hwf|apply Hwf]|].
        split; [apply frame_cstore|apply frame_refl].
  Qed.

  (* processReceivedMessage: Model.v's function on the view, given what getSentRequest found *)
  Lemma tprocess_received_sim te r mx isb1 : twf te ->
    let '(te', o, d) := tprocess_received app now te r mx isb1 in
    process_received_s app (view now te) r mx isb1 (tget_sent_request te (mtok r)) = (view now te', o, d) /\
    sim_res now te te' (view now te').
  Proof.
    intros Hwf. unfold tprocess_received, process_received_s.
    destruct ((mcode r =? GET) || (mcode r =? DELETE)); [split; [reflexivity|apply sim_res_refl; exact Hwf]|].
    destruct (if isb1 then mb1 r else mb2 r) as [b|].
    2: { destruct (isb1 && _); (split; [reflexivity|apply sim_res_refl; exact Hwf]). }
    set (sent := tget_sent_request te (mtok r)).
    destruct (if isb1 then false else match sent with None => true | Some _ => false end);
      [split; [reflexivity|apply sim_res_refl; exact Hwf]|].
    pose proof (tobserve_key_sim te r b sent Hwf) as Hobs.
    destruct (tobserve_key now te r b sent) as [[te0 key] ok]. destruct Hobs as [-> [Hs0 Hr0]].
    destruct (negb ok); [split; [reflexivity|exact Hs0]|].
    assert (Hwf0 : twf te0) by apply Hs0.
    cbn [receiving view]. rewrite (live_tget now (trcv te0) key) by apply Hwf0.
    (* the common continuation *)
    assert (Hgen : forall cm szx0,
      let '(te', o, d) :=
        (let '(cm', appended) := reasm cm r (bnum b * size szx0) in
         let e2 := with_trcv te0 (cput now (trcv te0) key cm') in
         if appended && negb (bmore b) then
           let full := set_block isb1 cm' None None in
           let e3 := with_trcv e2 (cdel (trcv e2) key) in
           let e4 := if mtok cm' =? key then e3 else with_tsnd e3 (cdel (tsnd e3) key) in
           (e4, Out (app (mtok r) full), [full])
         else
           let szx := Z.min szx0 mx in
           let psize := blen (mbody cm') in
           if refuse_restart isb1 (psize / size szx) sent then (with_trcv e2 (cdel (trcv e2) key), Fail, [])
           else
           let sm :=
             if isb1 then
               {| mcode := Continue; mtok := key; mb1 := Some {| bszx := szx; bnum := bnum b; bmore := bmore b |};
                  mb2 := None; ms1 := None; ms2 := None; metag := None; mobs := None; mother := []; mbody := [] |}
             else match sent with
                  | Some sr =>
                    {| mcode := mcode sr; mtok := key; mb1 := None;
                       mb2 := Some {| bszx := szx; bnum := psize / size szx; bmore := bmore b |};
                       ms1 := None; ms2 := ms2 sr; metag := metag sr; mobs := None; mother := mother sr; mbody := [] |}
                  | None => entity_incomplete key
                  end in
           (e2, Out (Some sm), [])) in
      (let '(cm', appended) := reasm cm r (bnum b * size szx0) in
       let e2 := with_receiving (view now te0) (tput (live now (trcv te0)) key cm') in
       if appended && negb (bmore b) then
         let full := set_block isb1 cm' None None in
         let e3 := with_receiving e2 (tdel (receiving e2) key) in
         let e4 := if mtok cm' =? key then e3 else with_sending e3 (tdel (sending e3) key) in
         (e4, Out (app (mtok r) full), [full])
       else
         let szx := Z.min szx0 mx in
         let psize := blen (mbody cm') in
         if refuse_restart isb1 (psize / size szx) sent then (with_receiving e2 (tdel (receiving e2) key), Fail, [])
         else
         let sm :=
           if isb1 then
             {| mcode := Continue; mtok := key; mb1 := Some {| bszx := szx; bnum := bnum b; bmore := bmore b |};
                mb2 := None; ms1 := None; ms2 := None; metag := None; mobs := None; mother := []; mbody := [] |}
           else match sent with
                | Some sr =>
                  {| mcode := mcode sr; mtok := key; mb1 := None;
                     mb2 := Some {| bszx := szx; bnum := psize / size szx; bmore := bmore b |};
                     ms1 := None; ms2 := ms2 sr; metag := metag sr; mobs := None; mother := mother sr; mbody := [] |}
                | None => entity_incomplete key
                end in
         (e2, Out (Some sm), [])) = (view now te', o, d) /\ sim_res now te te' (view now te')).
    { intros cm szx0. destruct (reasm cm r (bnum b * size szx0)) as [cm' appended].
      assert (Hput : sim_res now te (with_trcv te0 (cput now (trcv te0) key cm'))
                             (view now (with_trcv te0 (cput now (trcv te0) key cm')))).
      { eapply sim_res_trans; [exact Hs0|]. split; [reflexivity|].
        split; [split; [apply Hwf0|apply cwf_cput; apply Hwf0]|]. split; [apply frame_refl|apply frame_cput]. }
      assert (Hdel : sim_res now te (with_trcv te0 (cdel (cput now (trcv te0) key cm') key))
                             (view now (with_trcv te0 (cdel (cput now (trcv te0) key cm') key)))).
      { eapply sim_res_trans; [exact Hs0|]. split; [reflexivity|].
        split; [split; [apply Hwf0|apply cwf_cdel, cwf_cput; apply Hwf0]|]. split; [apply frame_refl|].
        eapply frame_trans; [apply frame_cput|apply frame_cdel]. }
      assert (Hdel2 : sim_res now te (with_tsnd (with_trcv te0 (cdel (cput now (trcv te0) key cm') key)) (cdel (tsnd te0) key))
                              (view now (with_tsnd (with_trcv te0 (cdel (cput now (trcv te0) key cm') key)) (cdel (tsnd te0) key)))).
      { eapply sim_res_trans; [exact Hs0|]. split; [reflexivity|].
        split; [split; [apply cwf_cdel; apply Hwf0|apply cwf_cdel, cwf_cput; apply Hwf0]|]. split; [apply frame_cdel|].
        eapply frame_trans; [apply frame_cput|apply frame_cdel]. }
      assert (Vput : view now (with_trcv te0 (cput now (trcv te0) key cm')) =
                     with_receiving (view now te0) (tput (live now (trcv te0)) key cm'))
        by (rewrite view_with_trcv, live_cput; reflexivity).
      assert (Vdel : view now (with_trcv te0 (cdel (cput now (trcv te0) key cm') key)) =
                     with_receiving (view now te0) (tdel (tput (live now (trcv te0)) key cm') key))
        by (rewrite view_with_trcv, live_cdel, live_cput; reflexivity).
      assert (Vdel2 : view now (with_tsnd (with_trcv te0 (cdel (cput now (trcv te0) key cm') key)) (cdel (tsnd te0) key)) =
                      with_sending (with_receiving (view now te0) (tdel (tput (live now (trcv te0)) key cm') key))
                                   (tdel (live now (tsnd te0)) key)).
      { rewrite view_with_tsnd, live_cdel. cbn [tsnd with_trcv]. rewrite Vdel. reflexivity. }
      cbv zeta. cbn [trcv tsnd with_trcv with_tsnd receiving sending with_receiving with_sending].
      change (sending (view now te0)) with (live now (tsnd te0)).
      rewrite ?with_trcv_twice, ?with_receiving_twice.
      destruct (appended && negb (bmore b)).
      - destruct (mtok cm' =? key).
        + split; [rewrite Vdel; reflexivity|exact Hdel].
        + split; [rewrite Vdel2; reflexivity|exact Hdel2].
      - destruct (refuse_restart isb1 (blen (mbody cm') / size (Z.min szx0 mx)) sent).
        + split; [rewrite Vdel; reflexivity|exact Hdel].
        + split; [rewrite Vput; reflexivity|exact Hput]. }
    destruct (cload now (trcv te0) key) as [c0|].
    - destruct (bmore b); apply (Hgen c0 (bszx b)).
    - destruct (bmore b).
      + apply (Hgen (set_body r []) (Z.min (bszx b) mx)).
      + destruct (negb (bnum b =? 0)); (split; [reflexivity|exact Hs0]).
  Qed.

  Lemma thandle_received_sim te r : twf te ->
    let '(te', o, d) := thandle_received app now te r in
    handle_received_s app (view now te) r (tget_sent_request te (mtok r)) = (view now te', o, d) /\
    sim_res now te te' (view now te').
  Proof.
    intros Hwf. unfold thandle_received, handle_received_s.
    change (eszx (view now te)) with (tszx te). change (emax (view now te)) with (tmax te).
    destruct ((mcode r =? 0) || ((225 <=? mcode r) && (mcode r <=? 229))); [split; [reflexivity|apply sim_res_refl; exact Hwf]|].
    destruct ((mcode r =? GET) || (mcode r =? DELETE)).
    - match goal with |- context [tstart_sending now te ?w ?mx ?mm ?b] =>
        pose proof (tstart_sending_sim te w mx mm b Hwf) as Hs; destruct (tstart_sending now te w mx mm b) as [te' o] end.
      destruct Hs as [-> Hs]. split; [reflexivity|exact Hs].
    - match goal with |- context [tprocess_received app now te r ?mx ?i] =>
        pose proof (tprocess_received_sim te r mx i Hwf) as Hp; destruct (tprocess_received app now te r mx i) as [[te1 o] d] end.
      destruct Hp as [-> Hp]. destruct o as [w|]; [|split; [reflexivity|exact Hp]].
      assert (Hwf1 : twf te1) by apply Hp.
      match goal with |- context [tstart_sending now te1 ?w0 ?mx ?mm ?b] =>
        pose proof (tstart_sending_sim te1 w0 mx mm b Hwf1) as Hs; destruct (tstart_sending now te1 w0 mx mm b) as [te2 o2] end.
      destruct Hs as [-> Hs]. split; [reflexivity|]. eapply sim_res_trans; eassumption.
  Qed.

  Lemma tcontinue_sending_sim te r orig : twf te ->
    let '(te', w, err) := tcontinue_sending te r orig in
    continue_sending (view now te) r orig = (view now te', w, err) /\ sim_res now te te' (view now te').
  Proof.
    intros Hwf. unfold tcontinue_sending, continue_sending.
    change (eszx (view now te)) with (tszx te). change (emax (view now te)) with (tmax te).
    assert (Hdel : sim_res now te (with_tsnd te (cdel (tsnd te) (mtok r))) (view now (with_tsnd te (cdel (tsnd te) (mtok r))))).
    { split; [reflexivity|]. split; [split; [apply cwf_cdel; apply Hwf|apply Hwf]|]. split; [apply frame_cdel|apply frame_refl]. }
    assert (Vdel : view now (with_tsnd te (cdel (tsnd te) (mtok r))) = with_sending (view now te) (tdel (sending (view now te)) (mtok r))).
    { rewrite view_with_tsnd, live_cdel. reflexivity. }
    destruct (if is_upload (mcode orig) then mb1 r else mb2 r) as [b|]; [|split; [rewrite Vdel; reflexivity|exact Hdel]].
    destruct (create_sending orig (tszx te) (tmax te) b) as [[sm more]|]; [|split; [rewrite Vdel; reflexivity|exact Hdel]].
    destruct (negb more && (DELETE <? mcode orig)); [split; [rewrite Vdel; reflexivity|exact Hdel]|].
    split; [reflexivity|apply sim_res_refl; exact Hwf].
  Qed.

  (* Handle of Model.v with what getSentRequest found as a parameter: [handle] is the instance
     [sent := get_sent_request e (mtok r)] *)
  Definition handle_s (e : ep) (r : msg) (sent : option msg) : ep * option msg * list msg * Z :=
    let received :=
      let '(e', o, d) := handle_received_s app e r sent in
      match o with
      | Out w => (e', w, d, 0)
      | Fail => (e', Some (entity_incomplete (mtok r)), d, 1)
      end in
    match tget (sending e) (mtok r) with
    | Some orig =>
      if wants_to_be_received r then received
      else let '(e', w, err) := continue_sending e r orig in (e', w, [], if err then 1 else 0)
    | None => received
    end.
  Lemma handle_handle_s e r : handle app e r = handle_s e r (get_sent_request e (mtok r)).
  Proof. reflexivity. Qed.

  (* THE step theorem: Handle of the timed endpoint = Handle of Model.v on the elements valid now,
     given what getSentRequest (which ignores deadlines) found *)
  Theorem thandle_sim te r : twf te ->
    let '(te', w, d, n) := thandle app now te r in
    handle_s (view now te) r (tget_sent_request te (mtok r)) = (view now te', w, d, n) /\
    sim_res now te te' (view now te').
  Proof.
    intros Hwf. unfold thandle, handle_s.
    change (sending (view now te)) with (live now (tsnd te)). rewrite (live_tget now (tsnd te) (mtok r)) by apply Hwf.
    pose proof (thandle_received_sim te r Hwf) as Hr.
    destruct (thandle_received app now te r) as [[te1 o] d]. destruct Hr as [-> Hr].
    assert (Hrecv : (match o with Out w => (view now te1, w, d, 0) | Fail => (view now te1, Some (entity_incomplete (mtok r)), d, 1) end)
                    = (let '(te', w, d0, n) := (match o with Out w => (te1, w, d, 0) | Fail => (te1, Some (entity_incomplete (mtok r)), d, 1) end) in
                       (view now te', w, d0, n))) by (destruct o; reflexivity).
    destruct (cload now (tsnd te) (mtok r)) as [orig|].
    - destruct (wants_to_be_received r).
      + destruct o; (split; [reflexivity|exact Hr]).
      + pose proof (tcontinue_sending_sim te r orig Hwf) as Hc.
        destruct (tcontinue_sending te r orig) as [[te2 w] err]. destruct Hc as [-> Hc]. split; [reflexivity|exact Hc].
    - destruct o; (split; [reflexivity|exact Hr]).
  Qed.
End Sim.

(* getSentRequest finds the same as on the view unless the sending element of the token has expired *)
Lemma sent_same now te k : twf te ->
  (forall dl m, craw (tsnd te) k = Some (dl, m) -> expired now dl = false) ->
  tget_sent_request te k = get_sent_request (view now te) k.
Proof.
  intros Hwf Hlive. unfold tget_sent_request, get_sent_request.
  change (sending (view now te)) with (live now (tsnd te)). rewrite (live_tget now (tsnd te) k) by apply Hwf.
  unfold cload. destruct (craw (tsnd te) k) as [[dl m]|] eqn:E; [|reflexivity].
  rewrite (Hlive dl m eq_refl). reflexivity.
Qed.

(* ... so with a valid (or no) sending element for the token, Handle of the timed endpoint IS Handle of
   Model.v on the view *)
Corollary thandle_view app now te r : twf te ->
  (forall dl m, craw (tsnd te) (mtok r) = Some (dl, m) -> expired now dl = false) ->
  let '(te', w, d, n) := thandle app now te r in
  handle app (view now te) r = (view now te', w, d, n) /\ sim_res now te te' (view now te').
Proof.
  intros Hwf Hlive. pose proof (thandle_sim app now te r Hwf) as H.
  destruct (thandle app now te r) as [[[te' w] d] n]. rewrite handle_handle_s, <- (sent_same now te (mtok r) Hwf Hlive). exact H.
Qed.

(* ------------------------------------------------------------------------ *)
(* 3. expired elements are invisible                                         *)

(* Handle sees the caches only through the elements valid now (and through getSentRequest): two timed
   endpoints with the same view produce the same response, deliveries and error count, and have the
   same view afterwards *)
Theorem thandle_depends_on_view app now te1 te2 r :
  twf te1 -> twf te2 -> view now te1 = view now te2 ->
  tget_sent_request te1 (mtok r) = tget_sent_request te2 (mtok r) ->
  let '(te1', w1, d1, n1) := thandle app now te1 r in
  let '(te2', w2, d2, n2) := thandle app now te2 r in
  w1 = w2 /\ d1 = d2 /\ n1 = n2 /\ view now te1' = view now te2'.
Proof.
  intros H1 H2 Hv Hs.
  pose proof (thandle_sim app now te1 r H1) as S1. pose proof (thandle_sim app now te2 r H2) as S2.
  destruct (thandle app now te1 r) as [[[a1 w1] d1] n1]. destruct (thandle app now te2 r) as [[[a2 w2] d2] n2].
  destruct S1 as [S1 _]. destruct S2 as [S2 _]. rewrite Hv, Hs, S2 in S1.
  set (v1 := view now a1) in *. set (v2 := view now a2) in *. clearbody v1 v2. repeat split; congruence.
Qed.

Lemma tdel_absent t k : tget t k = None -> tdel t k = t.
Proof.
  induction t as [|[a v] t IH]; cbn [tget tdel]; [reflexivity|]. destruct (k =? a); [discriminate|].
  intros H. rewrite (IH H). reflexivity.
Qed.

(* a reassembly element whose deadline has passed: Handle does what it does without it - for EVERY
   message, also one that carries the token of that element: the token behaves as a fresh one *)
Theorem expired_reassembly_invisible app now te r k dl cm :
  twf te -> craw (trcv te) k = Some (dl, cm) -> expired now dl = true ->
  let '(te1, w1, d1, n1) := thandle app now te r in
  let '(te2, w2, d2, n2) := thandle app now (with_trcv te (cdel (trcv te) k)) r in
  w1 = w2 /\ d1 = d2 /\ n1 = n2 /\ view now te1 = view now te2.
Proof.
  intros Hwf Hraw Hexp. apply thandle_depends_on_view.
  - exact Hwf.
  - split; [apply Hwf|apply cwf_cdel; apply Hwf].
  - rewrite view_with_trcv, live_cdel, tdel_absent; [destruct te; reflexivity|].
    rewrite live_tget by apply Hwf. unfold cload. rewrite Hraw, Hexp. reflexivity.
  - reflexivity.
Qed.

(* the same for a sending element whose deadline has passed, with the one exception: getSentRequest
   (sync.Map.LoadWithFunc, no deadline check) still pairs a Block2 response with it *)
Theorem expired_sending_invisible app now te r k dl m :
  twf te -> craw (tsnd te) k = Some (dl, m) -> expired now dl = true ->
  (k = mtok r -> tget_sent_request (with_tsnd te (cdel (tsnd te) k)) k = tget_sent_request te k) ->
  let '(te1, w1, d1, n1) := thandle app now te r in
  let '(te2, w2, d2, n2) := thandle app now (with_tsnd te (cdel (tsnd te) k)) r in
  w1 = w2 /\ d1 = d2 /\ n1 = n2 /\ view now te1 = view now te2.
Proof.
  intros Hwf Hraw Hexp Hsent. apply thandle_depends_on_view.
  - exact Hwf.
  - split; [apply cwf_cdel; apply Hwf|apply Hwf].
  - rewrite view_with_tsnd, live_cdel, tdel_absent; [destruct te; reflexivity|].
    rewrite live_tget by apply Hwf. unfold cload. rewrite Hraw, Hexp. reflexivity.
  - destruct (Z.eq_dec k (mtok r)) as [E|E]; [rewrite <- E; symmetry; apply Hsent; exact E|].
    unfold tget_sent_request. cbn [tsnd with_tsnd toutside]. rewrite craw_cdel.
    destruct (mtok r =? k) eqn:E'; [apply Z.eqb_eq in E'; congruence|reflexivity].
Qed.

(* ------------------------------------------------------------------------ *)
(* Do, the return of pending Do calls, sweeps                                  *)
Lemma tdo_start_sim now te r : twf te ->
  let '(te', o) := tdo_start now te r in
  do_start (view now te) r = (view now te', o) /\ sim_res now te te' (view now te').
Proof.
  intros Hwf. unfold tdo_start, do_start.
  change (sending (view now te)) with (live now (tsnd te)). rewrite (live_tget now (tsnd te) (mtok r)) by apply Hwf.
  change (eszx (view now te)) with (tszx te). change (emax (view now te)) with (tmax te).
  destruct (cload now (tsnd te) (mtok r)); [split; [reflexivity|apply sim_res_refl; exact Hwf]|].
  assert (Hput : sim_res now te (with_tsnd te (cstore (tsnd te) (mtok r) (now + EXP) r))
                         (view now (with_tsnd te (cstore (tsnd te) (mtok r) (now + EXP) r)))).
  { split; [reflexivity|]. split; [split; [apply cwf_cstore; apply Hwf|apply Hwf]|]. split; [apply frame_cstore|apply frame_refl]. }
  assert (Vput : view now (with_tsnd te (cstore (tsnd te) (mtok r) (now + EXP) r)) =
                 with_sending (view now te) (tput (live now (tsnd te)) (mtok r) r))
    by (rewrite view_with_tsnd, live_cstore by apply expired_fresh; reflexivity).
  destruct (blen (mbody r) <=? size (tszx te)); [split; [rewrite Vput; reflexivity|exact Hput]|].
  destruct (negb (is_upload (mcode r))); [|split; [rewrite Vput; reflexivity|exact Hput]].
  cbn [tsnd with_tsnd sending with_sending].
  split.
  - rewrite view_with_tsnd, live_cdel, live_cstore by apply expired_fresh. reflexivity.
  - split; [reflexivity|]. split; [split; [apply cwf_cdel, cwf_cstore; apply Hwf|apply Hwf]|].
    split; [eapply frame_trans; [apply frame_cstore|apply frame_cdel]|apply frame_refl].
Qed.

Lemma tcomplete_sim now d : forall p te, twf te ->
  let '(p', te', rets) := tcomplete p d te in
  complete p d (view now te) = (p', view now te', rets) /\ sim_res now te te' (view now te').
Proof.
  induction p as [|[i t] p IH]; intros te Hwf; cbn [tcomplete complete]; [split; [reflexivity|apply sim_res_refl; exact Hwf]|].
  destruct (existsb (fun m => mtok m =? t) d).
  - assert (Hwf1 : twf (with_tsnd te (cdel (tsnd te) t))) by (split; [apply cwf_cdel; apply Hwf|apply Hwf]).
    specialize (IH _ Hwf1). destruct (tcomplete p d (with_tsnd te (cdel (tsnd te) t))) as [[p' te'] rets].
    destruct IH as [IH1 IH2].
    assert (Vdel : view now (with_tsnd te (cdel (tsnd te) t)) = with_sending (view now te) (tdel (sending (view now te)) t))
      by (rewrite view_with_tsnd, live_cdel; reflexivity).
    rewrite <- Vdel, IH1. split; [reflexivity|].
    eapply sim_res_trans; [|exact IH2]. split; [reflexivity|]. split; [exact Hwf1|]. split; [apply frame_cdel|apply frame_refl].
  - specialize (IH _ Hwf). destruct (tcomplete p d te) as [[p' te'] rets]. destruct IH as [IH1 IH2].
    rewrite IH1. split; [reflexivity|exact IH2].
Qed.

(* sub-caches: what sweeps and deletions leave *)
Definition csub (c' c : cache) : Prop := forall k x, craw c' k = Some x -> craw c k = Some x.
Lemma csub_refl c : csub c c. Proof. intros k x H; exact H. Qed.
Lemma csub_trans a b c : csub a b -> csub b c -> csub a c. Proof. intros H1 H2 k x H. apply H2, H1, H. Qed.
Lemma csub_cdel c k : csub (cdel c k) c.
Proof. intros k' x. rewrite craw_cdel. destruct (k' =? k); [discriminate|auto]. Qed.
Lemma csub_fold_cdel ks : forall c, csub (fold_left cdel ks c) c.
Proof.
  induction ks as [|k ks IH]; intros c; cbn [fold_left]; [apply csub_refl|].
  eapply csub_trans; [apply IH|apply csub_cdel].
Qed.
Lemma cwf_fold_cdel ks : forall c, cwf c -> cwf (fold_left cdel ks c).
Proof. induction ks as [|k ks IH]; intros c H; cbn [fold_left]; [exact H|]. apply IH, cwf_cdel, H. Qed.
Lemma ckeep_keys t c x : In x (map fst (ckeep t c)) -> In x (map fst c).
Proof.
  unfold ckeep. induction c as [|p c IH]; cbn [filter map]; [auto|].
  destruct (negb (expired t (fst (snd p)))); cbn [map]; [intros [H|H]; [left; exact H|right; exact (IH H)]|intros H; right; exact (IH H)].
Qed.
Lemma cwf_ckeep t c : cwf c -> cwf (ckeep t c).
Proof.
  unfold cwf, ckeep. induction c as [|p c IH]; cbn [filter map]; [auto|].
  intros H. inversion H as [|? ? Hn Hd]; subst.
  destruct (negb (expired t (fst (snd p)))); [|apply IH; exact Hd].
  cbn [map]. constructor; [|apply IH; exact Hd]. intros Hin. apply Hn. eapply ckeep_keys. exact Hin.
Qed.
Lemma craw_some_keys c k x : craw c k = Some x -> In k (map fst c).
Proof.
  induction c as [|[a v] c IH]; cbn [craw map fst]; [discriminate|].
  destruct (k =? a) eqn:E; [intros _; left; apply Z.eqb_eq in E; congruence|intros H; right; exact (IH H)].
Qed.
Lemma csub_ckeep t c : cwf c -> csub (ckeep t c) c.
Proof.
  unfold cwf, ckeep. induction c as [|[a [dl v]] c IH]; cbn [filter map fst snd]; [intros _ k x H; exact H|].
  intros H. inversion H as [|? ? Hn Hd]; subst. specialize (IH Hd).
  destruct (negb (expired t dl)); intros k x; cbn [craw].
  - destruct (k =? a); [auto|apply IH].
  - intros Hk. destruct (k =? a) eqn:E; [|apply IH; exact Hk].
    exfalso. apply Z.eqb_eq in E. subst a. apply Hn. eapply ckeep_keys. eapply craw_some_keys. exact Hk.
Qed.

Lemma twf_tsweep t te : twf te -> twf (tsweep t te).
Proof.
  intros [H1 H2]. unfold tsweep. split; cbn [tsnd trcv with_tsnd with_trcv].
  - apply cwf_ckeep, cwf_fold_cdel, H1.
  - apply cwf_ckeep, H2.
Qed.
Lemma csub_tsweep t te : twf te -> csub (tsnd (tsweep t te)) (tsnd te) /\ csub (trcv (tsweep t te)) (trcv te).
Proof.
  intros [H1 H2]. unfold tsweep. cbn [tsnd trcv with_tsnd with_trcv]. split.
  - eapply csub_trans; [apply csub_ckeep, cwf_fold_cdel, H1|apply csub_fold_cdel].
  - apply csub_ckeep, H2.
Qed.

(* the elements valid later, in a sub-cache, are valid elements now *)
Lemma live_sub now now' c c' k v : cwf c -> cwf c' -> csub c' c -> now <= now' ->
  tget (live now' c') k = Some v -> tget (live now c) k = Some v.
Proof.
  intros Hc Hc' Hsub Hle. rewrite !live_tget by assumption. unfold cload.
  destruct (craw c' k) as [[dl x]|] eqn:E; [|discriminate]. rewrite (Hsub _ _ E).
  unfold expired. destruct (dl <? now') eqn:E1; [discriminate|]. intros H.
  apply Z.ltb_ge in E1. replace (dl <? now) with false by (symmetry; apply Z.ltb_ge; lia). exact H.
Qed.

(* ------------------------------------------------------------------------ *)
(* 4. ALL timed scripts: safety, exactly once, c04_ok                          *)
Section TSystem.
  Variable c : cfg.
  Hypothesis Hwf : cfg_wf c.

  (* Handle of Model.v with an arbitrary result of getSentRequest: the step lemmas of ProofsExchange *)
  Lemma handleA_step_s V e m sent :
    invA c V e -> okA c V m -> sent_okA c sent (mtok m) ->
    let '(e', o, d, _) := handle_s app_a e m sent in
    invA c V e' /\ (forall x, o = Some x -> okB c V x) /\ (forall x, In x d -> delivA_ok c V x).
  Proof.
    intros Hinv Hm Hsent. unfold handle_s.
    pose proof (handle_received_A_s c Hwf V e m sent Hinv Hm Hsent) as Hhr.
    destruct (handle_received_s app_a e m sent) as [[e1 o] d]. destruct Hhr as [Hi1 [Ho1 Hd1]].
    assert (Hrecv : let '(e', o0, d0, _) := (match o with Out w => (e1, w, d, 0) | Fail => (e1, Some (entity_incomplete (mtok m)), d, 1) end) in
                    invA c V e' /\ (forall x, o0 = Some x -> okB c V x) /\ (forall x, In x d0 -> delivA_ok c V x)).
    { destruct o as [w|].
      - split; [exact Hi1|]. split; [|exact Hd1]. intros x Hx. apply Ho1. rewrite Hx. reflexivity.
      - split; [exact Hi1|]. split; [|exact Hd1]. intros x Hx. injection Hx as <-. apply okB_incomplete. }
    destruct (tget (sending e) (mtok m)) as [orig|] eqn:Hs; [|exact Hrecv].
    destruct (wants_to_be_received m) eqn:Hw; [exact Hrecv|].
    pose proof (handleA_step c Hwf V e m Hinv Hm) as Hh. unfold handle in Hh. rewrite Hs, Hw in Hh. exact Hh.
  Qed.
  Lemma handleB_step_s vs V e m sent :
    vers_ok c vs -> Vle (ver vs) V -> invB c V e -> okB c V m ->
    let '(e', o, d, _) := handle_s (app_b c vs) e m sent in
    invB c V e' /\ (forall x, o = Some x -> okA c V x) /\ (forall x, In x d -> delivB_ok c V x).
  Proof.
    intros Hvs HV Hinv Hm. unfold handle_s.
    pose proof (handle_received_B_s c Hwf vs V e m sent Hvs HV Hinv Hm) as Hhr.
    destruct (handle_received_s (app_b c vs) e m sent) as [[e1 o] d]. destruct Hhr as [Hi1 [Ho1 Hd1]].
    assert (Hrecv : let '(e', o0, d0, _) := (match o with Out w => (e1, w, d, 0) | Fail => (e1, Some (entity_incomplete (mtok m)), d, 1) end) in
                    invB c V e' /\ (forall x, o0 = Some x -> okA c V x) /\ (forall x, In x d0 -> delivB_ok c V x)).
    { destruct o as [w|].
      - split; [exact Hi1|]. split; [|exact Hd1]. intros x Hx. apply Ho1. rewrite Hx. reflexivity.
      - split; [exact Hi1|]. split; [|exact Hd1]. intros x Hx. injection Hx as <-. right. apply ctl_incomplete. }
    destruct (tget (sending e) (mtok m)) as [orig|] eqn:Hs; [|exact Hrecv].
    destruct (wants_to_be_received m) eqn:Hw; [exact Hrecv|].
    pose proof (handleB_step c Hwf vs V e m Hvs HV Hinv Hm) as Hh. unfold handle in Hh. rewrite Hs, Hw in Hh. exact Hh.
  Qed.

  (* every element of A's sending cache, valid or not, is the request of the exchange of its key *)
  Definition rawA (s : cache) : Prop :=
    forall k dl m, craw s k = Some (dl, m) -> exists x, In x (cexch c) /\ xtok x = k /\ m = request_of x.
  Lemma rawA_frame now s s' : rawA s -> frame now s s' -> cwf s' -> sendA c (live now s') -> rawA s'.
  Proof.
    intros Hr Hf Hc Hs k dl m Hk. destruct (Hf k) as [H|[H|(dl' & v & H & Hx & _)]].
    - rewrite H in Hk. exact (Hr _ _ _ Hk).
    - rewrite H in Hk. discriminate.
    - rewrite H in Hk. injection Hk as <- <-. apply (Hs k v). rewrite live_tget by exact Hc. unfold cload. rewrite H, Hx. reflexivity.
  Qed.
  Lemma rawA_sub s s' : rawA s -> csub s' s -> rawA s'.
  Proof. intros Hr Hs k dl m Hk. exact (Hr _ _ _ (Hs _ _ Hk)). Qed.

  (* what getSentRequest finds at A, deadline passed or not, is the request of the exchange *)
  Lemma sent_okA_raw V now te tok : invA c V (view now te) -> rawA (tsnd te) -> sent_okA c (tget_sent_request te tok) tok.
  Proof.
    intros [_ [_ [He3 _]]] Hraw sr Hsr x Hx Hk. subst tok. unfold tget_sent_request in Hsr.
    destruct (craw (tsnd te) (xtok x)) as [[dl m0]|] eqn:Hm0.
    - destruct (Hraw _ _ _ Hm0) as [x' [Hx' [Hk' ->]]]. rewrite (same_tok c Hwf x' x Hx' Hx Hk') in Hsr. injection Hsr as <-. reflexivity.
    - change (toutside te) with (eoutside (view now te)) in Hsr. rewrite He3, (wf_out c Hwf x Hx) in Hsr. discriminate.
  Qed.

  (* the invariants of ProofsExchange pass to sub-tables *)
  Lemma invA_sub V e e' :
    invA c V e -> eszx e' = eszx e -> emax e' = emax e -> eoutside e' = eoutside e ->
    (forall k v, tget (sending e') k = Some v -> tget (sending e) k = Some v) ->
    (forall k v, tget (receiving e') k = Some v -> tget (receiving e) k = Some v) -> invA c V e'.
  Proof.
    intros [H1 [H2 [H3 [H4 H5]]]] E1 E2 E3 Hs Hr.
    split; [congruence|]. split; [congruence|]. split; [congruence|].
    split; [intros k m Hg; exact (H4 _ _ (Hs _ _ Hg))|intros k m Hg; exact (H5 _ _ (Hr _ _ Hg))].
  Qed.
  Lemma invB_sub V e e' :
    invB c V e -> eszx e' = eszx e -> emax e' = emax e ->
    (forall k v, tget (sending e') k = Some v -> tget (sending e) k = Some v) ->
    (forall k v, tget (receiving e') k = Some v -> tget (receiving e) k = Some v) -> invB c V e'.
  Proof.
    intros [H1 [H2 [H4 H5]]] E1 E2 Hs Hr.
    split; [congruence|]. split; [congruence|].
    split; [intros k m Hg; exact (H4 _ _ (Hs _ _ Hg))|intros k m Hg; exact (H5 _ _ (Hr _ _ Hg))].
  Qed.
  (* later, and after deletions / sweeps, the view is a sub-view *)
  Lemma invA_later V now now' te te' :
    invA c V (view now te) -> twf te -> twf te' -> now <= now' ->
    csub (tsnd te') (tsnd te) -> csub (trcv te') (trcv te) ->
    tszx te' = tszx te -> tmax te' = tmax te -> toutside te' = toutside te -> invA c V (view now' te').
  Proof.
    intros Hi [W1 W2] [W1' W2'] Hle S1 S2 E1 E2 E3. apply (invA_sub V (view now te)); try assumption.
    - intros k v. apply live_sub; assumption.
    - intros k v. apply live_sub; assumption.
  Qed.
  Lemma invB_later V now now' te te' :
    invB c V (view now te) -> twf te -> twf te' -> now <= now' ->
    csub (tsnd te') (tsnd te) -> csub (trcv te') (trcv te) ->
    tszx te' = tszx te -> tmax te' = tmax te -> invB c V (view now' te').
  Proof.
    intros Hi [W1 W2] [W1' W2'] Hle S1 S2 E1 E2. apply (invB_sub V (view now te)); try assumption.
    - intros k v. apply live_sub; assumption.
    - intros k v. apply live_sub; assumption.
  Qed.

  Definition tVof (w : tworld) : Z -> Z := ver (tvers w).
  Definition twinv (N : Z -> Z) (w : tworld) : Prop :=
    invA c (tVof w) (view (tnow w) (twa w)) /\ invB c (tVof w) (view (tnow w) (twb w)) /\
    rawA (tsnd (twa w)) /\ twf (twa w) /\ twf (twb w) /\
    wire_ok c (tVof w) (twhist w) /\ incl (tflight w) (twhist w) /\ vers_ok c (tvers w) /\ Vle (tVof w) N.

  Ltac twsplit := unfold twinv, tVof; cbn [twa twb twhist tflight tvers tnow with_ta with_tb with_tflight with_tpending with_tvers with_tnow temit];
                  repeat match goal with |- _ /\ _ => split end; try assumption.

  Lemma twinv_flight N w f : twinv N w -> incl f (tflight w) -> twinv N (with_tflight w f).
  Proof. intros (Ha & Hb & Hr & Wa & Wb & Hw & Hf & Hv & Hn) Hincl. twsplit. intros x Hx. apply Hf, Hincl, Hx. Qed.

  Lemma twinv_emit N w toB o :
    twinv N w -> (forall m, o = Some m -> if toB : bool then okB c (tVof w) m else okA c (tVof w) m) -> twinv N (temit w toB o).
  Proof.
    intros (Ha & Hb & Hr & Wa & Wb & Hw & Hf & Hv & Hn) Ho. destruct o as [m|]; [|twsplit].
    unfold temit, twinv, tVof. cbn [twa twb twhist tflight tvers tnow].
    repeat (split; [assumption|]). split; [|split; [|split; assumption]].
    - intros t m' Hin. apply in_app_or in Hin. destruct Hin as [Hin|[Hin|[]]]; [apply (Hw _ _ Hin)|].
      injection Hin as <- <-. apply Ho. reflexivity.
    - intros x Hin. apply in_app_or in Hin. apply in_or_app. destruct Hin as [Hin|Hin]; [left; apply Hf, Hin|right; exact Hin].
  Qed.

  Lemma tarrive_inv N w toB m :
    twinv N w -> (if toB : bool then okB c (tVof w) m else okA c (tVof w) m) ->
    let '(w1, o) := tarrive c w toB m in twinv N w1 /\ mob_ok c N o.
  Proof.
    intros Hinv Hm. pose proof Hinv as (Ha & Hb & Hr & Wa & Wb & Hw & Hf & Hv & Hn). unfold tarrive. destruct toB.
    - pose proof (thandle_sim (app_b c (tvers w)) (tnow w) (twb w) m Wb) as Hsim.
      destruct (thandle (app_b c (tvers w)) (tnow w) (twb w) m) as [[[e' o] d] nerr]. destruct Hsim as [Hsim Hres].
      pose proof (handleB_step_s (tvers w) (tVof w) (view (tnow w) (twb w)) m (tget_sent_request (twb w) (mtok m))
                    Hv (fun k => Z.le_refl _) Hb Hm) as Hh.
      rewrite Hsim in Hh. destruct Hh as [Hi [Ho Hd]].
      split.
      + apply twinv_emit; [|exact Ho]. twsplit. apply Hres.
      + left. split; [reflexivity|]. intros x Hx. eapply delivB_mono; [exact Hn|apply Hd; exact Hx].
    - pose proof (thandle_sim app_a (tnow w) (twa w) m Wa) as Hsim.
      destruct (thandle app_a (tnow w) (twa w) m) as [[[e' o] d] nerr]. destruct Hsim as [Hsim Hres].
      pose proof (handleA_step_s (tVof w) (view (tnow w) (twa w)) m (tget_sent_request (twa w) (mtok m))
                    Ha Hm (sent_okA_raw _ _ _ _ Ha Hr)) as Hh.
      rewrite Hsim in Hh. destruct Hh as [Hi [Ho Hd]].
      destruct Hres as (_ & We' & Fs & _).
      assert (Hr' : rawA (tsnd e')) by (apply (rawA_frame (tnow w) (tsnd (twa w))); [exact Hr|exact Fs|apply We'|apply Hi]).
      pose proof (tcomplete_sim (tnow w) d (tpending w) e' We') as Hc.
      pose proof (complete_invA c (tVof w) (tpending w) d (view (tnow w) e') Hi) as Hci.
      destruct (tcomplete (tpending w) d e') as [[p' e''] rets]. destruct Hc as [Hc Hres2]. rewrite Hc in Hci. cbn [fst snd] in Hci.
      destruct Hres2 as (_ & We'' & Fs2 & _).
      split.
      + apply twinv_emit; [|exact Ho]. twsplit; try apply We''.
        apply (rawA_frame (tnow w) (tsnd e')); [exact Hr'|exact Fs2|apply We''|apply Hci].
      + right; left. split; [reflexivity|]. intros x Hx. eapply delivA_mono; [exact Hn|apply Hd; exact Hx].
  Qed.

  Definition tbump_ok (e : tev) : Prop := match e with Ev e0 => bump_ok c e0 | _ => True end.

  Lemma tstep_inv N w e :
    twinv N w -> tbump_ok e -> (forall k, e = Ev (Bump k) -> ver (tvers w) k + 1 <= N k) ->
    let '(w', o) := tstep c w e in twinv N w' /\ mob_ok c N o.
  Proof.
    intros Hinv Hbump HN. pose proof Hinv as (Ha & Hb & Hr & Wa & Wb & Hw & Hf & Hv & Hn).
    assert (Hquiet : forall w0, twinv N w0 -> let '(w', o) := tquiet w0 in twinv N w' /\ mob_ok c N o).
    { intros w0 H0. split; [exact H0|right; right; reflexivity]. }
    assert (Hstarted : forall w1 toB o rets, twinv N w1 -> (forall m, o = Some m -> if toB : bool then okB c (tVof w1) m else okA c (tVof w1) m) ->
                       let '(w', ob) := tstarted w1 toB o rets in twinv N w' /\ mob_ok c N ob).
    { intros w1 toB o rets H1 Ho. split; [apply twinv_emit; assumption|right; right; reflexivity]. }
    destruct e as [e|d|atB]; cbn [tstep].
    2: { (* time passes: fewer elements are valid *)
      apply Hquiet. assert (Hle : tnow w <= tnow w + Z.max 0 d) by lia. twsplit.
      - apply (invA_later _ (tnow w) _ (twa w)); try assumption; try reflexivity; try lia; try (apply twf_tsweep; assumption); try apply csub_refl; try apply csub_cdel.
      - apply (invB_later _ (tnow w) _ (twb w)); try assumption; try reflexivity; try lia; try (apply twf_tsweep; assumption); try apply csub_refl; try apply csub_cdel. }
    2: { (* CheckExpirations now *)
      destruct atB; apply Hquiet.
      - pose proof (csub_tsweep (tnow w) (twb w) Wb) as [S1 S2]. twsplit; try apply twf_tsweep; try assumption.
        apply (invB_later _ (tnow w) _ (twb w)); try assumption; try reflexivity; try lia; try (apply twf_tsweep; assumption); try apply csub_refl; try apply csub_cdel.
      - pose proof (csub_tsweep (tnow w) (twa w) Wa) as [S1 S2]. twsplit; try apply twf_tsweep; try assumption.
        + apply (invA_later _ (tnow w) _ (twa w)); try assumption; try reflexivity; try lia; try (apply twf_tsweep; assumption); try apply csub_refl; try apply csub_cdel.
        + eapply rawA_sub; [exact Hr|exact S1]. }
    destruct e as [i|j|j|j|h|k|i|atB].
    - (* Start *)
      destruct (nth_error (cexch c) i) as [x|] eqn:Hx; [|apply Hquiet; exact Hinv].
      apply nth_error_In in Hx. destruct (wf_exch c Hwf x Hx) as [Hkind _].
      destruct (xkind x =? 0) eqn:K0.
      + pose proof (tdo_start_sim (tnow w) (twa w) (request_of x) Wa) as Hsim.
        destruct (tdo_start (tnow w) (twa w) (request_of x)) as [e' o]. destruct Hsim as [Hsim Hres].
        pose proof (do_start_inv c Hwf (tVof w) (view (tnow w) (twa w)) x Ha Hx) as Hd. rewrite Hsim in Hd. destruct Hd as [Hi Ho].
        destruct Hres as (_ & We' & Fs & _).
        assert (Hr' : rawA (tsnd e')) by (apply (rawA_frame (tnow w) (tsnd (twa w))); [exact Hr|exact Fs|apply We'|apply Hi]).
        destruct o as [m|]; apply Hstarted; try (twsplit); try discriminate; try apply We'.
      + destruct (xkind x =? 1) eqn:K1; [|exfalso; apply Z.eqb_neq in K0, K1; lia].
        unfold twrite_start.
        assert (Hsz : 0 <= tszx (twa w) <= 7) by (destruct Ha as [E _]; cbn [eszx view] in E; rewrite E; apply (wf_szxA c Hwf)).
        pose proof (tstart_sending_sim (tnow w) (twa w) (Some (request_of x)) (tszx (twa w)) (tmax (twa w))
                      {| bszx := tszx (twa w); bnum := 0; bmore := true |} Wa) as Hsim.
        destruct (tstart_sending (tnow w) (twa w) (Some (request_of x)) (tszx (twa w)) (tmax (twa w))
                    {| bszx := tszx (twa w); bnum := 0; bmore := true |}) as [e' o]. destruct Hsim as [Hsim Hres].
        pose proof (start_sending_A c Hwf (tVof w) (view (tnow w) (twa w)) (Some (request_of x)) (tszx (twa w))
                      {| bszx := tszx (twa w); bnum := 0; bmore := true |} Ha) as Hs.
        change (emax (view (tnow w) (twa w))) with (tmax (twa w)) in Hs. rewrite Hsim in Hs.
        destruct Hs as [Hi [_ Ho]]; [intros wm E; injection E as <-; right; exists x; auto|exact Hsz|cbn; lia|cbn; lia|].
        destruct Hres as (_ & We' & Fs & _).
        assert (Hr' : rawA (tsnd e')) by (apply (rawA_frame (tnow w) (tsnd (twa w))); [exact Hr|exact Fs|apply We'|apply Hi]).
        destruct o as [m|]; apply Hstarted; try (twsplit); try discriminate; try apply We'.
        intros m' E. subst m. apply Ho; reflexivity.
    - (* Deliver *)
      destruct (nth_error (tflight w) j) as [[toB m]|] eqn:Hj; [|apply Hquiet; exact Hinv].
      apply nth_error_In in Hj. apply tarrive_inv.
      + apply twinv_flight; [exact Hinv|]. intros x Hx. eapply remove_nth_In; exact Hx.
      + exact (Hw _ _ (Hf _ Hj)).
    - (* Dup *)
      destruct (nth_error (tflight w) j) as [[toB m]|] eqn:Hj; [|apply Hquiet; exact Hinv].
      apply nth_error_In in Hj. apply tarrive_inv; [exact Hinv|exact (Hw _ _ (Hf _ Hj))].
    - (* Drop *)
      apply Hquiet. apply twinv_flight; [exact Hinv|]. intros x Hx. eapply remove_nth_In; exact Hx.
    - (* Replay *)
      destruct (nth_error (twhist w) h) as [[toB m]|] eqn:Hh; [|apply Hquiet; exact Hinv].
      apply nth_error_In in Hh. apply tarrive_inv; [exact Hinv|exact (Hw _ _ Hh)].
    - (* Bump *)
      apply Hquiet. unfold twinv, tVof. cbn [twa twb twhist tflight tvers tnow with_tvers].
      assert (HV : Vle (ver (tvers w)) (ver (bump (tvers w) k))).
      { intros k'. rewrite ver_bump. destruct (k' =? k) eqn:E; [apply Z.eqb_eq in E; subst; lia|lia]. }
      split; [eapply invA_mono; eassumption|]. split; [eapply invB_mono; eassumption|].
      repeat (split; [assumption|]).
      split; [intros t m Hin; specialize (Hw t m Hin); destruct t; [eapply okB_mono; eassumption|eapply okA_mono; eassumption]|].
      split; [exact Hf|]. split.
      + intros k'. rewrite ver_bump. destruct (Hv k') as [H0 H1]. destruct (k' =? k) eqn:E.
        * apply Z.eqb_eq in E. subst k'. split; [lia|]. intros r Hr0 Hre. cbn [tbump_ok bump_ok] in Hbump. rewrite (Hbump r Hr0) in Hre. discriminate.
        * split; assumption.
      + intros k'. rewrite ver_bump. destruct (k' =? k) eqn:E; [apply Z.eqb_eq in E; subst k'; apply HN; reflexivity|apply Hn].
    - (* Timeout *)
      destruct (find (fun p => Nat.eqb (fst p) i) (tpending w)) as [[i' t]|]; [|apply Hquiet; exact Hinv].
      split; [|right; right; reflexivity].
      assert (Wa' : twf (with_tsnd (twa w) (cdel (tsnd (twa w)) t))) by (split; [apply cwf_cdel; apply Wa|apply Wa]).
      twsplit.
      + apply (invA_later _ (tnow w) _ (twa w)); try assumption; try reflexivity; try lia; try (apply twf_tsweep; assumption); try apply csub_refl; try apply csub_cdel.
      + eapply rawA_sub; [exact Hr|apply csub_cdel].
    - (* Expire: CheckExpirations(now + 2 * expiration) *)
      destruct atB; apply Hquiet.
      + pose proof (csub_tsweep (tnow w + 2 * EXP) (twb w) Wb) as [S1 S2]. twsplit; try apply twf_tsweep; try assumption.
        apply (invB_later _ (tnow w) _ (twb w)); try assumption; try reflexivity; try lia; try (apply twf_tsweep; assumption); try apply csub_refl; try apply csub_cdel.
      + pose proof (csub_tsweep (tnow w + 2 * EXP) (twa w) Wa) as [S1 S2]. twsplit; try apply twf_tsweep; try assumption.
        * apply (invA_later _ (tnow w) _ (twa w)); try assumption; try reflexivity; try lia; try (apply twf_tsweep; assumption); try apply csub_refl; try apply csub_cdel.
        * eapply rawA_sub; [exact Hr|exact S1].
  Qed.

  (* whole runs *)
  Lemma tarrive_vers w toB m : tvers (fst (tarrive c w toB m)) = tvers w.
  Proof.
    unfold tarrive. destruct toB.
    - destruct (thandle (app_b c (tvers w)) (tnow w) (twb w) m) as [[[e' o] d] n]. destruct o; reflexivity.
    - destruct (thandle app_a (tnow w) (twa w) m) as [[[e' o] d] n]. destruct (tcomplete (tpending w) d e') as [[p' e''] rets].
      destruct o; reflexivity.
  Qed.
  Lemma tstep_vers w e : tvers (fst (tstep c w e)) = match e with Ev (Bump k) => bump (tvers w) k | _ => tvers w end.
  Proof.
    destruct e as [e|d|atB]; cbn [tstep]; [|reflexivity|destruct atB; reflexivity].
    destruct e as [i|j|j|j|h|k|i|atB].
    - destruct (nth_error (cexch c) i) as [x|]; [|reflexivity].
      destruct (xkind x =? 0).
      + destruct (tdo_start (tnow w) (twa w) (request_of x)) as [e' [m|]]; reflexivity.
      + destruct (xkind x =? 1).
        * destruct (twrite_start (tnow w) (twa w) (request_of x)) as [e' [[m|]|]]; reflexivity.
        * destruct (twrite_start (tnow w) (twb w) (tnotification_of c w x)) as [e' [[m|]|]]; reflexivity.
    - destruct (nth_error (tflight w) j) as [[toB m]|]; [|reflexivity]. rewrite tarrive_vers. reflexivity.
    - destruct (nth_error (tflight w) j) as [[toB m]|]; [|reflexivity]. apply tarrive_vers.
    - reflexivity.
    - destruct (nth_error (twhist w) h) as [[toB m]|]; [|reflexivity]. apply tarrive_vers.
    - reflexivity.
    - destruct (find (fun p => Nat.eqb (fst p) i) (tpending w)) as [[i' t]|]; reflexivity.
    - destruct atB; reflexivity.
  Qed.

  Lemma untimed_cons_bumps e es k :
    bumps (untimed (e :: es)) k = (match e with Ev e0 => bump_count e0 k | _ => 0 end) + bumps (untimed es) k.
  Proof. destruct e as [e0|d|b]; cbn [untimed]; [apply bumps_cons|lia|lia]. Qed.

  Lemma trun_inv N : forall es w,
    twinv N w -> Forall tbump_ok es -> (forall k, ver (tvers w) k + bumps (untimed es) k <= N k) ->
    Forall (mob_ok c N) (trun c w es).
  Proof.
    induction es as [|e es IH]; intros w Hinv Hb HN; cbn [trun]; [constructor|].
    inversion Hb as [|? ? Hbe Hbes]; subst.
    pose proof (tstep_inv N w e Hinv Hbe) as Hst. pose proof (tstep_vers w e) as Hve.
    destruct (tstep c w e) as [w' o]. cbn [fst] in Hve.
    destruct Hst as [Hinv' Ho].
    { intros k ->. specialize (HN k). rewrite untimed_cons_bumps in HN. cbn [bump_count] in HN. rewrite Z.eqb_refl in HN.
      pose proof (bumps_nonneg (untimed es) k). lia. }
    constructor; [exact Ho|]. apply IH; [exact Hinv'|exact Hbes|].
    intros k. specialize (HN k). rewrite untimed_cons_bumps in HN. rewrite Hve.
    destruct e as [e0|d|b]; try lia. destruct e0; cbn [bump_count] in HN; try lia.
    rewrite ver_bump. rewrite (Z.eqb_sym k0 k) in HN. destruct (k =? k0) eqn:E; [|lia].
    apply Z.eqb_eq in E. subst k0. lia.
  Qed.

  Lemma twinv_init N : (forall k, 0 <= N k) -> twinv N (tinit c).
  Proof.
    intros HN. unfold twinv, tinit, tVof, new_tep. cbn [twa twb twhist tflight tvers tnow].
    split; [split; [reflexivity|split; [reflexivity|split; [reflexivity|split; intros k m E; discriminate E]]]|].
    split; [split; [reflexivity|split; [reflexivity|split; intros k m E; discriminate E]]|].
    split; [intros k dl m E; discriminate E|].
    split; [split; constructor|]. split; [split; constructor|].
    split; [intros t m []|]. split; [intros x []|]. split; [intros k; split; [cbn; lia|reflexivity]|exact HN].
  Qed.

  (* Safety over ALL timed scripts: whatever the script does - any order of delivery, duplication,
     loss, replay, resource changes (with ETag), time-outs, restarts with a token used before - and
     WHENEVER time passes and sweeps run (any amounts, at any point, also while exchanges are under way
     and after their deadlines), every message handed to B's application carries exactly the body of the
     exchange of its token, every message handed to A's application exactly one version of the resource
     of its exchange (or is body-less). *)
  Theorem timed_exchange_safety es :
    Forall tbump_ok es -> Forall (mob_ok c (bumps (untimed es))) (trun c (tinit c) es).
  Proof.
    intros Hb. apply trun_inv; [apply twinv_init; intros k; apply bumps_nonneg|exact Hb|].
    intros k. cbn. lia.
  Qed.

  (* ... in the terms of the specification, on the trace the correspondence run compares with *)
  Theorem timed_exchange_safety_spec es :
    Forall tbump_ok es ->
    Forall (fun o => Forall (fun d => delivery_class c (untimed es) (o_side o) d = 0%N) (o_deliv o)) (model_obs_t c es).
  Proof.
    intros Hb. pose proof (timed_exchange_safety es Hb) as Hs. unfold model_obs_t.
    apply Forall_forall. intros o Ho. apply in_map_iff in Ho. destruct Ho as [mo [<- Hmo]].
    rewrite Forall_forall in Hs. specialize (Hs mo Hmo).
    apply Forall_forall. intros d Hd. cbn [proj_mob o_deliv o_side] in *. apply in_map_iff in Hd. destruct Hd as [md [<- Hmd]].
    destruct Hs as [[Hside Hs]|[[Hside Hs]|Hs]].
    - rewrite Hside. apply (delivB_class c Hwf). apply Hs; exact Hmd.
    - rewrite Hside. apply (delivA_class c Hwf). apply Hs; exact Hmd.
    - rewrite Hs in Hmd. destruct Hmd.
  Qed.

  (* ---------------------------------------------------------------------- *)
  (* exactly once, with time: the potential counts the reassembly buffers that are VALID now; *)
  (* the passing of time and sweeps only lower it                                            *)
  Lemma handle_s_once_pot app e r sent :
    is_observe_response r = false ->
    (forall cm, tget (receiving e) (mtok r) = Some cm -> mtok cm = mtok r) ->
    let '(e', _, d, _) := handle_s app e r sent in once_post e e' (mtok r) (fb r) d.
  Proof.
    intros Hobs Hkey. unfold handle_s.
    pose proof (handle_received_once_s app e r sent Hobs Hkey) as Hhr.
    destruct (handle_received_s app e r sent) as [[e1 o] d].
    assert (Hrecv : let '(e', _, d0, _) := (match o with Out w => (e1, w, d, 0) | Fail => (e1, Some (entity_incomplete (mtok r)), d, 1) end) in
                    once_post e e' (mtok r) (fb r) d0) by (destruct o; exact Hhr).
    destruct (tget (sending e) (mtok r)) as [orig|]; [|exact Hrecv].
    destruct (wants_to_be_received r); [exact Hrecv|].
    pose proof (continue_sending_receiving e r orig) as Hcr.
    destruct (continue_sending e r orig) as [[e2 w] err]. cbn [fst] in Hcr.
    eapply once_post_recv; [exact Hcr|apply once_post_quiet].
  Qed.

  Definition tpot (w : tworld) (side t : Z) : Z :=
    if side =? 1 then potE (view (tnow w) (twb w)) t else if side =? 0 then potE (view (tnow w) (twa w)) t else 0.
  Definition tstep_ineq (w w1 : tworld) (o : mob) : Prop :=
    forall side t, hand1 (proj_mob o) side t + tpot w1 side t <= arr1 (proj_mob o) side t + tpot w side t.

  Lemma tsilent_ineq w w1 o :
    mo_in o = None -> mo_deliv o = [] ->
    (forall t, potE (view (tnow w1) (twa w1)) t <= potE (view (tnow w) (twa w)) t) ->
    (forall t, potE (view (tnow w1) (twb w1)) t <= potE (view (tnow w) (twb w)) t) -> tstep_ineq w w1 o.
  Proof.
    intros Hin Hd Ha Hb side t. unfold hand1, arr1, proj_mob. cbn [o_in o_deliv o_side]. rewrite Hin, Hd. cbn [option_map map filter].
    replace (blen (@nil pm)) with 0 by reflexivity. unfold tpot.
    destruct (mo_side o =? side); destruct (side =? 1); try (specialize (Hb t); lia); destruct (side =? 0); try (specialize (Ha t); lia); lia.
  Qed.

  Lemma potE_sub e e' t :
    (forall k v, tget (receiving e') k = Some v -> tget (receiving e) k = Some v) -> potE e' t <= potE e t.
  Proof.
    intros H. unfold potE. destruct (tget (receiving e') t) as [cm|] eqn:E; [rewrite (H _ _ E); lia|].
    destruct (tget (receiving e) t) as [cm|]; [destruct (mbody cm); lia|lia].
  Qed.
  Lemma potE_later now now' te te' t :
    twf te -> twf te' -> now <= now' -> csub (trcv te') (trcv te) -> potE (view now' te') t <= potE (view now te) t.
  Proof. intros [_ W] [_ W'] Hle Hs. apply potE_sub. intros k v. apply live_sub; assumption. Qed.

  Lemma temit_twa w toB o : twa (temit w toB o) = twa w. Proof. destruct o; reflexivity. Qed.
  Lemma temit_twb w toB o : twb (temit w toB o) = twb w. Proof. destruct o; reflexivity. Qed.
  Lemma temit_tnow w toB o : tnow (temit w toB o) = tnow w. Proof. destruct o; reflexivity. Qed.

  Lemma tarrive_once N w toB m :
    twinv N w -> (if toB : bool then okB c (tVof w) m else okA c (tVof w) m) ->
    let '(w1, o) := tarrive c w toB m in tstep_ineq w w1 o.
  Proof.
    intros (Ha & Hb & Hr & Wa & Wb & _) Hm. unfold tarrive. destruct toB.
    - pose proof (thandle_sim (app_b c (tvers w)) (tnow w) (twb w) m Wb) as Hsim.
      pose proof (handle_s_once_pot (app_b c (tvers w)) (view (tnow w) (twb w)) m (tget_sent_request (twb w) (mtok m)) (okB_nonobs _ _ _ Hm)) as Hh.
      destruct (thandle (app_b c (tvers w)) (tnow w) (twb w) m) as [[[e' o] d] nerr]. destruct Hsim as [Hsim _]. rewrite Hsim in Hh.
      assert (Hpost : once_post (view (tnow w) (twb w)) (view (tnow w) e') (mtok m) (firstb 1 m = true) d).
      { eapply once_post_weaken; [apply (okB_first c Hwf _ _ Hm)|]. apply Hh.
        intros cm Hg. destruct Hb as [_ [_ [_ Hrb]]]. eapply recvB_key; eassumption. }
      intros side t. unfold hand1, arr1, proj_mob, tpot. cbn [o_in o_deliv o_side mo_side mo_in mo_deliv option_map].
      rewrite temit_twa, temit_twb, temit_tnow. cbn [twa twb tnow with_tb]. rewrite is_first_proj. replace (ptok (proj m)) with (mtok m) by reflexivity.
      destruct (Z.eq_dec side 1) as [->|Hne].
      + cbn [Z.eqb andb]. apply once_post_count. exact Hpost.
      + replace (1 =? side) with false by (symmetry; apply Z.eqb_neq; congruence).
        replace (side =? 1) with false by (symmetry; apply Z.eqb_neq; congruence). cbn [andb]. lia.
    - pose proof (thandle_sim app_a (tnow w) (twa w) m Wa) as Hsim.
      pose proof (handle_s_once_pot app_a (view (tnow w) (twa w)) m (tget_sent_request (twa w) (mtok m)) (okA_nonobs _ _ _ Hm)) as Hh.
      destruct (thandle app_a (tnow w) (twa w) m) as [[[e' o] d] nerr]. destruct Hsim as [Hsim Hres]. rewrite Hsim in Hh.
      pose proof (tcomplete_sim (tnow w) d (tpending w) e' (proj1 (proj2 Hres))) as Hc.
      pose proof (complete_receiving (tpending w) d (view (tnow w) e')) as Hcr.
      destruct (tcomplete (tpending w) d e') as [[p' e''] rets]. destruct Hc as [Hc _]. rewrite Hc in Hcr. cbn [fst snd] in Hcr.
      assert (Hpost : once_post (view (tnow w) (twa w)) (view (tnow w) e'') (mtok m) (firstb 0 m = true) d).
      { eapply once_post_recv; [exact Hcr|]. eapply once_post_weaken; [apply (okA_first _ _ _ Hm)|]. apply Hh.
        intros cm Hg. destruct Ha as [_ [_ [_ [_ Hra]]]]. eapply recvA_key; eassumption. }
      intros side t. unfold hand1, arr1, proj_mob, tpot. cbn [o_in o_deliv o_side mo_side mo_in mo_deliv option_map].
      rewrite temit_twa, temit_twb, temit_tnow. cbn [twa twb tnow with_ta with_tpending]. rewrite is_first_proj. replace (ptok (proj m)) with (mtok m) by reflexivity.
      destruct (Z.eq_dec side 0) as [->|Hne].
      + cbn [Z.eqb andb]. apply once_post_count. exact Hpost.
      + replace (0 =? side) with false by (symmetry; apply Z.eqb_neq; congruence).
        replace (side =? 0) with false by (symmetry; apply Z.eqb_neq; congruence). cbn [andb]. destruct (side =? 1); lia.
  Qed.

  Lemma tstep_once N w e : twinv N w -> let '(w', o) := tstep c w e in tstep_ineq w w' o.
  Proof.
    intros Hinv. pose proof Hinv as (Ha & Hb & Hr & Wa & Wb & Hw & Hf & _).
    assert (Hquiet : forall w0, (forall t, potE (view (tnow w0) (twa w0)) t <= potE (view (tnow w) (twa w)) t) ->
                                (forall t, potE (view (tnow w0) (twb w0)) t <= potE (view (tnow w) (twb w)) t) ->
                     let '(w', o) := tquiet w0 in tstep_ineq w w' o).
    { intros w0 H1 H2. apply tsilent_ineq; auto. }
    assert (Hstarted : forall w1 toB o rets, (forall t, potE (view (tnow w1) (twa w1)) t <= potE (view (tnow w) (twa w)) t) ->
                                            (forall t, potE (view (tnow w1) (twb w1)) t <= potE (view (tnow w) (twb w)) t) ->
                       let '(w', ob) := tstarted w1 toB o rets in tstep_ineq w w' ob).
    { intros w1 toB o rets H1 H2. apply tsilent_ineq; try reflexivity; rewrite ?temit_twa, ?temit_twb, ?temit_tnow; assumption. }
    destruct e as [e|d|atB]; cbn [tstep].
    2: { apply Hquiet; intros t; cbn [twa twb tnow with_tnow]; apply potE_later; try assumption; try lia; apply csub_refl. }
    2: { destruct atB; apply Hquiet; intros t; cbn [twa twb tnow with_ta with_tb]; try lia;
           (apply potE_later; [assumption|apply twf_tsweep; assumption|lia|apply csub_tsweep; assumption]). }
    destruct e as [i|j|j|j|h|k|i|atB].
    - destruct (nth_error (cexch c) i) as [x|] eqn:Hx; [|apply Hquiet; intros; lia].
      destruct (xkind x =? 0).
      + pose proof (tdo_start_sim (tnow w) (twa w) (request_of x) Wa) as Hsim.
        pose proof (do_start_receiving (view (tnow w) (twa w)) (request_of x)) as Hrr.
        destruct (tdo_start (tnow w) (twa w) (request_of x)) as [e' o]. destruct Hsim as [Hsim _]. rewrite Hsim in Hrr. cbn [fst] in Hrr.
        destruct o as [m|]; apply Hstarted; cbn [twa twb tnow with_ta with_tpending]; intros t; try lia;
          rewrite (potE_recv (view (tnow w) (twa w)) (view (tnow w) e') t) by (rewrite Hrr; reflexivity); lia.
      + destruct (xkind x =? 1).
        * unfold twrite_start.
          match goal with |- context [tstart_sending ?n ?a ?b ?c0 ?d ?f] =>
            pose proof (tstart_sending_sim n a b c0 d f Wa) as Hsim; pose proof (start_sending_receiving (view n a) b c0 d f) as Hrr;
            destruct (tstart_sending n a b c0 d f) as [e' o] end.
          destruct Hsim as [Hsim _]. rewrite Hsim in Hrr. cbn [fst] in Hrr.
          destruct o as [m|]; apply Hstarted; cbn [twa twb tnow with_ta]; intros t; try lia;
            rewrite (potE_recv (view (tnow w) (twa w)) (view (tnow w) e') t) by (rewrite Hrr; reflexivity); lia.
        * unfold twrite_start.
          match goal with |- context [tstart_sending ?n ?a ?b ?c0 ?d ?f] =>
            pose proof (tstart_sending_sim n a b c0 d f Wb) as Hsim; pose proof (start_sending_receiving (view n a) b c0 d f) as Hrr;
            destruct (tstart_sending n a b c0 d f) as [e' o] end.
          destruct Hsim as [Hsim _]. rewrite Hsim in Hrr. cbn [fst] in Hrr.
          destruct o as [m|]; apply Hstarted; cbn [twa twb tnow with_tb]; intros t; try lia;
            rewrite (potE_recv (view (tnow w) (twb w)) (view (tnow w) e') t) by (rewrite Hrr; reflexivity); lia.
    - destruct (nth_error (tflight w) j) as [[toB m]|] eqn:Hj; [|apply Hquiet; intros; lia].
      apply nth_error_In in Hj.
      pose proof (tarrive_once N (with_tflight w (remove_nth j (tflight w))) toB m) as Har.
      destruct (tarrive c (with_tflight w (remove_nth j (tflight w))) toB m) as [w1 o].
      apply Har; [|exact (Hw _ _ (Hf _ Hj))].
      apply twinv_flight; [exact Hinv|]. intros x Hx. eapply remove_nth_In; exact Hx.
    - destruct (nth_error (tflight w) j) as [[toB m]|] eqn:Hj; [|apply Hquiet; intros; lia].
      apply nth_error_In in Hj. apply (tarrive_once N); [exact Hinv|exact (Hw _ _ (Hf _ Hj))].
    - apply Hquiet; intros; cbn [twa twb tnow with_tflight]; lia.
    - destruct (nth_error (twhist w) h) as [[toB m]|] eqn:Hh; [|apply Hquiet; intros; lia].
      apply nth_error_In in Hh. apply (tarrive_once N); [exact Hinv|exact (Hw _ _ Hh)].
    - apply Hquiet; intros; cbn [twa twb tnow with_tvers]; lia.
    - destruct (find (fun p => Nat.eqb (fst p) i) (tpending w)) as [[i' t]|]; [|apply Hquiet; intros; lia].
      apply tsilent_ineq; try reflexivity; intros t0; cbn [twa twb tnow with_ta with_tpending]; lia.
    - destruct atB; apply Hquiet; intros t; cbn [twa twb tnow with_ta with_tb]; try lia;
        (apply potE_later; [assumption|apply twf_tsweep; assumption|lia|apply csub_tsweep; assumption]).
  Qed.

  Lemma trun_once N : forall es w,
    twinv N w -> Forall tbump_ok es -> (forall k, ver (tvers w) k + bumps (untimed es) k <= N k) ->
    forall side t, handed (map proj_mob (trun c w es)) side t <= arrivals (map proj_mob (trun c w es)) side t + tpot w side t.
  Proof.
    induction es as [|e es IH]; intros w Hinv Hb HN side t; cbn [trun map].
    { unfold handed, arrivals, tpot. cbn [fold_left].
      pose proof (potE_range (view (tnow w) (twa w)) t). pose proof (potE_range (view (tnow w) (twb w)) t).
      destruct (side =? 1); [lia|]. destruct (side =? 0); lia. }
    inversion Hb as [|? ? Hbe Hbes]; subst.
    pose proof (tstep_inv N w e Hinv Hbe) as Hst. pose proof (tstep_vers w e) as Hve. pose proof (tstep_once N w e Hinv) as Hso.
    destruct (tstep c w e) as [w' o]. cbn [fst] in Hve. cbn [map].
    destruct Hst as [Hinv' _].
    { intros k ->. specialize (HN k). rewrite untimed_cons_bumps in HN. cbn [bump_count] in HN. rewrite Z.eqb_refl in HN.
      pose proof (bumps_nonneg (untimed es) k). lia. }
    rewrite handed_cons, arrivals_cons.
    assert (HN' : forall k, ver (tvers w') k + bumps (untimed es) k <= N k).
    { intros k. specialize (HN k). rewrite untimed_cons_bumps in HN. rewrite Hve.
      destruct e as [e0|d0|b0]; try lia. destruct e0; cbn [bump_count] in HN; try lia.
      rewrite ver_bump. rewrite (Z.eqb_sym k0 k) in HN. destruct (k =? k0) eqn:E; [|lia].
      apply Z.eqb_eq in E. subst k0. lia. }
    specialize (IH w' Hinv' Hbes HN' side t). specialize (Hso side t). lia.
  Qed.

  (* "Exactly once" over ALL timed scripts *)
  Theorem timed_exchange_once_counts es :
    Forall tbump_ok es ->
    forall side t, handed (model_obs_t c es) side t <= arrivals (model_obs_t c es) side t.
  Proof.
    intros Hb side t. unfold model_obs_t.
    pose proof (trun_once (bumps (untimed es)) es (tinit c) (twinv_init _ (fun k => bumps_nonneg (untimed es) k)) Hb) as H.
    specialize (H (fun k => ltac:(cbn; lia)) side t).
    assert (Hp : tpot (tinit c) side t = 0) by (unfold tpot, potE, tinit, new_tep; cbn; destruct (side =? 1); [|destruct (side =? 0)]; reflexivity).
    lia.
  Qed.
  Theorem timed_exchange_once es : Forall tbump_ok es -> once_ok (model_obs_t c es) = true.
  Proof.
    intros Hb. unfold once_ok. apply forallb_forall. intros o _. apply forallb_forall. intros d _.
    apply Z.leb_le. apply timed_exchange_once_counts. exact Hb.
  Qed.

  (* a Do that returns ok got its response in that step *)
  Lemma tarrive_ret w toB m :
    twf (twa w) -> pend_ok c (tpending w) ->
    let '(w1, o) := tarrive c w toB m in pend_ok c (tpending w1) /\ ret_ok c (proj_mob o) = true.
  Proof.
    intros Wa Hp. unfold tarrive. destruct toB.
    - destruct (thandle (app_b c (tvers w)) (tnow w) (twb w) m) as [[[e' o] d] nerr].
      split; [destruct o; exact Hp|reflexivity].
    - pose proof (thandle_sim app_a (tnow w) (twa w) m Wa) as Hsim.
      destruct (thandle app_a (tnow w) (twa w) m) as [[[e' o] d] nerr]. destruct Hsim as [_ Hres].
      pose proof (tcomplete_sim (tnow w) d (tpending w) e' (proj1 (proj2 Hres))) as Hcs.
      pose proof (complete_spec (tpending w) d (view (tnow w) e')) as Hc.
      destruct (tcomplete (tpending w) d e') as [[p' e''] rets]. destruct Hcs as [Hcs _]. rewrite Hcs in Hc. destruct Hc as [H1 H2].
      split.
      + assert (Hp' : pend_ok c p') by (intros i t Hin; apply Hp, H1, Hin). destruct o; exact Hp'.
      + unfold ret_ok, proj_mob. cbn [o_ret o_deliv mo_ret mo_deliv]. apply forallb_forall. intros r Hr0.
        destruct (H2 r Hr0) as [i [t [-> [Hin Hex]]]]. cbn [fst snd Z.eqb]. rewrite Nat2Z.id.
        destruct (Hp i t Hin) as [x [-> Ht]]. destruct (xkind x =? 0); [|reflexivity].
        rewrite existsb_proj, Ht. exact Hex.
  Qed.

  Lemma tstep_ret N w e :
    twinv N w -> pend_ok c (tpending w) -> let '(w', o) := tstep c w e in pend_ok c (tpending w') /\ ret_ok c (proj_mob o) = true.
  Proof.
    intros (_ & _ & _ & Wa & _) Hp.
    assert (Hquiet : forall w0, pend_ok c (tpending w0) -> let '(w', o) := tquiet w0 in pend_ok c (tpending w') /\ ret_ok c (proj_mob o) = true).
    { intros w0 H0. split; [exact H0|reflexivity]. }
    assert (Hemit : forall w1 toB o, tpending (temit w1 toB o) = tpending w1) by (intros w1 toB [m|]; reflexivity).
    destruct e as [e|d|atB]; cbn [tstep]; [|apply Hquiet; exact Hp|destruct atB; apply Hquiet; exact Hp].
    destruct e as [i|j|j|j|h|k|i|atB].
    - destruct (nth_error (cexch c) i) as [x|] eqn:Hx; [|apply Hquiet; exact Hp].
      destruct (xkind x =? 0) eqn:K0.
      + destruct (tdo_start (tnow w) (twa w) (request_of x)) as [e' [m|]]; unfold tstarted; rewrite Hemit; cbn [tpending with_tpending with_ta].
        * split; [|reflexivity]. intros i' t Hin. apply in_app_or in Hin. destruct Hin as [Hin|[Hin|[]]]; [apply Hp; exact Hin|].
          injection Hin as <- <-. exists x. auto.
        * split; [exact Hp|reflexivity].
      + destruct (xkind x =? 1).
        * destruct (twrite_start (tnow w) (twa w) (request_of x)) as [e' [m|]]; unfold tstarted; rewrite Hemit; cbn [tpending with_ta];
            (split; [exact Hp|]); [|reflexivity].
          unfold ret_ok, proj_mob. cbn [o_ret mo_ret forallb fst snd Z.eqb]. rewrite Nat2Z.id, Hx, K0. reflexivity.
        * destruct (twrite_start (tnow w) (twb w) (tnotification_of c w x)) as [e' [m|]]; unfold tstarted; rewrite Hemit; cbn [tpending with_tb];
            (split; [exact Hp|]); [|reflexivity].
          unfold ret_ok, proj_mob. cbn [o_ret mo_ret forallb fst snd Z.eqb]. rewrite Nat2Z.id, Hx, K0. reflexivity.
    - destruct (nth_error (tflight w) j) as [[toB m]|]; [|apply Hquiet; exact Hp]. apply tarrive_ret; assumption.
    - destruct (nth_error (tflight w) j) as [[toB m]|]; [|apply Hquiet; exact Hp]. apply tarrive_ret; assumption.
    - apply Hquiet. exact Hp.
    - destruct (nth_error (twhist w) h) as [[toB m]|]; [|apply Hquiet; exact Hp]. apply tarrive_ret; assumption.
    - apply Hquiet. exact Hp.
    - destruct (find (fun p => Nat.eqb (fst p) i) (tpending w)) as [[i' t]|]; [|apply Hquiet; exact Hp].
      split; [|reflexivity]. cbn [tpending with_tpending]. intros i0 t0 Hin. apply filter_In in Hin. apply Hp. apply Hin.
    - destruct atB; apply Hquiet; exact Hp.
  Qed.

  Lemma trun_ret N : forall es w,
    twinv N w -> Forall tbump_ok es -> (forall k, ver (tvers w) k + bumps (untimed es) k <= N k) ->
    pend_ok c (tpending w) -> forallb (ret_ok c) (map proj_mob (trun c w es)) = true.
  Proof.
    induction es as [|e es IH]; intros w Hinv Hb HN Hp; cbn [trun map forallb]; [reflexivity|].
    inversion Hb as [|? ? Hbe Hbes]; subst.
    pose proof (tstep_inv N w e Hinv Hbe) as Hst. pose proof (tstep_vers w e) as Hve.
    pose proof (tstep_ret N w e Hinv Hp) as Hs. destruct (tstep c w e) as [w' o]. destruct Hs as [Hp' Hr0]. cbn [fst] in Hve.
    destruct Hst as [Hinv' _].
    { intros k ->. specialize (HN k). rewrite untimed_cons_bumps in HN. cbn [bump_count] in HN. rewrite Z.eqb_refl in HN.
      pose proof (bumps_nonneg (untimed es) k). lia. }
    cbn [map forallb]. rewrite Hr0. apply IH; [exact Hinv'|exact Hbes| |exact Hp'].
    intros k. specialize (HN k). rewrite untimed_cons_bumps in HN. rewrite Hve.
    destruct e as [e0|d0|b0]; try lia. destruct e0; cbn [bump_count] in HN; try lia.
    rewrite ver_bump. rewrite (Z.eqb_sym k0 k) in HN. destruct (k =? k0) eqn:E; [|lia].
    apply Z.eqb_eq in E. subst k0. lia.
  Qed.

  (* The whole property C04 (Spec.c04_ok) on the timed trace of EVERY timed script *)
  Theorem timed_exchange_c04_ok es :
    Forall tbump_ok es -> c04_ok c (untimed es) (model_obs_t c es) = true.
  Proof.
    intros Hb. unfold c04_ok, c04_class.
    assert (Hbad : first_class (map (fun o => if o_bad o =? 0 then 0%N else if o_bad o =? 1 then 6%N else 7%N) (model_obs_t c es)) = 0%N).
    { apply first_class_zero. apply Forall_forall. intros x Hx. apply in_map_iff in Hx. destruct Hx as [o [<- Ho]].
      unfold model_obs_t in Ho. apply in_map_iff in Ho. destruct Ho as [mo [<- _]]. reflexivity. }
    rewrite Hbad. cbn [N.eqb negb].
    assert (Hdc : first_class (flat_map (fun o => map (delivery_class c (untimed es) (o_side o)) (o_deliv o)) (model_obs_t c es)) = 0%N).
    { apply first_class_zero. apply Forall_forall. intros x Hx. apply in_flat_map in Hx. destruct Hx as [o [Ho Hx]].
      apply in_map_iff in Hx. destruct Hx as [d [<- Hd]].
      pose proof (timed_exchange_safety_spec es Hb) as Hs. rewrite Forall_forall in Hs. specialize (Hs o Ho).
      rewrite Forall_forall in Hs. exact (Hs d Hd). }
    rewrite Hdc. cbn [N.eqb negb]. rewrite (timed_exchange_once es Hb). cbn [negb].
    unfold model_obs_t.
    rewrite (trun_ret (bumps (untimed es)) es (tinit c) (twinv_init _ (fun k => bumps_nonneg (untimed es) k)) Hb);
      [reflexivity|intros k; cbn; lia|intros i t []].
  Qed.
End TSystem.

(* ------------------------------------------------------------------------ *)
(* 5. at rest: a script without Age / Sweep                                   *)
(* While no time passes every element is valid (and its deadline is at most   *)
(* now + EXP, so that the far-future sweep of Model.v, Expire, removes it):    *)
(* the timed run IS the run of Model.v, event by event, observation by          *)
(* observation (wire messages, deliveries, error callbacks, returns, sizes).  *)
Definition allive (now : Z) (c : cache) : Prop :=
  forall k dl v, craw c k = Some (dl, v) -> expired now dl = false /\ dl <= now + EXP.
Lemma allive_frame now c c' : allive now c -> frame now c c' -> allive now c'.
Proof.
  intros Ha Hf k dl v Hk. destruct (Hf k) as [H|[H|(dl' & v' & H & Hx & Hd)]].
  - rewrite H in Hk. exact (Ha _ _ _ Hk).
  - rewrite H in Hk. discriminate.
  - rewrite H in Hk. injection Hk as <- <-. split; [exact Hx|]. destruct Hd as [->|[v0 Hd]]; [lia|apply (Ha _ _ _ Hd)].
Qed.
Lemma allive_tail now a x c : cwf ((a, x) :: c) -> allive now ((a, x) :: c) -> allive now c.
Proof.
  intros Hw Ha k dl v Hk. apply (Ha k dl v). cbn [craw]. destruct (k =? a) eqn:E; [|exact Hk].
  exfalso. apply Z.eqb_eq in E. subst a. inversion Hw as [|? ? Hn _]; subst. apply Hn. eapply craw_some_keys. exact Hk.
Qed.
Lemma live_len now c : cwf c -> allive now c -> blen (live now c) = blen c.
Proof.
  unfold blen. induction c as [|[a [dl v]] c IH]; intros Hw Ha; [reflexivity|]. cbn [live].
  destruct (Ha a dl v) as [Hx _]; [cbn [craw]; rewrite Z.eqb_refl; reflexivity|]. rewrite Hx. cbn [length].
  inversion Hw as [|? ? _ Hd]; subst. rewrite !Nat2Z.inj_succ. f_equal. apply IH; [exact Hd|eapply allive_tail; eassumption].
Qed.
Lemma ckeep_gone now c : cwf c -> allive now c -> ckeep (now + 2 * EXP) c = [].
Proof.
  unfold ckeep. induction c as [|[a [dl v]] c IH]; intros Hw Ha; [reflexivity|]. cbn [filter fst snd].
  destruct (Ha a dl v) as [_ Hb]; [cbn [craw]; rewrite Z.eqb_refl; reflexivity|].
  replace (expired (now + 2 * EXP) dl) with true by (symmetry; apply Z.ltb_lt; unfold EXP in *; lia). cbn [negb].
  inversion Hw as [|? ? _ Hd]; subst. apply IH; [exact Hd|eapply allive_tail; eassumption].
Qed.
Lemma allive_sub now c c' : allive now c -> csub c' c -> allive now c'.
Proof. intros Ha Hs k dl v Hk. exact (Ha _ _ _ (Hs _ _ Hk)). Qed.

Definition tep_ok (now : Z) (te : tep) : Prop := twf te /\ allive now (tsnd te) /\ allive now (trcv te).
Lemma tep_ok_res now te te' e' : tep_ok now te -> sim_res now te te' e' -> tep_ok now te'.
Proof.
  intros (_ & A1 & A2) (_ & W & F1 & F2). split; [exact W|]. split; [exact (allive_frame _ _ _ A1 F1)|exact (allive_frame _ _ _ A2 F2)].
Qed.

Definition csim (tw : tworld) (w : world) : Prop :=
  tep_ok (tnow tw) (twa tw) /\ tep_ok (tnow tw) (twb tw) /\
  view (tnow tw) (twa tw) = wa w /\ view (tnow tw) (twb tw) = wb w /\
  tflight tw = flight w /\ twhist tw = whist w /\ tvers tw = vers w /\ tpending tw = pending w.

Lemma sizes_rest tw w : csim tw w -> tsizes_of tw = sizes_of w.
Proof.
  intros ((Wa & A1 & A2) & (Wb & B1 & B2) & Va & Vb & _). unfold tsizes_of, sizes_of. rewrite <- Va, <- Vb.
  cbn [sending receiving view]. rewrite !live_len; try assumption; try apply Wa; try apply Wb. reflexivity.
Qed.

Lemma csim_emit tw w toB o : csim tw w -> csim (temit tw toB o) (emit w toB o).
Proof.
  intros Hs. pose proof Hs as (Ha & Hb & Va & Vb & F & H & V & P). destruct o as [m|]; [|exact Hs].
  unfold csim, temit, emit. cbn [twa twb tflight twhist tvers tpending tnow wa wb flight whist vers pending].
  rewrite F, H. split; [exact Ha|]. split; [exact Hb|]. repeat split; try assumption; reflexivity.
Qed.

Lemma no_expired_sending now te k : tep_ok now te -> forall dl m, craw (tsnd te) k = Some (dl, m) -> expired now dl = false.
Proof. intros (_ & A & _) dl m H. apply (A _ _ _ H). Qed.

Lemma mob_eq s i w d n r z z' : z = z' ->
  {| mo_side := s; mo_in := i; mo_wire := w; mo_deliv := d; mo_err := n; mo_ret := r; mo_sizes := z |} =
  {| mo_side := s; mo_in := i; mo_wire := w; mo_deliv := d; mo_err := n; mo_ret := r; mo_sizes := z' |}.
Proof. intros ->. reflexivity. Qed.

Section Rest.
  Variable c : cfg.

  Lemma tarrive_rest tw w toB m : csim tw w ->
    let '(tw', o) := tarrive c tw toB m in let '(w', o') := arrive c w toB m in o = o' /\ csim tw' w'.
  Proof.
    intros Hs. pose proof Hs as (Ha & Hb & Va & Vb & F & H & V & P). unfold tarrive, arrive. destruct toB.
    - pose proof (thandle_view (app_b c (tvers tw)) (tnow tw) (twb tw) m (proj1 Hb) (no_expired_sending _ _ _ Hb)) as Hh.
      destruct (thandle (app_b c (tvers tw)) (tnow tw) (twb tw) m) as [[[e' o] d] nerr]. destruct Hh as [Hh Hres].
      rewrite Vb, V in Hh. rewrite Hh.
      assert (Hs' : csim (temit (with_tb tw e') false o) (emit (with_b w (view (tnow tw) e')) false o)).
      { apply csim_emit. unfold csim. cbn [twa twb tflight twhist tvers tpending tnow with_tb wa wb flight whist vers pending with_b].
        split; [exact Ha|]. split; [exact (tep_ok_res _ _ _ _ Hb Hres)|]. repeat split; assumption. }
      split; [apply mob_eq, sizes_rest, Hs'|exact Hs'].
    - pose proof (thandle_view app_a (tnow tw) (twa tw) m (proj1 Ha) (no_expired_sending _ _ _ Ha)) as Hh.
      destruct (thandle app_a (tnow tw) (twa tw) m) as [[[e' o] d] nerr]. destruct Hh as [Hh Hres].
      rewrite Va in Hh. rewrite Hh.
      assert (Ok' : tep_ok (tnow tw) e') by exact (tep_ok_res _ _ _ _ Ha Hres).
      pose proof (tcomplete_sim (tnow tw) d (tpending tw) e' (proj1 Ok')) as Hc.
      destruct (tcomplete (tpending tw) d e') as [[p' e''] rets]. destruct Hc as [Hc Hres2]. rewrite P in Hc. rewrite Hc.
      assert (Hs' : csim (temit (with_tpending (with_ta tw e'') p') true o)
                         (emit (with_pending (with_a w (view (tnow tw) e'')) p') true o)).
      { apply csim_emit. unfold csim.
        cbn [twa twb tflight twhist tvers tpending tnow with_ta with_tpending wa wb flight whist vers pending with_a with_pending].
        split; [exact (tep_ok_res _ _ _ _ Ok' Hres2)|]. split; [exact Hb|]. repeat split; assumption. }
      split; [apply mob_eq, sizes_rest, Hs'|exact Hs'].
  Qed.

  Lemma tsweep_rest now te : tep_ok now te ->
    view now (tsweep (now + 2 * EXP) te) = with_receiving (with_sending (view now te) []) [] /\ tep_ok now (tsweep (now + 2 * EXP) te).
  Proof.
    intros (W & A1 & A2).
    assert (E2 : ckeep (now + 2 * EXP) (trcv te) = []) by (apply ckeep_gone; [apply W|exact A2]).
    assert (E1 : ckeep (now + 2 * EXP) (fold_left cdel (cgone (now + 2 * EXP) (trcv te)) (tsnd te)) = []).
    { apply ckeep_gone; [apply cwf_fold_cdel; apply W|]. eapply allive_sub; [exact A1|apply csub_fold_cdel]. }
    unfold tsweep. rewrite E1, E2. split; [reflexivity|].
    split; [split; constructor|]. split; intros k dl v Hk; discriminate Hk.
  Qed.

  Lemma tstep_rest tw w e : csim tw w ->
    let '(tw', o) := tstep c tw (Ev e) in let '(w', o') := step c w e in o = o' /\ csim tw' w'.
  Proof.
    intros Hs. pose proof Hs as (Ha & Hb & Va & Vb & F & H & V & P).
    assert (Hquiet : forall tw0 w0, csim tw0 w0 -> let '(tw', o) := tquiet tw0 in let '(w', o') := quiet w0 in o = o' /\ csim tw' w').
    { intros tw0 w0 H0. split; [apply mob_eq, sizes_rest, H0|exact H0]. }
    assert (Hstarted : forall tw1 w1 toB o rets, csim tw1 w1 ->
              let '(tw', ob) := tstarted tw1 toB o rets in let '(w', ob') := started w1 toB o rets in ob = ob' /\ csim tw' w').
    { intros tw1 w1 toB o rets H1. unfold tstarted, started.
      pose proof (csim_emit tw1 w1 toB o H1) as H2. split; [apply mob_eq, sizes_rest, H2|exact H2]. }
    cbn [tstep]. destruct e as [i|j|j|j|h|k|i|atB]; cbn [step].
    - (* Start *)
      destruct (nth_error (cexch c) i) as [x|]; [|apply Hquiet; exact Hs].
      destruct (xkind x =? 0).
      + pose proof (tdo_start_sim (tnow tw) (twa tw) (request_of x) (proj1 Ha)) as Hd.
        destruct (tdo_start (tnow tw) (twa tw) (request_of x)) as [e' o]. destruct Hd as [Hd Hres]. rewrite Va in Hd. rewrite Hd.
        assert (Ok' : tep_ok (tnow tw) e') by exact (tep_ok_res _ _ _ _ Ha Hres).
        destruct o as [m|]; apply Hstarted; unfold csim;
          cbn [twa twb tflight twhist tvers tpending tnow with_ta with_tpending wa wb flight whist vers pending with_a with_pending];
          rewrite ?P; (split; [exact Ok'|]); (split; [exact Hb|]); repeat split; try assumption; reflexivity.
      + destruct (xkind x =? 1).
        * unfold twrite_start, write_start.
          pose proof (tstart_sending_sim (tnow tw) (twa tw) (Some (request_of x)) (tszx (twa tw)) (tmax (twa tw))
                        {| bszx := tszx (twa tw); bnum := 0; bmore := true |} (proj1 Ha)) as Hd.
          destruct (tstart_sending (tnow tw) (twa tw) (Some (request_of x)) (tszx (twa tw)) (tmax (twa tw))
                      {| bszx := tszx (twa tw); bnum := 0; bmore := true |}) as [e' o]. destruct Hd as [Hd Hres].
          rewrite <- Va. cbn [eszx emax view]. rewrite Hd.
          assert (Ok' : tep_ok (tnow tw) e') by exact (tep_ok_res _ _ _ _ Ha Hres).
          destruct o as [m|]; apply Hstarted; unfold csim;
            cbn [twa twb tflight twhist tvers tpending tnow with_ta wa wb flight whist vers pending with_a];
            (split; [exact Ok'|]); (split; [exact Hb|]); rewrite ?Va; repeat split; try assumption; reflexivity.
        * unfold twrite_start, write_start, tnotification_of. rewrite V.
          pose proof (tstart_sending_sim (tnow tw) (twb tw) (Some (notification_of c (vers w) x)) (tszx (twb tw)) (tmax (twb tw))
                        {| bszx := tszx (twb tw); bnum := 0; bmore := true |} (proj1 Hb)) as Hd.
          destruct (tstart_sending (tnow tw) (twb tw) (Some (notification_of c (vers w) x)) (tszx (twb tw)) (tmax (twb tw))
                      {| bszx := tszx (twb tw); bnum := 0; bmore := true |}) as [e' o]. destruct Hd as [Hd Hres].
          rewrite <- Vb. cbn [eszx emax view]. rewrite Hd.
          assert (Ok' : tep_ok (tnow tw) e') by exact (tep_ok_res _ _ _ _ Hb Hres).
          destruct o as [m|]; apply Hstarted; unfold csim;
            cbn [twa twb tflight twhist tvers tpending tnow with_tb wa wb flight whist vers pending with_b];
            (split; [exact Ha|]); (split; [exact Ok'|]); rewrite ?Vb; repeat split; try assumption; reflexivity.
    - (* Deliver *)
      rewrite F. destruct (nth_error (flight w) j) as [[toB m]|]; [|apply Hquiet; exact Hs].
      apply tarrive_rest. unfold csim. cbn [twa twb tflight twhist tvers tpending tnow with_tflight wa wb flight whist vers pending with_flight].
      (split; [exact Ha|]); (split; [exact Hb|]); repeat split; try assumption; reflexivity.
    - (* Dup *)
      rewrite F. destruct (nth_error (flight w) j) as [[toB m]|]; [|apply Hquiet; exact Hs]. apply tarrive_rest. exact Hs.
    - (* Drop *)
      rewrite F. apply Hquiet. unfold csim. cbn [twa twb tflight twhist tvers tpending tnow with_tflight wa wb flight whist vers pending with_flight].
      (split; [exact Ha|]); (split; [exact Hb|]); repeat split; try assumption; reflexivity.
    - (* Replay *)
      rewrite H. destruct (nth_error (whist w) h) as [[toB m]|]; [|apply Hquiet; exact Hs]. apply tarrive_rest. exact Hs.
    - (* Bump *)
      rewrite V. apply Hquiet. unfold csim. cbn [twa twb tflight twhist tvers tpending tnow with_tvers wa wb flight whist vers pending with_vers].
      (split; [exact Ha|]); (split; [exact Hb|]); repeat split; try assumption; reflexivity.
    - (* Timeout *)
      rewrite P. destruct (find (fun p => Nat.eqb (fst p) i) (pending w)) as [[i' t]|]; [|apply Hquiet; exact Hs].
      assert (Hs' : csim (with_tpending (with_ta tw (with_tsnd (twa tw) (cdel (tsnd (twa tw)) t))) (filter (fun p => negb (Nat.eqb (fst p) i)) (pending w)))
                         (with_pending (with_a w (with_sending (wa w) (tdel (sending (wa w)) t))) (filter (fun p => negb (Nat.eqb (fst p) i)) (pending w)))).
      { unfold csim. cbn [twa twb tflight twhist tvers tpending tnow with_ta with_tpending wa wb flight whist vers pending with_a with_pending].
        destruct Ha as (W & A1 & A2).
        split; [split; [split; [apply cwf_cdel; apply W|apply W]|split; [eapply allive_sub; [exact A1|apply csub_cdel]|exact A2]]|].
        split; [exact Hb|]. split; [rewrite view_with_tsnd, live_cdel, <- Va; reflexivity|]. repeat split; assumption. }
      split; [apply mob_eq, sizes_rest, Hs'|exact Hs'].
    - (* Expire *)
      destruct atB; apply Hquiet; unfold csim; cbn [twa twb tflight twhist tvers tpending tnow with_ta with_tb wa wb flight whist vers pending with_a with_b].
      + destruct (tsweep_rest (tnow tw) (twb tw) Hb) as [Vs Oks]. split; [exact Ha|]. split; [exact Oks|]. split; [exact Va|].
        split; [rewrite Vs, Vb; reflexivity|]. repeat split; assumption.
      + destruct (tsweep_rest (tnow tw) (twa tw) Ha) as [Vs Oks]. split; [exact Oks|]. split; [exact Hb|].
        split; [rewrite Vs, Va; reflexivity|]. repeat split; assumption.
  Qed.

  Lemma trun_rest : forall es tw w, csim tw w -> trun c tw (map Ev es) = run c w es.
  Proof.
    induction es as [|e es IH]; intros tw w Hs; cbn [map trun run]; [reflexivity|].
    pose proof (tstep_rest tw w e Hs) as Hst.
    destruct (tstep c tw (Ev e)) as [tw' o]. destruct (step c w e) as [w' o']. destruct Hst as [-> Hs'].
    f_equal. apply IH. exact Hs'.
  Qed.

  (* every theorem about [run] (safety, once, c04_ok, isolation, expiry, progress ...) is a theorem about the
     timed system on scripts in which no time passes *)
  Theorem timed_conservative es : trun c (tinit c) (map Ev es) = run c (init c) es.
  Proof.
    apply trun_rest.
    assert (Hok : forall s m o, tep_ok 0 (new_tep s m o)).
    { intros s m o. unfold tep_ok, twf, new_tep, cwf. cbn [tsnd trcv map]. split; [split; constructor|].
      split; intros k dl v Hk; discriminate Hk. }
    unfold csim, tinit, init. cbn [twa twb tflight twhist tvers tpending tnow wa wb flight whist vers pending].
    split; [apply Hok|]. split; [apply Hok|]. repeat split.
  Qed.
End Rest.

(* ------------------------------------------------------------------------ *)
(* 6. two concrete histories                                                  *)

(* the exception of [expired_sending_invisible] is real: the element of a request whose deadline has
   passed (the Do is still waiting) is not found by Handle's own lookup, but getSentRequest pairs a
   Block2 response with it: with the expired element the block is taken and the next one is asked for
   (no error), without it the block is refused (error, 4.08) *)
Definition xs_req : msg :=
  {| mcode := GET; mtok := 7; mb1 := None; mb2 := None; ms1 := None; ms2 := None; metag := None; mobs := None;
     mother := [(11, 0)]; mbody := [] |}.
Definition xs_block : msg :=
  {| mcode := Content; mtok := 7; mb1 := None; mb2 := Some {| bszx := 0; bnum := 0; bmore := true |}; ms1 := None; ms2 := Some 40;
     metag := None; mobs := None; mother := [(12, 42)]; mbody := gen_body 11 16 |}.
Definition xs_ep : tep := with_tsnd (new_tep 0 1152 []) [(7, (0, xs_req))].
Example expired_sending_visible_to_getSentRequest :
  twf xs_ep /\ craw (tsnd xs_ep) 7 = Some (0, xs_req) /\ expired 1 0 = true /\
  (let '(_, w, _, n) := thandle app_a 1 xs_ep xs_block in
   n = 0 /\ exists m, w = Some m /\ mcode m = GET /\ mb2 m = Some {| bszx := 0; bnum := 1; bmore := true |}) /\
  (let '(_, w, _, n) := thandle app_a 1 (with_tsnd xs_ep (cdel (tsnd xs_ep) 7)) xs_block in
   n = 1 /\ exists m, w = Some m /\ mcode m = Incomplete).
Proof.
  split; [split; repeat constructor; intros []|]. split; [reflexivity|]. split; [reflexivity|].
  split; vm_compute; (split; [reflexivity|eexists; repeat split]).
Qed.

(* the history of the seeded regression: a download of a 75-byte resource (no ETag) dies after two
   blocks (the request for the third one is lost, the Do gives up), 3700 time units pass - beyond the
   deadline of what A still holds, nothing is swept -, the resource gets new content, a new Do with the
   SAME token completes: A's application is handed exactly the 78 bytes of the new content, once *)
Definition reuse_cfg : cfg := Cfg 0 1152 0 1152 [X 0 1 7 0 5 0 None] [R 11 75 false 42] [].
Definition reuse_es : list tev :=
  [Ev (Start 0); Ev (Deliver 0); Ev (Deliver 0); Ev (Deliver 0); Ev (Deliver 0); Ev (Drop 0); Ev (Timeout 0);
   Age 3700; Ev (Bump 0); Ev (Start 0)] ++ repeat (Ev (Deliver 0)) 10.
Example reuse_after_deadline :
  c04_class reuse_cfg (untimed reuse_es) (model_obs_t reuse_cfg reuse_es) = 0%N /\
  flat_map (fun o => map (fun d => (o_side o, plen d, psum d)) (filter (fun d => 0 <? plen d) (o_deliv o)))
           (model_obs_t reuse_cfg reuse_es) = [(0, 78, csum (res_body (R 11 75 false 42) 1))] /\
  (* ... while A's cache still holds the reassembly element of the dead exchange when the new one starts *)
  nth 1 (o_sizes (nth 9 (model_obs_t reuse_cfg reuse_es) (Ob 0 None None [] 0 [] [] 0))) 0 = 1.
Proof. vm_compute. repeat split. Qed.
