(* C04 at a UDP endpoint: a copy of a request datagram is absorbed by the connection, also when the reply to
   the first copy is a block of a block-wise exchange.  Stated over the model of the connection's request path
   with the block-wise layer (NoResp/BwModel.v: [bstep] = Process -> checkResponseCache -> blockwise.Handle ->
   handler -> processResponse -> addResponseToCache), for EVERY history of request datagrams before, between
   and after the two copies (any tokens, codes, options, block numbers, handler behaviours, message IDs - also
   other datagrams with the same message ID):

     once the connection has written a reply to a confirmable / non-confirmable request with message ID m,
     every later datagram of that type with message ID m is NOT handed to blockwise.Handle (no handler call,
     no change of the block-wise caches) and is answered with the code, token, options and payload of that
     reply - so a retransmitted first request of a block-wise download gets block 0 again instead of reaching
     the application a second time and colliding with the response parked under its token.

   Seeded regression C04-10 (processResponse does not store a reply that carries Block2) falsifies the step
   [reply_is_stored] for exactly those replies. *)
From Coq Require Import ZArith Bool List Lia.
From GoCoap Require Import Base.Bytes Dedup.Model Dedup.Proofs NoResp.BwModel NoResp.BwSpec NoResp.BwRun Blockwise.UdpSpec.
Import ListNotations.
Open Scope Z_scope.

Definition live (c : list (Z * entry)) : Prop := Forall (fun p => 0 <= e_left (snd p)) c.

Lemma lifetime_nonneg : 0 <= LIFETIME.
Proof. vm_compute. discriminate. Qed.

Lemma live_remove c k : live c -> live (remove c k).
Proof.
  unfold live. induction c as [|[k' e] r IH]; intros H; cbn [remove]; [constructor|].
  inversion H; subst. destruct (k =? k'); [auto|constructor; auto].
Qed.

Lemma live_store c k r : live c -> live (cache_store c k r).
Proof.
  intros H. unfold cache_store. destruct (cache_load c k); [exact H|].
  constructor; [cbn [snd e_left]; apply lifetime_nonneg|apply live_remove; exact H].
Qed.

Lemma live_lookup c k en : live c -> lookup c k = Some en -> 0 <= e_left en.
Proof.
  unfold live. induction c as [|[k' e] r IH]; intros H L; cbn [lookup] in L; [discriminate|].
  inversion H; subst. destruct (k =? k'); [inversion L; subst; assumption|auto].
Qed.

Definition same_reply (a b : wire) : Prop :=
  w_code a = w_code b /\ w_tok a = w_tok b /\ w_opts a = w_opts b /\ w_pay a = w_pay b.

Lemma bstep_live c s e : live (cache (conn s)) -> live (cache (conn (fst (bstep c s e)))).
Proof.
  intros H. unfold bstep.
  destruct (req_lookup (e_typ e) (e_mid e) (cache (conn s))) as [en|]; cbn [fst conn cache]; [exact H|].
  match goal with |- live (req_store ?m ?h ?c0) => destruct (req_store_cases m h c0) as [E|[r E]]; rewrite E end;
    [exact H|apply live_store; exact H].
Qed.

(* the reply written for a CON / NON request is in the response cache afterwards, whatever it carries *)
Lemma reply_is_stored c s e w :
  live (cache (conn s)) -> is_cacheable_typ (e_typ e) = true -> bo_out (snd (bstep c s e)) = [w] ->
  exists en, lookup (cache (conn (fst (bstep c s e)))) (e_mid e) = Some en /\ same_reply (e_reply en) w.
Proof.
  intros Hl Ht Ho. unfold bstep in *. unfold req_lookup in *. rewrite Ht in *.
  destruct (cache_load (cache (conn s)) (e_mid e)) as [en|] eqn:Ld.
  - cbn [fst snd conn cache bo_out] in *. exists en. split; [apply (cache_load_some _ _ _ Ld)|].
    inversion Ho; subst. unfold same_reply, retarget. cbn. auto.
  - cbn [fst snd conn cache bo_out] in *.
    set (r := bw_handle c (layer s) (e_tok e) (e_code e) (e_opts e) (e_pay e) (e_beh e)) in *.
    set (own1 := req_check (e_typ e) (e_mid e) (own (conn s))) in *.
    assert (Hst : hd_reply (req_handle_res (e_typ e) (e_mid e) (b_res r) own1) = Some w /\
                  hd_store (req_handle_res (e_typ e) (e_mid e) (b_res r) own1) = true).
    { unfold is_cacheable_typ in Ht. apply orb_true_iff in Ht.
      unfold req_handle_res in *. destruct (b_res r) as [h|].
      - destruct (is_special h); destruct (e_typ e =? CON) eqn:Ec; cbn [hd_reply hd_store] in *;
          (split; [inversion Ho; reflexivity|]); try reflexivity;
          destruct Ht as [Ht|Ht]; try congruence; exact Ht.
      - destruct (e_typ e =? CON) eqn:Ec; cbn [hd_reply hd_store] in *; [split; [inversion Ho; reflexivity|reflexivity]|discriminate]. }
    destruct Hst as [Hr Hs]. unfold req_store, store_reply. rewrite Hs, Hr.
    eexists. split; [apply lookup_store_same_miss; exact Ld|]. cbn [e_reply]. unfold same_reply. auto.
Qed.

(* ... and stays there through any further datagram *)
Lemma entry_persists c s e m en :
  live (cache (conn s)) -> lookup (cache (conn s)) m = Some en ->
  lookup (cache (conn (fst (bstep c s e)))) m = Some en.
Proof.
  intros Hl L. unfold bstep.
  destruct (req_lookup (e_typ e) (e_mid e) (cache (conn s))) as [en'|]; cbn [fst conn cache]; [exact L|].
  match goal with |- lookup (req_store ?m' ?h ?c0) _ = _ => destruct (req_store_cases m' h c0) as [E|[r E]]; rewrite E end;
    [exact L|].
  destruct (Z.eq_dec m (e_mid e)) as [Em|Em].
  - subst m. rewrite (lookup_store_same_hit _ _ r en); [exact L|].
    apply cache_load_of_lookup; [exact L|exact (live_lookup _ _ _ Hl L)].
  - rewrite lookup_store_other by exact Em. exact L.
Qed.

Lemma brun_keeps c evs : forall s m en,
  live (cache (conn s)) -> lookup (cache (conn s)) m = Some en ->
  live (cache (conn (fst (brun c s evs)))) /\ lookup (cache (conn (fst (brun c s evs)))) m = Some en.
Proof.
  induction evs as [|e r IH]; intros s m en Hl L; cbn [brun]; [cbn [fst]; auto|].
  pose proof (bstep_live c s e Hl) as Hl1. pose proof (entry_persists c s e m en Hl L) as L1.
  destruct (bstep c s e) as [s1 o]. cbn [fst] in *.
  specialize (IH s1 m en Hl1 L1). destruct (brun c s1 r) as [s2 os]. cbn [fst] in *. exact IH.
Qed.

Lemma brun_live c evs : forall s, live (cache (conn s)) -> live (cache (conn (fst (brun c s evs)))).
Proof.
  induction evs as [|e r IH]; intros s Hl; cbn [brun]; [exact Hl|].
  pose proof (bstep_live c s e Hl) as Hl1. destruct (bstep c s e) as [s1 o]. cbn [fst] in *.
  specialize (IH s1 Hl1). destruct (brun c s1 r) as [s2 os]. exact IH.
Qed.

(* a datagram whose message ID has an entry is answered from it; blockwise.Handle and the handler do not run *)
Lemma copy_absorbed c s e' en :
  live (cache (conn s)) -> is_cacheable_typ (e_typ e') = true -> lookup (cache (conn s)) (e_mid e') = Some en ->
  bo_call (snd (bstep c s e')) = None /\ layer (fst (bstep c s e')) = layer s /\
  bo_out (snd (bstep c s e')) = [retarget (e_typ e') (e_mid e') (e_reply en)].
Proof.
  intros Hl Ht L. unfold bstep, req_lookup. rewrite Ht.
  rewrite (cache_load_of_lookup _ _ _ L (live_lookup _ _ _ Hl L)). cbn. auto.
Qed.

Theorem udp_copy_absorbed : forall c own0 pre e w evs e',
  let s1 := fst (brun c (binit own0) pre) in
  let s2 := fst (bstep c s1 e) in
  let s3 := fst (brun c s2 evs) in
  is_cacheable_typ (e_typ e) = true ->
  bo_out (snd (bstep c s1 e)) = [w] ->
  e_typ e' = e_typ e -> e_mid e' = e_mid e ->
  bo_call (snd (bstep c s3 e')) = None /\
  layer (fst (bstep c s3 e')) = layer s3 /\
  exists r, bo_out (snd (bstep c s3 e')) = [r] /\ same_reply r w /\ w_mid r = e_mid e'.
Proof.
  intros c own0 pre e w evs e' s1 s2 s3 Ht Ho Et Em.
  assert (Hl1 : live (cache (conn s1))) by (apply brun_live; constructor).
  destruct (reply_is_stored c s1 e w Hl1 Ht Ho) as [en [L Hsame]].
  pose proof (bstep_live c s1 e Hl1) as Hl2.
  destruct (brun_keeps c evs s2 (e_mid e) en Hl2 L) as [Hl3 L3]. fold s3 in Hl3, L3.
  rewrite <- Em in L3. rewrite <- Et in Ht.
  destruct (copy_absorbed c s3 e' en Hl3 Ht L3) as [Hc [Hly Hout]].
  split; [exact Hc|]. split; [exact Hly|].
  eexists. split; [exact Hout|]. unfold same_reply in *. unfold retarget. cbn. tauto.
Qed.

(* the observation side: on the model's own trace of EVERY history the class of Blockwise/UdpSpec.v is never
   reached by the SECOND of two copies when the first one was answered (stated for the pair, in the form the
   predicate uses: the copy is not called) *)
Corollary udp_copy_not_called : forall c own0 pre e w evs e',
  is_cacheable_typ (e_typ e) = true ->
  bo_out (snd (bstep c (fst (brun c (binit own0) pre)) e)) = [w] ->
  e_typ e' = e_typ e -> e_mid e' = e_mid e ->
  bo_call (snd (bstep c (fst (brun c (fst (bstep c (fst (brun c (binit own0) pre)) e)) evs)) e')) = None.
Proof. intros c own0 pre e w evs e' Ht Ho Et Em. exact (proj1 (udp_copy_absorbed c own0 pre e w evs e' Ht Ho Et Em)). Qed.
