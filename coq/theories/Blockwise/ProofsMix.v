(* "Concurrent transfers with different tokens never mix": the refined classes of
   Spec.c04_class_x (8 body delivered under another token, 9 bodies of distinct tokens
   spliced) against the model.  The refinement only renames class 1, so everything proved
   about Spec.c04_class = 0 (ProofsExchange.exchange_c04_ok, ProofsTimed.timed_exchange_c04_ok:
   every script, every well-formed configuration, any number of concurrent tokens) carries
   over; the classes themselves are reachable (witness traces below). *)
From Coq Require Import ZArith NArith Bool List Lia.
From GoCoap Require Import Base.Bytes Blockwise.Config Blockwise.Model Blockwise.Spec Blockwise.Timed
  Blockwise.Run Blockwise.ProofsExchange Blockwise.ProofsTimed.
Import ListNotations.
Open Scope Z_scope.

(* the refinement is conservative: it fails exactly when the unrefined property fails ... *)
Lemma c04_class_x_zero_iff c es os : c04_class_x c es os = 0%N <-> c04_class c es os = 0%N.
Proof.
  unfold c04_class_x.
  destruct (N.eqb (c04_class c es os) 1) eqn:E1.
  - apply N.eqb_eq in E1. rewrite E1.
    destruct (N.eqb (first_class (flat_map (fun o => map (mix_class c es (o_side o)) (o_deliv o)) os)) 0) eqn:E0.
    + split; intros H; discriminate H.
    + apply N.eqb_neq in E0. split; intros H; [contradiction|discriminate H].
  - reflexivity.
Qed.

(* ... and it changes nothing but class 1 *)
Lemma c04_class_x_other c es os : c04_class c es os <> 1%N -> c04_class_x c es os = c04_class c es os.
Proof.
  intros H. unfold c04_class_x. destruct (N.eqb (c04_class c es os) 1) eqn:E1; [|reflexivity].
  apply N.eqb_eq in E1. contradiction.
Qed.

Lemma first_class_in l : first_class l = 0%N \/ In (first_class l) l.
Proof.
  induction l as [|x l IH]; [left; reflexivity|]. cbn [first_class].
  destruct (N.eqb x 0) eqn:E.
  - destruct IH as [IH|IH]; [left; exact IH|right; right; exact IH].
  - right. left. reflexivity.
Qed.

Lemma mix_class_values c es side d : mix_class c es side d = 0%N \/ mix_class c es side d = 8%N \/ mix_class c es side d = 9%N.
Proof.
  unfold mix_class.
  destruct (N.eqb (delivery_class c es side d) 1); [|left; reflexivity].
  destruct (0 <? plen d); [|left; reflexivity].
  destruct (whole_of_other (supplied_to c es side) d); [right; left; reflexivity|].
  destruct (splice_of_two (supplied_to c es side) d); [right; right; reflexivity|left; reflexivity].
Qed.

(* the refined class is the unrefined one, or 8 / 9 in place of 1 *)
Lemma c04_class_x_values c es os :
  c04_class_x c es os = c04_class c es os \/
  (c04_class c es os = 1%N /\ (c04_class_x c es os = 8%N \/ c04_class_x c es os = 9%N)).
Proof.
  unfold c04_class_x.
  destruct (N.eqb (c04_class c es os) 1) eqn:E1; [|left; reflexivity].
  apply N.eqb_eq in E1.
  set (l := flat_map (fun o => map (mix_class c es (o_side o)) (o_deliv o)) os).
  destruct (N.eqb (first_class l) 0) eqn:E0; [left; symmetry; exact E1|].
  right. split; [exact E1|].
  apply N.eqb_neq in E0.
  destruct (first_class_in l) as [H|H]; [contradiction|].
  unfold l in H. apply in_flat_map in H. destruct H as [o [_ H]].
  apply in_map_iff in H. destruct H as [d [Hd _]].
  destruct (mix_class_values c es (o_side o) d) as [V|[V|V]]; rewrite V in Hd.
  - fold l in Hd. symmetry in Hd. contradiction.
  - left. fold l in Hd. symmetry. exact Hd.
  - right. fold l in Hd. symmetry. exact Hd.
Qed.

(* On the model's trace of EVERY script - any number of exchanges with pairwise different or
   equal tokens, started at any time, every order of delivery, duplication, loss, replay of
   anything ever sent, resource changes, time-outs, sweeps - no application is ever handed a
   body supplied under another token, nor a splice of bodies supplied under two tokens, nor
   any other wrong body. *)
Theorem exchange_no_mixing c : cfg_wf c -> forall es, Forall (bump_ok c) es ->
  c04_class_x c es (model_obs c es) = 0%N.
Proof.
  intros Hwf es Hb. apply c04_class_x_zero_iff.
  pose proof (exchange_c04_ok c Hwf es Hb) as H. unfold c04_ok in H. apply N.eqb_eq in H. exact H.
Qed.

(* ... also with virtual time (ageing and sweeps at any point of the script) *)
Theorem timed_exchange_no_mixing c : cfg_wf c -> forall es, Forall (tbump_ok c) es ->
  c04_class_x c (untimed es) (model_obs_t c es) = 0%N.
Proof.
  intros Hwf es Hb. apply c04_class_x_zero_iff.
  pose proof (timed_exchange_c04_ok c Hwf es Hb) as H. unfold c04_ok in H. apply N.eqb_eq in H. exact H.
Qed.

(* The classes are reachable: two uploads (tokens 1 and 303, i.e. the byte strings 01 and 01 00 of
   the harness, bodies of 40 bytes) to B's application.  In [mix_os8] the body supplied under token
   303 is handed over under token 1; in [mix_os9] the first 16 bytes supplied under token 1 followed
   by the rest of what was supplied under token 303 are handed over under token 1; [mix_os0] hands
   each body over under its own token. *)
Definition mix_cfg : cfg :=
  Cfg 0 1152 0 1152 [X 0 2 1 0 5 40 None; X 0 2 303 1 12 40 None] [R 11 5 false 42; R 13 5 false 43] [].
Definition mix_body (x : Z) : list Z := gen_body x 40.
Definition mix_deliv (tok path : Z) (b : list Z) : obs :=
  Ob 1 (Some (PM 2 tok None None None None None None [(11, path)] 0 0)) None [PM 2 tok None None None None None None [(11, path)] (blen b) (csum b)] 0 [] [0;0;0;0] 0.
Definition mix_os0 : list obs := [mix_deliv 1 0 (mix_body 5); mix_deliv 303 1 (mix_body 12)].
Definition mix_os8 : list obs := [mix_deliv 1 0 (mix_body 12)].
Definition mix_os9 : list obs := [mix_deliv 1 0 (firstn 16 (mix_body 5) ++ skipn 16 (mix_body 12))].
Lemma mix_cfg_wf : cfg_wf mix_cfg.
Proof.
  constructor; cbn [mix_cfg cszxA cszxB cmaxA cmaxB cexch cres coutside]; try lia.
  - intros x [<-|[<-|[]]]; cbn; unfold GET, DELETE, FRESH; repeat split; try lia; auto; intros; discriminate.
  - intros x y [<-|[<-|[]]] [<-|[<-|[]]]; cbn; intros H; try reflexivity; discriminate H.
  - intros x [<-|[<-|[]]]; reflexivity.
  - intros r [<-|[<-|[]]]; cbn; lia.
Qed.

Lemma mix_classes_reachable :
  cfg_wf mix_cfg /\
  c04_class_x mix_cfg [] mix_os0 = 0%N /\ c04_class_x mix_cfg [] mix_os8 = 8%N /\ c04_class_x mix_cfg [] mix_os9 = 9%N /\
  c04_class mix_cfg [] mix_os8 = 1%N /\ c04_class mix_cfg [] mix_os9 = 1%N.
Proof. split; [exact mix_cfg_wf|]. vm_compute. repeat split; reflexivity. Qed.

(* The hypotheses of exchange_no_mixing are satisfiable by the very history the seeded regression
   needs: the two uploads of mix_cfg (tokens 1 and 303 = byte strings 01 and 01 00) are started
   together and their blocks alternate on the wire (FIFO); the model hands B's application each
   40-byte body under its own token and both Do calls return ok. *)
Definition mix_es : list ev := [Start 0; Start 1] ++ repeat (Deliver 0) 12.
Lemma mix_model_interleaved :
  Forall (bump_ok mix_cfg) mix_es /\
  flat_map (fun o => map (fun d => (o_side o, ptok d, plen d, psum d))
                         (filter (fun d => 0 <? plen d) (o_deliv o))) (model_obs mix_cfg mix_es)
  = [(1, 1, 40, csum (mix_body 5)); (1, 303, 40, csum (mix_body 12));
     (0, 1, 5, csum (res_body (R 11 5 false 42) 0)); (0, 303, 5, csum (res_body (R 13 5 false 43) 0))] /\
  flat_map o_ret (model_obs mix_cfg mix_es) = [(0, 0); (1, 0)] /\
  c04_class_x mix_cfg mix_es (model_obs mix_cfg mix_es) = 0%N.
Proof.
  split.
  - unfold mix_es. apply Forall_forall. intros e [<-|[<-|H]]; try exact I.
    cbn [app] in H. apply repeat_spec in H. subst e. exact I.
  - vm_compute. repeat split; reflexivity.
Qed.
