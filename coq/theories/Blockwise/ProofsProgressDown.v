(* C04 (progress without faults, download direction): in the full two-endpoint
   model (Blockwise/Model.v: world, step, run) a Do exchange whose request is a
   GET completes under the fault-free in-order script
       Start i :: repeat (Deliver 0) n
   for every pair of SZX values (0..7, 7 = BERT) and every body length L, except
   in one region where the statement is false of the model (see 6).

   Structure
     1. runs (run_w = world after a script), summaries of what a run shows
        (delivs side, rets, noerr), list / table / size lemmas (buffers_fit:
        the first buffer is a whole number of later buffers)
     2. createSendingMessage as an equation (create_sending_down)
     3. Handle as equations, each under explicit hypotheses:
          handle_cont    continuation request at the endpoint holding the response
          handle_block   Block2 response block at the endpoint holding the request
          handle_plain   response without Block2
          handle_single  single block NUM = 0 / M = 0
     4. the block-wise download PHASE from a generic mid-state, for any request
        code GET..DELETE (a POST/PUT whose continuation requests are routed to
        continue_sending is covered) and any response (code, ETag, options):
          download_loop   from "continuation request for byte K in flight"
          download_phase  from "first block of the response in flight"
          plain_step, single_step   the one-step siblings
     5. the GET theorems from [init c]:
          get_plain         L < size szxB                       n = 2
          get_blockwise     buffer_size szxB maxB < L           n = 2 + 2q,
                            q = ceil ((L - B0) / Bs) given as (q-1)*Bs < L-B0 <= q*Bs
          get_progress      both, with n = 2q and q <= ceil (L / size (min szxA szxB)) + 1
     6. the excluded region  size szxB <= L <= buffer_size szxB maxB:
          get_single_block          what happens there (Do returns ok, body right, but
                                    the message handed over carries Block2/Size2 and B's
                                    sending entry is never removed)
          get_single_block_stuck    ... for every script length
          get_single_block_refuted  witness: the conclusion of get_progress is false

   Hypotheses of the GET theorems (each is used):
     nth_error (cexch c) i = Some x     exchange i exists (others are never started)
     xkind x = 0, xcode x = GET, xlen x = 0   a Do of a GET with an empty body
     nth_error (cres c) (Z.to_nat (xpath x)) = Some r   B's application knows the resource
     0 <= cszxA c <= 7, 0 <= cszxB c <= 7   valid SZX
     cszxB c = 7 -> 1024 <= cmaxB c     BERT: B's buffer holds at least one block
     L < size szxB \/ buffer_size szxB maxB < L   outside the region of 6
   Not needed: anything about cmaxA, coutside, xtok, the other exchanges/resources. *)
From Coq Require Import ZArith List Bool Lia.
From GoCoap Require Import Base.Bytes Gen.BlockConsts Block.Model Blockwise.Config Blockwise.Model Blockwise.Proofs.
Import ListNotations.
Open Scope Z_scope.
Ltac Zify.zify_post_hook ::= Z.div_mod_to_equations.

(* ------------------------------------------------------------------ runs *)
(* the world after a script *)
Fixpoint run_w (c : cfg) (w : world) (es : list ev) : world :=
  match es with [] => w | e :: r => run_w c (fst (step c w e)) r end.

Lemma run_cons c w e r : run c w (e :: r) = snd (step c w e) :: run c (fst (step c w e)) r.
Proof. cbn [run]. destruct (step c w e) as [w' o]. reflexivity. Qed.

Lemma run_app c es1 : forall w es2, run c w (es1 ++ es2) = run c w es1 ++ run c (run_w c w es1) es2.
Proof.
  induction es1 as [|e r IH]; intros w es2; [reflexivity|].
  rewrite <- app_comm_cons, !run_cons. cbn [run_w]. rewrite IH. reflexivity.
Qed.
Lemma run_w_app c es1 : forall w es2, run_w c w (es1 ++ es2) = run_w c (run_w c w es1) es2.
Proof. induction es1 as [|e r IH]; intros w es2; [reflexivity|]. cbn [run_w app]. apply IH. Qed.
Lemma run_length c es : forall w, length (run c w es) = length es.
Proof. induction es as [|e r IH]; intros w; [reflexivity|]. rewrite run_cons. cbn [length]. rewrite IH. reflexivity. Qed.

(* what a run shows, summarised: deliveries to one side's application, returns, errors *)
Definition delivs (side : Z) (obs : list mob) : list msg :=
  flat_map mo_deliv (filter (fun o => mo_side o =? side) obs).
Definition rets (obs : list mob) : list (Z * Z) := flat_map mo_ret obs.
Definition noerr (obs : list mob) : Prop := Forall (fun o => mo_err o = 0) obs.

Lemma delivs_cons side o obs :
  delivs side (o :: obs) = (if mo_side o =? side then mo_deliv o else []) ++ delivs side obs.
Proof. unfold delivs. cbn [filter]. destruct (mo_side o =? side); reflexivity. Qed.
Lemma delivs_nil side : delivs side [] = []. Proof. reflexivity. Qed.
Lemma rets_cons o obs : rets (o :: obs) = mo_ret o ++ rets obs. Proof. reflexivity. Qed.
Lemma noerr_cons o obs : mo_err o = 0 -> noerr obs -> noerr (o :: obs).
Proof. intros H1 H2. constructor; assumption. Qed.

(* ------------------------------------------------------------------ lists *)
Lemma firstn_add {A} (a b : nat) (l : list A) : firstn a l ++ firstn b (skipn a l) = firstn (a + b) l.
Proof.
  revert l. induction a as [|a IH]; intros l; [reflexivity|].
  destruct l as [|x l]; [cbn [firstn skipn app]; rewrite firstn_nil; reflexivity|].
  cbn [firstn skipn Nat.add app]. rewrite IH. reflexivity.
Qed.

Lemma firstn_addZ {A} (K B : Z) (l : list A) : 0 <= K -> 0 <= B ->
  firstn (Z.to_nat K) l ++ firstn (Z.to_nat B) (skipn (Z.to_nat K) l) = firstn (Z.to_nat (K + B)) l.
Proof. intros HK HB. rewrite firstn_add, Z2Nat.inj_add by lia. reflexivity. Qed.

Lemma blen_firstn {A} (K : Z) (l : list A) : 0 <= K <= blen l -> blen (firstn (Z.to_nat K) l) = K.
Proof. intros H. unfold blen in *. rewrite firstn_length. lia. Qed.

Lemma blen_data {A} (K B : Z) (l : list A) : 0 <= K <= blen l -> 0 <= B ->
  blen (firstn (Z.to_nat B) (skipn (Z.to_nat K) l)) = Z.min B (blen l - K).
Proof. intros HK HB. unfold blen in *. rewrite firstn_length, skipn_length. lia. Qed.

Lemma firstn_allZ {A} (K : Z) (l : list A) : blen l <= K -> firstn (Z.to_nat K) l = l.
Proof. intros H. apply firstn_all2. unfold blen in H. lia. Qed.

(* ------------------------------------------------------------------ tables *)
Lemma tdel_idem t k : tdel (tdel t k) k = tdel t k.
Proof.
  induction t as [|[k' v] t IH]; cbn [tdel]; [reflexivity|].
  destruct (k =? k') eqn:E; [exact IH|]. cbn [tdel]. rewrite E, IH. reflexivity.
Qed.
Lemma tdel_tput_same t k v : tdel (tput t k v) k = tdel t k.
Proof. unfold tput. cbn [tdel]. rewrite Z.eqb_refl. apply tdel_idem. Qed.
Lemma tdel_absent t k : tget t k = None -> tdel t k = t.
Proof.
  induction t as [|[k' v] t IH]; cbn [tdel tget]; [reflexivity|].
  destruct (k =? k'); [discriminate|]. intros H. rewrite (IH H). reflexivity.
Qed.

(* ------------------------------------------------------------------ sizes *)
Lemma size_mono_div s s0 : 0 <= s <= s0 -> s0 <= 7 -> exists d, 1 <= d /\ size s0 = d * size s.
Proof.
  intros H1 H2.
  assert (Hs : 0 <= s <= 7) by lia. assert (Hs0 : 0 <= s0 <= 7) by lia.
  destruct (szx_cases s Hs) as [H|[H|[H|[H|[H|[H|[H|H]]]]]]]; subst s;
  destruct (szx_cases s0 Hs0) as [H|[H|[H|[H|[H|[H|[H|H]]]]]]]; subst s0; try lia;
  match goal with |- exists d, _ /\ size ?a = d * size ?b =>
    exists (size a / size b); vm_compute; split; [discriminate|reflexivity] end.
Qed.

(* the buffers of a download: the first block is sized with s0 (the server's
   choice), all later ones with s <= s0 (after the client's clamp).  The first
   buffer is a whole number of later buffers, which are whole numbers of blocks. *)
Lemma buffers_fit s s0 m : 0 <= s <= s0 -> s0 <= 7 -> (s0 = 7 -> 1024 <= m) ->
  0 < buffer_size s m /\
  (exists k, 1 <= k /\ buffer_size s m = k * size s) /\
  (exists j, 1 <= j /\ buffer_size s0 m = j * buffer_size s m).
Proof.
  intros H1 H2 Hm. assert (Hs : 0 <= s <= 7) by lia.
  pose proof (size_pos s Hs) as Hsz.
  destruct (size_mono_div s s0 H1 H2) as [d [Hd Hsd]].
  unfold buffer_size. replace szxBERT with 7 by reflexivity.
  destruct (s <? 7) eqn:Es; destruct (s0 <? 7) eqn:Es0;
    try apply Z.ltb_lt in Es; try apply Z.ltb_ge in Es; try apply Z.ltb_lt in Es0; try apply Z.ltb_ge in Es0; try lia.
  - split; [lia|]. split; [exists 1; lia|]. exists d. split; [lia|exact Hsd].
  - assert (s0 = 7) by lia. subst s0. specialize (Hm eq_refl).
    replace (size 7) with 1024 in * by reflexivity.
    rewrite Z.quot_div_nonneg by lia.
    split; [lia|]. split; [exists 1; lia|]. exists (m / 1024 * d). split; [nia|]. rewrite Hsd. ring.
  - assert (s0 = 7) by lia. assert (s = 7) by lia. subst s0 s. specialize (Hm eq_refl).
    replace (size 7) with 1024 in * by reflexivity.
    rewrite Z.quot_div_nonneg by lia.
    split; [nia|]. split; [exists (m / 1024); split; [lia|reflexivity]|]. exists 1. split; lia.
Qed.

(* ------------------------------------------------------------------ serving *)
(* the messages of a download.  [blk_msg resp s K B]: the block of [resp] that
   starts at byte K, at most B bytes, SZX s;  [cont_req req tok s K]: the request
   for the block that starts at byte K;  [rx_entry resp bo so K]: the client's
   reassembly entry holding the first K bytes (it keeps the Block2 / Size2
   options bo / so of the first block it was created from) *)
Definition blk_data (resp : msg) (K B : Z) : list Z :=
  firstn (Z.to_nat B) (skipn (Z.to_nat K) (mbody resp)).
Definition blk_more (resp : msg) (K B : Z) : bool :=
  negb (K + blen (blk_data resp K B) =? blen (mbody resp)).
Definition blk_msg (resp : msg) (s K B : Z) : msg :=
  set_body (set_block false resp (Some {| bszx := s; bnum := K / size s; bmore := blk_more resp K B |})
                      (Some (blen (mbody resp))))
           (blk_data resp K B).
Definition cont_req (req : msg) (tok s K : Z) : msg :=
  {| mcode := mcode req; mtok := tok; mb1 := None;
     mb2 := Some {| bszx := s; bnum := K / size s; bmore := true |};
     ms1 := None; ms2 := ms2 req; metag := metag req; mobs := None; mother := mother req; mbody := [] |}.
Definition rx_entry (resp : msg) (bo : option blk) (so : option Z) (K : Z) : msg :=
  set_body (set_block false resp bo so) (firstn (Z.to_nat K) (mbody resp)).

(* createSendingMessage for a message that is not an upload, asked for the block at byte K *)
Lemma create_sending_down orig mx m b K :
  is_upload (mcode orig) = false ->
  bnum b * size (Z.min (bszx b) mx) = K -> K <= blen (mbody orig) ->
  create_sending orig mx m b =
    Some (blk_msg orig (Z.min (bszx b) mx) K (buffer_size (Z.min (bszx b) mx) m),
          blk_more orig K (buffer_size (Z.min (bszx b) mx) m)).
Proof.
  intros Hup HK Hle. unfold create_sending. rewrite Hup.
  set (s := Z.min (bszx b) mx) in *. rewrite Z.add_0_r, HK.
  destruct (blen (mbody orig) <? K) eqn:E; [apply Z.ltb_lt in E; lia|]. reflexivity.
Qed.

Lemma blk_more_iff resp K B : 0 <= K <= blen (mbody resp) -> 0 <= B ->
  (blk_more resp K B = true <-> K + B < blen (mbody resp)).
Proof.
  intros HK HB. unfold blk_more, blk_data. rewrite blen_data by assumption.
  rewrite negb_true_iff, Z.eqb_neq. lia.
Qed.

Lemma rx_entry_step resp bo so K B : 0 <= K -> 0 <= B ->
  set_body (rx_entry resp bo so K) (mbody (rx_entry resp bo so K) ++ blk_data resp K B) = rx_entry resp bo so (K + B).
Proof.
  intros HK HB. unfold rx_entry, blk_data. cbn [set_body mbody]. rewrite firstn_addZ by assumption. reflexivity.
Qed.

(* ------------------------------------------------------------------ Handle *)
(* (a) a request for a later block reaches the endpoint that holds the response
       (any request code GET..DELETE: a POST/PUT continuation is routed here too) *)
Lemma wants_cont r b : mb1 r = None -> mb2 r = Some b -> GET <= mcode r <= DELETE -> wants_to_be_received r = false.
Proof.
  intros H1 H2 Hc. unfold wants_to_be_received. rewrite H1, H2. cbn [andb].
  destruct (GET <=? mcode r) eqn:E1; [|apply Z.leb_gt in E1; lia].
  destruct (mcode r <=? DELETE) eqn:E2; [|apply Z.leb_gt in E2; lia]. reflexivity.
Qed.

Lemma handle_cont app e r orig b sm more :
  tget (sending e) (mtok r) = Some orig -> wants_to_be_received r = false ->
  is_upload (mcode orig) = false -> mb2 r = Some b ->
  create_sending orig (eszx e) (emax e) b = Some (sm, more) ->
  handle app e r =
    (if negb more && (DELETE <? mcode orig) then with_sending e (tdel (sending e) (mtok r)) else e, Some sm, [], 0).
Proof.
  intros Hs Hw Hup Hb Hcs. unfold handle. rewrite Hs, Hw.
  unfold continue_sending. rewrite Hup, Hb, Hcs. reflexivity.
Qed.

(* (b) response codes: neither empty, nor a request, nor Continue, nor a signal *)
Definition resp_code_ok (c : Z) : Prop := DELETE < c /\ c <> Continue /\ ~ (225 <= c <= 229).

Lemma resp_code_tests c : resp_code_ok c ->
  (c =? 0) || ((225 <=? c) && (c <=? 229)) = false /\ (c =? GET) || (c =? DELETE) = false /\
  is_upload c = false /\ (c =? Continue) = false /\ (GET <=? c) && (c <=? DELETE) = false.
Proof.
  unfold resp_code_ok, is_upload, GET, POST, PUT, DELETE, Continue. intros [H1 [H2 H3]].
  repeat split.
  - destruct (c =? 0) eqn:E; [apply Z.eqb_eq in E; lia|]. cbn [orb].
    destruct (225 <=? c) eqn:E1; [|reflexivity]. destruct (c <=? 229) eqn:E2; [|reflexivity].
    apply Z.leb_le in E1, E2. lia.
  - destruct (c =? 1) eqn:E; [apply Z.eqb_eq in E; lia|].
    destruct (c =? 4) eqn:E'; [apply Z.eqb_eq in E'; lia|]. reflexivity.
  - destruct (c =? 2) eqn:E; [apply Z.eqb_eq in E; lia|].
    destruct (c =? 3) eqn:E'; [apply Z.eqb_eq in E'; lia|]. reflexivity.
  - apply Z.eqb_neq. exact H2.
  - destruct (c <=? 4) eqn:E; [apply Z.leb_le in E; lia|]. apply andb_false_r.
Qed.

Lemma wants_resp r : resp_code_ok (mcode r) -> wants_to_be_received r = true.
Proof.
  intros Hc. destruct (resp_code_tests _ Hc) as [_ [_ [Hup [Hcont Hrq]]]].
  unfold wants_to_be_received. rewrite Hup, andb_false_r.
  rewrite <- andb_assoc, Hrq, andb_false_r, Hcont. reflexivity.
Qed.

Lemma reasm_same cm r off : metag cm = metag r -> off = blen (mbody cm) ->
  reasm cm r off = (set_body cm (mbody cm ++ mbody r), true).
Proof.
  intros Het Hoff. unfold reasm. rewrite <- Het.
  assert (H : match metag cm with Some a => match metag cm with Some c0 => if a =? c0 then cm else set_body (set_etag cm (Some a)) [] | None => cm end | None => cm end = cm).
  { destruct (metag cm) as [a|]; [rewrite Z.eqb_refl|]; reflexivity. }
  rewrite H. rewrite Hoff, Z.eqb_refl. reflexivity.
Qed.

(* repaired restart rule: a continuation request for a block other than the first is never refused *)
Lemma refuse_restart_big n z q : 0 < size z <= n -> refuse_restart false (n / size z) q = false.
Proof.
  intros H. unfold refuse_restart.
  replace (n / size z =? 0) with false; [reflexivity|].
  symmetry. apply Z.eqb_neq. intros H0. apply Z.div_small_iff in H0; lia.
Qed.

(* a Block2 response block reaches the endpoint that holds the request and
   (cached = Some) a reassembly entry the block continues, or (cached = None) no
   entry, the block being a first one with M = 1 *)
Lemma handle_block app e r req b :
  (forall t d, app t d = None) ->
  tget (sending e) (mtok r) = Some req ->
  resp_code_ok (mcode r) -> mobs r = None -> mb2 r = Some b ->
  let mx := fit (Some b) (eszx e) in
  let cached := tget (receiving e) (mtok r) in
  let szx0 := match cached with None => Z.min (bszx b) mx | Some _ => bszx b end in
  let cm := match cached with Some c => c | None => set_body r [] end in
  (cached = None -> bmore b = true) ->
  metag cm = metag r -> bnum b * size szx0 = blen (mbody cm) -> mtok cm = mtok r ->
  0 <= eszx e <= 7 -> 0 <= bszx b ->
  let cm' := set_body cm (mbody cm ++ mbody r) in
  (bmore b = true -> size (Z.min szx0 mx) <= blen (mbody cm')) ->
  handle app e r =
    if bmore b then
      (with_receiving e (tput (receiving e) (mtok r) cm'),
       Some (cont_req req (mtok r) (Z.min szx0 mx) (blen (mbody cm'))), [], 0)
    else
      (with_receiving e (tdel (tput (receiving e) (mtok r) cm') (mtok r)), None, [set_block false cm' None None], 0).
Proof.
  intros Happ Hs Hc Hobs Hb mx cached szx0 cm Hfirst Het Hoff Htok He Hb0 cm' Hbig.
  assert (Hmx : 0 <= mx <= 7) by (unfold mx, fit; destruct (eszx e >? bszx b) eqn:E; lia).
  destruct (resp_code_tests _ Hc) as [Hsig [Hgd [Hup [Hcont Hrq]]]].
  unfold handle. rewrite Hs, (wants_resp r Hc).
  unfold handle_received, handle_received_s; fold_pr. rewrite Hsig, Hgd, Hup. rewrite Hb. fold mx.
  unfold process_received, process_received_s. rewrite Hgd, Hb.
  unfold get_sent_request. rewrite Hs.
  unfold observe_key, is_observe_response. rewrite Hobs. cbn [negb].
  fold cached. 
  assert (Hre : reasm cm r (bnum b * size szx0) = (cm', true)) by (apply reasm_same; [exact Het|exact Hoff]).
  assert (Hsmall : forall x, blen (mbody (cont_req req (mtok r) (Z.min szx0 mx) x)) <? size mx = true).
  { intros x. cbn [cont_req mbody]. apply Z.ltb_lt. 
    pose proof (size_pos mx Hmx). rewrite blen_nil. lia. }
  destruct cached as [c0|] eqn:Hcached.
  - subst szx0 cm. 
    destruct (bmore b) eqn:Hm; rewrite Hre; cbn [andb negb].
    + rewrite refuse_restart_big
        by (split; [pose proof (size_pos (Z.min (bszx b) mx)); lia|apply Hbig; reflexivity]).
      unfold start_sending. 
      change (mcode (set_body req [])) with (mcode req). change (ms2 (set_body req [])) with (ms2 req).
      change (metag (set_body req [])) with (metag req). change (mother (set_body req [])) with (mother req).
      fold (cont_req req (mtok r) (Z.min (bszx b) mx) (blen (mbody cm'))).
      rewrite Hsmall. reflexivity.
    + rewrite Happ. unfold start_sending.
      replace (mtok cm' =? mtok r) with true by (symmetry; apply Z.eqb_eq; exact Htok).
      reflexivity.
  - subst szx0 cm. rewrite (Hfirst eq_refl). rewrite Hre. cbn [andb negb].
    rewrite (Hfirst eq_refl) in Hbig.
    rewrite refuse_restart_big
      by (split; [pose proof (size_pos (Z.min (Z.min (bszx b) mx) mx)); lia|apply Hbig; reflexivity]).
    unfold start_sending.
    change (mcode (set_body req [])) with (mcode req). change (ms2 (set_body req [])) with (ms2 req).
    change (metag (set_body req [])) with (metag req). change (mother (set_body req [])) with (mother req).
    fold (cont_req req (mtok r) (Z.min (Z.min (bszx b) mx) mx) (blen (mbody cm'))).
    rewrite Hsmall. reflexivity.
Qed.

(* a response without Block2 reaches an endpoint whose application only consumes *)
Lemma handle_plain app e r : (forall t d, app t d = None) ->
  resp_code_ok (mcode r) -> mb2 r = None -> handle app e r = (e, None, [r], 0).
Proof.
  intros Happ Hc Hb.
  destruct (resp_code_tests _ Hc) as [Hsig [Hgd [Hup [Hcont Hrq]]]].
  assert (Hrecv : (let '(e', o, d) := handle_received app e r in
                   match o with Out w => (e', w, d, 0) | Fail => (e', Some (entity_incomplete (mtok r)), d, 1) end)
                  = (e, None, [r], 0)).
  { unfold handle_received, handle_received_s; fold_pr. rewrite Hsig, Hgd, Hup, Hb.
    unfold process_received, process_received_s. rewrite Hgd, Hb. cbn [andb]. rewrite Happ. reflexivity. }
  unfold handle. rewrite (wants_resp r Hc). destruct (tget (sending e) (mtok r)); exact Hrecv.
Qed.

(* a single Block2 block with NUM = 0 and M = 0 (the whole body fits the first
   buffer): handed over as it is, Block2 and Size2 included *)
Lemma handle_single app e r req b : (forall t d, app t d = None) ->
  tget (sending e) (mtok r) = Some req -> tget (receiving e) (mtok r) = None ->
  resp_code_ok (mcode r) -> mobs r = None -> mb2 r = Some b -> bmore b = false -> bnum b = 0 ->
  handle app e r = (e, None, [r], 0).
Proof.
  intros Happ Hs Hr Hc Hobs Hb Hm Hn.
  destruct (resp_code_tests _ Hc) as [Hsig [Hgd [Hup [Hcont Hrq]]]].
  unfold handle. rewrite Hs, (wants_resp r Hc).
  unfold handle_received, handle_received_s; fold_pr. rewrite Hsig, Hgd, Hup, Hb.
  unfold process_received, process_received_s. rewrite Hgd, Hb.
  unfold get_sent_request. rewrite Hs.
  unfold observe_key, is_observe_response. rewrite Hobs. cbn [negb].
  rewrite Hr, Hm, Hn. cbn [Z.eqb negb]. rewrite Happ. reflexivity.
Qed.

(* ------------------------------------------------------------------ Do returns *)
Lemma complete_nil p : forall e, complete p [] e = (p, e, []).
Proof.
  induction p as [|[i t] p IH]; intros e; cbn [complete existsb]; [reflexivity|]. rewrite IH. reflexivity.
Qed.

Definition pend_keep (t : Z) (p : list (nat * Z)) : list (nat * Z) := filter (fun q => negb (t =? snd q)) p.
Definition pend_rets (t : Z) (p : list (nat * Z)) : list (Z * Z) :=
  map (fun q => (Z.of_nat (fst q), 0)) (filter (fun q => t =? snd q) p).

Lemma complete_one p m : forall e,
  complete p [m] e =
    (pend_keep (mtok m) p,
     if existsb (fun q => mtok m =? snd q) p then with_sending e (tdel (sending e) (mtok m)) else e,
     pend_rets (mtok m) p).
Proof.
  unfold pend_keep, pend_rets.
  induction p as [|[i t] p IH]; intros e; cbn [complete existsb filter map fst snd]; [reflexivity|].
  rewrite orb_false_r. destruct (mtok m =? t) eqn:E; cbn [negb orb].
  - apply Z.eqb_eq in E. subst t. rewrite IH. cbn [map fst snd sending with_sending]. rewrite tdel_idem.
    destruct (existsb (fun q => mtok m =? snd q) p); reflexivity.
  - rewrite IH. reflexivity.
Qed.

Lemma existsb_pending t (p : list (nat * Z)) : In t (map snd p) -> existsb (fun q => t =? snd q) p = true.
Proof.
  intros H. apply in_map_iff in H. destruct H as [q [Hq Hin]]. apply existsb_exists. exists q.
  split; [exact Hin|]. subst t. apply Z.eqb_refl.
Qed.

(* ------------------------------------------------------------------ steps *)
Lemma step_deliver0 c w toB m rest : flight w = (toB, m) :: rest ->
  step c w (Deliver 0) = arrive c (with_flight w rest) toB m.
Proof. intros H. unfold step. rewrite H. reflexivity. Qed.

Lemma step_deliver_quiet c w j : flight w = [] -> step c w (Deliver j) = quiet w.
Proof. intros H. unfold step. rewrite H. destruct j; reflexivity. Qed.

(* what a mob shows that we keep track of *)
Definition mob_is (o : mob) (side : Z) (d : list msg) (r : list (Z * Z)) (wpost : world) : Prop :=
  mo_side o = side /\ mo_deliv o = d /\ mo_err o = 0 /\ mo_ret o = r /\ mo_sizes o = sizes_of wpost.

Lemma arrive_B c w m e' o d :
  handle (app_b c (vers w)) (wb w) m = (e', o, d, 0) ->
  fst (arrive c w true m) = emit (with_b w e') false o /\
  mob_is (snd (arrive c w true m)) 1 d [] (emit (with_b w e') false o).
Proof. intros H. unfold arrive. rewrite H. cbn [fst snd]. repeat split. Qed.

Lemma arrive_A c w m e' o d p' e'' r :
  handle app_a (wa w) m = (e', o, d, 0) -> complete (pending w) d e' = (p', e'', r) ->
  fst (arrive c w false m) = emit (with_pending (with_a w e'') p') true o /\
  mob_is (snd (arrive c w false m)) 0 d r (emit (with_pending (with_a w e'') p') true o).
Proof. intros H H'. unfold arrive. rewrite H, H'. cbn [fst snd]. repeat split. Qed.

Lemma app_a_none : forall t d, app_a t d = None. Proof. reflexivity. Qed.

Lemma fit_le s n m sA : s <= sA -> fit (Some {| bszx := s; bnum := n; bmore := m |}) sA = s.
Proof. intros H. unfold fit. cbn [bszx]. destruct (sA >? s) eqn:E; [reflexivity|]. lia. Qed.

(* ------------------------------------------------------------------ the loop *)
Section Loop.
  Variable c : cfg.
  Variables (tok : Z) (req resp : msg).
  (* sA, sB: the SZX configured at A and B; mB: B's maximum message size;
     s: the SZX of the continuation requests (what A clamped the first block to) *)
  Variables (sA sB mB s : Z).
  Variables (bo : option blk) (so : option Z).
  Hypothesis Hreq : GET <= mcode req <= DELETE.
  Hypothesis Htok : mtok resp = tok.
  Hypothesis Hcode : resp_code_ok (mcode resp).
  Hypothesis Hobs : mobs resp = None.
  Hypothesis HsA : 0 <= sA <= 7.
  Hypothesis Hs0 : 0 <= s.
  Hypothesis HsleA : s <= sA.
  Hypothesis HsleB : s <= sB.
  Let Bs := buffer_size s mB.
  Let L := blen (mbody resp).
  Hypothesis HBs : 0 < Bs.
  Hypothesis HBk : exists k, 1 <= k /\ Bs = k * size s.

  Lemma Hs7 : 0 <= s <= 7. Proof. lia. Qed.
  Lemma Hsz : 16 <= size s. Proof. apply size_pos, Hs7. Qed.

  Lemma mult_div K : (exists j, K = j * size s) -> K / size s * size s = K.
  Proof. intros [j ->]. pose proof Hsz. rewrite Z.div_mul by lia. reflexivity. Qed.
  Lemma mult_next K : (exists j, K = j * size s) -> exists j, K + Bs = j * size s.
  Proof. intros [j ->]. destruct HBk as [k [_ ->]]. exists (j + k). ring. Qed.

  (* B answers the continuation request for byte K *)
  Lemma handle_req_B app e K :
    eszx e = sB -> emax e = mB -> tget (sending e) tok = Some resp ->
    0 <= K <= L -> (exists j, K = j * size s) ->
    handle app e (cont_req req tok s K) =
      (if blk_more resp K Bs then e else with_sending e (tdel (sending e) tok),
       Some (blk_msg resp s K Bs), [], 0).
  Proof.
    intros He Hm Hsend HK Hmul.
    destruct (resp_code_tests _ Hcode) as [_ [_ [Hup _]]].
    assert (Hmin : Z.min s sB = s) by lia.
    pose proof (create_sending_down resp sB mB {| bszx := s; bnum := K / size s; bmore := true |} K Hup) as Hcs.
    cbn [bszx bnum] in Hcs. rewrite Hmin in Hcs. specialize (Hcs (mult_div K Hmul) (proj2 HK)).
    fold Bs in Hcs.
    assert (Hw : wants_to_be_received (cont_req req tok s K) = false)
      by (apply (wants_cont _ {| bszx := s; bnum := K / size s; bmore := true |}); [reflexivity|reflexivity|exact Hreq]).
    rewrite <- He, <- Hm in Hcs.
    rewrite (handle_cont app e (cont_req req tok s K) resp {| bszx := s; bnum := K / size s; bmore := true |}
               _ _ Hsend Hw Hup eq_refl Hcs).
    cbn [cont_req mtok].
    assert (Hd : DELETE <? mcode resp = true) by (apply Z.ltb_lt; apply Hcode).
    rewrite Hd, andb_true_r. destruct (blk_more resp K Bs); reflexivity.
  Qed.

  (* A takes the block that starts at byte K, holding exactly the K bytes before it *)
  Lemma handle_next_A e K :
    eszx e = sA -> tget (sending e) tok = Some req ->
    tget (receiving e) tok = Some (rx_entry resp bo so K) ->
    0 <= K <= L -> (exists j, K = j * size s) ->
    handle app_a e (blk_msg resp s K Bs) =
      if blk_more resp K Bs then
        (with_receiving e (tput (receiving e) tok (rx_entry resp bo so (K + Bs))),
         Some (cont_req req tok s (K + Bs)), [], 0)
      else
        (with_receiving e (tdel (receiving e) tok), None, [set_block false resp None None], 0).
  Proof.
    intros He Hsend Hrecv HK Hmul.
    pose proof (handle_block app_a e (blk_msg resp s K Bs) req
                  {| bszx := s; bnum := K / size s; bmore := blk_more resp K Bs |} app_a_none) as H.
    change (mtok (blk_msg resp s K Bs)) with (mtok resp) in H. rewrite Htok in H.
    cbv zeta in H. rewrite Hrecv, He in H. rewrite (fit_le s _ _ sA HsleA) in H.
    cbn [bszx bnum bmore] in H. rewrite Z.min_id in H.
    specialize (H Hsend Hcode Hobs eq_refl ltac:(discriminate) eq_refl).
    rewrite (mult_div K Hmul) in H.
    assert (Hbl : blen (mbody (rx_entry resp bo so K)) = K) by (apply blen_firstn; exact HK).
    specialize (H (eq_sym Hbl) Htok HsA Hs0).
    change (mbody (blk_msg resp s K Bs)) with (blk_data resp K Bs) in H.
    rewrite rx_entry_step in H by lia.
    rewrite H. destruct (blk_more resp K Bs) eqn:Hm.
    - apply blk_more_iff in Hm; [|exact HK|lia]. fold L in Hm.
      assert (Hbl' : blen (mbody (rx_entry resp bo so (K + Bs))) = K + Bs) by (apply blen_firstn; fold L; lia).
      rewrite Hbl'. reflexivity.
    - assert (Hge : L <= K + Bs).
      { destruct (Z_lt_le_dec (K + Bs) L) as [Hlt|Hge]; [|exact Hge].
        apply (blk_more_iff resp K Bs HK ltac:(lia)) in Hlt. congruence. }
      rewrite tdel_tput_same. unfold rx_entry. rewrite (firstn_allZ (K + Bs) (mbody resp) Hge). reflexivity.
    - (* repaired restart rule: the buffer holds at least one block after this one *)
      intros Hm. apply blk_more_iff in Hm; [|exact HK|lia]. fold L in Hm.
      assert (Hbl' : blen (mbody (rx_entry resp bo so (K + Bs))) = K + Bs) by (apply blen_firstn; fold L; lia).
      rewrite Hbl'. destruct HBk as [k [Hk1 Hk2]]. pose proof Hsz. nia.
  Qed.

  (* "continuation request for byte K in flight" *)
  Definition at_req (w : world) (K : Z) : Prop :=
    eszx (wa w) = sA /\ eszx (wb w) = sB /\ emax (wb w) = mB /\
    tget (sending (wa w)) tok = Some req /\
    tget (receiving (wa w)) tok = Some (rx_entry resp bo so K) /\
    tget (sending (wb w)) tok = Some resp /\
    flight w = [(true, cont_req req tok s K)].

  (* the world when the transfer is over *)
  Definition done_world (w wf : world) : Prop :=
    wa wf = with_sending (with_receiving (wa w) (tdel (receiving (wa w)) tok)) (tdel (sending (wa w)) tok) /\
    wb wf = with_sending (wb w) (tdel (sending (wb w)) tok) /\
    flight wf = [] /\ vers wf = vers w /\ pending wf = pend_keep tok (pending w) /\
    exists h, whist wf = whist w ++ h.

  (* what the run shows: A's application gets the reassembled response once, B's
     application nothing, no error callback, the pending Do calls of this token
     return ok at the last event and nothing returns before *)
  Definition done_obs (w wf : world) (obs : list mob) (dB : list msg) : Prop :=
    delivs 0 obs = [set_block false resp None None] /\ delivs 1 obs = dB /\ noerr obs /\
    exists obs' o, obs = obs' ++ [o] /\ rets obs' = [] /\
                   mo_ret o = pend_rets tok (pending w) /\ mo_sizes o = sizes_of wf.

  Lemma download_loop : forall (fuel : nat) (w : world) (K : Z),
    L - K <= Z.of_nat fuel * Bs ->
    at_req w K -> 0 <= K < L -> (exists j, K = j * size s) -> In tok (map snd (pending w)) ->
    exists q : nat,
      (1 <= q)%nat /\ (Z.of_nat q - 1) * Bs < L - K <= Z.of_nat q * Bs /\
      let es := repeat (Deliver 0%nat) (2 * q) in
      done_world w (run_w c w es) /\ done_obs w (run_w c w es) (run c w es) [].
  Proof.
    induction fuel as [|f IH]; intros w K Hfuel Hat HK Hmul Hpend; [change (Z.of_nat 0) with 0 in Hfuel; lia|].
    destruct Hat as [HeA [HeB [HmB [HsendA [HrecvA [HsendB Hfl]]]]]].
    (* first Deliver: B serves the block *)
    pose proof (handle_req_B (app_b c (vers (with_flight w []))) (wb w) K HeB HmB HsendB ltac:(lia) Hmul) as HhB.
    pose proof (step_deliver0 c w _ _ _ Hfl) as Hst1.
    destruct (arrive_B c (with_flight w []) (cont_req req tok s K) _ _ _ HhB) as [Hw1 Ho1].
    rewrite <- Hst1 in Hw1, Ho1.
    set (eB := if blk_more resp K Bs then wb w else with_sending (wb w) (tdel (sending (wb w)) tok)) in *.
    set (w1 := emit (with_b (with_flight w []) eB) false (Some (blk_msg resp s K Bs))) in *.
    (* second Deliver: A appends it *)
    assert (Hfl1 : flight w1 = [(false, blk_msg resp s K Bs)]) by reflexivity.
    pose proof (step_deliver0 c w1 _ _ _ Hfl1) as Hst2.
    pose proof (handle_next_A (wa w) K HeA HsendA HrecvA ltac:(lia) Hmul) as HhA.
    destruct (blk_more resp K Bs) eqn:Hmore.
    - (* more blocks follow *)
      pose proof (proj1 (blk_more_iff resp K Bs ltac:(fold L; lia) ltac:(lia)) Hmore) as Hlt. fold L in Hlt.
      destruct (arrive_A c (with_flight w1 []) _ _ _ _ _ _ _ HhA (complete_nil _ _)) as [Hw2 Ho2].
      rewrite <- Hst2 in Hw2, Ho2.
      set (w2 := emit (with_pending (with_a (with_flight w1 [])
                   (with_receiving (wa w) (tput (receiving (wa w)) tok (rx_entry resp bo so (K + Bs)))))
                   (pending (with_flight w1 []))) true (Some (cont_req req tok s (K + Bs)))) in *.
      assert (Hat2 : at_req w2 (K + Bs)).
      { unfold at_req, w2, w1, eB. cbn [wa wb flight emit with_a with_b with_pending with_flight
          eszx emax sending receiving with_receiving app].
        repeat split; try assumption. apply tget_tput_same. }
      assert (Hfuel2 : L - (K + Bs) <= Z.of_nat f * Bs) by lia.
      destruct (IH w2 (K + Bs) Hfuel2 Hat2 ltac:(lia) (mult_next K Hmul) Hpend) as [q [Hq1 [Hq2 [Hdw Hdo]]]].
      exists (S q). split; [lia|]. split; [lia|].
      replace (2 * S q)%nat with (S (S (2 * q))) by lia.
      cbn [repeat]. rewrite !run_cons. cbn [run_w].
      rewrite Hw1, Hw2.
      set (es := repeat (Deliver 0%nat) (2 * q)) in *. cbv zeta in Hdw, Hdo.
      set (wf := run_w c w2 es) in *.
      split.
      + destruct Hdw as [Da [Db [Df [Dv [Dp [h Dh]]]]]]. unfold done_world.
        rewrite Da, Db, Df, Dv, Dp.
        unfold w2, w1, eB. cbn [wa wb flight vers pending whist emit with_a with_b with_pending with_flight
          sending receiving with_receiving with_sending].
        rewrite tdel_tput_same.
        repeat split. rewrite Dh. unfold w2, w1. cbn [whist emit with_a with_b with_pending with_flight].
        rewrite <- !app_assoc. eexists. reflexivity.
      + destruct Hdo as [D0 [D1 [Dn [obs' [o [Do [Dr [Dlast Dsz]]]]]]]].
        destruct Ho1 as [O1s [O1d [O1e [O1r _]]]]. destruct Ho2 as [O2s [O2d [O2e [O2r _]]]].
        unfold done_obs. rewrite !delivs_cons, O1s, O2s, O1d, O2d. cbn [Z.eqb app].
        split; [exact D0|]. split; [exact D1|]. split; [apply noerr_cons; [exact O1e|apply noerr_cons; [exact O2e|exact Dn]]|].
        exists (snd (step c w (Deliver 0)) :: snd (step c w1 (Deliver 0)) :: obs'), o.
        split; [rewrite Do; reflexivity|]. split; [rewrite !rets_cons, O1r, O2r; exact Dr|].
        split; [exact Dlast|exact Dsz].
    - (* the last block *)
      assert (Hge : L <= K + Bs).
      { destruct (Z_lt_le_dec (K + Bs) L) as [Hlt|Hge]; [|exact Hge].
        apply (blk_more_iff resp K Bs ltac:(fold L; lia) ltac:(lia)) in Hlt. congruence. }
      pose proof (complete_one (pending (with_flight w1 [])) (set_block false resp None None)
                    (with_receiving (wa w) (tdel (receiving (wa w)) tok))) as Hcomp.
      change (mtok (set_block false resp None None)) with (mtok resp) in Hcomp. rewrite Htok in Hcomp.
      change (pending (with_flight w1 [])) with (pending w) in Hcomp.
      rewrite (existsb_pending tok (pending w) Hpend) in Hcomp.
      destruct (arrive_A c (with_flight w1 []) _ _ _ _ _ _ _ HhA Hcomp) as [Hw2 Ho2].
      rewrite <- Hst2 in Hw2, Ho2.
      exists 1%nat. split; [lia|]. split; [lia|].
      cbn [repeat Nat.mul Nat.add]. rewrite !run_cons. cbn [run_w run].
      rewrite Hw1, Hw2. split.
      + unfold done_world, w1, eB.
        cbn [wa wb flight vers pending whist emit with_a with_b with_pending with_flight].
        repeat split. eexists. reflexivity.
      + destruct Ho1 as [O1s [O1d [O1e [O1r _]]]]. destruct Ho2 as [O2s [O2d [O2e [O2r O2z]]]].
        unfold done_obs. rewrite !delivs_cons, O1s, O2s, O1d, O2d. cbn [Z.eqb app delivs_nil].
        split; [reflexivity|]. split; [reflexivity|].
        split; [apply noerr_cons; [exact O1e|apply noerr_cons; [exact O2e|constructor]]|].
        exists [snd (step c w (Deliver 0))], (snd (step c w1 (Deliver 0))).
        split; [reflexivity|]. split; [rewrite rets_cons, O1r; reflexivity|].
        split; [exact O2r|exact O2z].
  Qed.
End Loop.

(* ------------------------------------------------------------------ the phase *)
Lemma fit_min b m : fit (Some b) m = Z.min m (bszx b).
Proof. unfold fit. destruct (m >? bszx b) eqn:E; lia. Qed.

(* startSendingMessage for a body of at least one block: the response is kept
   and its first block goes out (SZX = min of the two limits it is given) *)
Lemma start_sending_first e resp mx mm b :
  size mx <= blen (mbody resp) -> is_upload (mcode resp) = false -> mobs resp = None ->
  tget (sending e) (mtok resp) = None -> bnum b = 0 ->
  start_sending e (Some resp) mx mm b =
    (with_sending e (tput (sending e) (mtok resp) resp),
     Out (Some (blk_msg resp (Z.min (bszx b) mx) 0 (buffer_size (Z.min (bszx b) mx) mm)))).
Proof.
  intros Hsz Hup Hobs Hnone Hb. unfold start_sending.
  destruct (blen (mbody resp) <? size mx) eqn:E; [apply Z.ltb_lt in E; lia|].
  rewrite (create_sending_down resp mx mm b 0 Hup) by (try rewrite Hb; try apply blen_nonneg; reflexivity).
  unfold is_observe_response. change (mobs (blk_msg resp _ _ _)) with (mobs resp). rewrite Hobs.
  change (mtok (blk_msg resp _ _ _)) with (mtok resp). rewrite Hnone. reflexivity.
Qed.

Section Phase.
  Variable c : cfg.
  Variables (tok : Z) (req resp : msg).
  (* sA, sB: SZX configured at A and B; mB: B's maximum message size;
     s0: the SZX of the first block of the response (s0 = sB after a plain
     request, s0 = min(sB, SZX of the last upload block) after an upload) *)
  Variables (sA sB mB s0 : Z).
  Hypothesis Hreq : GET <= mcode req <= DELETE.
  Hypothesis Htok : mtok resp = tok.
  Hypothesis Hcode : resp_code_ok (mcode resp).
  Hypothesis Hobs : mobs resp = None.
  Hypothesis HsA : 0 <= sA <= 7.
  Hypothesis Hs0 : 0 <= s0 <= sB.
  Hypothesis HsB : sB <= 7.
  Hypothesis HmB : s0 = 7 -> 1024 <= mB.
  Let s := Z.min sA s0.
  Let B0 := buffer_size s0 mB.
  Let Bs := buffer_size s mB.
  Let L := blen (mbody resp).
  Let b0 := {| bszx := s0; bnum := 0; bmore := true |}.

  Definition first_block : msg :=
    set_body (set_block false resp (Some b0) (Some L)) (firstn (Z.to_nat B0) (mbody resp)).

  Lemma phase_sizes : 0 < Bs /\ (exists k, 1 <= k /\ Bs = k * size s) /\ (exists j, 1 <= j /\ B0 = j * Bs).
  Proof. apply buffers_fit; unfold s; lia. Qed.

  Lemma first_block_eq : B0 < L -> blk_msg resp s0 0 B0 = first_block.
  Proof.
    intros Hlt. destruct phase_sizes as [HBs [_ [j [Hj HB0]]]].
    assert (H0 : 0 <= B0) by nia.
    unfold blk_msg, first_block.
    assert (Hm : blk_more resp 0 B0 = true) by (apply blk_more_iff; [pose proof (blen_nonneg (mbody resp)); lia|lia|exact Hlt]).
    rewrite Hm. reflexivity.
  Qed.

  (* A takes the first block *)
  Lemma handle_first_A e :
    eszx e = sA -> tget (sending e) tok = Some req -> tget (receiving e) tok = None -> B0 < L ->
    handle app_a e first_block =
      (with_receiving e (tput (receiving e) tok (rx_entry resp (Some b0) (Some L) B0)),
       Some (cont_req req tok s B0), [], 0).
  Proof.
    intros He Hsend Hrecv Hlt. destruct phase_sizes as [HBs [_ [j [Hj HB0]]]].
    assert (H0 : 0 <= B0) by nia.
    pose proof (handle_block app_a e first_block req b0 app_a_none) as H.
    change (mtok first_block) with (mtok resp) in H. rewrite Htok in H.
    cbv zeta in H. rewrite Hrecv, He, fit_min in H.
    specialize (H Hsend Hcode Hobs eq_refl ltac:(reflexivity) eq_refl eq_refl Htok HsA ltac:(cbn [bszx b0]; lia)).
    cbn [bszx bmore b0] in H. fold s in H.
    replace (Z.min (Z.min s0 s) s) with s in H by (unfold s; lia).
    change (set_body (set_body first_block []) (mbody (set_body first_block []) ++ mbody first_block))
      with (rx_entry resp (Some b0) (Some L) B0) in H.
    rewrite H.
    - change (mbody (rx_entry resp (Some b0) (Some L) B0)) with (firstn (Z.to_nat B0) (mbody resp)).
      rewrite (blen_firstn B0 (mbody resp)) by (fold L; lia). reflexivity.
    - (* repaired restart rule: the first block fills at least one block of the negotiated size *)
      intros _. change (mbody (rx_entry resp (Some b0) (Some L) B0)) with (firstn (Z.to_nat B0) (mbody resp)).
      rewrite (blen_firstn B0 (mbody resp)) by (fold L; lia).
      destruct phase_sizes as [_ [[k [Hk1 Hk2]] _]]. assert (Hs7' : 0 <= s <= 7) by (unfold s; lia).
      pose proof (size_pos s Hs7'). nia.
  Qed.

  (* "first block of the response in flight towards A" *)
  Definition at_first (w : world) : Prop :=
    eszx (wa w) = sA /\ eszx (wb w) = sB /\ emax (wb w) = mB /\
    tget (sending (wa w)) tok = Some req /\ tget (receiving (wa w)) tok = None /\
    tget (sending (wb w)) tok = Some resp /\ flight w = [(false, first_block)].

  Theorem download_phase (w : world) :
    at_first w -> B0 < L -> In tok (map snd (pending w)) ->
    exists q : nat,
      (1 <= q)%nat /\ (Z.of_nat q - 1) * Bs < L - B0 <= Z.of_nat q * Bs /\
      let es := repeat (Deliver 0%nat) (1 + 2 * q) in
      done_world tok w (run_w c w es) /\ done_obs tok resp w (run_w c w es) (run c w es) [].
  Proof.
    intros [HeA [HeB [HeM [HsendA [HrecvA [HsendB Hfl]]]]]] Hlt Hpend.
    destruct phase_sizes as [HBs [[k [Hk HBk]] [j [Hj HB0]]]].
    pose proof (step_deliver0 c w _ _ _ Hfl) as Hst1.
    pose proof (handle_first_A (wa w) HeA HsendA HrecvA Hlt) as HhA.
    destruct (arrive_A c (with_flight w []) _ _ _ _ _ _ _ HhA (complete_nil _ _)) as [Hw1 Ho1].
    rewrite <- Hst1 in Hw1, Ho1.
    set (w1 := emit (with_pending (with_a (with_flight w [])
                 (with_receiving (wa w) (tput (receiving (wa w)) tok (rx_entry resp (Some b0) (Some L) B0))))
                 (pending (with_flight w []))) true (Some (cont_req req tok s B0))) in *.
    assert (Hat : at_req tok req resp sA sB mB s (Some b0) (Some L) w1 B0).
    { unfold at_req, w1. cbn [wa wb flight emit with_a with_b with_pending with_flight
        eszx emax sending receiving with_receiving app].
      repeat split; try assumption. apply tget_tput_same. }
    assert (Hfuel : L - B0 <= Z.of_nat (Z.to_nat (L - B0)) * Bs) by (rewrite Z2Nat.id by lia; fold Bs in HBs; nia).
    assert (Hmul : exists j', B0 = j' * size s) by (exists (j * k); rewrite HB0, HBk; ring).
    assert (H0 : 0 <= B0) by nia.
    destruct (download_loop c tok req resp sA sB mB s (Some b0) (Some L) Hreq Htok Hcode Hobs HsA
                ltac:(unfold s; lia) ltac:(unfold s; lia) ltac:(unfold s; lia) HBs
                (ex_intro _ k (conj Hk HBk)) (Z.to_nat (L - B0)) w1 B0 Hfuel Hat ltac:(fold L; lia) Hmul Hpend)
      as [q [Hq1 [Hq2 [Hdw Hdo]]]].
    fold L Bs in Hq2.
    exists q. split; [exact Hq1|]. split; [exact Hq2|].
    cbn [Nat.add repeat]. rewrite run_cons. cbn [run_w]. rewrite Hw1.
    set (es := repeat (Deliver 0%nat) (2 * q)) in *. cbv zeta in Hdw, Hdo.
    set (wf := run_w c w1 es) in *.
    split.
    - destruct Hdw as [Da [Db [Df [Dv [Dp [h Dh]]]]]]. unfold done_world.
      rewrite Da, Db, Df, Dv, Dp.
      unfold w1. cbn [wa wb flight vers pending whist emit with_a with_b with_pending with_flight
        sending receiving with_receiving with_sending].
      rewrite tdel_tput_same.
      repeat split. rewrite Dh. unfold w1. cbn [whist emit with_a with_b with_pending with_flight].
      rewrite <- !app_assoc. eexists. reflexivity.
    - destruct Hdo as [D0 [D1 [Dn [obs' [o [Do [Dr [Dlast Dsz]]]]]]]].
      destruct Ho1 as [O1s [O1d [O1e [O1r _]]]].
      unfold done_obs. rewrite !delivs_cons, O1s, O1d. cbn [Z.eqb app].
      split; [exact D0|]. split; [exact D1|]. split; [apply noerr_cons; [exact O1e|exact Dn]|].
      exists (snd (step c w (Deliver 0)) :: obs'), o.
      split; [rewrite Do; reflexivity|]. split; [rewrite !rets_cons, O1r; exact Dr|].
      split; [exact Dlast|exact Dsz].
  Qed.
End Phase.

(* the phase starts without a reassembly entry at A, so A's receiving table ends as it was *)
Lemma done_world_receiving tok w wf :
  tget (receiving (wa w)) tok = None -> done_world tok w wf -> receiving (wa wf) = receiving (wa w).
Proof. intros Hn [Da _]. rewrite Da. cbn [receiving with_sending with_receiving]. apply tdel_absent, Hn. Qed.

Lemma rets_nil obs : rets obs = [] <-> Forall (fun o => mo_ret o = []) obs.
Proof.
  induction obs as [|o obs IH]; [split; constructor|]. rewrite rets_cons. split.
  - intros H. apply app_eq_nil in H. destruct H as [H1 H2]. constructor; [exact H1|apply IH, H2].
  - intros H. inversion H as [|? ? H1 H2]; subst. rewrite H1. apply IH, H2.
Qed.

(* the two one-step siblings of the phase, from the same kind of generic mid-state.
   (1) the response went out WITHOUT Block2 (body shorter than one block): one
       Deliver hands it to A's application and the pending Do calls return *)
Lemma plain_step c w tok resp :
  mtok resp = tok -> resp_code_ok (mcode resp) -> mb2 resp = None ->
  flight w = [(false, resp)] -> In tok (map snd (pending w)) ->
  let w' := fst (step c w (Deliver 0)) in
  wa w' = with_sending (wa w) (tdel (sending (wa w)) tok) /\ wb w' = wb w /\ flight w' = [] /\
  vers w' = vers w /\ pending w' = pend_keep tok (pending w) /\ whist w' = whist w /\
  mob_is (snd (step c w (Deliver 0))) 0 [resp] (pend_rets tok (pending w)) w'.
Proof.
  intros Htok Hcode Hb Hfl Hpend.
  pose proof (handle_plain app_a (wa (with_flight w [])) resp app_a_none Hcode Hb) as HhA.
  pose proof (complete_one (pending (with_flight w [])) resp (wa (with_flight w []))) as Hcomp.
  rewrite Htok in Hcomp. change (pending (with_flight w [])) with (pending w) in Hcomp.
  rewrite (existsb_pending tok (pending w) Hpend) in Hcomp.
  destruct (arrive_A c (with_flight w []) _ _ _ _ _ _ _ HhA Hcomp) as [Hw1 Ho1].
  rewrite <- (step_deliver0 c w _ _ _ Hfl) in Hw1, Ho1. cbv zeta. rewrite Hw1.
  repeat split; apply Ho1.
Qed.

(* (2) the response went out as ONE block with NUM = 0 and M = 0 (its body is at
       least one block but fits the first buffer): one Deliver hands the block
       message itself (Block2 / Size2 included) to A's application, the pending Do
       calls return - and B's sending entry is NOT removed *)
Lemma single_step c w tok req r b :
  mtok r = tok -> resp_code_ok (mcode r) -> mobs r = None ->
  mb2 r = Some b -> bmore b = false -> bnum b = 0 ->
  tget (sending (wa w)) tok = Some req -> tget (receiving (wa w)) tok = None ->
  flight w = [(false, r)] -> In tok (map snd (pending w)) ->
  let w' := fst (step c w (Deliver 0)) in
  wa w' = with_sending (wa w) (tdel (sending (wa w)) tok) /\ wb w' = wb w /\ flight w' = [] /\
  vers w' = vers w /\ pending w' = pend_keep tok (pending w) /\ whist w' = whist w /\
  mob_is (snd (step c w (Deliver 0))) 0 [r] (pend_rets tok (pending w)) w'.
Proof.
  intros Htok Hcode Hobs Hb Hm Hn Hsend Hrecv Hfl Hpend.
  assert (HhA : handle app_a (wa (with_flight w [])) r = (wa (with_flight w []), None, [r], 0)).
  { apply (handle_single app_a _ _ req b app_a_none); try assumption; rewrite Htok; assumption. }
  pose proof (complete_one (pending (with_flight w [])) r (wa (with_flight w []))) as Hcomp.
  rewrite Htok in Hcomp. change (pending (with_flight w [])) with (pending w) in Hcomp.
  rewrite (existsb_pending tok (pending w) Hpend) in Hcomp.
  destruct (arrive_A c (with_flight w []) _ _ _ _ _ _ _ HhA Hcomp) as [Hw1 Ho1].
  rewrite <- (step_deliver0 c w _ _ _ Hfl) in Hw1, Ho1. cbv zeta. rewrite Hw1.
  repeat split; apply Ho1.
Qed.

(* ------------------------------------------------------------------ GET from init *)
Lemma content_ok : resp_code_ok Content.
Proof. unfold resp_code_ok, Content, DELETE, Continue. lia. Qed.

Section Get.
  Variable c : cfg.
  Variables (i : nat) (x : exch) (r : res).
  (* exchange i of the configuration is x (the other exchanges are never started) *)
  Hypothesis Hx : nth_error (cexch c) i = Some x.
  (* x is a Do (request/response) exchange ... *)
  Hypothesis Hkind : xkind x = 0.
  (* ... whose request is a GET with an empty body ... *)
  Hypothesis Hcodex : xcode x = GET.
  Hypothesis Hlen : xlen x = 0.
  (* ... for a resource B's application knows *)
  Hypothesis Hr : nth_error (cres c) (Z.to_nat (xpath x)) = Some r.
  (* both configured SZX are valid (7 = BERT) *)
  Hypothesis HsA : 0 <= cszxA c <= 7.
  Hypothesis HsB : 0 <= cszxB c <= 7.

  Let tok := xtok x.
  Let sA := cszxA c.
  Let sB := cszxB c.
  Let mB := cmaxB c.
  Let body := res_body r 0.
  Let L := blen body.
  Let B0 := buffer_size sB mB.
  Let s := Z.min sA sB.
  Let Bs := buffer_size s mB.

  Definition get_req : msg :=
    {| mcode := GET; mtok := xtok x; mb1 := None; mb2 := None; ms1 := None; ms2 := None;
       metag := None; mobs := None; mother := [(11, xpath x)]; mbody := [] |}.
  (* the response as B's application writes it = what A's application must receive *)
  Definition get_resp : msg :=
    {| mcode := Content; mtok := xtok x; mb1 := None; mb2 := None; ms1 := None; ms2 := None;
       metag := res_etag r 0; mobs := None; mother := [(12, rcf r)]; mbody := res_body r 0 |}.

  Lemma request_of_get : request_of x = get_req.
  Proof. unfold request_of, get_req. rewrite Hcodex, Hlen. reflexivity. Qed.

  Lemma app_b_get : app_b c [] tok get_req = Some get_resp.
  Proof.
    unfold app_b. cbn [mcode mother get_req zassoc].
    change ((GET <=? GET) && (GET <=? DELETE)) with true. rewrite Z.eqb_refl, Hr. reflexivity.
  Qed.

  (* the world after Start i *)
  Definition w_started : world :=
    {| wa := with_sending (wa (init c)) [(tok, get_req)]; wb := wb (init c);
       flight := [(true, get_req)]; whist := [(true, get_req)]; vers := []; pending := [(i, tok)] |}.

  Lemma step_start :
    fst (step c (init c) (Start i)) = w_started /\ mob_is (snd (step c (init c) (Start i))) 2 [] [] w_started.
  Proof.
    unfold step. rewrite Hx, Hkind. cbn [Z.eqb]. rewrite request_of_get.
    unfold do_start. cbn [init wa new_ep sending tget mbody get_req eszx]. rewrite blen_nil.
    destruct (0 <=? size (cszxA c)) eqn:E; [|apply Z.leb_gt in E; pose proof (size_pos _ HsA); lia].
    unfold started. cbn [fst snd]. repeat split.
  Qed.

  (* B receives the request *)
  Lemma handle_get_B :
    handle (app_b c []) (wb (init c)) get_req =
      let '(e', o) := start_sending (wb (init c)) (Some get_resp) sB mB {| bszx := sB; bnum := 0; bmore := true |} in
      match o with
      | Out w => (e', w, [get_req], 0)
      | Fail => (e', Some (entity_incomplete tok), [get_req], 1)
      end.
  Proof.
    unfold handle. cbn [init wb new_ep sending tget].
    unfold handle_received, handle_received_s; fold_pr. cbn [mcode mb2 mtok get_req eszx emax fit].
    change ((GET =? 0) || ((225 <=? GET) && (GET <=? 229))) with false.
    change ((GET =? GET) || (GET =? DELETE)) with true. cbn [orb].
    fold tok. rewrite app_b_get.
    fold sB mB.
    destruct (start_sending _ _ _ _ _) as [e' o]. destruct o; reflexivity.
  Qed.

  (* what the whole run shows and where it ends *)
  Definition get_done (n : nat) (handedA : msg) (wb_final : ep) (sizes : list Z) : Prop :=
    let es := Start i :: repeat (Deliver 0%nat) n in
    let obs := run c (init c) es in
    let wf := run_w c (init c) es in
    delivs 1 obs = [request_of x] /\ delivs 0 obs = [handedA] /\ noerr obs /\
    (exists obs' o, obs = obs' ++ [o] /\ rets obs' = [] /\ mo_ret o = [(Z.of_nat i, 0)] /\ mo_sizes o = sizes) /\
    wa wf = wa (init c) /\ wb wf = wb_final /\ flight wf = [] /\ vers wf = [] /\ pending wf = [].

  Lemma pend_one_keep : pend_keep tok [(i, tok)] = [].
  Proof. unfold pend_keep. cbn [filter snd]. rewrite Z.eqb_refl. reflexivity. Qed.
  Lemma pend_one_rets : pend_rets tok [(i, tok)] = [(Z.of_nat i, 0)].
  Proof. unfold pend_rets. cbn [filter snd]. rewrite Z.eqb_refl. reflexivity. Qed.

  (* request/response style: the body is shorter than one block of B *)
  Theorem get_plain : L < size sB -> get_done 2 get_resp (wb (init c)) [0; 0; 0; 0].
  Proof.
    intros Hsmall. destruct step_start as [HwS HoS].
    (* Deliver 1: B answers *)
    assert (HhB : handle (app_b c []) (wb (init c)) get_req = (wb (init c), Some get_resp, [get_req], 0)).
    { rewrite handle_get_B. unfold start_sending. cbn [mbody get_resp]. fold body L.
      destruct (L <? size sB) eqn:E; [reflexivity|apply Z.ltb_ge in E; lia]. }
    assert (HflS : flight w_started = [(true, get_req)]) by reflexivity.
    pose proof (step_deliver0 c w_started _ _ _ HflS) as Hst1.
    destruct (arrive_B c (with_flight w_started []) get_req _ _ _ HhB) as [Hw1 Ho1].
    rewrite <- Hst1 in Hw1, Ho1.
    set (w1 := emit (with_b (with_flight w_started []) (wb (init c))) false (Some get_resp)) in *.
    (* Deliver 2: A hands the response over, Do returns *)
    assert (Hfl1 : flight w1 = [(false, get_resp)]) by reflexivity.
    pose proof (step_deliver0 c w1 _ _ _ Hfl1) as Hst2.
    pose proof (handle_plain app_a (wa (with_flight w1 [])) get_resp app_a_none content_ok eq_refl) as HhA.
    pose proof (complete_one (pending (with_flight w1 [])) get_resp (wa (with_flight w1 []))) as Hcomp.
    change (mtok get_resp) with tok in Hcomp. change (pending (with_flight w1 [])) with [(i, tok)] in Hcomp.
    rewrite pend_one_keep, pend_one_rets in Hcomp. cbn [existsb snd] in Hcomp. rewrite Z.eqb_refl in Hcomp. cbn [orb] in Hcomp.
    destruct (arrive_A c (with_flight w1 []) _ _ _ _ _ _ _ HhA Hcomp) as [Hw2 Ho2].
    rewrite <- Hst2 in Hw2, Ho2.
    assert (Hfin : with_sending (wa (with_flight w1 [])) (tdel (sending (wa (with_flight w1 []))) tok) = wa (init c)).
    { unfold w1, w_started. cbn [wa with_flight emit with_b sending with_sending tdel]. rewrite Z.eqb_refl. reflexivity. }
    rewrite Hfin in Hw2, Ho2.
    unfold get_done. cbn [repeat]. rewrite !run_cons. cbn [run run_w]. rewrite HwS, Hw1, Hw2.
    destruct HoS as [Sa [Sd [Se [Sr _]]]]. destruct Ho1 as [O1s [O1d [O1e [O1r _]]]].
    destruct Ho2 as [O2s [O2d [O2e [O2r O2z]]]].
    rewrite !delivs_cons, Sa, Sd, O1s, O1d, O2s, O2d. cbn [Z.eqb app delivs_nil]. rewrite request_of_get.
    split; [reflexivity|]. split; [reflexivity|].
    split; [repeat (apply noerr_cons; [assumption|]); constructor|].
    split.
    { exists [snd (step c (init c) (Start i)); snd (step c w_started (Deliver 0))], (snd (step c w1 (Deliver 0))).
      split; [reflexivity|]. split; [rewrite !rets_cons, Sr, O1r; reflexivity|].
      split; [exact O2r|]. rewrite O2z. reflexivity. }
    repeat split.
  Qed.

  (* B's answer when the body is at least one block long: the response is kept
     and its first block (SZX sB, one buffer B0) goes out *)
  Lemma handle_get_B_block : size sB <= L ->
    handle (app_b c []) (wb (init c)) get_req =
      (with_sending (wb (init c)) [(tok, get_resp)], Some (blk_msg get_resp sB 0 B0), [get_req], 0).
  Proof.
    intros Hbig. rewrite handle_get_B.
    rewrite (start_sending_first (wb (init c)) get_resp sB mB {| bszx := sB; bnum := 0; bmore := true |})
      by (try reflexivity; exact Hbig).
    cbn [bszx]. rewrite Z.min_id. reflexivity.
  Qed.

  (* the world after B's answer, in both block-wise cases *)
  Definition w_served : world :=
    emit (with_b (with_flight w_started []) (with_sending (wb (init c)) [(tok, get_resp)]))
         false (Some (blk_msg get_resp sB 0 B0)).

  Lemma step_served : size sB <= L ->
    fst (step c w_started (Deliver 0)) = w_served /\ mob_is (snd (step c w_started (Deliver 0))) 1 [get_req] [] w_served.
  Proof.
    intros Hbig.
    assert (HflS : flight w_started = [(true, get_req)]) by reflexivity.
    rewrite (step_deliver0 c w_started _ _ _ HflS).
    exact (arrive_B c (with_flight w_started []) get_req _ _ _ (handle_get_B_block Hbig)).
  Qed.

  (* block-wise: the body is longer than B's first buffer.
     (cszxB c = 7 -> 1024 <= cmaxB c): with BERT, B's buffer must hold one block *)
  Theorem get_blockwise : B0 < L -> (sB = 7 -> 1024 <= mB) ->
    exists q : nat,
      (1 <= q)%nat /\ (Z.of_nat q - 1) * Bs < L - B0 <= Z.of_nat q * Bs /\
      get_done (2 + 2 * q) get_resp (wb (init c)) [0; 0; 0; 0].
  Proof.
    intros Hlong HmB. destruct step_start as [HwS HoS].
    destruct (buffers_fit sB sB mB ltac:(unfold sB; lia) ltac:(unfold sB; lia) HmB) as [HB0 [[k [Hk HBk]] _]].
    fold B0 in HB0, HBk. pose proof (size_pos sB HsB) as HszB.
    assert (Hbig : size sB <= L) by nia.
    destruct (step_served Hbig) as [Hw1 Ho1].
    assert (Hfb : blk_msg get_resp sB 0 B0 = first_block get_resp mB sB).
    { apply (first_block_eq get_resp sA sB mB sB); try assumption; unfold sB; try lia. }
    assert (Hat : at_first tok get_req get_resp sA sB mB sB w_served).
    { unfold at_first, w_served. rewrite Hfb.
      cbn [wa wb flight emit with_a with_b with_flight w_started init new_ep eszx emax sending receiving with_sending tget app].
      rewrite Z.eqb_refl. repeat split. }
    assert (Hpend : In tok (map snd (pending w_served))) by (left; reflexivity).
    destruct (download_phase c tok get_req get_resp sA sB mB sB ltac:(cbn [mcode get_req]; unfold GET, DELETE; lia) eq_refl content_ok eq_refl HsA
                ltac:(unfold sB; lia) ltac:(unfold sB; lia) HmB w_served Hat Hlong Hpend) as [q [Hq1 [Hq2 [Hdw Hdo]]]].
    exists q. split; [exact Hq1|]. split; [exact Hq2|].
    unfold get_done. replace (2 + 2 * q)%nat with (S (1 + 2 * q)) by lia.
    cbn [repeat]. rewrite !run_cons. cbn [run_w]. rewrite HwS, Hw1.
    set (es := repeat (Deliver 0%nat) (1 + 2 * q)) in *. cbv zeta in Hdw, Hdo.
    set (wf := run_w c w_served es) in *.
    destruct Hdw as [Da [Db [Df [Dv [Dp _]]]]].
    assert (Da' : wa wf = wa (init c)).
    { rewrite Da. unfold w_served, w_started.
      cbn [wa emit with_b with_flight sending receiving with_sending with_receiving tdel init new_ep].
      rewrite Z.eqb_refl. reflexivity. }
    assert (Db' : wb wf = wb (init c)).
    { rewrite Db. unfold w_served. cbn [wb emit with_b sending with_sending tdel]. rewrite Z.eqb_refl. reflexivity. }
    destruct Hdo as [D0 [D1 [Dn [obs' [o [Do [Dr [Dlast Dsz]]]]]]]].
    destruct HoS as [Sa [Sd [Se [Sr _]]]]. destruct Ho1 as [O1s [O1d [O1e [O1r _]]]].
    rewrite !delivs_cons, Sa, Sd, O1s, O1d. cbn [Z.eqb app]. rewrite D0, D1, request_of_get.
    split; [reflexivity|]. split; [reflexivity|].
    split; [apply noerr_cons; [exact Se|apply noerr_cons; [exact O1e|exact Dn]]|].
    split.
    { exists (snd (step c (init c) (Start i)) :: snd (step c w_started (Deliver 0)) :: obs'), o.
      split; [rewrite Do; reflexivity|]. split; [rewrite !rets_cons, Sr, O1r; exact Dr|].
      split; [rewrite Dlast; exact pend_one_rets|].
      rewrite Dsz. unfold sizes_of. rewrite Da', Db'. reflexivity. }
    split; [exact Da'|]. split; [exact Db'|]. split; [exact Df|]. split; [rewrite Dv; reflexivity|].
    rewrite Dp. exact pend_one_keep.
  Qed.

  (* the region in between: the body is at least one block but fits B's first
     buffer (L = one block exactly; or BERT with up to cmaxB/1024 blocks).  The
     transfer is one block with M = 0: the Do returns ok with the right body,
     BUT the message handed to A's application still carries Block2 / Size2, and
     B keeps the response in its sending table (until the expiry sweep). *)
  Theorem get_single_block : size sB <= L <= B0 ->
    get_done 2 (blk_msg get_resp sB 0 B0) (with_sending (wb (init c)) [(tok, get_resp)]) [0; 0; 1; 0] /\
    mbody (blk_msg get_resp sB 0 B0) = body /\
    mb2 (blk_msg get_resp sB 0 B0) = Some {| bszx := sB; bnum := 0; bmore := false |} /\
    ms2 (blk_msg get_resp sB 0 B0) = Some L.
  Proof.
    intros [Hbig Hfit]. destruct step_start as [HwS HoS].
    destruct (step_served Hbig) as [Hw1 Ho1].
    pose proof (size_pos sB HsB) as HszB.
    assert (Hmore : blk_more get_resp 0 B0 = false).
    { pose proof (blk_more_iff get_resp 0 B0) as Hiff. change (blen (mbody get_resp)) with L in Hiff.
      specialize (Hiff ltac:(lia) ltac:(lia)).
      destruct (blk_more get_resp 0 B0); [|reflexivity]. destruct Hiff as [H1 _]. specialize (H1 eq_refl). lia. }
    assert (Hb2 : mb2 (blk_msg get_resp sB 0 B0) = Some {| bszx := sB; bnum := 0; bmore := false |}).
    { unfold blk_msg. cbn [mb2 set_body set_block]. rewrite Hmore. rewrite Z.div_0_l by lia. reflexivity. }
    split; [|split; [|split; [exact Hb2|reflexivity]]].
    2:{ unfold blk_msg, blk_data. cbn [mbody set_body get_resp]. fold body. apply (firstn_allZ B0 body). fold L. lia. }
    assert (Hfl1 : flight w_served = [(false, blk_msg get_resp sB 0 B0)]) by reflexivity.
    pose proof (step_deliver0 c w_served _ _ _ Hfl1) as Hst2.
    assert (HhA : handle app_a (wa (with_flight w_served [])) (blk_msg get_resp sB 0 B0)
                  = (wa (with_flight w_served []), None, [blk_msg get_resp sB 0 B0], 0)).
    { apply (handle_single app_a _ _ get_req {| bszx := sB; bnum := 0; bmore := false |} app_a_none);
        try exact Hb2; try reflexivity; try exact content_ok.
      unfold w_served, w_started. cbn [wa with_flight emit with_b sending with_sending tget].
      change (mtok (blk_msg get_resp sB 0 B0)) with tok. rewrite Z.eqb_refl. reflexivity. }
    pose proof (complete_one (pending (with_flight w_served [])) (blk_msg get_resp sB 0 B0) (wa (with_flight w_served []))) as Hcomp.
    change (mtok (blk_msg get_resp sB 0 B0)) with tok in Hcomp.
    change (pending (with_flight w_served [])) with [(i, tok)] in Hcomp.
    rewrite pend_one_keep, pend_one_rets in Hcomp. cbn [existsb snd] in Hcomp. rewrite Z.eqb_refl in Hcomp. cbn [orb] in Hcomp.
    destruct (arrive_A c (with_flight w_served []) _ _ _ _ _ _ _ HhA Hcomp) as [Hw2 Ho2].
    rewrite <- Hst2 in Hw2, Ho2.
    assert (Hfin : with_sending (wa (with_flight w_served [])) (tdel (sending (wa (with_flight w_served []))) tok) = wa (init c)).
    { unfold w_served, w_started. cbn [wa with_flight emit with_b sending with_sending tdel]. rewrite Z.eqb_refl. reflexivity. }
    rewrite Hfin in Hw2, Ho2.
    unfold get_done. cbn [repeat]. rewrite !run_cons. cbn [run run_w]. rewrite HwS, Hw1, Hw2.
    destruct HoS as [Sa [Sd [Se [Sr _]]]]. destruct Ho1 as [O1s [O1d [O1e [O1r _]]]].
    destruct Ho2 as [O2s [O2d [O2e [O2r O2z]]]].
    rewrite !delivs_cons, Sa, Sd, O1s, O1d, O2s, O2d. cbn [Z.eqb app delivs_nil]. rewrite request_of_get.
    split; [reflexivity|]. split; [reflexivity|].
    split; [repeat (apply noerr_cons; [assumption|]); constructor|].
    split.
    { exists [snd (step c (init c) (Start i)); snd (step c w_started (Deliver 0))], (snd (step c w_served (Deliver 0))).
      split; [reflexivity|]. split; [rewrite !rets_cons, Sr, O1r; reflexivity|].
      split; [exact O2r|]. rewrite O2z. reflexivity. }
    repeat split.
  Qed.

  (* the two good regions together, with the bound on the number of round trips
     (one round trip = two Deliver events) in terms of the negotiated block size *)
  Theorem get_progress : (sB = 7 -> 1024 <= mB) -> (L < size sB \/ B0 < L) ->
    exists q : nat,
      (1 <= q)%nat /\ Z.of_nat q <= (L + size s - 1) / size s + 1 /\
      (L < size sB -> q = 1%nat) /\
      (B0 < L -> (Z.of_nat q - 2) * Bs < L - B0 <= (Z.of_nat q - 1) * Bs /\ Z.of_nat q <= (L + size s - 1) / size s) /\
      get_done (2 * q) get_resp (wb (init c)) [0; 0; 0; 0].
  Proof.
    intros HmB Hreg.
    assert (Hs : 0 <= s <= 7) by (unfold s, sA, sB; lia).
    pose proof (size_pos s Hs) as Hsz. pose proof (size_pos sB HsB) as HszB.
    destruct (buffers_fit sB sB mB ltac:(unfold sB; lia) ltac:(unfold sB; lia) HmB) as [HB0 [[k0 [Hk0 HBk0]] _]].
    fold B0 in HB0, HBk0.
    assert (HL0 : 0 <= L) by apply blen_nonneg.
    assert (Hceil0 : 0 <= (L + size s - 1) / size s) by (apply Z.div_pos; lia).
    destruct (Z_lt_le_dec L (size sB)) as [Hsmall|Hbig].
    - exists 1%nat. split; [lia|]. split; [lia|]. split; [reflexivity|]. split; [intros Hlong; nia|].
      exact (get_plain Hsmall).
    - assert (Hlong : B0 < L) by (destruct Hreg; [lia|assumption]).
      destruct (get_blockwise Hlong HmB) as [q [Hq1 [Hq2 Hdone]]].
      destruct (buffers_fit s sB mB ltac:(unfold s, sA, sB; lia) ltac:(unfold sB; lia) HmB)
        as [HBs [[k [Hk HBk]] [j [Hj HBj]]]].
      fold Bs in HBs, HBk, HBj. fold B0 in HBj.
      assert (Hq0 : 0 <= Z.of_nat q) by lia.
      assert (HqBs : Z.of_nat q * Bs < L) by nia.
      assert (Hqs : Z.of_nat q * size s < L) by nia.
      assert (Hbound : Z.of_nat q + 1 <= (L + size s - 1) / size s) by (apply Z.div_le_lower_bound; lia).
      exists (1 + q)%nat. split; [lia|]. split; [lia|]. split; [intros Hsmall; lia|].
      split; [intros _; split; lia|].
      replace (2 * (1 + q))%nat with (2 + 2 * q)%nat by lia. exact Hdone.
  Qed.
End Get.

(* ------------------------------------------------------------------ the excluded region *)
Lemma run_quiet c w k : flight w = [] ->
  run_w c w (repeat (Deliver 0%nat) k) = w /\ run c w (repeat (Deliver 0%nat) k) = repeat (snd (quiet w)) k.
Proof.
  intros Hfl. induction k as [|k [IH1 IH2]]; [split; reflexivity|].
  cbn [repeat run_w]. rewrite run_cons, (step_deliver_quiet c w 0 Hfl). cbn [fst snd quiet].
  split; [exact IH1|]. rewrite IH2. reflexivity.
Qed.

Lemma delivs_quiet side w k : delivs side (repeat (snd (quiet w)) k) = [].
Proof.
  induction k as [|k IH]; [reflexivity|]. cbn [repeat]. rewrite delivs_cons, IH. cbn [snd quiet mo_deliv mo_side].
  destruct (2 =? side); reflexivity.
Qed.

(* In the region size sB <= L <= B0 the statement "all four tables are empty at
   the end, the message handed to A carries no Block2" fails for EVERY script
   length: B's sending entry stays (only the expiry sweep removes it), and A's
   application is handed the block message (Block2 = sB/0/M=0, Size2 = L). *)
Theorem get_single_block_stuck c i x r :
  nth_error (cexch c) i = Some x -> xkind x = 0 -> xcode x = GET -> xlen x = 0 ->
  nth_error (cres c) (Z.to_nat (xpath x)) = Some r -> 0 <= cszxA c <= 7 -> 0 <= cszxB c <= 7 ->
  size (cszxB c) <= blen (res_body r 0) <= buffer_size (cszxB c) (cmaxB c) ->
  forall n, (2 <= n)%nat ->
    let es := Start i :: repeat (Deliver 0%nat) n in
    sending (wb (run_w c (init c) es)) = [(xtok x, get_resp x r)] /\
    delivs 0 (run c (init c) es) = [blk_msg (get_resp x r) (cszxB c) 0 (buffer_size (cszxB c) (cmaxB c))].
Proof.
  intros Hx Hkind Hcode Hlen Hr HsA HsB Hreg n Hn.
  destruct (get_single_block c i x r Hx Hkind Hcode Hlen Hr HsA HsB Hreg) as [Hdone _].
  unfold get_done in Hdone. cbv zeta in Hdone.
  destruct Hdone as [_ [D0 [_ [_ [_ [Db [Df _]]]]]]].
  replace n with (2 + (n - 2))%nat by lia. rewrite repeat_app. cbv zeta.
  rewrite app_comm_cons, run_w_app, run_app.
  set (w2 := run_w c (init c) (Start i :: repeat (Deliver 0%nat) 2)) in *.
  destruct (run_quiet c w2 (n - 2) Df) as [Q1 Q2]. rewrite Q1, Q2, Db.
  split; [reflexivity|].
  unfold delivs. rewrite filter_app, flat_map_app. fold (delivs 0 (run c (init c) (Start i :: repeat (Deliver 0%nat) 2))).
  fold (delivs 0 (repeat (snd (quiet w2)) (n - 2))). rewrite D0, delivs_quiet. reflexivity.
Qed.

(* a witness in the excluded region: SZX 2 on both sides, body of exactly 64 bytes *)
Definition c_single : cfg := Cfg 2 100 2 100 [X 0 GET 5 0 3 0 None] [R 9 64 true 42] [].

Example get_single_block_refuted :
  forall n, ~ get_done c_single 0 (X 0 GET 5 0 3 0 None) n
               (get_resp (X 0 GET 5 0 3 0 None) (R 9 64 true 42)) (wb (init c_single)) [0; 0; 0; 0].
Proof.
  intros n Hdone. unfold get_done in Hdone. cbv zeta in Hdone.
  destruct n as [|[|n]].
  - destruct Hdone as [H _]. vm_compute in H. discriminate H.
  - destruct Hdone as [_ [H _]]. vm_compute in H. discriminate H.
  - destruct Hdone as [_ [_ [_ [_ [_ [Db _]]]]]].
    destruct (get_single_block_stuck c_single 0 (X 0 GET 5 0 3 0 None) (R 9 64 true 42)
                eq_refl eq_refl eq_refl eq_refl eq_refl ltac:(cbn [c_single cszxA]; lia) ltac:(cbn [c_single cszxB]; lia)
                ltac:(vm_compute; split; discriminate) (S (S n)) ltac:(lia)) as [Hs _].
    cbv zeta in Hs. rewrite Db in Hs. discriminate Hs.
Qed.

(* ... and what the run looks like there (sanity check by computation) *)
Example get_single_block_witness :
  map (fun o => (mo_side o, map (fun m => (mb2 m, ms2 m, blen (mbody m))) (mo_deliv o), mo_ret o, mo_sizes o))
      (run c_single (init c_single) [Start 0; Deliver 0; Deliver 0; Deliver 0])
  = [(2, [], [], [1; 0; 0; 0]);
     (1, [(None, None, 0)], [], [1; 0; 1; 0]);
     (0, [(Some {| bszx := 2; bnum := 0; bmore := false |}, Some 64, 64)], [(0, 0)], [0; 0; 1; 0]);
     (2, [], [], [0; 0; 1; 0])].
Proof. vm_compute. reflexivity. Qed.

(* sanity checks of the positive statements by computation (not part of the proof) *)
Example get_blockwise_sample :
  let c := Cfg 2 100 0 100 [X 0 GET 5 0 3 0 None] [R 9 50 true 42] [] in
  map (fun o => (mo_side o, map (fun m => (mb2 m, blen (mbody m))) (mo_deliv o), mo_ret o, mo_sizes o))
      (run c (init c) (Start 0%nat :: repeat (Deliver 0%nat) 8))
  = [(2, [], [], [1; 0; 0; 0]); (1, [(None, 0)], [], [1; 0; 1; 0]);
     (0, [], [], [1; 1; 1; 0]); (1, [], [], [1; 1; 1; 0]);
     (0, [], [], [1; 1; 1; 0]); (1, [], [], [1; 1; 1; 0]);
     (0, [], [], [1; 1; 1; 0]); (1, [], [], [1; 1; 0; 0]);
     (0, [(None, 50)], [(0, 0)], [0; 0; 0; 0])].
Proof. vm_compute. reflexivity. Qed.
