(* C04: state that belongs to an exchange which is still under way is never touched by ANOTHER request
   that carries the same token (seeded regressions C04-8 / C04-9, notes/C04.md "round 4").

   1. A Do for a token that is in flight (a live element of the sending cache under the token) is
      refused and changes nothing: the event is invisible to the rest of the run (Model.v, Timed.v,
      Deadline.v).
   2. A message parked in the sending cache - the response a download is being served from, the
      request of a Do - is never replaced while it is valid: one Handle step, ANY message (in
      particular any REQUEST with the same token that is handed to the application, whose answer
      startSendingMessage would have to park), leaves a live element under an application token
      exactly as it is or removes it, and it removes it only on the continuation path (the message
      is a block request for that very token that is not handed to the application: error, or last
      block of a response).  C04_handle_keeps_live_sending_element (ProofsDeadline.dhandle_snd)
      allows anything in a step that hands a message to the application; this is the missing half.
      Needs one more invariant than there: reassembly entries under application tokens carry the
      token they are stored under ([ctok_ok]; true of every reachable endpoint).
   3. Run level, B's side of the timed two-party system, every script: while the clock has not
      passed the deadline of a parked message, it is either still exactly what was parked or there
      was a moment at which the token had no element at all (the transfer ended).  Every block B
      serves in between is sliced from that one message (Proofs.serve_coherent). *)
From Coq Require Import ZArith Bool List Lia.
From GoCoap Require Import Base.Bytes Block.Model Blockwise.Config Blockwise.Model Blockwise.Timed Blockwise.Deadline
  Blockwise.ProofsTimed Blockwise.ProofsDeadline.
Import ListNotations.
Open Scope Z_scope.

(* ------------------------------------------------------------------------ *)
(* 1. a refused Do                                                            *)

Lemma do_start_refused e r : tget (sending e) (mtok r) <> None -> do_start e r = (e, None).
Proof. unfold do_start. destruct (tget (sending e) (mtok r)); [reflexivity|intros H; contradiction H; reflexivity]. Qed.

Lemma tdo_start_refused now e r : cload now (tsnd e) (mtok r) <> None -> tdo_start now e r = (e, None).
Proof. unfold tdo_start. destruct (cload now (tsnd e) (mtok r)); [reflexivity|intros H; contradiction H; reflexivity]. Qed.

Lemma ddo_start_refused now dl e r : cload now (tsnd e) (mtok r) <> None -> ddo_start now dl e r = (e, None).
Proof. unfold ddo_start. destruct (cload now (tsnd e) (mtok r)); [reflexivity|intros H; contradiction H; reflexivity]. Qed.

Definition refusal (i : nat) (sizes : list Z) : mob :=
  {| mo_side := 2; mo_in := None; mo_wire := None; mo_deliv := []; mo_err := 0; mo_ret := [(Z.of_nat i, 1)]; mo_sizes := sizes |}.

Lemma world_eta w : {| wa := wa w; wb := wb w; flight := flight w; whist := whist w; vers := vers w; pending := pending w |} = w.
Proof. destruct w; reflexivity. Qed.
Lemma tworld_eta w : {| twa := twa w; twb := twb w; tflight := tflight w; twhist := twhist w; tvers := tvers w;
                         tpending := tpending w; tnow := tnow w |} = w.
Proof. destruct w; reflexivity. Qed.

(* Model.v: the step is the refusal and nothing else *)
Lemma step_second_do c w i x :
  nth_error (cexch c) i = Some x -> xkind x = 0 -> tget (sending (wa w)) (xtok x) <> None ->
  step c w (Start i) = (w, refusal i (sizes_of w)).
Proof.
  intros Hx Hk Hin. cbn [step]. rewrite Hx, Hk. cbn [Z.eqb].
  rewrite do_start_refused by exact Hin. unfold started, emit, with_a. rewrite world_eta. reflexivity.
Qed.

(* Timed.v: a live element under the token *)
Lemma tstep_second_do c w i x :
  nth_error (cexch c) i = Some x -> xkind x = 0 -> cload (tnow w) (tsnd (twa w)) (xtok x) <> None ->
  tstep c w (Ev (Start i)) = (w, refusal i (tsizes_of w)).
Proof.
  intros Hx Hk Hin. cbn [tstep]. rewrite Hx, Hk. cbn [Z.eqb].
  rewrite tdo_start_refused by exact Hin. unfold tstarted, temit, with_ta. rewrite tworld_eta. reflexivity.
Qed.

(* Deadline.v: whatever deadline the second call would carry *)
Lemma dstep_second_do c dls w i x :
  nth_error (cexch c) i = Some x -> xkind x = 0 -> cload (tnow (dw w)) (tsnd (twa (dw w))) (xtok x) <> None ->
  dstep c dls w (Ev (Start i)) = (w, refusal i (tsizes_of (dw w))).
Proof.
  intros Hx Hk Hin. cbn [dstep]. rewrite Hx, Hk. cbn [Z.eqb].
  rewrite ddo_start_refused by exact Hin. unfold dlift, tstarted, temit, with_ta. cbn [fst snd]. rewrite tworld_eta.
  destruct w; reflexivity.
Qed.

(* hence: the run with the refused call is the run without it, plus the one observation of the refusal *)
Theorem second_do_invisible c w i x es :
  nth_error (cexch c) i = Some x -> xkind x = 0 -> tget (sending (wa w)) (xtok x) <> None ->
  run c w (Start i :: es) = refusal i (sizes_of w) :: run c w es.
Proof. intros Hx Hk Hin. cbn [run]. rewrite (step_second_do c w i x Hx Hk Hin). reflexivity. Qed.

Theorem second_do_invisible_t c w i x es :
  nth_error (cexch c) i = Some x -> xkind x = 0 -> cload (tnow w) (tsnd (twa w)) (xtok x) <> None ->
  trun c w (Ev (Start i) :: es) = refusal i (tsizes_of w) :: trun c w es.
Proof. intros Hx Hk Hin. cbn [trun]. rewrite (tstep_second_do c w i x Hx Hk Hin). reflexivity. Qed.

Theorem second_do_invisible_d c dls w i x es :
  nth_error (cexch c) i = Some x -> xkind x = 0 -> cload (tnow (dw w)) (tsnd (twa (dw w))) (xtok x) <> None ->
  drun c dls w (Ev (Start i) :: es) = refusal i (tsizes_of (dw w)) :: drun c dls w es.
Proof. intros Hx Hk Hin. cbn [drun]. rewrite (dstep_second_do c dls w i x Hx Hk Hin). reflexivity. Qed.

(* ------------------------------------------------------------------------ *)
(* 2. one Handle step and a parked message                                    *)

(* reassembly entries under application tokens carry the token they are stored under *)
Definition ctok_ok (c : cache) : Prop := forall k dl cm, 0 <= k < FRESH -> craw c k = Some (dl, cm) -> mtok cm = k.

Lemma ctok_ok_nil : ctok_ok []. Proof. intros k dl cm _ H; discriminate. Qed.
Lemma ctok_ok_sub c c' : csub c' c -> ctok_ok c -> ctok_ok c'.
Proof. intros Hs H k dl cm Hk E. exact (H k dl cm Hk (Hs _ _ E)). Qed.
Lemma ctok_ok_cdel c k : ctok_ok c -> ctok_ok (cdel c k).
Proof. apply ctok_ok_sub, csub_cdel. Qed.

Lemma craw_cupdate c k v k' :
  craw (cupdate c k v) k' = if k' =? k then match craw c k with Some (dl, _) => Some (dl, v) | None => None end else craw c k'.
Proof.
  unfold cupdate. destruct (craw c k) as [[dl x]|] eqn:E.
  - cbn [craw]. destruct (k' =? k) eqn:Ek; [reflexivity|]. rewrite craw_cdel, Ek. reflexivity.
  - destruct (k' =? k) eqn:Ek; [apply Z.eqb_eq in Ek; subst k'; exact E|reflexivity].
Qed.

Lemma ctok_ok_cput_dl now vu c key v :
  ctok_ok c -> (0 <= key < FRESH -> mtok v = key) -> ctok_ok (cput_dl now vu c key v).
Proof.
  intros H Hv k dl cm Hk. unfold cput_dl. destruct (cload now c key).
  - rewrite craw_cupdate. destruct (k =? key) eqn:Ek.
    + apply Z.eqb_eq in Ek. subst k. destruct (craw c key) as [[dl' x]|]; [|discriminate].
      intros E. injection E as _ <-. exact (Hv Hk).
    + apply H; exact Hk.
  - rewrite craw_cstore. destruct (k =? key) eqn:Ek.
    + apply Z.eqb_eq in Ek. subst k. intros E. injection E as _ <-. exact (Hv Hk).
    + apply H; exact Hk.
Qed.

Lemma reasm_tok cm r off : mtok (fst (reasm cm r off)) = mtok cm.
Proof.
  unfold reasm. destruct (metag r) as [a|]; [destruct (metag cm) as [c0|]|].
  - destruct (a =? c0); cbn [fst]; match goal with |- context [if ?b then _ else _] => destruct b end; reflexivity.
  - cbn [fst]. match goal with |- context [if ?b then _ else _] => destruct b end; reflexivity.
  - cbn [fst]. match goal with |- context [if ?b then _ else _] => destruct b end; reflexivity.
Qed.

Lemma cload_craw now c k v : cload now c k = Some v -> exists dl, craw c k = Some (dl, v).
Proof. unfold cload. destruct (craw c k) as [[dl x]|]; [|discriminate]. destruct (expired now dl); [discriminate|]. intros E; injection E as <-. exists dl; reflexivity. Qed.

(* processReceivedMessage never touches the sending element of an application token *)
Lemma dprocess_parked app now sctx e r mx isb1 :
  counters_ok e -> ctok_ok (trcv e) ->
  let '(e1, o, d) := dprocess_received app now sctx e r mx isb1 in
  (forall k, 0 <= k < FRESH -> craw (tsnd e1) k = craw (tsnd e) k) /\ counters_ok e1 /\ ctok_ok (trcv e1).
Proof.
  intros Hc Hr. unfold dprocess_received.
  destruct ((mcode r =? GET) || (mcode r =? DELETE)); [split; [reflexivity|split; assumption]|].
  destruct (if isb1 then mb1 r else mb2 r) as [b|].
  2:{ destruct (isb1 && _); (split; [reflexivity|split; assumption]). }
  cbv zeta.
  destruct (if isb1 then false else match tget_sent_request e (mtok r) with None => true | Some _ => false end);
    [split; [reflexivity|split; assumption]|].
  assert (Hobs : forall k, 0 <= k < FRESH ->
            let '(e0, key, ok) := tobserve_key now e r b (tget_sent_request e (mtok r)) in
            craw (tsnd e0) k = craw (tsnd e) k /\ counters_ok e0 /\ trcv e0 = trcv e /\ (key = mtok r \/ FRESH <= key \/ key < 0)).
  { intros k Hk. pose proof (tobserve_key_snd now e r b (tget_sent_request e (mtok r)) k) as H.
    destruct (tobserve_key now e r b (tget_sent_request e (mtok r))) as [[e0 key] ok]. exact (H Hc Hk). }
  destruct (tobserve_key now e r b (tget_sent_request e (mtok r))) as [[e0 key] obs_ok].
  assert (Hk0 : 0 <= 0 < FRESH) by (unfold FRESH; lia).
  destruct (Hobs 0 Hk0) as (_ & Hc0 & Hr0 & Hkey).
  assert (Hs0 : forall k, 0 <= k < FRESH -> craw (tsnd e0) k = craw (tsnd e) k) by (intros k Hk; apply (Hobs k Hk)).
  assert (Hrc0 : ctok_ok (trcv e0)) by (rewrite Hr0; exact Hr).
  clear Hobs.
  destruct (negb obs_ok); [split; [exact Hs0|split; assumption]|].
  assert (Hkk : 0 <= key < FRESH -> key = mtok r).
  { intros Hk. destruct Hkey as [H|[H|H]]; [exact H|lia|lia]. }
  assert (Hbody : forall cm szx0, (0 <= key < FRESH -> mtok cm = key) ->
    let off := bnum b * size szx0 in
    let '(cm', appended) := reasm cm r off in
    let vu := if is_observe_response r then now + EXP
              else valid_until now match tget_sent_request e (mtok r) with Some _ => sctx | None => None end in
    let e2 := with_trcv e0 (cput_dl now vu (trcv e0) key cm') in
    let res :=
      if appended && negb (bmore b) then
        let full := set_block isb1 cm' None None in
        let e3 := with_trcv e2 (cdel (trcv e2) key) in
        let e4 := if mtok cm' =? key then e3 else with_tsnd e3 (cdel (tsnd e3) key) in
        (e4, Out (app (mtok r) full), [full])
      else
        let szx := Z.min szx0 mx in
        let psize := blen (mbody cm') in
        if refuse_restart isb1 (psize / size szx) (tget_sent_request e (mtok r)) then (with_trcv e2 (cdel (trcv e2) key), Fail, [])
        else
        let sm :=
          if isb1 then
            {| mcode := Continue; mtok := key; mb1 := Some {| bszx := szx; bnum := bnum b; bmore := bmore b |};
               mb2 := None; ms1 := None; ms2 := None; metag := None; mobs := None; mother := []; mbody := [] |}
          else match tget_sent_request e (mtok r) with
               | Some sr =>
                 {| mcode := mcode sr; mtok := key; mb1 := None;
                    mb2 := Some {| bszx := szx; bnum := psize / size szx; bmore := bmore b |};
                    ms1 := None; ms2 := ms2 sr; metag := metag sr; mobs := None; mother := mother sr; mbody := [] |}
               | None => entity_incomplete key
               end in
        (e2, Out (Some sm), []) in
    let '(e1, o, d) := res in
    (forall k, 0 <= k < FRESH -> craw (tsnd e1) k = craw (tsnd e) k) /\ counters_ok e1 /\ ctok_ok (trcv e1)).
  { intros cm szx0 Hcm. cbv zeta.
    pose proof (reasm_tok cm r (bnum b * size szx0)) as Htok.
    destruct (reasm cm r (bnum b * size szx0)) as [cm' appended]. cbn [fst] in Htok.
    assert (Hput : forall vu, ctok_ok (cput_dl now vu (trcv e0) key cm')).
    { intros vu. apply ctok_ok_cput_dl; [exact Hrc0|]. intros Hk. rewrite Htok. exact (Hcm Hk). }
    destruct (appended && negb (bmore b)).
    - destruct (mtok cm' =? key) eqn:Et.
      + split; [exact Hs0|]. split; [exact Hc0|]. cbn [trcv with_trcv]. apply ctok_ok_cdel, Hput.
      + split; [|split; [exact Hc0|cbn [trcv with_trcv with_tsnd]; apply ctok_ok_cdel, Hput]].
        intros k Hk. cbn [tsnd with_tsnd with_trcv]. rewrite craw_cdel.
        destruct (k =? key) eqn:Ek; [|exact (Hs0 k Hk)].
        exfalso. apply Z.eqb_eq in Ek. subst key. apply Z.eqb_neq in Et. apply Et. rewrite Htok. exact (Hcm Hk).
    - destruct (refuse_restart _ _ _).
      + split; [exact Hs0|]. split; [exact Hc0|]. cbn [trcv with_trcv]. apply ctok_ok_cdel, Hput.
      + split; [exact Hs0|]. split; [exact Hc0|]. cbn [trcv with_trcv]. apply Hput. }
  destruct (cload now (trcv e0) key) as [c0|] eqn:El.
  - assert (Hc0tok : 0 <= key < FRESH -> mtok c0 = key).
    { intros Hk. destruct (cload_craw _ _ _ _ El) as [dl0 E0]. exact (Hrc0 key dl0 c0 Hk E0). }
    specialize (Hbody c0 (bszx b) Hc0tok). cbv zeta in Hbody.
    destruct (bmore b); exact Hbody.
  - destruct (bmore b) eqn:Emore.
    + assert (Hrt : 0 <= key < FRESH -> mtok (set_body r []) = key) by (intros Hk; cbn [mtok set_body]; symmetry; exact (Hkk Hk)).
      specialize (Hbody (set_body r []) (Z.min (bszx b) mx) Hrt). cbv zeta in Hbody. exact Hbody.
    + destruct (negb (bnum b =? 0)); (split; [exact Hs0|split; assumption]).
Qed.

(* Handle and the live sending elements under application tokens *)
Section Parked.
  Variable app : Z -> msg -> option msg.
  Variable now : Z.
  Variable sctx : option Z.

  Definition parked_kept (e e' : tep) : Prop :=
    forall k dl m, 0 <= k < FRESH -> craw (tsnd e) k = Some (dl, m) -> expired now dl = false ->
                   craw (tsnd e') k = Some (dl, m).

  Lemma tstart_sending_parked e w mx mm b :
    counters_ok e ->
    let '(e', o) := tstart_sending now e w mx mm b in
    parked_kept e e' /\ counters_ok e' /\ trcv e' = trcv e.
  Proof.
    intros Hc. pose proof (fun k => tstart_sending_snd now e w mx mm b k) as Hs.
    destruct (tstart_sending now e w mx mm b) as [e' o].
    split; [|exact (proj2 (Hs 0 Hc))].
    intros k dl m Hk Hraw Hlive. destruct (Hs k Hc) as [[H|[H _]] _].
    - rewrite H. exact Hraw.
    - rewrite (cload_live now _ _ _ _ Hraw Hlive) in H. discriminate.
  Qed.

  Lemma dhandle_received_parked e r :
    counters_ok e -> ctok_ok (trcv e) ->
    let '(e', o, d) := dhandle_received app now sctx e r in
    parked_kept e e' /\ counters_ok e' /\ ctok_ok (trcv e').
  Proof.
    intros Hc Hr. unfold dhandle_received.
    destruct ((mcode r =? 0) || ((225 <=? mcode r) && (mcode r <=? 229))).
    { split; [intros k dl m _ H _; exact H|split; assumption]. }
    destruct ((mcode r =? GET) || (mcode r =? DELETE)).
    { match goal with |- context [tstart_sending now e ?w ?mx ?mm ?b] =>
        pose proof (tstart_sending_parked e w mx mm b Hc) as Hs; destruct (tstart_sending now e w mx mm b) as [e' o] end.
      destruct Hs as (H1 & H2 & H3). split; [exact H1|]. split; [exact H2|]. rewrite H3. exact Hr. }
    match goal with |- context [dprocess_received app now sctx e r ?mx ?i] =>
      pose proof (dprocess_parked app now sctx e r mx i Hc Hr) as Hp; destruct (dprocess_received app now sctx e r mx i) as [[e1 o] d] end.
    destruct Hp as (Hs1 & Hc1 & Hr1).
    destruct o as [w|].
    2:{ split; [|split; assumption]. intros k dl m Hk H _. rewrite (Hs1 k Hk). exact H. }
    match goal with |- context [tstart_sending now e1 ?w ?mx ?mm ?b] =>
      pose proof (tstart_sending_parked e1 w mx mm b Hc1) as Hs; destruct (tstart_sending now e1 w mx mm b) as [e2 o2] end.
    destruct Hs as (H1 & H2 & H3). split; [|split; [exact H2|rewrite H3; exact Hr1]].
    intros k dl m Hk H Hl. apply H1; [exact Hk| |exact Hl]. rewrite (Hs1 k Hk). exact H.
  Qed.

  (* THE step statement: every live element under an application token is afterwards exactly what it was,
     or gone; gone only if the message is a continuation request for that token (not handed to the
     application) that ends the transfer: an error, or the last block of a response *)
  Lemma dhandle_parked e r :
    counters_ok e -> ctok_ok (trcv e) ->
    let '(e', w, d, nerr) := dhandle app now sctx e r in
    (forall k dl m, 0 <= k < FRESH -> craw (tsnd e) k = Some (dl, m) -> expired now dl = false ->
       craw (tsnd e') k = Some (dl, m) \/
       (craw (tsnd e') k = None /\ mtok r = k /\ wants_to_be_received r = false /\ d = [] /\
        (nerr = 1 \/ DELETE < mcode m))) /\
    counters_ok e' /\ ctok_ok (trcv e').
  Proof.
    intros Hc Hr. unfold dhandle.
    pose proof (dhandle_received_parked e r Hc Hr) as Hrecv.
    destruct (dhandle_received app now sctx e r) as [[e1 o] d].
    assert (Hrecv' : let '(e', w, d0, nerr) := match o with
                                               | Out w => (e1, w, d, 0)
                                               | Fail => (e1, Some (entity_incomplete (mtok r)), d, 1)
                                               end in
      (forall k dl m, 0 <= k < FRESH -> craw (tsnd e) k = Some (dl, m) -> expired now dl = false ->
         craw (tsnd e') k = Some (dl, m) \/
         (craw (tsnd e') k = None /\ mtok r = k /\ wants_to_be_received r = false /\ d0 = [] /\
          (nerr = 1 \/ DELETE < mcode m))) /\
      counters_ok e' /\ ctok_ok (trcv e')).
    { destruct Hrecv as (H1 & H2 & H3). destruct o; (split; [|split; assumption]); intros k dl m Hk H Hl; left; exact (H1 k dl m Hk H Hl). }
    destruct (cload now (tsnd e) (mtok r)) as [orig|] eqn:El; [|exact Hrecv'].
    destruct (wants_to_be_received r) eqn:Ew; [exact Hrecv'|].
    clear Hrecv Hrecv'.
    unfold tcontinue_sending.
    assert (Hdel : forall k dl m, craw (tsnd e) k = Some (dl, m) ->
              craw (tsnd (with_tsnd e (cdel (tsnd e) (mtok r)))) k = Some (dl, m) \/
              (craw (tsnd (with_tsnd e (cdel (tsnd e) (mtok r)))) k = None /\ mtok r = k)).
    { intros k dl m H. cbn [tsnd with_tsnd]. rewrite craw_cdel. destruct (k =? mtok r) eqn:E.
      - right. split; [reflexivity|]. apply Z.eqb_eq in E. congruence.
      - left. exact H. }
    destruct (if is_upload (mcode orig) then mb1 r else mb2 r) as [b|].
    2:{ split; [|split; assumption]. intros k dl m Hk H Hl. destruct (Hdel k dl m H) as [H'|[H1 H2]]; [left; exact H'|].
        right. repeat split; try assumption; try reflexivity. left; reflexivity. }
    destruct (create_sending orig (tszx e) (tmax e) b) as [[sm more]|].
    2:{ split; [|split; assumption]. intros k dl m Hk H Hl. destruct (Hdel k dl m H) as [H'|[H1 H2]]; [left; exact H'|].
        right. repeat split; try assumption; try reflexivity. left; reflexivity. }
    destruct (negb more && (DELETE <? mcode orig)) eqn:Ed.
    - split; [|split; assumption]. intros k dl m Hk H Hl. destruct (Hdel k dl m H) as [H'|[H1 H2]]; [left; exact H'|].
      right. repeat split; try assumption; try reflexivity. right.
      assert (orig = m).
      { rewrite H2, (cload_live now _ _ _ _ H Hl) in El. injection El as <-. reflexivity. }
      subst orig. apply andb_true_iff in Ed. destruct Ed as [_ Ed]. apply Z.ltb_lt in Ed. exact Ed.
    - split; [|split; assumption]. intros k dl m Hk H Hl. left. exact H.
  Qed.
End Parked.

(* the same for Handle of Timed.v *)
Corollary thandle_parked app now e r :
  counters_ok e -> ctok_ok (trcv e) ->
  let '(e', w, d, nerr) := thandle app now e r in
  (forall k dl m, 0 <= k < FRESH -> craw (tsnd e) k = Some (dl, m) -> expired now dl = false ->
     craw (tsnd e') k = Some (dl, m) \/
     (craw (tsnd e') k = None /\ mtok r = k /\ wants_to_be_received r = false /\ d = [] /\
      (nerr = 1 \/ DELETE < mcode m))) /\
  counters_ok e' /\ ctok_ok (trcv e').
Proof. intros Hc Hr. rewrite <- dhandle_none. exact (dhandle_parked app now None e r Hc Hr). Qed.

(* in particular: a REQUEST that reaches the application (GET / DELETE always do; POST / PUT without a Block
   option or completing an upload) while a message is parked under its token: whatever the application
   answers, the parked message stays *)
Corollary request_keeps_parked app now e r dl m :
  counters_ok e -> ctok_ok (trcv e) -> 0 <= mtok r < FRESH ->
  craw (tsnd e) (mtok r) = Some (dl, m) -> expired now dl = false ->
  let '(e', w, d, nerr) := thandle app now e r in
  d <> [] -> craw (tsnd e') (mtok r) = Some (dl, m).
Proof.
  intros Hc Hr Hk Hraw Hl. pose proof (thandle_parked app now e r Hc Hr) as H.
  destruct (thandle app now e r) as [[[e' w] d] nerr]. destruct H as (H & _).
  intros Hd. destruct (H (mtok r) dl m Hk Hraw Hl) as [H1|(_ & _ & _ & H2 & _)]; [exact H1|contradiction].
Qed.

(* ------------------------------------------------------------------------ *)
(* 3. every script: B's parked messages                                       *)

Definition b_inv (w : tworld) : Prop := twf (twb w) /\ counters_ok (twb w) /\ ctok_ok (trcv (twb w)).

(* every element of [e] under an application token that is valid at [now] is in [e'] as it was, or gone *)
Definition same_or_gone (now : Z) (e e' : tep) : Prop :=
  forall k dl m, 0 <= k < FRESH -> craw (tsnd e) k = Some (dl, m) -> expired now dl = false ->
                 craw (tsnd e') k = Some (dl, m) \/ craw (tsnd e') k = None.

Lemma same_or_gone_refl now e : same_or_gone now e e.
Proof. intros k dl m _ H _. left; exact H. Qed.

Definition b_step_ok (w w' : tworld) : Prop := b_inv w' /\ same_or_gone (tnow w) (twb w) (twb w') /\ tnow w <= tnow w'.

Lemma b_step_same w w' : b_inv w -> twb w' = twb w -> tnow w' = tnow w -> b_step_ok w w'.
Proof. intros H E T. unfold b_step_ok, b_inv. rewrite E, T. split; [exact H|]. split; [apply same_or_gone_refl|lia]. Qed.

Lemma twb_temit w d o : twb (temit w d o) = twb w. Proof. destruct o; reflexivity. Qed.
Lemma tnow_temit w d o : tnow (temit w d o) = tnow w. Proof. destruct o; reflexivity. Qed.

Lemma b_sweep w t : b_inv w -> b_step_ok w (with_tb w (tsweep t (twb w))).
Proof.
  intros (Hwf & Hc & Hr). destruct (csub_tsweep t (twb w) Hwf) as [S1 S2].
  split; [|split; [|cbn [tnow with_tb]; lia]].
  - unfold b_inv. cbn [twb with_tb]. split; [apply twf_tsweep; exact Hwf|]. split.
    + destruct (tsweep_counters t (twb w)) as [E1 E2]. unfold counters_ok. rewrite E1, E2. exact Hc.
    + eapply ctok_ok_sub; [exact S2|exact Hr].
  - intros k dl m _ H _. cbn [twb with_tb]. destruct (craw (tsnd (tsweep t (twb w))) k) as [x|] eqn:E; [|right; reflexivity].
    left. rewrite (S1 _ _ E) in H. exact H.
Qed.

Lemma b_write_start c w x :
  b_inv w ->
  b_step_ok w (fst (let '(e', o) := twrite_start (tnow w) (twb w) (tnotification_of c w x) in
                    match o with
                    | Out m => tstarted (with_tb w e') false m [(0, 0)]
                    | Fail => tstarted (with_tb w e') false None [(0, 1)]
                    end)).
Proof.
  intros (Hwf & Hc & Hr). unfold twrite_start.
  match goal with |- context [tstart_sending ?n ?e ?m ?mx ?mm ?b] =>
    pose proof (tstart_sending_parked n e m mx mm b Hc) as Hs;
    pose proof (tstart_sending_sim n e m mx mm b Hwf) as Hw;
    destruct (tstart_sending n e m mx mm b) as [e' o] end.
  destruct Hs as (H1 & H2 & H3). destruct Hw as (_ & _ & Hwf' & _).
  assert (G : forall mm rets, b_step_ok w (fst (tstarted (with_tb w e') false mm rets))).
  { intros mm rets. unfold tstarted. cbn [fst]. split; [|split].
    - unfold b_inv. rewrite twb_temit. cbn [twb with_tb]. split; [exact Hwf'|]. split; [exact H2|rewrite H3; exact Hr].
    - rewrite twb_temit. cbn [twb with_tb]. intros k dl m Hk H Hl. left. exact (H1 k dl m Hk H Hl).
    - rewrite tnow_temit. cbn [tnow with_tb]. lia. }
  destruct o; apply G.
Qed.

Lemma b_arrive c w toB m : b_inv w -> b_step_ok w (fst (tarrive c w toB m)).
Proof.
  intros (Hwf & Hc & Hr). unfold tarrive. destruct toB.
  - pose proof (thandle_parked (app_b c (tvers w)) (tnow w) (twb w) m Hc Hr) as Hp.
    pose proof (thandle_sim (app_b c (tvers w)) (tnow w) (twb w) m Hwf) as Hs.
    destruct (thandle (app_b c (tvers w)) (tnow w) (twb w) m) as [[[e' o] d] nerr].
    destruct Hp as (H1 & H2 & H3). destruct Hs as (_ & _ & Hwf' & _). cbn [fst].
    split; [|split].
    + unfold b_inv. rewrite twb_temit. cbn [twb with_tb]. split; [exact Hwf'|split; assumption].
    + rewrite twb_temit. cbn [twb with_tb]. intros k dl x Hk H Hl.
      destruct (H1 k dl x Hk H Hl) as [G|[G _]]; [left; exact G|right; exact G].
    + rewrite tnow_temit. cbn [tnow with_tb]. lia.
  - destruct (thandle app_a (tnow w) (twa w) m) as [[[e' o] d] nerr].
    destruct (tcomplete (tpending w) d e') as [[p' e''] rets]. cbn [fst].
    apply b_step_same; [split; [exact Hwf|split; assumption]| |].
    + rewrite twb_temit. reflexivity.
    + rewrite tnow_temit. reflexivity.
Qed.

Lemma b_step c w te : b_inv w -> b_step_ok w (fst (tstep c w te)).
Proof.
  intros Hb. destruct te as [e|d|atB].
  - destruct e as [i|j|j|j|h|k|i|atB]; cbn [tstep].
    + destruct (nth_error (cexch c) i) as [x|]; [|apply b_step_same; [exact Hb|reflexivity|reflexivity]].
      destruct (xkind x =? 0).
      { destruct (tdo_start (tnow w) (twa w) (request_of x)) as [e' o]. destruct o; unfold tstarted; cbn [fst];
          (apply b_step_same; [exact Hb|rewrite twb_temit; reflexivity|rewrite tnow_temit; reflexivity]). }
      destruct (xkind x =? 1).
      { destruct (twrite_start (tnow w) (twa w) (request_of x)) as [e' o]. destruct o; unfold tstarted; cbn [fst];
          (apply b_step_same; [exact Hb|rewrite twb_temit; reflexivity|rewrite tnow_temit; reflexivity]). }
      pose proof (b_write_start c w x Hb) as H.
      destruct (twrite_start (tnow w) (twb w) (tnotification_of c w x)) as [e' o].
      destruct o as [mm|]; unfold b_step_ok, tstarted in *; cbn [fst] in *; exact H.
    + destruct (nth_error (tflight w) j) as [[toB m]|]; [|apply b_step_same; [exact Hb|reflexivity|reflexivity]].
      exact (b_arrive c (with_tflight w (remove_nth j (tflight w))) toB m Hb).
    + destruct (nth_error (tflight w) j) as [[toB m]|]; [|apply b_step_same; [exact Hb|reflexivity|reflexivity]].
      exact (b_arrive c w toB m Hb).
    + apply b_step_same; [exact Hb|reflexivity|reflexivity].
    + destruct (nth_error (twhist w) h) as [[toB m]|]; [|apply b_step_same; [exact Hb|reflexivity|reflexivity]].
      exact (b_arrive c w toB m Hb).
    + apply b_step_same; [exact Hb|reflexivity|reflexivity].
    + destruct (find (fun p => Nat.eqb (fst p) i) (tpending w)) as [[i' t]|]; apply b_step_same; try exact Hb; reflexivity.
    + destruct atB; [exact (b_sweep w (tnow w + 2 * EXP) Hb)|apply b_step_same; [exact Hb|reflexivity|reflexivity]].
  - cbn [tstep tquiet fst]. split; [exact Hb|]. split; [apply same_or_gone_refl|cbn [tnow with_tnow]; lia].
  - cbn [tstep]. destruct atB; [exact (b_sweep w (tnow w) Hb)|apply b_step_same; [exact Hb|reflexivity|reflexivity]].
Qed.

(* the world a script leads to *)
Fixpoint treach (c : cfg) (w : tworld) (es : list tev) : tworld :=
  match es with [] => w | e :: r => treach c (fst (tstep c w e)) r end.

Lemma treach_app c es1 : forall w es2, treach c w (es1 ++ es2) = treach c (treach c w es1) es2.
Proof. induction es1 as [|e es1 IH]; intros w es2; [reflexivity|]. cbn [treach app]. apply IH. Qed.

Lemma treach_inv c es : forall w, b_inv w -> b_inv (treach c w es) /\ tnow w <= tnow (treach c w es).
Proof.
  induction es as [|e es IH]; intros w Hb; cbn [treach]; [split; [exact Hb|lia]|].
  destruct (b_step c w e Hb) as (Hb' & _ & Ht). destruct (IH _ Hb') as [H1 H2]. split; [exact H1|lia].
Qed.

Lemma b_inv_init c : b_inv (tinit c).
Proof.
  unfold b_inv, tinit, new_tep, twf, cwf, counters_ok. cbn [twb tsnd trcv tfresh thid map].
  split; [split; constructor|]. split; [lia|apply ctok_ok_nil].
Qed.

(* EVERY script from any world in which B's endpoint is well-formed: a message parked at B under an
   application token, as long as the clock has not passed its deadline, is exactly what was parked - or
   there was a moment at which the token had no element at all *)
Theorem parked_never_swapped c es : forall w k dl m,
  b_inv w -> 0 <= k < FRESH -> craw (tsnd (twb w)) k = Some (dl, m) ->
  tnow (treach c w es) <= dl ->
  craw (tsnd (twb (treach c w es))) k = Some (dl, m) \/
  exists es1 es2, es = es1 ++ es2 /\ craw (tsnd (twb (treach c w es1))) k = None.
Proof.
  induction es as [|e es IH]; intros w k dl m Hb Hk Hraw Hend; cbn [treach] in *; [left; exact Hraw|].
  destruct (b_step c w e Hb) as (Hb' & Hsg & Ht).
  destruct (treach_inv c es _ Hb') as [_ Ht'].
  assert (Hl : expired (tnow w) dl = false) by (unfold expired; apply Z.ltb_ge; lia).
  destruct (Hsg k dl m Hk Hraw Hl) as [H|H].
  - destruct (IH _ k dl m Hb' Hk H Hend) as [G|(es1 & es2 & -> & G)]; [left; exact G|].
    right. exists (e :: es1), es2. split; [reflexivity|exact G].
  - right. exists [e], es. split; [reflexivity|exact H].
Qed.

(* ... from the initial world *)
Corollary parked_never_swapped_init c es0 es k dl m :
  let w := treach c (tinit c) es0 in
  0 <= k < FRESH -> craw (tsnd (twb w)) k = Some (dl, m) ->
  tnow (treach c w es) <= dl ->
  craw (tsnd (twb (treach c w es))) k = Some (dl, m) \/
  exists es1 es2, es = es1 ++ es2 /\ craw (tsnd (twb (treach c w es1))) k = None.
Proof.
  intros w. apply parked_never_swapped. exact (proj1 (treach_inv c es0 _ (b_inv_init c))).
Qed.

(* ------------------------------------------------------------------------ *)
(* 4. the two histories (canonical cases of the harness)                      *)
From GoCoap Require Import Blockwise.Spec Blockwise.SpecTime Blockwise.Run.

(* (a) an upload of 64 bytes in blocks of 16; after two acknowledged blocks the application calls Do with
   the token in flight again *)
Definition second_do_cfg : cfg := Cfg 0 1152 0 1152 [X 0 2 7 0 5 64 None] [R 11 5 false 42] [].
Definition second_do_pre : list tev := map Ev [Start 0; Deliver 0; Deliver 0; Deliver 0].
Definition second_do_post : list tev := map Ev (repeat (Deliver 0) 5).
Definition second_do_es : list tev := second_do_pre ++ Ev (Start 0) :: second_do_post.

Lemma second_do_history :
  (* the hypothesis of second_do_invisible_t holds when the second call is made *)
  cload (tnow (treach second_do_cfg (tinit second_do_cfg) second_do_pre))
        (tsnd (twa (treach second_do_cfg (tinit second_do_cfg) second_do_pre))) 7 <> None /\
  (* the call is refused, the upload goes on: B's application is handed the 64 bytes once, the first Do
     returns ok in the last step with the 2.04 *)
  (exists o, nth_error (model_obs_t second_do_cfg second_do_es) 4 = Some o /\ o_ret o = [(0, 1)] /\ o_wire o = None) /\
  (exists o d, nth_error (model_obs_t second_do_cfg second_do_es) 8 = Some o /\ o_side o = 1 /\ o_deliv o = [d] /\
               plen d = 64 /\ psum d = csum (gen_body 5 64)) /\
  (exists o d, nth_error (model_obs_t second_do_cfg second_do_es) 9 = Some o /\ o_ret o = [(0, 0)] /\ o_deliv o = [d] /\
               pcode d = Changed) /\
  c04_class_t second_do_cfg [] second_do_es (model_obs_t second_do_cfg second_do_es) (untimed second_do_es) = 0%N.
Proof.
  split; [vm_compute; discriminate|].
  split; [eexists; split; [vm_compute; reflexivity|split; reflexivity]|].
  split; [do 2 eexists; split; [vm_compute; reflexivity|repeat split; vm_compute; reflexivity]|].
  split; [do 2 eexists; split; [vm_compute; reflexivity|repeat split; vm_compute; reflexivity]|].
  vm_compute. reflexivity.
Qed.

(* (b) a download of 75 bytes (no ETag) in blocks of 16; after two blocks the resource gets new content (78
   bytes) and a stale copy of the first request reaches B; what B answers to it is lost *)
Definition stale_cfg : cfg := Cfg 0 1152 0 1152 [X 0 1 7 0 5 0 None] [R 11 75 false 42] [].
Definition stale_pre : list tev := map Ev [Start 0; Deliver 0; Deliver 0; Deliver 0; Deliver 0; Bump 0].
Definition stale_post : list tev := map Ev (Drop 1 :: repeat (Deliver 0) 6).
Definition stale_es : list tev := stale_pre ++ Ev (Replay 0) :: stale_post.

Lemma stale_request_history :
  let w0 := treach stale_cfg (tinit stale_cfg) stale_pre in
  let w1 := treach stale_cfg w0 [Ev (Replay 0)] in
  (* B parks version 0 before and after the stale request was handled (request_keeps_parked applies) *)
  (exists m, craw (tsnd (twb w0)) 7 = Some (3600, m) /\ mbody m = res_body (R 11 75 false 42) 0 /\
             craw (tsnd (twb w1)) 7 = Some (3600, m)) /\
  (* B's application was asked again and answered with version 1; that answer is refused: 4.08, error callback *)
  (exists o r, nth_error (model_obs_t stale_cfg stale_es) 6 = Some o /\ o_side o = 1 /\ o_err o = 1 /\
               o_wire o = Some (false, r) /\ pcode r = Incomplete /\ blen (o_deliv o) = 1) /\
  (* the download ends with exactly version 0 *)
  (exists o d, nth_error (model_obs_t stale_cfg stale_es) 13 = Some o /\ o_ret o = [(0, 0)] /\ o_deliv o = [d] /\
               plen d = 75 /\ psum d = csum (res_body (R 11 75 false 42) 0)) /\
  c04_class_t stale_cfg [] stale_es (model_obs_t stale_cfg stale_es) (untimed stale_es) = 0%N.
Proof.
  cbv zeta.
  split; [eexists; split; [vm_compute; reflexivity|split; vm_compute; reflexivity]|].
  split; [do 2 eexists; split; [vm_compute; reflexivity|repeat split; vm_compute; reflexivity]|].
  split; [do 2 eexists; split; [vm_compute; reflexivity|repeat split; vm_compute; reflexivity]|].
  vm_compute. reflexivity.
Qed.

(* Non-vacuity of SpecTime's class 13: what seeded regression C04-9 makes the implementation show on the
   history (b) - the Do returns 2.05 with 78 bytes: the first 32 of version 0 followed by bytes 32.. of
   version 1 - evaluates to 13; the same trace with the 75 bytes of version 0 evaluates to 0; a body that is
   no such splice (version 0 with one byte appended) stays class 1. *)
Definition splice_obs (len sum : Z) : list obs :=
  [Ob 2 None None [] 0 [] [0; 0; 0; 0] 0;
   Ob 0 (Some (PM 69 7 None (Some (0, 0, true)) None (Some 75) None None [(12, 42)] 16 0))
      (Some (true, PM 1 7 None (Some (0, 1, true)) None None None None [(11, 0)] 0 0)) [] 0 [] [0; 0; 0; 0] 0;
   Ob 0 (Some (PM 69 7 None (Some (0, 4, false)) None (Some 78) None None [(12, 42)] 14 0)) None
      [PM 69 7 None None None None None None [(12, 42)] len sum] 0 [(0, 0)] [0; 0; 0; 0] 0].
Definition splice_es : list tev := [Ev (Bump 0); Ev (Replay 0); Ev (Replay 0)].

Lemma version_splice_reachable :
  let r := R 11 75 false 42 in
  c04_class_t stale_cfg [] splice_es
    (splice_obs 78 (csum (firstn 32 (res_body r 0) ++ skipn 32 (res_body r 1)))) (untimed splice_es) = 13%N /\
  c04_class_t stale_cfg [] splice_es (splice_obs 75 (csum (res_body r 0))) (untimed splice_es) = 0%N /\
  c04_class_t stale_cfg [] splice_es (splice_obs 76 (csum (res_body r 0 ++ [7]))) (untimed splice_es) = 1%N.
Proof. cbv zeta. repeat split; vm_compute; reflexivity. Qed.

(* class 13 refines class 1 only: a delivery that conforms is no version splice; hence on the model trace of every
   timed script of a well-formed configuration (resources that change carry an ETag) no delivery is one *)
Lemma version_splice_needs_class1 c es side d :
  delivery_class c es side d = 0%N -> version_splice_class c es side d = 0%N.
Proof. intros H. unfold version_splice_class. rewrite H. rewrite andb_false_r. reflexivity. Qed.

Theorem timed_exchange_no_version_splice c (Hwf : ProofsExchange.cfg_wf c) es :
  Forall (tbump_ok c) es ->
  Forall (fun o => Forall (fun d => version_splice_class c (untimed es) (o_side o) d = 0%N) (o_deliv o)) (model_obs_t c es).
Proof.
  intros Hb. pose proof (timed_exchange_safety_spec c Hwf es Hb) as H.
  eapply Forall_impl; [|exact H]. intros o Ho. cbv beta in *.
  eapply Forall_impl; [|exact Ho]. intros d Hd. apply version_splice_needs_class1. exact Hd.
Qed.

(* ------------------------------------------------------------------------ *)
(* 5. the same with request context deadlines (Deadline.v): B's side of [dstep] is B's side of [tstep]   *)

Lemma b_dstep c dls w te : b_inv (dw w) -> b_step_ok (dw w) (dw (fst (dstep c dls w te))).
Proof.
  intros Hb.
  assert (Hlift : forall r, b_step_ok (dw w) (fst r) -> b_step_ok (dw w) (dw (fst (dlift w r)))).
  { intros r H. exact H. }
  assert (Harr : forall tw toB m, twb tw = twb (dw w) -> tnow tw = tnow (dw w) ->
            b_step_ok (dw w) (dw (fst (darrive c w tw toB m)))).
  { intros tw toB m E T. assert (Hb' : b_inv tw) by (unfold b_inv; rewrite E; exact Hb).
    unfold darrive. destruct toB.
    - pose proof (b_arrive c tw true m Hb') as H. destruct (tarrive c tw true m) as [tw' o]. cbn [fst dw] in *.
      unfold b_step_ok in *. rewrite E, T in H. exact H.
    - unfold darrive_a. cbn [dw dctx].
      destruct (dhandle app_a (tnow tw) (sent_ctx {| dw := tw; dctx := dctx w |} (mtok m)) (twa tw) m) as [[[e' o] d] nerr].
      destruct (tcomplete (tpending tw) d e') as [[p' e''] rets]. cbn [fst dw].
      apply b_step_same; [exact Hb|rewrite twb_temit; exact E|rewrite tnow_temit; exact T]. }
  destruct te as [e|d|atB]; [|exact (Hlift _ (b_step c (dw w) (Age d) Hb))|exact (Hlift _ (b_step c (dw w) (Sweep atB) Hb))].
  destruct e as [i|j|j|j|h|k|i|atB]; cbn [dstep].
  - destruct (nth_error (cexch c) i) as [x|] eqn:Ex; [|exact (Hlift _ (b_step c (dw w) (Ev (Start i)) Hb))].
    destruct (xkind x =? 0); [|exact (Hlift _ (b_step c (dw w) (Ev (Start i)) Hb))].
    destruct (ddo_start _ _ (twa (dw w)) (request_of x)) as [e' o]. destruct o; unfold dlift, tstarted; cbn [fst snd dw];
      (apply b_step_same; [exact Hb|rewrite twb_temit; reflexivity|rewrite tnow_temit; reflexivity]).
  - destruct (nth_error (tflight (dw w)) j) as [[toB m]|]; [apply Harr; reflexivity|].
    apply Hlift. cbn [tquiet fst]. apply b_step_same; [exact Hb|reflexivity|reflexivity].
  - destruct (nth_error (tflight (dw w)) j) as [[toB m]|]; [apply Harr; reflexivity|].
    apply Hlift. cbn [tquiet fst]. apply b_step_same; [exact Hb|reflexivity|reflexivity].
  - exact (Hlift _ (b_step c (dw w) (Ev (Drop j)) Hb)).
  - destruct (nth_error (twhist (dw w)) h) as [[toB m]|]; [apply Harr; reflexivity|].
    apply Hlift. cbn [tquiet fst]. apply b_step_same; [exact Hb|reflexivity|reflexivity].
  - exact (Hlift _ (b_step c (dw w) (Ev (Bump k)) Hb)).
  - exact (Hlift _ (b_step c (dw w) (Ev (Timeout i)) Hb)).
  - exact (Hlift _ (b_step c (dw w) (Ev (Expire atB)) Hb)).
Qed.

Fixpoint dreach_w (c : cfg) (dls : deadlines) (w : dworld) (es : list tev) : dworld :=
  match es with [] => w | e :: r => dreach_w c dls (fst (dstep c dls w e)) r end.

Lemma dreach_inv c dls es : forall w, b_inv (dw w) -> b_inv (dw (dreach_w c dls w es)) /\ tnow (dw w) <= tnow (dw (dreach_w c dls w es)).
Proof.
  induction es as [|e es IH]; intros w Hb; cbn [dreach_w]; [split; [exact Hb|lia]|].
  destruct (b_dstep c dls w e Hb) as (Hb' & _ & Ht). destruct (IH _ Hb') as [H1 H2]. split; [exact H1|lia].
Qed.

Theorem parked_never_swapped_d c dls es : forall w k dl m,
  b_inv (dw w) -> 0 <= k < FRESH -> craw (tsnd (twb (dw w))) k = Some (dl, m) ->
  tnow (dw (dreach_w c dls w es)) <= dl ->
  craw (tsnd (twb (dw (dreach_w c dls w es)))) k = Some (dl, m) \/
  exists es1 es2, es = es1 ++ es2 /\ craw (tsnd (twb (dw (dreach_w c dls w es1)))) k = None.
Proof.
  induction es as [|e es IH]; intros w k dl m Hb Hk Hraw Hend; cbn [dreach_w] in *; [left; exact Hraw|].
  destruct (b_dstep c dls w e Hb) as (Hb' & Hsg & Ht).
  destruct (dreach_inv c dls es _ Hb') as [_ Ht'].
  assert (Hl : expired (tnow (dw w)) dl = false) by (unfold expired; apply Z.ltb_ge; lia).
  destruct (Hsg k dl m Hk Hraw Hl) as [H|H].
  - destruct (IH _ k dl m Hb' Hk H Hend) as [G|(es1 & es2 & -> & G)]; [left; exact G|].
    right. exists (e :: es1), es2. split; [reflexivity|exact G].
  - right. exists [e], es. split; [reflexivity|exact H].
Qed.

Corollary parked_never_swapped_d_init c dls es0 es k dl m :
  let w := dreach_w c dls (dinit c) es0 in
  0 <= k < FRESH -> craw (tsnd (twb (dw w))) k = Some (dl, m) ->
  tnow (dw (dreach_w c dls w es)) <= dl ->
  craw (tsnd (twb (dw (dreach_w c dls w es)))) k = Some (dl, m) \/
  exists es1 es2, es = es1 ++ es2 /\ craw (tsnd (twb (dw (dreach_w c dls w es1)))) k = None.
Proof.
  intros w. apply parked_never_swapped_d. exact (proj1 (dreach_inv c dls es0 (dinit c) (b_inv_init c))).
Qed.
