(* C04 with request context deadlines: Blockwise/Deadline.v.

   1. without deadlines the run is Timed.trun (all theorems of ProofsTimed.v are about the model the
      correspondence compares with);
   2. one Handle step never changes the validity or the data of a LIVE element of the sending cache:
      it stays as it is or is removed, and it is removed only with an error callback / a delivery
      for its own token (or after the last block of a response) - the statement seeded regression
      C04-6 falsifies (continueSendingMessage re-stamped the element it served a block from);
   3. ALL scripts (faults, ageing, sweeps, deadlines): while an exchange started by Do is in good
      standing (SpecTime.standing: inside its deadline, nothing swept at A, no error and no delivery for
      its token) the element Do stored is in A's sending cache with exactly the deadline Do gave it;
      hence no Do in good standing ever returns with a 2.31 Continue (class 10 never occurs on the
      model's trace);
   4. the other class (11) is real: two histories. *)
From Coq Require Import ZArith NArith List Bool Lia.
From GoCoap Require Import Base.Bytes Gen.BlockConsts Block.Model Blockwise.Config Blockwise.Model
  Blockwise.Spec Blockwise.Proofs Blockwise.Timed Blockwise.SpecTime Blockwise.Deadline Blockwise.Run
  Blockwise.ProofsExchange Blockwise.ProofsTimed.
Import ListNotations.
Open Scope Z_scope.

(* ------------------------------------------------------------------------ *)
(* 1. no deadlines: Timed.v                                                   *)

Lemma cput_dl_exp now c k v : cput_dl now (now + EXP) c k v = cput now c k v.
Proof. reflexivity. Qed.

Lemma dprocess_received_none app now e r mx isb1 :
  dprocess_received app now None e r mx isb1 = tprocess_received app now e r mx isb1.
Proof.
  unfold dprocess_received, tprocess_received.
  assert (H : (if is_observe_response r then now + EXP
               else valid_until now match tget_sent_request e (mtok r) with Some _ => None | None => None end) = now + EXP).
  { destruct (is_observe_response r); [reflexivity|]. destruct (tget_sent_request e (mtok r)); reflexivity. }
  cbv zeta. rewrite H. reflexivity.
Qed.

Lemma dhandle_received_none app now e r : dhandle_received app now None e r = thandle_received app now e r.
Proof. unfold dhandle_received, thandle_received. rewrite dprocess_received_none. reflexivity. Qed.

Lemma dhandle_none app now e r : dhandle app now None e r = thandle app now e r.
Proof. unfold dhandle, thandle. rewrite dhandle_received_none. reflexivity. Qed.

Lemma ddo_start_none now e r : ddo_start now None e r = tdo_start now e r.
Proof. reflexivity. Qed.

Lemma sent_ctx_nil tw tok : sent_ctx {| dw := tw; dctx := [] |} tok = None.
Proof. unfold sent_ctx. cbn [dw dctx]. destruct (craw _ _); reflexivity. Qed.

Lemma darrive_nil c tw tw' toB m :
  darrive c {| dw := tw; dctx := [] |} tw' toB m = dlift {| dw := tw; dctx := [] |} (tarrive c tw' toB m).
Proof.
  unfold darrive, dlift. destruct toB.
  - destruct (tarrive c tw' true m) as [x o]. reflexivity.
  - unfold darrive_a, tarrive. cbn [dw dctx]. rewrite sent_ctx_nil, dhandle_none.
    destruct (thandle app_a (tnow tw') (twa tw') m) as [[[e' o] d] nerr].
    destruct (tcomplete (tpending tw') d e') as [[p' e''] rets]. reflexivity.
Qed.

Lemma dstep_nil c tw te :
  dstep c [] {| dw := tw; dctx := [] |} te = dlift {| dw := tw; dctx := [] |} (tstep c tw te).
Proof.
  unfold dstep. cbn [dw dctx].
  destruct te as [e|d|atB]; [|reflexivity|reflexivity].
  destruct e as [i|j|j|j|h|k|i|atB]; try reflexivity.
  - (* Start *) cbn [tstep]. destruct (nth_error (cexch c) i) as [x|]; [|reflexivity].
    destruct (xkind x =? 0); [|reflexivity].
    cbn [nassoc]. rewrite ddo_start_none.
    destruct (tdo_start (tnow tw) (twa tw) (request_of x)) as [e' [m|]]; reflexivity.
  - cbn [tstep]. destruct (nth_error (tflight tw) j) as [[toB m]|]; [apply darrive_nil|reflexivity].
  - cbn [tstep]. destruct (nth_error (tflight tw) j) as [[toB m]|]; [apply darrive_nil|reflexivity].
  - cbn [tstep]. destruct (nth_error (twhist tw) h) as [[toB m]|]; [apply darrive_nil|reflexivity].
Qed.

Lemma drun_nil c tw es : drun c [] {| dw := tw; dctx := [] |} es = trun c tw es.
Proof.
  revert tw. induction es as [|te es IH]; intros tw; [reflexivity|].
  cbn [drun trun]. rewrite dstep_nil. unfold dlift.
  destruct (tstep c tw te) as [tw' o]. cbn [fst snd]. rewrite IH. reflexivity.
Qed.

Theorem deadline_conservative c es : drun c [] (dinit c) es = trun c (tinit c) es.
Proof. apply drun_nil. Qed.

(* ------------------------------------------------------------------------ *)
(* 2. one Handle step and a live element of the sending cache                 *)

Definition counters_ok (e : tep) : Prop := 0 <= tfresh e /\ 0 <= thid e.

Lemma create_sending_tok orig mx mm b sm more : create_sending orig mx mm b = Some (sm, more) -> mtok sm = mtok orig.
Proof.
  unfold create_sending. destruct (blen (mbody orig) <? _); [discriminate|]. intros H. injection H as <- _. reflexivity.
Qed.

Lemma cload_live now c k dl m : craw c k = Some (dl, m) -> expired now dl = false -> cload now c k = Some m.
Proof. intros H E. unfold cload. rewrite H, E. reflexivity. Qed.

(* startSendingMessage: the sending cache changes only by a store under the token of the message written,
   and only if no live element is there *)
Lemma tstart_sending_snd now e w mx mm b k :
  let '(e', o) := tstart_sending now e w mx mm b in
  counters_ok e ->
  (craw (tsnd e') k = craw (tsnd e) k \/
   (cload now (tsnd e) k = None /\ exists wm, w = Some wm /\ mtok wm = k)) /\ counters_ok e' /\ trcv e' = trcv e.
Proof.
  unfold tstart_sending. destruct w as [wm|]; [|intros Hc; split; [left; reflexivity|split; [exact Hc|reflexivity]]].
  destruct (blen (mbody wm) <? size mx); [intros Hc; split; [left; reflexivity|split; [exact Hc|reflexivity]]|].
  destruct (create_sending wm mx mm b) as [[sm more]|] eqn:Ecs; [|intros Hc; split; [left; reflexivity|split; [exact Hc|reflexivity]]].
  destruct (is_observe_response sm); [intros Hc; split; [left; reflexivity|split; [exact Hc|reflexivity]]|].
  destruct (cload now (tsnd e) (mtok sm)) eqn:El; [intros Hc; split; [left; reflexivity|split; [exact Hc|reflexivity]]|].
  intros Hc. split; [|split; [exact Hc|reflexivity]].
  cbn [tsnd with_tsnd]. rewrite craw_cstore. destruct (k =? mtok sm) eqn:Ek; [|left; reflexivity].
  apply Z.eqb_eq in Ek. subst k. right. split; [exact El|]. exists wm. split; [reflexivity|].
  symmetry. eapply create_sending_tok; exact Ecs.
Qed.

(* handleObserveResponse stores under a private token *)
Lemma tobserve_key_snd now e r b sent k :
  let '(e0, key, ok) := tobserve_key now e r b sent in
  counters_ok e -> 0 <= k < FRESH ->
  craw (tsnd e0) k = craw (tsnd e) k /\ counters_ok e0 /\ trcv e0 = trcv e /\
  (key = mtok r \/ FRESH <= key \/ key < 0).
Proof.
  unfold tobserve_key. destruct (is_observe_response r).
  2:{ intros Hc Hk. split; [reflexivity|]. split; [exact Hc|]. split; [reflexivity|left; reflexivity]. }
  destruct sent as [sr|].
  2:{ intros Hc Hk. split; [reflexivity|]. split; [exact Hc|]. split; [reflexivity|left; reflexivity]. }
  intros [Hf Hh] Hk. unfold counters_ok. unfold FRESH in *. destruct (bmore b); cbn [tsnd with_tsnd with_tcounters tfresh thid trcv].
  - rewrite craw_cstore. replace (k =? 1000 + tfresh e) with false by (symmetry; apply Z.eqb_neq; lia).
    split; [reflexivity|]. split; [split; lia|]. split; [reflexivity|right; left; lia].
  - rewrite craw_cstore. replace (k =? - (1 + thid e)) with false by (symmetry; apply Z.eqb_neq; lia).
    split; [reflexivity|]. split; [split; lia|]. split; [reflexivity|right; right; lia].
Qed.

(* processReceivedMessage: under an application token the sending cache changes only by the removal of
   the element of the message's own token, together with a delivery; a message it produces itself
   (next-block request, 2.31 Continue, 4.08) carries the cache key of the transfer *)
Lemma dprocess_snd app now sctx e r mx isb1 k :
  counters_ok e -> 0 <= k < FRESH ->
  let '(e1, o, d) := dprocess_received app now sctx e r mx isb1 in
  (craw (tsnd e1) k = craw (tsnd e) k \/ (k = mtok r /\ d <> [])) /\ counters_ok e1 /\
  (forall sm, o = Out (Some sm) -> d = [] -> mtok sm = mtok r \/ FRESH <= mtok sm \/ mtok sm < 0).
Proof.
  intros Hc Hk. unfold dprocess_received.
  destruct ((mcode r =? GET) || (mcode r =? DELETE)).
  { split; [left; reflexivity|]. split; [exact Hc|]. intros sm _ H; discriminate. }
  destruct (if isb1 then mb1 r else mb2 r) as [b|].
  2:{ destruct (isb1 && _).
      - split; [left; reflexivity|]. split; [exact Hc|]. intros sm H; discriminate.
      - split; [left; reflexivity|]. split; [exact Hc|]. intros sm _ H; discriminate. }
  cbv zeta.
  destruct (if isb1 then false else match tget_sent_request e (mtok r) with None => true | Some _ => false end).
  { split; [left; reflexivity|]. split; [exact Hc|]. intros sm H; discriminate. }
  pose proof (tobserve_key_snd now e r b (tget_sent_request e (mtok r)) k) as Hobs.
  destruct (tobserve_key now e r b (tget_sent_request e (mtok r))) as [[e0 key] obs_ok].
  destruct (Hobs Hc Hk) as (Hs0 & Hc0 & _ & Hkey). clear Hobs.
  destruct (negb obs_ok).
  { split; [left; exact Hs0|]. split; [exact Hc0|]. intros sm H; discriminate. }
  assert (Hkk : k = key -> k = mtok r).
  { intros ->. destruct Hkey as [H|[H|H]]; [exact H|unfold FRESH in *; lia|lia]. }
  (* the common part of the three branches that touch the reassembly entry *)
  assert (Hbody : forall cm szx0,
    let off := bnum b * size szx0 in
    let '(cm', appended) := reasm cm r off in
    let vu := if is_observe_response r then now + EXP
              else valid_until now match tget_sent_request e (mtok r) with Some _ => sctx | None => None end in
    let e2 := with_trcv e0 (cput_dl now vu (trcv e0) key cm') in
    let res :=
      if appended && negb (bmore b) then
        let full := set_block isb1 cm' None None in
        let e3 := with_trcv e2 (cdel (trcv e2) key) in
        let e4 := if mtok cm' =? key then e3 else with_tsnd e3 (cdel (tsnd e3) key) in
        (e4, Out (app (mtok r) full), [full])
      else
        let szx := Z.min szx0 mx in
        let psize := blen (mbody cm') in
        if refuse_restart isb1 (psize / size szx) (tget_sent_request e (mtok r)) then (with_trcv e2 (cdel (trcv e2) key), Fail, [])
        else
        let sm :=
          if isb1 then
            {| mcode := Continue; mtok := key; mb1 := Some {| bszx := szx; bnum := bnum b; bmore := bmore b |};
               mb2 := None; ms1 := None; ms2 := None; metag := None; mobs := None; mother := []; mbody := [] |}
          else match tget_sent_request e (mtok r) with
               | Some sr =>
                 {| mcode := mcode sr; mtok := key; mb1 := None;
                    mb2 := Some {| bszx := szx; bnum := psize / size szx; bmore := bmore b |};
                    ms1 := None; ms2 := ms2 sr; metag := metag sr; mobs := None; mother := mother sr; mbody := [] |}
               | None => entity_incomplete key
               end in
        (e2, Out (Some sm), []) in
    let '(e1, o, d) := res in
    (craw (tsnd e1) k = craw (tsnd e) k \/ (k = mtok r /\ d <> [])) /\ counters_ok e1 /\
    (forall sm, o = Out (Some sm) -> d = [] -> mtok sm = mtok r \/ FRESH <= mtok sm \/ mtok sm < 0)).
  { intros cm szx0. cbv zeta. destruct (reasm cm r (bnum b * size szx0)) as [cm' appended].
    destruct (appended && negb (bmore b)).
    - destruct (mtok cm' =? key).
      + split; [left; exact Hs0|]. split; [exact Hc0|]. intros sm _ H; discriminate.
      + cbn [tsnd with_tsnd with_trcv]. rewrite craw_cdel. split; [|split; [exact Hc0|intros sm _ H; discriminate]].
        destruct (k =? key) eqn:Ek; [|left; exact Hs0].
        apply Z.eqb_eq in Ek. right. split; [apply Hkk; exact Ek|discriminate].
    - destruct (refuse_restart _ _ _).
      + split; [left; exact Hs0|]. split; [exact Hc0|]. intros sm H; discriminate.
      + split; [left; exact Hs0|]. split; [exact Hc0|]. intros sm H _. injection H as <-.
        assert (Hm : forall x, mtok x = key -> mtok x = mtok r \/ FRESH <= mtok x \/ mtok x < 0).
        { intros x ->. exact Hkey. }
        apply Hm. destruct isb1; [reflexivity|]. destruct (tget_sent_request e (mtok r)); reflexivity. }
  destruct (cload now (trcv e0) key) as [c0|].
  - specialize (Hbody c0 (bszx b)). cbv zeta in Hbody.
    destruct (bmore b); exact Hbody.
  - destruct (bmore b) eqn:Emore.
    + specialize (Hbody (set_body r []) (Z.min (bszx b) mx)). cbv zeta in Hbody. exact Hbody.
    + destruct (negb (bnum b =? 0)).
      * split; [left; exact Hs0|]. split; [exact Hc0|]. intros sm H; discriminate.
      * split; [left; exact Hs0|]. split; [exact Hc0|]. intros sm _ H; discriminate.
Qed.

Section LiveElement.
  Variable app : Z -> msg -> option msg.
  Variable now : Z.
  Variable sctx : option Z.
  Variables (e : tep) (k dl : Z) (m : msg).
  Hypothesis Hc : counters_ok e.
  Hypothesis Hk : 0 <= k < FRESH.
  Hypothesis Hraw : craw (tsnd e) k = Some (dl, m).
  Hypothesis Hlive : expired now dl = false.

  Lemma dhandle_received_snd r :
    let '(e', o, d) := dhandle_received app now sctx e r in
    (craw (tsnd e') k = Some (dl, m) \/ (mtok r = k /\ d <> [])) /\ counters_ok e'.
  Proof.
    unfold dhandle_received.
    destruct ((mcode r =? 0) || ((225 <=? mcode r) && (mcode r <=? 229))).
    { split; [left; exact Hraw|exact Hc]. }
    destruct ((mcode r =? GET) || (mcode r =? DELETE)).
    { match goal with |- context [tstart_sending now e ?w ?mx ?mm ?b] =>
        pose proof (tstart_sending_snd now e w mx mm b k) as Hs; destruct (tstart_sending now e w mx mm b) as [e' o] end.
      destruct (Hs Hc) as [[H|[H _]] [Hc' _]].
      - split; [left; rewrite H; exact Hraw|exact Hc'].
      - rewrite (cload_live now _ _ _ _ Hraw Hlive) in H. discriminate. }
    match goal with |- context [dprocess_received app now sctx e r ?mx ?i] =>
      pose proof (dprocess_snd app now sctx e r mx i k Hc Hk) as Hp; destruct (dprocess_received app now sctx e r mx i) as [[e1 o] d] end.
    destruct Hp as (Hs1 & Hc1 & Hsm).
    destruct o as [w|].
    2:{ split; [|exact Hc1]. destruct Hs1 as [H|[H1 H2]]; [left; rewrite H; exact Hraw|right; split; [symmetry; exact H1|exact H2]]. }
    match goal with |- context [tstart_sending now e1 ?w ?mx ?mm ?b] =>
      pose proof (tstart_sending_snd now e1 w mx mm b k) as Hs; destruct (tstart_sending now e1 w mx mm b) as [e2 o2] end.
    destruct (Hs Hc1) as [Hs2 [Hc2 _]]. split; [|exact Hc2].
    destruct Hs1 as [H1|[H1 H2]]; [|right; split; [symmetry; exact H1|exact H2]].
    destruct Hs2 as [H2|[H2 _]].
    - left. rewrite H2, H1. exact Hraw.
    - rewrite <- H1 in Hraw. rewrite (cload_live now _ _ _ _ Hraw Hlive) in H2. discriminate.
  Qed.

  (* Handle and a live element of the sending cache under an application token: it keeps its validity
     and its data; it is removed only together with an error callback or a delivery for its own token,
     or - a response (code above DELETE) - with its last block *)
  Lemma dhandle_snd r :
    let '(e', w, d, nerr) := dhandle app now sctx e r in
    (craw (tsnd e') k = Some (dl, m) \/
     (mtok r = k /\ (nerr = 1 \/ d <> [] \/ DELETE < mcode m))) /\ counters_ok e'.
  Proof.
    unfold dhandle.
    pose proof (dhandle_received_snd r) as Hr.
    destruct (dhandle_received app now sctx e r) as [[e1 o] d].
    assert (Hrecv : let '(e', w, d0, nerr) := match o with
                                              | Out w => (e1, w, d, 0)
                                              | Fail => (e1, Some (entity_incomplete (mtok r)), d, 1)
                                              end in
                    (craw (tsnd e') k = Some (dl, m) \/ (mtok r = k /\ (nerr = 1 \/ d0 <> [] \/ DELETE < mcode m))) /\
                    counters_ok e').
    { destruct Hr as [[H|[H1 H2]] Hc1]; destruct o; (split; [|exact Hc1]);
        try (left; exact H); right; (split; [exact H1|]); right; left; exact H2. }
    destruct (cload now (tsnd e) (mtok r)) as [orig|] eqn:El; [|exact Hrecv].
    destruct (wants_to_be_received r); [exact Hrecv|].
    clear Hrecv Hr.
    assert (Horig : mtok r = k -> orig = m).
    { intros E. rewrite E, (cload_live now _ _ _ _ Hraw Hlive) in El. injection El as <-. reflexivity. }
    assert (Hdel : craw (tsnd (with_tsnd e (cdel (tsnd e) (mtok r)))) k = Some (dl, m) \/ mtok r = k).
    { cbn [tsnd with_tsnd]. rewrite craw_cdel. destruct (k =? mtok r) eqn:E; [right; apply Z.eqb_eq in E; congruence|left; exact Hraw]. }
    unfold tcontinue_sending.
    destruct (if is_upload (mcode orig) then mb1 r else mb2 r) as [b|].
    2:{ split; [|exact Hc]. destruct Hdel as [H|H]; [left; exact H|right; split; [exact H|left; reflexivity]]. }
    destruct (create_sending orig (tszx e) (tmax e) b) as [[sm more]|].
    2:{ split; [|exact Hc]. destruct Hdel as [H|H]; [left; exact H|right; split; [exact H|left; reflexivity]]. }
    destruct (negb more && (DELETE <? mcode orig)) eqn:Ed.
    - split; [|exact Hc]. destruct Hdel as [H|H]; [left; exact H|].
      right. split; [exact H|]. right; right. rewrite <- (Horig H).
      apply andb_true_iff in Ed. destruct Ed as [_ Ed]. apply Z.ltb_lt in Ed. exact Ed.
    - split; [left; exact Hraw|exact Hc].
  Qed.
End LiveElement.


(* the counters of the private tokens only grow *)
Lemma dhandle_counters app now sctx e r :
  counters_ok e -> let '(e', w, d, nerr) := dhandle app now sctx e r in counters_ok e'.
Proof.
  intros Hc. unfold dhandle.
  assert (Hk0 : 0 <= 0 < FRESH) by (unfold FRESH; lia).
  assert (Hrecv : let '(e', o, d) := dhandle_received app now sctx e r in counters_ok e').
  { unfold dhandle_received.
    destruct ((mcode r =? 0) || ((225 <=? mcode r) && (mcode r <=? 229))); [exact Hc|].
    destruct ((mcode r =? GET) || (mcode r =? DELETE)).
    { match goal with |- context [tstart_sending now e ?w ?mx ?mm ?b] =>
        pose proof (tstart_sending_snd now e w mx mm b 0) as Hs; destruct (tstart_sending now e w mx mm b) as [e' o] end.
      apply (Hs Hc). }
    match goal with |- context [dprocess_received app now sctx e r ?mx ?i] =>
      pose proof (dprocess_snd app now sctx e r mx i 0 Hc Hk0) as Hp; destruct (dprocess_received app now sctx e r mx i) as [[e1 o] d] end.
    destruct Hp as (_ & Hc1 & _). destruct o as [w|]; [|exact Hc1].
    match goal with |- context [tstart_sending now e1 ?w ?mx ?mm ?b] =>
      pose proof (tstart_sending_snd now e1 w mx mm b 0) as Hs; destruct (tstart_sending now e1 w mx mm b) as [e2 o2] end.
    apply (Hs Hc1). }
  destruct (dhandle_received app now sctx e r) as [[e1 o] d].
  assert (Hrecv' : let '(e', w, d0, nerr) := match o with
                                             | Out w => (e1, w, d, 0)
                                             | Fail => (e1, Some (entity_incomplete (mtok r)), d, 1)
                                             end in counters_ok e') by (destruct o; exact Hrecv).
  destruct (cload now (tsnd e) (mtok r)) as [orig|]; [|exact Hrecv'].
  destruct (wants_to_be_received r); [exact Hrecv'|].
  unfold tcontinue_sending.
  destruct (if is_upload (mcode orig) then mb1 r else mb2 r) as [b|]; [|exact Hc].
  destruct (create_sending orig (tszx e) (tmax e) b) as [[sm more]|]; [|exact Hc].
  destruct (negb more && (DELETE <? mcode orig)); exact Hc.
Qed.

(* ------------------------------------------------------------------------ *)
(* 3. all scripts: the element of a Do in good standing                       *)

Lemma zassoc_g_drop l t t' : zassoc (g_drop l t) t' = if t' =? t then None else zassoc l t'.
Proof.
  induction l as [|[a v] l IH]; cbn [g_drop filter zassoc fst]; [destruct (t' =? t); reflexivity|].
  destruct (a =? t) eqn:Ea; cbn [negb].
  - fold (g_drop l t). rewrite IH. apply Z.eqb_eq in Ea. subst a.
    destruct (t' =? t); reflexivity.
  - cbn [zassoc]. fold (g_drop l t). rewrite IH. destruct (t' =? t) eqn:Et; [|reflexivity].
    apply Z.eqb_eq in Et. subst t'. rewrite Z.eqb_sym, Ea. reflexivity.
Qed.

Lemma fold_drop_inv c rets : forall l0 t dl,
  zassoc (fold_left (fun l r => match do_tok c (fst r) with Some t => g_drop l t | None => l end) rets l0) t = Some dl ->
  zassoc l0 t = Some dl /\ forall r : Z * Z, In r rets -> do_tok c (fst r) <> Some t.
Proof.
  induction rets as [|r rets IH]; intros l0 t dl; cbn [fold_left]; [intros H; split; [exact H|intros r []]|].
  intros H. apply IH in H. destruct H as [H1 H2].
  destruct (do_tok c (fst r)) as [t0|] eqn:Ed.
  - rewrite zassoc_g_drop in H1. destruct (t =? t0) eqn:Et; [discriminate|].
    split; [exact H1|]. intros r' [<-|Hin]; [|exact (H2 r' Hin)].
    rewrite Ed. intros E. injection E as ->. rewrite Z.eqb_refl in Et. discriminate.
  - split; [exact H1|]. intros r' [<-|Hin]; [rewrite Ed; discriminate|exact (H2 r' Hin)].
Qed.

Lemma first_class_not10 (l : list N) : (forall x, In x l -> x <> 10%N) -> first_class l <> 10%N.
Proof.
  induction l as [|x l IH]; cbn [first_class]; [intros _; discriminate|].
  intros H. destruct (N.eqb x 0); [apply IH; intros y Hy; apply H; right; exact Hy|apply H; left; reflexivity].
Qed.

Lemma tcomplete_nil p e : tcomplete p [] e = (p, e, []).
Proof.
  induction p as [|[i t] p IH]; [reflexivity|]. cbn [tcomplete existsb]. rewrite IH. reflexivity.
Qed.

Lemma tcomplete_snd p d : forall e,
  let '(p', e'', rets) := tcomplete p d e in
  (forall t, craw (tsnd e'') t = craw (tsnd e) t \/ exists i, In (i, t) p /\ In (Z.of_nat i, 0) rets) /\
  tfresh e'' = tfresh e /\ thid e'' = thid e /\ (forall x, In x p' -> In x p).
Proof.
  induction p as [|[i t] p IH]; intros e; cbn [tcomplete].
  { split; [intros t; left; reflexivity|]. split; [reflexivity|]. split; [reflexivity|intros x []]. }
  destruct (existsb (fun m => mtok m =? t) d).
  - specialize (IH (with_tsnd e (cdel (tsnd e) t))).
    destruct (tcomplete p d (with_tsnd e (cdel (tsnd e) t))) as [[p' e''] rets].
    destruct IH as (H1 & H2 & H3 & H4). split; [|split; [exact H2|split; [exact H3|intros x Hx; right; exact (H4 x Hx)]]].
    intros t'. destruct (H1 t') as [H|[i' [Ha Hb]]].
    + rewrite H. cbn [tsnd with_tsnd]. rewrite craw_cdel. destruct (t' =? t) eqn:E; [|left; reflexivity].
      apply Z.eqb_eq in E. subst t'. right. exists i. split; [left; reflexivity|left; reflexivity].
    + right. exists i'. split; [right; exact Ha|right; exact Hb].
  - specialize (IH e). destruct (tcomplete p d e) as [[p' e''] rets].
    destruct IH as (H1 & H2 & H3 & H4). split; [|split; [exact H2|split; [exact H3|]]].
    + intros t'. destruct (H1 t') as [H|[i' [Ha Hb]]]; [left; exact H|right; exists i'; split; [right; exact Ha|exact Hb]].
    + intros x [<-|Hx]; [left; reflexivity|right; exact (H4 x Hx)].
Qed.

Lemma dhandle_continue app now sctx e r orig :
  cload now (tsnd e) (mtok r) = Some orig -> mcode r = Continue ->
  let '(e', w, d, nerr) := dhandle app now sctx e r in d = [].
Proof.
  intros Hl Hcode. unfold dhandle. rewrite Hl.
  assert (Hw : wants_to_be_received r = false).
  { unfold wants_to_be_received. rewrite Hcode. destruct (mb1 r), (mb2 r); reflexivity. }
  rewrite Hw. destruct (dhandle_received app now sctx e r) as [[e1 o] d0].
  destruct (tcontinue_sending e r orig) as [[e' w] err]. reflexivity.
Qed.

Section GoodStanding.
  Variable c : cfg.
  Hypothesis Hwf : cfg_wf c.
  Variable dls : deadlines.

  Definition pend_wf (p : list (nat * Z)) : Prop :=
    forall i t, In (i, t) p -> exists x, nth_error (cexch c) i = Some x /\ xkind x = 0 /\ xtok x = t.

  Definition ginv (w : dworld) (s : standing) : Prop :=
    g_now s = tnow (dw w) /\ counters_ok (twa (dw w)) /\ pend_wf (tpending (dw w)) /\
    forall t dl, zassoc (g_ok s) t = Some dl -> tnow (dw w) <= dl ->
      exists x, In x (cexch c) /\ xkind x = 0 /\ xtok x = t /\
                craw (tsnd (twa (dw w))) t = Some (dl, request_of x).

  Lemma ginv_step w w' s s' :
    ginv w s -> counters_ok (twa (dw w')) -> pend_wf (tpending (dw w')) ->
    tnow (dw w) <= tnow (dw w') -> g_now s' = tnow (dw w') ->
    (forall t dl, zassoc (g_ok s') t = Some dl -> tnow (dw w') <= dl ->
       (zassoc (g_ok s) t = Some dl /\ craw (tsnd (twa (dw w'))) t = craw (tsnd (twa (dw w))) t) \/
       (exists x, In x (cexch c) /\ xkind x = 0 /\ xtok x = t /\
                  craw (tsnd (twa (dw w'))) t = Some (dl, request_of x))) ->
    ginv w' s'.
  Proof.
    intros (Hn & Hc & Hp & Hob) Hc' Hp' Hle Hn' H. split; [exact Hn'|]. split; [exact Hc'|]. split; [exact Hp'|].
    intros t dl Hz Hd. destruct (H t dl Hz Hd) as [[H1 H2]|H1]; [|exact H1].
    destruct (Hob t dl H1 ltac:(lia)) as (x & Hx1 & Hx2 & Hx3 & Hx4).
    exists x. split; [exact Hx1|]. split; [exact Hx2|]. split; [exact Hx3|]. rewrite H2. exact Hx4.
  Qed.

  Lemma do_tok_pending p i t : pend_wf p -> In (i, t) p -> do_tok c (Z.of_nat i) = Some t.
  Proof.
    intros Hp Hin. destruct (Hp i t Hin) as (x & Hn & Hk & Ht). unfold do_tok.
    rewrite Nat2Z.id, Hn, Hk. cbn. rewrite Ht. reflexivity.
  Qed.

  (* the standing after a message arrived somewhere (Deliver / Dup / Replay) *)
  Definition g_arrive (s : standing) (o : obs) : standing * N :=
    let cls := bogus_class s (continue_returns c o) in
    let ok1 := match o_in o with
               | Some m => if (o_side o =? 0) && ((0 <? o_err o) || negb (is_nil (o_deliv o)))
                           then g_drop (g_ok s) (ptok m) else g_ok s
               | None => g_ok s
               end in
    let drop l := fold_left (fun l r => match do_tok c (fst r) with Some t => g_drop l t | None => l end) (o_ret o) l in
    ({| g_now := g_now s; g_ok := drop ok1; g_due := drop (g_due s) |}, cls).

  Lemma g_step_deliver s j o : g_step c dls s (Ev (Deliver j)) o = g_arrive s o. Proof. reflexivity. Qed.
  Lemma g_step_dup s j o : g_step c dls s (Ev (Dup j)) o = g_arrive s o. Proof. reflexivity. Qed.
  Lemma g_step_replay s h o : g_step c dls s (Ev (Replay h)) o = g_arrive s o. Proof. reflexivity. Qed.

  (* an event that hands no message to an endpoint, returns nothing and leaves A alone *)
  Lemma g_arrive_silent s o :
    o_in o = None -> o_ret o = [] -> g_arrive s o = ({| g_now := g_now s; g_ok := g_ok s; g_due := g_due s |}, 0%N).
  Proof. intros H1 H2. unfold g_arrive, continue_returns. rewrite H1, H2. reflexivity. Qed.

  Lemma exch_tok_range x : In x (cexch c) -> 0 <= xtok x < FRESH /\ mcode (request_of x) <= DELETE.
  Proof.
    intros Hin. destruct (wf_exch c Hwf x Hin) as (_ & Hcode & Htok & _). split; [exact Htok|]. unfold request_of. cbn [mcode]. destruct Hcode as [_ H]. exact H.
  Qed.

  Lemma temit_a w b o : twa (temit w b o) = twa w. Proof. destruct o; reflexivity. Qed.
  Lemma temit_pending w b o : tpending (temit w b o) = tpending w. Proof. destruct o; reflexivity. Qed.
  Lemma temit_now w b o : tnow (temit w b o) = tnow w. Proof. destruct o; reflexivity. Qed.

  (* a message reaches A *)
  Lemma darrive_a_ginv w s m :
    ginv w s ->
    let '(w', o) := darrive_a c w m in
    let '(s', k) := g_arrive s (proj_mob o) in
    ginv w' s' /\ k <> 10%N.
  Proof.
    intros Hinv. pose proof Hinv as (Hn & Hc & Hp & Hob).
    unfold darrive_a.
    set (tw := dw w) in *. set (now := tnow tw) in *. set (sc := sent_ctx w (mtok m)).
    pose proof (fun k dl mm H1 H2 H3 H4 => dhandle_snd app_a now sc (twa tw) k dl mm H1 H2 H3 H4 m) as Hsnd.
    pose proof (fun orig => dhandle_continue app_a now sc (twa tw) m orig) as Hcont.
    pose proof (dhandle_counters app_a now sc (twa tw) m Hc) as Hcnt.
    destruct (dhandle app_a now sc (twa tw) m) as [[[e' wo] d] nerr].
    pose proof (tcomplete_snd (tpending tw) d e') as Hcomp.
    pose proof (tcomplete_nil (tpending tw) e') as Hcnil.
    destruct (tcomplete (tpending tw) d e') as [[p' e''] rets] eqn:Etc.
    destruct Hcomp as (Hc1 & Hc2 & Hc3 & Hc4).
    unfold g_arrive. cbn [proj_mob o_in o_side o_err o_deliv o_ret mo_side mo_in mo_deliv mo_err mo_ret option_map].
    change (ptok (proj m)) with (mtok m).
    set (cond := (0 =? 0) && ((0 <? nerr) || negb (is_nil (map proj d)))).
    split.
    - (* the invariant *)
      eapply ginv_step; [exact Hinv| | | | |]; cbn [dw g_now g_ok].
      + rewrite temit_a. cbn [twa with_tpending with_ta]. unfold counters_ok. rewrite Hc2, Hc3. exact Hcnt.
      + rewrite temit_pending. cbn [tpending with_tpending]. intros i t Hin. apply Hp. apply Hc4. exact Hin.
      + rewrite temit_now. cbn [tnow with_tpending with_ta]. fold tw. lia.
      + rewrite temit_now. cbn [tnow with_tpending with_ta]. exact Hn.
      + intros t dl Hz Hd. rewrite temit_now in Hd. cbn [tnow with_tpending with_ta] in Hd. fold now in Hd.
        rewrite temit_a. cbn [twa with_tpending with_ta]. left.
        apply fold_drop_inv in Hz. destruct Hz as [Hz1 Hz2].
        assert (Hz0 : zassoc (g_ok s) t = Some dl /\ (cond = true -> t <> mtok m)).
        { destruct cond.
          - rewrite zassoc_g_drop in Hz1. destruct (t =? mtok m) eqn:E; [discriminate|].
            split; [exact Hz1|intros _; apply Z.eqb_neq; exact E].
          - split; [exact Hz1|discriminate]. }
        destruct Hz0 as [Hz0 Hne]. split; [exact Hz0|].
        destruct (Hob t dl Hz0 Hd) as (x & Hx1 & Hx2 & Hx3 & Hx4).
        destruct (exch_tok_range x Hx1) as [Hr1 Hr2]. rewrite Hx3 in Hr1.
        assert (Hlive : expired now dl = false) by (unfold expired; apply Z.ltb_ge; exact Hd).
        destruct (Hsnd t dl (request_of x) Hc Hr1 Hx4 Hlive) as [[Hs|[Hs1 Hs2]] _].
        * destruct (Hc1 t) as [H|[i [Ha Hb]]]; [rewrite H, Hs; symmetry; exact Hx4|].
          exfalso. apply (Hz2 (Z.of_nat i, 0) Hb). cbn [fst]. apply (do_tok_pending _ _ _ Hp Ha).
        * exfalso. destruct Hs2 as [H|[H|H]].
          -- subst nerr. apply Hne; [reflexivity|symmetry; exact Hs1].
          -- apply Hne; [|symmetry; exact Hs1]. unfold cond. destruct d; [contradiction|]. cbn. apply orb_true_r.
          -- lia.
    - (* the class *)
      unfold bogus_class. apply first_class_not10. intros k Hin. apply in_map_iff in Hin. destruct Hin as (t & <- & Hin).
      destruct (zassoc (g_ok s) t) as [dl|] eqn:Ez; [|destruct (overdue s t); discriminate].
      destruct (g_now s <=? dl) eqn:El; [|destruct (overdue s t); discriminate].
      exfalso. unfold continue_returns in Hin. cbn [proj_mob o_in o_side o_ret mo_side mo_in mo_ret option_map] in Hin.
      change (pcode (proj m)) with (mcode m) in Hin. change (ptok (proj m)) with (mtok m) in Hin.
      change (0 =? 0) with true in Hin. cbn [andb] in Hin.
      destruct (mcode m =? Continue) eqn:Ec; [|destruct Hin].
      apply in_flat_map in Hin. destruct Hin as (r & Hr & Ht).
      destruct (snd r =? 0); [|destruct Ht]. destruct (do_tok c (fst r)) as [t0|]; [|destruct Ht].
      destruct (t0 =? mtok m) eqn:Et; [|destruct Ht]. destruct Ht as [<-|[]]. apply Z.eqb_eq in Et. subst t0.
      apply Z.leb_le in El. rewrite Hn in El. fold tw in El. fold now in El.
      destruct (Hob _ _ Ez El) as (x & _ & _ & _ & Hx4).
      assert (Hlive : expired now dl = false) by (unfold expired; apply Z.ltb_ge; exact El).
      pose proof (Hcont (request_of x) (cload_live now _ _ _ _ Hx4 Hlive) (proj1 (Z.eqb_eq _ _) Ec)) as Hd.
      subst d. rewrite Hcnil in Etc. injection Etc as _ _ <-. destruct Hr.
  Qed.

  Lemma ginv_same_a w w2 s :
    ginv w s -> twa (dw w2) = twa (dw w) -> tpending (dw w2) = tpending (dw w) -> tnow (dw w2) = tnow (dw w) -> ginv w2 s.
  Proof.
    intros Hinv Ha Hp Hn. pose proof Hinv as (Hn0 & Hc & Hpw & _).
    eapply ginv_step; [exact Hinv|rewrite Ha; exact Hc|rewrite Hp; exact Hpw|lia|lia|].
    intros t dl Hz _. left. split; [exact Hz|rewrite Ha; reflexivity].
  Qed.

  (* events that hand no message to an endpoint and return nothing, other than Start *)
  Lemma g_step_quiet s te o :
    o_in o = None -> o_ret o = [] -> (forall i, te <> Ev (Start i)) ->
    let '(s', k) := g_step c dls s te o in
    k = 0%N /\ g_now s' = g_now s + match te with Age d => Z.max 0 d | _ => 0 end /\
    g_ok s' = match te with Sweep false => [] | Ev (Expire false) => [] | _ => g_ok s end.
  Proof.
    intros H1 H2 H3. unfold g_step, continue_returns. rewrite H1, H2. cbn [fold_left bogus_class map first_class].
    destruct te as [e|d|atB].
    - destruct e as [i|j|j|j|h|k|i|atB]; try (cbn [g_now g_ok]; split; [reflexivity|split; [lia|reflexivity]]).
      exfalso. exact (H3 i eq_refl).
    - cbn [g_now g_ok]. split; [reflexivity|split; [reflexivity|reflexivity]].
    - destruct atB; cbn [g_now g_ok]; (split; [reflexivity|split; [lia|reflexivity]]).
  Qed.

  Lemma tsweep_counters t e : tfresh (tsweep t e) = tfresh e /\ thid (tsweep t e) = thid e.
  Proof. split; reflexivity. Qed.

  (* a quiet step of the world: the clock may advance; A is untouched or (sweeps at A) swept *)
  Lemma quiet_ginv w s te tw' :
    ginv w s -> (forall i, te <> Ev (Start i)) ->
    tpending tw' = tpending (dw w) ->
    tnow tw' = tnow (dw w) + match te with Age d => Z.max 0 d | _ => 0 end ->
    (match te with
     | Sweep false => tfresh (twa tw') = tfresh (twa (dw w)) /\ thid (twa tw') = thid (twa (dw w))
     | Ev (Expire false) => tfresh (twa tw') = tfresh (twa (dw w)) /\ thid (twa tw') = thid (twa (dw w))
     | _ => twa tw' = twa (dw w)
     end) ->
    let '(s', k) := g_step c dls s te (proj_mob (snd (tquiet tw'))) in
    ginv {| dw := tw'; dctx := dctx w |} s' /\ k <> 10%N.
  Proof.
    intros Hinv Hns Hp Hn Ha. pose proof Hinv as (Hn0 & Hc & Hpw & _).
    pose proof (g_step_quiet s te (proj_mob (snd (tquiet tw'))) eq_refl eq_refl Hns) as Hq.
    destruct (g_step c dls s te (proj_mob (snd (tquiet tw')))) as [s' k].
    destruct Hq as (-> & Hq2 & Hq3). split; [|discriminate].
    assert (Hmax : 0 <= match te with Age d => Z.max 0 d | _ => 0 end) by (destruct te; lia).
    eapply ginv_step; [exact Hinv| | | | |]; cbn [dw].
    - destruct te as [e|d|atB]; [destruct e as [i|j|j|j|h|k|i|atB]|..]; try (rewrite Ha; exact Hc);
        destruct atB; try (rewrite Ha; exact Hc); destruct Ha as [Ha1 Ha2]; unfold counters_ok; rewrite Ha1, Ha2; exact Hc.
    - rewrite Hp. exact Hpw.
    - lia.
    - lia.
    - intros t dl Hz _. rewrite Hq3 in Hz.
      destruct te as [e|d|atB]; [destruct e as [i|j|j|j|h|k|i|atB]|..];
        try (left; split; [exact Hz|rewrite Ha; reflexivity]);
        destruct atB; try (left; split; [exact Hz|rewrite Ha; reflexivity]); discriminate.
  Qed.

  Lemma tarrive_b tw m :
    let '(tw1, o) := tarrive c tw true m in
    twa tw1 = twa tw /\ tpending tw1 = tpending tw /\ tnow tw1 = tnow tw /\ mo_side o = 1 /\ mo_ret o = [].
  Proof.
    unfold tarrive. destruct (thandle (app_b c (tvers tw)) (tnow tw) (twb tw) m) as [[[e' o] d] nerr].
    rewrite temit_a, temit_pending, temit_now. repeat split; reflexivity.
  Qed.

  Lemma darrive_ginv w s tw' toB m :
    ginv w s -> twa tw' = twa (dw w) -> tpending tw' = tpending (dw w) -> tnow tw' = tnow (dw w) ->
    let '(w', o) := darrive c w tw' toB m in
    let '(s', k) := g_arrive s (proj_mob o) in
    ginv w' s' /\ k <> 10%N.
  Proof.
    intros Hinv Ha Hp Hn. unfold darrive. destruct toB.
    - pose proof (tarrive_b tw' m) as Hb. destruct (tarrive c tw' true m) as [tw1 o].
      destruct Hb as (Hb1 & Hb2 & Hb3 & Hb4 & Hb5).
      unfold g_arrive, continue_returns. cbn [proj_mob o_in o_side o_ret o_err o_deliv]. rewrite Hb4, Hb5.
      destruct (option_map proj (mo_in o)); cbn [Z.eqb andb fold_left bogus_class map first_class];
        (split; [|discriminate]);
        (apply (ginv_same_a w); [exact Hinv|cbn [dw]; congruence|cbn [dw]; congruence|cbn [dw]; congruence]).
    - apply darrive_a_ginv. apply (ginv_same_a w); [exact Hinv|exact Ha|exact Hp|exact Hn].
  Qed.

  Lemma valid_until_window now i :
    valid_until now (match nassoc dls i with Some d => Some (now + d) | None => None end) = now + window dls i.
  Proof. unfold valid_until, window. destruct (nassoc dls i); reflexivity. Qed.

  (* every event *)
  Lemma dstep_ginv w s te :
    ginv w s ->
    let '(w', o) := dstep c dls w te in
    let '(s', k) := g_step c dls s te (proj_mob o) in
    ginv w' s' /\ k <> 10%N.
  Proof.
    intros Hinv. pose proof Hinv as (Hn & Hc & Hp & Hob).
    assert (Hq : forall te', (forall i, te' <> Ev (Start i)) -> forall tw',
              tstep c (dw w) te' = tquiet tw' ->
              tpending tw' = tpending (dw w) ->
              tnow tw' = tnow (dw w) + match te' with Age d => Z.max 0 d | _ => 0 end ->
              (match te' with
               | Sweep false => tfresh (twa tw') = tfresh (twa (dw w)) /\ thid (twa tw') = thid (twa (dw w))
               | Ev (Expire false) => tfresh (twa tw') = tfresh (twa (dw w)) /\ thid (twa tw') = thid (twa (dw w))
               | _ => twa tw' = twa (dw w)
               end) ->
              let '(w', o) := dlift w (tstep c (dw w) te') in
              let '(s', k) := g_step c dls s te' (proj_mob o) in
              ginv w' s' /\ k <> 10%N).
    { intros te' Hns tw' Hst Hp' Hn' Ha'. rewrite Hst. unfold dlift. cbn [fst].
      exact (quiet_ginv w s te' tw' Hinv Hns Hp' Hn' Ha'). }
    unfold dstep.
    destruct te as [e|d|atB].
    2:{ (* Age *) eapply (Hq (Age d)); [intros i; discriminate| | | |]; reflexivity. }
    2:{ (* Sweep *) destruct atB.
        - eapply (Hq (Sweep true)); [intros i; discriminate| | | |]; try reflexivity; try (cbn; lia); try (split; reflexivity).
        - eapply (Hq (Sweep false)); [intros i; discriminate| | | |]; try reflexivity; try (cbn; lia); try (split; reflexivity). }
    destruct e as [i|j|j|j|h|k|i|atB].
    - (* Start *)
      destruct (nth_error (cexch c) i) as [x|] eqn:Ex.
      2:{ unfold dlift. cbn [tstep]. rewrite Ex. cbn [fst snd tquiet].
          unfold g_step, continue_returns. rewrite Ex. cbn [proj_mob o_in o_ret mo_in mo_ret option_map fold_left bogus_class map first_class].
          split; [|discriminate]. apply (ginv_same_a w); [exact Hinv|reflexivity|reflexivity|reflexivity]. }
      destruct (xkind x =? 0) eqn:Ekind.
      + (* Do *)
        set (now := tnow (dw w)) in *. set (tok := xtok x).
        set (dl := match nassoc dls i with Some d => Some (now + d) | None => None end).
        assert (Hreq : mtok (request_of x) = tok) by reflexivity.
        unfold ddo_start. rewrite Hreq.
        (* the standing after a start that fails *)
        assert (Hfail : forall e', counters_ok e' ->
                  (forall t dl0, zassoc (g_ok s) t = Some dl0 -> now <= dl0 -> craw (tsnd e') t = craw (tsnd (twa (dw w))) t) ->
                  let '(w', o) := dlift w (tstarted (with_ta (dw w) e') true None [(Z.of_nat i, 1)]) in
                  let '(s', k) := g_step c dls s (Ev (Start i)) (proj_mob o) in ginv w' s' /\ k <> 10%N).
        { intros e' Hce He. unfold dlift, tstarted. cbn [fst snd temit].
          unfold g_step, continue_returns. rewrite Ex, Ekind.
          cbn [proj_mob o_in o_ret mo_in mo_ret option_map is_nil andb bogus_class map first_class].
          split; [|discriminate].
          eapply ginv_step; [exact Hinv| | | | |]; cbn [dw g_now g_ok tnow twa tpending with_ta].
          - exact Hce.
          - exact Hp.
          - lia.
          - exact Hn.
          - intros t dl0 Hz Hd. left. split; [exact Hz|]. apply (He t dl0 Hz Hd). }
        (* ... that succeeds with first message m *)
        assert (Hok : forall e' m0, counters_ok e' ->
                  craw (tsnd e') tok = Some (valid_until now dl, request_of x) ->
                  (forall t, t <> tok -> craw (tsnd e') t = craw (tsnd (twa (dw w))) t) ->
                  let r := tstarted (with_tpending (with_ta (dw w) e') (tpending (dw w) ++ [(i, tok)])) true (Some m0) [] in
                  let '(s', k) := g_step c dls s (Ev (Start i)) (proj_mob (snd r)) in
                  ginv {| dw := fst r;
                          dctx := match dl with Some d => (tok, d) :: ctx_drop (dctx w) tok | None => ctx_drop (dctx w) tok end |} s'
                  /\ k <> 10%N).
        { intros e' m0 Hce Hst Hoth. cbv zeta. unfold tstarted. cbn [fst snd temit].
          unfold g_step, continue_returns. rewrite Ex, Ekind.
          cbn [proj_mob o_in o_ret mo_in mo_ret option_map is_nil andb bogus_class map first_class].
          split; [|discriminate].
          eapply ginv_step; [exact Hinv| | | | |]; cbn [dw g_now g_ok tnow twa tpending with_ta with_tpending].
          - exact Hce.
          - intros i' t' Hin'. apply in_app_or in Hin'. destruct Hin' as [Hin'|[Hin'|[]]]; [apply Hp; exact Hin'|].
            injection Hin' as <- <-. exists x. split; [exact Ex|]. split; [apply Z.eqb_eq; exact Ekind|reflexivity].
          - lia.
          - exact Hn.
          - intros t dl0 Hz Hd. cbn [zassoc] in Hz. fold tok in Hz. destruct (t =? tok) eqn:Et.
            + apply Z.eqb_eq in Et. subst t. injection Hz as <-. right. exists x.
              split; [eapply nth_error_In; exact Ex|]. split; [apply Z.eqb_eq; exact Ekind|]. split; [reflexivity|].
              rewrite Hst. rewrite Hn. fold now. unfold dl. rewrite valid_until_window. reflexivity.
            + rewrite zassoc_g_drop, Et in Hz. left. split; [exact Hz|]. apply Hoth. apply Z.eqb_neq. exact Et. }
        destruct (cload now (tsnd (twa (dw w))) tok) as [old|] eqn:El.
        { apply Hfail; [exact Hc|intros; reflexivity]. }
        assert (Hst1 : craw (tsnd (with_tsnd (twa (dw w)) (cstore (tsnd (twa (dw w))) tok (valid_until now dl) (request_of x)))) tok
                       = Some (valid_until now dl, request_of x)).
        { cbn [tsnd with_tsnd]. rewrite craw_cstore, Z.eqb_refl. reflexivity. }
        assert (Hoth1 : forall t, t <> tok ->
                  craw (tsnd (with_tsnd (twa (dw w)) (cstore (tsnd (twa (dw w))) tok (valid_until now dl) (request_of x)))) t
                  = craw (tsnd (twa (dw w))) t).
        { intros t Ht. cbn [tsnd with_tsnd]. rewrite craw_cstore. apply Z.eqb_neq in Ht. rewrite Ht. reflexivity. }
        destruct (blen (mbody (request_of x)) <=? size (tszx (twa (dw w)))).
        { exact (Hok (with_tsnd (twa (dw w)) (cstore (tsnd (twa (dw w))) tok (valid_until now dl) (request_of x))) _ Hc Hst1 Hoth1). }
        destruct (negb (is_upload (mcode (request_of x)))).
        { apply Hfail; [exact Hc|]. intros t dl0 Hz Hd. cbn [tsnd with_tsnd]. rewrite craw_cdel.
          destruct (t =? tok) eqn:Et.
          - exfalso. apply Z.eqb_eq in Et. subst t. destruct (Hob _ _ Hz Hd) as (x' & _ & _ & _ & Hx4).
            assert (Hlive : expired now dl0 = false) by (unfold expired; apply Z.ltb_ge; exact Hd).
            rewrite (cload_live now _ _ _ _ Hx4 Hlive) in El. discriminate.
          - rewrite craw_cstore, Et. reflexivity. }
        exact (Hok (with_tsnd (twa (dw w)) (cstore (tsnd (twa (dw w))) tok (valid_until now dl) (request_of x))) _ Hc Hst1 Hoth1).
      + (* one-way write: A's sending cache changes under the token of that exchange only *)
        unfold dlift. cbn [tstep]. rewrite Ex, Ekind.
        assert (Hnot : do_tok c (Z.of_nat i) = None) by (unfold do_tok; rewrite Nat2Z.id, Ex, Ekind; reflexivity).
        assert (Hg : forall tw' mo, mo_in mo = None -> (mo_ret mo = [(Z.of_nat i, 0)] \/ mo_ret mo = [(Z.of_nat i, 1)]) ->
                  counters_ok (twa tw') -> tpending tw' = tpending (dw w) -> tnow tw' = tnow (dw w) ->
                  (forall t dl0, zassoc (g_ok s) t = Some dl0 -> tnow (dw w) <= dl0 ->
                                 craw (tsnd (twa tw')) t = craw (tsnd (twa (dw w))) t) ->
                  let '(s', k) := g_step c dls s (Ev (Start i)) (proj_mob mo) in
                  ginv {| dw := tw'; dctx := dctx w |} s' /\ k <> 10%N).
        { intros tw' mo Hmi Hmr Hcw Hpw Hnw Hsame.
          unfold g_step, continue_returns. rewrite Ex, Ekind. cbn [proj_mob o_in o_ret option_map andb]. rewrite Hmi.
          cbn [option_map bogus_class map first_class].
          assert (Hfold : fold_left (fun l r => match do_tok c (fst r) with Some t => g_drop l t | None => l end) (mo_ret mo) (g_ok s) = g_ok s).
          { destruct Hmr as [-> | ->]; cbn [fold_left fst]; rewrite Hnot; reflexivity. }
          rewrite Hfold. split; [|discriminate].
          eapply ginv_step; [exact Hinv| | | | |]; cbn [dw g_now g_ok].
          - exact Hcw.
          - rewrite Hpw. exact Hp.
          - lia.
          - rewrite Hnw. exact Hn.
          - intros t dl0 Hz Hd. rewrite Hnw in Hd. left. split; [exact Hz|apply (Hsame t dl0 Hz Hd)]. }
        destruct (xkind x =? 1) eqn:Ek1.
        * unfold twrite_start.
          match goal with |- context [tstart_sending ?n ?e0 ?w0 ?mx ?mm ?b] =>
            pose proof (fun k => tstart_sending_snd n e0 w0 mx mm b k) as Hs; destruct (tstart_sending n e0 w0 mx mm b) as [e' o] end.
          assert (Hce : counters_ok e') by (destruct (Hs 0 Hc) as [_ [H _]]; exact H).
          assert (Hsame : forall t dl0, zassoc (g_ok s) t = Some dl0 -> tnow (dw w) <= dl0 ->
                                        craw (tsnd e') t = craw (tsnd (twa (dw w))) t).
          { intros t dl0 Hz Hd. destruct (Hs t Hc) as [[H|[_ (wm & Hwm & Htk)]] _]; [exact H|]. exfalso.
            injection Hwm as <-. cbn [request_of mtok] in Htk.
            destruct (Hob _ _ Hz Hd) as (x' & Hx1 & Hx2 & Hx3 & _).
            assert (x' = x) by (apply (wf_tok c Hwf); [exact Hx1|eapply nth_error_In; exact Ex|congruence]).
            subst x'. rewrite Hx2 in Ekind. discriminate. }
          destruct o as [mo|]; unfold tstarted; cbn [fst snd].
          -- apply Hg; [reflexivity|left; reflexivity|rewrite temit_a; exact Hce|rewrite temit_pending; reflexivity|rewrite temit_now; reflexivity|].
             intros t dl0 Hz Hd. rewrite temit_a. exact (Hsame t dl0 Hz Hd).
          -- apply Hg; [reflexivity|right; reflexivity|exact Hce|reflexivity|reflexivity|exact Hsame].
        * unfold twrite_start.
          destruct (tstart_sending (tnow (dw w)) (twb (dw w)) _ _ _ _) as [e' o].
          destruct o as [mo|]; unfold tstarted; cbn [fst snd].
          -- apply Hg; [reflexivity|left; reflexivity|rewrite temit_a; exact Hc|rewrite temit_pending; reflexivity|rewrite temit_now; reflexivity|].
             intros t dl0 Hz Hd. rewrite temit_a. reflexivity.
          -- apply Hg; [reflexivity|right; reflexivity|exact Hc|reflexivity|reflexivity|intros; reflexivity].
    - (* Deliver *)
      destruct (nth_error (tflight (dw w)) j) as [[toB m]|] eqn:Ef.
      + exact (darrive_ginv w s (with_tflight (dw w) (remove_nth j (tflight (dw w)))) toB m Hinv eq_refl eq_refl eq_refl).
      + replace (tquiet (dw w)) with (tstep c (dw w) (Ev (Deliver j))) by (cbn [tstep]; rewrite Ef; reflexivity).
        eapply (Hq (Ev (Deliver j))); [intros i; discriminate|cbn [tstep]; rewrite Ef; reflexivity| | |]; try reflexivity; cbn; lia.
    - (* Dup *)
      destruct (nth_error (tflight (dw w)) j) as [[toB m]|] eqn:Ef.
      + exact (darrive_ginv w s (dw w) toB m Hinv eq_refl eq_refl eq_refl).
      + replace (tquiet (dw w)) with (tstep c (dw w) (Ev (Dup j))) by (cbn [tstep]; rewrite Ef; reflexivity).
        eapply (Hq (Ev (Dup j))); [intros i; discriminate|cbn [tstep]; rewrite Ef; reflexivity| | |]; try reflexivity; cbn; lia.
    - (* Drop *) eapply (Hq (Ev (Drop j))); [intros i; discriminate| | | |]; try reflexivity; try (cbn; lia); try (split; reflexivity).
    - (* Replay *)
      destruct (nth_error (twhist (dw w)) h) as [[toB m]|] eqn:Ef.
      + exact (darrive_ginv w s (dw w) toB m Hinv eq_refl eq_refl eq_refl).
      + replace (tquiet (dw w)) with (tstep c (dw w) (Ev (Replay h))) by (cbn [tstep]; rewrite Ef; reflexivity).
        eapply (Hq (Ev (Replay h))); [intros i; discriminate|cbn [tstep]; rewrite Ef; reflexivity| | |]; try reflexivity; cbn; lia.
    - (* Bump *) eapply (Hq (Ev (Bump k))); [intros i; discriminate| | | |]; try reflexivity; try (cbn; lia); try (split; reflexivity).
    - (* Timeout *)
      unfold dlift. cbn [tstep].
      destruct (find (fun p => Nat.eqb (fst p) i) (tpending (dw w))) as [[i0 t]|] eqn:Efind.
      2:{ pose proof (Hq (Ev (Timeout i)) ltac:(intros i'; discriminate) (dw w)) as Hq'.
          cbn [tstep] in Hq'. rewrite Efind in Hq'. unfold dlift in Hq'. cbn [fst snd] in *.
          apply Hq'; try reflexivity. lia. }
      apply find_some in Efind. destruct Efind as [Hin Hi]. cbn [fst] in Hi. apply Nat.eqb_eq in Hi. subst i0.
      cbn [fst snd]. change (g_step c dls s (Ev (Timeout i))) with (g_arrive s).
      unfold g_arrive, continue_returns. cbn [proj_mob o_in o_ret mo_in mo_ret option_map fold_left fst].
      rewrite (do_tok_pending _ _ _ Hp Hin). cbn [bogus_class map first_class].
      split; [|discriminate].
      eapply ginv_step; [exact Hinv| | | | |]; cbn [dw g_now g_ok tnow twa tpending with_tpending with_ta].
      + exact Hc.
      + intros i' t' Hin'. apply filter_In in Hin'. apply Hp. apply Hin'.
      + lia.
      + exact Hn.
      + intros t' dl Hz _. rewrite zassoc_g_drop in Hz. destruct (t' =? t) eqn:E; [discriminate|].
        left. split; [exact Hz|]. cbn [tsnd with_tsnd]. rewrite craw_cdel, E. reflexivity.
    - (* Expire *) destruct atB.
      + eapply (Hq (Ev (Expire true))); [intros i; discriminate| | | |]; try reflexivity; try (cbn; lia); try (split; reflexivity).
      + eapply (Hq (Ev (Expire false))); [intros i; discriminate| | | |]; try reflexivity; try (cbn; lia); try (split; reflexivity).
  Qed.
End GoodStanding.

Lemma ginv_init c : ginv c (dinit c) g_init.
Proof.
  split; [reflexivity|]. split; [split; cbn; lia|]. split; [intros i t []|]. intros t dl H. discriminate.
Qed.

Lemma g_classes_no10 c (Hwf : cfg_wf c) dls es : forall w s,
  ginv c w s -> ~ In 10%N (g_classes c dls s es (map proj_mob (drun c dls w es))).
Proof.
  induction es as [|te es IH]; intros w s Hinv; [intros []|].
  cbn [drun]. pose proof (dstep_ginv c Hwf dls w s te Hinv) as Hs.
  destruct (dstep c dls w te) as [w' o]. cbn [map g_classes].
  destruct (g_step c dls s te (proj_mob o)) as [s' k]. destruct Hs as [Hinv' Hk].
  intros [H|H]; [congruence|exact (IH w' s' Hinv' H)].
Qed.

Lemma first_class_in (l : list N) : first_class l = 0%N \/ In (first_class l) l.
Proof.
  induction l as [|x l IH]; [left; reflexivity|]. cbn [first_class].
  destruct (N.eqb x 0) eqn:E; [destruct IH as [H|H]; [left; exact H|right; right; exact H]|right; left; reflexivity].
Qed.

(* ALL scripts - faults, ageing, sweeps at any point, any deadline table -: a Do whose exchange is in good
   standing never returns with a 2.31 Continue *)
Theorem no_bogus_continue_in_good_standing c (Hwf : cfg_wf c) dls es :
  bogus_continue_class c dls es (model_obs_d c dls es) <> 10%N.
Proof.
  unfold bogus_continue_class, model_obs_d.
  pose proof (g_classes_no10 c Hwf dls es (dinit c) g_init (ginv_init c)) as Hno.
  set (ks := g_classes c dls g_init es (map proj_mob (drun c dls (dinit c) es))) in *.
  assert (Hex : existsb (N.eqb 10) ks = false).
  { destruct (existsb (N.eqb 10) ks) eqn:E; [|reflexivity]. exfalso. apply existsb_exists in E.
    destruct E as (x & Hin & Hx). apply N.eqb_eq in Hx. subst x. exact (Hno Hin). }
  rewrite Hex. destruct (first_class_in ks) as [H|H]; [rewrite H; discriminate|].
  intros E. rewrite E in H. exact (Hno H).
Qed.

(* the element Do stored, as long as the exchange is in good standing (the invariant itself, for every
   reachable world): it is in A's sending cache with exactly the deadline Do gave it *)
Fixpoint dreach (c : cfg) (dls : deadlines) (w : dworld) (s : standing) (es : list tev) : dworld * standing :=
  match es with
  | [] => (w, s)
  | te :: r => let '(w', o) := dstep c dls w te in dreach c dls w' (fst (g_step c dls s te (proj_mob o))) r
  end.

Theorem do_element_keeps_its_deadline c (Hwf : cfg_wf c) dls es :
  let '(w, s) := dreach c dls (dinit c) g_init es in
  forall t dl, zassoc (g_ok s) t = Some dl -> tnow (dw w) <= dl ->
    exists x, In x (cexch c) /\ xkind x = 0 /\ xtok x = t /\
              craw (tsnd (twa (dw w))) t = Some (dl, request_of x).
Proof.
  assert (H : forall es w s, ginv c w s -> let '(w', s') := dreach c dls w s es in ginv c w' s').
  { clear es. induction es as [|te es IH]; intros w s Hinv; [exact Hinv|]. cbn [dreach].
    pose proof (dstep_ginv c Hwf dls w s te Hinv) as Hs. destruct (dstep c dls w te) as [w' o].
    destruct (g_step c dls s te (proj_mob o)) as [s' k]. cbn [fst]. apply IH. apply Hs. }
  specialize (H es (dinit c) g_init (ginv_init c)).
  destruct (dreach c dls (dinit c) g_init es) as [w s]. apply H.
Qed.

(* ------------------------------------------------------------------------ *)
(* 4. the other class is real (not repaired: notes/C04.md, KNOWN_FINDINGS.txt)  *)

(* an upload of 64 bytes in blocks of 16 without request deadline; the link is slow: 3700 units pass
   after two acknowledged blocks (transfer timeout 3600).  The element Do stored has expired, the next
   2.31 Continue is handed to A's application and the Do returns it without error *)
Definition slow_cfg : cfg := Cfg 0 1152 0 1152 [X 0 2 7 0 5 64 None] [R 11 5 false 42] [].
Definition slow_es : list tev :=
  [Ev (Start 0); Ev (Deliver 0); Ev (Deliver 0); Ev (Deliver 0); Ev (Deliver 0); Age 3700; Ev (Deliver 0); Ev (Deliver 0)].

(* O2 (a BERT upload of 1024 < n < buffer: the sender fails on the first 2.31 and removes the element)
   followed by a duplicate of that 2.31 *)
Definition o2dup_cfg : cfg := Cfg 7 2048 7 2048 [X 0 2 7 0 5 1500 None] [R 11 5 false 42] [].
Definition o2dup_es : list tev := [Ev (Start 0); Ev (Deliver 0); Ev (Dup 0); Ev (Deliver 0)].

Lemma slow_cfg_wf : cfg_wf slow_cfg.
Proof.
  apply one_exch_wf; cbn; unfold GET, DELETE, FRESH; try lia; try (left; reflexivity); try (intros H; discriminate).
Qed.
Lemma o2dup_cfg_wf : cfg_wf o2dup_cfg.
Proof.
  apply one_exch_wf; cbn; unfold GET, DELETE, FRESH; try lia; try (left; reflexivity); try (intros H; discriminate).
Qed.

Theorem do_returns_continue_after_state_lost :
  (cfg_wf slow_cfg /\ bogus_continue_class slow_cfg [] slow_es (model_obs_d slow_cfg [] slow_es) = 11%N) /\
  (cfg_wf o2dup_cfg /\ bogus_continue_class o2dup_cfg [] o2dup_es (model_obs_d o2dup_cfg [] o2dup_es) = 11%N) /\
  (* inside a request deadline of 9000 the slow upload goes on: the next block is sent, no Do returns *)
  (bogus_continue_class slow_cfg [(0%nat, 9000)] slow_es (model_obs_d slow_cfg [(0%nat, 9000)] slow_es) = 0%N /\
   exists o, nth_error (model_obs_d slow_cfg [(0%nat, 9000)] slow_es) 7 = Some o /\
             o_ret o = [] /\ o_deliv o = [] /\
             match o_wire o with Some (true, m) => pb1 m = Some (0, 3, false) | _ => False end).
Proof.
  split; [split; [exact slow_cfg_wf|vm_compute; reflexivity]|].
  split; [split; [exact o2dup_cfg_wf|vm_compute; reflexivity]|].
  split; [vm_compute; reflexivity|]. eexists. split; [vm_compute; reflexivity|]. cbn. repeat split.
Qed.

(* the classes of SpecTime.v are reachable (hand-made observed traces): an upload whose Do returns ok with the
   2.31 that just arrived, 3700 units after its start: class 10 inside a request deadline of 9000, class 11
   without deadline (transfer timeout 3600), no class with a request deadline of 2000 (the caller is overdue);
   and class 12: a loss-free script of 60 deliveries (budget 4 * 6) whose last delivery still emits a block *)
Definition reach_cfg : cfg := Cfg 0 1152 0 1152 [X 0 2 7 0 5 64 None] [R 11 5 false 42] [].
Definition reach_cont : pm := PM Continue 7 (Some (0, 1, true)) None None None None None [] 0 0.
Definition reach_blk : pm := PM 2 7 (Some (0, 0, true)) None (Some 64) None None None [(11, 0)] 16 0.
Definition reach_es : list tev := [Ev (Start 0); Age 3700; Ev (Deliver 0)].
Definition reach_os : list obs :=
  [Ob 2 None (Some (true, reach_blk)) [] 0 [] [1;0;0;0] 0;
   Ob 2 None None [] 0 [] [1;0;0;0] 0;
   Ob 0 (Some reach_cont) None [reach_cont] 0 [(0, 0)] [0;0;0;0] 0].
Definition reach_long_es : list tev := Ev (Start 0) :: repeat (Ev (Deliver 0)) 60.
Definition reach_long_os : list obs :=
  Ob 2 None (Some (true, reach_blk)) [] 0 [] [1;0;0;0] 0 ::
  repeat (Ob 1 (Some reach_blk) (Some (false, reach_cont)) [] 0 [] [1;0;0;1] 0) 60.

Lemma spec_time_classes_reachable :
  c04_class_t reach_cfg [(0%nat, 9000)] reach_es reach_os (untimed reach_es) = 10%N /\
  c04_class_t reach_cfg [] reach_es reach_os (untimed reach_es) = 11%N /\
  c04_class_t reach_cfg [(0%nat, 2000)] reach_es reach_os (untimed reach_es) = 0%N /\
  c04_class_t reach_cfg [] reach_long_es reach_long_os (untimed reach_long_es) = 12%N /\
  c04_class_t reach_cfg [] (firstn 20 reach_long_es) (firstn 20 reach_long_os) (untimed (firstn 20 reach_long_es)) = 0%N.
Proof. repeat split; vm_compute; reflexivity. Qed.
