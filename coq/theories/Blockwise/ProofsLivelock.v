(* C04 "never by hanging", class 12 of SpecTime.v (the peers of a loss-free script keep exchanging
   blocks without end): absent from the model's trace wherever the progress theorems apply.

   The progress theorems (ProofsProgressDown / ProofsProgressUp) say: after N deliveries nothing is
   in flight.  A delivery with nothing in flight is silent and changes nothing, so for EVERY longer
   loss-free script the last event puts nothing on the wire; and N is within the budget
   4 * SpecTime.trip_budget, so no shorter script is long enough to be judged.  By
   ProofsReader.create_sending_rd_exact the blocks a sender serves are the same for every reader
   that keeps the io.Reader contract, so this is the trace for bodies behind such readers too. *)
From Coq Require Import ZArith NArith List Bool Lia.
From GoCoap Require Import Base.Bytes Gen.BlockConsts Block.Model Blockwise.Config Blockwise.Model
  Blockwise.Spec Blockwise.Proofs Blockwise.Timed Blockwise.SpecTime Blockwise.Deadline Blockwise.Run
  Blockwise.ProofsExchange Blockwise.ProofsProgressDown Blockwise.ProofsTimed Blockwise.ProofsDeadline.
From GoCoap Require Blockwise.ProofsProgressUp.
Import ListNotations.
Open Scope Z_scope.
Ltac Zify.zify_post_hook ::= Z.div_mod_to_equations.

Definition ff_script (i n : nat) : list ev := Start i :: repeat (Deliver 0%nat) n.

Lemma model_obs_d_rest c es : model_obs_d c [] (map Ev es) = map proj_mob (run c (init c) es).
Proof. unfold model_obs_d. rewrite deadline_conservative, timed_conservative. reflexivity. Qed.

Lemma loss_free_ff i n : loss_free (map Ev (ff_script i n)) = true.
Proof. unfold ff_script. cbn [map loss_free forallb]. induction n as [|n IH]; [reflexivity|exact IH]. Qed.

Lemma deliveries_ff i n : deliveries (map Ev (ff_script i n)) = Z.of_nat n.
Proof.
  unfold deliveries, ff_script. cbn [map filter]. induction n as [|n IH]; [reflexivity|].
  cbn [repeat map filter]. unfold blen in *. cbn [length]. lia.
Qed.

Lemma repeat_snoc {A} (a : A) n : repeat a (S n) = repeat a n ++ [a].
Proof. induction n as [|n IH]; [reflexivity|]. cbn [repeat app] in *. rewrite <- IH. reflexivity. Qed.

(* once nothing is in flight after N deliveries, with N inside the budget, no loss-free script of that
   exchange is a livelock *)
Theorem no_livelock_after_quiescence c i N :
  flight (run_w c (init c) (ff_script i N)) = [] -> Z.of_nat N <= 4 * trip_budget c ->
  forall n, livelock c (map Ev (ff_script i n)) (model_obs_d c [] (map Ev (ff_script i n))) = false.
Proof.
  intros Hfl HN n. unfold livelock. rewrite loss_free_ff, deliveries_ff, model_obs_d_rest. cbn [andb].
  destruct (4 * trip_budget c <? Z.of_nat n) eqn:E; [|reflexivity]. apply Z.ltb_lt in E. cbn [andb].
  assert (Hn : (N < n)%nat) by lia.
  replace n with (N + S (n - N - 1))%nat by lia. unfold ff_script.
  rewrite repeat_app, app_comm_cons, run_app. fold (ff_script i N).
  destruct (run_quiet c (run_w c (init c) (ff_script i N)) (S (n - N - 1)) Hfl) as [_ Hq]. rewrite Hq.
  rewrite repeat_snoc, app_assoc, map_app. unfold still_talking. rewrite rev_app_distr. reflexivity.
Qed.

Lemma blk_size_size s : 0 <= s <= 7 -> blk_size s = size s.
Proof.
  intros H. assert (Hs : s = 0 \/ s = 1 \/ s = 2 \/ s = 3 \/ s = 4 \/ s = 5 \/ s = 6 \/ s = 7) by lia.
  destruct Hs as [->|[->|[->|[->|[->|[->|[->| ->]]]]]]]; reflexivity.
Qed.

Lemma blocks_of_pos n bs : 0 < bs -> 2 <= blocks_of n bs.
Proof. intros H. unfold blocks_of. assert (0 <= (Z.max 0 n + bs - 1) / bs) by (apply Z.div_pos; lia). lia. Qed.

Definition exch_budget (c : cfg) (bs : Z) (x : exch) : Z :=
  blocks_of (xlen x) bs + match nth_error (cres c) (Z.to_nat (xpath x)) with
                          | Some r => blocks_of (rlen r) bs
                          | None => 2
                          end.

Lemma exch_budget_pos c bs x : 0 < bs -> 0 <= exch_budget c bs x.
Proof.
  intros H. unfold exch_budget. pose proof (blocks_of_pos (xlen x) bs H).
  destruct (nth_error (cres c) (Z.to_nat (xpath x))) as [r|]; [pose proof (blocks_of_pos (rlen r) bs H)|]; lia.
Qed.

Definition budget_step (c : cfg) (bs : Z) (a : Z) (x : exch) : Z :=
  a + blocks_of (xlen x) bs + match nth_error (cres c) (Z.to_nat (xpath x)) with
                              | Some r => blocks_of (rlen r) bs
                              | None => 2
                              end.

Lemma budget_step_eq c bs a x : budget_step c bs a x = a + exch_budget c bs x.
Proof. unfold budget_step, exch_budget. lia. Qed.

Lemma fold_budget_ge c bs l : 0 < bs -> forall a x, In x l ->
  a + exch_budget c bs x <= fold_left (budget_step c bs) l a.
Proof.
  intros Hbs. induction l as [|y l IH]; intros a x []; cbn [fold_left].
  - subst y. clear IH. rewrite budget_step_eq. generalize (a + exch_budget c bs x). intros b.
    revert b. induction l as [|z l IH]; intros b; cbn [fold_left]; [lia|].
    pose proof (exch_budget_pos c bs z Hbs). specialize (IH (budget_step c bs b z)). rewrite budget_step_eq in IH at 1. lia.
  - pose proof (exch_budget_pos c bs y Hbs). specialize (IH (budget_step c bs a y) x H). rewrite budget_step_eq in IH at 1. lia.
Qed.

Lemma trip_budget_ge c i x : 0 <= cszxA c <= 7 -> 0 <= cszxB c <= 7 -> nth_error (cexch c) i = Some x ->
  exch_budget c (size (Z.min (cszxA c) (cszxB c))) x <= trip_budget c.
Proof.
  intros HA HB Hx. unfold trip_budget. rewrite blk_size_size by lia.
  pose proof (size_pos (Z.min (cszxA c) (cszxB c)) ltac:(lia)) as Hs.
  pose proof (fold_budget_ge c (size (Z.min (cszxA c) (cszxB c))) (cexch c) ltac:(lia) 0 x (nth_error_In _ _ Hx)) as H.
  unfold budget_step in H at 1. lia.
Qed.

Lemma res_body0_len r : blen (res_body r 0) = Z.max 0 (rlen r).
Proof. unfold res_body, blen. rewrite gen_body_length. lia. Qed.

(* downloads: Do GET, every body length (the single-block region O3 included), every SZX pair *)
Theorem no_livelock_download c i x r :
  nth_error (cexch c) i = Some x -> xkind x = 0 -> xcode x = GET -> xlen x = 0 ->
  nth_error (cres c) (Z.to_nat (xpath x)) = Some r ->
  0 <= cszxA c <= 7 -> 0 <= cszxB c <= 7 -> (cszxB c = 7 -> 1024 <= cmaxB c) ->
  forall n, livelock c (map Ev (ff_script i n)) (model_obs_d c [] (map Ev (ff_script i n))) = false.
Proof.
  intros Hx Hk Hc Hl Hr HA HB Hbert.
  pose proof (trip_budget_ge c i x HA HB Hx) as Hbud. unfold exch_budget in Hbud. rewrite Hr in Hbud.
  set (s := Z.min (cszxA c) (cszxB c)) in *.
  pose proof (size_pos s ltac:(unfold s; lia)) as Hs.
  pose proof (blocks_of_pos (xlen x) (size s) ltac:(lia)) as Hb1.
  set (L := blen (res_body r 0)).
  assert (Hprog : (L < size (cszxB c) \/ buffer_size (cszxB c) (cmaxB c) < L) ->
                  forall n, livelock c (map Ev (ff_script i n)) (model_obs_d c [] (map Ev (ff_script i n))) = false).
  { intros Hreg.
    destruct (get_progress c i x r Hx Hk Hc Hl Hr HA HB Hbert Hreg) as (q & Hq1 & Hq2 & _ & _ & Hdone).
    destruct Hdone as (_ & _ & _ & _ & _ & _ & Hfl & _).
    apply (no_livelock_after_quiescence c i (2 * q) Hfl).
    fold s in Hq2. rewrite res_body0_len in Hq2. unfold blocks_of in Hbud.
    assert (H1 : 0 <= (Z.max 0 (rlen r) + size s - 1) / size s) by (apply Z.div_pos; lia).
    assert (H2 : 0 <= (Z.max 0 (xlen x) + size s - 1) / size s) by (apply Z.div_pos; lia).
    remember ((Z.max 0 (rlen r) + size s - 1) / size s) as d1 eqn:E1. remember ((Z.max 0 (xlen x) + size s - 1) / size s) as d2 eqn:E2.
    clear E1 E2. lia. }
  destruct (Z_lt_dec L (size (cszxB c))) as [Hsmall|Hbig]; [apply Hprog; left; exact Hsmall|].
  destruct (Z_lt_dec (buffer_size (cszxB c) (cmaxB c)) L) as [Hlarge|Hmid]; [apply Hprog; right; exact Hlarge|].
  destruct (get_single_block c i x r Hx Hk Hc Hl Hr HA HB ltac:(fold L; lia)) as (Hdone & _).
  destruct Hdone as (_ & _ & _ & _ & _ & _ & Hfl & _).
  apply (no_livelock_after_quiescence c i 2 Hfl). unfold blocks_of in Hbud.
  assert (H1 : 0 <= (Z.max 0 (rlen r) + size s - 1) / size s) by (apply Z.div_pos; lia).
  assert (H2 : 0 <= (Z.max 0 (xlen x) + size s - 1) / size s) by (apply Z.div_pos; lia).
  remember ((Z.max 0 (rlen r) + size s - 1) / size s) as d1 eqn:E1. remember ((Z.max 0 (xlen x) + size s - 1) / size s) as d2 eqn:E2.
  clear E1 E2. lia.
Qed.

Module Up := GoCoap.Blockwise.ProofsProgressUp.

Lemma exec_run_w c es : forall w, Up.exec c w es = run_w c w es.
Proof. induction es as [|e es IH]; intros w; [reflexivity|]. cbn [Up.exec run_w]. apply IH. Qed.

(* uploads: Do POST / PUT with a small response, every body length, every SZX pair; in the region O2 the
   sender fails and the peers fall silent as well (the Do ends by its time-out) *)
Theorem no_livelock_upload c i x r :
  nth_error (cexch c) i = Some x -> xkind x = 0 -> xcode x = 2 \/ xcode x = 3 -> 0 <= xlen x ->
  0 <= cszxA c <= 7 -> 0 <= cszxB c <= 7 -> 0 <= cmaxA c -> (cszxA c = 7 -> 1024 <= cmaxA c) ->
  nth_error (cres c) (Z.to_nat (xpath x)) = Some r -> rlen r < 16 ->
  ~ Up.o2_region c (xlen x) ->
  forall n, livelock c (map Ev (ff_script i n)) (model_obs_d c [] (map Ev (ff_script i n))) = false.
Proof.
  intros Hx Hk Hc Hl HA HB HmA Hbert Hr Hrl Hno.
  pose proof (Up.C04_upload_progress c i x r Hx Hk Hc Hl HA HB HmA Hbert Hr Hrl Hno) as Hp. cbv zeta in Hp.
  destruct Hp as (_ & _ & _ & _ & _ & _ & Hfl & Hrounds).
  rewrite exec_run_w in Hfl.
  apply (no_livelock_after_quiescence c i _ Hfl).
  pose proof (trip_budget_ge c i x HA HB Hx) as Hbud. unfold exch_budget in Hbud. rewrite Hr in Hbud.
  set (s := Z.min (cszxA c) (cszxB c)) in *.
  pose proof (size_pos s ltac:(unfold s; lia)) as Hs.
  unfold blocks_of in Hbud. destruct Hrounds as [_ Hrounds]. fold s in Hrounds.
  assert (H1 : 0 <= (Z.max 0 (rlen r) + size s - 1) / size s) by (apply Z.div_pos; lia).
  replace (Z.max 0 (xlen x)) with (xlen x) in Hbud by lia.
  assert (H2 : 0 <= (xlen x + size s - 1) / size s) by (apply Z.div_pos; lia).
  remember ((Z.max 0 (rlen r) + size s - 1) / size s) as d1 eqn:E1. remember ((xlen x + size s - 1) / size s) as d2 eqn:E2.
  clear E1 E2. lia.
Qed.
