(* C15 -- byte level, continued: ResetOptionsTo with an input list that ALIASES
   the message's own value storage (msg.ResetOptionsTo(msg.Options()), a
   filtered / re-ordered / repeated selection of msg.Options(), or any other
   slices that point into arrays the message has written).

   ProofsValues.v models ResetOptionsTo with the input given BY VALUE (the
   bytes are fixed before the copy loop starts). Here the input is a list of
   slice HEADERS and every copy(buf, o.Value) of the loop reads its source
   from the memory as it is AT THAT MOMENT, i.e. after the copies of the
   earlier iterations ([areset_loop]).

   Proved: when every input header is valid and lies outside the writable
   part of the window r.valueBuffer ([safe]: in another array, or entirely
   before the window's offset) -- which the invariant [vwf] guarantees for
   every stored option value, hence for every selection of msg.Options() --
   the aliased call is EQUAL, as a state transformer (memory, list, window,
   result code), to the by-value call with the bytes read before the call.
   So every theorem of ProofsValues.v / ProofsPath.v about OResetTo applies:
   the resulting list reads back as the stable insertion of the selected
   (number, bytes) pairs, the whole own list gives the list back unchanged.

   Section F: the input may also share the receiver's option ARRAY (Options()
   or a sub-slice of it passed back); the range loop then reads in[i] from an
   array whose first i slots were rewritten -- harmless, [shared_array_reset].

   The hypothesis is what makes it true: [alias_rewind_corrupts] evaluates
   the same loop after the window has been rewound to the start of the array
   (so that the input headers lie inside the writable part) and gets wrong
   bytes. *)
From Coq Require Import ZArith List Bool Lia.
From GoCoap Require Import Base.Bytes Gen.OptConsts Opt.Model Opt.Spec Opt.Proofs Opt.ProofsPath Opt.ProofsValues.
Import ListNotations.
Open Scope Z_scope.

Ltac Zify.zify_post_hook ::= Z.to_euclidean_division_equations.

(* ------------------------------------------------------------------ *)
(* A. the model: Options.ResetOptionsTo(buf, in) with [in] a list of views *)

(* sum of len(o.Value) over the input (first loop of ResetOptionsTo) *)
Definition sum_hn (hs : list opt) : Z := fold_left (fun a o => a + hn (oval o)) hs 0.

(* the copy loop: copy(buf, o.Value) reads the CURRENT memory (Go's copy is a
   memmove: the source bytes are taken before the destination is written) *)
Fixpoint areset_loop (ins : list opt) (m : mem) (opts : list opt) (sl : slice) (used : Z) : vres :=
  match ins with
  | [] => (m, (opts, used, ENone))
  | o :: r =>
    let n := hn (oval o) in
    areset_loop r (write m (s_buf sl) (s_off sl) (rd m (oval o)))
                (add opts (oid o, hdr sl n)) (from sl n) (used + n)
  end.
Definition areset_options_to (m : mem) (l : list opt) (sl : slice) (ins : list opt) : vres :=
  if s_len sl <? sum_hn ins then (m, (l, sum_hn ins, ETooSmall))
  else areset_loop ins m [] sl 0.

(* pool.Message.ResetOptionsTo(in): call, append and call again when too
   small, panic on any other error, r.valueBuffer = r.valueBuffer[used:] *)
Definition vreset_alias (s : vstate) (hs : list opt) (slack : Z) : vstate * Z :=
  vpanics (vwith_retry s (fun m sl => areset_options_to m (v_opts s) sl hs) (fun u => u) slack).

(* [pick l sel] (Model.v): the options at the positions sel of l *)
Definition positions (l : list opt) : list Z := map Z.of_nat (seq 0 (length l)).

(* input headers the theorem is about *)
Definition hdrs_ok (m : mem) (w : slice) (hs : list opt) : Prop :=
  Forall (fun o => valid m (oval o) /\ safe w (oval o)) hs.

(* ------------------------------------------------------------------ *)
(* B. the aliased loop against the by-value loop                       *)

Lemma len_rd m h : valid m h -> len (rd m h) = hn h.
Proof.
  intros (V1 & V2 & V3 & V4). unfold rd. apply len_take. rewrite len_drop by lia. lia.
Qed.

Lemma sum_hn_from hs : forall u, fold_left (fun a o => a + hn (oval o)) hs u = u + sum_hn hs.
Proof.
  unfold sum_hn. induction hs as [|x hs IH]; intros u; cbn [fold_left]; [lia|].
  rewrite IH, (IH (0 + _)). lia.
Qed.
Lemma sum_hn_cons o r : sum_hn (o :: r) = hn (oval o) + sum_hn r.
Proof. unfold sum_hn at 1. cbn [fold_left]. rewrite sum_hn_from. lia. Qed.

Lemma sum_len_proj m hs : Forall (fun o => valid m (oval o)) hs -> sum_len (proj m hs) = sum_hn hs.
Proof.
  induction 1 as [|o r Ho Hr IH]; [reflexivity|].
  cbn [proj map]. rewrite sum_len_cons, sum_hn_cons. fold (proj m r). rewrite IH.
  unfold pj. cbn [oval snd]. rewrite len_rd by assumption. reflexivity.
Qed.

Lemma hdrs_ok_valid m w hs : hdrs_ok m w hs -> Forall (fun o => valid m (oval o)) hs.
Proof. intros H. eapply Forall_impl; [|exact H]. cbv beta. intros o [V _]. exact V. Qed.

(* the input survives a memory change that keeps its views *)
Lemma hdrs_ok_keeps m w hs m' w' : hdrs_ok m w hs -> keeps m w m' ->
  (forall h, valid m h -> safe w h -> safe w' h) ->
  hdrs_ok m' w' hs /\ proj m' hs = proj m hs.
Proof.
  intros Hf [M K] Hw. split.
  - eapply Forall_impl; [|exact Hf]. cbv beta. intros o [V Sf].
    split; [eapply valid_mext; eassumption|apply Hw; assumption].
  - unfold proj. apply map_ext_in. intros o Ho. unfold hdrs_ok in Hf. rewrite Forall_forall in Hf.
    destruct (Hf o Ho) as [V Sf]. unfold pj. rewrite K by assumption. reflexivity.
Qed.

Lemma areset_loop_eq ins : forall m opts sl used, win_ok m sl -> hdrs_ok m sl ins -> sum_hn ins <= s_len sl ->
  areset_loop ins m opts sl used = vreset_loop (proj m ins) m opts sl used.
Proof.
  induction ins as [|[i h] r IH]; intros m opts sl used Hw Hf Hs; [reflexivity|].
  inversion Hf as [|? ? [Hv Hsf] Hr]; subst. cbn [oval snd] in Hv, Hsf.
  rewrite sum_hn_cons in Hs. cbn [oval snd] in Hs. pose proof Hv as (_ & _ & Hn & _).
  assert (Hrn : 0 <= sum_hn r).
  { rewrite <- (sum_len_proj m r) by (apply (hdrs_ok_valid m sl); assumption). apply sum_len_nonneg. }
  pose proof Hw as (V1 & V2 & V3 & V4).
  cbn [areset_loop proj map vreset_loop]. change (pj m (i, h)) with (i, rd m h). cbn [oid oval fst snd].
  rewrite (len_rd m h) by assumption.
  set (n := hn h) in *. set (m' := write m (s_buf sl) (s_off sl) (rd m h)).
  assert (K : keeps m sl m').
  { apply keeps_write; [assumption|lia|]. rewrite len_rd by assumption. fold n. lia. }
  destruct (hdrs_ok_keeps m sl r m' (from sl n) Hr K) as [Hr' P].
  { intros h0 _ Hh. apply safe_from; assumption. }
  fold (proj m r). rewrite <- P. apply IH.
  - apply win_ok_from; [|lia]. apply (win_ok_mext m); [apply K|assumption].
  - exact Hr'.
  - cbn [from s_len]. lia.
Qed.

Lemma areset_options_to_eq m l sl ins : win_ok m sl -> hdrs_ok m sl ins ->
  areset_options_to m l sl ins = vreset_options_to m l sl (proj m ins).
Proof.
  intros Hw Hf. unfold areset_options_to, vreset_options_to.
  rewrite (sum_len_proj m ins) by (apply (hdrs_ok_valid m sl); assumption).
  destruct (Z.ltb_spec (s_len sl) (sum_hn ins)) as [Hlt|Hge]; [reflexivity|].
  apply areset_loop_eq; assumption.
Qed.

(* ------------------------------------------------------------------ *)
(* C. the builder call                                                 *)

(* two functions that agree on the (at most two) calls of grow-and-retry *)
Lemma vwith_retry_ext s vf vf' gr slack :
  vf (v_mem s) (v_win s) = vf' (v_mem s) (v_win s) ->
  (forall m1 r1, vf' (v_mem s) (v_win s) = (m1, r1) -> snd r1 = ETooSmall ->
     vf (fst (grow m1 (v_win s) (gr (snd (fst r1))) slack)) (snd (grow m1 (v_win s) (gr (snd (fst r1))) slack)) =
     vf' (fst (grow m1 (v_win s) (gr (snd (fst r1))) slack)) (snd (grow m1 (v_win s) (gr (snd (fst r1))) slack))) ->
  vwith_retry s vf gr slack = vwith_retry s vf' gr slack.
Proof.
  intros H1 H2. unfold vwith_retry. rewrite H1.
  destruct (vf' (v_mem s) (v_win s)) as [m1 r1] eqn:E1.
  destruct (Z.eqb_spec (snd r1) ETooSmall) as [Es|Hne]; [|reflexivity].
  specialize (H2 m1 r1 eq_refl Es).
  destruct (grow m1 (v_win s) (gr (snd (fst r1))) slack) as [m2 w2]. cbn [fst snd] in H2.
  rewrite H2. reflexivity.
Qed.

(* ResetOptionsTo with views that are valid and outside the writable part of
   the window IS ResetOptionsTo with the bytes those views denote before the
   call: same memory, same list of headers, same window, same result *)
Theorem vreset_alias_eq s hs slack b : vwf s -> 0 <= slack -> hdrs_ok (v_mem s) (v_win s) hs ->
  vreset_alias s hs slack = vstep s (OResetTo (proj (v_mem s) hs) b) slack.
Proof.
  intros (Hw & _ & Hl) Hsl Hf. unfold vreset_alias. cbn [vstep]. f_equal.
  apply vwith_retry_ext.
  - apply areset_options_to_eq; assumption.
  - intros m1 r1 E Es.
    (* the first answer was ErrTooSmall: nothing was written *)
    assert (G : m1 = v_mem s /\ 0 <= snd (fst r1)).
    { unfold vreset_options_to in E. pose proof (sum_len_nonneg (proj (v_mem s) hs)) as Hn.
      destruct (Z.ltb_spec (s_len (v_win s)) (sum_len (proj (v_mem s) hs))) as [Hlt|Hge].
      - inversion E; subst. cbn [fst snd]. split; [reflexivity|assumption].
      - destruct (vreset_loop_sim (proj (v_mem s) hs) (v_mem s) [] (v_win s) 0 Hw (lok_nil _ _) Hge)
          as (m' & l' & E' & _). rewrite E' in E. inversion E; subst. cbn [snd] in Es. discriminate. }
    destruct G as [-> Hk].
    destruct (grow_ok (v_mem s) (v_win s) (snd (fst r1)) slack Hw Hk Hsl) as (G1 & G2 & _ & G4).
    destruct (hdrs_ok_keeps _ _ hs _ _ Hf G1 G4) as [Hf2 P2].
    rewrite <- P2. apply areset_options_to_eq; assumption.
Qed.

(* ------------------------------------------------------------------ *)
(* D. the message's own options                                        *)

Lemma pick_In l sel x : In x (pick l sel) -> In x l.
Proof.
  unfold pick. rewrite in_flat_map. intros (i & _ & Hi).
  destruct (Z.leb_spec 0 i); destruct (Z.ltb_spec i (len l)); cbn [andb] in Hi; try contradiction.
  destruct Hi as [<-|[]]. unfold nthz. destruct (Z.ltb_spec i 0); [lia|]. apply nth_In. unfold len in *. lia.
Qed.

Lemma pick_map (g : opt -> opt) l sel : pick (map g l) sel = map g (pick l sel).
Proof.
  unfold pick. induction sel as [|i sel IH]; [reflexivity|]. cbn [flat_map]. rewrite map_app, IH. f_equal.
  rewrite len_map.
  destruct (Z.leb_spec 0 i); destruct (Z.ltb_spec i (len l)); cbn [andb map]; try reflexivity.
  f_equal. unfold nthz. destruct (Z.ltb_spec i 0); [lia|].
  rewrite (nth_indep _ zero_opt (g zero_opt)) by (rewrite map_length; unfold len in *; lia).
  apply map_nth.
Qed.

Lemma pick_positions l : pick l (positions l) = l.
Proof.
  unfold pick, positions.
  assert (G : forall pre suf, flat_map (fun i => if (0 <=? i) && (i <? len (pre ++ suf)) then [nthz (pre ++ suf) i] else [])
                        (map Z.of_nat (seq (length pre) (length suf))) = suf).
  { intros pre suf. revert pre. induction suf as [|x suf IH]; intros pre; [reflexivity|].
    cbn [length seq map flat_map]. rewrite len_app, len_cons. pose proof (len_nonneg suf) as Hs.
    destruct (Z.leb_spec 0 (Z.of_nat (length pre))); [|lia].
    destruct (Z.ltb_spec (Z.of_nat (length pre)) (len pre + (len suf + 1))); [|unfold len in *; lia].
    cbn [andb app]. f_equal.
    - unfold nthz. destruct (Z.ltb_spec (Z.of_nat (length pre)) 0); [lia|]. rewrite Nat2Z.id.
      rewrite app_nth2 by lia. rewrite Nat.sub_diag. reflexivity.
    - specialize (IH (pre ++ [x])). rewrite <- app_assoc in IH. cbn [app] in IH.
      rewrite app_length in IH. cbn [length] in IH. rewrite Nat.add_1_r in IH.
      rewrite len_app, len_cons in IH. exact IH. }
  exact (G [] l).
Qed.

Lemma positions_map (g : opt -> opt) l : positions (map g l) = positions l.
Proof. unfold positions. rewrite map_length. reflexivity. Qed.

(* every selection of the stored options is a legal aliased input *)
Lemma own_hdrs_ok s sel : vwf s -> hdrs_ok (v_mem s) (v_win s) (pick (v_opts s) sel).
Proof.
  intros Hwf. unfold hdrs_ok. rewrite Forall_forall. intros x Hx.
  apply stored_valid_safe; [assumption|]. eapply pick_In; eassumption.
Qed.

(* msg.ResetOptionsTo(selection of msg.Options()): reads back as the level-1
   builder step with the selected (number, bytes) pairs of the list BEFORE the
   call; invariant kept; no valid header outside the window changes *)
Theorem reset_own_sim s sel slack b : vwf s -> 0 <= slack ->
  let r := vreset_alias s (pick (v_opts s) sel) slack in
  mstep (mproj s) (OResetTo (pick (m_opts (mproj s)) sel) b) = (mproj (fst r), snd r) /\ vwf (fst r) /\
  keeps (v_mem s) (v_win s) (v_mem (fst r)) /\ protects (v_mem s) (v_win s) (v_win (fst r)).
Proof.
  intros Hwf Hsl. cbv zeta.
  rewrite (vreset_alias_eq s _ slack b Hwf Hsl (own_hdrs_ok s sel Hwf)).
  assert (E : pick (m_opts (mproj s)) sel = proj (v_mem s) (pick (v_opts s) sel))
    by (cbn [mproj m_opts]; unfold proj; apply pick_map).
  rewrite E.
  destruct (vstep_sim s (OResetTo (proj (v_mem s) (pick (v_opts s) sel)) b) slack Hwf Hsl) as (A & B & C & D).
  split; [exact A|]. split; [exact B|]. split; [exact C|]. apply D. discriminate.
Qed.

Lemma mwf_mproj s : vwf s -> mwf (mproj s).
Proof.
  intros (Hw & _ & [Hs _]). split; [apply sorted_proj; assumption|]. cbn [mproj m_vb]. destruct Hw as (_ & _ & ? & _). lia.
Qed.

(* ... judged by the reference: the call is performed, and the list is the
   stable insertion (ascending by number, input order kept among equal
   numbers) of the selected options with the bytes they had before the call *)
Theorem reset_own_reference s sel slack : vwf s -> 0 <= slack ->
  let r := vreset_alias s (pick (v_opts s) sel) slack in
  snd r = ENone /\
  proj (v_mem (fst r)) (v_opts (fst r)) = fold_ref (pick (proj (v_mem s) (v_opts s)) sel) [] /\
  vwf (fst r).
Proof.
  intros Hwf Hsl. cbv zeta.
  destruct (reset_own_sim s sel slack 0 Hwf Hsl) as (A & B & _). cbv zeta in A.
  pose proof (mstep_refines_full (mproj s) (OResetTo (pick (m_opts (mproj s)) sel) 0) (mwf_mproj s Hwf) I) as R.
  rewrite A in R. destruct R as [[_ R] _]. cbn [ref_step andb orb] in R. destruct R as [E L].
  split; [exact E|]. split; [|exact B]. cbn [mproj m_opts] in L. exact L.
Qed.

(* msg.ResetOptionsTo(msg.Options()): the list is what it was *)
Theorem reset_own_identity s slack : vwf s -> 0 <= slack ->
  let r := vreset_alias s (v_opts s) slack in
  snd r = ENone /\ proj (v_mem (fst r)) (v_opts (fst r)) = proj (v_mem s) (v_opts s) /\ vwf (fst r).
Proof.
  intros Hwf Hsl. cbv zeta.
  pose proof (reset_own_reference s (positions (v_opts s)) slack Hwf Hsl) as R. cbv zeta in R.
  rewrite pick_positions in R. destruct R as (E & L & W). split; [exact E|]. split; [|exact W].
  rewrite L. unfold proj. rewrite <- (positions_map (pj (v_mem s)) (v_opts s)), pick_positions.
  fold (proj (v_mem s) (v_opts s)).
  apply (fold_ref_sorted _ []). cbn [app]. apply sorted_proj. destruct Hwf as (_ & _ & [Hs _]). exact Hs.
Qed.

(* ------------------------------------------------------------------ *)
(* E. the hypothesis [safe] is needed                                  *)

(* a message built by SetContentFormat(50) then SetObserve(5): the values
   were stored in the order 12, 6; the list is [6 -> byte 1; 12 -> byte 0] *)
Definition ex_state : vstate :=
  fst (vstep (fst (vstep vnew (OSetU32 12 50 0) 0)) (OSetU32 6 5 0) 0).

Example alias_own_ok :
  let r := vreset_alias ex_state (v_opts ex_state) 0 in
  proj (v_mem (fst r)) (v_opts (fst r)) = [(6, [5]); (12, [50])].
Proof. vm_compute. reflexivity. Qed.

(* the same call after r.valueBuffer has been rewound to the start of the
   array (the stored values now lie INSIDE the writable part of the window:
   not [safe]): the copy of option 6 lands on the byte of option 12 before
   that one is copied *)
Example alias_rewind_corrupts :
  let s := {| v_mem := v_mem ex_state; v_opts := v_opts ex_state; v_win := v_orig ex_state; v_orig := v_orig ex_state |} in
  let r := vreset_alias s (v_opts s) 0 in
  proj (v_mem s) (v_opts s) = [(6, [5]); (12, [50])] /\
  proj (v_mem (fst r)) (v_opts (fst r)) = [(6, [5]); (12, [5])].
Proof. vm_compute. split; reflexivity. Qed.

(* ------------------------------------------------------------------ *)
(* F. the input shares the receiver's option ARRAY                      *)

(* Options.ResetOptionsTo(buf, in) with in = options[a : a+n] (Options()
   itself: a = 0, n = len): opts := options[:0]; for _, o := range in
   { opts = opts.Add(Option{o.ID, ..}) }. [arr] is the backing array. After i
   iterations it holds opts (i options) in its first i slots; the range loop
   reads in[i] = slot a+i of the array AS IT IS THEN; Add on a slice of length
   i within its capacity writes the slots 0..i. (Values: by ProofsAlias.v B-D
   the bytes are those before the call; here an option is (number, bytes).) *)
Fixpoint sreset_loop (n : nat) (i a : Z) (arr : list opt) : list opt :=
  match n with
  | O => take arr i
  | S f => let o := nthz arr (a + i) in
           sreset_loop f (i + 1) a (add (take arr i) o ++ drop arr (i + 1))
  end.

Lemma len_ref_add o l : len (ref_add o l) = len l + 1.
Proof.
  induction l as [|x l IH]; [reflexivity|]. cbn [ref_add]. destruct (oid x <=? oid o).
  - rewrite !len_cons, IH. reflexivity.
  - rewrite !len_cons. reflexivity.
Qed.

Lemma take_app_len {A} (a b : list A) : take (a ++ b) (len a) = a.
Proof. unfold take, len. rewrite Nat2Z.id. rewrite firstn_app, Nat.sub_diag, firstn_all. cbn [firstn]. apply app_nil_r. Qed.
Lemma drop_app_len {A} (a b : list A) k : 0 <= k -> drop (a ++ b) (len a + k) = drop b k.
Proof.
  intros Hk. unfold drop, len. rewrite skipn_app.
  rewrite skipn_all2 by lia. cbn [app]. f_equal. lia.
Qed.
Lemma drop_drop {A} (l : list A) a b : 0 <= a -> 0 <= b -> drop (drop l a) b = drop l (a + b).
Proof.
  intros Ha Hb. unfold drop. replace (Z.to_nat (a + b)) with (Z.to_nat a + Z.to_nat b)%nat by lia.
  generalize (Z.to_nat a) as x. generalize (Z.to_nat b) as y. clear. intros y x. revert l.
  induction x as [|x IH]; intros l; [reflexivity|]. destruct l as [|h l]; [destruct y; reflexivity|]. apply IH.
Qed.
Lemma take_S_drop l k (f : nat) : 0 <= k -> k + Z.of_nat (S f) <= len l ->
  take (drop l k) (Z.of_nat (S f)) = nthz l k :: take (drop l (k + 1)) (Z.of_nat f).
Proof.
  intros Hk Hl. unfold take, drop, nthz, len in *. destruct (Z.ltb_spec k 0); [lia|].
  rewrite !Nat2Z.id. replace (Z.to_nat (k + 1)) with (S (Z.to_nat k)) by lia.
  set (K := Z.to_nat k). assert (HK : (K < length l)%nat) by lia. clearbody K. clear -HK.
  revert K HK. induction l as [|x l IH]; intros K HK; [cbn in HK; lia|].
  destruct K as [|K]; [destruct l; reflexivity|]. cbn [skipn nth]. apply IH. cbn in HK. lia.
Qed.

Lemma sreset_loop_inv arr a : 0 <= a -> forall n i opts, len opts = i -> sorted opts ->
  a + i + Z.of_nat n <= len arr ->
  sreset_loop n i a (opts ++ drop arr i) = fold_add (take (drop arr (a + i)) (Z.of_nat n)) opts.
Proof.
  intros Ha. induction n as [|f IH]; intros i opts Hi Hs Hl; pose proof (len_nonneg opts) as Hn.
  - cbn [sreset_loop]. rewrite <- Hi, take_app_len. reflexivity.
  - cbn [sreset_loop].
    assert (E1 : take (opts ++ drop arr i) i = opts) by (rewrite <- Hi; apply take_app_len).
    assert (E2 : nthz (opts ++ drop arr i) (a + i) = nthz arr (a + i)).
    { rewrite nthz_app_r by lia. rewrite nthz_drop by lia. f_equal. lia. }
    assert (E3 : drop (opts ++ drop arr i) (i + 1) = drop arr (i + 1)).
    { rewrite <- Hi at 2. rewrite drop_app_len by lia. rewrite drop_drop by lia. reflexivity. }
    rewrite E1, E2, E3. destruct (add_refines opts (nthz arr (a + i)) Hs) as [Ea Sa].
    rewrite (IH (i + 1) (add opts (nthz arr (a + i)))).
    + rewrite take_S_drop by lia. unfold fold_add. cbn [fold_left]. do 3 f_equal. lia.
    + rewrite Ea, len_ref_add. lia.
    + exact Sa.
    + lia.
Qed.

(* passing Options()[a : a+n] back: the list that comes out is the one the
   by-value loop builds from the options that were in those slots before *)
Theorem shared_array_reset arr a n : 0 <= a -> a + Z.of_nat n <= len arr ->
  sreset_loop n 0 a arr = fold_add (take (drop arr a) (Z.of_nat n)) [].
Proof.
  intros Ha Hl. pose proof (sreset_loop_inv arr a Ha n 0 [] eq_refl sorted_nil) as H.
  cbn [app] in H. unfold drop at 1 in H. cbn [Z.to_nat skipn] in H. rewrite Z.add_0_r in H. apply H. lia.
Qed.
