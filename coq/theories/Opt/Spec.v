(* C15 -- the reference: what the property text says an option list is.
   Written from the property statement and RFC 7252 (options ascending by
   number, repeated options keep insertion order, uint options are minimal
   big-endian, Uri-Path segments are at most 255 bytes), not from the code.
   The only things shared with the model are the data types (an option is a
   number and a byte string; the operation alphabet). *)
From Coq Require Import ZArith List Bool.
From GoCoap Require Import Base.Bytes Opt.Model.
Import ListNotations.
Open Scope Z_scope.

(* ---- the sorted multiset ---- *)

(* insert after every option whose number is <= the new one *)
Fixpoint ref_add (o : opt) (l : list opt) : list opt :=
  match l with
  | [] => [o]
  | x :: r => if oid x <=? oid o then x :: ref_add o r else o :: x :: r
  end.
Definition ref_remove (id : Z) (l : list opt) : list opt :=
  filter (fun x => negb (oid x =? id)) l.
Definition ref_set (o : opt) (l : list opt) : list opt := ref_add o (ref_remove (oid o) l).

Fixpoint ref_sorted (l : list opt) : bool :=
  match l with
  | [] => true
  | x :: r => match r with [] => true | y :: _ => (oid x <=? oid y) && ref_sorted r end
  end.

(* ---- queries on the reference list ---- *)

Definition ref_values (id : Z) (l : list opt) : list (list Z) :=
  map oval (filter (fun x => oid x =? id) l).
Definition ref_count (id : Z) (l : list opt) : Z := len (ref_values id l).
Definition ref_before (id : Z) (l : list opt) : Z := len (filter (fun x => oid x <? id) l).
Definition ref_has (id : Z) (l : list opt) : bool := 0 <? ref_count id l.
(* positions [first, last) of the options numbered id *)
Definition ref_find (id : Z) (l : list opt) : option (Z * Z) :=
  if ref_has id l then Some (ref_before id l, ref_before id l + ref_count id l) else None.
Definition ref_first (id : Z) (l : list opt) : option (list Z) :=
  match ref_values id l with [] => None | v :: _ => Some v end.

(* uint option value: big-endian, at most four bytes are significant *)
Definition ref_uint (v : list Z) : Z := be (firstn 4 v).
(* minimal big-endian encoding of a 32-bit value (0 = empty string) *)
Definition uint_len (v : Z) : Z :=
  if v <=? 0 then 0 else if v <? 256 then 1 else if v <? 65536 then 2 else if v <? 16777216 then 3 else 4.
Definition uint_bytes (v : Z) : list Z :=
  match uint_len v with
  | 0 => []
  | 1 => [v]
  | 2 => [v / 256; v mod 256]
  | 3 => [v / 65536; (v / 256) mod 256; v mod 256]
  | _ => [v / 16777216; (v / 65536) mod 256; (v / 256) mod 256; v mod 256]
  end.

(* ---- paths ---- *)

(* split at '/' (47); empty segments dropped *)
Fixpoint segs_aux (p cur : list Z) : list (list Z) :=
  match p with
  | [] => match cur with [] => [] | _ => [cur] end
  | c :: r =>
    if c =? 47 then match cur with [] => segs_aux r [] | _ => cur :: segs_aux r [] end
    else segs_aux r (cur ++ [c])
  end.
Definition segments (p : list Z) : list (list Z) := segs_aux p [].
(* one leading slash per segment, empty segments dropped; a path without
   segments has no Uri-Path option at all and joins to the empty string *)
Definition join (ss : list (list Z)) : list Z := concat (map (fun s => 47 :: s) ss).
Definition normalise (p : list Z) : list Z := join (segments p).
Definition segs_ok (p : list Z) : bool := forallb (fun s => len s <=? 255) (segments p).
Definition segs_total (p : list Z) : Z := fold_left (fun a s => a + len s) (segments p) 0.

Definition ref_path (id : Z) (l : list opt) : list Z := join (ref_values id l).

(* ---- one editing operation: Some l' = performed, None = refused (list
   unchanged). An operation is refused exactly when the caller's buffer
   cannot hold the value(s), or a Uri-Path segment is longer than 255 bytes.
   pool.Message grows its buffer: bounded = false. ---- *)

Definition uri_path : Z := 11.

Definition ref_step (bounded : bool) (l : list opt) (o : op) : option (list opt) :=
  let small (b need : Z) := bounded && (b <? need) in
  match o with
  | OSet id v => Some (ref_set (id, v) l)
  | OAdd id v => Some (ref_add (id, v) l)
  | ORemove id => Some (ref_remove id l)
  | OSetBytes id v b =>
      if small b (len v) || ((id =? uri_path) && (255 <? len v)) then None else Some (ref_set (id, v) l)
  | OAddBytes id v b =>
      if small b (len v) || ((id =? uri_path) && (255 <? len v)) then None else Some (ref_add (id, v) l)
  | OSetU32 id v b => if small b (uint_len v) then None else Some (ref_set (id, uint_bytes v) l)
  | OAddU32 id v b => if small b (uint_len v) then None else Some (ref_add (id, uint_bytes v) l)
  | OSetPath id p b =>
      match p with
      | [] => Some l     (* the empty string means "no path given" *)
      | _ => if negb (segs_ok p) || small b (segs_total p) then None
             else Some (fold_left (fun acc s => ref_add (id, s) acc) (segments p) (ref_remove id l))
      end
  | OResetTo ins b =>
      if small b (sum_len ins) then None
      else Some (fold_left (fun acc x => ref_add x acc) ins [])
  | OClone => Some l
  | OReset => Some []
  end.

Definition ref_apply (bounded : bool) (l : list opt) (o : op) : list opt :=
  match ref_step bounded l o with Some l' => l' | None => l end.
Definition ref_run (bounded : bool) (ops : list op) (l : list opt) : list opt :=
  fold_left (ref_apply bounded) ops l.
