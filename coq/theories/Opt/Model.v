(* C15 -- executable transcription of message/options.go (findPosition, Find,
   Set, Add, Remove, the getters, setPath/path/GetPathBufferSize,
   ResetOptionsTo, Clone), message/encodeDecodeUint32.go and the builder
   methods of message/pool/message.go that consume the value buffer.

   Level 1 (this part): an option is (ID, value bytes); an Options slice is
   the list of its len elements. The in-place loops of Set/Add/Remove are
   written as loops over [upd] on an array that has one more slot, exactly as
   the Go code shifts elements. Index expressions that can leave the slice in
   the getters are explicit: [Panic].

   Level 2 (section "value buffer"): pool.Message with its value buffer as
   arrays in a memory and option values as views (array, offset, length), so
   that buffer growth (append may or may not reallocate) is explicit.

   No proofs here. *)
From Coq Require Import ZArith List Bool.
From GoCoap Require Import Base.Bytes Gen.OptConsts.
Import ListNotations.
Open Scope Z_scope.

Definition opt := (Z * list Z)%type.          (* Option{ID, Value} *)
Definition oid (o : opt) : Z := fst o.
Definition oval (o : opt) : list Z := snd o.
Definition zero_opt : opt := (0, []).          (* Option{} *)

Definition len {A} (l : list A) : Z := Z.of_nat (length l).
Definition nthz (l : list opt) (i : Z) : opt :=
  if i <? 0 then zero_opt else nth (Z.to_nat i) l zero_opt.
(* the options at the given positions of a list (positions outside the list are
   skipped): how a caller derives an input for ResetOptionsTo from Options()
   itself -- the list, a filtered, re-ordered or repeating copy of it *)
Definition pick (l : list opt) (sel : list Z) : list opt :=
  flat_map (fun i => if (0 <=? i) && (i <? len l) then [nthz l i] else []) sel.
Fixpoint upd_nat (l : list opt) (n : nat) (o : opt) : list opt :=
  match l, n with
  | [], _ => []
  | _ :: r, O => o :: r
  | x :: r, S n' => x :: upd_nat r n' o
  end.
Definition upd (l : list opt) (i : Z) (o : opt) : list opt :=
  if i <? 0 then l else upd_nat l (Z.to_nat i) o.
Definition take {A} (l : list A) (n : Z) : list A := firstn (Z.to_nat n) l.
Definition drop {A} (l : list A) (n : Z) : list A := skipn (Z.to_nat n) l.

(* error classes: 0 nil, 1 ErrTooSmall, 2 ErrInvalidValueLength, 3 ErrOptionNotFound *)
Definition ENone : Z := 0.
Definition ETooSmall : Z := 1.
Definition EInvalidValueLength : Z := 2.
Definition ENotFound : Z := 3.

(* ------------------------------------------------------------------ *)
(* findPosition                                                        *)

(* for maxIdx = pivot; maxIdx < len && ID[maxIdx] <= id; maxIdx++ *)
Fixpoint scan_up (fuel : nat) (l : list opt) (id i : Z) : Z :=
  match fuel with
  | O => i
  | S f => if (i <? len l) && (oid (nthz l i) <=? id) then scan_up f l id (i + 1) else i
  end.
(* for minIdx = pivot; minIdx >= 0 && ID[minIdx] >= id; minIdx-- *)
Fixpoint scan_down (fuel : nat) (l : list opt) (id i : Z) : Z :=
  match fuel with
  | O => i
  | S f => if (0 <=? i) && (id <=? oid (nthz l i)) then scan_down f l id (i - 1) else i
  end.

(* the for/switch loop; (-2,-2) = out of fuel (excluded by fp_loop_fuel) *)
Fixpoint fp_loop (fuel : nat) (l : list opt) (id pivot minI maxI : Z) : Z * Z :=
  match fuel with
  | O => (-2, -2)
  | S f =>
    let pid := oid (nthz l pivot) in
    if (id =? pid) || (Z.quot (maxI - minI) 2 =? 0) then
      let mx := scan_up (S (length l)) l id pivot in
      let mx := if mx =? len l then -1 else mx in
      let mn := scan_down (S (length l)) l id pivot in
      (mn, mx)
    else if id <? pid then
      let maxI := pivot in fp_loop f l id (maxI - Z.quot (maxI - minI) 2) minI maxI
    else
      let minI := pivot in fp_loop f l id (minI + Z.quot (maxI - minI) 2) minI maxI
  end.

Definition fp_fuel (l : list opt) : nat := (2 * length l + 2)%nat.

Definition find_position (l : list opt) (id : Z) : Z * Z :=
  match l with
  | [] => (-1, 0)
  | _ => fp_loop (fp_fuel l) l id 0 0 (len l)
  end.

(* Find: Some (first, last) | None = ErrOptionNotFound *)
Definition find (l : list opt) (id : Z) : option (Z * Z) :=
  let '(pre, post) := find_position l id in
  if (pre =? -1) && (post =? 0) then None
  else if (pre =? len l - 1) && (post =? -1) then None
  else if (pre <? post) && (post - pre =? 1) then None
  else Some (pre + 1, if post <? 0 then len l else post).

(* ------------------------------------------------------------------ *)
(* Set / Add / Remove: loops on an array that already has len+1 slots   *)

(* for i := start; k times; i-- { a[i] = a[i-1] } *)
Fixpoint shift_right (k : nat) (a : list opt) (i : Z) : list opt :=
  match k with
  | O => a
  | S k' => shift_right k' (upd a i (nthz a (i - 1))) (i - 1)
  end.
(* for k times { a[dst] = a[src]; dst++; src++ } *)
Fixpoint move_left (k : nat) (a : list opt) (dst src : Z) : list opt :=
  match k with
  | O => a
  | S k' => move_left k' (upd a dst (nthz a src)) (dst + 1) (src + 1)
  end.

Definition set_go (l : list opt) (o : opt) (ins upTo upFrom : Z) : list opt :=
  let n := len l in
  let a := l ++ [zero_opt] in
  let k := Z.to_nat (n - upFrom) in
  if upFrom <? upTo then
    let a := shift_right k a n in
    take (upd a ins o) (upTo + (n - upFrom))
  else
    let a := move_left k a upTo upFrom in
    take (upd a ins o) (upTo + (n - upFrom)).

Definition set (l : list opt) (o : opt) : list opt :=
  let '(pre, post) := find_position l (oid o) in
  if (pre =? -1) && (post =? -1) then [o]
  else
    let n := len l in
    if (pre =? -1) && (0 <=? post) then set_go l o 0 1 post
    else if pre =? post then set_go l o pre (pre + 1) pre
    else if 0 <=? pre then
      let upFrom := if post <? 0 then n else post in
      if pre + 2 =? upFrom then upd l (pre + 1) o else set_go l o (pre + 1) (pre + 2) upFrom
    else set_go l o 0 0 0.

Definition add (l : list opt) (o : opt) : list opt :=
  let '(_, post) := find_position l (oid o) in
  let post := if post =? -1 then len l else post in
  let a := l ++ [zero_opt] in
  let n := len l in
  (* for i := len(a)-1; i > post; i-- { a[i] = a[i-1] } *)
  let a := shift_right (Z.to_nat (n - post)) a n in
  upd a post o.

Definition remove (l : list opt) (id : Z) : list opt :=
  match find l id with
  | None => l
  | Some (pre, post) =>
    let n := len l in
    let a := move_left (Z.to_nat (n - post)) l pre post in
    take a (n - (post - pre))
  end.

(* ------------------------------------------------------------------ *)
(* uint32 values                                                       *)

Definition be_bytes (n : nat) (v : Z) : list Z :=
  map (fun k => (v / 256 ^ Z.of_nat k) mod 256) (rev (seq 0 n)).

(* EncodeUint32(buf, value) with len(buf) = buflen: (n, err, bytes written) *)
Definition encode_uint32 (buflen v : Z) : Z * Z * list Z :=
  let need := if v =? 0 then 0 else if v <=? max1ByteNumber then 1
              else if v <=? max2ByteNumber then 2 else if v <=? max3ByteNumber then 3 else 4 in
  if buflen <? need then (need, ETooSmall, []) else (need, ENone, be_bytes (Z.to_nat need) v).

(* DecodeUint32: first four bytes, big endian *)
Definition decode_uint32 (b : list Z) : Z := be (firstn 4 b).

(* ------------------------------------------------------------------ *)
(* byte-copying setters of Options: result (options, used, err)        *)

Definition sres := (list opt * Z * Z)%type.

Definition set_bytes (l : list opt) (buflen id : Z) (data : list Z) : sres :=
  if buflen <? len data then (l, len data, ETooSmall)
  else if (id =? URIPath) && (maxPathValue <? len data) then (l, -1, EInvalidValueLength)
  else (set l (id, data), len data, ENone).

Definition add_bytes (l : list opt) (buflen id : Z) (data : list Z) : sres :=
  if buflen <? len data then (l, len data, ETooSmall)
  else if (id =? URIPath) && (maxPathValue <? len data) then (l, -1, EInvalidValueLength)
  else (add l (id, data), len data, ENone).

Definition set_uint32 (l : list opt) (buflen id v : Z) : sres :=
  let '(n, e, b) := encode_uint32 buflen v in
  if e =? ENone then (set l (id, b), n, e) else (l, n, e).

Definition add_uint32 (l : list opt) (buflen id v : Z) : sres :=
  let '(n, e, b) := encode_uint32 buflen v in
  if e =? ENone then (add l (id, b), n, e) else (l, n, e).

(* ------------------------------------------------------------------ *)
(* paths                                                               *)

Definition slash : Z := 47.

(* strings.Index(s, "/") *)
Fixpoint index_slash (s : list Z) : Z :=
  match s with
  | [] => -1
  | c :: r => if c =? slash then 0 else let k := index_slash r in if k <? 0 then -1 else k + 1
  end.

Inductive pres := PFuel | PErr | PSize (n : Z).

(* GetPathBufferSize; sub = path[start:] *)
Fixpoint gpbs_loop (fuel : nat) (sub : list Z) (size : Z) : pres :=
  match fuel with
  | O => PFuel
  | S f =>
    match sub with
    | [] => PSize size
    | _ =>
      let k := index_slash sub in
      if k =? 0 then gpbs_loop f (drop sub 1) size
      else
        let seg := if k <? 0 then len sub else k in
        if maxPathValue <? seg then PErr
        else gpbs_loop f (drop sub (seg + 1)) (size + seg)
    end
  end.
Definition get_path_buffer_size (path : list Z) : pres := gpbs_loop (S (length path)) path 0.

Inductive spres := SFuel | SRes (r : sres).

(* the encoding loop of setPath; buf[encoded:] has buflen - encoded bytes *)
Fixpoint sp_loop (fuel : nat) (sub : list Z) (o : list opt) (id buflen encoded : Z) : spres :=
  match fuel with
  | O => SFuel
  | S f =>
    match sub with
    | [] => SRes (o, encoded, ENone)
    | _ =>
      let k := index_slash sub in
      if k =? 0 then sp_loop f (drop sub 1) o id buflen encoded
      else
        let e := if k <? 0 then len sub else k in
        let '(o', enc, err) := add_bytes o (buflen - encoded) id (take sub e) in
        if err =? ENone then sp_loop f (drop sub (e + 1)) o' id buflen (encoded + enc)
        else SRes (o', -1, err)
    end
  end.

(* setPath (with the repair of F6: Remove only after both checks) *)
Definition set_path (l : list opt) (id buflen : Z) (path : list Z) : spres :=
  match path with
  | [] => SRes (l, 0, ENone)
  | c :: r =>
    let path := if c =? slash then r else path in
    match get_path_buffer_size path with
    | PFuel => SFuel
    | PErr => SRes (l, -1, EInvalidValueLength)
    | PSize required =>
      if buflen <? required then SRes (l, -1, ETooSmall)
      else sp_loop (S (length path)) path (remove l id) id buflen 0
    end
  end.

(* ------------------------------------------------------------------ *)
(* getters; an index outside the slice is Panic                        *)

Inductive res (A : Type) := Panic | Ok (a : A).
Arguments Panic {A}.
Arguments Ok {A} a.

Definition idx (l : list opt) (i : Z) : res opt :=
  if (0 <=? i) && (i <? len l) then Ok (nthz l i) else Panic.

(* for i := first; k times; i++ { acc = append(acc, f(options[i])) }, writing
   r[j]: j must be < rlen *)
Fixpoint collect {B} (k : nat) (l : list opt) (i j rlen : Z) (f : opt -> B) (acc : list B) : res (list B) :=
  match k with
  | O => Ok acc
  | S k' =>
    match idx l i with
    | Panic => Panic
    | Ok o => if j <? rlen then collect k' l (i + 1) (j + 1) rlen f (acc ++ [f o]) else Panic
    end
  end.

Definition has_option (l : list opt) (id : Z) : bool :=
  match find l id with None => false | Some _ => true end.

(* GetBytes / GetString: (err, value) *)
Definition get_bytes (l : list opt) (id : Z) : res (Z * list Z) :=
  match find l id with
  | None => Ok (ENotFound, [])
  | Some (f, _) => match idx l f with Panic => Panic | Ok o => Ok (ENone, oval o) end
  end.

Definition get_uint32 (l : list opt) (id : Z) : res (Z * Z) :=
  match find l id with
  | None => Ok (ENotFound, 0)
  | Some (f, _) => match idx l f with Panic => Panic | Ok o => Ok (ENone, decode_uint32 (oval o)) end
  end.

(* ContentFormat(), Accept(): math.CastTo[MediaType] truncates to 16 bits *)
Definition get_media (l : list opt) (id : Z) : res (Z * Z) :=
  match get_uint32 l id with Panic => Panic | Ok (e, v) => Ok (e, v mod 65536) end.

(* GetUint32s / GetStrings / GetBytess with len(r) = rlen: (n, err, r[:n]);
   repaired loop bound i < lastIdx (F5) *)
Definition get_multi {B} (f : opt -> B) (l : list opt) (id rlen : Z) : res (Z * Z * list B) :=
  match find l id with
  | None => Ok (0, ENotFound, [])
  | Some (first, last) =>
    if rlen <? last - first then Ok (last - first, ETooSmall, [])
    else match collect (Z.to_nat (last - first)) l first 0 rlen f [] with
         | Panic => Panic
         | Ok vs => Ok (len vs, ENone, vs)
         end
  end.
Definition get_uint32s := get_multi (fun o => decode_uint32 (oval o)).
Definition get_strings := get_multi oval.
Definition get_bytess := get_multi oval.

(* Options.path(buf, id) with len(buf) = buflen: (needed, err, bytes written) *)
Definition path_into (l : list opt) (buflen id : Z) : res (Z * Z * list Z) :=
  match find l id with
  | None => Ok (-1, ENotFound, [])
  | Some (first, last) =>
    match collect (Z.to_nat (last - first)) l first 0 (last - first) oval [] with
    | Panic => Panic
    | Ok vs =>
      let needed := fold_left (fun a v => a + len v + 1) vs 0 in
      if buflen <? needed then Ok (needed, ETooSmall, [])
      else Ok (needed, ENone, concat (map (fun v => slash :: v) vs))
    end
  end.

(* Path() / LocationPath(): 32-byte buffer, one retry with 32 + m: (err, string) *)
Definition path_str (l : list opt) (id : Z) : res (Z * list Z) :=
  match path_into l 32 id with
  | Panic => Panic
  | Ok (m, e, b) =>
    if e =? ETooSmall then
      match path_into l (32 + m) id with
      | Panic => Panic
      | Ok (m', e', b') => if e' =? ENone then Ok (ENone, take b' m') else Ok (e', [])
      end
    else if e =? ENone then Ok (ENone, take b m) else Ok (e, [])
  end.

(* Queries(): 4 slots, one retry: (err, strings) *)
Definition queries (l : list opt) : res (Z * list (list Z)) :=
  match get_strings l URIQuery 4 with
  | Panic => Panic
  | Ok (n, e, vs) =>
    if e =? ETooSmall then
      match get_strings l URIQuery (4 + (n - 4)) with
      | Panic => Panic
      | Ok (n', e', vs') => if e' =? ENone then Ok (ENone, take vs' n') else Ok (e', [])
      end
    else if e =? ENone then Ok (ENone, take vs n) else Ok (e, [])
  end.

(* ------------------------------------------------------------------ *)
(* ResetOptionsTo / Clone                                              *)

Definition sum_len (l : list opt) : Z := fold_left (fun a o => a + len (oval o)) l 0.

(* the loop of ResetOptionsTo (with the repair: the size check precedes the
   loop, so a refused call does not touch the receiver); buflen shrinks *)
Fixpoint reset_loop (ins : list opt) (opts : list opt) (buflen used : Z) : sres :=
  match ins with
  | [] => (opts, used, ENone)
  | o :: r =>
    reset_loop r (add opts (oid o, oval o)) (buflen - len (oval o)) (used + len (oval o))
  end.
Definition reset_options_to (l : list opt) (buflen : Z) (ins : list opt) : sres :=
  if buflen <? sum_len ins then (l, sum_len ins, ETooSmall)
  else reset_loop ins [] buflen 0.

(* Clone(): fresh options, 64-byte buffer, one retry *)
Definition clone (l : list opt) : list opt * Z :=
  let '(o, used, e) := reset_options_to [] 64 l in
  if e =? ETooSmall then
    let '(o', _, e') := reset_options_to o (64 + (used - 64)) l in (o', e')
  else (o, e).

(* ------------------------------------------------------------------ *)
(* operations: one alphabet for message.Options (explicit buffer length)
   and pool.Message (its own value buffer)                             *)

Inductive op :=
| OSet (id : Z) (v : list Z)             (* Options.Set            | SetOptionBytes *)
| OAdd (id : Z) (v : list Z)             (* Options.Add            | AddOptionBytes *)
| ORemove (id : Z)                       (* Options.Remove         | Remove *)
| OSetBytes (id : Z) (v : list Z) (buflen : Z)   (* SetBytes/SetString | SetOptionString *)
| OAddBytes (id : Z) (v : list Z) (buflen : Z)   (* AddBytes/AddString | AddOptionString *)
| OSetU32 (id v buflen : Z)              (* SetUint32, SetContentFormat/SetObserve/SetAccept | SetOptionUint32 ... *)
| OAddU32 (id v buflen : Z)              (* AddUint32              | AddOptionUint32 *)
| OSetPath (id : Z) (p : list Z) (buflen : Z)    (* SetPath / SetLocationPath | SetPath *)
| OResetTo (ins : list opt) (buflen : Z) (* ResetOptionsTo *)
| OClone                                 (* Clone (continue with the copy) *)
| OReset.                                (* options[:0]            | Reset *)

(* result code of a step: error class, 7 = the builder method panicked on
   purpose (panic(fmt.Errorf(...))), 8 = out of fuel (never: Proofs) *)
Definition EPanic : Z := 7.
Definition EFuel : Z := 8.

(* message.Options: (options', used, err) *)
Definition ostep (l : list opt) (o : op) : sres :=
  match o with
  | OSet id v => (set l (id, v), 0, ENone)
  | OAdd id v => (add l (id, v), 0, ENone)
  | ORemove id => (remove l id, 0, ENone)
  | OSetBytes id v b => set_bytes l b id v
  | OAddBytes id v b => add_bytes l b id v
  | OSetU32 id v b => set_uint32 l b id v
  | OAddU32 id v b => add_uint32 l b id v
  | OSetPath id p b => match set_path l id b p with SFuel => (l, -1, EFuel) | SRes r => r end
  | OResetTo ins b => reset_options_to l b ins
  | OClone => let '(c, e) := clone l in if e =? ENone then (c, 0, ENone) else (l, 0, e)
  | OReset => ([], 0, ENone)
  end.

(* pool.Message: options and len(valueBuffer) *)
Record mstate := { m_opts : list opt; m_vb : Z }.
Definition m_new : mstate := {| m_opts := []; m_vb := valueBufferSize |}.

(* opts, used, err := f(r.valueBuffer); if ErrTooSmall { grow by [grow used]; again } *)
Definition with_retry (s : mstate) (f : Z -> sres) (grow : Z -> Z) : mstate * Z :=
  let r1 := f (m_vb s) in
  let small := snd r1 =? ETooSmall in
  let vb := if small then m_vb s + grow (snd (fst r1)) else m_vb s in
  let '(o, used, e) := if small then f vb else r1 in
  if e =? ENone then ({| m_opts := o; m_vb := vb - used |}, ENone)
  else ({| m_opts := m_opts s; m_vb := vb |}, e).

Definition panics (r : mstate * Z) : mstate * Z :=
  let '(s, e) := r in if e =? ENone then r else (s, EPanic).

Definition mstep (s : mstate) (o : op) : mstate * Z :=
  let l := m_opts s in
  match o with
  | OSet id v =>
      let vb := if m_vb s <? len v then len v else m_vb s in
      ({| m_opts := set l (id, v); m_vb := vb - len v |}, ENone)
  | OAdd id v =>
      let vb := if m_vb s <? len v then len v else m_vb s in
      ({| m_opts := add l (id, v); m_vb := vb - len v |}, ENone)
  | ORemove id => ({| m_opts := remove l id; m_vb := m_vb s |}, ENone)
  | OSetBytes id v _ => panics (with_retry s (fun b => set_bytes l b id v) (fun u => u))
  | OAddBytes id v _ => panics (with_retry s (fun b => add_bytes l b id v) (fun u => u))
  | OSetU32 id v _ => panics (with_retry s (fun b => set_uint32 l b id v) (fun u => u))
  | OAddU32 id v _ => panics (with_retry s (fun b => add_uint32 l b id v) (fun u => u))
  | OSetPath id p _ =>
      (* SetPath grows by GetPathBufferSize(p) of the unstripped path *)
      let grow := match get_path_buffer_size p with PSize n => n | _ => 0 end in
      with_retry s (fun b => match set_path l id b p with SFuel => (l, -1, EFuel) | SRes r => r end) (fun _ => grow)
  | OResetTo ins _ => panics (with_retry s (fun b => reset_options_to l b ins) (fun u => u))
  | OClone =>
      (* r.Clone(msg) into a fresh message: msg.ResetOptionsTo(r.Options()) *)
      panics (with_retry m_new (fun b => reset_options_to [] b l) (fun u => u))
  | OReset => (m_new, ENone)
  end.
