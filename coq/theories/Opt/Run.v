(* Evaluators used by the correspondence shards of C15. A case is a sequence
   of editing operations applied to a fresh message.Options (mode 0, initial
   capacity cap) or a fresh pool.Message (mode 1); after every operation the
   harness records the return values, the option list and the answers of every
   getter for the probe numbers, hashed per getter kind. *)
From Coq Require Import ZArith NArith List Bool.
From GoCoap Require Import Base.Cases Base.Bytes Gen.OptConsts Opt.Model Opt.Spec.
Import ListNotations.
Open Scope Z_scope.

(* ---- symbolic values: (salt, length) expands to bytes without '/' ---- *)
Inductive val := G (salt n : Z) | L (b : list Z).
Definition gen_val (salt n : Z) : list Z :=
  map (fun b => if b =? 47 then 48 else b) (gen_body salt (Z.to_nat n)).
Definition vbytes (v : val) : list Z := match v with G s n => gen_val s n | L b => b end.
Definition pbytes (p : list val) : list Z := concat (map vbytes p).

Inductive cop :=
| CSet (id : Z) (v : val)
| CAdd (id : Z) (v : val)
| CRemove (id : Z)
| CSetBytes (id : Z) (v : val) (b : Z)
| CAddBytes (id : Z) (v : val) (b : Z)
| CSetU32 (id v b : Z)
| CAddU32 (id v b : Z)
| CSetPath (id : Z) (p : list val) (b : Z)
| CResetTo (ins : list (Z * val)) (b : Z)
| CClone
| CReset
(* ResetOptionsTo with a selection (positions) of the receiver's OWN current
   options: the Value slices of the input alias the receiver's value storage.
   view: 0 = a new slice of Option structs, 1 = Options() / a sub-slice of it
   (the input shares the receiver's option array too); not used by the model *)
| CResetOwn (sel : list Z) (b view : Z).

(* [cur]: the list before the step (the model's for [agrees], the reference's
   for [pclass]) *)
Definition to_op (cur : list opt) (c : cop) : op :=
  match c with
  | CSet id v => OSet id (vbytes v)
  | CAdd id v => OAdd id (vbytes v)
  | CRemove id => ORemove id
  | CSetBytes id v b => OSetBytes id (vbytes v) b
  | CAddBytes id v b => OAddBytes id (vbytes v) b
  | CSetU32 id v b => OSetU32 id v b
  | CAddU32 id v b => OAddU32 id v b
  | CSetPath id p b => OSetPath id (pbytes p) b
  | CResetTo ins b => OResetTo (map (fun x => (fst x, vbytes (snd x))) ins) b
  | CClone => OClone
  | CReset => OReset
  | CResetOwn sel b _ => OResetTo (pick cur sel) b
  end.

(* one step with what was observed after it: error class, used, len(valueBuffer)
   (mode 1), hash of the option list, hashes of the nine getter kinds *)
Inductive step := St (c : cop) (err used vb lh : Z) (gh : list Z).
Inductive case := Case (mode cap : Z) (probes : list Z) (steps : list step).

(* ---- hashing of observations (mirrored in harness/c15.go) ---- *)
Definition mix (h x : Z) : Z := Z.land (h * 1000003 + x + 1) M48.
Definition hwords (ws : list Z) : Z := fold_left mix ws 0.
Definition vsum (v : list Z) : list Z := [len v; csum v].
Definition lhash (l : list opt) : Z :=
  hwords (len l :: concat (map (fun o => oid o :: vsum (oval o)) l)).

Definition PANIC : list Z := [777777].
Definition enc_find (r : option (Z * Z)) : list Z :=
  match r with None => [1; 0; 0] | Some (f, l) => [0; f + 1; l + 1] end.
Definition enc_has (b : bool) : list Z := [if b then 1 else 0].
Definition enc_bytes (r : res (Z * list Z)) : list Z :=
  match r with Panic => PANIC | Ok (e, v) => e :: vsum v end.
Definition enc_u32 (r : res (Z * Z)) : list Z :=
  match r with Panic => PANIC | Ok (e, v) => [e; v] end.
Definition enc_multi_u (r : res (Z * Z * list Z)) : list Z :=
  match r with Panic => PANIC | Ok (n, e, vs) => n :: e :: vs end.
Definition enc_multi_b (r : res (Z * Z * list (list Z))) : list Z :=
  match r with Panic => PANIC | Ok (n, e, vs) => n :: e :: concat (map vsum vs) end.
Definition enc_queries (r : res (Z * list (list Z))) : list Z :=
  match r with Panic => PANIC | Ok (e, vs) => e :: len vs :: concat (map vsum vs) end.

Definition over (ps : list Z) (f : Z -> list Z) : list Z := concat (map f ps).
(* result-slice lengths tried for the multi-value getters: exact, one more, one less *)
Definition rlens (cnt : Z) : list Z := if 0 <? cnt then [cnt; cnt + 1; cnt - 1] else [cnt; cnt + 1].

(* the answers of the MODEL on list l *)
Definition model_words (ps : list Z) (l : list opt) : list (list Z) :=
  let cnt p := len (filter (fun o => oid o =? p) l) in
  [ over ps (fun p => enc_find (find l p) ++ enc_has (has_option l p));
    over ps (fun p => enc_bytes (get_bytes l p) ++ enc_bytes (get_bytes l p));
    over ps (fun p => enc_u32 (get_uint32 l p)) ++ enc_u32 (get_media l ContentFormat)
      ++ enc_u32 (get_uint32 l Observe) ++ enc_u32 (get_media l Accept);
    over ps (fun p => over (rlens (cnt p)) (fun n => enc_multi_u (get_uint32s l p n)));
    over ps (fun p => over (rlens (cnt p)) (fun n => enc_multi_b (get_strings l p n)));
    over ps (fun p => over (rlens (cnt p)) (fun n => enc_multi_b (get_bytess l p n)));
    enc_bytes (path_str l URIPath);
    enc_bytes (path_str l LocationPath);
    enc_queries (queries l) ].

(* the answers the REFERENCE predicts on list r (Spec only) *)
Definition sp_first (r : list opt) (p : Z) : res (Z * list Z) :=
  match ref_first p r with None => Ok (3, []) | Some v => Ok (0, v) end.
Definition sp_u32 (r : list opt) (p : Z) (m : Z) : res (Z * Z) :=
  match ref_first p r with None => Ok (3, 0) | Some v => Ok (0, ref_uint v mod m) end.
Definition sp_multi {B} (f : list Z -> B) (r : list opt) (p n : Z) : res (Z * Z * list B) :=
  if ref_has p r then
    if n <? ref_count p r then Ok (ref_count p r, 1, []) else Ok (ref_count p r, 0, map f (ref_values p r))
  else Ok (0, 3, []).
Definition sp_path (r : list opt) (p : Z) : res (Z * list Z) :=
  if ref_has p r then Ok (0, ref_path p r) else Ok (3, []).
Definition sp_queries (r : list opt) : res (Z * list (list Z)) :=
  if ref_has 15 r then Ok (0, ref_values 15 r) else Ok (3, []).
Definition W32 : Z := 4294967296.

Definition spec_words (ps : list Z) (r : list opt) : list (list Z) :=
  let cnt p := ref_count p r in
  [ over ps (fun p => enc_find (ref_find p r) ++ enc_has (ref_has p r));
    over ps (fun p => enc_bytes (sp_first r p) ++ enc_bytes (sp_first r p));
    over ps (fun p => enc_u32 (sp_u32 r p W32)) ++ enc_u32 (sp_u32 r 12 65536)
      ++ enc_u32 (sp_u32 r 6 W32) ++ enc_u32 (sp_u32 r 17 65536);
    over ps (fun p => over (rlens (cnt p)) (fun n => enc_multi_u (sp_multi ref_uint r p n)));
    over ps (fun p => over (rlens (cnt p)) (fun n => enc_multi_b (sp_multi (fun v => v) r p n)));
    over ps (fun p => over (rlens (cnt p)) (fun n => enc_multi_b (sp_multi (fun v => v) r p n)));
    enc_bytes (sp_path r 11);
    enc_bytes (sp_path r 8);
    enc_queries (sp_queries r) ].

Definition zlist_eqb := list_eqb Z.eqb.

(* ---- does the observed output equal the model's? ---- *)
Fixpoint agrees_o (ps : list Z) (l : list opt) (ss : list step) : bool :=
  match ss with
  | [] => true
  | St c err used _ lh gh :: r =>
    let '(l', u, e) := ostep l (to_op l c) in
    (e =? err) && (u =? used) && (lhash l' =? lh)
    && zlist_eqb (map hwords (model_words ps l')) gh && agrees_o ps l' r
  end.
Fixpoint agrees_m (ps : list Z) (s : mstate) (ss : list step) : bool :=
  match ss with
  | [] => true
  | St c err _ vb lh gh :: r =>
    let '(s', e) := mstep s (to_op (m_opts s) c) in
    (e =? err) && (m_vb s' =? vb) && (lhash (m_opts s') =? lh)
    && zlist_eqb (map hwords (model_words ps (m_opts s'))) gh && agrees_m ps s' r
  end.
Definition agrees (c : case) : bool :=
  match c with
  | Case mode _ ps ss => if mode =? 0 then agrees_o ps [] ss else agrees_m ps m_new ss
  end.

(* ---- the property on the OBSERVED output, from Spec only ----
   0 = holds. 1 list differs from the reference after a performed operation;
   2 a refused operation changed the list; 3 an operation that must be refused
   (segment > 255 bytes, buffer too small) was performed; 4 a valid operation
   was refused; 5 path after set-path is not the normalised path;
   6 reset-to with (a selection of) the message's own options did not produce
   the list the reference predicts from the options as they were before the call;
   10+k getter kind k answers differently from the reference (or panics):
   10 find/has, 11 first bytes/string, 12 uint32/content-format/observe/accept,
   13 GetUint32s, 14 GetStrings, 15 GetBytess, 16 Path, 17 LocationPath,
   18 Queries. *)
Fixpoint first_diff (k : N) (a b : list Z) : N :=
  match a, b with
  | [], [] => 0%N
  | x :: a', y :: b' => if x =? y then first_diff (N.succ k) a' b' else k
  | _, _ => k
  end.

Definition path_class (c : cop) (gh : list Z) : N :=
  match c with
  | CSetPath id p _ =>
    match pbytes p with
    | [] => 0%N
    | pb =>
      let want := hwords (enc_bytes (match normalise pb with [] => Ok (3, []) | s => Ok (0, s) end)) in
      let got := nth (if id =? 11 then 6%nat else 7%nat) gh (-1) in
      if (id =? 11) || (id =? 8) then if got =? want then 0%N else 5%N else 0%N
    end
  | _ => 0%N
  end.

Fixpoint pclass_steps (bounded : bool) (ps : list Z) (r : list opt) (ss : list step) : N :=
  match ss with
  | [] => 0%N
  | St c err _ _ lh gh :: rest =>
    let v := ref_step bounded r (to_op r c) in
    let r' := match v with Some x => x | None => r end in
    let cls :=
      match v with
      | None => if err =? 0 then 3%N else if lhash r =? lh then 0%N else 2%N
      | Some _ => if negb (err =? 0) then 4%N else if lhash r' =? lh then 0%N
                  else match c with CResetOwn _ _ _ => 6%N | _ => 1%N end
      end in
    if negb (cls =? 0)%N then cls
    else
      let g := first_diff 10 (map hwords (spec_words ps r')) gh in
      if negb (g =? 0)%N then g
      else
        let pc := match v with Some _ => path_class c gh | None => 0%N end in
        if negb (pc =? 0)%N then pc else pclass_steps bounded ps r' rest
  end.

Definition pclass (c : case) : N :=
  match c with
  | Case mode _ ps ss => pclass_steps (mode =? 0) ps [] ss
  end.

Definition mismatches (cs : list case) : list N := bad_indices (fun c => negb (agrees c)) cs.
Definition property_failures (cs : list case) : list (N * N) := classes pclass cs.
