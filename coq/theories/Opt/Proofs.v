(* C15 -- proofs: the search, the in-place loops and the refinement of the
   list operations to the sorted-multiset reference. *)
From Coq Require Import ZArith List Bool Lia.
From GoCoap Require Import Base.Bytes Gen.OptConsts Opt.Model Opt.Spec.
Import ListNotations.
Open Scope Z_scope.

Ltac Zify.zify_post_hook ::= Z.to_euclidean_division_equations.

(* destruct every boolean comparison in the goal *)
Ltac bdestr :=
  repeat match goal with
  | |- context [?a <? ?b] => destruct (Z.ltb_spec a b)
  | |- context [?a <=? ?b] => destruct (Z.leb_spec a b)
  | |- context [?a =? ?b] => destruct (Z.eqb_spec a b)
  end; cbn [andb orb negb].
Ltac bdestr_in H :=
  repeat match type of H with
  | context [?a <? ?b] => destruct (Z.ltb_spec a b)
  | context [?a <=? ?b] => destruct (Z.leb_spec a b)
  | context [?a =? ?b] => destruct (Z.eqb_spec a b)
  end; cbn [andb orb negb] in H.

(* ------------------------------------------------------------------ *)
(* A. lists by index                                                   *)

Lemma len_nonneg {A} (l : list A) : 0 <= len l.
Proof. unfold len; lia. Qed.
Lemma len_nil {A} : len (@nil A) = 0.
Proof. reflexivity. Qed.
Lemma len_cons {A} (x : A) l : len (x :: l) = len l + 1.
Proof. unfold len; cbn [length]; lia. Qed.
Lemma len_app {A} (a b : list A) : len (a ++ b) = len a + len b.
Proof. unfold len; rewrite app_length; lia. Qed.
Lemma len_0 {A} (l : list A) : len l = 0 -> l = [].
Proof. destruct l; [reflexivity|rewrite len_cons; pose proof (len_nonneg l); lia]. Qed.

Lemma nthz_neg l i : i < 0 -> nthz l i = zero_opt.
Proof. intros H; unfold nthz. destruct (Z.ltb_spec i 0); [reflexivity|lia]. Qed.
Lemma nthz_nil i : nthz [] i = zero_opt.
Proof. unfold nthz. destruct (i <? 0); [reflexivity|]. destruct (Z.to_nat i); reflexivity. Qed.
Lemma nthz_0 x l : nthz (x :: l) 0 = x.
Proof. reflexivity. Qed.
Lemma nthz_S x l i : 0 <= i -> nthz (x :: l) (i + 1) = nthz l i.
Proof.
  intros H; unfold nthz. destruct (Z.ltb_spec (i + 1) 0); [lia|]. destruct (Z.ltb_spec i 0); [lia|].
  replace (Z.to_nat (i + 1)) with (S (Z.to_nat i)) by lia. reflexivity.
Qed.
Lemma nthz_cons x l i : 0 < i -> nthz (x :: l) i = nthz l (i - 1).
Proof. intros H. replace i with ((i - 1) + 1) at 1 by lia. apply nthz_S; lia. Qed.
Lemma nthz_beyond l i : len l <= i -> nthz l i = zero_opt.
Proof.
  intros H; unfold nthz. destruct (i <? 0); [reflexivity|]. apply nth_overflow. unfold len in H; lia.
Qed.
Lemma nthz_app_l a b i : i < len a -> nthz (a ++ b) i = nthz a i.
Proof.
  intros H; unfold nthz. destruct (Z.ltb_spec i 0); [reflexivity|]. apply app_nth1. unfold len in H; lia.
Qed.
Lemma nthz_app_r a b i : len a <= i -> nthz (a ++ b) i = nthz b (i - len a).
Proof.
  intros H; unfold nthz. pose proof (len_nonneg a).
  destruct (Z.ltb_spec i 0); [lia|]. destruct (Z.ltb_spec (i - len a) 0); [lia|].
  rewrite app_nth2 by (unfold len in H; lia). f_equal. unfold len; lia.
Qed.

Lemma list_ext (a b : list opt) :
  len a = len b -> (forall i, 0 <= i < len a -> nthz a i = nthz b i) -> a = b.
Proof.
  revert b; induction a as [|x a IH]; intros b Hl Hn.
  - symmetry; apply len_0; rewrite <- Hl; reflexivity.
  - destruct b as [|y b]; [rewrite len_cons, len_nil in Hl; pose proof (len_nonneg a); lia|].
    rewrite !len_cons in Hl. f_equal.
    + specialize (Hn 0). rewrite !nthz_0 in Hn. apply Hn. rewrite len_cons; pose proof (len_nonneg a); lia.
    + apply IH; [lia|]. intros i Hi. specialize (Hn (i + 1)).
      rewrite !nthz_S in Hn by lia. apply Hn. rewrite len_cons; lia.
Qed.

Lemma len_upd_nat l n o : length (upd_nat l n o) = length l.
Proof. revert n; induction l as [|x l IH]; intros [|n]; cbn [upd_nat length]; auto. Qed.
Lemma len_upd l i o : len (upd l i o) = len l.
Proof. unfold upd, len. destruct (i <? 0); [reflexivity|]. rewrite len_upd_nat; reflexivity. Qed.
Lemma nth_upd_nat l n o m : (n < length l)%nat ->
  nth m (upd_nat l n o) zero_opt = if Nat.eqb m n then o else nth m l zero_opt.
Proof.
  revert n m; induction l as [|x l IH]; intros n m H; [cbn in H; lia|].
  destruct n as [|n]; destruct m as [|m]; cbn [upd_nat nth Nat.eqb]; try reflexivity.
  apply IH. cbn in H; lia.
Qed.
Lemma nthz_upd l i o j : 0 <= i < len l ->
  nthz (upd l i o) j = if j =? i then o else nthz l j.
Proof.
  intros H. unfold upd, nthz. destruct (Z.ltb_spec i 0); [lia|].
  destruct (Z.ltb_spec j 0).
  - destruct (Z.eqb_spec j i); [lia|reflexivity].
  - rewrite nth_upd_nat by (unfold len in H; lia).
    destruct (Z.eqb_spec j i) as [->|Hne].
    + rewrite Nat.eqb_refl; reflexivity.
    + destruct (Nat.eqb_spec (Z.to_nat j) (Z.to_nat i)); [lia|reflexivity].
Qed.

Lemma len_take {A} (l : list A) n : 0 <= n <= len l -> len (take l n) = n.
Proof. intros H; unfold take, len in *. rewrite firstn_length. lia. Qed.
Lemma len_drop {A} (l : list A) n : 0 <= n <= len l -> len (drop l n) = len l - n.
Proof. intros H; unfold drop, len in *. rewrite skipn_length. lia. Qed.
Lemma take_drop {A} (l : list A) n : take l n ++ drop l n = l.
Proof. apply firstn_skipn. Qed.
Lemma nthz_take l n i : i < n -> n <= len l -> nthz (take l n) i = nthz l i.
Proof.
  intros H Hn. destruct (Z.ltb_spec i 0) as [Hi|Hi]; [rewrite !nthz_neg by lia; reflexivity|].
  rewrite <- (take_drop l n) at 2. rewrite nthz_app_l; [reflexivity|]. rewrite len_take; lia.
Qed.
Lemma nthz_drop l n i : 0 <= i -> 0 <= n <= len l -> nthz (drop l n) i = nthz l (i + n).
Proof.
  intros H Hn. rewrite <- (take_drop l n) at 2. rewrite nthz_app_r by (rewrite len_take; lia).
  rewrite len_take by lia. f_equal; lia.
Qed.
Lemma take_all {A} (l : list A) n : len l <= n -> take l n = l.
Proof. intros H. unfold take. apply firstn_all2. unfold len in H; lia. Qed.
Lemma drop_0 {A} (l : list A) : drop l 0 = l.
Proof. reflexivity. Qed.
Lemma drop_all {A} (l : list A) n : len l <= n -> drop l n = [].
Proof. intros H. unfold drop. apply skipn_all2. unfold len in H; lia. Qed.

(* the splice: l[:a] ++ mid ++ l[c:] *)
Definition splice (l : list opt) (a c : Z) (mid : list opt) : list opt := take l a ++ mid ++ drop l c.
Lemma len_splice l a c mid : 0 <= a <= len l -> 0 <= c <= len l ->
  len (splice l a c mid) = a + len mid + (len l - c).
Proof. intros Ha Hc. unfold splice. rewrite !len_app, len_take, len_drop by lia. lia. Qed.
Lemma nthz_splice l a c mid j : 0 <= a <= len l -> 0 <= c <= len l -> 0 <= j ->
  nthz (splice l a c mid) j =
    if j <? a then nthz l j else if j <? a + len mid then nthz mid (j - a) else nthz l (j - a - len mid + c).
Proof.
  intros Ha Hc Hj. unfold splice. pose proof (len_nonneg mid).
  destruct (Z.ltb_spec j a).
  - rewrite nthz_app_l by (rewrite len_take; lia). apply nthz_take; lia.
  - rewrite nthz_app_r by (rewrite len_take; lia). rewrite len_take by lia.
    destruct (Z.ltb_spec j (a + len mid)).
    + rewrite nthz_app_l by lia. reflexivity.
    + rewrite nthz_app_r by lia. rewrite nthz_drop by lia. f_equal; lia.
Qed.

(* ------------------------------------------------------------------ *)
(* B. findPosition                                                     *)

Definition sorted (l : list opt) : Prop :=
  forall i j, 0 <= i -> i <= j -> j < len l -> oid (nthz l i) <= oid (nthz l j).

(* mn = last index with a smaller number, mx = first index with a larger one *)
Definition is_split (l : list opt) (id mn mx : Z) : Prop :=
  -1 <= mn /\ mn < mx /\ mx <= len l /\
  (forall k, 0 <= k <= mn -> oid (nthz l k) < id) /\
  (forall k, mn < k < mx -> oid (nthz l k) = id) /\
  (forall k, mx <= k < len l -> id < oid (nthz l k)).

Lemma scan_up_spec l id : forall fuel p,
  0 <= p <= len l -> len l - p < Z.of_nat fuel ->
  (forall k, 0 <= k < p -> oid (nthz l k) <= id) ->
  let r := scan_up fuel l id p in
  p <= r <= len l /\ (forall k, 0 <= k < r -> oid (nthz l k) <= id) /\ (r < len l -> id < oid (nthz l r)).
Proof.
  induction fuel as [|f IH]; intros p Hp Hf Hle; [lia|].
  cbn [scan_up]. destruct (Z.ltb_spec p (len l)) as [Hlt|Hge]; cbn [andb].
  - destruct (Z.leb_spec (oid (nthz l p)) id) as [Hid|Hid].
    + specialize (IH (p + 1)). cbv zeta in IH. destruct IH as (H1 & H2 & H3); [lia|lia| |].
      * intros k Hk. destruct (Z.eq_dec k p) as [->|]; [assumption|apply Hle; lia].
      * repeat split; [lia|lia|assumption|assumption].
    + cbv zeta. repeat split; [lia|lia|assumption|intros _; lia].
  - cbv zeta. repeat split; [lia|lia|assumption|lia].
Qed.

Lemma scan_down_spec l id : forall fuel p,
  -1 <= p < len l -> p + 1 < Z.of_nat fuel ->
  (forall k, p < k < len l -> id <= oid (nthz l k)) ->
  let r := scan_down fuel l id p in
  -1 <= r <= p /\ (forall k, r < k < len l -> id <= oid (nthz l k)) /\ (0 <= r -> oid (nthz l r) < id).
Proof.
  induction fuel as [|f IH]; intros p Hp Hf Hge; [lia|].
  cbn [scan_down]. destruct (Z.leb_spec 0 p) as [H0|H0]; cbn [andb].
  - destruct (Z.leb_spec id (oid (nthz l p))) as [Hid|Hid].
    + specialize (IH (p - 1)). cbv zeta in IH. destruct IH as (H1 & H2 & H3); [lia|lia| |].
      * intros k Hk. destruct (Z.eq_dec k p) as [->|]; [assumption|apply Hge; lia].
      * repeat split; [lia|lia|assumption|assumption].
    + cbv zeta. repeat split; [lia|lia|assumption|intros _; lia].
  - cbv zeta. repeat split; [lia|lia|assumption|lia].
Qed.

(* from a pivot with everything before it <= id and everything after it >= id,
   the two scans return the split *)
Lemma scans_split l id p : sorted l -> 0 <= p < len l ->
  (forall k, 0 <= k < p -> oid (nthz l k) <= id) ->
  (forall k, p < k < len l -> id <= oid (nthz l k)) ->
  is_split l id (scan_down (S (length l)) l id p) (scan_up (S (length l)) l id p).
Proof.
  intros Hs Hp Hlo Hhi.
  destruct (scan_up_spec l id (S (length l)) p) as (U1 & U2 & U3); [lia|unfold len; lia|assumption|].
  destruct (scan_down_spec l id (S (length l)) p) as (D1 & D2 & D3); [lia|unfold len in *; lia|assumption|].
  set (mx := scan_up _ _ _ _) in *. set (mn := scan_down _ _ _ _) in *.
  assert (Hmnmx : mn < mx).
  { destruct (Z.eq_dec mx p) as [E|E]; [|lia].
    (* scan_up did not move: l[p] > id, so scan_down moved *)
    assert (id < oid (nthz l p)) by (rewrite <- E; apply U3; lia).
    destruct (Z.eq_dec mn p) as [E2|E2]; [|lia].
    assert (oid (nthz l mn) < id) by (apply D3; lia). rewrite E2 in *. lia. }
  assert (A : forall k, 0 <= k <= mn -> oid (nthz l k) < id).
  { intros k Hk. destruct (Z.eq_dec k mn) as [->|]; [apply D3; lia|].
    assert (oid (nthz l k) <= oid (nthz l mn)) by (apply Hs; lia).
    assert (oid (nthz l mn) < id) by (apply D3; lia). lia. }
  assert (B : forall k, mn < k < mx -> oid (nthz l k) = id).
  { intros k Hk. assert (oid (nthz l k) <= id) by (apply U2; lia).
    assert (id <= oid (nthz l k)) by (apply D2; lia). lia. }
  assert (C : forall k, mx <= k < len l -> id < oid (nthz l k)).
  { intros k Hk. assert (id < oid (nthz l mx)) by (apply U3; lia).
    assert (oid (nthz l mx) <= oid (nthz l k)) by (apply Hs; lia). lia. }
  unfold is_split. refine (conj _ (conj _ (conj _ (conj A (conj B C))))); lia.
Qed.

Definition inv (l : list opt) (id pivot minI maxI : Z) : Prop :=
  0 <= minI /\ minI <= pivot /\ pivot <= maxI /\ maxI <= len l /\ pivot < len l /\
  (oid (nthz l minI) < id \/ pivot = minI /\ minI = 0) /\
  (maxI = len l \/ id < oid (nthz l maxI)) /\
  (pivot < maxI \/ maxI - minI <= 1).
Definition mu (pivot minI maxI : Z) : Z := 2 * (maxI - minI) + (if pivot =? minI then 1 else 0).

(* what findPosition returns: the split, with "nothing larger" written -1 *)
Definition fp_spec (l : list opt) (id : Z) (r : Z * Z) : Prop :=
  exists mx, is_split l id (fst r) mx /\ snd r = (if mx =? len l then -1 else mx).

Lemma fp_loop_spec l id : sorted l -> forall fuel pivot minI maxI,
  inv l id pivot minI maxI -> mu pivot minI maxI < Z.of_nat fuel ->
  fp_spec l id (fp_loop fuel l id pivot minI maxI).
Proof.
  intros Hs. induction fuel as [|f IH]; intros pivot minI maxI Hinv Hmu.
  { unfold mu in Hmu. destruct Hinv as (?&?&?&?&?&?&?&?). destruct (pivot =? minI); lia. }
  cbn [fp_loop].
  destruct Hinv as (I1 & I2 & I3 & I4 & I5 & I6 & I7 & I8).
  destruct ((id =? oid (nthz l pivot)) || (Z.quot (maxI - minI) 2 =? 0)) eqn:Ex.
  - (* exit *)
    exists (scan_up (S (length l)) l id pivot). split; [|reflexivity]. cbn [fst].
    apply scans_split; [assumption|lia| |].
    + intros k Hk. apply orb_true_iff in Ex as [Ex|Ex].
      * apply Z.eqb_eq in Ex. rewrite Ex. apply Hs; lia.
      * apply Z.eqb_eq in Ex. assert (maxI - minI <= 1) by lia.
        destruct I6 as [I6|[I6a I6b]]; [|lia].
        assert (oid (nthz l k) <= oid (nthz l minI)) by (apply Hs; lia). lia.
    + intros k Hk. apply orb_true_iff in Ex as [Ex|Ex].
      * apply Z.eqb_eq in Ex. rewrite Ex. apply Hs; lia.
      * apply Z.eqb_eq in Ex. assert (maxI - minI <= 1) by lia.
        destruct I7 as [I7|I7]; [lia|].
        assert (oid (nthz l maxI) <= oid (nthz l k)) by (apply Hs; lia). lia.
  - apply orb_false_iff in Ex as [Ex1 Ex2]. apply Z.eqb_neq in Ex1. apply Z.eqb_neq in Ex2.
    assert (Hd : 2 <= maxI - minI) by lia.
    destruct (Z.ltb_spec id (oid (nthz l pivot))) as [Hlt|Hge].
    + (* maxI := pivot *)
      apply IH.
      * unfold inv. repeat split; try lia; try (right; assumption).
      * unfold mu in *. destruct (Z.eqb_spec pivot minI); bdestr; lia.
    + (* minI := pivot *)
      assert (Hgt : oid (nthz l pivot) < id) by lia.
      apply IH.
      * unfold inv. repeat split; try lia; try (left; assumption); try assumption.
      * unfold mu in *. destruct (Z.eqb_spec pivot minI); bdestr; lia.
Qed.

Theorem find_position_spec l id : sorted l -> l <> [] -> fp_spec l id (find_position l id).
Proof.
  intros Hs Hne. destruct l as [|x r]; [congruence|].
  unfold find_position. apply fp_loop_spec; [assumption| |].
  - unfold inv. pose proof (len_nonneg r). rewrite len_cons. repeat split; try lia.
  - unfold mu, fp_fuel. rewrite len_cons. unfold len. cbn [length Z.eqb]. lia.
Qed.

(* ------------------------------------------------------------------ *)
(* C. the in-place loops                                               *)

Lemma shift_right_spec : forall k a i,
  0 <= i - Z.of_nat k -> i < len a ->
  len (shift_right k a i) = len a /\
  forall j, nthz (shift_right k a i) j =
    if (i - Z.of_nat k <? j) && (j <=? i) then nthz a (j - 1) else nthz a j.
Proof.
  induction k as [|k IH]; intros a i Hk Hi.
  - cbn [shift_right]. split; [reflexivity|]. intros j. bdestr; try reflexivity. lia.
  - cbn [shift_right]. destruct (IH (upd a i (nthz a (i - 1))) (i - 1)) as [L N]; [lia|rewrite len_upd; lia|].
    rewrite len_upd in L. split; [assumption|]. intros j. rewrite N.
    rewrite !nthz_upd by lia. bdestr; try reflexivity; try lia.
    all: try (subst; f_equal; lia).
Qed.

Lemma move_left_spec : forall k a dst src,
  0 <= dst -> dst <= src -> src + Z.of_nat k <= len a ->
  len (move_left k a dst src) = len a /\
  forall j, nthz (move_left k a dst src) j =
    if (dst <=? j) && (j <? dst + Z.of_nat k) then nthz a (j - dst + src) else nthz a j.
Proof.
  induction k as [|k IH]; intros a dst src Hd Hs Hl.
  - cbn [move_left]. split; [reflexivity|]. intros j. bdestr; try reflexivity. lia.
  - cbn [move_left]. destruct (IH (upd a dst (nthz a src)) (dst + 1) (src + 1)) as [L N]; [lia|lia|rewrite len_upd; lia|].
    rewrite len_upd in L. split; [assumption|]. intros j. rewrite N.
    rewrite !nthz_upd by lia. bdestr; try reflexivity; try lia.
    all: try (subst; f_equal; lia).
Qed.

(* ------------------------------------------------------------------ *)
(* D. Set / Add / Remove / Find as splices                             *)

Ltac fin :=
  try lia; try reflexivity;
  try (rewrite nthz_app_l by lia); try (f_equal; lia);
  try (subst; rewrite ?Z.sub_diag; reflexivity).

Lemma set_go_splice l o a c : 0 <= a -> a <= c -> c <= len l ->
  set_go l o a (a + 1) c = splice l a c [o].
Proof.
  intros Ha Hac Hc. unfold set_go. set (n := len l) in *. set (A := l ++ [zero_opt]).
  assert (HA : len A = n + 1) by (unfold A; rewrite len_app, len_cons, len_nil; fold n; lia).
  destruct (Z.ltb_spec c (a + 1)).
  - assert (c = a) by lia. subst c.
    destruct (shift_right_spec (Z.to_nat (n - a)) A n) as [L N]; [lia|lia|].
    apply list_ext.
    + rewrite len_take by (rewrite len_upd, L; lia). rewrite len_splice by (fold n; lia).
      rewrite len_cons, len_nil. fold n. lia.
    + intros j Hj. rewrite len_take in Hj by (rewrite len_upd, L; lia).
      rewrite nthz_take by (rewrite ?len_upd, ?L; lia). rewrite nthz_upd by (rewrite L; lia).
      rewrite N. rewrite nthz_splice by (fold n; lia). rewrite len_cons, len_nil. unfold A.
      bdestr; fin.
  - destruct (move_left_spec (Z.to_nat (n - c)) A (a + 1) c) as [L N]; [lia|lia|lia|].
    apply list_ext.
    + rewrite len_take by (rewrite len_upd, L; lia). rewrite len_splice by (fold n; lia).
      rewrite len_cons, len_nil. fold n. lia.
    + intros j Hj. rewrite len_take in Hj by (rewrite len_upd, L; lia).
      rewrite nthz_take by (rewrite ?len_upd, ?L; lia). rewrite nthz_upd by (rewrite L; lia).
      rewrite N. rewrite nthz_splice by (fold n; lia). rewrite len_cons, len_nil. unfold A.
      bdestr; fin.
Qed.

Lemma set_splice l o mn mx : l <> [] -> is_split l (oid o) mn mx ->
  find_position l (oid o) = (mn, if mx =? len l then -1 else mx) ->
  set l o = splice l (mn + 1) mx [o].
Proof.
  intros Hne (S1 & S2 & S3 & _) Hfp. unfold set. rewrite Hfp.
  assert (Hn : 0 < len l) by (destruct l; [congruence|rewrite len_cons; pose proof (len_nonneg l); lia]).
  destruct (Z.eqb_spec mx (len l)) as [E|E].
  - (* nothing larger *)
    destruct (Z.eqb_spec mn (-1)) as [E1|E1]; cbn [andb Z.eqb].
    + subst. unfold splice. rewrite drop_all by lia. reflexivity.
    + destruct (Z.eqb_spec mn (-1)); [lia|]. destruct (Z.leb_spec 0 mn); [|lia].
      cbn [Z.ltb Z.compare]. destruct (Z.eqb_spec (mn + 2) (len l)) as [E2|E2].
      * apply list_ext.
        -- rewrite len_upd, len_splice, len_cons, len_nil by lia. lia.
        -- intros j Hj. rewrite len_upd in Hj. rewrite nthz_upd, nthz_splice, len_cons, len_nil by lia.
           bdestr; fin.
      * replace (mn + 2) with (mn + 1 + 1) by lia. rewrite E. apply set_go_splice; lia.
  - destruct (Z.eqb_spec mn (-1)) as [E1|E1]; cbn [andb].
    + destruct (Z.eqb_spec mx (-1)); [lia|]. destruct (Z.leb_spec 0 mx); [|lia].
      subst mn. change (-1 + 1) with 0. change 1 with (0 + 1). apply set_go_splice; lia.
    + destruct (Z.eqb_spec mn mx); [lia|]. destruct (Z.leb_spec 0 mn); [|lia].
      destruct (Z.ltb_spec mx 0); [lia|].
      destruct (Z.eqb_spec (mn + 2) mx) as [E2|E2].
      * apply list_ext.
        -- rewrite len_upd, len_splice, len_cons, len_nil by lia. lia.
        -- intros j Hj. rewrite len_upd in Hj. rewrite nthz_upd, nthz_splice, len_cons, len_nil by lia.
           bdestr; fin.
      * replace (mn + 2) with (mn + 1 + 1) by lia. apply set_go_splice; lia.
Qed.

Lemma add_splice l o mn mx : l <> [] -> is_split l (oid o) mn mx ->
  find_position l (oid o) = (mn, if mx =? len l then -1 else mx) ->
  add l o = splice l mx mx [o].
Proof.
  intros Hne (S1 & S2 & S3 & _) Hfp. unfold add. rewrite Hfp.
  set (n := len l) in *. set (A := l ++ [zero_opt]).
  assert (HA : len A = n + 1) by (unfold A; rewrite len_app, len_cons, len_nil; fold n; lia).
  assert (Hp : (if (if mx =? n then -1 else mx) =? -1 then n else (if mx =? n then -1 else mx)) = mx)
    by (destruct (Z.eqb_spec mx n); [cbn; lia|destruct (Z.eqb_spec mx (-1)); lia]).
  rewrite Hp.
  destruct (shift_right_spec (Z.to_nat (n - mx)) A n) as [L N]; [lia|lia|].
  apply list_ext.
  - rewrite len_upd, L, len_splice, len_cons, len_nil by (fold n; lia). fold n. lia.
  - intros j Hj. rewrite len_upd, L in Hj. rewrite nthz_upd by (rewrite L; lia).
    rewrite N, nthz_splice, len_cons, len_nil by (fold n; lia). unfold A. bdestr; fin.
Qed.

Lemma find_split l id mn mx : l <> [] -> is_split l id mn mx ->
  find_position l id = (mn, if mx =? len l then -1 else mx) ->
  find l id = if mn + 1 <? mx then Some (mn + 1, mx) else None.
Proof.
  intros Hne (S1 & S2 & S3 & _) Hfp. unfold find. rewrite Hfp.
  assert (Hn : 0 < len l) by (destruct l; [congruence|rewrite len_cons; pose proof (len_nonneg l); lia]).
  destruct (Z.eqb_spec mx (len l)); bdestr; try reflexivity; try lia; try (repeat f_equal; lia).
Qed.

Lemma remove_splice l id mn mx : l <> [] -> is_split l id mn mx ->
  find_position l id = (mn, if mx =? len l then -1 else mx) ->
  remove l id = splice l (mn + 1) mx [].
Proof.
  intros Hne Hs Hfp. unfold remove. rewrite (find_split l id mn mx Hne Hs Hfp).
  destruct Hs as (S1 & S2 & S3 & _).
  destruct (Z.ltb_spec (mn + 1) mx) as [Hlt|Hge].
  - set (n := len l) in *.
    destruct (move_left_spec (Z.to_nat (n - mx)) l (mn + 1) mx) as [L N]; [lia|lia|fold n; lia|].
    apply list_ext.
    + rewrite len_take by (rewrite L; fold n; lia). rewrite len_splice, len_nil by (fold n; lia). fold n. lia.
    + intros j Hj. rewrite len_take in Hj by (rewrite L; fold n; lia).
      rewrite nthz_take by (rewrite ?L; fold n; lia). rewrite N, nthz_splice, len_nil by (fold n; lia).
      bdestr; fin.
  - assert (mx = mn + 1) by lia. subst mx. unfold splice. cbn [app]. symmetry. apply take_drop.
Qed.

(* positions of the three blocks: [0,a) smaller, [a,c) equal, [c,len) larger *)
Definition split3 (l : list opt) (id a c : Z) : Prop :=
  0 <= a /\ a <= c /\ c <= len l /\
  (forall k, 0 <= k < a -> oid (nthz l k) < id) /\
  (forall k, a <= k < c -> oid (nthz l k) = id) /\
  (forall k, c <= k < len l -> id < oid (nthz l k)).

Theorem ops_splice l id : sorted l -> exists a c, split3 l id a c /\
  (forall v, set l (id, v) = splice l a c [(id, v)]) /\
  (forall v, add l (id, v) = splice l c c [(id, v)]) /\
  remove l id = splice l a c [] /\
  find l id = (if a <? c then Some (a, c) else None).
Proof.
  intros Hs. destruct l as [|x r].
  - exists 0, 0. unfold split3. change (len (@nil opt)) with 0.
    repeat split; try lia; try reflexivity; intros; lia.
  - destruct (find_position_spec (x :: r) id Hs) as (mx & Hsp & Hmx); [congruence|].
    destruct (find_position (x :: r) id) as [mn mxr] eqn:Hfp. cbn [fst snd] in *. subst mxr.
    exists (mn + 1), mx. assert (Hne : x :: r <> []) by congruence.
    split; [|split; [|split; [|split]]].
    + destruct Hsp as (S1 & S2 & S3 & S4 & S5 & S6). unfold split3.
      refine (conj _ (conj _ (conj _ (conj _ (conj _ S6))))); try lia;
        intros k Hk; first [apply S4; lia | apply S5; lia].
    + intros v. apply (set_splice (x :: r) (id, v) mn mx Hne Hsp Hfp).
    + intros v. apply (add_splice (x :: r) (id, v) mn mx Hne Hsp Hfp).
    + apply (remove_splice (x :: r) id mn mx Hne Hsp Hfp).
    + apply (find_split (x :: r) id mn mx Hne Hsp Hfp).
Qed.

(* ------------------------------------------------------------------ *)
(* E. the reference operations as splices; sortedness                  *)

Lemma Forall_nthz (P : opt -> Prop) l : (forall k, 0 <= k < len l -> P (nthz l k)) -> Forall P l.
Proof.
  induction l as [|x l IH]; intros H; constructor.
  - apply (H 0). rewrite len_cons. pose proof (len_nonneg l). lia.
  - apply IH. intros k Hk. rewrite <- (nthz_S x) by lia. apply H. rewrite len_cons. lia.
Qed.
Lemma nthz_Forall (P : opt -> Prop) l k : Forall P l -> 0 <= k < len l -> P (nthz l k).
Proof.
  intros H. revert k. induction H as [|x l Hx Hl IH]; intros k Hk.
  - unfold len in Hk; cbn [length Z.of_nat] in Hk. lia.
  - rewrite len_cons in Hk. destruct (Z.eq_dec k 0) as [->|]; [assumption|].
    rewrite nthz_cons by lia. apply IH. lia.
Qed.

Lemma filter_all {A} (p : A -> bool) l : Forall (fun x => p x = true) l -> filter p l = l.
Proof. induction 1 as [|x l Hx _ IH]; cbn [filter]; [reflexivity|]. rewrite Hx, IH. reflexivity. Qed.
Lemma filter_none {A} (p : A -> bool) l : Forall (fun x => p x = false) l -> filter p l = [].
Proof. induction 1 as [|x l Hx _ IH]; cbn [filter]; [reflexivity|]. rewrite Hx, IH. reflexivity. Qed.

Lemma ref_add_app o X Y : Forall (fun x => oid x <= oid o) X ->
  (forall y r, Y = y :: r -> oid o < oid y) ->
  ref_add o (X ++ Y) = X ++ o :: Y.
Proof.
  intros HX HY. induction HX as [|x X Hx _ IH]; cbn [app ref_add].
  - destruct Y as [|y r]; [reflexivity|]. cbn [ref_add]. specialize (HY y r eq_refl).
    destruct (Z.leb_spec (oid y) (oid o)); [lia|reflexivity].
  - destruct (Z.leb_spec (oid x) (oid o)); [|lia]. rewrite IH. reflexivity.
Qed.

Lemma drop_drop {A} (l : list A) a b : 0 <= a -> 0 <= b -> drop (drop l a) b = drop l (a + b).
Proof.
  intros Ha Hb. unfold drop. replace (Z.to_nat (a + b)) with (Z.to_nat a + Z.to_nat b)%nat by lia.
  generalize (Z.to_nat a) as n. generalize (Z.to_nat b) as m. intros m n. revert l.
  induction n as [|n IH]; intros l; [reflexivity|]. destruct l as [|x l]; [destruct m; reflexivity|].
  cbn [skipn Nat.add]. apply IH.
Qed.

Lemma split3_lo l id a c : split3 l id a c -> Forall (fun x => oid x < id) (take l a).
Proof.
  intros (H1 & H2 & H3 & H4 & _). apply Forall_nthz. intros k Hk. rewrite len_take in Hk by lia.
  rewrite nthz_take by lia. apply H4; lia.
Qed.
Lemma split3_le l id a c : split3 l id a c -> Forall (fun x => oid x <= id) (take l c).
Proof.
  intros (H1 & H2 & H3 & H4 & H5 & _). apply Forall_nthz. intros k Hk. rewrite len_take in Hk by lia.
  rewrite nthz_take by lia. destruct (Z.ltb_spec k a); [specialize (H4 k); lia|specialize (H5 k); lia].
Qed.
Lemma split3_mid l id a c : split3 l id a c -> Forall (fun x => oid x = id) (take (drop l a) (c - a)).
Proof.
  intros (H1 & H2 & H3 & H4 & H5 & _). apply Forall_nthz. intros k Hk.
  rewrite len_take in Hk by (rewrite len_drop; lia).
  rewrite nthz_take by (rewrite ?len_drop; lia). rewrite nthz_drop by lia. apply H5; lia.
Qed.
Lemma split3_hi l id a c : split3 l id a c -> Forall (fun x => id < oid x) (drop l c).
Proof.
  intros (H1 & H2 & H3 & _ & _ & H6). apply Forall_nthz. intros k Hk. rewrite len_drop in Hk by lia.
  rewrite nthz_drop by lia. apply H6; lia.
Qed.
Lemma Forall_hd (P : opt -> Prop) Y : Forall P Y -> forall y r, Y = y :: r -> P y.
Proof. intros H y r ->. inversion H; assumption. Qed.

Lemma ref_add_splice l o a c : split3 l (oid o) a c -> ref_add o l = splice l c c [o].
Proof.
  intros H. rewrite <- (take_drop l c) at 1. unfold splice. cbn [app]. apply ref_add_app.
  - apply (split3_le l _ a c H).
  - apply (Forall_hd (fun y => oid o < oid y)). apply (split3_hi l _ a c H).
Qed.

Lemma ref_remove_splice l id a c : split3 l id a c -> ref_remove id l = splice l a c [].
Proof.
  intros H. pose proof H as (H1 & H2 & H3 & _).
  rewrite <- (take_drop l a) at 1. rewrite <- (take_drop (drop l a) (c - a)).
  rewrite drop_drop by lia. replace (a + (c - a)) with c by lia.
  unfold ref_remove, splice. rewrite !filter_app. cbn [app].
  rewrite (filter_all _ (take l a)), (filter_none _ (take (drop l a) (c - a))), (filter_all _ (drop l c)).
  - reflexivity.
  - eapply Forall_impl; [|apply (split3_hi l id a c H)]. cbv beta. intros x Hx.
    destruct (Z.eqb_spec (oid x) id); [lia|reflexivity].
  - eapply Forall_impl; [|apply (split3_mid l id a c H)]. cbv beta. intros x Hx.
    destruct (Z.eqb_spec (oid x) id); [reflexivity|lia].
  - eapply Forall_impl; [|apply (split3_lo l id a c H)]. cbv beta. intros x Hx.
    destruct (Z.eqb_spec (oid x) id); [lia|reflexivity].
Qed.

Lemma ref_set_splice l o a c : split3 l (oid o) a c -> ref_set o l = splice l a c [o].
Proof.
  intros H. unfold ref_set. rewrite (ref_remove_splice l (oid o) a c H). unfold splice. cbn [app].
  apply ref_add_app.
  - eapply Forall_impl; [|apply (split3_lo l _ a c H)]. cbv beta. intros; lia.
  - apply (Forall_hd (fun y => oid o < oid y)). apply (split3_hi l _ a c H).
Qed.

(* weaker split (first block <=) used for sortedness of the results *)
Definition split3le (l : list opt) (id a c : Z) : Prop :=
  0 <= a /\ a <= c /\ c <= len l /\
  (forall k, 0 <= k < a -> oid (nthz l k) <= id) /\
  (forall k, c <= k < len l -> id < oid (nthz l k)).
Lemma split3_le1 l id a c : split3 l id a c -> split3le l id a c.
Proof.
  intros (H1 & H2 & H3 & H4 & H5 & H6). unfold split3le. refine (conj H1 (conj H2 (conj H3 (conj _ H6)))).
  intros k Hk. specialize (H4 k Hk). lia.
Qed.
Lemma split3_le2 l id a c : split3 l id a c -> split3le l id c c.
Proof.
  intros (H1 & H2 & H3 & H4 & H5 & H6). unfold split3le.
  refine (conj _ (conj _ (conj H3 (conj _ H6)))); try lia;
  try (intros k Hk; destruct (Z.ltb_spec k a); [specialize (H4 k); lia|specialize (H5 k); lia]).
Qed.

(* every position of a splice whose middle carries the number id *)
Lemma splice_pos l id a c mid k : split3le l id a c -> Forall (fun x => oid x = id) mid ->
  0 <= k < len (splice l a c mid) ->
  (k < a /\ nthz (splice l a c mid) k = nthz l k /\ oid (nthz l k) <= id) \/
  (a <= k < a + len mid /\ oid (nthz (splice l a c mid) k) = id) \/
  (a + len mid <= k /\ nthz (splice l a c mid) k = nthz l (k - a - len mid + c) /\
   c <= k - a - len mid + c < len l /\ id < oid (nthz l (k - a - len mid + c))).
Proof.
  intros (H1 & H2 & H3 & H4 & H6) Hm Hk. rewrite len_splice in Hk by lia.
  rewrite nthz_splice by lia.
  destruct (Z.ltb_spec k a); [left; repeat split; [lia|apply H4; lia]|].
  destruct (Z.ltb_spec k (a + len mid)).
  - right; left. split; [lia|]. apply (nthz_Forall (fun x => oid x = id)); [assumption|lia].
  - right; right. repeat split; try lia. apply H6; lia.
Qed.

Lemma sorted_splice l id a c mid : sorted l -> split3le l id a c ->
  Forall (fun x => oid x = id) mid -> sorted (splice l a c mid).
Proof.
  intros Hs H Hm i j Hi Hij Hj. pose proof H as (P1 & P2 & P3 & _). pose proof (len_nonneg mid) as P4.
  assert (Hi' : 0 <= i < len (splice l a c mid)) by lia.
  assert (Hj' : 0 <= j < len (splice l a c mid)) by lia.
  destruct (splice_pos l id a c mid i H Hm Hi') as [(I1 & I2 & I3)|[(I1 & I2)|(I1 & I2 & I3 & I4)]];
  destruct (splice_pos l id a c mid j H Hm Hj') as [(J1 & J2 & J3)|[(J1 & J2)|(J1 & J2 & J3 & J4)]]; try lia;
  rewrite ?I2, ?J2; try lia; apply Hs; lia.
Qed.

Lemma sorted_nil : sorted [].
Proof. intros i j Hi Hij Hj. unfold len in Hj; cbn [length Z.of_nat] in Hj. lia. Qed.

Lemma split3_exists l id : sorted l -> exists a c, split3 l id a c.
Proof. intros Hs. destruct (ops_splice l id Hs) as (a & c & H & _). exists a, c. assumption. Qed.

(* the four list operations refine the reference on every sorted list *)
Theorem set_refines l o : sorted l -> set l o = ref_set o l /\ sorted (set l o).
Proof.
  intros Hs. destruct o as [id v]. destruct (ops_splice l id Hs) as (a & c & H & Hset & _).
  rewrite Hset. split; [symmetry; apply ref_set_splice; assumption|].
  apply (sorted_splice l id); [assumption|apply split3_le1; assumption|repeat constructor].
Qed.
Theorem add_refines l o : sorted l -> add l o = ref_add o l /\ sorted (add l o).
Proof.
  intros Hs. destruct o as [id v]. destruct (ops_splice l id Hs) as (a & c & H & _ & Hadd & _).
  rewrite Hadd. split; [symmetry; apply (ref_add_splice l (id, v) a c); assumption|].
  apply (sorted_splice l id c c); [assumption|apply (split3_le2 l id a c); assumption|repeat constructor].
Qed.
Theorem remove_refines l id : sorted l -> remove l id = ref_remove id l /\ sorted (remove l id).
Proof.
  intros Hs. destruct (ops_splice l id Hs) as (a & c & H & _ & _ & Hrm & _).
  rewrite Hrm. split; [symmetry; apply ref_remove_splice; assumption|].
  apply (sorted_splice l id); [assumption|apply split3_le1; assumption|constructor].
Qed.

(* ------------------------------------------------------------------ *)
(* F. uint32 values, ResetOptionsTo, Clone                             *)

Lemma be_bytes_uint v : 0 <= v < 4294967296 ->
  be_bytes (Z.to_nat (uint_len v)) v = uint_bytes v.
Proof.
  intros Hv.
  assert (B1 : be_bytes 1 v = [(v / 1) mod 256]) by reflexivity.
  assert (B2 : be_bytes 2 v = [(v / 256) mod 256; (v / 1) mod 256]) by reflexivity.
  assert (B3 : be_bytes 3 v = [(v / 65536) mod 256; (v / 256) mod 256; (v / 1) mod 256]) by reflexivity.
  assert (B4 : be_bytes 4 v = [(v / 16777216) mod 256; (v / 65536) mod 256; (v / 256) mod 256; (v / 1) mod 256]) by reflexivity.
  unfold uint_bytes, uint_len.
  destruct (Z.leb_spec v 0); [reflexivity|].
  destruct (Z.ltb_spec v 256).
  { change (Z.to_nat 1) with 1%nat. rewrite B1. repeat (f_equal; try lia). }
  destruct (Z.ltb_spec v 65536).
  { change (Z.to_nat 2) with 2%nat. rewrite B2. repeat (f_equal; try lia). }
  destruct (Z.ltb_spec v 16777216).
  { change (Z.to_nat 3) with 3%nat. rewrite B3. repeat (f_equal; try lia). }
  change (Z.to_nat 4) with 4%nat. rewrite B4. repeat (f_equal; try lia).
Qed.

Lemma encode_uint32_spec b v : 0 <= v < 4294967296 ->
  encode_uint32 b v = if b <? uint_len v then (uint_len v, ETooSmall, []) else (uint_len v, ENone, uint_bytes v).
Proof.
  intros Hv. unfold encode_uint32, max1ByteNumber, max2ByteNumber, max3ByteNumber.
  assert (E : (if v =? 0 then 0 else if v <=? 255 then 1 else if v <=? 65535 then 2
               else if v <=? 16777215 then 3 else 4) = uint_len v).
  { unfold uint_len. bdestr; lia. }
  rewrite E. destruct (b <? uint_len v); [reflexivity|]. rewrite be_bytes_uint by assumption. reflexivity.
Qed.

Definition fold_add (ins acc : list opt) : list opt := fold_left (fun a x => add a x) ins acc.
Definition fold_ref (ins acc : list opt) : list opt := fold_left (fun a x => ref_add x a) ins acc.

Lemma fold_add_ref ins : forall acc, sorted acc -> fold_add ins acc = fold_ref ins acc /\ sorted (fold_add ins acc).
Proof.
  induction ins as [|x ins IH]; intros acc Hs; [split; [reflexivity|assumption]|].
  unfold fold_add, fold_ref in *. cbn [fold_left]. destruct (add_refines acc x Hs) as [E S].
  rewrite <- E. apply IH. assumption.
Qed.

Lemma sum_len_from ins : forall u, fold_left (fun a o => a + len (oval o)) ins u = u + sum_len ins.
Proof.
  unfold sum_len. induction ins as [|x ins IH]; intros u; cbn [fold_left]; [lia|].
  rewrite IH, (IH (0 + _)). lia.
Qed.

Lemma reset_loop_spec ins : forall opts b u,
  reset_loop ins opts b u = (fold_add ins opts, u + sum_len ins, ENone).
Proof.
  induction ins as [|x ins IH]; intros opts b u; cbn [reset_loop].
  - unfold sum_len, fold_add. cbn [fold_left]. repeat f_equal. lia.
  - rewrite IH. destruct x as [i v]. cbn [oid oval fst snd]. unfold fold_add. cbn [fold_left].
    f_equal. f_equal. unfold sum_len at 2. cbn [fold_left oval snd].
    rewrite (sum_len_from ins (0 + len v)). lia.
Qed.

Lemma reset_options_to_spec l b ins :
  reset_options_to l b ins =
    if b <? sum_len ins then (l, sum_len ins, ETooSmall) else (fold_ref ins [], sum_len ins, ENone).
Proof.
  unfold reset_options_to. destruct (b <? sum_len ins); [reflexivity|].
  rewrite reset_loop_spec. destruct (fold_add_ref ins [] sorted_nil) as [E _]. rewrite E. reflexivity.
Qed.

Lemma sorted_fold_ref ins : sorted (fold_ref ins []).
Proof. destruct (fold_add_ref ins [] sorted_nil) as [E S]. rewrite <- E. assumption. Qed.

(* inserting the elements of a sorted list one by one rebuilds it *)
Lemma fold_ref_sorted l : forall acc, sorted (acc ++ l) -> fold_ref l acc = acc ++ l.
Proof.
  induction l as [|x l IH]; intros acc Hs; [unfold fold_ref; cbn; rewrite app_nil_r; reflexivity|].
  unfold fold_ref in *. cbn [fold_left].
  assert (E : ref_add x acc = acc ++ [x]).
  { rewrite <- (app_nil_r acc) at 1. apply ref_add_app; [|intros y r Hy; discriminate].
    apply Forall_nthz. intros k Hk.
    assert (H := Hs k (len acc)). rewrite nthz_app_l in H by lia.
    rewrite nthz_app_r in H by lia. rewrite Z.sub_diag, nthz_0 in H. apply H; try lia.
    rewrite len_app, len_cons. pose proof (len_nonneg l). lia. }
  rewrite E. rewrite IH; rewrite <- app_assoc; [reflexivity|assumption].
Qed.

Lemma clone_spec l : sorted l -> clone l = (l, ENone).
Proof.
  intros Hs. unfold clone. rewrite reset_options_to_spec.
  assert (E : fold_ref l [] = l) by (apply (fold_ref_sorted l []); assumption).
  destruct (Z.ltb_spec 64 (sum_len l)).
  - cbn [Z.eqb ETooSmall]. rewrite reset_options_to_spec.
    destruct (Z.ltb_spec (64 + (sum_len l - 64)) (sum_len l)); [lia|]. rewrite E. reflexivity.
  - rewrite E. reflexivity.
Qed.

(* ------------------------------------------------------------------ *)
(* G. getters: total and consistent with the reference                 *)

Lemma skipn_nth n : forall l : list opt, (n < length l)%nat ->
  skipn n l = nth n l zero_opt :: skipn (S n) l.
Proof.
  induction n as [|n IH]; intros [|x l] H; cbn [length] in H; try lia; [reflexivity|].
  cbn [skipn nth]. rewrite IH by lia. reflexivity.
Qed.
Lemma drop_cons l i : 0 <= i < len l -> drop l i = nthz l i :: drop l (i + 1).
Proof.
  intros H. unfold drop, nthz. destruct (Z.ltb_spec i 0); [lia|].
  replace (Z.to_nat (i + 1)) with (S (Z.to_nat i)) by lia. apply skipn_nth. unfold len in H. lia.
Qed.

Lemma collect_spec {B} (f : opt -> B) l rlen : forall k i j acc,
  0 <= i -> i + Z.of_nat k <= len l -> 0 <= j -> j + Z.of_nat k <= rlen ->
  collect k l i j rlen f acc = Ok (acc ++ map f (take (drop l i) (Z.of_nat k))).
Proof.
  induction k as [|k IH]; intros i j acc Hi Hk Hj Hr.
  - cbn [collect]. unfold take. cbn. rewrite app_nil_r. reflexivity.
  - cbn [collect]. unfold idx. destruct (Z.leb_spec 0 i); [|lia]. destruct (Z.ltb_spec i (len l)); [|lia].
    cbn [andb]. destruct (Z.ltb_spec j rlen); [|lia]. rewrite IH by lia.
    rewrite (drop_cons l i) by lia. unfold take. replace (Z.to_nat (Z.of_nat (S k))) with (S (Z.to_nat (Z.of_nat k))) by lia.
    cbn [firstn map]. rewrite <- app_assoc. reflexivity.
Qed.

Lemma ref_parts l id a c : split3 l id a c ->
  filter (fun x => oid x =? id) l = take (drop l a) (c - a) /\
  filter (fun x => oid x <? id) l = take l a.
Proof.
  intros H. pose proof H as (H1 & H2 & H3 & _).
  assert (E : l = take l a ++ take (drop l a) (c - a) ++ drop l c).
  { rewrite <- (take_drop l a) at 1. rewrite <- (take_drop (drop l a) (c - a)) at 1.
    rewrite drop_drop by lia. replace (a + (c - a)) with c by lia. reflexivity. }
  split; rewrite E at 1; rewrite !filter_app.
  - rewrite (filter_none _ (take l a)), (filter_all _ (take (drop l a) (c - a))), (filter_none _ (drop l c)).
    + rewrite app_nil_r. reflexivity.
    + eapply Forall_impl; [|apply (split3_hi l id a c H)]. cbv beta. intros x Hx. apply Z.eqb_neq. lia.
    + eapply Forall_impl; [|apply (split3_mid l id a c H)]. cbv beta. intros x Hx. apply Z.eqb_eq. lia.
    + eapply Forall_impl; [|apply (split3_lo l id a c H)]. cbv beta. intros x Hx. apply Z.eqb_neq. lia.
  - rewrite (filter_all _ (take l a)), (filter_none _ (take (drop l a) (c - a))), (filter_none _ (drop l c)).
    + rewrite !app_nil_r. reflexivity.
    + eapply Forall_impl; [|apply (split3_hi l id a c H)]. cbv beta. intros x Hx. apply Z.ltb_ge. lia.
    + eapply Forall_impl; [|apply (split3_mid l id a c H)]. cbv beta. intros x Hx. apply Z.ltb_ge. lia.
    + eapply Forall_impl; [|apply (split3_lo l id a c H)]. cbv beta. intros x Hx. apply Z.ltb_lt. lia.
Qed.

Lemma len_map {A B} (f : A -> B) l : len (map f l) = len l.
Proof. unfold len. rewrite map_length. reflexivity. Qed.

(* the block of options numbered id, as the model's Find sees it *)
Lemma find_ref l id : sorted l -> exists a c, split3 l id a c /\
  find l id = (if a <? c then Some (a, c) else None) /\
  ref_values id l = map oval (take (drop l a) (c - a)) /\
  ref_count id l = c - a /\ ref_before id l = a.
Proof.
  intros Hs. destruct (ops_splice l id Hs) as (a & c & H & _ & _ & _ & Hf).
  exists a, c. destruct (ref_parts l id a c H) as [E1 E2]. pose proof H as (H1 & H2 & H3 & _).
  unfold ref_count, ref_before, ref_values. rewrite E1, E2, len_map.
  rewrite !len_take by (rewrite ?len_drop; lia). refine (conj H (conj Hf (conj eq_refl (conj eq_refl eq_refl)))).
Qed.

Theorem find_refines l id : sorted l -> find l id = ref_find id l /\ has_option l id = ref_has id l.
Proof.
  intros Hs. destruct (find_ref l id Hs) as (a & c & H & Hf & Hv & Hc & Hb).
  unfold has_option, ref_find, ref_has. rewrite Hf, Hc, Hb.
  destruct (Z.ltb_spec a c); destruct (Z.ltb_spec 0 (c - a)); try lia; split; try reflexivity.
  repeat f_equal. lia.
Qed.

Definition first_answer {B} (f : list Z -> B) (d : B) (id : Z) (l : list opt) : res (Z * B) :=
  match ref_first id l with None => Ok (ENotFound, d) | Some v => Ok (ENone, f v) end.

Lemma first_refines {B} (f : list Z -> B) d l id : sorted l ->
  match find l id with
  | None => Ok (ENotFound, d)
  | Some (fi, _) => match idx l fi with Panic => Panic | Ok o => Ok (ENone, f (oval o)) end
  end = first_answer f d id l.
Proof.
  intros Hs. destruct (find_ref l id Hs) as (a & c & H & Hf & Hv & Hc & Hb).
  pose proof H as (H1 & H2 & H3 & _). unfold first_answer, ref_first. rewrite Hf, Hv.
  destruct (Z.ltb_spec a c).
  - unfold idx. destruct (Z.leb_spec 0 a); [|lia]. destruct (Z.ltb_spec a (len l)); [|lia]. cbn [andb].
    rewrite (drop_cons l a) by lia. unfold take. replace (Z.to_nat (c - a)) with (S (Z.to_nat (c - a - 1))) by lia.
    cbn [firstn map]. reflexivity.
  - replace (c - a) with 0 by lia. reflexivity.
Qed.

Theorem get_bytes_refines l id : sorted l -> get_bytes l id = first_answer (fun v => v) [] id l.
Proof. intros Hs. unfold get_bytes. apply (first_refines (fun v => v) [] l id Hs). Qed.
Theorem get_uint32_refines l id : sorted l -> get_uint32 l id = first_answer ref_uint 0 id l.
Proof. intros Hs. unfold get_uint32. apply (first_refines ref_uint 0 l id Hs). Qed.

(* multi-value getters with a result slice of rlen elements *)
Definition multi_answer {B} (f : list Z -> B) (id rlen : Z) (l : list opt) : res (Z * Z * list B) :=
  if ref_has id l then
    if rlen <? ref_count id l then Ok (ref_count id l, ETooSmall, [])
    else Ok (ref_count id l, ENone, map f (ref_values id l))
  else Ok (0, ENotFound, []).

Theorem get_multi_refines {B} (f : list Z -> B) l id rlen : sorted l ->
  get_multi (fun o => f (oval o)) l id rlen = multi_answer f id rlen l.
Proof.
  intros Hs. destruct (find_ref l id Hs) as (a & c & H & Hf & Hv & Hc & Hb).
  pose proof H as (H1 & H2 & H3 & _). unfold get_multi, multi_answer, ref_has. rewrite Hf, Hv, Hc.
  destruct (Z.ltb_spec a c); destruct (Z.ltb_spec 0 (c - a)); try lia; [|reflexivity].
  destruct (Z.ltb_spec rlen (c - a)); [reflexivity|].
  rewrite collect_spec by lia. cbn [app]. rewrite Z2Nat.id by lia.
  rewrite len_map, len_take by (rewrite len_drop; lia). rewrite map_map. reflexivity.
Qed.

Theorem getters_total l id rlen : sorted l ->
  get_bytes l id <> Panic /\ get_uint32 l id <> Panic /\ get_media l id <> Panic /\
  get_uint32s l id rlen <> Panic /\ get_strings l id rlen <> Panic /\ get_bytess l id rlen <> Panic.
Proof.
  intros Hs.
  assert (G1 := get_bytes_refines l id Hs). assert (G2 := get_uint32_refines l id Hs).
  assert (G3 := get_multi_refines ref_uint l id rlen Hs).
  assert (G4 := get_multi_refines (fun v => v) l id rlen Hs).
  unfold get_media, get_uint32s, get_strings, get_bytess.
  change (fun o : opt => decode_uint32 (oval o)) with (fun o : opt => ref_uint (oval o)).
  change oval with (fun o : opt => (fun v : list Z => v) (oval o)).
  rewrite G1, G2, G3, G4. unfold first_answer, multi_answer.
  destruct (ref_first id l); destruct (ref_has id l); destruct (rlen <? ref_count id l);
  cbn iota beta; repeat split; discriminate.
Qed.

(* Queries(): four result slots and ONE retry with the count the first call
   reported.  On every sorted list the retry suffices (no error survives it),
   the wrapper never panics and answers with all Uri-Query values in order. *)
Theorem queries_spec l : sorted l ->
  queries l = if ref_has URIQuery l then Ok (ENone, ref_values URIQuery l) else Ok (ENotFound, []).
Proof.
  intros Hs. unfold queries.
  assert (G : forall n, get_strings l URIQuery n = multi_answer (fun v => v) URIQuery n l)
    by (intro n; exact (get_multi_refines (fun v => v) l URIQuery n Hs)).
  rewrite G. unfold multi_answer at 1. destruct (ref_has URIQuery l) eqn:Hh; [|reflexivity].
  destruct (Z.ltb_spec 4 (ref_count URIQuery l)) as [Hlt|Hge].
  - cbn [Z.eqb ETooSmall ENone Pos.eqb]. rewrite G. unfold multi_answer. rewrite Hh.
    destruct (Z.ltb_spec (4 + (ref_count URIQuery l - 4)) (ref_count URIQuery l)); [lia|].
    cbn [Z.eqb ENone]. rewrite map_id, take_all by (unfold ref_count; lia). reflexivity.
  - cbn [Z.eqb ETooSmall ENone Pos.eqb]. rewrite map_id, take_all by (unfold ref_count; lia). reflexivity.
Qed.

(* ------------------------------------------------------------------ *)
(* I. every operation refines the reference; sequences                 *)

Ltac rs := repeat split; try assumption; try discriminate; try reflexivity.

Definition op_wf (o : op) : Prop :=
  match o with
  | OSetU32 _ v _ | OAddU32 _ v _ => 0 <= v < 4294967296
  | _ => True
  end.
Definition not_path (o : op) : Prop := match o with OSetPath _ _ _ => False | _ => True end.

(* outcome of one step against the reference: performed = the reference's
   list, refused = unchanged (and the reference refuses too) *)
Definition refines (bounded : bool) (l : list opt) (o : op) (l' : list opt) (e : Z) : Prop :=
  sorted l' /\
  match ref_step bounded l o with
  | Some r => e = ENone /\ l' = r
  | None => e <> ENone /\ l' = l
  end.

Lemma sorted_ref_add l o : sorted l -> sorted (ref_add o l).
Proof. intros Hs. destruct (add_refines l o Hs) as [E S]. rewrite <- E. assumption. Qed.
Lemma sorted_ref_set l o : sorted l -> sorted (ref_set o l).
Proof. intros Hs. destruct (set_refines l o Hs) as [E S]. rewrite <- E. assumption. Qed.
Lemma sorted_ref_remove l id : sorted l -> sorted (ref_remove id l).
Proof. intros Hs. destruct (remove_refines l id Hs) as [E S]. rewrite <- E. assumption. Qed.

Theorem ostep_refines l o : sorted l -> op_wf o -> not_path o ->
  let '(l', _, e) := ostep l o in refines true l o l' e.
Proof.
  intros Hs Hwf Hnp. unfold refines.
  destruct o as [id v|id v|id|id v b|id v b|id v b|id v b|id p b|ins b| |]; cbn [ostep ref_step op_wf not_path andb] in *.
  - destruct (set_refines l (id, v) Hs) as [E S]. rewrite E in *. rs.
  - destruct (add_refines l (id, v) Hs) as [E S]. rewrite E in *. rs.
  - destruct (remove_refines l id Hs) as [E S]. rewrite E in *. rs.
  - unfold set_bytes, URIPath, maxPathValue, uri_path.
    destruct (b <? len v); cbn [orb]; [rs|].
    destruct ((id =? 11) && (255 <? len v)); [rs|].
    destruct (set_refines l (id, v) Hs) as [E S]. rewrite E in *. rs.
  - unfold add_bytes, URIPath, maxPathValue, uri_path.
    destruct (b <? len v); cbn [orb]; [rs|].
    destruct ((id =? 11) && (255 <? len v)); [rs|].
    destruct (add_refines l (id, v) Hs) as [E S]. rewrite E in *. rs.
  - unfold set_uint32. rewrite encode_uint32_spec by assumption.
    destruct (b <? uint_len v); cbn [Z.eqb ETooSmall ENone]; [rs|].
    destruct (set_refines l (id, uint_bytes v) Hs) as [E S]. rewrite E in *. rs.
  - unfold add_uint32. rewrite encode_uint32_spec by assumption.
    destruct (b <? uint_len v); cbn [Z.eqb ETooSmall ENone]; [rs|].
    destruct (add_refines l (id, uint_bytes v) Hs) as [E S]. rewrite E in *. rs.
  - contradiction.
  - rewrite reset_options_to_spec. destruct (b <? sum_len ins); [rs|].
    rs; apply sorted_fold_ref.
  - rewrite clone_spec by assumption. cbn [Z.eqb ENone]. rs.
  - rs; apply sorted_nil.
Qed.

(* a whole history of message.Options edits *)
Definition orun (ops : list op) (l : list opt) : list opt :=
  fold_left (fun acc o => fst (fst (ostep acc o))) ops l.

Theorem orun_refines ops : forall l, sorted l -> Forall op_wf ops -> Forall not_path ops ->
  orun ops l = ref_run true ops l /\ sorted (orun ops l).
Proof.
  induction ops as [|o ops IH]; intros l Hs Hwf Hnp; [split; [reflexivity|assumption]|].
  inversion Hwf as [|? ? Hw1 Hw2]; subst. inversion Hnp as [|? ? Hn1 Hn2]; subst.
  unfold orun, ref_run in *. cbn [fold_left].
  pose proof (ostep_refines l o Hs Hw1 Hn1) as R. destruct (ostep l o) as [[l' u] e]. cbn [fst].
  destruct R as [S R]. unfold ref_apply at 2. destruct (ref_step true l o) as [r|]; destruct R as [_ ->]; apply IH; assumption.
Qed.

(* pool.Message: the builder step either performs the reference's edit or
   leaves the list unchanged *)
Lemma ref_step_unbounded l o r : ref_step true l o = Some r -> ref_step false l o = Some r.
Proof.
  destruct o as [id v|id v|id|id v b|id v b|id v b|id v b|id p b|ins b| |]; cbn [ref_step andb orb]; try (intros H; exact H).
  - destruct (b <? len v); cbn [orb]; [discriminate|auto].
  - destruct (b <? len v); cbn [orb]; [discriminate|auto].
  - destruct (b <? uint_len v); [discriminate|auto].
  - destruct (b <? uint_len v); [discriminate|auto].
  - destruct p; [auto|]. destruct (negb (segs_ok (z :: p))); cbn [orb]; [discriminate|].
    destruct (b <? segs_total (z :: p)); [discriminate|auto].
  - destruct (b <? sum_len ins); [discriminate|auto].
Qed.

Lemma with_retry_cases s f grow s' e : with_retry s f grow = (s', e) ->
  (e = ENone /\ exists b u, f b = (m_opts s', u, ENone)) \/ (e <> ENone /\ m_opts s' = m_opts s).
Proof.
  unfold with_retry. set (r1 := f (m_vb s)).
  destruct (snd r1 =? ETooSmall) eqn:Sm.
  - destruct (f (m_vb s + grow (snd (fst r1)))) as [[o u] e'] eqn:F.
    destruct (Z.eqb_spec e' ENone) as [->|Hne]; intros H; inversion H; subst; cbn [m_opts].
    + left. split; [reflexivity|]. eexists _, _. exact F.
    + right. split; [assumption|reflexivity].
  - destruct r1 as [[o u] e'] eqn:F.
    destruct (Z.eqb_spec e' ENone) as [->|Hne]; intros H; inversion H; subst; cbn [m_opts].
    + left. split; [reflexivity|]. eexists _, _. exact F.
    + right. split; [assumption|reflexivity].
Qed.

Definition mrefines (l : list opt) (o : op) (l' : list opt) (e : Z) : Prop :=
  sorted l' /\ (e = ENone -> ref_step false l o = Some l') /\ (e <> ENone -> l' = l).

Lemma retry_refines s o f grow s' e : sorted (m_opts s) ->
  (forall b, let '(l', _, e') := f b in refines true (m_opts s) (o b) l' e') ->
  (forall b b', ref_step false (m_opts s) (o b) = ref_step false (m_opts s) (o b')) ->
  with_retry s f grow = (s', e) -> forall b0, mrefines (m_opts s) (o b0) (m_opts s') e.
Proof.
  intros Hs Hf Hb Hw b0. apply with_retry_cases in Hw as [[-> (b & u & F)]|[Hne E]].
  - specialize (Hf b). rewrite F in Hf. destruct Hf as [S R]. split; [assumption|]. split; [|congruence].
    intros _. rewrite (Hb b0 b). destruct (ref_step true (m_opts s) (o b)) as [r|] eqn:Rs.
    + destruct R as [_ ->]. apply ref_step_unbounded. assumption.
    + destruct R as [R _]. congruence.
  - rewrite E. split; [assumption|]. split; [congruence|reflexivity].
Qed.

Lemma panics_e r s e : panics r = (s, e) -> fst r = s /\ (e = ENone <-> snd r = ENone).
Proof.
  destruct r as [s0 e0]. unfold panics. destruct (Z.eqb_spec e0 ENone) as [->|Hne]; intros H; inversion H; subst; cbn.
  - split; [reflexivity|tauto].
  - split; [reflexivity|]. unfold EPanic, ENone. split; [discriminate|intros; contradiction].
Qed.

Theorem mstep_refines s o : sorted (m_opts s) -> op_wf o -> not_path o ->
  let '(s', e) := mstep s o in mrefines (m_opts s) o (m_opts s') e.
Proof.
  intros Hs Hwf Hnp. destruct (mstep s o) as [s' e] eqn:M.
  destruct o as [id v|id v|id|id v b|id v b|id v b|id v b|id p b|ins b| |]; cbn [mstep op_wf not_path] in *.
  - inversion M; subst; cbn [m_opts]. destruct (set_refines (m_opts s) (id, v) Hs) as [E S].
    unfold mrefines. cbn [ref_step]. rewrite <- E. repeat split; [assumption|congruence].
  - inversion M; subst; cbn [m_opts]. destruct (add_refines (m_opts s) (id, v) Hs) as [E S].
    unfold mrefines. cbn [ref_step]. rewrite <- E. repeat split; [assumption|congruence].
  - inversion M; subst; cbn [m_opts]. destruct (remove_refines (m_opts s) id Hs) as [E S].
    unfold mrefines. cbn [ref_step]. rewrite <- E. repeat split; [assumption|congruence].
  - apply panics_e in M as [M1 M2]. destruct (with_retry s _ _) as [s1 e1] eqn:W. cbn [fst snd] in *. subst s1.
    pose proof (retry_refines s (fun b => OSetBytes id v b) _ _ s' e1 Hs
      (fun b => ostep_refines (m_opts s) (OSetBytes id v b) Hs I I) (fun _ _ => eq_refl) W b) as (R1 & R2 & R3).
    split; [assumption|]. split; intros He; [apply R2; tauto|apply R3; tauto].
  - apply panics_e in M as [M1 M2]. destruct (with_retry s _ _) as [s1 e1] eqn:W. cbn [fst snd] in *. subst s1.
    pose proof (retry_refines s (fun b => OAddBytes id v b) _ _ s' e1 Hs
      (fun b => ostep_refines (m_opts s) (OAddBytes id v b) Hs I I) (fun _ _ => eq_refl) W b) as (R1 & R2 & R3).
    split; [assumption|]. split; intros He; [apply R2; tauto|apply R3; tauto].
  - apply panics_e in M as [M1 M2]. destruct (with_retry s _ _) as [s1 e1] eqn:W. cbn [fst snd] in *. subst s1.
    pose proof (retry_refines s (fun b => OSetU32 id v b) _ _ s' e1 Hs
      (fun b => ostep_refines (m_opts s) (OSetU32 id v b) Hs Hwf I) (fun _ _ => eq_refl) W b) as (R1 & R2 & R3).
    split; [assumption|]. split; intros He; [apply R2; tauto|apply R3; tauto].
  - apply panics_e in M as [M1 M2]. destruct (with_retry s _ _) as [s1 e1] eqn:W. cbn [fst snd] in *. subst s1.
    pose proof (retry_refines s (fun b => OAddU32 id v b) _ _ s' e1 Hs
      (fun b => ostep_refines (m_opts s) (OAddU32 id v b) Hs Hwf I) (fun _ _ => eq_refl) W b) as (R1 & R2 & R3).
    split; [assumption|]. split; intros He; [apply R2; tauto|apply R3; tauto].
  - contradiction.
  - apply panics_e in M as [M1 M2]. destruct (with_retry s _ _) as [s1 e1] eqn:W. cbn [fst snd] in *. subst s1.
    pose proof (retry_refines s (fun b => OResetTo ins b) _ _ s' e1 Hs
      (fun b => ostep_refines (m_opts s) (OResetTo ins b) Hs I I) (fun _ _ => eq_refl) W b) as (R1 & R2 & R3).
    split; [assumption|]. split; intros He; [apply R2; tauto|apply R3; tauto].
  - (* Clone into a fresh message: 256 bytes, grown by the total when too small *)
    unfold with_retry in M. cbv beta in M. rewrite !reset_options_to_spec in M.
    rewrite (fold_ref_sorted (m_opts s) []) in M by assumption. cbn [app m_new m_vb m_opts] in M.
    unfold valueBufferSize in M. pose proof (len_nonneg (m_opts s)).
    assert (Hsum : 0 <= sum_len (m_opts s)).
    { unfold sum_len. generalize (m_opts s). intros l0.
      assert (G : forall u, 0 <= u -> 0 <= fold_left (fun a o => a + len (oval o)) l0 u).
      { induction l0 as [|x l0 IH]; intros u Hu; cbn [fold_left]; [assumption|].
        apply IH. pose proof (len_nonneg (oval x)). lia. }
      apply G. lia. }
    destruct (Z.ltb_spec 256 (sum_len (m_opts s))) as [H1|H1]; cbn [fst snd Z.eqb ETooSmall ENone Pos.eqb] in M.
    + destruct (Z.ltb_spec (256 + sum_len (m_opts s)) (sum_len (m_opts s))); [lia|].
      cbn [Z.eqb ENone panics] in M. inversion M; subst. unfold mrefines. cbn [ref_step m_opts]. rs; congruence.
    + cbn [Z.eqb ENone panics] in M. inversion M; subst. unfold mrefines. cbn [ref_step m_opts]. rs; congruence.
  - inversion M; subst. unfold mrefines. cbn [ref_step m_new m_opts]. rs; [apply sorted_nil|congruence].
Qed.
