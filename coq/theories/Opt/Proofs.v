From Coq Require Import ZArith List Bool Lia.
From GoCoap Require Import Base.Bytes Gen.OptConsts Opt.Model Opt.Spec.
Import ListNotations.
Open Scope Z_scope.

Lemma find_nil id : find [] id = None.
Proof. reflexivity. Qed.
