(* C15 -- proofs, second part: the path round trip.

   The strings.Index loops of GetPathBufferSize / setPath ([gpbs_loop],
   [sp_loop]) are related to the reference [segments] of Spec.v; the fuel
   (len + 1) is never exhausted; set-path refines the reference for every
   path and every sorted list; Path()/LocationPath() (32-byte buffer and one
   retry) of the result is [normalise p]. With it the set-path exclusion of
   Proofs.v disappears: step refinement and the sorted invariant for the full
   operation alphabet, for message.Options and for the pool.Message builder
   (grow and retry), the latter with "refused only when the reference
   refuses". *)
From Coq Require Import ZArith List Bool Lia.
From GoCoap Require Import Base.Bytes Gen.OptConsts Opt.Model Opt.Spec Opt.Proofs.
Import ListNotations.
Open Scope Z_scope.

Ltac Zify.zify_post_hook ::= Z.to_euclidean_division_equations.

(* ------------------------------------------------------------------ *)
(* A. strings.Index(s, "/")                                            *)

Definition noslash (a : list Z) : Prop := Forall (fun c => c <> 47) a.

Lemma index_slash_spec s :
  (index_slash s = -1 /\ noslash s) \/
  (exists a r, s = a ++ 47 :: r /\ noslash a /\ index_slash s = len a).
Proof.
  induction s as [|c s IH]; [left; split; [reflexivity|constructor]|].
  cbn [index_slash]. unfold slash. destruct (Z.eqb_spec c 47) as [->|Hc].
  - right. exists [], s. split; [reflexivity|]. split; [constructor|reflexivity].
  - destruct IH as [[E N]|(a & r & E & N & K)].
    + left. rewrite E. cbn [Z.ltb Z.compare]. split; [reflexivity|constructor; assumption].
    + right. exists (c :: a), r. rewrite K. pose proof (len_nonneg a) as Ha.
      destruct (Z.ltb_spec (len a) 0) as [Hlt|_]; [lia|].
      split; [rewrite E; reflexivity|]. split; [constructor; assumption|rewrite len_cons; reflexivity].
Qed.

(* ------------------------------------------------------------------ *)
(* B. the reference [segments], one segment at a time                  *)

Lemma segs_aux_noslash a : forall rest cur, noslash a ->
  segs_aux (a ++ rest) cur = segs_aux rest (cur ++ a).
Proof.
  induction a as [|c a IH]; intros rest cur N.
  - rewrite app_nil_r. reflexivity.
  - inversion N as [|? ? Hc Ha]; subst. cbn [app segs_aux].
    destruct (Z.eqb_spec c 47) as [E|_]; [contradiction|].
    rewrite IH by assumption. rewrite <- app_assoc. reflexivity.
Qed.

Lemma segments_slash r : segments (47 :: r) = segments r.
Proof. reflexivity. Qed.

Lemma segments_last a : noslash a -> a <> [] -> segments a = [a].
Proof.
  intros N Hne. unfold segments. rewrite <- (app_nil_r a) at 1. rewrite segs_aux_noslash by assumption.
  cbn [app segs_aux]. destruct a; [congruence|reflexivity].
Qed.

Lemma segments_cons a r : noslash a -> a <> [] -> segments (a ++ 47 :: r) = a :: segments r.
Proof.
  intros N Hne. unfold segments. rewrite segs_aux_noslash by assumption.
  cbn [app segs_aux Z.eqb Pos.eqb]. destruct a; [congruence|reflexivity].
Qed.

Lemma take_app_len {A} (a r : list A) : take (a ++ r) (len a) = a.
Proof.
  unfold take, len. rewrite Nat2Z.id, firstn_app, firstn_all, Nat.sub_diag. cbn [firstn].
  apply app_nil_r.
Qed.
Lemma drop_app_len1 {A} (a : list A) x r : drop (a ++ x :: r) (len a + 1) = r.
Proof.
  unfold drop, len. replace (Z.to_nat (Z.of_nat (length a) + 1)) with (S (length a)) by lia.
  rewrite skipn_app, skipn_all2 by lia. replace (S (length a) - length a)%nat with 1%nat by lia.
  reflexivity.
Qed.

(* one iteration of either loop on a non-empty rest of the path: either it
   starts with '/' (skipped), or a non-empty segment [a] of [e] bytes is cut
   off and the loop continues behind the following '/' *)
Lemma sub_cases sub : sub <> [] ->
  (index_slash sub = 0 /\ exists r, sub = 47 :: r /\ drop sub 1 = r /\ segments sub = segments r) \/
  (index_slash sub <> 0 /\
   let e := if index_slash sub <? 0 then len sub else index_slash sub in
   0 < e /\ len (take sub e) = e /\ segments sub = take sub e :: segments (drop sub (e + 1)) /\
   (length (drop sub (e + 1)) < length sub)%nat).
Proof.
  intros Hne. destruct (index_slash_spec sub) as [[E N]|(a & r & E & N & K)].
  - right. rewrite E. cbn [Z.ltb Z.compare]. split; [discriminate|]. cbv zeta.
    assert (Hl : 0 < len sub).
    { destruct sub; [congruence|]. rewrite len_cons. pose proof (len_nonneg sub). lia. }
    rewrite take_all by lia. rewrite drop_all by lia.
    split; [assumption|]. split; [reflexivity|]. split; [apply segments_last; assumption|].
    cbn [length]. unfold len in Hl. lia.
  - destruct a as [|c a].
    + left. cbn [app] in E. rewrite K. split; [reflexivity|]. exists r. subst sub.
      split; [reflexivity|]. split; reflexivity.
    + right. rewrite K. pose proof (len_nonneg a) as Ha. rewrite len_cons.
      split; [lia|]. destruct (Z.ltb_spec (len a + 1) 0) as [Hlt|_]; [lia|]. cbv zeta.
      rewrite <- len_cons with (x := c). subst sub. rewrite take_app_len, drop_app_len1.
      split; [rewrite len_cons; lia|]. split; [reflexivity|].
      split; [apply segments_cons; [assumption|discriminate]|].
      rewrite app_length. cbn [length]. lia.
Qed.

Definition sum_segs (ss : list (list Z)) : Z := fold_left (fun a s => a + len s) ss 0.
Lemma sum_segs_from ss : forall u, fold_left (fun a (s : list Z) => a + len s) ss u = u + sum_segs ss.
Proof.
  unfold sum_segs. induction ss as [|s ss IH]; intros u; cbn [fold_left]; [lia|].
  rewrite IH, (IH (0 + _)). lia.
Qed.
Lemma sum_segs_cons s ss : sum_segs (s :: ss) = len s + sum_segs ss.
Proof. unfold sum_segs at 1. cbn [fold_left]. rewrite sum_segs_from. lia. Qed.
Lemma sum_segs_nonneg ss : 0 <= sum_segs ss.
Proof.
  induction ss as [|s ss IH]; [unfold sum_segs; cbn; lia|].
  rewrite sum_segs_cons. pose proof (len_nonneg s). lia.
Qed.
Lemma segs_total_eq p : segs_total p = sum_segs (segments p).
Proof. reflexivity. Qed.
Lemma segs_total_nonneg p : 0 <= segs_total p.
Proof. rewrite segs_total_eq. apply sum_segs_nonneg. Qed.

(* ------------------------------------------------------------------ *)
(* C. GetPathBufferSize and the encoding loop of setPath               *)

(* GetPathBufferSize: fuel len+1 is enough; the result is the sum of the
   segment lengths, or the error as soon as one segment exceeds 255 bytes *)
Lemma gpbs_loop_spec : forall fuel sub size, (length sub < fuel)%nat ->
  gpbs_loop fuel sub size = if segs_ok sub then PSize (size + segs_total sub) else PErr.
Proof.
  induction fuel as [|f IH]; intros sub size Hf; [lia|].
  destruct sub as [|c s].
  - cbn [gpbs_loop]. cbn. rewrite Z.add_0_r. reflexivity.
  - remember (c :: s) as sub eqn:Es. assert (Hne : sub <> []) by (subst; discriminate).
    assert (G : gpbs_loop (S f) sub size =
      let k := index_slash sub in
      if k =? 0 then gpbs_loop f (drop sub 1) size
      else let seg := if k <? 0 then len sub else k in
           if maxPathValue <? seg then PErr else gpbs_loop f (drop sub (seg + 1)) (size + seg))
      by (subst sub; reflexivity).
    rewrite G. clear G. cbv zeta.
    destruct (sub_cases sub Hne) as [(K & r & E & D & Sg)|(K & P)].
    + rewrite K. cbn [Z.eqb]. rewrite D. rewrite IH by (rewrite E in Hf; cbn [length] in Hf; lia).
      unfold segs_ok. rewrite !segs_total_eq, Sg. reflexivity.
    + cbv zeta in P. destruct P as (P1 & P2 & P3 & P4).
      destruct (Z.eqb_spec (index_slash sub) 0) as [E0|_]; [contradiction|].
      set (e := if index_slash sub <? 0 then len sub else index_slash sub) in *. clearbody e.
      unfold segs_ok. rewrite segs_total_eq, P3. cbn [forallb]. rewrite sum_segs_cons, P2.
      unfold maxPathValue. destruct (Z.ltb_spec 255 e); destruct (Z.leb_spec e 255); try lia; cbn [andb]; [reflexivity|].
      rewrite IH by lia. unfold segs_ok. rewrite segs_total_eq.
      destruct (forallb _ _); [f_equal; lia|reflexivity].
Qed.

Theorem get_path_buffer_size_spec p :
  get_path_buffer_size p = if segs_ok p then PSize (segs_total p) else PErr.
Proof. unfold get_path_buffer_size. rewrite gpbs_loop_spec by lia. reflexivity. Qed.

Definition fold_add_seg (id : Z) (ss : list (list Z)) (o : list opt) : list opt :=
  fold_left (fun acc s => add acc (id, s)) ss o.
Definition fold_ref_seg (id : Z) (ss : list (list Z)) (o : list opt) : list opt :=
  fold_left (fun acc s => ref_add (id, s) acc) ss o.

(* the loop of setPath after both checks passed: never out of fuel, never an
   error, one AddString per non-empty segment *)
Lemma sp_loop_spec id buflen : forall fuel sub o enc, (length sub < fuel)%nat ->
  segs_ok sub = true -> enc + segs_total sub <= buflen ->
  sp_loop fuel sub o id buflen enc = SRes (fold_add_seg id (segments sub) o, enc + segs_total sub, ENone).
Proof.
  induction fuel as [|f IH]; intros sub o enc Hf Hok Hb; [lia|].
  destruct sub as [|c s].
  - cbn [sp_loop]. cbn. rewrite Z.add_0_r. reflexivity.
  - remember (c :: s) as sub eqn:Es. assert (Hne : sub <> []) by (subst; discriminate).
    assert (G : sp_loop (S f) sub o id buflen enc =
      let k := index_slash sub in
      if k =? 0 then sp_loop f (drop sub 1) o id buflen enc
      else let e := if k <? 0 then len sub else k in
           let '(o', enc', err) := add_bytes o (buflen - enc) id (take sub e) in
           if err =? ENone then sp_loop f (drop sub (e + 1)) o' id buflen (enc + enc')
           else SRes (o', -1, err))
      by (subst sub; reflexivity).
    rewrite G. clear G. cbv zeta.
    destruct (sub_cases sub Hne) as [(K & r & E & D & Sg)|(K & P)].
    + rewrite K. cbn [Z.eqb]. rewrite D.
      assert (Hr : (length r < f)%nat) by (rewrite E in Hf; cbn [length] in Hf; lia).
      unfold segs_ok in Hok. rewrite !segs_total_eq, Sg in *.
      rewrite IH; [reflexivity|assumption|exact Hok|rewrite segs_total_eq; assumption].
    + cbv zeta in P. destruct P as (P1 & P2 & P3 & P4).
      destruct (Z.eqb_spec (index_slash sub) 0) as [E0|_]; [contradiction|].
      set (e := if index_slash sub <? 0 then len sub else index_slash sub) in *. clearbody e.
      unfold segs_ok in Hok. rewrite segs_total_eq, P3 in *. cbn [forallb] in Hok.
      apply andb_true_iff in Hok as [Hle Hok]. apply Z.leb_le in Hle.
      rewrite sum_segs_cons in *. pose proof (sum_segs_nonneg (segments (drop sub (e + 1)))) as Hnn.
      unfold add_bytes, maxPathValue.
      destruct (Z.ltb_spec (buflen - enc) (len (take sub e))) as [Hlt|_]; [lia|].
      destruct (Z.ltb_spec 255 (len (take sub e))) as [Hlt|_]; [lia|]. rewrite andb_false_r.
      cbn [Z.eqb ENone].
      rewrite IH; [|lia|exact Hok|rewrite segs_total_eq; lia].
      unfold fold_add_seg. cbn [fold_left]. rewrite segs_total_eq. do 3 f_equal. lia.
Qed.

Lemma fold_seg_ref id ss : forall o, sorted o ->
  fold_add_seg id ss o = fold_ref_seg id ss o /\ sorted (fold_add_seg id ss o).
Proof.
  induction ss as [|s ss IH]; intros o Hs; [split; [reflexivity|assumption]|].
  unfold fold_add_seg, fold_ref_seg in *. cbn [fold_left].
  destruct (add_refines o (id, s) Hs) as [E S]. rewrite <- E. apply IH. assumption.
Qed.

(* what the property text says set-path does *)
Definition ref_set_path (id : Z) (p : list Z) (l : list opt) : list opt :=
  match p with
  | [] => l
  | _ => fold_ref_seg id (segments p) (ref_remove id l)
  end.

(* setPath, all outcomes, no sortedness needed: never out of fuel *)
Lemma set_path_spec0 l id b p :
  set_path l id b p =
    match p with
    | [] => SRes (l, 0, ENone)
    | _ => if negb (segs_ok p) then SRes (l, -1, EInvalidValueLength)
           else if b <? segs_total p then SRes (l, -1, ETooSmall)
           else SRes (fold_add_seg id (segments p) (remove l id), segs_total p, ENone)
    end.
Proof.
  destruct p as [|c r]; [reflexivity|]. unfold set_path.
  set (q := if c =? slash then r else c :: r).
  assert (Hq : segments q = segments (c :: r)).
  { unfold q, slash. destruct (Z.eqb_spec c 47) as [->|_]; reflexivity. }
  assert (Hok : segs_ok q = segs_ok (c :: r)) by (unfold segs_ok; rewrite Hq; reflexivity).
  assert (Ht : segs_total q = segs_total (c :: r)) by (unfold segs_total; rewrite Hq; reflexivity).
  rewrite get_path_buffer_size_spec, Hok, Ht.
  destruct (segs_ok (c :: r)) eqn:Ok; cbn [negb]; [|reflexivity].
  destruct (Z.ltb_spec b (segs_total (c :: r))) as [Hlt|Hge]; [reflexivity|].
  rewrite sp_loop_spec; [|lia|congruence|lia].
  rewrite Hq, Ht. reflexivity.
Qed.

Theorem set_path_spec l id b p : sorted l ->
  set_path l id b p =
    match p with
    | [] => SRes (l, 0, ENone)
    | _ => if negb (segs_ok p) then SRes (l, -1, EInvalidValueLength)
           else if b <? segs_total p then SRes (l, -1, ETooSmall)
           else SRes (ref_set_path id p l, segs_total p, ENone)
    end.
Proof.
  intros Hs. rewrite set_path_spec0. destruct p as [|c r]; [reflexivity|].
  destruct (negb (segs_ok (c :: r))); [reflexivity|].
  destruct (b <? segs_total (c :: r)); [reflexivity|].
  destruct (remove_refines l id Hs) as [E S]. rewrite E in *.
  destruct (fold_seg_ref id (segments (c :: r)) _ S) as [E2 _]. rewrite E2. reflexivity.
Qed.

(* the fuel of both loops is never exhausted, for every path and every list *)
Theorem path_fuel l id b p : get_path_buffer_size p <> PFuel /\ set_path l id b p <> SFuel.
Proof.
  split.
  - rewrite get_path_buffer_size_spec. destruct (segs_ok p); discriminate.
  - rewrite set_path_spec0. destruct p as [|c r]; [discriminate|].
    destruct (negb _); [discriminate|]. destruct (_ <? _); discriminate.
Qed.

Lemma sorted_fold_ref_seg id ss : forall o, sorted o -> sorted (fold_ref_seg id ss o).
Proof.
  intros o Hs. destruct (fold_seg_ref id ss o Hs) as [E S]. rewrite <- E. assumption.
Qed.
Lemma sorted_ref_set_path id p l : sorted l -> sorted (ref_set_path id p l).
Proof.
  intros Hs. destruct p as [|c r]; [assumption|]. cbn [ref_set_path].
  apply sorted_fold_ref_seg. apply sorted_ref_remove. assumption.
Qed.

(* ------------------------------------------------------------------ *)
(* D. the values numbered id after set-path                            *)

Lemma ref_values_remove_same id l : ref_values id (ref_remove id l) = [].
Proof.
  unfold ref_values, ref_remove. induction l as [|x l IH]; [reflexivity|].
  cbn [filter]. destruct (Z.eqb_spec (oid x) id) as [E|E]; cbn [negb]; [assumption|].
  cbn [filter]. destruct (Z.eqb_spec (oid x) id); [contradiction|assumption].
Qed.
Lemma ref_values_remove_other id id' l : id' <> id -> ref_values id' (ref_remove id l) = ref_values id' l.
Proof.
  intros Hne. unfold ref_values, ref_remove. induction l as [|x l IH]; [reflexivity|].
  cbn [filter]. destruct (Z.eqb_spec (oid x) id) as [E|E]; cbn [negb].
  - destruct (Z.eqb_spec (oid x) id'); [lia|assumption].
  - cbn [filter]. destruct (Z.eqb_spec (oid x) id'); cbn [map]; [f_equal|]; assumption.
Qed.
Lemma ref_values_add_other id id' s l : id' <> id -> ref_values id' (ref_add (id, s) l) = ref_values id' l.
Proof.
  intros Hne. unfold ref_values. induction l as [|x l IH]; cbn [ref_add filter oid fst].
  - destruct (Z.eqb_spec id id'); [lia|reflexivity].
  - destruct (oid x <=? id); cbn [filter oid fst].
    + destruct (oid x =? id'); cbn [map]; [f_equal|]; assumption.
    + destruct (Z.eqb_spec id id'); [lia|reflexivity].
Qed.
(* a new value joins its number's block at the end (needs the list sorted) *)
Lemma ref_values_add_same id s l : sorted l -> ref_values id (ref_add (id, s) l) = ref_values id l ++ [s].
Proof.
  intros Hs. destruct (split3_exists l id Hs) as (a & c & H).
  rewrite (ref_add_splice l (id, s) a c H). unfold splice, ref_values. cbn [app].
  assert (E : filter (fun x => oid x =? id) (drop l c) = []).
  { apply filter_none. eapply Forall_impl; [|apply (split3_hi l id a c H)]. cbv beta.
    intros x Hx. apply Z.eqb_neq. lia. }
  assert (E2 : filter (fun x => oid x =? id) l = filter (fun x => oid x =? id) (take l c)).
  { rewrite <- (take_drop l c) at 1. rewrite filter_app, E. apply app_nil_r. }
  rewrite E2, filter_app. cbn [filter oid fst]. rewrite Z.eqb_refl, E, map_app. reflexivity.
Qed.

Lemma ref_values_fold_same id ss : forall o, sorted o ->
  ref_values id (fold_ref_seg id ss o) = ref_values id o ++ ss.
Proof.
  induction ss as [|s ss IH]; intros o Hs; [rewrite app_nil_r; reflexivity|].
  unfold fold_ref_seg in *. cbn [fold_left]. rewrite IH by (apply sorted_ref_add; assumption).
  rewrite ref_values_add_same by assumption. rewrite <- app_assoc. reflexivity.
Qed.
Lemma ref_values_fold_other id id' ss : id' <> id -> forall o,
  ref_values id' (fold_ref_seg id ss o) = ref_values id' o.
Proof.
  intros Hne. induction ss as [|s ss IH]; intros o; [reflexivity|].
  unfold fold_ref_seg in *. cbn [fold_left]. rewrite IH. apply ref_values_add_other. assumption.
Qed.

Theorem ref_set_path_values id p l : sorted l -> p <> [] ->
  ref_values id (ref_set_path id p l) = segments p /\
  forall id', id' <> id -> ref_values id' (ref_set_path id p l) = ref_values id' l.
Proof.
  intros Hs Hne. destruct p as [|c r]; [congruence|]. cbn [ref_set_path]. split.
  - rewrite ref_values_fold_same by (apply sorted_ref_remove; assumption).
    rewrite ref_values_remove_same. reflexivity.
  - intros id' Hid. rewrite ref_values_fold_other by assumption. apply ref_values_remove_other. assumption.
Qed.

(* ------------------------------------------------------------------ *)
(* E. Options.path and Path() / LocationPath()                         *)

Lemma len_join ss : fold_left (fun a (v : list Z) => a + len v + 1) ss 0 = len (join ss).
Proof.
  assert (G : forall u, fold_left (fun a (v : list Z) => a + len v + 1) ss u = u + len (join ss)).
  { induction ss as [|s ss IH]; intros u; cbn [fold_left]; [unfold join; cbn; lia|].
    rewrite IH. unfold join. cbn [map concat]. rewrite len_app, len_cons. lia. }
  rewrite G. lia.
Qed.

(* Options.path(buf, id) with len(buf) = b on a sorted list: never a Panic *)
Theorem path_into_spec l b id : sorted l ->
  path_into l b id =
    if ref_has id l then
      if b <? len (ref_path id l) then Ok (len (ref_path id l), ETooSmall, [])
      else Ok (len (ref_path id l), ENone, ref_path id l)
    else Ok (-1, ENotFound, []).
Proof.
  intros Hs. destruct (find_ref l id Hs) as (a & c & H & Hf & Hv & Hc & Hb).
  pose proof H as (H1 & H2 & H3 & _). unfold path_into, ref_has, ref_path. rewrite Hf, Hv, Hc.
  destruct (Z.ltb_spec a c); destruct (Z.ltb_spec 0 (c - a)); try lia; [|reflexivity].
  rewrite collect_spec by lia. cbn [app]. rewrite Z2Nat.id by lia.
  rewrite len_join. reflexivity.
Qed.

(* Path() / LocationPath(): the 32-byte buffer and the single retry always
   suffice; the answer is the reference's join, or ErrOptionNotFound *)
Theorem path_str_spec l id : sorted l ->
  path_str l id = if ref_has id l then Ok (ENone, ref_path id l) else Ok (ENotFound, []).
Proof.
  intros Hs. unfold path_str. rewrite path_into_spec by assumption.
  destruct (ref_has id l) eqn:Hh; [|reflexivity].
  pose proof (len_nonneg (ref_path id l)) as Hn.
  destruct (Z.ltb_spec 32 (len (ref_path id l))) as [Hlt|Hge]; cbn [Z.eqb ETooSmall ENone Pos.eqb].
  - rewrite path_into_spec, Hh by assumption.
    destruct (Z.ltb_spec (32 + len (ref_path id l)) (len (ref_path id l))) as [Hlt2|_]; [lia|].
    cbn [Z.eqb]. rewrite take_all by lia. reflexivity.
  - rewrite take_all by lia. reflexivity.
Qed.

Lemma ref_has_values id l : ref_has id l = match ref_values id l with [] => false | _ => true end.
Proof.
  unfold ref_has, ref_count. destruct (ref_values id l) as [|v vs]; [reflexivity|].
  rewrite len_cons. pose proof (len_nonneg vs). destruct (Z.ltb_spec 0 (len vs + 1)); [reflexivity|lia].
Qed.

(* ------------------------------------------------------------------ *)
(* F. the round trip                                                   *)

(* every path whose segments are at most 255 bytes, with a sufficient buffer:
   performed, the list is the reference's (sorted), and joining it back is the
   normalised path. A path without segments ("/", "//") leaves no option of
   that number; Path() then answers ("", ErrOptionNotFound) and
   [normalise p = ""]. *)
Theorem path_round_trip l id p b : sorted l -> p <> [] -> segs_ok p = true -> segs_total p <= b ->
  let l' := ref_set_path id p l in
  set_path l id b p = SRes (l', segs_total p, ENone) /\
  sorted l' /\
  ref_values id l' = segments p /\
  (forall id', id' <> id -> ref_values id' l' = ref_values id' l) /\
  path_str l' id = Ok (match segments p with [] => ENotFound | _ => ENone end, normalise p).
Proof.
  intros Hs Hne Hok Hb. cbv zeta.
  destruct (ref_set_path_values id p l Hs Hne) as [V1 V2].
  assert (S' := sorted_ref_set_path id p l Hs).
  split; [|split; [assumption|split; [assumption|split; [assumption|]]]].
  - rewrite set_path_spec by assumption. destruct p as [|c r]; [congruence|].
    rewrite Hok. cbn [negb]. destruct (Z.ltb_spec b (segs_total (c :: r))); [lia|reflexivity].
  - rewrite path_str_spec by assumption. rewrite ref_has_values. unfold ref_path. rewrite V1.
    unfold normalise. destruct (segments p); reflexivity.
Qed.

(* a segment longer than 255 bytes, or a buffer shorter than the sum of the
   segments: refused, list unchanged *)
Theorem path_refused l id p b : p <> [] -> segs_ok p = false \/ b < segs_total p ->
  exists e, e <> ENone /\ set_path l id b p = SRes (l, -1, e).
Proof.
  intros Hne H. rewrite set_path_spec0. destruct p as [|c r]; [congruence|].
  destruct (segs_ok (c :: r)) eqn:Ok; cbn [negb].
  - destruct H as [H|H]; [discriminate|].
    destruct (Z.ltb_spec b (segs_total (c :: r))); [|lia]. exists ETooSmall. split; [discriminate|reflexivity].
  - exists EInvalidValueLength. split; [discriminate|reflexivity].
Qed.

(* ------------------------------------------------------------------ *)
(* G. the full operation alphabet: message.Options                     *)

Lemma ref_step_set_path bounded l id p b :
  ref_step bounded l (OSetPath id p b) =
    match p with
    | [] => Some l
    | _ => if negb (segs_ok p) || (bounded && (b <? segs_total p)) then None
           else Some (ref_set_path id p l)
    end.
Proof. destruct p; reflexivity. Qed.

Theorem ostep_refines_full l o : sorted l -> op_wf o ->
  let '(l', _, e) := ostep l o in refines true l o l' e.
Proof.
  intros Hs Hwf.
  destruct o as [id v|id v|id|id v b|id v b|id v b|id v b|id p b|ins b| |];
    try (apply ostep_refines; [assumption|assumption|exact I]).
  cbn [ostep]. rewrite set_path_spec by assumption. unfold refines. rewrite ref_step_set_path.
  destruct p as [|c r]; [rs|]. cbn [andb].
  destruct (negb (segs_ok (c :: r))); cbn [orb]; [rs|].
  destruct (b <? segs_total (c :: r)); [rs|].
  rs. apply sorted_ref_set_path. assumption.
Qed.

Theorem orun_refines_full ops : forall l, sorted l -> Forall op_wf ops ->
  orun ops l = ref_run true ops l /\ sorted (orun ops l).
Proof.
  induction ops as [|o ops IH]; intros l Hs Hwf; [split; [reflexivity|assumption]|].
  inversion Hwf as [|? ? Hw1 Hw2]; subst.
  unfold orun, ref_run in *. cbn [fold_left].
  pose proof (ostep_refines_full l o Hs Hw1) as R. destruct (ostep l o) as [[l' u] e]. cbn [fst].
  destruct R as [S R]. unfold ref_apply at 2.
  destruct (ref_step true l o) as [r|]; destruct R as [_ ->]; apply IH; assumption.
Qed.

(* ------------------------------------------------------------------ *)
(* H. the full operation alphabet: the pool.Message builder            *)

(* the grow-and-retry protocol, when the Options method has the usual shape
   "too small below [need], otherwise an answer R that does not depend on the
   buffer": the retry always gets R *)
Lemma with_retry_shape s f grow need l0 u0 R :
  0 <= m_vb s ->
  (forall b, 0 <= b -> f b = if b <? need then (l0, u0, ETooSmall) else R) ->
  snd R <> ETooSmall ->
  (m_vb s < need -> need <= m_vb s + grow u0) ->
  with_retry s f grow =
    let vb := if m_vb s <? need then m_vb s + grow u0 else m_vb s in
    let '(o, used, e) := R in
    if e =? ENone then ({| m_opts := o; m_vb := vb - used |}, ENone)
    else ({| m_opts := m_opts s; m_vb := vb |}, e).
Proof.
  intros Hvb Hf HR Hg. unfold with_retry. rewrite (Hf (m_vb s) Hvb).
  destruct (Z.ltb_spec (m_vb s) need) as [Hlt|Hge].
  - cbn [fst snd]. change (ETooSmall =? ETooSmall) with true. cbv iota.
    rewrite (Hf (m_vb s + grow u0)) by lia.
    destruct (Z.ltb_spec (m_vb s + grow u0) need) as [Hlt2|_]; [lia|]. reflexivity.
  - destruct (Z.eqb_spec (snd R) ETooSmall) as [E|_]; [contradiction|]. reflexivity.
Qed.

Lemma sum_len_nonneg l : 0 <= sum_len l.
Proof.
  unfold sum_len. assert (G : forall u, 0 <= u -> 0 <= fold_left (fun a o => a + len (oval o)) l u).
  { induction l as [|x l IH]; intros u Hu; cbn [fold_left]; [assumption|].
    apply IH. pose proof (len_nonneg (oval x)). lia. }
  apply G. lia.
Qed.
Lemma uint_len_nonneg v : 0 <= uint_len v.
Proof. unfold uint_len. repeat match goal with |- context [if ?c then _ else _] => destruct c end; lia. Qed.

(* state invariant of the builder: options ascending, len(valueBuffer) >= 0 *)
Definition mwf (s : mstate) : Prop := sorted (m_opts s) /\ 0 <= m_vb s.

Ltac mfin :=
  cbn [panics Z.eqb ENone EInvalidValueLength ETooSmall EPanic m_opts m_vb Pos.eqb];
  unfold refines, mwf, m_new, valueBufferSize; cbn [m_opts m_vb];
  repeat split; try assumption; try discriminate; try reflexivity; try lia.

(* every builder method, set-path included: performed exactly when the
   reference (which has no buffer limit: bounded = false) performs, with the
   reference's list; refused exactly when the reference refuses, list
   unchanged; the invariant is kept *)
Theorem mstep_refines_full s o : mwf s -> op_wf o ->
  let '(s', e) := mstep s o in refines false (m_opts s) o (m_opts s') e /\ mwf s'.
Proof.
  intros [Hs Hvb] Hwf. set (l := m_opts s) in *. unfold refines.
  destruct o as [id v|id v|id|id v b|id v b|id v b|id v b|id p b|ins b| |]; cbn [mstep op_wf] in *; fold l.
  - destruct (set_refines l (id, v) Hs) as [E S]. cbn [ref_step]. rewrite <- E.
    pose proof (len_nonneg v). destruct (Z.ltb_spec (m_vb s) (len v)); mfin.
  - destruct (add_refines l (id, v) Hs) as [E S]. cbn [ref_step]. rewrite <- E.
    pose proof (len_nonneg v). destruct (Z.ltb_spec (m_vb s) (len v)); mfin.
  - destruct (remove_refines l id Hs) as [E S]. cbn [ref_step]. rewrite <- E. mfin.
  - (* SetOptionString *)
    pose proof (len_nonneg v) as Hv.
    rewrite (with_retry_shape s _ _ (len v) l (len v)
      (if (id =? URIPath) && (maxPathValue <? len v) then (l, -1, EInvalidValueLength)
       else (set l (id, v), len v, ENone)));
      [|assumption|intros; reflexivity|destruct (_ && _); discriminate|lia].
    cbv zeta. cbn [ref_step andb orb]. unfold URIPath, maxPathValue, uri_path.
    destruct ((id =? 11) && (255 <? len v)); [mfin; destruct (m_vb s <? len v); lia|].
    destruct (set_refines l (id, v) Hs) as [E S]. rewrite <- E.
    destruct (Z.ltb_spec (m_vb s) (len v)); mfin.
  - (* AddOptionString *)
    pose proof (len_nonneg v) as Hv.
    rewrite (with_retry_shape s _ _ (len v) l (len v)
      (if (id =? URIPath) && (maxPathValue <? len v) then (l, -1, EInvalidValueLength)
       else (add l (id, v), len v, ENone)));
      [|assumption|intros; reflexivity|destruct (_ && _); discriminate|lia].
    cbv zeta. cbn [ref_step andb orb]. unfold URIPath, maxPathValue, uri_path.
    destruct ((id =? 11) && (255 <? len v)); [mfin; destruct (m_vb s <? len v); lia|].
    destruct (add_refines l (id, v) Hs) as [E S]. rewrite <- E.
    destruct (Z.ltb_spec (m_vb s) (len v)); mfin.
  - (* SetOptionUint32 *)
    pose proof (uint_len_nonneg v) as Hv.
    rewrite (with_retry_shape s _ _ (uint_len v) l (uint_len v) (set l (id, uint_bytes v), uint_len v, ENone));
      [|assumption| |discriminate|lia].
    2:{ intros b0 _. unfold set_uint32. rewrite encode_uint32_spec by assumption.
        destruct (b0 <? uint_len v); reflexivity. }
    cbv zeta. cbn [ref_step andb]. destruct (set_refines l (id, uint_bytes v) Hs) as [E S]. rewrite <- E.
    destruct (Z.ltb_spec (m_vb s) (uint_len v)); mfin.
  - (* AddOptionUint32 *)
    pose proof (uint_len_nonneg v) as Hv.
    rewrite (with_retry_shape s _ _ (uint_len v) l (uint_len v) (add l (id, uint_bytes v), uint_len v, ENone));
      [|assumption| |discriminate|lia].
    2:{ intros b0 _. unfold add_uint32. rewrite encode_uint32_spec by assumption.
        destruct (b0 <? uint_len v); reflexivity. }
    cbv zeta. cbn [ref_step andb]. destruct (add_refines l (id, uint_bytes v) Hs) as [E S]. rewrite <- E.
    destruct (Z.ltb_spec (m_vb s) (uint_len v)); mfin.
  - (* SetPath: grows by GetPathBufferSize(p) *)
    rewrite ref_step_set_path. cbn [andb orb]. rewrite orb_false_r.
    destruct p as [|c r].
    + (* "" : nothing to do *)
      rewrite (with_retry_shape s _ _ 0 l 0 (l, 0, ENone));
        [|assumption| |discriminate|lia].
      2:{ intros b0 Hb0. cbn [set_path]. destruct (Z.ltb_spec b0 0); [lia|reflexivity]. }
      cbv zeta. destruct (Z.ltb_spec (m_vb s) 0); [lia|]. mfin.
    + set (p := c :: r) in *. pose proof (segs_total_nonneg p) as Hp.
      rewrite get_path_buffer_size_spec.
      destruct (segs_ok p) eqn:Ok; cbn [negb].
      * rewrite (with_retry_shape s _ _ (segs_total p) l (-1) (ref_set_path id p l, segs_total p, ENone));
          [|assumption| |discriminate|lia].
        2:{ intros b0 _. rewrite set_path_spec by assumption. unfold p at 1. rewrite Ok. cbn [negb].
            destruct (b0 <? segs_total p); reflexivity. }
        cbv zeta. pose proof (sorted_ref_set_path id p l Hs).
        destruct (Z.ltb_spec (m_vb s) (segs_total p)); mfin.
      * rewrite (with_retry_shape s _ _ 0 l 0 (l, -1, EInvalidValueLength));
          [|assumption| |discriminate|lia].
        2:{ intros b0 Hb0. rewrite set_path_spec by assumption. unfold p at 1. rewrite Ok. cbn [negb].
            destruct (Z.ltb_spec b0 0); [lia|reflexivity]. }
        cbv zeta. destruct (Z.ltb_spec (m_vb s) 0); [lia|]. mfin.
  - (* ResetOptionsTo *)
    pose proof (sum_len_nonneg ins) as Hv.
    rewrite (with_retry_shape s _ _ (sum_len ins) l (sum_len ins) (fold_ref ins [], sum_len ins, ENone));
      [|assumption| |discriminate|lia].
    2:{ intros b0 _. rewrite reset_options_to_spec. destruct (b0 <? sum_len ins); reflexivity. }
    cbv zeta. cbn [ref_step andb]. pose proof (sorted_fold_ref ins).
    destruct (Z.ltb_spec (m_vb s) (sum_len ins)); mfin.
  - (* Clone into a fresh message *)
    pose proof (sum_len_nonneg l) as Hv.
    rewrite (with_retry_shape m_new _ _ (sum_len l) [] (sum_len l) (l, sum_len l, ENone));
      [|cbn; unfold valueBufferSize; lia| |discriminate|cbn [m_new m_vb]; unfold valueBufferSize; lia].
    2:{ intros b0 _. rewrite reset_options_to_spec. rewrite (fold_ref_sorted l []) by assumption.
        destruct (b0 <? sum_len l); reflexivity. }
    cbv zeta. cbn [ref_step m_new m_vb]. unfold valueBufferSize.
    destruct (Z.ltb_spec 256 (sum_len l)); mfin.
  - cbn [ref_step]. pose proof sorted_nil. mfin.
Qed.

(* a whole history of builder calls *)
Definition mrun (ops : list op) (s : mstate) : mstate := fold_left (fun acc o => fst (mstep acc o)) ops s.

Theorem mrun_refines ops : forall s, mwf s -> Forall op_wf ops ->
  m_opts (mrun ops s) = ref_run false ops (m_opts s) /\ mwf (mrun ops s).
Proof.
  induction ops as [|o ops IH]; intros s Hw Hwf; [split; [reflexivity|assumption]|].
  inversion Hwf as [|? ? Hw1 Hw2]; subst.
  unfold mrun, ref_run in *. cbn [fold_left].
  pose proof (mstep_refines_full s o Hw Hw1) as R. destruct (mstep s o) as [s' e]. cbn [fst].
  destruct R as [[S R] W]. unfold ref_apply at 2.
  destruct (ref_step false (m_opts s) o) as [r|]; destruct R as [_ <-]; apply IH; assumption.
Qed.

Lemma mwf_new : mwf m_new.
Proof. split; [apply sorted_nil|cbn; unfold valueBufferSize; lia]. Qed.
