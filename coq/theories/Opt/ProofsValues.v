(* C15 -- byte level: the value buffer of pool.Message.

   Level 2 model (NEW definitions; Model.v is untouched). A memory is a list
   of byte arrays that are allocated once and never freed or resized; a slice
   header is (array, offset, len, cap). A message is
     - its option list, where an option's Value is a slice header: we reuse
       the type [opt] with the value field holding the three numbers
       [array; offset; len] of the header, so that Options.Set/Add/Remove of
       Model.v -- which never look at a value -- are literally the same
       functions on both levels;
     - [v_win], the current r.valueBuffer (the unused tail of an array);
     - [v_orig], r.origValueBuffer (restored by Reset).
   Setters copy the caller's bytes to the front of the window, store the
   header of that prefix and advance the window (r.valueBuffer =
   r.valueBuffer[used:]). append(r.valueBuffer, make([]byte, k)...) follows
   Go: when len+k <= cap it extends in place (writing k zero bytes behind the
   window, still inside the array), otherwise it allocates a NEW array of any
   capacity >= len+k (the runtime's growth policy is a parameter [slack] of
   every step) and the window moves there; the old arrays are never written
   again.

   Proved: (1) every step of the view model projects onto [mstep] of Model.v
   (reading every header back from memory gives the level-1 list, the window
   length is [m_vb], same result code), so the correspondence check of level 1
   covers level 2; (2) the bytes of every stored value are unchanged by any
   later builder step (Reset releases them: the list is emptied and the
   window returns to the original array). *)
From Coq Require Import ZArith List Bool Lia.
From GoCoap Require Import Base.Bytes Gen.OptConsts Opt.Model Opt.Spec Opt.Proofs Opt.ProofsPath.
Import ListNotations.
Open Scope Z_scope.

Ltac Zify.zify_post_hook ::= Z.to_euclidean_division_equations.

(* ------------------------------------------------------------------ *)
(* A. the model                                                        *)

Definition mem := list (list Z).
Definition buf (m : mem) (b : Z) : list Z := if b <? 0 then [] else nth (Z.to_nat b) m [].
Fixpoint upd_buf (m : mem) (n : nat) (x : list Z) : mem :=
  match m, n with
  | [], _ => []
  | _ :: r, O => x :: r
  | y :: r, S n' => y :: upd_buf r n' x
  end.
(* copy(array[off:], d) *)
Definition write_buf (bs : list Z) (off : Z) (d : list Z) : list Z :=
  take bs off ++ d ++ drop bs (off + len d).
Definition write (m : mem) (b off : Z) (d : list Z) : mem :=
  if b <? 0 then m else upd_buf m (Z.to_nat b) (write_buf (buf m b) off d).
Definition zeros (k : Z) : list Z := repeat 0 (Z.to_nat k).

Record slice := { s_buf : Z; s_off : Z; s_len : Z; s_cap : Z }.
(* w[k:] *)
Definition from (w : slice) (k : Z) : slice :=
  {| s_buf := s_buf w; s_off := s_off w + k; s_len := s_len w - k; s_cap := s_cap w - k |}.
(* w[:n] stored as an option value *)
Definition hdr (w : slice) (n : Z) : list Z := [s_buf w; s_off w; n].
Definition hb (h : list Z) : Z := nth 0 h 0.
Definition ho (h : list Z) : Z := nth 1 h 0.
Definition hn (h : list Z) : Z := nth 2 h 0.
(* the bytes a header denotes *)
Definition rd (m : mem) (h : list Z) : list Z := take (drop (buf m (hb h)) (ho h)) (hn h).
Definition content (m : mem) (w : slice) : list Z := take (drop (buf m (s_buf w)) (s_off w)) (s_len w).

(* append(w, make([]byte, k)...) *)
Definition grow (m : mem) (w : slice) (k slack : Z) : mem * slice :=
  if s_len w + k <=? s_cap w then
    (write m (s_buf w) (s_off w + s_len w) (zeros k),
     {| s_buf := s_buf w; s_off := s_off w; s_len := s_len w + k; s_cap := s_cap w |})
  else
    (m ++ [content m w ++ zeros (k + slack)],
     {| s_buf := len m; s_off := 0; s_len := s_len w + k; s_cap := s_len w + k + slack |}).

(* result of an Options method that copies into a caller's buffer *)
Definition vres := (mem * sres)%type.

(* Options.SetBytes / AddBytes (SetString / AddString) *)
Definition vset_bytes (m : mem) (l : list opt) (sl : slice) (id : Z) (data : list Z) : vres :=
  if s_len sl <? len data then (m, (l, len data, ETooSmall))
  else if (id =? URIPath) && (maxPathValue <? len data) then (m, (l, -1, EInvalidValueLength))
  else (write m (s_buf sl) (s_off sl) data, (set l (id, hdr sl (len data)), len data, ENone)).
Definition vadd_bytes (m : mem) (l : list opt) (sl : slice) (id : Z) (data : list Z) : vres :=
  if s_len sl <? len data then (m, (l, len data, ETooSmall))
  else if (id =? URIPath) && (maxPathValue <? len data) then (m, (l, -1, EInvalidValueLength))
  else (write m (s_buf sl) (s_off sl) data, (add l (id, hdr sl (len data)), len data, ENone)).

(* Options.SetUint32 / AddUint32: EncodeUint32 writes the bytes into buf *)
Definition vset_uint32 (m : mem) (l : list opt) (sl : slice) (id v : Z) : vres :=
  let '(n, e, b) := encode_uint32 (s_len sl) v in
  if e =? ENone then (write m (s_buf sl) (s_off sl) b, (set l (id, hdr sl n), n, e)) else (m, (l, n, e)).
Definition vadd_uint32 (m : mem) (l : list opt) (sl : slice) (id v : Z) : vres :=
  let '(n, e, b) := encode_uint32 (s_len sl) v in
  if e =? ENone then (write m (s_buf sl) (s_off sl) b, (add l (id, hdr sl n), n, e)) else (m, (l, n, e)).

(* the encoding loop of setPath: data := buf[encoded:] *)
Fixpoint vsp_loop (fuel : nat) (sub : list Z) (m : mem) (o : list opt) (id : Z) (sl : slice) (encoded : Z) : option vres :=
  match fuel with
  | O => None
  | S f =>
    match sub with
    | [] => Some (m, (o, encoded, ENone))
    | _ =>
      let k := index_slash sub in
      if k =? 0 then vsp_loop f (drop sub 1) m o id sl encoded
      else
        let e := if k <? 0 then len sub else k in
        let '(m', (o', enc, err)) := vadd_bytes m o (from sl encoded) id (take sub e) in
        if err =? ENone then vsp_loop f (drop sub (e + 1)) m' o' id sl (encoded + enc)
        else Some (m', (o', -1, err))
    end
  end.
Definition vset_path (m : mem) (l : list opt) (id : Z) (sl : slice) (path : list Z) : option vres :=
  match path with
  | [] => Some (m, (l, 0, ENone))
  | c :: r =>
    let path := if c =? slash then r else path in
    match get_path_buffer_size path with
    | PFuel => None
    | PErr => Some (m, (l, -1, EInvalidValueLength))
    | PSize required =>
      if s_len sl <? required then Some (m, (l, -1, ETooSmall))
      else vsp_loop (S (length path)) path m (remove l id) id sl 0
    end
  end.
Definition vset_path' (m : mem) (l : list opt) (id : Z) (sl : slice) (path : list Z) : vres :=
  match vset_path m l id sl path with None => (m, (l, -1, EFuel)) | Some r => r end.

(* ResetOptionsTo: the incoming options are given by value (their bytes are
   read before the loop). An input that aliases the receiver's value storage
   is modelled in ProofsAlias.v and proved equal to this one. *)
Fixpoint vreset_loop (ins : list opt) (m : mem) (opts : list opt) (sl : slice) (used : Z) : vres :=
  match ins with
  | [] => (m, (opts, used, ENone))
  | o :: r =>
    vreset_loop r (write m (s_buf sl) (s_off sl) (oval o))
                (add opts (oid o, hdr sl (len (oval o)))) (from sl (len (oval o))) (used + len (oval o))
  end.
Definition vreset_options_to (m : mem) (l : list opt) (sl : slice) (ins : list opt) : vres :=
  if s_len sl <? sum_len ins then (m, (l, sum_len ins, ETooSmall))
  else vreset_loop ins m [] sl 0.

Record vstate := { v_mem : mem; v_opts : list opt; v_win : slice; v_orig : slice }.

(* NewMessage: one array of valueBufferSize bytes *)
Definition vnew_win (b : Z) : slice := {| s_buf := b; s_off := 0; s_len := valueBufferSize; s_cap := valueBufferSize |}.
Definition vnew : vstate :=
  {| v_mem := [zeros valueBufferSize]; v_opts := []; v_win := vnew_win 0; v_orig := vnew_win 0 |}.

(* opts, used, err := f(r.valueBuffer); if ErrTooSmall { append; again };
   on success r.msg.Options = opts; r.valueBuffer = r.valueBuffer[used:] *)
Definition vwith_retry (s : vstate) (f : mem -> slice -> vres) (gr : Z -> Z) (slack : Z) : vstate * Z :=
  let '(m1, r1) := f (v_mem s) (v_win s) in
  let small := snd r1 =? ETooSmall in
  let '(m2, w2) := if small then grow m1 (v_win s) (gr (snd (fst r1))) slack else (m1, v_win s) in
  let '(m3, (o, used, e)) := if small then f m2 w2 else (m1, r1) in
  if e =? ENone then ({| v_mem := m3; v_opts := o; v_win := from w2 used; v_orig := v_orig s |}, ENone)
  else ({| v_mem := m3; v_opts := v_opts s; v_win := w2; v_orig := v_orig s |}, e).

Definition vpanics (r : vstate * Z) : vstate * Z :=
  let '(s, e) := r in if e =? ENone then r else (s, EPanic).

(* level-1 reading of a view list *)
Definition pj (m : mem) (o : opt) : opt := (oid o, rd m (oval o)).
Definition proj (m : mem) (l : list opt) : list opt := map (pj m) l.

(* SetOptionBytes / AddOptionBytes: grow by the deficit, copy, store, advance *)
Definition vstore (s : vstate) (v : list Z) (slack : Z) : mem * slice :=
  let '(m1, w1) := if s_len (v_win s) <? len v then grow (v_mem s) (v_win s) (len v - s_len (v_win s)) slack
                   else (v_mem s, v_win s) in
  (write m1 (s_buf w1) (s_off w1) v, w1).

Definition vstep (s : vstate) (o : op) (slack : Z) : vstate * Z :=
  let l := v_opts s in
  match o with
  | OSet id v =>
      let '(m2, w1) := vstore s v slack in
      ({| v_mem := m2; v_opts := set l (id, hdr w1 (len v)); v_win := from w1 (len v); v_orig := v_orig s |}, ENone)
  | OAdd id v =>
      let '(m2, w1) := vstore s v slack in
      ({| v_mem := m2; v_opts := add l (id, hdr w1 (len v)); v_win := from w1 (len v); v_orig := v_orig s |}, ENone)
  | ORemove id =>
      ({| v_mem := v_mem s; v_opts := remove l id; v_win := v_win s; v_orig := v_orig s |}, ENone)
  | OSetBytes id v _ => vpanics (vwith_retry s (fun m sl => vset_bytes m l sl id v) (fun u => u) slack)
  | OAddBytes id v _ => vpanics (vwith_retry s (fun m sl => vadd_bytes m l sl id v) (fun u => u) slack)
  | OSetU32 id v _ => vpanics (vwith_retry s (fun m sl => vset_uint32 m l sl id v) (fun u => u) slack)
  | OAddU32 id v _ => vpanics (vwith_retry s (fun m sl => vadd_uint32 m l sl id v) (fun u => u) slack)
  | OSetPath id p _ =>
      let g := match get_path_buffer_size p with PSize n => n | _ => 0 end in
      vwith_retry s (fun m sl => vset_path' m l id sl p) (fun _ => g) slack
  | OResetTo ins _ => vpanics (vwith_retry s (fun m sl => vreset_options_to m l sl ins) (fun u => u) slack)
  | OClone =>
      (* r.Clone(msg), msg fresh: msg.ResetOptionsTo(r.Options()); the source
         values live in r's arrays, the copy goes to msg's *)
      let m0 := v_mem s ++ [zeros valueBufferSize] in
      let w0 := vnew_win (len (v_mem s)) in
      let s0 := {| v_mem := m0; v_opts := []; v_win := w0; v_orig := w0 |} in
      vpanics (vwith_retry s0 (fun m sl => vreset_options_to m [] sl (proj (v_mem s) l)) (fun u => u) slack)
  | OReset =>
      ({| v_mem := v_mem s; v_opts := []; v_win := v_orig s; v_orig := v_orig s |}, ENone)
  end.

Definition mproj (s : vstate) : mstate := {| m_opts := proj (v_mem s) (v_opts s); m_vb := s_len (v_win s) |}.

(* ---- invariants ---- *)

(* a header lies inside its array *)
Definition valid (m : mem) (h : list Z) : Prop :=
  0 <= hb h < len m /\ 0 <= ho h /\ 0 <= hn h /\ ho h + hn h <= len (buf m (hb h)).
(* ... and outside the part of the window's array that may still be written *)
Definition safe (w : slice) (h : list Z) : Prop := hb h <> s_buf w \/ ho h + hn h <= s_off w.
Definition win_ok (m : mem) (w : slice) : Prop :=
  0 <= s_buf w < len m /\ 0 <= s_off w /\ 0 <= s_len w <= s_cap w /\ s_off w + s_cap w <= len (buf m (s_buf w)).
Definition lok (m : mem) (w : slice) (l : list opt) : Prop :=
  sorted l /\ Forall (fun o => valid m (oval o) /\ safe w (oval o)) l.
Definition vwf (s : vstate) : Prop :=
  win_ok (v_mem s) (v_win s) /\ (win_ok (v_mem s) (v_orig s) /\ s_len (v_orig s) = valueBufferSize) /\
  lok (v_mem s) (v_win s) (v_opts s).

(* arrays are never resized or freed *)
Definition mext (m m' : mem) : Prop :=
  len m <= len m' /\ forall b, 0 <= b < len m -> len (buf m' b) = len (buf m b).
(* every valid header outside the window's writable part reads the same *)
Definition keeps (m : mem) (w : slice) (m' : mem) : Prop :=
  mext m m' /\ forall h, valid m h -> safe w h -> rd m' h = rd m h.

(* ------------------------------------------------------------------ *)
(* B. arrays and memory                                                *)

Lemma len_repeat (x : Z) n : len (repeat x n) = Z.of_nat n.
Proof. unfold len. rewrite repeat_length. reflexivity. Qed.
Lemma len_zeros k : 0 <= k -> len (zeros k) = k.
Proof. intros H. unfold zeros. rewrite len_repeat. lia. Qed.

Lemma len_write_buf bs off d : 0 <= off -> off + len d <= len bs -> len (write_buf bs off d) = len bs.
Proof.
  intros H1 H2. pose proof (len_nonneg d). unfold write_buf.
  rewrite !len_app, len_take, len_drop by lia. lia.
Qed.

(* reading strictly before the written range *)
Lemma read_before bs off d o n : 0 <= o -> 0 <= n -> o + n <= off -> off <= len bs ->
  take (drop (write_buf bs off d) o) n = take (drop bs o) n.
Proof.
  intros Ho Hn Hon Hoff. unfold write_buf, take, drop, len in *.
  set (O := Z.to_nat o). set (N := Z.to_nat n). set (F := Z.to_nat off).
  assert (HF : (F <= length bs)%nat) by lia. assert (HOF : (O + N <= F)%nat) by lia.
  generalize (d ++ skipn (Z.to_nat (off + Z.of_nat (length d))) bs). intros R.
  rewrite skipn_app. rewrite firstn_length_le by assumption.
  replace (O - F)%nat with 0%nat by lia. cbn [skipn].
  rewrite firstn_app. rewrite skipn_length, firstn_length_le by assumption.
  replace (N - (F - O))%nat with 0%nat by lia. cbn [firstn]. rewrite app_nil_r.
  rewrite skipn_firstn_comm, firstn_firstn. f_equal. lia.
Qed.

(* reading exactly the written range *)
Lemma read_same bs off d : 0 <= off <= len bs ->
  take (drop (write_buf bs off d) off) (len d) = d.
Proof.
  intros Hoff. unfold write_buf, take, drop, len in *.
  set (F := Z.to_nat off). assert (HF : (F <= length bs)%nat) by lia.
  generalize (skipn (Z.to_nat (off + Z.of_nat (length d))) bs). intros R.
  rewrite skipn_app. rewrite firstn_length_le by assumption.
  rewrite skipn_all2 by (rewrite firstn_length_le; lia). rewrite Nat.sub_diag. cbn [skipn app].
  rewrite Nat2Z.id. rewrite firstn_app, firstn_all, Nat.sub_diag. cbn [firstn]. apply app_nil_r.
Qed.

Lemma nth_upd_buf x : forall m n k, (n < length m)%nat ->
  nth k (upd_buf m n x) [] = if Nat.eqb k n then x else nth k m [].
Proof.
  induction m as [|y m IH]; intros n k H; [cbn in H; lia|].
  destruct n as [|n]; destruct k as [|k]; cbn [upd_buf nth Nat.eqb]; try reflexivity.
  apply IH. cbn in H. lia.
Qed.
Lemma length_upd_buf x : forall m n, length (upd_buf m n x) = length m.
Proof. induction m as [|y m IH]; intros [|n]; cbn [upd_buf length]; auto. Qed.

Lemma len_write m b off d : len (write m b off d) = len m.
Proof. unfold write, len. destruct (b <? 0); [reflexivity|]. rewrite length_upd_buf. reflexivity. Qed.
Lemma buf_write m b off d b' : 0 <= b < len m ->
  buf (write m b off d) b' = if b' =? b then write_buf (buf m b) off d else buf m b'.
Proof.
  intros Hb. unfold write. destruct (Z.ltb_spec b 0) as [Hlt|_]; [lia|].
  unfold buf at 1. destruct (Z.ltb_spec b' 0) as [Hlt|Hge].
  - destruct (Z.eqb_spec b' b); [lia|]. unfold buf. destruct (Z.ltb_spec b' 0); [reflexivity|lia].
  - rewrite nth_upd_buf by (unfold len in Hb; lia).
    destruct (Z.eqb_spec b' b) as [->|Hne].
    + rewrite Nat.eqb_refl. reflexivity.
    + destruct (Nat.eqb_spec (Z.to_nat b') (Z.to_nat b)); [lia|].
      unfold buf. destruct (Z.ltb_spec b' 0); [lia|reflexivity].
Qed.

Lemma buf_app_l m x b : b < len m -> buf (m ++ [x]) b = buf m b.
Proof.
  intros H. unfold buf. destruct (Z.ltb_spec b 0); [reflexivity|]. apply app_nth1. unfold len in H. lia.
Qed.
Lemma buf_app_new m x : buf (m ++ [x]) (len m) = x.
Proof.
  unfold buf, len. destruct (Z.ltb_spec (Z.of_nat (length m)) 0); [lia|].
  rewrite Nat2Z.id. rewrite app_nth2 by lia. rewrite Nat.sub_diag. reflexivity.
Qed.

Lemma mext_refl m : mext m m.
Proof. split; [lia|reflexivity]. Qed.
Lemma mext_trans m1 m2 m3 : mext m1 m2 -> mext m2 m3 -> mext m1 m3.
Proof.
  intros [A1 A2] [B1 B2]. split; [lia|]. intros b Hb. rewrite B2 by lia. apply A2. assumption.
Qed.
Lemma valid_mext m m' h : mext m m' -> valid m h -> valid m' h.
Proof.
  intros [A1 A2] (V1 & V2 & V3 & V4). unfold valid. rewrite A2 by assumption. repeat split; lia.
Qed.
Lemma win_ok_mext m m' w : mext m m' -> win_ok m w -> win_ok m' w.
Proof.
  intros [A1 A2] (V1 & V2 & V3 & V4). unfold win_ok. rewrite A2 by assumption. repeat split; lia.
Qed.

Lemma keeps_refl m w : keeps m w m.
Proof. split; [apply mext_refl|reflexivity]. Qed.
(* the second step may be relative to any window that protects at least as much *)
Lemma keeps_trans m w m' w' m'' : keeps m w m' -> keeps m' w' m'' ->
  (forall h, valid m h -> safe w h -> safe w' h) -> keeps m w m''.
Proof.
  intros [A1 A2] [B1 B2] Hw. split; [eapply mext_trans; eassumption|].
  intros h Hv Hs. rewrite B2; [apply A2; assumption|eapply valid_mext; eassumption|apply Hw; assumption].
Qed.

Lemma safe_from w k h : 0 <= k -> safe w h -> safe (from w k) h.
Proof. intros Hk [H|H]; [left; exact H|right; cbn [from s_off]; lia]. Qed.
Lemma from_from w a b : from (from w a) b = from w (a + b).
Proof. unfold from. cbn [s_buf s_off s_len s_cap]. f_equal; lia. Qed.
Lemma from_0 w : from w 0 = w.
Proof. destruct w. unfold from. cbn [s_buf s_off s_len s_cap]. f_equal; lia. Qed.
Lemma win_ok_from m w k : win_ok m w -> 0 <= k <= s_len w -> win_ok m (from w k).
Proof. intros (V1 & V2 & V3 & V4) Hk. unfold win_ok. cbn [from s_buf s_off s_len s_cap]. repeat split; lia. Qed.

(* copy into the window: nothing outside the window's writable part changes *)
Lemma keeps_write m w off d : win_ok m w -> s_off w <= off -> off + len d <= s_off w + s_cap w ->
  keeps m w (write m (s_buf w) off d).
Proof.
  intros (V1 & V2 & V3 & V4) H1 H2. pose proof (len_nonneg d) as Hd. split.
  - split; [rewrite len_write; lia|]. intros b Hb. rewrite buf_write by assumption.
    destruct (Z.eqb_spec b (s_buf w)) as [->|_]; [|reflexivity]. apply len_write_buf; lia.
  - intros h (W1 & W2 & W3 & W4) Hs. unfold rd. rewrite buf_write by assumption.
    destruct (Z.eqb_spec (hb h) (s_buf w)) as [E|_]; [|reflexivity].
    destruct Hs as [Hs|Hs]; [contradiction|]. rewrite E. apply read_before; lia.
Qed.
(* ... and the copied bytes are there *)
Lemma rd_write m w d : win_ok m w -> len d <= s_cap w ->
  rd (write m (s_buf w) (s_off w) d) (hdr w (len d)) = d.
Proof.
  intros (V1 & V2 & V3 & V4) H. pose proof (len_nonneg d) as Hd. unfold rd, hdr, hb, ho, hn. cbn [nth].
  rewrite buf_write by assumption. rewrite Z.eqb_refl. apply read_same. lia.
Qed.

(* append(w, make([]byte, k)...) *)
Lemma grow_ok m w k slack : win_ok m w -> 0 <= k -> 0 <= slack ->
  keeps m w (fst (grow m w k slack)) /\ win_ok (fst (grow m w k slack)) (snd (grow m w k slack)) /\
  s_len (snd (grow m w k slack)) = s_len w + k /\
  (forall h, valid m h -> safe w h -> safe (snd (grow m w k slack)) h).
Proof.
  intros Hw Hk Hsl. pose proof Hw as (V1 & V2 & V3 & V4). unfold grow.
  destruct (Z.leb_spec (s_len w + k) (s_cap w)) as [Hfit|Hno]; cbn [fst snd].
  - assert (K : keeps m w (write m (s_buf w) (s_off w + s_len w) (zeros k)))
      by (apply keeps_write; rewrite ?len_zeros; [assumption|lia|lia|lia]).
    split; [exact K|]. split; [|split; [reflexivity|]].
    + apply (win_ok_mext m); [apply K|]. unfold win_ok. cbn [s_buf s_off s_len s_cap]. repeat split; lia.
    + intros h _ Hs. exact Hs.
  - assert (M : mext m (m ++ [content m w ++ zeros (k + slack)])).
    { split; [rewrite len_app, len_cons, len_nil; lia|]. intros b Hb. rewrite buf_app_l by lia. reflexivity. }
    split; [split; [exact M|]|split; [|split; [reflexivity|]]].
    + intros h (W1 & _) _. unfold rd. rewrite buf_app_l by lia. reflexivity.
    + unfold win_ok. cbn [s_buf s_off s_len s_cap]. rewrite buf_app_new.
      rewrite !len_app. rewrite len_zeros by lia. change (len [content m w ++ zeros (k + slack)]) with 1.
      unfold content.
      rewrite len_take by (rewrite len_drop; lia). pose proof (len_nonneg m). repeat split; lia.
    + intros h (W1 & _) _. left. cbn [s_buf]. lia.
Qed.

(* ------------------------------------------------------------------ *)
(* C. Set/Add/Remove do not look at values: they commute with reading  *)

Section MapOps.
Variable g : opt -> opt.
Hypothesis g_id : forall x, oid (g x) = oid x.

Lemma nthz_map l i : 0 <= i < len l -> nthz (map g l) i = g (nthz l i).
Proof.
  intros H. unfold nthz. destruct (Z.ltb_spec i 0); [lia|].
  rewrite (nth_indep _ zero_opt (g zero_opt)) by (rewrite map_length; unfold len in H; lia).
  apply map_nth.
Qed.
Lemma sorted_map l : sorted l -> sorted (map g l).
Proof.
  intros Hs i j Hi Hij Hj. rewrite len_map in Hj. rewrite !nthz_map by lia. rewrite !g_id.
  apply Hs; assumption.
Qed.
Lemma ref_add_map o l : map g (ref_add o l) = ref_add (g o) (map g l).
Proof.
  induction l as [|x l IH]; [reflexivity|]. cbn [ref_add map]. rewrite !g_id.
  destruct (oid x <=? oid o); cbn [map]; [rewrite IH|]; reflexivity.
Qed.
Lemma ref_remove_map id l : map g (ref_remove id l) = ref_remove id (map g l).
Proof.
  unfold ref_remove. induction l as [|x l IH]; [reflexivity|]. cbn [filter map]. rewrite g_id.
  destruct (negb (oid x =? id)); cbn [map]; [rewrite IH|]; auto.
Qed.
Lemma add_map l o : sorted l -> map g (add l o) = add (map g l) (g o).
Proof.
  intros Hs. destruct (add_refines l o Hs) as [E _].
  destruct (add_refines (map g l) (g o) (sorted_map l Hs)) as [E' _].
  rewrite E, E'. apply ref_add_map.
Qed.
Lemma set_map l o : sorted l -> map g (set l o) = set (map g l) (g o).
Proof.
  intros Hs. destruct (set_refines l o Hs) as [E _].
  destruct (set_refines (map g l) (g o) (sorted_map l Hs)) as [E' _].
  rewrite E, E'. unfold ref_set. rewrite ref_add_map, ref_remove_map, g_id. reflexivity.
Qed.
Lemma remove_map l id : sorted l -> map g (remove l id) = remove (map g l) id.
Proof.
  intros Hs. destruct (remove_refines l id Hs) as [E _].
  destruct (remove_refines (map g l) id (sorted_map l Hs)) as [E' _].
  rewrite E, E'. apply ref_remove_map.
Qed.
End MapOps.

Lemma Forall_ref_add (P : opt -> Prop) o l : P o -> Forall P l -> Forall P (ref_add o l).
Proof.
  intros Ho H. induction H as [|x l Hx Hl IH]; cbn [ref_add]; [repeat constructor; assumption|].
  destruct (oid x <=? oid o); repeat constructor; assumption.
Qed.
Lemma Forall_ref_remove (P : opt -> Prop) id l : Forall P l -> Forall P (ref_remove id l).
Proof.
  intros H. unfold ref_remove. induction H as [|x l Hx Hl IH]; cbn [filter]; [constructor|].
  destruct (negb (oid x =? id)); [constructor|]; assumption.
Qed.
Lemma Forall_add (P : opt -> Prop) o l : sorted l -> P o -> Forall P l -> Forall P (add l o).
Proof. intros Hs Ho H. destruct (add_refines l o Hs) as [E _]. rewrite E. apply Forall_ref_add; assumption. Qed.
Lemma Forall_set (P : opt -> Prop) o l : sorted l -> P o -> Forall P l -> Forall P (set l o).
Proof.
  intros Hs Ho H. destruct (set_refines l o Hs) as [E _]. rewrite E. unfold ref_set.
  apply Forall_ref_add; [assumption|]. apply Forall_ref_remove. assumption.
Qed.
Lemma Forall_remove (P : opt -> Prop) id l : sorted l -> Forall P l -> Forall P (remove l id).
Proof. intros Hs H. destruct (remove_refines l id Hs) as [E _]. rewrite E. apply Forall_ref_remove. assumption. Qed.

Lemma pj_id m x : oid (pj m x) = oid x.
Proof. reflexivity. Qed.

Lemma sorted_proj m l : sorted l -> sorted (proj m l).
Proof. apply sorted_map. apply pj_id. Qed.

(* the list survives a memory change that keeps its views, under any window
   that protects at least as much *)
Lemma lok_keeps m w l m' w' : lok m w l -> keeps m w m' ->
  (forall h, valid m h -> safe w h -> safe w' h) ->
  lok m' w' l /\ proj m' l = proj m l.
Proof.
  intros [Hs Hf] [M K] Hw. split; [split; [assumption|]|].
  - eapply Forall_impl; [|exact Hf]. cbv beta. intros o [V Sf].
    split; [eapply valid_mext; eassumption|apply Hw; assumption].
  - unfold proj. apply map_ext_in. intros o Ho. rewrite Forall_forall in Hf.
    destruct (Hf o Ho) as [V Sf]. unfold pj. rewrite K by assumption. reflexivity.
Qed.

(* copy [v] to the front of the slice and store the header of that prefix
   with Set or Add: on level 1 this is Set/Add of the bytes themselves *)
Lemma store_sim m l sl id v : win_ok m sl -> lok m sl l -> len v <= s_len sl ->
  let m' := write m (s_buf sl) (s_off sl) v in
  let h := hdr sl (len v) in
  keeps m sl m' /\
  lok m' (from sl (len v)) (set l (id, h)) /\ proj m' (set l (id, h)) = set (proj m l) (id, v) /\
  lok m' (from sl (len v)) (add l (id, h)) /\ proj m' (add l (id, h)) = add (proj m l) (id, v).
Proof.
  intros Hw Hl Hv. cbv zeta. pose proof Hw as (V1 & V2 & V3 & V4). pose proof (len_nonneg v) as Hn.
  assert (K : keeps m sl (write m (s_buf sl) (s_off sl) v)) by (apply keeps_write; [assumption|lia|lia]).
  destruct (lok_keeps m sl l _ (from sl (len v)) Hl K) as [[Hs Hf] P].
  { intros h _ Hsf. apply safe_from; assumption. }
  set (m' := write m (s_buf sl) (s_off sl) v) in *.
  assert (Hh : valid m' (hdr sl (len v)) /\ safe (from sl (len v)) (hdr sl (len v))).
  { split.
    - apply (valid_mext m); [apply K|]. unfold valid, hdr, hb, ho, hn. cbn [nth]. repeat split; lia.
    - right. unfold hdr, ho, hn. cbn [nth from s_off]. lia. }
  assert (R : pj m' (id, hdr sl (len v)) = (id, v)).
  { unfold pj. cbn [oid oval fst snd]. unfold m'. rewrite rd_write by (assumption || lia). reflexivity. }
  split; [exact K|]. split; [|split; [|split]].
  - split; [apply set_refines; assumption|apply Forall_set; assumption].
  - unfold proj. rewrite (set_map (pj m') (pj_id m')) by assumption. rewrite R. fold (proj m' l). rewrite P. reflexivity.
  - split; [apply add_refines; assumption|apply Forall_add; assumption].
  - unfold proj. rewrite (add_map (pj m') (pj_id m')) by assumption. rewrite R. fold (proj m' l). rewrite P. reflexivity.
Qed.

(* ------------------------------------------------------------------ *)
(* D. the copying Options methods, level 2 against level 1             *)

(* level-1 reading of a level-2 result *)
Definition pjr (r : vres) : sres := let '(m', (l', u, e)) := r in (proj m' l', u, e).
(* what a method called with slice [sl] guarantees: it wrote only into the
   slice; when it succeeds it used a prefix of the slice and every value of
   the returned list lies before the rest of the slice *)
Definition post (m : mem) (sl : slice) (r : vres) : Prop :=
  let '(m', (l', u, e)) := r in
  keeps m sl m' /\ (e = ENone -> 0 <= u <= s_len sl /\ lok m' (from sl u) l').

Lemma vset_bytes_sim m l sl id v : win_ok m sl -> lok m sl l ->
  set_bytes (proj m l) (s_len sl) id v = pjr (vset_bytes m l sl id v) /\ post m sl (vset_bytes m l sl id v).
Proof.
  intros Hw Hl. unfold set_bytes, vset_bytes. pose proof (len_nonneg v) as Hn.
  destruct (Z.ltb_spec (s_len sl) (len v)) as [Hlt|Hge].
  { split; [reflexivity|]. split; [apply keeps_refl|discriminate]. }
  destruct ((id =? URIPath) && (maxPathValue <? len v)).
  { split; [reflexivity|]. split; [apply keeps_refl|discriminate]. }
  destruct (store_sim m l sl id v Hw Hl Hge) as (K & L1 & P1 & _ & _). cbn [pjr post].
  split; [rewrite P1; reflexivity|]. split; [exact K|]. intros _. split; [lia|exact L1].
Qed.
Lemma vadd_bytes_sim m l sl id v : win_ok m sl -> lok m sl l ->
  add_bytes (proj m l) (s_len sl) id v = pjr (vadd_bytes m l sl id v) /\ post m sl (vadd_bytes m l sl id v).
Proof.
  intros Hw Hl. unfold add_bytes, vadd_bytes. pose proof (len_nonneg v) as Hn.
  destruct (Z.ltb_spec (s_len sl) (len v)) as [Hlt|Hge].
  { split; [reflexivity|]. split; [apply keeps_refl|discriminate]. }
  destruct ((id =? URIPath) && (maxPathValue <? len v)).
  { split; [reflexivity|]. split; [apply keeps_refl|discriminate]. }
  destruct (store_sim m l sl id v Hw Hl Hge) as (K & _ & _ & L1 & P1). cbn [pjr post].
  split; [rewrite P1; reflexivity|]. split; [exact K|]. intros _. split; [lia|exact L1].
Qed.

Lemma len_be_bytes n v : len (be_bytes n v) = Z.of_nat n.
Proof. unfold be_bytes, len. rewrite map_length, rev_length, seq_length. reflexivity. Qed.
Lemma encode_uint32_cases b v : exists need, 0 <= need /\
  encode_uint32 b v = if b <? need then (need, ETooSmall, []) else (need, ENone, be_bytes (Z.to_nat need) v).
Proof.
  unfold encode_uint32.
  set (need := if v =? 0 then 0 else if v <=? max1ByteNumber then 1 else if v <=? max2ByteNumber then 2
               else if v <=? max3ByteNumber then 3 else 4).
  exists need. split; [|reflexivity]. unfold need.
  repeat match goal with |- context [if ?c then _ else _] => destruct c end; lia.
Qed.

Lemma vset_uint32_sim m l sl id v : win_ok m sl -> lok m sl l ->
  set_uint32 (proj m l) (s_len sl) id v = pjr (vset_uint32 m l sl id v) /\ post m sl (vset_uint32 m l sl id v).
Proof.
  intros Hw Hl. unfold set_uint32, vset_uint32. destruct (encode_uint32_cases (s_len sl) v) as (need & Hn & E).
  rewrite E. destruct (Z.ltb_spec (s_len sl) need) as [Hlt|Hge]; cbn [Z.eqb ETooSmall ENone].
  { split; [reflexivity|]. split; [apply keeps_refl|discriminate]. }
  assert (Hb : len (be_bytes (Z.to_nat need) v) = need) by (rewrite len_be_bytes; lia).
  destruct (store_sim m l sl id (be_bytes (Z.to_nat need) v) Hw Hl) as (K & L1 & P1 & _ & _); [lia|].
  rewrite Hb in *. cbn [pjr post]. split; [rewrite P1; reflexivity|]. split; [exact K|]. intros _. split; [lia|exact L1].
Qed.
Lemma vadd_uint32_sim m l sl id v : win_ok m sl -> lok m sl l ->
  add_uint32 (proj m l) (s_len sl) id v = pjr (vadd_uint32 m l sl id v) /\ post m sl (vadd_uint32 m l sl id v).
Proof.
  intros Hw Hl. unfold add_uint32, vadd_uint32. destruct (encode_uint32_cases (s_len sl) v) as (need & Hn & E).
  rewrite E. destruct (Z.ltb_spec (s_len sl) need) as [Hlt|Hge]; cbn [Z.eqb ETooSmall ENone].
  { split; [reflexivity|]. split; [apply keeps_refl|discriminate]. }
  assert (Hb : len (be_bytes (Z.to_nat need) v) = need) by (rewrite len_be_bytes; lia).
  destruct (store_sim m l sl id (be_bytes (Z.to_nat need) v) Hw Hl) as (K & _ & _ & L1 & P1); [lia|].
  rewrite Hb in *. cbn [pjr post]. split; [rewrite P1; reflexivity|]. split; [exact K|]. intros _. split; [lia|exact L1].
Qed.

Lemma sum_len_cons o r : sum_len (o :: r) = len (oval o) + sum_len r.
Proof. unfold sum_len at 1. cbn [fold_left]. rewrite sum_len_from. lia. Qed.

Lemma lok_nil m w : lok m w [].
Proof. split; [apply sorted_nil|constructor]. Qed.

(* the copy loop of ResetOptionsTo *)
Lemma vreset_loop_sim ins : forall m opts sl used, win_ok m sl -> lok m sl opts -> sum_len ins <= s_len sl ->
  exists m' l', vreset_loop ins m opts sl used = (m', (l', used + sum_len ins, ENone)) /\
    proj m' l' = fold_add ins (proj m opts) /\ keeps m sl m' /\ lok m' (from sl (sum_len ins)) l'.
Proof.
  induction ins as [|o r IH]; intros m opts sl used Hw Hl Hs.
  - exists m, opts. cbn [vreset_loop]. change (sum_len []) with 0. rewrite Z.add_0_r, from_0.
    split; [reflexivity|]. split; [reflexivity|]. split; [apply keeps_refl|assumption].
  - rewrite sum_len_cons in *. pose proof (len_nonneg (oval o)) as Hn. pose proof (sum_len_nonneg r) as Hr.
    destruct (store_sim m opts sl (oid o) (oval o) Hw Hl) as (K & _ & _ & L1 & P1); [lia|].
    cbn [vreset_loop]. set (m1 := write m (s_buf sl) (s_off sl) (oval o)) in *.
    destruct (IH m1 (add opts (oid o, hdr sl (len (oval o)))) (from sl (len (oval o))) (used + len (oval o)))
      as (m' & l' & E & P & K2 & L2).
    { apply win_ok_from; [|lia]. apply (win_ok_mext m); [apply K|assumption]. }
    { exact L1. }
    { cbn [from s_len]. lia. }
    exists m', l'. split; [rewrite E; do 3 f_equal; lia|]. split; [|split].
    + rewrite P, P1. unfold fold_add. cbn [fold_left]. destruct o; reflexivity.
    + apply (keeps_trans m sl m1 (from sl (len (oval o)))); [exact K|exact K2|].
      intros h _ Hsf. apply safe_from; [lia|assumption].
    + rewrite from_from in L2. exact L2.
Qed.

Lemma vreset_options_to_sim m l sl ins : win_ok m sl ->
  reset_options_to (proj m l) (s_len sl) ins = pjr (vreset_options_to m l sl ins) /\
  post m sl (vreset_options_to m l sl ins).
Proof.
  intros Hw. unfold reset_options_to, vreset_options_to. pose proof (sum_len_nonneg ins) as Hn.
  destruct (Z.ltb_spec (s_len sl) (sum_len ins)) as [Hlt|Hge].
  { split; [reflexivity|]. split; [apply keeps_refl|discriminate]. }
  destruct (vreset_loop_sim ins m [] sl 0 Hw (lok_nil m sl) Hge) as (m' & l' & E & P & K & L).
  rewrite E, reset_loop_spec. cbn [pjr post]. rewrite P. change (proj m []) with (@nil opt).
  split; [reflexivity|]. split; [exact K|]. intros _. split; [lia|]. rewrite Z.add_0_l. exact L.
Qed.

(* the encoding loop of setPath, at any point of the buffer *)
Lemma vsp_loop_sim id sl : forall fuel sub m o enc, win_ok m sl -> 0 <= enc <= s_len sl ->
  lok m (from sl enc) o ->
  match vsp_loop fuel sub m o id sl enc with
  | None => sp_loop fuel sub (proj m o) id (s_len sl) enc = SFuel
  | Some (m', (o', u, e)) =>
      sp_loop fuel sub (proj m o) id (s_len sl) enc = SRes (proj m' o', u, e) /\
      keeps m (from sl enc) m' /\ (e = ENone -> enc <= u <= s_len sl /\ lok m' (from sl u) o')
  end.
Proof.
  induction fuel as [|f IH]; intros sub m o enc Hw He Hl; [reflexivity|].
  destruct sub as [|c s].
  - cbn [vsp_loop sp_loop]. split; [reflexivity|]. split; [apply keeps_refl|]. intros _. split; [lia|assumption].
  - remember (c :: s) as sub eqn:Es.
    assert (G1 : vsp_loop (S f) sub m o id sl enc =
      let k := index_slash sub in
      if k =? 0 then vsp_loop f (drop sub 1) m o id sl enc
      else let e := if k <? 0 then len sub else k in
           let '(m', (o', enc', err)) := vadd_bytes m o (from sl enc) id (take sub e) in
           if err =? ENone then vsp_loop f (drop sub (e + 1)) m' o' id sl (enc + enc')
           else Some (m', (o', -1, err))) by (subst sub; reflexivity).
    assert (G2 : sp_loop (S f) sub (proj m o) id (s_len sl) enc =
      let k := index_slash sub in
      if k =? 0 then sp_loop f (drop sub 1) (proj m o) id (s_len sl) enc
      else let e := if k <? 0 then len sub else k in
           let '(o', enc', err) := add_bytes (proj m o) (s_len sl - enc) id (take sub e) in
           if err =? ENone then sp_loop f (drop sub (e + 1)) o' id (s_len sl) (enc + enc')
           else SRes (o', -1, err)) by (subst sub; reflexivity).
    rewrite G1, G2. clear G1 G2. cbv zeta.
    destruct (index_slash sub =? 0); [apply IH; assumption|].
    set (e := if index_slash sub <? 0 then len sub else index_slash sub). clearbody e.
    assert (Hw' : win_ok m (from sl enc)) by (apply win_ok_from; assumption).
    destruct (vadd_bytes_sim m o (from sl enc) id (take sub e) Hw' Hl) as [A P].
    cbn [from s_len] in A. rewrite A. destruct (vadd_bytes m o (from sl enc) id (take sub e)) as [m1 [[o1 u1] e1]].
    cbn [pjr post] in *. destruct P as [K P].
    destruct (Z.eqb_spec e1 ENone) as [->|Hne].
    + destruct (P eq_refl) as [Hu L]. cbn [from s_len] in Hu. rewrite from_from in L.
      specialize (IH (drop sub (e + 1)) m1 o1 (enc + u1)).
      destruct (vsp_loop f (drop sub (e + 1)) m1 o1 id sl (enc + u1)) as [[m2 [[o2 u2] e2]]|].
      * destruct IH as (I1 & I2 & I3); [apply (win_ok_mext m); [apply K|assumption]|lia|assumption|].
        split; [exact I1|]. split.
        -- apply (keeps_trans m (from sl enc) m1 (from sl (enc + u1))); [exact K|exact I2|].
           intros h _ Hsf. rewrite <- from_from. apply safe_from; [lia|assumption].
        -- intros E2. destruct (I3 E2) as [J1 J2]. split; [lia|assumption].
      * apply IH; [apply (win_ok_mext m); [apply K|assumption]|lia|assumption].
    + split; [reflexivity|]. split; [exact K|]. intros E. contradiction.
Qed.

Lemma vset_path_sim m l id sl p : win_ok m sl -> lok m sl l ->
  (match set_path (proj m l) id (s_len sl) p with SFuel => (proj m l, -1, EFuel) | SRes r => r end)
    = pjr (vset_path' m l id sl p) /\ post m sl (vset_path' m l id sl p).
Proof.
  intros Hw Hl. unfold vset_path', vset_path, set_path.
  destruct p as [|c r].
  { cbn [pjr post]. rewrite from_0. split; [reflexivity|]. split; [apply keeps_refl|]. intros _.
    destruct Hw as (_ & _ & ? & _). split; [lia|assumption]. }
  set (q := if c =? slash then r else c :: r).
  destruct (get_path_buffer_size q) as [| |required].
  - cbn [pjr post]. split; [reflexivity|]. split; [apply keeps_refl|discriminate].
  - cbn [pjr post]. split; [reflexivity|]. split; [apply keeps_refl|discriminate].
  - destruct (Z.ltb_spec (s_len sl) required) as [Hlt|Hge].
    { cbn [pjr post]. split; [reflexivity|]. split; [apply keeps_refl|discriminate]. }
    destruct Hl as [Hs Hf]. pose proof Hw as (_ & _ & Hlen & _).
    assert (L0 : lok m (from sl 0) (remove l id)).
    { rewrite from_0. split; [apply remove_refines; assumption|apply Forall_remove; assumption]. }
    pose proof (vsp_loop_sim id sl (S (length q)) q m (remove l id) 0 Hw) as V.
    unfold proj in V. rewrite (remove_map (pj m) (pj_id m)) in V by assumption. fold (proj m l) in V.
    destruct (vsp_loop (S (length q)) q m (remove l id) id sl 0) as [[m2 [[o2 u2] e2]]|].
    + destruct V as (V1 & V2 & V3); [lia|assumption|]. rewrite V1. cbn [pjr post].
      split; [reflexivity|]. rewrite from_0 in V2. split; [exact V2|]. intros E. destruct (V3 E) as [J1 J2].
      split; [lia|assumption].
    + rewrite V by (lia || assumption). cbn [pjr post]. split; [reflexivity|]. split; [apply keeps_refl|discriminate].
Qed.

(* ------------------------------------------------------------------ *)
(* E. the builder: every step projects onto mstep and keeps the values *)

(* whatever the old window protected, the new one protects *)
Definition protects (m : mem) (w w' : slice) : Prop := forall h, valid m h -> safe w h -> safe w' h.

Lemma protects_refl m w : protects m w w.
Proof. intros h _ H. exact H. Qed.

Lemma vwith_retry_sim s vf f gr slack :
  vwf s -> 0 <= slack ->
  (forall m sl, win_ok m sl -> lok m sl (v_opts s) -> proj m (v_opts s) = proj (v_mem s) (v_opts s) ->
     f (s_len sl) = pjr (vf m sl) /\ post m sl (vf m sl)) ->
  (forall b l' u, f b = (l', u, ETooSmall) -> 0 <= gr u) ->
  let r := vwith_retry s vf gr slack in
  with_retry (mproj s) f gr = (mproj (fst r), snd r) /\ vwf (fst r) /\
  keeps (v_mem s) (v_win s) (v_mem (fst r)) /\ protects (v_mem s) (v_win s) (v_win (fst r)).
Proof.
  intros (Hw & [Ho Ho2] & Hl) Hsl Hsim Hgr. cbv zeta. unfold vwith_retry, with_retry. cbn [mproj m_vb m_opts].
  destruct (Hsim (v_mem s) (v_win s) Hw Hl eq_refl) as [A1 P1].
  destruct (vf (v_mem s) (v_win s)) as [m1 [[l1 u1] e1]]. cbn [pjr post] in A1, P1. rewrite A1. cbn [fst snd].
  destruct P1 as [K1 Q1].
  assert (Hw1 : win_ok m1 (v_win s)) by (apply (win_ok_mext (v_mem s)); [apply K1|assumption]).
  destruct (lok_keeps _ _ _ m1 (v_win s) Hl K1 (protects_refl _ _)) as [L1 E1].
  destruct (Z.eqb_spec e1 ETooSmall) as [->|Hne1].
  - (* too small: append, call again *)
    assert (Hg : 0 <= gr u1) by (eapply Hgr; exact A1).
    destruct (grow_ok m1 (v_win s) (gr u1) slack Hw1 Hg Hsl) as (G1 & G2 & G3 & G4).
    destruct (grow m1 (v_win s) (gr u1) slack) as [m2 w2]. cbn [fst snd] in G1, G2, G3, G4.
    destruct (lok_keeps _ _ _ m2 w2 L1 G1 G4) as [L2 E2].
    destruct (Hsim m2 w2 G2 L2 (eq_trans E2 E1)) as [A2 P2].
    rewrite <- G3, A2.
    destruct (vf m2 w2) as [m3 [[l3 u3] e3]]. cbn [pjr post] in P2 |- *. destruct P2 as [K3 Q3].
    assert (K : keeps (v_mem s) (v_win s) m3).
    { apply (keeps_trans _ _ m1 (v_win s)); [exact K1| |apply protects_refl].
      apply (keeps_trans _ _ m2 w2); [exact G1|exact K3|exact G4]. }
    assert (Pr : protects (v_mem s) (v_win s) w2).
    { intros h Hv Hs. apply G4; [|exact Hs]. apply (valid_mext (v_mem s)); [apply K1|exact Hv]. }
    assert (Hw3 : win_ok m3 w2) by (apply (win_ok_mext m2); [apply K3|assumption]).
    assert (Ho3 : win_ok m3 (v_orig s)) by (apply (win_ok_mext (v_mem s)); [apply K|assumption]).
    destruct (Z.eqb_spec e3 ENone) as [->|Hne3]; cbn [fst snd v_mem v_win v_opts v_orig].
    + destruct (Q3 eq_refl) as [Hu L3].
      split; [reflexivity|]. split; [|split; [exact K|]].
      * split; [apply win_ok_from; assumption|]. split; [split; assumption|exact L3].
      * intros h Hv Hs. apply safe_from; [lia|]. apply Pr; assumption.
    + destruct (lok_keeps _ _ _ m3 w2 L2 K3 (protects_refl _ _)) as [L3 E3].
      split; [unfold mproj; cbn [v_mem v_opts v_win]; rewrite E3, E2, E1; reflexivity|].
      split; [|split; [exact K|exact Pr]].
      split; [assumption|]. split; [split; assumption|exact L3].
  - (* first answer is final *)
    destruct (Z.eqb_spec e1 ENone) as [->|Hne3]; cbn [fst snd v_mem v_win v_opts v_orig].
    + destruct (Q1 eq_refl) as [Hu L3].
      assert (Ho3 : win_ok m1 (v_orig s)) by (apply (win_ok_mext (v_mem s)); [apply K1|assumption]).
      split; [reflexivity|]. split; [|split; [exact K1|]].
      * split; [apply win_ok_from; assumption|]. split; [split; assumption|exact L3].
      * intros h Hv Hs. apply safe_from; [lia|assumption].
    + assert (Ho3 : win_ok m1 (v_orig s)) by (apply (win_ok_mext (v_mem s)); [apply K1|assumption]).
      split; [unfold mproj; cbn [v_mem v_opts v_win]; rewrite E1; reflexivity|].
      split; [|split; [exact K1|apply protects_refl]].
      split; [assumption|]. split; [split; assumption|exact L1].
Qed.

Lemma vpanics_sim s' e : panics (mproj s', e) = (mproj (fst (vpanics (s', e))), snd (vpanics (s', e))) /\
  fst (vpanics (s', e)) = s'.
Proof. unfold panics, vpanics. destruct (e =? ENone); split; reflexivity. Qed.

(* SetOptionBytes / AddOptionBytes *)
Lemma vstore_sim s id v slack : vwf s -> 0 <= slack ->
  let m := v_mem s in let w := v_win s in let l := v_opts s in
  let '(m2, w1) := vstore s v slack in
  s_len w1 = (if s_len w <? len v then len v else s_len w) /\
  win_ok m2 (from w1 (len v)) /\ win_ok m2 (v_orig s) /\
  keeps m w m2 /\ protects m w (from w1 (len v)) /\
  lok m2 (from w1 (len v)) (set l (id, hdr w1 (len v))) /\
  proj m2 (set l (id, hdr w1 (len v))) = set (proj m l) (id, v) /\
  lok m2 (from w1 (len v)) (add l (id, hdr w1 (len v))) /\
  proj m2 (add l (id, hdr w1 (len v))) = add (proj m l) (id, v).
Proof.
  intros (Hw & [Ho Ho2] & Hl) Hsl. cbv zeta. unfold vstore. pose proof (len_nonneg v) as Hn.
  assert (G : exists m1 w1,
    (if s_len (v_win s) <? len v then grow (v_mem s) (v_win s) (len v - s_len (v_win s)) slack
     else (v_mem s, v_win s)) = (m1, w1) /\
    keeps (v_mem s) (v_win s) m1 /\ win_ok m1 w1 /\
    s_len w1 = (if s_len (v_win s) <? len v then len v else s_len (v_win s)) /\
    protects (v_mem s) (v_win s) w1).
  { destruct (Z.ltb_spec (s_len (v_win s)) (len v)) as [Hlt|Hge].
    - destruct (grow_ok (v_mem s) (v_win s) (len v - s_len (v_win s)) slack Hw) as (G1 & G2 & G3 & G4); [lia|lia|].
      destruct (grow _ _ _ _) as [m1 w1]. exists m1, w1. cbn [fst snd] in *.
      split; [reflexivity|]. split; [exact G1|]. split; [exact G2|]. split; [lia|exact G4].
    - exists (v_mem s), (v_win s). split; [reflexivity|]. split; [apply keeps_refl|]. split; [assumption|].
      split; [reflexivity|apply protects_refl]. }
  destruct G as (m1 & w1 & -> & K1 & W1 & Len & Pr).
  destruct (lok_keeps _ _ _ m1 w1 Hl K1 Pr) as [L1 E1].
  assert (Hv : len v <= s_len w1) by (rewrite Len; destruct (Z.ltb_spec (s_len (v_win s)) (len v)); lia).
  destruct (store_sim m1 (v_opts s) w1 id v W1 L1 Hv) as (K2 & L2 & P2 & L3 & P3).
  set (m2 := write m1 (s_buf w1) (s_off w1) v) in *.
  assert (K : keeps (v_mem s) (v_win s) m2) by (apply (keeps_trans _ _ m1 w1); assumption).
  split; [exact Len|]. split; [|split; [|split; [exact K|split]]].
  - apply win_ok_from; [|lia]. apply (win_ok_mext m1); [apply K2|assumption].
  - apply (win_ok_mext (v_mem s)); [apply K|assumption].
  - intros h Hv' Hs. apply safe_from; [lia|]. apply Pr; assumption.
  - rewrite <- E1. split; [exact L2|]. split; [exact P2|]. split; [exact L3|exact P3].
Qed.

Lemma used_nonneg_set_bytes l id v b l' u : set_bytes l b id v = (l', u, ETooSmall) -> 0 <= u.
Proof.
  unfold set_bytes. pose proof (len_nonneg v). destruct (b <? len v); [intros E; inversion E; lia|].
  destruct (_ && _); intros E; inversion E.
Qed.
Lemma used_nonneg_add_bytes l id v b l' u : add_bytes l b id v = (l', u, ETooSmall) -> 0 <= u.
Proof.
  unfold add_bytes. pose proof (len_nonneg v). destruct (b <? len v); [intros E; inversion E; lia|].
  destruct (_ && _); intros E; inversion E.
Qed.
Lemma used_nonneg_set_uint32 l id v b l' u : set_uint32 l b id v = (l', u, ETooSmall) -> 0 <= u.
Proof.
  unfold set_uint32. destruct (encode_uint32_cases b v) as (need & Hn & ->).
  destruct (b <? need); cbn [Z.eqb ETooSmall ENone]; intros E; inversion E; lia.
Qed.
Lemma used_nonneg_add_uint32 l id v b l' u : add_uint32 l b id v = (l', u, ETooSmall) -> 0 <= u.
Proof.
  unfold add_uint32. destruct (encode_uint32_cases b v) as (need & Hn & ->).
  destruct (b <? need); cbn [Z.eqb ETooSmall ENone]; intros E; inversion E; lia.
Qed.
Lemma used_nonneg_reset l ins b l' u : reset_options_to l b ins = (l', u, ETooSmall) -> 0 <= u.
Proof.
  rewrite reset_options_to_spec. pose proof (sum_len_nonneg ins).
  destruct (b <? sum_len ins); intros E; inversion E; lia.
Qed.

Lemma vwf_fresh m : vwf {| v_mem := m ++ [zeros valueBufferSize]; v_opts := [];
                           v_win := vnew_win (len m); v_orig := vnew_win (len m) |}.
Proof.
  assert (W : win_ok (m ++ [zeros valueBufferSize]) (vnew_win (len m))).
  { unfold win_ok, vnew_win. cbn [s_buf s_off s_len s_cap]. rewrite buf_app_new, len_app.
    change (len [zeros valueBufferSize]) with 1. rewrite len_zeros by (unfold valueBufferSize; lia).
    pose proof (len_nonneg m). unfold valueBufferSize. repeat split; lia. }
  split; [exact W|]. split; [split; [exact W|reflexivity]|apply lok_nil].
Qed.

Lemma vwf_new : vwf vnew /\ mproj vnew = m_new.
Proof. split; [apply (vwf_fresh [])|reflexivity]. Qed.

(* one builder step on level 2: its level-1 reading is mstep of the level-1
   reading; the invariant is kept; every valid header outside the writable
   part of the window reads the same afterwards and (except after Reset,
   which rewinds the window) is still outside it *)
Theorem vstep_sim s o slack : vwf s -> 0 <= slack ->
  let r := vstep s o slack in
  mstep (mproj s) o = (mproj (fst r), snd r) /\ vwf (fst r) /\
  keeps (v_mem s) (v_win s) (v_mem (fst r)) /\
  (o <> OReset -> protects (v_mem s) (v_win s) (v_win (fst r))).
Proof.
  intros Hwf Hsl. pose proof Hwf as (Hw & [Ho Ho2] & Hl). cbv zeta.
  destruct o as [id v|id v|id|id v b|id v b|id v b|id v b|id p b|ins b| |]; cbn [vstep mstep].
  - pose proof (vstore_sim s id v slack Hwf Hsl) as V. cbv zeta in V.
    destruct (vstore s v slack) as [m2 w1]. destruct V as (Len & W & O & K & Pr & L & P & _ & _).
    unfold mproj; cbn [fst snd m_opts m_vb v_mem v_opts v_win]. rewrite P.
    split; [cbn [from s_len]; rewrite Len; reflexivity|]. split; [|split; [exact K|intros _; exact Pr]].
    split; [exact W|]. split; [split; assumption|exact L].
  - pose proof (vstore_sim s id v slack Hwf Hsl) as V. cbv zeta in V.
    destruct (vstore s v slack) as [m2 w1]. destruct V as (Len & W & O & K & Pr & _ & _ & L & P).
    unfold mproj; cbn [fst snd m_opts m_vb v_mem v_opts v_win]. rewrite P.
    split; [cbn [from s_len]; rewrite Len; reflexivity|]. split; [|split; [exact K|intros _; exact Pr]].
    split; [exact W|]. split; [split; assumption|exact L].
  - unfold mproj; cbn [fst snd m_opts m_vb v_mem v_opts v_win]. destruct Hl as [Hs Hf].
    unfold proj. rewrite (remove_map (pj (v_mem s)) (pj_id _)) by assumption.
    split; [reflexivity|]. split; [|split; [apply keeps_refl|intros _; apply protects_refl]].
    split; [assumption|]. split; [split; assumption|].
    split; [apply remove_refines; assumption|apply Forall_remove; assumption].
  - pose proof (vwith_retry_sim s (fun m sl => vset_bytes m (v_opts s) sl id v)
      (fun b0 => set_bytes (m_opts (mproj s)) b0 id v) (fun u => u) slack Hwf Hsl) as R.
    cbv zeta in R. destruct R as (R1 & R2 & R3 & R4).
    { intros m sl W L E. cbn [mproj m_opts]. rewrite <- E. apply vset_bytes_sim; assumption. }
    { intros b0 l' u. apply used_nonneg_set_bytes. }
    rewrite R1. destruct (vwith_retry s _ _ slack) as [s' e]. cbn [fst snd] in *.
    destruct (vpanics_sim s' e) as [Q1 Q2]. rewrite Q1, Q2. split; [reflexivity|]. split; [exact R2|]. split; [exact R3|intros _; exact R4].
  - pose proof (vwith_retry_sim s (fun m sl => vadd_bytes m (v_opts s) sl id v)
      (fun b0 => add_bytes (m_opts (mproj s)) b0 id v) (fun u => u) slack Hwf Hsl) as R.
    cbv zeta in R. destruct R as (R1 & R2 & R3 & R4).
    { intros m sl W L E. cbn [mproj m_opts]. rewrite <- E. apply vadd_bytes_sim; assumption. }
    { intros b0 l' u. apply used_nonneg_add_bytes. }
    rewrite R1. destruct (vwith_retry s _ _ slack) as [s' e]. cbn [fst snd] in *.
    destruct (vpanics_sim s' e) as [Q1 Q2]. rewrite Q1, Q2. split; [reflexivity|]. split; [exact R2|]. split; [exact R3|intros _; exact R4].
  - pose proof (vwith_retry_sim s (fun m sl => vset_uint32 m (v_opts s) sl id v)
      (fun b0 => set_uint32 (m_opts (mproj s)) b0 id v) (fun u => u) slack Hwf Hsl) as R.
    cbv zeta in R. destruct R as (R1 & R2 & R3 & R4).
    { intros m sl W L E. cbn [mproj m_opts]. rewrite <- E. apply vset_uint32_sim; assumption. }
    { intros b0 l' u. apply used_nonneg_set_uint32. }
    rewrite R1. destruct (vwith_retry s _ _ slack) as [s' e]. cbn [fst snd] in *.
    destruct (vpanics_sim s' e) as [Q1 Q2]. rewrite Q1, Q2. split; [reflexivity|]. split; [exact R2|]. split; [exact R3|intros _; exact R4].
  - pose proof (vwith_retry_sim s (fun m sl => vadd_uint32 m (v_opts s) sl id v)
      (fun b0 => add_uint32 (m_opts (mproj s)) b0 id v) (fun u => u) slack Hwf Hsl) as R.
    cbv zeta in R. destruct R as (R1 & R2 & R3 & R4).
    { intros m sl W L E. cbn [mproj m_opts]. rewrite <- E. apply vadd_uint32_sim; assumption. }
    { intros b0 l' u. apply used_nonneg_add_uint32. }
    rewrite R1. destruct (vwith_retry s _ _ slack) as [s' e]. cbn [fst snd] in *.
    destruct (vpanics_sim s' e) as [Q1 Q2]. rewrite Q1, Q2. split; [reflexivity|]. split; [exact R2|]. split; [exact R3|intros _; exact R4].
  - set (g := match get_path_buffer_size p with PSize n => n | _ => 0 end).
    pose proof (vwith_retry_sim s (fun m sl => vset_path' m (v_opts s) id sl p)
      (fun b0 => match set_path (m_opts (mproj s)) id b0 p with
                 | SFuel => (m_opts (mproj s), -1, EFuel) | SRes r => r end) (fun _ => g) slack Hwf Hsl) as R.
    cbv zeta in R. destruct R as (R1 & R2 & R3 & R4).
    { intros m sl W L E. cbn [mproj m_opts]. rewrite <- E. apply vset_path_sim; assumption. }
    { intros _ _ _ _. unfold g. rewrite get_path_buffer_size_spec. pose proof (segs_total_nonneg p).
      destruct (segs_ok p); lia. }
    rewrite R1. split; [reflexivity|]. split; [exact R2|]. split; [exact R3|intros _; exact R4].
  - pose proof (vwith_retry_sim s (fun m sl => vreset_options_to m (v_opts s) sl ins)
      (fun b0 => reset_options_to (m_opts (mproj s)) b0 ins) (fun u => u) slack Hwf Hsl) as R.
    cbv zeta in R. destruct R as (R1 & R2 & R3 & R4).
    { intros m sl W L E. cbn [mproj m_opts]. rewrite <- E. apply vreset_options_to_sim; assumption. }
    { intros b0 l' u. apply used_nonneg_reset. }
    rewrite R1. destruct (vwith_retry s _ _ slack) as [s' e]. cbn [fst snd] in *.
    destruct (vpanics_sim s' e) as [Q1 Q2]. rewrite Q1, Q2. split; [reflexivity|]. split; [exact R2|]. split; [exact R3|intros _; exact R4].
  - (* Clone into a fresh message *)
    set (m0 := v_mem s ++ [zeros valueBufferSize]).
    set (w0 := vnew_win (len (v_mem s))).
    set (s0 := {| v_mem := m0; v_opts := []; v_win := w0; v_orig := w0 |}).
    pose proof (vwf_fresh (v_mem s)) as Hwf0. fold m0 w0 s0 in Hwf0.
    pose proof (vwith_retry_sim s0 (fun m sl => vreset_options_to m [] sl (proj (v_mem s) (v_opts s)))
      (fun b0 => reset_options_to [] b0 (m_opts (mproj s))) (fun u => u) slack Hwf0 Hsl) as R.
    cbv zeta in R. destruct R as (R1 & R2 & R3 & R4).
    { intros m sl W L E. cbn [mproj m_opts]. change (@nil opt) with (proj m []) at 1.
      apply vreset_options_to_sim; assumption. }
    { intros b0 l' u. apply used_nonneg_reset. }
    change (mproj s0) with m_new in R1. rewrite R1.
    destruct (vwith_retry s0 _ _ slack) as [s' e]. cbn [fst snd] in *.
    destruct (vpanics_sim s' e) as [Q1 Q2]. rewrite Q1, Q2.
    assert (K0 : keeps (v_mem s) (v_win s) m0).
    { split; [split|].
      - unfold m0. rewrite len_app. change (len [zeros valueBufferSize]) with 1. lia.
      - intros b0 Hb. unfold m0. rewrite buf_app_l by lia. reflexivity.
      - intros h (V1 & _) _. unfold rd, m0. rewrite buf_app_l by lia. reflexivity. }
    assert (P0 : protects (v_mem s) (v_win s) w0).
    { intros h (V1 & _) _. left. unfold w0, vnew_win. cbn [s_buf]. lia. }
    split; [reflexivity|]. split; [assumption|]. split.
    + apply (keeps_trans _ _ m0 w0); assumption.
    + intros _ h Hv Hs. apply R4; [|apply P0; assumption]. apply (valid_mext (v_mem s)); [apply K0|assumption].
  - unfold mproj; cbn [fst snd m_opts m_vb v_mem v_opts v_win]. unfold m_new. rewrite Ho2.
    split; [reflexivity|]. split; [|split; [apply keeps_refl|intros H; congruence]].
    split; [assumption|]. split; [split; assumption|apply lok_nil].
Qed.

(* ------------------------------------------------------------------ *)
(* F. histories                                                        *)

(* a history: builder calls, each with the spare capacity the runtime gives
   an array if that call has to allocate one *)
Definition vrun (steps : list (op * Z)) (s : vstate) : vstate :=
  fold_left (fun acc x => fst (vstep acc (fst x) (snd x))) steps s.

(* level 2 projects onto level 1 along every history *)
Theorem vrun_sim steps : forall s, vwf s -> Forall (fun x => 0 <= snd x) steps ->
  mproj (vrun steps s) = mrun (map fst steps) (mproj s) /\ vwf (vrun steps s).
Proof.
  induction steps as [|[o k] steps IH]; intros s Hwf Hk; [split; [reflexivity|assumption]|].
  inversion Hk as [|? ? Hk1 Hk2]; subst. cbn [snd] in Hk1.
  unfold vrun, mrun in *. cbn [fold_left map fst snd].
  destruct (vstep_sim s o k Hwf Hk1) as (E & W & _). rewrite E. cbn [fst]. apply IH; assumption.
Qed.

(* values are byte-exact and stay so: a header that is valid and outside the
   writable part of the window -- every stored option value is, by the
   invariant -- denotes the same bytes after any later history of builder
   calls that does not Reset the message *)
Theorem values_stable_run steps : forall s, vwf s -> Forall (fun x => 0 <= snd x) steps ->
  Forall (fun x => fst x <> OReset) steps ->
  forall h, valid (v_mem s) h -> safe (v_win s) h ->
  rd (v_mem (vrun steps s)) h = rd (v_mem s) h /\
  valid (v_mem (vrun steps s)) h /\ safe (v_win (vrun steps s)) h.
Proof.
  induction steps as [|[o k] steps IH]; intros s Hwf Hk Hr h Hv Hs; [split; [reflexivity|split; assumption]|].
  inversion Hk as [|? ? Hk1 Hk2]; subst. inversion Hr as [|? ? Hr1 Hr2]; subst. cbn [fst snd] in Hk1, Hr1.
  unfold vrun in *. cbn [fold_left fst snd].
  destruct (vstep_sim s o k Hwf Hk1) as (_ & W & [M K] & P).
  destruct (IH (fst (vstep s o k)) W Hk2 Hr2 h) as (I1 & I2 & I3).
  - eapply valid_mext; eassumption.
  - apply P; assumption.
  - rewrite I1, K by assumption. split; [reflexivity|split; assumption].
Qed.

Lemma stored_valid_safe s x : vwf s -> In x (v_opts s) -> valid (v_mem s) (oval x) /\ safe (v_win s) (oval x).
Proof. intros (_ & _ & [_ Hf]) Hx. rewrite Forall_forall in Hf. apply Hf. assumption. Qed.

Theorem stored_values_stable steps s x : vwf s -> Forall (fun x => 0 <= snd x) steps ->
  Forall (fun x => fst x <> OReset) steps -> In x (v_opts s) ->
  rd (v_mem (vrun steps s)) (oval x) = rd (v_mem s) (oval x).
Proof.
  intros Hwf Hk Hr Hx. destruct (stored_valid_safe s x Hwf Hx) as [Hv Hs].
  apply (values_stable_run steps s Hwf Hk Hr (oval x) Hv Hs).
Qed.

(* one step, Reset included: no step changes the bytes of a stored value
   (Reset only forgets the values: the list is emptied and the window
   returns to the first array, so later calls may overwrite them) *)
Theorem stored_values_stable_step s o k x : vwf s -> 0 <= k -> In x (v_opts s) ->
  rd (v_mem (fst (vstep s o k))) (oval x) = rd (v_mem s) (oval x).
Proof.
  intros Hwf Hk Hx. destruct (stored_valid_safe s x Hwf Hx) as [Hv Hs].
  destruct (vstep_sim s o k Hwf Hk) as (_ & _ & [_ K] & _). apply K; assumption.
Qed.

(* from a new message: what the options list reads is the reference's list,
   i.e. exactly the bytes the callers passed *)
Theorem vrun_reference steps : Forall (fun x => 0 <= snd x) steps -> Forall op_wf (map fst steps) ->
  let s := vrun steps vnew in
  proj (v_mem s) (v_opts s) = ref_run false (map fst steps) [] /\ vwf s.
Proof.
  intros Hk Hwf. cbv zeta. destruct vwf_new as [W E].
  destruct (vrun_sim steps vnew W Hk) as [P W']. split; [|assumption].
  change (proj (v_mem (vrun steps vnew)) (v_opts (vrun steps vnew))) with (m_opts (mproj (vrun steps vnew))).
  rewrite P, E. apply (mrun_refines (map fst steps) m_new mwf_new Hwf).
Qed.
