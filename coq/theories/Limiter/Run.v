(* Limiter/Run.v -- correspondence evaluators for C16.
   A case is a history that the harness forced on the real limiter (after every event it waited
   until every request goroutine was blocked or had returned) together with what it observed. *)
From Coq Require Import ZArith NArith List Bool.
From GoCoap Require Import Base.Cases Limiter.Model.
From GoCoap Require Export Limiter.Spec.
Import ListNotations.
Open Scope Z_scope.

Inductive case :=
(* forced history on New(tot, epl, ...): n requests, nk paths *)
| H (epl tot : Z) (n nk : N) (h : list (ev * obs))
(* free-running goroutines (no forced order): n calls of which nok returned the wrapped
   function's result and nerr the context error; maxg/maxtot = highest gauge seen inside the
   wrapped function per path / in total; o0 = observation after all calls returned; then a forced
   history h on the SAME limiter object *)
| Free (epl tot : Z) (n nok nerr : Z) (maxg : list Z) (maxtot : Z) (o0 : obs) (nk : N) (n2 : N) (h : list (ev * obs))
(* the limits configured on a real connection: after every step of a script of Get / Observe /
   Observation.Cancel calls and peer answers, the requests on the wire that the peer has not answered yet,
   per path; hung = 1 if some call had not returned long after everything was answered *)
| Wire (epl tot : Z) (snaps : list (list Z)) (hung : Z).

Definition code (s : status) : N :=
  match s with
  | NotYet => sNotYet | EpWait => sWaitEp | TotWait => sWaitTot | InFlight => sInFlight
  | Done Ok => sDoneOk | Done ErrEp => sDoneErrEp | Done ErrTotal => sDoneErrTot
  | _ => 9%N   (* a goroutine that can still move: never observed by the harness *)
  end.
(* a request whose goroutine the harness parked at the scheduling point "ep-ctx-done" (after the
   select of acquireEndpoint took <-ctx.Done(), before cancelEndpoint) *)
Definition code_hold (hold : list N) (r : N) (s : status) : N :=
  match s with
  | CancelQ | CancelG => if mem r hold then sCancelling else 9%N
  | _ => code s
  end.

Definition nseq (n : N) : list N := map N.of_nat (seq 0 (N.to_nat n)).

Definition observe_hold (hold : list N) (l : lim) (n nk : N) : obs :=
  Ob (map (fun r => code_hold hold r (st l r)) (nseq n))
     (map (fun k =>
        (Z.of_nat (length (filter (fun r => N.eqb (keyof l r) k && match st l r with InFlight => true | _ => false end) (arr l))),
         match tab l k with Some (c, _) => c | None => -1 end,
         match tab l k with Some (_, q) => Z.of_nat (length q) | None => 0 end)) (nseq nk))
     (held l, Z.of_nat (length (semq l))).
Definition observe (l : lim) (n nk : N) : obs := observe_hold [] l n nk.

Definition acts_of (e : ev) : list act :=
  match e with
  | EArr r k => [Arrive r k]
  | EArrC r k => [Cancel r; Arrive r k]
  | ECan r => [Cancel r]
  | EFin r => [Finish r]
  | ECanH r => [Cancel r; SeeCancel r]
  | ERes r => []
  end.
(* the goroutines that stay parked after the event *)
Definition hold_after (hold : list N) (e : ev) : list N :=
  match e with
  | ECanH r => r :: hold
  | ERes r => filter (fun x => negb (N.eqb x r)) hold
  | _ => hold
  end.

Definition fuel_for (n : N) : nat := 12 * (N.to_nat n + 2).
Definition do_ev (fx : bool) (n : N) (hold : list N) (l : lim) (e : ev) : lim :=
  settle_hold_gen fx (fuel_for n) (hold_after hold e) (fold_left (step_gen fx) (acts_of e) l).

Definition list_eqb {A} (eqb : A -> A -> bool) (a b : list A) : bool :=
  (length a =? length b)%nat && forallb (fun p => eqb (fst p) (snd p)) (combine a b).
Definition key_eqb (a b : Z * Z * Z) : bool :=
  (gauge a =? gauge b) && (counter a =? counter b) && (qlen a =? qlen b).
(* a request that arrives with a cancelled context and finds a free slot has both channels of
   acquireEndpoint's select ready: either error text is a behaviour of the code *)
Definition st_eqb (racy : list N) (i : nat) (m o : N) : bool :=
  N.eqb m o || (existsb (N.eqb (N.of_nat i)) racy && cancelled_result m && cancelled_result o).
Fixpoint sts_eqb (racy : list N) (i : nat) (m o : list N) : bool :=
  match m, o with
  | [], [] => true
  | x :: m', y :: o' => st_eqb racy i x y && sts_eqb racy (S i) m' o'
  | _, _ => false
  end.
Definition obs_eqb (racy : list N) (m o : obs) : bool :=
  sts_eqb racy 0 (o_sts m) (o_sts o) && list_eqb key_eqb (o_keys m) (o_keys o) &&
  (fst (o_sem m) =? fst (o_sem o)) && (snd (o_sem m) =? snd (o_sem o)).

Fixpoint agrees_hist (fx : bool) (n nk : N) (l : lim) (hold : list N) (racy : list N) (h : list (ev * obs)) : bool :=
  match h with
  | [] => true
  | (e, o) :: h' =>
      let l' := do_ev fx n hold l e in
      let hold' := hold_after hold e in
      let racy' := match e with EArrC r _ => r :: racy | _ => racy end in
      quiescent_hold hold' l' && obs_eqb racy' (observe_hold hold' l' n nk) o && agrees_hist fx n nk l' hold' racy' h'
  end.

Definition agrees (c : case) : bool :=
  match c with
  | H epl tot n nk h => agrees_hist true n nk (new_lim tot epl) [] [] h
  | Free epl tot n nok nerr maxg maxtot o0 nk n2 h =>
      (nok + nerr =? n) && agrees_hist true n2 nk (new_lim tot epl) [] [] h
  | Wire _ _ _ _ => true
  end.

Definition obs0 (n nk : N) : obs := observe (new_lim 0 0) n nk.

(* failure classes (Spec.step_class): 1 endpoint limit exceeded, 2 total limit exceeded,
   3 admitted out of arrival order, 4 cancelled waiter changed somebody else's state,
   5 not idle after all calls returned, 6 new request not admitted by an idle limiter,
   7 panic/hang/unknown status, 8 a request waits although a slot is free,
   9 the slots taken of a path do not match the requests that own one *)
Definition pclass (c : case) : N :=
  match c with
  | H epl tot n nk h => hist_class epl tot (obs0 n nk) [] h
  | Free epl tot n nok nerr maxg maxtot o0 nk n2 h =>
      if limited epl && negb (forallb (fun g => g <=? epl) maxg) then 1%N
      else if limited tot && negb (maxtot <=? tot) then 2%N
      else if negb (idle_obs o0) then 5%N
      else if negb (nok + nerr =? n) then 7%N
      else hist_class epl tot (obs0 n2 nk) [] h
  | Wire epl tot snaps hung =>
      if limited epl && negb (forallb (forallb (fun g => g <=? epl)) snaps) then 1%N
      else if limited tot && negb (forallb (fun s => fold_right Z.add 0 s <=? tot) snaps) then 2%N
      else if negb (hung =? 0) then 7%N
      else 0%N
  end.

Definition mismatches (cs : list case) : list N := bad_indices (fun c => negb (agrees c)) cs.
Definition property_failures (cs : list case) : list (N * N) := classes pclass cs.

(* the same history evaluated against the model of the code before the repair of F10 *)
Definition agrees_pre (c : case) : bool :=
  match c with
  | H epl tot n nk h => agrees_hist false n nk (new_lim tot epl) [] [] h
  | _ => true
  end.
