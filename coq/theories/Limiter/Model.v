(* Limiter/Model.v -- net/client/limitParallelRequests/limitParallelRequests.go as a transition
   system over the atomic sections of the code (the callbacks run under the write lock of
   pkg/sync.Map, the sections of x/sync/semaphore.Weighted run under its mutex).

   A request r is one goroutine executing LimitParallelRequests.Do (DoObserve has the same
   limiter calls in the same order; only the wrapped function differs).  Its program counter is
   [status]; an action executes ONE atomic section (or one branch of a select) of ONE goroutine.
   A schedule is a list of actions; an action that is not enabled in the current state is a
   no-op, so "all lists of actions" covers every interleaving, including both outcomes of a
   select whose two channels are ready.

   The queue of an endpoint holds channels in the code; here it holds the id of the request that
   created the channel.  No proofs in this file. *)
From Coq Require Import ZArith NArith List Bool.
Import ListNotations.
Open Scope Z_scope.

Inductive outcome := Ok | ErrEp | ErrTotal.
(* Ok: do's result; ErrEp: "cannot process request ... for client endpoint limit";
   ErrTotal: "... for client limit" *)

Inductive status :=
| NotYet                 (* Do not called yet *)
| EpWait                 (* in the select of acquireEndpoint; own channel queued and open *)
| EpGranted              (* in the select of acquireEndpoint; own channel closed (slot owned) *)
| CancelQ                (* select took <-ctx.Done(); before cancelEndpoint's section; channel still queued *)
| CancelG                (* same, but the channel has been closed: the request owns a slot *)
| RelEp (e : outcome)    (* before the section of releaseEndpoint; afterwards Do returns e *)
| HasEp                  (* acquireEndpoint returned nil; before the first section of limit.Acquire *)
| TotWait                (* in the select of Weighted.Acquire; in the waiters list *)
| TotGranted             (* in the select of Weighted.Acquire; ready closed (unit owned) *)
| InFlight               (* inside c.do(req) *)
| RelTot                 (* do returned; before limit.Release(1) *)
| Done (e : outcome).    (* Do returned *)

Definition upd {A} (f : N -> A) (r : N) (v : A) : N -> A := fun x => if N.eqb x r then v else f x.

Record lim := mkLim {
  eplimit : Z;                        (* c.endpointLimit after New *)
  total : Z;                          (* size of c.limit after New *)
  st : N -> status;
  keyof : N -> N;                     (* hash(req.Options()) of the request *)
  cancelled : N -> bool;              (* req.Context() is done *)
  arr : list N;                       (* ghost: requests in the order of their LoadOrStoreWithFunc section *)
  tab : N -> option (Z * list N);     (* endpointQueues: key -> (processedCounter, orderedRequest) *)
  held : Z;                           (* Weighted.cur *)
  semq : list N                       (* Weighted.waiters (every weight is 1) *)
}.

Definition with_st (l : lim) (s : N -> status) : lim :=
  mkLim (eplimit l) (total l) s (keyof l) (cancelled l) (arr l) (tab l) (held l) (semq l).
Definition with_tab (l : lim) (t : N -> option (Z * list N)) : lim :=
  mkLim (eplimit l) (total l) (st l) (keyof l) (cancelled l) (arr l) t (held l) (semq l).
Definition with_sem (l : lim) (h : Z) (q : list N) : lim :=
  mkLim (eplimit l) (total l) (st l) (keyof l) (cancelled l) (arr l) (tab l) h q.
Definition set_st (l : lim) (r : N) (s : status) : lim := with_st l (upd (st l) r s).

(* New: limit <= 0 or endpointLimit <= 0 mean math.MaxInt64 *)
Definition max_int64 : Z := 9223372036854775807.
Definition norm (x : Z) : Z := if x <=? 0 then max_int64 else x.
Definition new_lim (limit endpointLimit : Z) : lim :=
  mkLim (norm endpointLimit) (norm limit) (fun _ => NotYet) (fun _ => 0%N) (fun _ => false) []
        (fun _ => None) 0 [].

(* closing a request's endpoint channel / its semaphore ready channel *)
Definition grant_ep (s : status) : status :=
  match s with EpWait => EpGranted | CancelQ => CancelG | _ => s end.
Definition grant_tot (s : status) : status :=
  match s with TotWait => TotGranted | _ => s end.

(* remove the first occurrence (the loops in cancelEndpoint and list.Remove) *)
Fixpoint rem1 (r : N) (q : list N) : list N :=
  match q with
  | [] => []
  | x :: q' => if N.eqb x r then q' else x :: rem1 r q'
  end.
Fixpoint mem (r : N) (q : list N) : bool :=
  match q with [] => false | x :: q' => N.eqb x r || mem r q' end.

(* releaseEndpoint's callback *)
Definition release_ep (l : lim) (k : N) : lim :=
  match tab l k with
  | None => l                                                   (* !oldLoaded: return nil, true *)
  | Some (cnt, w :: rest) =>
      with_st (with_tab l (upd (tab l) k (Some (cnt, rest)))) (upd (st l) w (grant_ep (st l w)))
  | Some (cnt, []) =>
      if cnt - 1 =? 0 then with_tab l (upd (tab l) k None)
      else with_tab l (upd (tab l) k (Some (cnt - 1, [])))
  end.

(* Weighted.notifyWaiters: hand units to the front waiters while there is room *)
Fixpoint notify_loop (tot hd : Z) (q : list N) (s : N -> status) : Z * list N * (N -> status) :=
  match q with
  | [] => (hd, [], s)
  | w :: rest => if tot - hd <? 1 then (hd, q, s)
                 else notify_loop tot (hd + 1) rest (upd s w (grant_tot (s w)))
  end.
Definition notify (l : lim) : lim :=
  let '(h, q, s) := notify_loop (total l) (held l) (semq l) (st l) in
  with_st (with_sem l h q) s.
(* Weighted.Release(1) (the panic on cur < 0 cannot occur: only holders release) *)
Definition sem_release (l : lim) : lim := notify (with_sem l (held l - 1) (semq l)).

Inductive act :=
| Arrive (r k : N)      (* Do is called: the LoadOrStoreWithFunc section of acquireEndpoint *)
| Cancel (r : N)        (* the request's context is cancelled (by anybody) *)
| Finish (r : N)        (* c.do returns *)
| SeeGrant (r : N)      (* acquireEndpoint's select takes <-reqChan *)
| SeeCancel (r : N)     (* acquireEndpoint's select takes <-ctx.Done() *)
| CancelSec (r : N)     (* the ReplaceWithFunc section of cancelEndpoint *)
| ReleaseEp (r : N)     (* the ReplaceWithFunc section of releaseEndpoint, then return *)
| AcquireTot (r : N)    (* first locked section of Weighted.Acquire *)
| TotSeeCancel (r : N)  (* Acquire's select takes <-done: second locked section *)
| TotSeeReady (r : N)   (* Acquire's select takes <-ready, then polls done *)
| ReleaseTot (r : N).   (* deferred limit.Release(1) *)

(* [fx = true]: the repaired code (cancelEndpoint); [fx = false]: the code before the repair of
   F10, whose ctx.Done branch called releaseEndpoint directly. *)
Definition step_gen (fx : bool) (l : lim) (a : act) : lim :=
  match a with
  | Arrive r k =>
      match st l r with
      | NotYet =>
          let l := mkLim (eplimit l) (total l) (st l) (upd (keyof l) r k) (cancelled l) (arr l ++ [r])
                         (tab l) (held l) (semq l) in
          match tab l k with
          | Some (cnt, q) =>
              if cnt <? eplimit l
              then set_st (with_tab l (upd (tab l) k (Some (cnt + 1, q)))) r EpGranted
              else set_st (with_tab l (upd (tab l) k (Some (cnt, q ++ [r])))) r EpWait
          | None => set_st (with_tab l (upd (tab l) k (Some (1, [])))) r EpGranted
          end
      | _ => l
      end
  | Cancel r =>
      mkLim (eplimit l) (total l) (st l) (keyof l) (upd (cancelled l) r true) (arr l) (tab l) (held l) (semq l)
  | Finish r =>
      match st l r with InFlight => set_st l r RelTot | _ => l end
  | SeeGrant r =>
      match st l r with EpGranted => set_st l r HasEp | _ => l end
  | SeeCancel r =>
      if cancelled l r then
        match st l r with
        | EpWait => set_st l r (if fx then CancelQ else RelEp ErrEp)
        | EpGranted => set_st l r (if fx then CancelG else RelEp ErrEp)
        | _ => l
        end
      else l
  | CancelSec r =>
      match st l r with
      | CancelQ | CancelG =>
          let k := keyof l r in
          match tab l k with
          | None => set_st l r (RelEp ErrEp)                      (* !oldLoaded; queued stays false *)
          | Some (cnt, q) =>
              if mem r q
              then set_st (with_tab l (upd (tab l) k (Some (cnt, rem1 r q)))) r (Done ErrEp)
              else set_st l r (RelEp ErrEp)
          end
      | _ => l
      end
  | ReleaseEp r =>
      match st l r with
      | RelEp e => set_st (release_ep l (keyof l r)) r (Done e)
      | _ => l
      end
  | AcquireTot r =>
      match st l r with
      | HasEp =>
          if cancelled l r then set_st l r (RelEp ErrTotal)
          else if (total l - held l >=? 1) && (match semq l with [] => true | _ => false end)
          then set_st (with_sem l (held l + 1) (semq l)) r InFlight
          else set_st (with_sem l (held l) (semq l ++ [r])) r TotWait
      | _ => l
      end
  | TotSeeCancel r =>
      if cancelled l r then
        match st l r with
        | TotGranted => set_st (sem_release l) r (RelEp ErrTotal)     (* s.cur -= n; notifyWaiters *)
        | TotWait =>
            let front := match semq l with x :: _ => N.eqb x r | [] => false end in
            let l1 := with_sem l (held l) (rem1 r (semq l)) in
            let l2 := if front && (held l <? total l) then notify l1 else l1 in
            set_st l2 r (RelEp ErrTotal)
        | _ => l
        end
      else l
  | TotSeeReady r =>
      match st l r with
      | TotGranted =>
          if cancelled l r then set_st (sem_release l) r (RelEp ErrTotal)   (* s.Release(n) *)
          else set_st l r InFlight
      | _ => l
      end
  | ReleaseTot r =>
      match st l r with
      | RelTot => set_st (sem_release l) r (RelEp Ok)
      | _ => l
      end
  end.

Definition step : lim -> act -> lim := step_gen true.
Definition step_pre : lim -> act -> lim := step_gen false.
Definition run (l : lim) (tr : list act) : lim := fold_left step tr l.

(* ---- a scheduler: run the goroutines until every one of them is blocked (or has returned).
   Used by the correspondence, where the harness waits for exactly that after each event. ---- *)
Definition internal (l : lim) (r : N) : option act :=
  match st l r with
  | EpGranted => Some (SeeGrant r)
  | EpWait => if cancelled l r then Some (SeeCancel r) else None
  | CancelQ | CancelG => Some (CancelSec r)
  | RelEp _ => Some (ReleaseEp r)
  | HasEp => Some (AcquireTot r)
  | TotWait => if cancelled l r then Some (TotSeeCancel r) else None
  | TotGranted => Some (TotSeeReady r)
  | RelTot => Some (ReleaseTot r)
  | NotYet | InFlight | Done _ => None
  end.
Fixpoint first_enabled (l : lim) (rs : list N) : option act :=
  match rs with
  | [] => None
  | r :: rs' => match internal l r with Some a => Some a | None => first_enabled l rs' end
  end.
Fixpoint settle_gen (fx : bool) (fuel : nat) (l : lim) : lim :=
  match fuel with
  | O => l
  | S f => match first_enabled l (arr l) with
           | None => l
           | Some a => settle_gen fx f (step_gen fx l a)
           end
  end.
Definition settle := settle_gen true.
Definition quiescent (l : lim) : bool :=
  match first_enabled l (arr l) with None => true | Some _ => false end.

(* ---- the same scheduler while some goroutines are DELAYED: the requests in [hold] do not move
   (the harness parks them at a scheduling point of the real code), everybody else runs to rest.
   With [hold = []] this is [settle_gen]. ---- *)
Definition unheld (hold : list N) (rs : list N) : list N := filter (fun r => negb (mem r hold)) rs.
Fixpoint settle_hold_gen (fx : bool) (fuel : nat) (hold : list N) (l : lim) : lim :=
  match fuel with
  | O => l
  | S f => match first_enabled l (unheld hold (arr l)) with
           | None => l
           | Some a => settle_hold_gen fx f hold (step_gen fx l a)
           end
  end.
Definition settle_hold := settle_hold_gen true.
Definition quiescent_hold (hold : list N) (l : lim) : bool :=
  match first_enabled l (unheld hold (arr l)) with None => true | Some _ => false end.

(* ---- a variant of releaseEndpoint that is NOT the code: the freed slot is handed to the first
   queued waiter whose context is not done; waiters whose context is done are popped and skipped
   ("do not hand the slot to a request that will not use it").  cancelEndpoint is unchanged, i.e.
   it still concludes "my channel is not queued => I was admitted".  Kept for the refutation
   lemma [skip_cancelled_refuted] only. ---- *)
Fixpoint pop_live (canc : N -> bool) (q : list N) : option N * list N :=
  match q with
  | [] => (None, [])
  | w :: rest => if canc w then pop_live canc rest else (Some w, rest)
  end.
Definition release_ep_skip (l : lim) (k : N) : lim :=
  match tab l k with
  | None => l
  | Some (cnt, q) =>
      match pop_live (cancelled l) q with
      | (Some w, rest) =>
          with_st (with_tab l (upd (tab l) k (Some (cnt, rest)))) (upd (st l) w (grant_ep (st l w)))
      | (None, _) =>
          if cnt - 1 =? 0 then with_tab l (upd (tab l) k None)
          else with_tab l (upd (tab l) k (Some (cnt - 1, [])))
      end
  end.
Definition step_skip (l : lim) (a : act) : lim :=
  match a with
  | ReleaseEp r =>
      match st l r with
      | RelEp e => set_st (release_ep_skip l (keyof l r)) r (Done e)
      | _ => l
      end
  | _ => step l a
  end.
