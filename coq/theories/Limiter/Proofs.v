(* Limiter/Proofs.v *)
From Coq Require Import ZArith NArith List Bool Lia.
From GoCoap Require Import Limiter.Model Limiter.Spec.
Import ListNotations.
Open Scope Z_scope.

(* F10: in the code before the repair, a cancelled queued waiter admitted somebody else *)
Definition n_inflight (l : lim) (k : N) : Z :=
  Z.of_nat (length (filter (fun r => N.eqb (keyof l r) k && match st l r with InFlight => true | _ => false end) (arr l))).

Lemma endpoint_limit_refuted_pre :
  exists tr, let l := fold_left step_pre tr (new_lim 0 1) in n_inflight l 0 > eplimit l.
Proof.
  exists [Arrive 0 0; SeeGrant 0; AcquireTot 0; Arrive 1 0; Arrive 2 0; Cancel 2; SeeCancel 2; ReleaseEp 2;
          SeeGrant 1; AcquireTot 1]%N.
  vm_compute. reflexivity.
Qed.
