(* Limiter/Proofs.v -- the limiter model satisfies C16 for every schedule.
   The inductive invariant: for every path k the table entry is determined by the statuses,
     processedCounter k = number of requests of path k that own a slot,
     orderedRequest k   = the requests of path k that wait, in arrival order (no stale ids),
   the semaphore's cur = number of requests that own a unit, its waiters = the requests in TotWait. *)
From Coq Require Import ZArith NArith List Bool Lia.
From GoCoap Require Import Limiter.Model Limiter.Spec.
Import ListNotations.
Open Scope Z_scope.

(* ---------- lists ---------- *)
Lemma rem1_head r q : rem1 r (r :: q) = q.
Proof. simpl. now rewrite N.eqb_refl. Qed.

Lemma rem1_notin r q : ~ In r q -> rem1 r q = q.
Proof.
  induction q as [|x q IH]; simpl; intros Hn; [reflexivity|].
  destruct (N.eqb_spec x r) as [->|Hx]; [exfalso; apply Hn; now left|].
  f_equal. apply IH. intro; apply Hn; now right.
Qed.

Lemma in_rem1 r x q : NoDup q -> (In x (rem1 r q) <-> x <> r /\ In x q).
Proof.
  induction q as [|y q IH]; simpl; intros Hnd; [tauto|].
  inversion Hnd as [|? ? Hy Hq]; subst.
  destruct (N.eqb_spec y r) as [->|Hyr].
  - split; [intros Hx; split; [intros ->; contradiction|now right]|intros [Hxr [Hx|Hx]]; congruence].
  - simpl. rewrite (IH Hq). split.
    + intros [->|[? ?]]; [split; [assumption|now left]|split; [assumption|now right]].
    + intros [Hxr [->|Hx]]; [now left|right; now split].
Qed.

Lemma nodup_rem1 r q : NoDup q -> NoDup (rem1 r q).
Proof.
  induction q as [|y q IH]; simpl; intros Hnd; [constructor|].
  inversion Hnd as [|? ? Hy Hq]; subst.
  destruct (N.eqb_spec y r); [assumption|].
  constructor; [|now apply IH]. rewrite (in_rem1 _ _ _ Hq). tauto.
Qed.

Lemma length_rem1 r q : In r q -> length q = S (length (rem1 r q)).
Proof.
  induction q as [|y q IH]; simpl; [tauto|]. intros Hin.
  destruct (N.eqb_spec y r) as [->|Hyr]; [reflexivity|].
  simpl. f_equal. apply IH. destruct Hin; congruence.
Qed.

Lemma mem_in r q : mem r q = true <-> In r q.
Proof.
  induction q as [|y q IH]; simpl; [split; [discriminate|tauto]|].
  rewrite orb_true_iff, IH, N.eqb_eq. tauto.
Qed.

Lemma nodup_snoc (a : list N) r : NoDup a -> ~ In r a -> NoDup (a ++ [r]).
Proof.
  induction a as [|y a IH]; simpl; intros Hnd Hn; [constructor; [tauto|constructor]|].
  inversion Hnd as [|? ? Hy Ha]; subst. constructor.
  - rewrite in_app_iff. simpl. intros [?|[?|[]]]; [contradiction|subst; tauto].
  - apply IH; tauto.
Qed.

Lemma filter_same (f g : N -> bool) l : (forall x, In x l -> g x = f x) -> filter g l = filter f l.
Proof. intros H. apply filter_ext_in. exact H. Qed.

Lemma filter_del (f g : N -> bool) r l :
  NoDup l -> f r = true -> g r = false -> (forall x, x <> r -> g x = f x) ->
  filter g l = rem1 r (filter f l).
Proof.
  intros Hnd Hf Hg Hx. induction l as [|y l IH]; [reflexivity|].
  inversion Hnd as [|? ? Hy Hl]; subst. simpl.
  destruct (N.eqb_spec y r) as [->|Hyr].
  - rewrite Hf, Hg, rem1_head. apply filter_same. intros x Hin. apply Hx. intros ->; contradiction.
  - rewrite (Hx y Hyr). destruct (f y); [|now apply IH].
    simpl. destruct (N.eqb_spec y r); [contradiction|]. f_equal. now apply IH.
Qed.

Lemma filter_add_len (f g : N -> bool) r l :
  NoDup l -> In r l -> f r = false -> g r = true -> (forall x, x <> r -> g x = f x) ->
  length (filter g l) = S (length (filter f l)).
Proof.
  intros Hnd Hin Hf Hg Hx.
  rewrite (filter_del g f r l Hnd Hg Hf) by (intros; symmetry; now apply Hx).
  apply length_rem1. apply filter_In. now split.
Qed.

Lemma filter_len_le (f g : N -> bool) l :
  (forall x, f x = true -> g x = true) -> (length (filter f l) <= length (filter g l))%nat.
Proof.
  intros H. induction l as [|y l IH]; simpl; [lia|].
  destruct (f y) eqn:Hf; [rewrite (H _ Hf); simpl; lia|destruct (g y); simpl; lia].
Qed.

Lemma filter_nil_all (f : N -> bool) l : filter f l = [] -> forall x, In x l -> f x = false.
Proof.
  induction l as [|y l IH]; simpl; [tauto|]. destruct (f y) eqn:Hf; [discriminate|].
  intros H x [->|Hin]; [assumption|now apply IH].
Qed.

Lemma filter_all_nil (f : N -> bool) l : (forall x, In x l -> f x = false) -> filter f l = [].
Proof.
  induction l as [|y l IH]; simpl; intros H; [reflexivity|].
  rewrite (H y (or_introl eq_refl)). apply IH. intros; apply H; now right.
Qed.

(* ---------- selections ---------- *)
Lemma upd_eq {A} (f : N -> A) r v : upd f r v r = v.
Proof. unfold upd. now rewrite N.eqb_refl. Qed.
Lemma upd_neq {A} (f : N -> A) r v x : x <> r -> upd f r v x = f x.
Proof. unfold upd. intros H. destruct (N.eqb_spec x r); [contradiction|reflexivity]. Qed.

(* the requests of path k whose status satisfies P, in arrival order *)
Definition selK (P : status -> bool) (kf : N -> N) (s : N -> status) (a : list N) (k : N) : list N :=
  filter (fun x => N.eqb (kf x) k && P (s x)) a.

Lemma selK_same P kf s a k r v : P v = P (s r) -> selK P kf (upd s r v) a k = selK P kf s a k.
Proof.
  intros H. apply filter_same. intros x _. unfold upd.
  destruct (N.eqb_spec x r) as [->|]; [now rewrite H|reflexivity].
Qed.

Lemma selK_other P kf s a k r v : kf r <> k -> selK P kf (upd s r v) a k = selK P kf s a k.
Proof.
  intros H. apply filter_same. intros x _. unfold upd.
  destruct (N.eqb_spec x r) as [->|]; [|reflexivity].
  destruct (N.eqb_spec (kf r) k); [contradiction|reflexivity].
Qed.

Lemma selK_del P kf s a r v : NoDup a -> P (s r) = true -> P v = false ->
  selK P kf (upd s r v) a (kf r) = rem1 r (selK P kf s a (kf r)).
Proof.
  intros Hnd H1 H2. apply filter_del; [assumption| | |].
  - now rewrite N.eqb_refl, H1.
  - now rewrite upd_eq, H2, andb_false_r.
  - intros x Hx. now rewrite upd_neq.
Qed.

Lemma selK_add_len P kf s a r v : NoDup a -> In r a -> P (s r) = false -> P v = true ->
  length (selK P kf (upd s r v) a (kf r)) = S (length (selK P kf s a (kf r))).
Proof.
  intros Hnd Hin H1 H2. apply (filter_add_len _ _ r); [assumption|assumption| | |].
  - now rewrite H1, andb_false_r.
  - now rewrite upd_eq, H2, N.eqb_refl.
  - intros x Hx. now rewrite upd_neq.
Qed.

Lemma selK_in P kf s a k x : In x (selK P kf s a k) <-> In x a /\ kf x = k /\ P (s x) = true.
Proof. unfold selK. rewrite filter_In, andb_true_iff, N.eqb_eq. tauto. Qed.

Lemma selK_arrive P kf s a r k v k' : ~ In r a ->
  selK P (upd kf r k) (upd s r v) (a ++ [r]) k' =
  selK P kf s a k' ++ (if N.eqb k k' && P v then [r] else []).
Proof.
  intros Hn. unfold selK. rewrite filter_app. f_equal.
  - apply filter_same. intros x Hx. assert (x <> r) by (intros ->; contradiction).
    now rewrite !upd_neq.
  - simpl. now rewrite !upd_eq.
Qed.

(* ---------- the invariant ---------- *)
Definition holds_ep (s : status) : bool :=
  match s with
  | EpGranted | CancelG | RelEp _ | HasEp | TotWait | TotGranted | InFlight | RelTot => true
  | _ => false
  end.
Definition waits_ep (s : status) : bool := match s with EpWait | CancelQ => true | _ => false end.
Definition holds_tot (s : status) : bool := match s with TotGranted | InFlight | RelTot => true | _ => false end.
Definition is_inflight (s : status) : bool := match s with InFlight => true | _ => false end.

Definition tab_of (c : nat) (q : list N) : option (Z * list N) :=
  match c with O => None | _ => Some (Z.of_nat c, q) end.
Definition k0 : N -> N := fun _ => 0%N.

Definition InvA (s : N -> status) (a : list N) : Prop :=
  NoDup a /\ forall r, In r a <-> s r <> NotYet.

Definition InvE (epl : Z) (tb : N -> option (Z * list N)) (kf : N -> N) (s : N -> status) (a : list N) : Prop :=
  1 <= epl /\ forall k,
    tb k = tab_of (length (selK holds_ep kf s a k)) (selK waits_ep kf s a k) /\
    Z.of_nat (length (selK holds_ep kf s a k)) <= epl /\
    (selK waits_ep kf s a k <> [] -> Z.of_nat (length (selK holds_ep kf s a k)) = epl).

Definition InvT (tot hd : Z) (q : list N) (s : N -> status) (a : list N) : Prop :=
  1 <= tot /\ hd = Z.of_nat (length (selK holds_tot k0 s a 0%N)) /\ hd <= tot /\
  (forall r, In r q <-> s r = TotWait) /\ NoDup q /\ (q <> [] -> hd = tot).

Definition Inv (l : lim) : Prop :=
  InvA (st l) (arr l) /\ InvE (eplimit l) (tab l) (keyof l) (st l) (arr l) /\
  InvT (total l) (held l) (semq l) (st l) (arr l).

Lemma waits_not_holds s : waits_ep s = true -> holds_ep s = false.
Proof. destruct s; simpl; congruence. Qed.

(* --- InvA --- *)
Lemma A_neutral s a r v : InvA s a -> s r <> NotYet -> v <> NotYet -> InvA (upd s r v) a.
Proof.
  intros [Hnd Hin] Hs Hv. split; [assumption|]. intros x. unfold upd.
  destruct (N.eqb_spec x r) as [->|]; [|apply Hin]. rewrite Hin. tauto.
Qed.

Lemma A_arrive s a r v : InvA s a -> s r = NotYet -> v <> NotYet -> InvA (upd s r v) (a ++ [r]).
Proof.
  intros [Hnd Hin] Hs Hv.
  assert (Hn : ~ In r a) by (rewrite Hin; tauto).
  split.
  - now apply nodup_snoc.
  - intros x. rewrite in_app_iff. simpl. unfold upd.
    destruct (N.eqb_spec x r) as [->|Hx]; [tauto|]. rewrite Hin. split; [intros [?|[?|[]]]; congruence|tauto].
Qed.

(* --- InvE --- *)
Lemma E_neutral epl tb kf s a r v : InvE epl tb kf s a ->
  holds_ep v = holds_ep (s r) -> waits_ep v = waits_ep (s r) -> InvE epl tb kf (upd s r v) a.
Proof.
  intros [He H] H1 H2. split; [assumption|]. intros k.
  rewrite (selK_same holds_ep), (selK_same waits_ep) by assumption. apply H.
Qed.

Lemma tab_of_some c q cnt q' : tab_of c q = Some (cnt, q') -> cnt = Z.of_nat c /\ q' = q /\ (1 <= c)%nat.
Proof. destruct c; simpl; [discriminate|]. intros H; inversion H; subst. repeat split; lia. Qed.

Lemma tab_of_none c q : tab_of c q = None -> c = O.
Proof. destruct c; simpl; [reflexivity|discriminate]. Qed.

(* a queued request withdraws (cancelEndpoint found its own channel) *)
Lemma E_withdraw epl tb kf s a r v cnt q : InvE epl tb kf s a -> NoDup a ->
  waits_ep (s r) = true -> holds_ep v = false -> waits_ep v = false ->
  tb (kf r) = Some (cnt, q) ->
  InvE epl (upd tb (kf r) (Some (cnt, rem1 r q))) kf (upd s r v) a.
Proof.
  intros [He H] Hnd Hw Hv1 Hv2 Htb. split; [assumption|]. intros k.
  pose proof (waits_not_holds _ Hw) as Hh.
  rewrite (selK_same holds_ep) by congruence.
  destruct (N.eqb_spec k (kf r)) as [->|Hk].
  - rewrite upd_eq. destruct (H (kf r)) as (Ht & Hc & Hf). rewrite Htb in Ht.
    symmetry in Ht. apply tab_of_some in Ht. destruct Ht as (-> & -> & Hc1).
    rewrite (selK_del waits_ep) by assumption.
    repeat split.
    + destruct (length (selK holds_ep kf s a (kf r))); [lia|reflexivity].
    + assumption.
    + intros Hne. apply Hf. intros Hnil. rewrite Hnil in Hne. now apply Hne.
  - rewrite upd_neq by assumption. rewrite (selK_other waits_ep) by congruence. apply H.
Qed.

(* releaseEndpoint with an empty queue: the counter goes down, the entry disappears at 0 *)
Lemma E_release_dec epl tb kf s a r v cnt : InvE epl tb kf s a -> NoDup a -> In r a ->
  holds_ep (s r) = true -> holds_ep v = false -> waits_ep v = false ->
  tb (kf r) = Some (cnt, []) ->
  InvE epl (upd tb (kf r) (if cnt - 1 =? 0 then None else Some (cnt - 1, []))) kf (upd s r v) a.
Proof.
  intros [He H] Hnd Hin Hh Hv1 Hv2 Htb. split; [assumption|]. intros k.
  assert (Hw : waits_ep (s r) = false) by (destruct (s r); simpl in *; congruence).
  rewrite (selK_same waits_ep) by congruence.
  destruct (N.eqb_spec k (kf r)) as [->|Hk].
  - rewrite upd_eq. destruct (H (kf r)) as (Ht & Hc & Hf). rewrite Htb in Ht.
    symmetry in Ht. apply tab_of_some in Ht. destruct Ht as (-> & Hq & Hc1).
    pose proof (selK_add_len holds_ep kf (upd s r v) a r (s r) Hnd Hin) as Hlen.
    rewrite upd_eq in Hlen. specialize (Hlen Hv1 Hh).
    assert (Hback : selK holds_ep kf (upd (upd s r v) r (s r)) a (kf r) = selK holds_ep kf s a (kf r)).
    { apply filter_same. intros x _. unfold upd. destruct (N.eqb_spec x r) as [->|]; reflexivity. }
    rewrite Hback in Hlen. rewrite <- Hq. rewrite Hlen in *.
    set (n := length (selK holds_ep kf (upd s r v) a (kf r))) in *.
    repeat split.
    + destruct (Z.eqb_spec (Z.of_nat (S n) - 1) 0) as [E|E].
      * assert (n = O) by lia. subst n. now rewrite H0.
      * destruct n; [lia|]. simpl tab_of. do 2 f_equal. lia.
    + lia.
    + intros Hne. now exfalso.
  - rewrite upd_neq by assumption. rewrite (selK_other holds_ep) by congruence. apply H.
Qed.

(* releaseEndpoint with a non-empty queue: the head's channel is closed, the slot passes to it *)
Lemma E_release_pop epl tb kf s a r v cnt w rest : InvE epl tb kf s a -> NoDup a -> In r a ->
  holds_ep (s r) = true -> holds_ep v = false -> waits_ep v = false ->
  tb (kf r) = Some (cnt, w :: rest) ->
  InvE epl (upd tb (kf r) (Some (cnt, rest))) kf (upd (upd s w (grant_ep (s w))) r v) a /\
  In w a /\ kf w = kf r /\ waits_ep (s w) = true /\ w <> r.
Proof.
  intros [He H] Hnd Hin Hh Hv1 Hv2 Htb.
  destruct (H (kf r)) as (Ht & Hc & Hf). rewrite Htb in Ht.
  symmetry in Ht. apply tab_of_some in Ht. destruct Ht as (-> & Hq & Hc1).
  assert (Hw : In w (selK waits_ep kf s a (kf r))) by (rewrite <- Hq; now left).
  apply selK_in in Hw. destruct Hw as (Hwa & Hwk & Hww).
  assert (Hwr : w <> r) by (intros ->; rewrite (waits_not_holds _ Hww) in Hh; discriminate).
  assert (Hgw : holds_ep (grant_ep (s w)) = true /\ waits_ep (grant_ep (s w)) = false)
    by (destruct (s w); simpl in *; try discriminate; split; reflexivity).
  destruct Hgw as [Hg1 Hg2].
  split; [|repeat split; assumption].
  split; [assumption|]. intros k.
  set (s1 := upd s w (grant_ep (s w))).
  assert (Hs1r : s1 r = s r) by (unfold s1; apply upd_neq; congruence).
  assert (Hrw : waits_ep (s r) = false) by (destruct (s r); simpl in *; congruence).
  destruct (N.eqb_spec k (kf r)) as [->|Hk].
  - rewrite upd_eq.
    (* holders: w in, r out *)
    pose proof (selK_add_len holds_ep kf s a w (grant_ep (s w)) Hnd Hwa (waits_not_holds _ Hww) Hg1) as L1.
    fold s1 in L1. rewrite Hwk in L1.
    pose proof (selK_add_len holds_ep kf (upd s1 r v) a r (s1 r) Hnd Hin) as L2.
    rewrite upd_eq in L2. rewrite Hs1r in L2. specialize (L2 Hv1 Hh).
    assert (Hback : selK holds_ep kf (upd (upd s1 r v) r (s r)) a (kf r) = selK holds_ep kf s1 a (kf r)).
    { apply filter_same. intros x _. unfold upd at 1 2. destruct (N.eqb_spec x r) as [->|]; [now rewrite Hs1r|reflexivity]. }
    rewrite Hback in L2.
    (* waiters: w out *)
    assert (W1 : selK waits_ep kf (upd s1 r v) a (kf r) = rest).
    { rewrite (selK_same waits_ep) by (rewrite Hs1r; congruence).
      unfold s1. rewrite <- Hwk. rewrite (selK_del waits_ep) by assumption.
      rewrite Hwk, <- Hq. apply rem1_head. }
    rewrite W1.
    assert (Hlen : length (selK holds_ep kf (upd s1 r v) a (kf r)) = length (selK holds_ep kf s a (kf r))) by lia.
    rewrite Hlen. repeat split.
    + destruct (length (selK holds_ep kf s a (kf r))); [lia|reflexivity].
    + assumption.
    + intros _. apply Hf. rewrite <- Hq. discriminate.
  - rewrite upd_neq by assumption.
    rewrite (selK_other holds_ep kf s1), (selK_other waits_ep kf s1) by congruence.
    unfold s1. rewrite (selK_other holds_ep), (selK_other waits_ep) by congruence. apply H.
Qed.

(* Arrive *)
Lemma E_arrive epl tb kf s a r k : InvE epl tb kf s a -> ~ In r a ->
  InvE epl
    (match tb k with
     | Some (cnt, q) => if cnt <? epl then upd tb k (Some (cnt + 1, q)) else upd tb k (Some (cnt, q ++ [r]))
     | None => upd tb k (Some (1, []))
     end)
    (upd kf r k)
    (upd s r (match tb k with Some (cnt, _) => if cnt <? epl then EpGranted else EpWait | None => EpGranted end))
    (a ++ [r]).
Proof.
  intros [He H] Hn. split; [assumption|]. intros k'.
  rewrite !selK_arrive by assumption.
  destruct (H k) as (Ht & Hc & Hf).
  destruct (N.eqb_spec k k') as [<-|Hk].
  - simpl andb.
    destruct (tb k) as [[cnt q]|] eqn:Htb.
    + symmetry in Ht. apply tab_of_some in Ht. destruct Ht as (-> & -> & Hc1).
      destruct (Z.ltb_spec (Z.of_nat (length (selK holds_ep kf s a k))) epl) as [Hlt|Hge].
      * rewrite upd_eq. simpl. rewrite !app_nil_r, app_length. simpl.
        repeat split.
        -- rewrite Nat.add_1_r. simpl tab_of. do 2 f_equal. lia.
        -- lia.
        -- intros Hne. specialize (Hf Hne). lia.
      * rewrite upd_eq. simpl. rewrite app_nil_r.
        repeat split.
        -- destruct (length (selK holds_ep kf s a k)); [lia|reflexivity].
        -- assumption.
        -- intros _. lia.
    + symmetry in Ht. apply tab_of_none in Ht.
      rewrite upd_eq. simpl. rewrite app_length, Ht. simpl.
      assert (Hwn : selK waits_ep kf s a k = []).
      { destruct (selK waits_ep kf s a k) eqn:E; [reflexivity|]. rewrite Ht in Hf. simpl in Hf.
        assert (0 = epl) by (apply Hf; discriminate). lia. }
      rewrite Hwn. simpl. repeat split; [lia|]. intros Hne. now exfalso.
  - simpl andb. rewrite !app_nil_r.
    destruct (tb k) as [[cnt q]|]; [destruct (cnt <? epl)|]; rewrite upd_neq by congruence; apply H.
Qed.

(* --- InvT --- *)
Lemma T_neutral tot hd q s a r v : InvT tot hd q s a ->
  holds_tot v = holds_tot (s r) -> (v = TotWait <-> s r = TotWait) -> InvT tot hd q (upd s r v) a.
Proof.
  intros (Ht & Hh & Hc & Hq & Hnd & Hf) H1 H2. unfold InvT.
  rewrite (selK_same holds_tot) by assumption. repeat split; try assumption.
  - intros Hx. unfold upd. destruct (N.eqb_spec r0 r) as [->|]; [apply H2|]; now apply Hq.
  - unfold upd. destruct (N.eqb_spec r0 r) as [->|]; [rewrite H2|]; apply Hq.
Qed.

Lemma T_acquire tot hd s a r : InvT tot hd [] s a -> NoDup a -> In r a ->
  holds_tot (s r) = false -> s r <> TotWait -> hd < tot ->
  InvT tot (hd + 1) [] (upd s r InFlight) a.
Proof.
  intros (Ht & Hh & Hc & Hq & Hnd & Hf) Hna Hin H1 H2 Hlt. unfold InvT.
  pose proof (selK_add_len holds_tot k0 s a r InFlight Hna Hin H1 eq_refl) as L. unfold k0 at 2 4 in L.
  rewrite L. repeat split; try assumption; try lia.
  - intros [].
  - unfold upd. destruct (N.eqb_spec r0 r) as [->|]; [discriminate|]. intros Hx. now apply Hq in Hx.
  - intros Hne. now exfalso.
Qed.

Lemma T_enqueue tot hd q s a r : InvT tot hd q s a ->
  holds_tot (s r) = false -> s r <> TotWait -> ~ (hd < tot /\ q = []) ->
  InvT tot hd (q ++ [r]) (upd s r TotWait) a.
Proof.
  intros (Ht & Hh & Hc & Hq & Hnd & Hf) H1 H2 Hno. unfold InvT.
  rewrite (selK_same holds_tot) by (rewrite H1; reflexivity).
  repeat split; try assumption.
  - rewrite in_app_iff. simpl. unfold upd. destruct (N.eqb_spec r0 r) as [->|Hx]; [reflexivity|].
    intros [Hi|[Hi|[]]]; [now apply Hq|congruence].
  - rewrite in_app_iff. simpl. unfold upd. destruct (N.eqb_spec r0 r) as [->|Hx]; [tauto|].
    intros Hi. left. now apply Hq.
  - apply nodup_snoc; [assumption|]. intros Hi. apply Hq in Hi. contradiction.
  - intros _. destruct q as [|x q']; [|apply Hf; discriminate].
    assert (~ hd < tot) by (intro; apply Hno; split; [assumption|reflexivity]). lia.
Qed.

Lemma T_dequeue tot hd q s a r v : InvT tot hd q s a ->
  s r = TotWait -> holds_tot v = false -> v <> TotWait ->
  InvT tot hd (rem1 r q) (upd s r v) a /\ hd = tot.
Proof.
  intros (Ht & Hh & Hc & Hq & Hnd & Hf) H1 H2 H3.
  assert (Hin : In r q) by now apply Hq.
  assert (Hfull : hd = tot) by (apply Hf; intros ->; contradiction).
  split; [|assumption]. unfold InvT.
  rewrite (selK_same holds_tot) by (rewrite H1; assumption).
  repeat split; try assumption.
  - rewrite in_rem1 by assumption. intros [Hx Hi]. rewrite upd_neq by assumption. now apply Hq.
  - rewrite in_rem1 by assumption. unfold upd. destruct (N.eqb_spec r0 r) as [->|Hx]; [contradiction|].
    intros Hi. split; [assumption|now apply Hq].
  - now apply nodup_rem1.
  - intros _. exact Hfull.
Qed.

Lemma notify_full tot hd q s : tot <= hd -> notify_loop tot hd q s = (hd, q, s).
Proof.
  intros H. destruct q; simpl; [reflexivity|]. destruct (Z.ltb_spec (tot - hd) 1); [reflexivity|lia].
Qed.

(* Weighted.Release(1) by a holder r, which then continues with status v *)
Lemma T_release tot hd q s a r v : InvT tot hd q s a -> InvA s a ->
  holds_tot (s r) = true -> holds_tot v = false -> v <> TotWait ->
  match q with
  | [] => notify_loop tot (hd - 1) q s = (hd - 1, [], s) /\ InvT tot (hd - 1) [] (upd s r v) a
  | w :: rest => notify_loop tot (hd - 1) q s = (hd, rest, upd s w TotGranted) /\ s w = TotWait /\ w <> r /\
                 InvT tot hd rest (upd (upd s w TotGranted) r v) a
  end.
Proof.
  intros (Ht & Hh & Hc & Hq & Hnd & Hf) [Hna Hina] H1 H2 H3.
  assert (Hin : In r a) by (apply Hina; destruct (s r); simpl in *; congruence).
  assert (Hback : forall s0, s0 r = s r -> selK holds_tot k0 (upd (upd s0 r v) r (s r)) a 0%N = selK holds_tot k0 s0 a 0%N).
  { intros s0 E. apply filter_same. intros x _. unfold upd. destruct (N.eqb_spec x r) as [->|]; [now rewrite E|reflexivity]. }
  destruct q as [|w rest].
  - split; [reflexivity|]. unfold InvT.
    pose proof (selK_add_len holds_tot k0 (upd s r v) a r (s r) Hna Hin) as L. unfold k0 at 2 4 in L.
    rewrite upd_eq in L. specialize (L H2 H1). rewrite (Hback s eq_refl) in L.
    repeat split; try assumption; try lia.
    + intros [].
    + unfold upd. destruct (N.eqb_spec r0 r) as [->|]; [contradiction|]. intros Hx. now apply Hq in Hx.
    + intros Hne. now exfalso.
  - assert (Hfull : hd = tot) by (apply Hf; discriminate).
    assert (Hw : s w = TotWait) by (apply Hq; now left).
    assert (Hwr : w <> r) by (intros ->; rewrite Hw in H1; discriminate).
    assert (Hwa : In w a) by (apply Hina; rewrite Hw; discriminate).
    apply NoDup_cons_iff in Hnd. destruct Hnd as [Hwn Hrest].
    split; [|split; [assumption|split; [assumption|]]].
    + simpl. destruct (Z.ltb_spec (tot - (hd - 1)) 1); [lia|].
      rewrite Hw. simpl. replace (hd - 1 + 1) with hd by lia. apply notify_full. lia.
    + unfold InvT. set (s1 := upd s w TotGranted).
      assert (Hs1r : s1 r = s r) by (unfold s1; apply upd_neq; congruence).
      pose proof (selK_add_len holds_tot k0 s a w TotGranted Hna Hwa) as L1. unfold k0 at 2 4 in L1.
      rewrite Hw in L1. specialize (L1 eq_refl eq_refl). fold s1 in L1.
      pose proof (selK_add_len holds_tot k0 (upd s1 r v) a r (s r) Hna Hin) as L2. unfold k0 at 2 4 in L2.
      rewrite upd_eq in L2. specialize (L2 H2 H1). rewrite (Hback s1 Hs1r) in L2.
      repeat split; try assumption; try lia.
      * intros Hx. unfold upd at 1. destruct (N.eqb_spec r0 r) as [->|Hr].
        -- exfalso. assert (s r = TotWait) by (apply Hq; now right). rewrite H in H1. discriminate.
        -- unfold s1. rewrite upd_neq by (intros ->; contradiction). apply Hq. now right.
      * unfold upd at 1. destruct (N.eqb_spec r0 r) as [->|Hr]; [contradiction|].
        unfold s1, upd. destruct (N.eqb_spec r0 w) as [->|Hr0w]; [discriminate|].
        intros Hx. apply Hq in Hx. destruct Hx; [congruence|assumption].
Qed.

Lemma T_arrive tot hd q s a r v : InvT tot hd q s a -> ~ In r a -> s r = NotYet ->
  holds_tot v = false -> v <> TotWait -> InvT tot hd q (upd s r v) (a ++ [r]).
Proof.
  intros (Ht & Hh & Hc & Hq & Hnd & Hf) Hn Hs H1 H2. unfold InvT.
  assert (E : selK holds_tot k0 (upd s r v) (a ++ [r]) 0%N = selK holds_tot k0 s a 0%N).
  { unfold selK. rewrite filter_app. simpl. rewrite upd_eq, H1. simpl. rewrite app_nil_r.
    apply filter_same. intros x Hx. rewrite upd_neq by (intros ->; contradiction). reflexivity. }
  rewrite E. repeat split; try assumption.
  - intros Hx. unfold upd. destruct (N.eqb_spec r0 r) as [->|]; [|now apply Hq].
    apply Hq in Hx. rewrite Hs in Hx. discriminate.
  - unfold upd. destruct (N.eqb_spec r0 r) as [->|]; [contradiction|apply Hq].
Qed.

(* ---------- entries of the table ---------- *)
Lemma E_entry_queue epl tb kf s a k cnt q : InvE epl tb kf s a -> tb k = Some (cnt, q) ->
  q = selK waits_ep kf s a k /\ cnt = Z.of_nat (length (selK holds_ep kf s a k)) /\ 1 <= cnt <= epl.
Proof.
  intros [He H] Htb. destruct (H k) as (Ht & Hc & Hf). rewrite Htb in Ht. symmetry in Ht.
  apply tab_of_some in Ht. destruct Ht as (-> & -> & Hc1). repeat split; try lia.
Qed.

Lemma E_holder_entry epl tb kf s a r : InvE epl tb kf s a -> In r a -> holds_ep (s r) = true ->
  exists cnt q, tb (kf r) = Some (cnt, q) /\ ~ In r q.
Proof.
  intros HE Hin Hh. destruct HE as [He H]. destruct (H (kf r)) as (Ht & Hc & Hf).
  assert (Hr : In r (selK holds_ep kf s a (kf r))) by (apply selK_in; tauto).
  destruct (length (selK holds_ep kf s a (kf r))) eqn:E.
  - apply length_zero_iff_nil in E. rewrite E in Hr. destruct Hr.
  - simpl in Ht. eexists _, _. split; [exact Ht|]. rewrite selK_in. intros (_ & _ & Hw).
    rewrite (waits_not_holds _ Hw) in Hh. discriminate.
Qed.

Lemma E_waiter_entry epl tb kf s a r : InvE epl tb kf s a -> In r a -> waits_ep (s r) = true ->
  exists cnt q, tb (kf r) = Some (cnt, q) /\ In r q.
Proof.
  intros HE Hin Hw. destruct HE as [He H]. destruct (H (kf r)) as (Ht & Hc & Hf).
  assert (Hr : In r (selK waits_ep kf s a (kf r))) by (apply selK_in; tauto).
  assert (Hne : selK waits_ep kf s a (kf r) <> []) by (intros E; rewrite E in Hr; destruct Hr).
  specialize (Hf Hne).
  destruct (length (selK holds_ep kf s a (kf r))) eqn:E; [simpl in Hf; lia|].
  simpl in Ht. eexists _, _. split; [exact Ht|assumption].
Qed.

(* ---------- every action preserves the invariant ---------- *)
Lemma norm_pos x : 1 <= norm x.
Proof. unfold norm, max_int64. destruct (Z.leb_spec x 0); lia. Qed.

Lemma Inv_new tot epl : Inv (new_lim tot epl).
Proof.
  unfold Inv, new_lim; simpl. split; [|split].
  - split; [constructor|]. intros r. simpl. tauto.
  - split; [apply norm_pos|]. intros k. simpl. repeat split; try (pose proof (norm_pos epl); lia).
    intros Hne. now exfalso.
  - unfold InvT. simpl. repeat split; try (pose proof (norm_pos tot); lia); try constructor.
    + discriminate. + intros Hne. now exfalso.
Qed.

Lemma in_arr l r : Inv l -> st l r <> NotYet -> In r (arr l).
Proof. intros ((_ & H) & _) Hs. now apply H. Qed.

Lemma Inv_neutral l r v : Inv l -> st l r <> NotYet -> v <> NotYet ->
  holds_ep v = holds_ep (st l r) -> waits_ep v = waits_ep (st l r) ->
  holds_tot v = holds_tot (st l r) -> (v = TotWait <-> st l r = TotWait) -> Inv (set_st l r v).
Proof.
  intros (HA & HE & HT) H1 H2 H3 H4 H5 H6. unfold Inv; simpl. split; [|split].
  - now apply A_neutral.
  - now apply E_neutral.
  - now apply T_neutral.
Qed.

Lemma holds_tot_ep s : holds_tot s = true -> holds_ep s = true /\ waits_ep s = false /\ s <> NotYet /\ s <> TotWait.
Proof. destruct s; simpl; intros; try discriminate; repeat split; congruence. Qed.

Lemma Inv_release l r e : Inv l -> holds_tot (st l r) = true -> Inv (set_st (sem_release l) r (RelEp e)).
Proof.
  intros (HA & HE & HT) Hh.
  destruct (holds_tot_ep _ Hh) as (Hhe & Hwe & Hny & Htw).
  pose proof (T_release _ _ _ _ _ r (RelEp e) HT HA Hh eq_refl) as HR.
  assert (Hd : RelEp e <> TotWait) by discriminate. specialize (HR Hd).
  unfold set_st, sem_release, notify, Inv. simpl.
  destruct (semq l) as [|w rest] eqn:Hq.
  - destruct HR as [Hn HT']. rewrite Hn. simpl. split; [|split].
    + apply A_neutral; [assumption|assumption|discriminate].
    + apply E_neutral; [assumption|now rewrite Hhe|now rewrite Hwe].
    + assumption.
  - destruct HR as (Hn & Hw & Hwr & HT'). rewrite Hn. simpl.
    assert (Hs1r : upd (st l) w TotGranted r = st l r) by (apply upd_neq; congruence).
    split; [|split].
    + apply A_neutral; [apply A_neutral; [assumption|rewrite Hw; discriminate|discriminate]|rewrite Hs1r; assumption|discriminate].
    + apply E_neutral; [apply E_neutral; [assumption|now rewrite Hw|now rewrite Hw]|rewrite Hs1r; now rewrite Hhe|rewrite Hs1r; now rewrite Hwe].
    + assumption.
Qed.

Ltac neutral Hs := apply Inv_neutral; [assumption|rewrite Hs; discriminate|discriminate|
  rewrite Hs; reflexivity|rewrite Hs; reflexivity|rewrite Hs; reflexivity|rewrite Hs; split; discriminate].

Lemma step_inv l a : Inv l -> Inv (step l a).
Proof.
  intros HI. pose proof HI as (HA & HE & HT).
  destruct a as [r k|r|r|r|r|r|r|r|r|r|r]; unfold step, step_gen.
  - (* Arrive *)
    destruct (st l r) eqn:Hs; try exact HI.
    assert (Hn : ~ In r (arr l)) by (destruct HA as [_ H]; rewrite H; tauto).
    pose proof (E_arrive _ _ _ _ _ r k HE Hn) as HE'.
    simpl. destruct (tab l k) as [[cnt q]|] eqn:Htb; [destruct (cnt <? eplimit l) eqn:Hlt|];
      unfold Inv, set_st; simpl; (split; [|split]);
      try (apply A_arrive; [assumption|assumption|discriminate]);
      try exact HE';
      try (apply T_arrive; [assumption|assumption|assumption|reflexivity|discriminate]).
  - (* Cancel *) exact HI.
  - (* Finish *) destruct (st l r) eqn:Hs; try exact HI. neutral Hs.
  - (* SeeGrant *) destruct (st l r) eqn:Hs; try exact HI. neutral Hs.
  - (* SeeCancel *)
    destruct (cancelled l r); [|exact HI]. destruct (st l r) eqn:Hs; try exact HI; neutral Hs.
  - (* CancelSec *)
    destruct (st l r) eqn:Hs; try exact HI.
    + (* CancelQ *)
      assert (Hin : In r (arr l)) by (apply in_arr; [assumption|rewrite Hs; discriminate]).
      destruct (E_waiter_entry _ _ _ _ _ r HE Hin) as (cnt & q & Htb & Hq); [now rewrite Hs|].
      rewrite Htb. apply mem_in in Hq. rewrite Hq.
      unfold Inv, set_st; simpl. split; [|split].
      * apply A_neutral; [assumption|rewrite Hs; discriminate|discriminate].
      * apply E_withdraw; try assumption; [apply HA|now rewrite Hs|reflexivity|reflexivity].
      * apply T_neutral; [assumption|now rewrite Hs|rewrite Hs; split; discriminate].
    + (* CancelG *)
      assert (Hin : In r (arr l)) by (apply in_arr; [assumption|rewrite Hs; discriminate]).
      destruct (E_holder_entry _ _ _ _ _ r HE Hin) as (cnt & q & Htb & Hq); [now rewrite Hs|].
      rewrite Htb. destruct (mem r q) eqn:Hm; [apply mem_in in Hm; contradiction|].
      neutral Hs.
  - (* ReleaseEp *)
    destruct (st l r) eqn:Hs; try exact HI.
    assert (Hin : In r (arr l)) by (apply in_arr; [assumption|rewrite Hs; discriminate]).
    destruct (E_holder_entry _ _ _ _ _ r HE Hin) as (cnt & q & Htb & Hq); [now rewrite Hs|].
    unfold release_ep. rewrite Htb. destruct q as [|w rest].
    + pose proof (E_release_dec _ _ _ _ _ r (Done e) cnt HE (proj1 HA) Hin) as HE'.
      rewrite Hs in HE'. specialize (HE' eq_refl eq_refl eq_refl Htb).
      destruct (cnt - 1 =? 0); unfold Inv, set_st; simpl; (split; [|split]);
        try (apply A_neutral; [assumption|rewrite Hs; discriminate|discriminate]);
        try exact HE';
        try (apply T_neutral; [assumption|now rewrite Hs|rewrite Hs; split; discriminate]).
    + pose proof (E_release_pop _ _ _ _ _ r (Done e) cnt w rest HE (proj1 HA) Hin) as HE'.
      rewrite Hs in HE'. specialize (HE' eq_refl eq_refl eq_refl Htb).
      destruct HE' as (HE' & Hwa & Hwk & Hww & Hwr).
      assert (Hs1r : upd (st l) w (grant_ep (st l w)) r = st l r) by (apply upd_neq; congruence).
      assert (Hg : grant_ep (st l w) <> NotYet /\ holds_tot (grant_ep (st l w)) = holds_tot (st l w) /\
                   (grant_ep (st l w) = TotWait <-> st l w = TotWait) /\ st l w <> NotYet)
        by (destruct (st l w); simpl in *; try discriminate; repeat split; discriminate).
      destruct Hg as (Hg1 & Hg2 & Hg3 & Hg4).
      unfold Inv, set_st; simpl. split; [|split].
      * apply A_neutral; [apply A_neutral; assumption|rewrite Hs1r, Hs; discriminate|discriminate].
      * exact HE'.
      * apply T_neutral; [apply T_neutral; assumption|now rewrite Hs1r, Hs|rewrite Hs1r, Hs; split; discriminate].
  - (* AcquireTot *)
    destruct (st l r) eqn:Hs; try exact HI.
    assert (Hin : In r (arr l)) by (apply in_arr; [assumption|rewrite Hs; discriminate]).
    destruct (cancelled l r); [neutral Hs|].
    destruct ((total l - held l >=? 1) && match semq l with [] => true | _ :: _ => false end) eqn:C.
    + apply andb_true_iff in C. destruct C as [C1 C2]. rewrite Z.geb_leb in C1. apply Z.leb_le in C1.
      destruct (semq l) eqn:Hq; [|discriminate].
      unfold Inv, set_st; simpl. split; [|split].
      * apply A_neutral; [assumption|rewrite Hs; discriminate|discriminate].
      * apply E_neutral; [assumption|now rewrite Hs|now rewrite Hs].
      * apply T_acquire; try assumption; [apply HA|now rewrite Hs|rewrite Hs; discriminate|lia].
    + unfold Inv, set_st; simpl. split; [|split].
      * apply A_neutral; [assumption|rewrite Hs; discriminate|discriminate].
      * apply E_neutral; [assumption|now rewrite Hs|now rewrite Hs].
      * apply T_enqueue; [assumption|now rewrite Hs|rewrite Hs; discriminate|].
        intros [H1 H2]. rewrite H2 in C. rewrite andb_true_r in C. rewrite Z.geb_leb in C.
        apply Z.leb_gt in C. lia.
  - (* TotSeeCancel *)
    destruct (cancelled l r); [|exact HI]. destruct (st l r) eqn:Hs; try exact HI.
    + (* TotWait *)
      destruct (T_dequeue _ _ _ _ _ r (RelEp ErrTotal) HT Hs eq_refl) as [HT' Hfull]; [discriminate|].
      replace (held l <? total l) with false by (symmetry; apply Z.ltb_ge; lia).
      rewrite andb_false_r. unfold Inv, set_st; simpl. split; [|split].
      * apply A_neutral; [assumption|rewrite Hs; discriminate|discriminate].
      * apply E_neutral; [assumption|now rewrite Hs|now rewrite Hs].
      * assumption.
    + (* TotGranted *) apply Inv_release; [assumption|now rewrite Hs].
  - (* TotSeeReady *)
    destruct (st l r) eqn:Hs; try exact HI. destruct (cancelled l r).
    + apply Inv_release; [assumption|now rewrite Hs].
    + neutral Hs.
  - (* ReleaseTot *)
    destruct (st l r) eqn:Hs; try exact HI. apply Inv_release; [assumption|now rewrite Hs].
Qed.

Lemma run_inv l tr : Inv l -> Inv (run l tr).
Proof.
  revert l. induction tr as [|a tr IH]; intros l H; [exact H|]. simpl. apply IH. now apply step_inv.
Qed.

Lemma reach_inv tot epl tr : Inv (run (new_lim tot epl) tr).
Proof. apply run_inv, Inv_new. Qed.

(* ---------- the limits are constants of a run ---------- *)
Lemma notify_consts l : eplimit (notify l) = eplimit l /\ total (notify l) = total l /\
  keyof (notify l) = keyof l /\ arr (notify l) = arr l /\ tab (notify l) = tab l /\ cancelled (notify l) = cancelled l.
Proof. unfold notify. destruct (notify_loop _ _ _ _) as [[h q] s]. simpl. repeat split. Qed.

Lemma sem_release_consts l : eplimit (sem_release l) = eplimit l /\ total (sem_release l) = total l /\
  keyof (sem_release l) = keyof l /\ arr (sem_release l) = arr l /\ tab (sem_release l) = tab l.
Proof. unfold sem_release. destruct (notify_consts (with_sem l (held l - 1) (semq l))) as (A & B & C & D & E & _). now rewrite A, B, C, D, E. Qed.

Lemma release_ep_consts l k : eplimit (release_ep l k) = eplimit l /\ total (release_ep l k) = total l.
Proof. unfold release_ep. destruct (tab l k) as [[c [|w q]]|]; [destruct (c - 1 =? 0)| |]; simpl; split; reflexivity. Qed.

Lemma step_consts l a : eplimit (step l a) = eplimit l /\ total (step l a) = total l.
Proof.
  destruct a as [r k|r|r|r|r|r|r|r|r|r|r]; unfold step, step_gen, sem_release, notify, release_ep, set_st, with_st, with_tab, with_sem;
    repeat match goal with
    | |- context [match ?x with _ => _ end] => destruct x eqn:?
    | |- context [if ?x then _ else _] => destruct x eqn:?
    end; simpl; split; reflexivity.
Qed.

Lemma run_consts l tr : eplimit (run l tr) = eplimit l /\ total (run l tr) = total l.
Proof.
  revert l. induction tr as [|a tr IH]; intros l; [split; reflexivity|]. simpl.
  destruct (IH (step l a)) as [A B]. destruct (step_consts l a) as [C D]. rewrite A, B, C, D. split; reflexivity.
Qed.

Lemma norm_id x : 0 < x -> norm x = x.
Proof. unfold norm. destruct (Z.leb_spec x 0); lia. Qed.

(* ---------- clause 1 and 2: the limits ---------- *)
Lemma count_sub (f : N -> bool) (rs a : list N) : NoDup rs -> (forall x, f x = true -> In x a) ->
  (length (filter f rs) <= length (filter f a))%nat.
Proof.
  intros Hnd Hin. apply NoDup_incl_length; [now apply NoDup_filter|].
  intros x Hx. apply filter_In in Hx. apply filter_In. split; [apply Hin|]; tauto.
Qed.

Definition in_flight_on (l : lim) (k : N) (r : N) : bool := N.eqb (keyof l r) k && is_inflight (st l r).
Definition in_flight (l : lim) (r : N) : bool := is_inflight (st l r).

Lemma endpoint_limit limit epl tr k rs : 0 < epl -> NoDup rs ->
  count_where (in_flight_on (run (new_lim limit epl) tr) k) rs <= epl.
Proof.
  intros Hpos Hnd. set (l := run (new_lim limit epl) tr).
  destruct (reach_inv limit epl tr) as (HA & HE & HT). fold l in HA, HE, HT.
  assert (Hl : eplimit l = epl) by (unfold l; rewrite (proj1 (run_consts _ _)); simpl; now apply norm_id).
  destruct HE as [_ HE]. destruct (HE k) as (_ & Hc & _). rewrite Hl in Hc.
  unfold count_where.
  assert (L1 : (length (filter (in_flight_on l k) rs) <= length (filter (in_flight_on l k) (arr l)))%nat).
  { apply count_sub; [assumption|]. intros x Hx. apply HA. unfold in_flight_on in Hx.
    apply andb_true_iff in Hx. destruct Hx as [_ Hx]. destruct (st l x); simpl in Hx; discriminate. }
  assert (L2 : (length (filter (in_flight_on l k) (arr l)) <= length (selK holds_ep (keyof l) (st l) (arr l) k))%nat).
  { apply filter_len_le. intros x Hx. unfold in_flight_on in Hx. apply andb_true_iff in Hx. destruct Hx as [H1 H2].
    rewrite H1. destruct (st l x); simpl in *; congruence. }
  lia.
Qed.

Lemma total_limit limit epl tr rs : 0 < limit -> NoDup rs ->
  count_where (in_flight (run (new_lim limit epl) tr)) rs <= limit.
Proof.
  intros Hpos Hnd. set (l := run (new_lim limit epl) tr).
  destruct (reach_inv limit epl tr) as (HA & HE & HT). fold l in HA, HE, HT.
  assert (Hl : total l = limit) by (unfold l; rewrite (proj2 (run_consts _ _)); simpl; now apply norm_id).
  destruct HT as (_ & Hh & Hc & _). rewrite Hl in Hc.
  unfold count_where.
  assert (L1 : (length (filter (in_flight l) rs) <= length (filter (in_flight l) (arr l)))%nat).
  { apply count_sub; [assumption|]. intros x Hx. apply HA. unfold in_flight in Hx.
    destruct (st l x); simpl in Hx; discriminate. }
  assert (L2 : (length (filter (in_flight l) (arr l)) <= length (selK holds_tot k0 (st l) (arr l) 0%N))%nat).
  { apply filter_len_le. intros x Hx. unfold in_flight in Hx. unfold k0. simpl.
    destruct (st l x); simpl in *; congruence. }
  lia.
Qed.

(* ---------- clause 3: arrival order ---------- *)
Lemma notify_loop_st tot hd q s x : s x <> TotWait -> snd (notify_loop tot hd q s) x = s x.
Proof.
  revert hd s. induction q as [|w q IH]; intros hd s Hx; simpl; [reflexivity|].
  destruct (tot - hd <? 1); [reflexivity|]. rewrite IH.
  - unfold upd. destruct (N.eqb_spec x w) as [->|]; [|reflexivity]. destruct (s w); simpl; congruence.
  - unfold upd. destruct (N.eqb_spec x w) as [->|]; [|assumption]. destruct (s w); simpl; congruence.
Qed.

Lemma notify_st l x : st l x <> TotWait -> st (notify l) x = st l x.
Proof.
  intros H. unfold notify. pose proof (notify_loop_st (total l) (held l) (semq l) (st l) x H) as E.
  destruct (notify_loop _ _ _ _) as [[h q] s]. simpl in *. exact E.
Qed.

Lemma sem_release_st l x : st l x <> TotWait -> st (sem_release l) x = st l x.
Proof. intros H. unfold sem_release. now rewrite notify_st. Qed.

Lemma waits_not_totwait s : waits_ep s = true -> s <> TotWait.
Proof. destruct s; simpl; congruence. Qed.

Ltac nf H := unfold set_st, with_st, with_tab, with_sem in H; cbn [st] in H.
Ltac fin Hs H1 H2 Hupd :=
  refine (Hupd _ _ _ _ _ H2);
  [ let E := fresh "E" in intros E; first [reflexivity | (rewrite <- E in H1; rewrite Hs in H1; discriminate)]
  | first [reflexivity | (apply sem_release_st; assumption) | (rewrite notify_st; [reflexivity|assumption])] ].

(* the only action that turns a waiting request into a slot owner is releaseEndpoint popping it
   from the head of its path's queue *)
Lemma grant_only_by_pop l a w : Inv l -> waits_ep (st l w) = true -> holds_ep (st (step l a) w) = true ->
  exists r e cnt rest, a = ReleaseEp r /\ st l r = RelEp e /\ tab l (keyof l r) = Some (cnt, w :: rest).
Proof.
  intros HI H1 H2. pose proof (waits_not_holds _ H1) as H3. pose proof (waits_not_totwait _ H1) as H4.
  assert (Hupd : forall s r v, (r = w -> holds_ep v = false) -> s w = st l w -> holds_ep (upd s r v w) = true -> False).
  { intros s r v Hv Hs Hh. unfold upd in Hh. destruct (N.eqb_spec w r) as [->|]; [rewrite Hv in Hh by reflexivity; discriminate|].
    rewrite Hs, H3 in Hh. discriminate. }
  destruct a as [r k|r|r|r|r|r|r|r|r|r|r]; unfold step, step_gen in H2.
  - exfalso. destruct (st l r) eqn:Hs; try (rewrite H3 in H2; discriminate).
    cbv zeta in H2. cbn [tab eplimit] in H2.
    destruct (tab l k) as [[c q]|]; [destruct (c <? eplimit l)|]; nf H2; fin Hs H1 H2 Hupd.
  - exfalso. nf H2. rewrite H3 in H2. discriminate.
  - exfalso. destruct (st l r) eqn:Hs; try (rewrite H3 in H2; discriminate). nf H2; fin Hs H1 H2 Hupd.
  - exfalso. destruct (st l r) eqn:Hs; try (rewrite H3 in H2; discriminate). nf H2; fin Hs H1 H2 Hupd.
  - exfalso. destruct (cancelled l r); [|rewrite H3 in H2; discriminate].
    destruct (st l r) eqn:Hs; try (rewrite H3 in H2; discriminate); nf H2; fin Hs H1 H2 Hupd.
  - exfalso. destruct (st l r) eqn:Hs; try (rewrite H3 in H2; discriminate).
    + destruct HI as (HA & HE & _).
      assert (Hin : In r (arr l)) by (apply HA; rewrite Hs; discriminate).
      destruct (E_waiter_entry _ _ _ _ _ r HE Hin) as (cnt & q & Htb & Hq); [now rewrite Hs|].
      rewrite Htb in H2. apply mem_in in Hq. rewrite Hq in H2. nf H2; fin Hs H1 H2 Hupd.
    + destruct (tab l (keyof l r)) as [[c q]|]; [destruct (mem r q)|]; nf H2; fin Hs H1 H2 Hupd.
  - destruct (st l r) eqn:Hs; try (rewrite H3 in H2; discriminate).
    unfold release_ep in H2. destruct (tab l (keyof l r)) as [[c [|w' rest]]|] eqn:Htb.
    + exfalso. destruct (c - 1 =? 0); nf H2; fin Hs H1 H2 Hupd.
    + nf H2. unfold upd at 1 in H2. destruct (N.eqb_spec w r) as [->|Hwr]; [discriminate|].
      unfold upd in H2. destruct (N.eqb_spec w w') as [->|Hww]; [|rewrite H3 in H2; discriminate].
      exists r, e, c, rest. repeat split; assumption.
    + exfalso. nf H2; fin Hs H1 H2 Hupd.
  - exfalso. destruct (st l r) eqn:Hs; try (rewrite H3 in H2; discriminate).
    destruct (cancelled l r); [nf H2; fin Hs H1 H2 Hupd|].
    destruct (_ && _); nf H2; fin Hs H1 H2 Hupd.
  - exfalso. destruct (cancelled l r); [|rewrite H3 in H2; discriminate].
    destruct (st l r) eqn:Hs; try (rewrite H3 in H2; discriminate).
    + destruct (_ && (held l <? total l)); nf H2; fin Hs H1 H2 Hupd.
    + nf H2; fin Hs H1 H2 Hupd.
  - exfalso. destruct (st l r) eqn:Hs; try (rewrite H3 in H2; discriminate).
    destruct (cancelled l r); nf H2; fin Hs H1 H2 Hupd.
  - exfalso. destruct (st l r) eqn:Hs; try (rewrite H3 in H2; discriminate). nf H2; fin Hs H1 H2 Hupd.
Qed.

Lemma arrival_order limit epl tr a w :
  let l := run (new_lim limit epl) tr in
  waits_ep (st l w) = true -> holds_ep (st (step l a) w) = true ->
  forall pre post, arr l = pre ++ w :: post ->
  forall r', In r' pre -> keyof l r' = keyof l w -> waits_ep (st l r') = false.
Proof.
  intros l H1 H2 pre post Harr r' Hr' Hk.
  pose proof (reach_inv limit epl tr) as HI. fold l in HI.
  destruct (grant_only_by_pop l a w HI H1 H2) as (r & e & cnt & rest & -> & Hs & Htb).
  destruct HI as (HA & HE & _).
  destruct (E_entry_queue _ _ _ _ _ _ _ _ HE Htb) as (Hq & _ & _).
  assert (Hwk : keyof l w = keyof l r).
  { assert (Hw : In w (selK waits_ep (keyof l) (st l) (arr l) (keyof l r))) by (rewrite <- Hq; now left).
    apply selK_in in Hw. tauto. }
  unfold selK in Hq. rewrite Harr, filter_app in Hq. simpl in Hq.
  rewrite Hwk, N.eqb_refl, H1 in Hq. simpl in Hq.
  destruct (filter (fun x => N.eqb (keyof l x) (keyof l r) && waits_ep (st l x)) pre) as [|y ys] eqn:Hpre.
  - pose proof (filter_nil_all _ _ Hpre r' Hr') as Hf. simpl in Hf.
    rewrite Hk, Hwk, N.eqb_refl in Hf. exact Hf.
  - exfalso. simpl in Hq. inversion Hq; subst y.
    assert (Hwpre : In w pre).
    { assert (Hin : In w (filter (fun x => N.eqb (keyof l x) (keyof l r) && waits_ep (st l x)) pre)) by (rewrite Hpre; now left).
      apply filter_In in Hin. tauto. }
    destruct HA as [Hnd _]. rewrite Harr in Hnd. apply NoDup_remove_2 in Hnd. apply Hnd.
    apply in_or_app. now left.
Qed.

(* ---------- clause 4: a cancelled waiter that owns no slot ---------- *)
Lemma cancel_sees limit epl tr r :
  let l := run (new_lim limit epl) tr in
  st l r = EpWait -> cancelled l r = true ->
  let l' := step l (SeeCancel r) in
  st l' r = CancelQ /\ (forall x, x <> r -> st l' x = st l x) /\ tab l' = tab l /\ held l' = held l /\ semq l' = semq l.
Proof.
  intros l Hs Hc. unfold step, step_gen. rewrite Hc, Hs. simpl. repeat split.
  - apply upd_eq.
  - intros x Hx. now apply upd_neq.
Qed.

Lemma cancel_withdraws limit epl tr r :
  let l := run (new_lim limit epl) tr in
  st l r = CancelQ ->
  let l' := step l (CancelSec r) in
  st l' r = Done ErrEp /\ (forall x, x <> r -> st l' x = st l x) /\
  (forall k, k <> keyof l r -> tab l' k = tab l k) /\
  (exists cnt q, tab l (keyof l r) = Some (cnt, q) /\ In r q /\ tab l' (keyof l r) = Some (cnt, rem1 r q)) /\
  held l' = held l /\ semq l' = semq l.
Proof.
  intros l Hs. pose proof (reach_inv limit epl tr) as HI. fold l in HI. destruct HI as (HA & HE & _).
  assert (Hin : In r (arr l)) by (apply HA; rewrite Hs; discriminate).
  destruct (E_waiter_entry _ _ _ _ _ r HE Hin) as (cnt & q & Htb & Hq); [now rewrite Hs|].
  unfold step, step_gen. rewrite Hs, Htb. pose proof Hq as Hm. apply mem_in in Hm. rewrite Hm. simpl.
  repeat split.
  - apply upd_eq.
  - intros x Hx. now apply upd_neq.
  - intros k Hk. now apply upd_neq.
  - exists cnt, q. repeat split; [assumption|apply upd_eq].
Qed.

(* ---------- clause 5/6: idle after all calls returned ---------- *)
Definition all_done (l : lim) : Prop := forall r, In r (arr l) -> exists e, st l r = Done e.

Lemma idle limit epl tr :
  let l := run (new_lim limit epl) tr in
  all_done l -> (forall k, tab l k = None) /\ held l = 0 /\ semq l = [].
Proof.
  intros l Hd. pose proof (reach_inv limit epl tr) as HI. fold l in HI. destruct HI as (HA & HE & HT).
  assert (Hnone : forall P k0' k, (forall e, P (Done e) = false) -> selK P k0' (st l) (arr l) k = []).
  { intros P kf k HP. apply filter_all_nil. intros x Hx. destruct (Hd x Hx) as [e ->]. now rewrite HP, andb_false_r. }
  repeat split.
  - intros k. destruct HE as [_ HE]. destruct (HE k) as (Ht & _). rewrite Ht.
    now rewrite (Hnone holds_ep) by reflexivity.
  - destruct HT as (_ & Hh & _). rewrite Hh. now rewrite (Hnone holds_tot) by reflexivity.
  - destruct HT as (_ & _ & _ & Hq & _). destruct (semq l) as [|x q] eqn:E; [reflexivity|].
    exfalso. assert (Hx : st l x = TotWait) by (apply Hq; now left).
    assert (Hin : In x (arr l)) by (apply HA; rewrite Hx; discriminate).
    destruct (Hd x Hin) as [e He]. congruence.
Qed.

Lemma idle_admits limit epl tr r k :
  let l := run (new_lim limit epl) tr in
  all_done l -> st l r = NotYet -> cancelled l r = false ->
  st (run l [Arrive r k; SeeGrant r; AcquireTot r]) r = InFlight.
Proof.
  intros l Hd Hs Hc. destruct (idle limit epl tr Hd) as (Htab & Hheld & Hsemq). fold l in Htab, Hheld, Hsemq.
  pose proof (reach_inv limit epl tr) as HI. fold l in HI. destruct HI as (_ & _ & (Htot & _)).
  change (run l [Arrive r k; SeeGrant r; AcquireTot r])
    with (step (step (step l (Arrive r k)) (SeeGrant r)) (AcquireTot r)).
  set (l1 := step l (Arrive r k)).
  assert (H1 : st l1 r = EpGranted /\ cancelled l1 r = false /\ held l1 = 0 /\ semq l1 = [] /\ total l1 = total l).
  { unfold l1, step, step_gen. rewrite Hs. cbv zeta. cbn [tab]. rewrite (Htab k). simpl.
    rewrite upd_eq. repeat split; assumption. }
  destruct H1 as (A1 & A2 & A3 & A4 & A5).
  set (l2 := step l1 (SeeGrant r)).
  assert (H2 : st l2 r = HasEp /\ cancelled l2 r = false /\ held l2 = 0 /\ semq l2 = [] /\ total l2 = total l).
  { unfold l2, step, step_gen. rewrite A1. simpl. rewrite upd_eq. repeat split; assumption. }
  destruct H2 as (B1 & B2 & B3 & B4 & B5).
  unfold step, step_gen. rewrite B1, B2, B3, B4, B5.
  replace (total l - 0 >=? 1) with true by (symmetry; rewrite Z.geb_leb; apply Z.leb_le; lia).
  simpl. apply upd_eq.
Qed.

(* ---------- no lost wake-up: when every goroutine is at rest, whoever waits is waiting for a
   request that is inside the wrapped function ---------- *)
Lemma at_rest_progress limit epl tr :
  let l := run (new_lim limit epl) tr in
  quiescent l = true ->
  (exists r, In r (arr l) /\ (st l r = EpWait \/ st l r = TotWait)) ->
  exists r', In r' (arr l) /\ st l r' = InFlight.
Proof.
  intros l Hq (r & Hin & Hw).
  pose proof (reach_inv limit epl tr) as HI. fold l in HI. destruct HI as (HA & HE & HT).
  (* at rest: every status of an arrived request is EpWait, TotWait, InFlight or Done *)
  assert (Hrest : forall x, In x (arr l) -> internal l x = None).
  { unfold quiescent in Hq. revert Hq. generalize (arr l). induction l0 as [|y ys IH]; simpl; [tauto|].
    destruct (internal l y) eqn:E; [discriminate|]. intros Hq x [->|Hx]; [assumption|now apply IH]. }
  assert (Htw : (exists x, In x (arr l) /\ st l x = TotWait) -> exists r', In r' (arr l) /\ st l r' = InFlight).
  { intros (x & Hx & Hsx).
    destruct HT as (Ht & Hh & Hc & Hsq & Hnd & Hf).
    assert (Hne : semq l <> []) by (intros E; assert (Hi : In x (semq l)) by (now apply Hsq); rewrite E in Hi; destruct Hi).
    specialize (Hf Hne).
    destruct (selK holds_tot k0 (st l) (arr l) 0%N) as [|y ys] eqn:E; [simpl in Hh; lia|].
    assert (Hy : In y (selK holds_tot k0 (st l) (arr l) 0%N)) by (rewrite E; now left).
    apply selK_in in Hy. destruct Hy as (Hya & _ & Hyh).
    exists y. split; [assumption|]. pose proof (Hrest y Hya) as Hi. unfold internal in Hi.
    destruct (st l y); simpl in Hyh; try discriminate; try reflexivity; destruct (cancelled l y); discriminate. }
  destruct Hw as [Hw|Hw]; [|apply Htw; eauto].
  destruct HE as [He HE]. destruct (HE (keyof l r)) as (_ & _ & Hf).
  assert (Hne : selK waits_ep (keyof l) (st l) (arr l) (keyof l r) <> []).
  { intros E. assert (Hi : In r (selK waits_ep (keyof l) (st l) (arr l) (keyof l r))) by (apply selK_in; rewrite Hw; tauto).
    rewrite E in Hi. destruct Hi. }
  specialize (Hf Hne).
  destruct (selK holds_ep (keyof l) (st l) (arr l) (keyof l r)) as [|y ys] eqn:E; [simpl in Hf; lia|].
  assert (Hy : In y (selK holds_ep (keyof l) (st l) (arr l) (keyof l r))) by (rewrite E; now left).
  apply selK_in in Hy. destruct Hy as (Hya & _ & Hyh).
  pose proof (Hrest y Hya) as Hi. unfold internal in Hi.
  destruct (st l y) eqn:Hsy; simpl in Hyh; try discriminate; try (destruct (cancelled l y); discriminate).
  - apply Htw. eauto.
  - eauto.
Qed.

(* ---------- F10: the code before the repair ---------- *)
Lemma endpoint_limit_refuted_pre :
  exists tr, let l := fold_left step_pre tr (new_lim 0 1) in
    count_where (in_flight_on l 0%N) (arr l) > eplimit l.
Proof.
  exists [Arrive 0 0; SeeGrant 0; AcquireTot 0; Arrive 1 0; Arrive 2 0; Cancel 2; SeeCancel 2; ReleaseEp 2;
          SeeGrant 1; AcquireTot 1]%N.
  vm_compute. reflexivity.
Qed.

(* the scheduler used by the correspondence only performs actions of the model *)
Lemma settle_is_run fuel l : exists tr, settle fuel l = run l tr.
Proof.
  revert l. induction fuel as [|f IH]; intros l; [exists []; reflexivity|].
  simpl. unfold settle in *. simpl. destruct (first_enabled l (arr l)) as [a|]; [|exists []; reflexivity].
  destruct (IH (step_gen true l a)) as [tr Htr]. exists (a :: tr). exact Htr.
Qed.

(* ---------- delayed goroutines (the harness parks a cancelled waiter between the select of
   acquireEndpoint and cancelEndpoint) ---------- *)
Lemma unheld_nil rs : unheld [] rs = rs.
Proof. unfold unheld. induction rs as [|x rs IH]; simpl; [reflexivity|f_equal; exact IH]. Qed.

Lemma settle_hold_nil fuel l : settle_hold fuel [] l = settle fuel l.
Proof.
  revert l. unfold settle_hold, settle. induction fuel as [|f IH]; intros l; [reflexivity|].
  simpl. rewrite unheld_nil. destruct (first_enabled l (arr l)); [apply IH|reflexivity].
Qed.

(* with some goroutines held back the scheduler still only performs actions of the model ... *)
Lemma settle_hold_is_run fuel hold l : exists tr, settle_hold fuel hold l = run l tr.
Proof.
  revert l. induction fuel as [|f IH]; intros l; [exists []; reflexivity|].
  unfold settle_hold in *. simpl. destruct (first_enabled l (unheld hold (arr l))) as [a|]; [|exists []; reflexivity].
  destruct (IH (step_gen true l a)) as [tr Htr]. exists (a :: tr). exact Htr.
Qed.

(* ... and none of a held goroutine *)
Definition actor (a : act) : N :=
  match a with
  | Arrive r _ | Cancel r | Finish r | SeeGrant r | SeeCancel r | CancelSec r | ReleaseEp r
  | AcquireTot r | TotSeeCancel r | TotSeeReady r | ReleaseTot r => r
  end.
Lemma internal_actor l r a : internal l r = Some a -> actor a = r.
Proof.
  unfold internal. destruct (st l r); try discriminate; try (destruct (cancelled l r); try discriminate);
    intros H; injection H as <-; reflexivity.
Qed.
Lemma first_enabled_actor l rs a : first_enabled l rs = Some a -> In (actor a) rs.
Proof.
  induction rs as [|x rs IH]; simpl; [discriminate|].
  destruct (internal l x) eqn:E.
  - intros H; injection H as <-. left. symmetry. now apply internal_actor with (l := l).
  - intros H. right. now apply IH.
Qed.
Lemma settle_hold_skips fuel hold l :
  exists tr, settle_hold fuel hold l = run l tr /\ forall a, In a tr -> mem (actor a) hold = false.
Proof.
  revert l. induction fuel as [|f IH]; intros l; [exists []; split; [reflexivity|intros a []]|].
  unfold settle_hold in *. simpl. destruct (first_enabled l (unheld hold (arr l))) as [a|] eqn:E;
    [|exists []; split; [reflexivity|intros a []]].
  destruct (IH (step_gen true l a)) as (tr & Htr & Hno). exists (a :: tr). split; [exact Htr|].
  intros b [<-|Hb]; [|now apply Hno].
  apply first_enabled_actor in E. unfold unheld in E. apply filter_In in E. destruct E as [_ E].
  now apply negb_true_iff in E.
Qed.

(* ---------- clause 4, the delayed waiter.  cancelEndpoint concludes from "my channel is not in
   the queue" that the request was admitted in the meantime and releases a slot.  In every
   reachable state that conclusion is right: at the section of cancelEndpoint the channel is
   queued exactly when the request owns no slot ---------- *)
Lemma cancel_section_inference limit epl tr r :
  let l := run (new_lim limit epl) tr in
  st l r = CancelQ \/ st l r = CancelG ->
  exists cnt q, tab l (keyof l r) = Some (cnt, q) /\
    cnt = Z.of_nat (length (selK holds_ep (keyof l) (st l) (arr l) (keyof l r))) /\
    q = selK waits_ep (keyof l) (st l) (arr l) (keyof l r) /\
    (In r q <-> st l r = CancelQ) /\ (~ In r q <-> st l r = CancelG) /\
    (st l r = CancelG -> In r (selK holds_ep (keyof l) (st l) (arr l) (keyof l r))).
Proof.
  intros l Hs. pose proof (reach_inv limit epl tr) as HI. fold l in HI. destruct HI as (HA & HE & _).
  assert (Hin : In r (arr l)) by (apply HA; destruct Hs as [-> | ->]; discriminate).
  destruct Hs as [Hs|Hs].
  - destruct (E_waiter_entry _ _ _ _ _ r HE Hin) as (cnt & q & Htb & Hq); [now rewrite Hs|].
    destruct (E_entry_queue _ _ _ _ _ _ _ _ HE Htb) as (Eq & Ec & _).
    exists cnt, q. repeat split; try assumption; try tauto; try congruence.
  - destruct (E_holder_entry _ _ _ _ _ r HE Hin) as (cnt & q & Htb & Hq); [now rewrite Hs|].
    destruct (E_entry_queue _ _ _ _ _ _ _ _ HE Htb) as (Eq & Ec & _).
    exists cnt, q. repeat split; try assumption; try tauto; try congruence.
    intros _. apply selK_in. rewrite Hs. tauto.
Qed.

(* a cancelled waiter that was handed a slot while it was delayed: its cancelEndpoint section
   changes nothing but its own program counter, and the releaseEndpoint that follows passes on
   exactly that slot -- to the head of the queue if somebody waits (the slot count stays), else
   the count drops by one (entry deleted at 0); the accounting invariant holds afterwards *)
Lemma cancel_granted_passes_own_slot limit epl tr r :
  let l := run (new_lim limit epl) tr in
  st l r = CancelG ->
  let l1 := step l (CancelSec r) in
  let l2 := step l1 (ReleaseEp r) in
  let k := keyof l r in
  st l1 r = RelEp ErrEp /\ (forall x, x <> r -> st l1 x = st l x) /\ tab l1 = tab l /\
  held l1 = held l /\ semq l1 = semq l /\
  st l2 r = Done ErrEp /\ held l2 = held l /\ semq l2 = semq l /\
  (forall k', k' <> k -> tab l2 k' = tab l k') /\
  (exists cnt q, tab l k = Some (cnt, q) /\ 1 <= cnt /\ ~ In r q /\
     match q with
     | w :: rest => tab l2 k = Some (cnt, rest) /\ st l2 w = grant_ep (st l w) /\
                    (forall x, x <> r -> x <> w -> st l2 x = st l x)
     | [] => tab l2 k = (if cnt - 1 =? 0 then None else Some (cnt - 1, [])) /\
             (forall x, x <> r -> st l2 x = st l x)
     end) /\
  Inv l2.
Proof.
  intros l Hs l1 l2 k.
  pose proof (reach_inv limit epl tr) as HI. fold l in HI.
  destruct (cancel_section_inference limit epl tr r (or_intror Hs)) as (cnt & q & Htb & Hc & Hq & _ & Hnq & Hown).
  fold l in Htb, Hc, Hq, Hnq, Hown. fold k in Htb.
  assert (Hnin : ~ In r q) by (now apply Hnq).
  assert (Hm : mem r q = false).
  { destruct (mem r q) eqn:E; [|reflexivity]. apply mem_in in E. contradiction. }
  assert (E1 : l1 = set_st l r (RelEp ErrEp)).
  { unfold l1, step, step_gen. rewrite Hs. fold k. rewrite Htb, Hm. reflexivity. }
  assert (Hcnt : 1 <= cnt).
  { specialize (Hown Hs). destruct (selK holds_ep (keyof l) (st l) (arr l) (keyof l r)); [destruct Hown|].
    rewrite Hc. simpl length. lia. }
  assert (Hst1 : st l1 r = RelEp ErrEp) by (rewrite E1; simpl; apply upd_eq).
  assert (Hk1 : keyof l1 r = k) by (rewrite E1; reflexivity).
  assert (E2 : l2 = set_st (release_ep l1 k) r (Done ErrEp)).
  { unfold l2, step, step_gen. rewrite Hst1, Hk1. reflexivity. }
  assert (Htb1 : tab l1 k = Some (cnt, q)) by (rewrite E1; exact Htb).
  split; [exact Hst1|]. split; [intros x Hx; rewrite E1; simpl; now apply upd_neq|].
  split; [rewrite E1; reflexivity|]. split; [rewrite E1; reflexivity|]. split; [rewrite E1; reflexivity|].
  split; [rewrite E2; simpl; apply upd_eq|].
  assert (Hrel : release_ep l1 k =
     match q with
     | w :: rest => with_st (with_tab l1 (upd (tab l1) k (Some (cnt, rest)))) (upd (st l1) w (grant_ep (st l1 w)))
     | [] => if cnt - 1 =? 0 then with_tab l1 (upd (tab l1) k None) else with_tab l1 (upd (tab l1) k (Some (cnt - 1, [])))
     end).
  { unfold release_ep. rewrite Htb1. destruct q; reflexivity. }
  split; [rewrite E2, Hrel, E1; destruct q; [destruct (cnt - 1 =? 0)|]; reflexivity|].
  split; [rewrite E2, Hrel, E1; destruct q; [destruct (cnt - 1 =? 0)|]; reflexivity|].
  split.
  { intros k' Hk'. rewrite E2, Hrel, E1. destruct q; [destruct (cnt - 1 =? 0)|]; simpl; now apply upd_neq. }
  split.
  { exists cnt, q. split; [exact Htb|]. split; [exact Hcnt|]. split; [exact Hnin|].
    destruct q as [|w rest].
    - split.
      + rewrite E2, Hrel, E1. destruct (cnt - 1 =? 0); simpl; apply upd_eq.
      + intros x Hx. rewrite E2, Hrel, E1. destruct (cnt - 1 =? 0); simpl; now rewrite !upd_neq.
    - assert (Hwr : w <> r) by (intros ->; apply Hnin; now left).
      split; [rewrite E2, Hrel, E1; simpl; apply upd_eq|]. split.
      + rewrite E2, Hrel, E1. simpl. rewrite (upd_neq _ r _ w Hwr), upd_eq. now rewrite (upd_neq _ r _ w Hwr).
      + intros x Hx Hxw. rewrite E2, Hrel, E1. simpl. now rewrite !upd_neq. }
  unfold l2, l1. now repeat apply step_inv.
Qed.

(* ---------- why releaseEndpoint must hand the slot to the head of the queue even when that
   waiter's context is already done: the variant that skips such waiters (Model.step_skip; the
   rest of the code unchanged) breaks the endpoint limit.  Limit 1: request 0 in flight, 1 and 2
   queued, 1 is cancelled but its goroutine has not reacted yet, 0 finishes: 2 gets the slot;
   then 1 runs cancelEndpoint, does not find its channel, releases "its" slot: the entry is
   deleted while 2 is in flight, and request 3 is admitted next to it. ---------- *)
Lemma skip_cancelled_refuted :
  exists tr, let l := fold_left step_skip tr (new_lim 0 1) in
    count_where (in_flight_on l 0%N) (arr l) > eplimit l.
Proof.
  exists [Arrive 0 0; SeeGrant 0; AcquireTot 0; Arrive 1 0; Arrive 2 0; Cancel 1; Finish 0; ReleaseTot 0;
          ReleaseEp 0; SeeGrant 2; AcquireTot 2; SeeCancel 1; CancelSec 1; ReleaseEp 1;
          Arrive 3 0; SeeGrant 3; AcquireTot 3]%N.
  vm_compute. reflexivity.
Qed.
