(* Limiter/Spec.v -- property C16 written from its text only.

   "At every instant the number of client requests in flight on a connection is at most the
    configured total limit and, per target path, at most the per-endpoint limit, for every
    interleaving of arrivals, completions and context cancellations.  Requests waiting for the
    same path are admitted in arrival order, a cancelled waiter neither takes nor gives away a
    slot it does not own, and once all calls have returned the limiter is idle again so that a
    new request is admitted immediately."

   Part 1 speaks about a history as an outside observer sees it: after every event, what every
   request is doing and how many requests are inside the wrapped function per path.  It is
   executable and is what bin/check evaluates on the observations made on the Go code.
   Part 2 is the counting function with which Properties/C16.v states the clauses for every
   reachable state of the model. *)
From Coq Require Import ZArith NArith List Bool.
Import ListNotations.
Open Scope Z_scope.

(* ---------------- Part 1: observed histories ---------------- *)

(* what a request is doing *)
Definition sNotYet : N := 0.     (* Do not called *)
Definition sWaitEp : N := 1.     (* blocked, waiting for a slot of its path *)
Definition sWaitTot : N := 2.    (* blocked, waiting for the total limit *)
Definition sInFlight : N := 3.   (* inside the wrapped function *)
Definition sDoneOk : N := 4.     (* Do returned the wrapped function's result *)
Definition sDoneErrEp : N := 5.  (* Do returned the context error while waiting for its path *)
Definition sDoneErrTot : N := 6. (* Do returned the context error while waiting for the total limit *)
Definition sCancelling : N := 10. (* its context is cancelled and its goroutine has noticed that, but has
                                     not yet told the limiter (it is delayed); the call has not returned *)
(* anything else: panic, hang, unknown *)

Record obs := Ob {
  o_sts : list N;              (* per request id 0..n-1 *)
  o_keys : list (Z * Z * Z);   (* per path: (gauge inside the wrapped function, slot counter or -1 when
                                  the path has no table entry, number of queued waiters) *)
  o_sem : Z * Z                (* total limit: (units taken, waiters) *)
}.

Inductive ev :=
| EArr (r k : N)     (* request r for path k calls Do *)
| EArrC (r k : N)    (* the same with a context that is already cancelled *)
| ECan (r : N)       (* r's context is cancelled *)
| EFin (r : N)       (* the wrapped function of r returns *)
| ECanH (r : N)      (* r's context is cancelled and r notices it, but r's goroutine is then delayed
                        before it does anything about it *)
| ERes (r : N).      (* the delayed goroutine of r continues *)

Definition stat (o : obs) (r : N) : N := nth (N.to_nat r) (o_sts o) sNotYet.
Definition blocked (s : N) : bool := N.eqb s sWaitEp || N.eqb s sWaitTot.
Definition returned (s : N) : bool := N.leb sDoneOk s && N.leb s sDoneErrTot.
Definition cancelled_result (s : N) : bool := N.eqb s sDoneErrEp || N.eqb s sDoneErrTot.
Definition gauge (x : Z * Z * Z) : Z := fst (fst x).
Definition counter (x : Z * Z * Z) : Z := snd (fst x).
Definition qlen (x : Z * Z * Z) : Z := snd x.
Definition sumZ (l : list Z) : Z := fold_right Z.add 0 l.
Definition limited (lim : Z) : bool := 0 <? lim.   (* a limit <= 0 means "no limit" *)

(* number of requests of path k (by the arrival log [ar]) whose status satisfies p *)
Definition count_st (o : obs) (ar : list (N * N)) (k : N) (p : N -> bool) : Z :=
  Z.of_nat (length (filter (fun rk => N.eqb (snd rk) k && p (stat o (fst rk))) ar)).
Definition count_all (o : obs) (ar : list (N * N)) (p : N -> bool) : Z :=
  Z.of_nat (length (filter (fun rk => p (stat o (fst rk))) ar)).
Definition key_ids (o : obs) : list N := map N.of_nat (seq 0 (length (o_keys o))).

(* clause 1: per path at most the endpoint limit (gauge read inside the wrapped function, and
   the number of requests observed inside it) *)
Definition ep_limit_ok (epl : Z) (o : obs) (ar : list (N * N)) : bool :=
  negb (limited epl) ||
  (forallb (fun x => gauge x <=? epl) (o_keys o) &&
   forallb (fun k => count_st o ar k (N.eqb sInFlight) <=? epl) (key_ids o)).
(* clause 2: in total at most the total limit *)
Definition total_limit_ok (tot : Z) (o : obs) (ar : list (N * N)) : bool :=
  negb (limited tot) ||
  ((sumZ (map gauge (o_keys o)) <=? tot) && (count_all o ar (N.eqb sInFlight) <=? tot)).

(* clause 3: arrival order.  Between two consecutive observations no request enters the wrapped
   function while a request for the same path that arrived earlier keeps waiting. *)
Fixpoint fifo_ok (o o' : obs) (earlier : list (N * N)) (ar : list (N * N)) : bool :=
  match ar with
  | [] => true
  | (r2, k2) :: rest =>
      (negb (N.eqb (stat o' r2) sInFlight && negb (N.eqb (stat o r2) sInFlight))
       || negb (existsb (fun rk => N.eqb (snd rk) k2 && blocked (stat o (fst rk)) && blocked (stat o' (fst rk))) earlier))
      && fifo_ok o o' (earlier ++ [(r2, k2)]) rest
  end.

(* clause 4: cancellation of a request that is blocked.  It returns the context's error, nobody
   enters or leaves the wrapped function; if it was waiting for its path (it owns nothing),
   nothing else changes at all: every other request, every slot counter, the total semaphore. *)
Definition others_same (o o' : obs) (r : N) (ar : list (N * N)) : bool :=
  forallb (fun rk => N.eqb (fst rk) r || N.eqb (stat o (fst rk)) (stat o' (fst rk))) ar.
Definition inflight_same (o o' : obs) (ar : list (N * N)) : bool :=
  forallb (fun rk => Bool.eqb (N.eqb (stat o (fst rk)) sInFlight) (N.eqb (stat o' (fst rk)) sInFlight)) ar.
Definition zlist_eqb (a b : list Z) : bool :=
  (length a =? length b)%nat && forallb (fun p => fst p =? snd p) (combine a b).
Definition cancel_ok (o o' : obs) (r : N) (ar : list (N * N)) : bool :=
  if blocked (stat o r) then
    cancelled_result (stat o' r) && inflight_same o o' ar &&
    zlist_eqb (map gauge (o_keys o)) (map gauge (o_keys o')) &&
    (if N.eqb (stat o r) sWaitEp
     then others_same o o' r ar && zlist_eqb (map counter (o_keys o)) (map counter (o_keys o')) &&
          (fst (o_sem o) =? fst (o_sem o')) && (snd (o_sem o) =? snd (o_sem o'))
     else true)
  else true.

(* clause 4, delayed waiter.  Noticing the cancellation changes nothing for anybody else. *)
Definition cancel_hold_ok (o o' : obs) (r : N) (ar : list (N * N)) : bool :=
  if N.eqb (stat o r) sWaitEp then
    N.eqb (stat o' r) sCancelling && others_same o o' r ar &&
    zlist_eqb (map gauge (o_keys o)) (map gauge (o_keys o')) &&
    zlist_eqb (map counter (o_keys o)) (map counter (o_keys o')) &&
    (fst (o_sem o) =? fst (o_sem o')) && (snd (o_sem o) =? snd (o_sem o'))
  else true.
(* When the delayed goroutine continues, its call returns the context's error (it never enters
   the wrapped function: it takes no slot), nobody leaves the wrapped function, and the only change
   for the others is that at most ONE request that was waiting for the same path is admitted (the
   cancelled request passes on the one slot it may have been handed while it was delayed). *)
Definition admitted_now (o o' : obs) (x : N) : bool :=
  N.eqb (stat o x) sWaitEp && (N.eqb (stat o' x) sWaitTot || N.eqb (stat o' x) sInFlight).
Definition resume_ok (o o' : obs) (r : N) (ar : list (N * N)) : bool :=
  if N.eqb (stat o r) sCancelling then
    cancelled_result (stat o' r) &&
    forallb (fun rk => N.eqb (fst rk) r || N.eqb (stat o (fst rk)) (stat o' (fst rk)) || admitted_now o o' (fst rk)) ar &&
    (Z.of_nat (length (filter (fun rk => negb (N.eqb (fst rk) r) && admitted_now o o' (fst rk)) ar)) <=? 1)
  else true.

(* "neither takes nor gives away a slot it does not own", "never leak", as slot accounting at
   every instant: per path, the slots taken (the in-flight count of the endpoint queue, 0 when the
   path has no entry) cover every request that owns one (it waits for the total limit or is inside
   the wrapped function), and exceed them by at most the cancelled requests that are delayed (each
   of them may have been handed a slot that it has not passed on yet). *)
Definition slots_accounted_ok (o : obs) (ar : list (N * N)) : bool :=
  forallb (fun k =>
    let own := count_st o ar k (fun s => N.eqb s sWaitTot || N.eqb s sInFlight) in
    let cnt := Z.max 0 (counter (nth (N.to_nat k) (o_keys o) (0, -1, 0))) in
    (own <=? cnt) && (cnt <=? own + count_st o ar k (N.eqb sCancelling))) (key_ids o).

(* clause 5: once all calls have returned the limiter is idle *)
Definition all_returned (o : obs) (ar : list (N * N)) : bool :=
  forallb (fun rk => returned (stat o (fst rk))) ar.
Definition idle_obs (o : obs) : bool :=
  forallb (fun x => (gauge x =? 0) && (counter x =? -1) && (qlen x =? 0)) (o_keys o) &&
  (fst (o_sem o) =? 0) && (snd (o_sem o) =? 0).
Definition idle_ok (o : obs) (ar : list (N * N)) : bool :=
  negb (all_returned o ar) || idle_obs o.

(* clause 6: ... so that a new request is admitted immediately *)
Definition admitted_when_idle_ok (o o' : obs) (e : ev) (ar : list (N * N)) : bool :=
  match e with
  | EArr r _ => negb (all_returned o ar) || N.eqb (stat o' r) sInFlight
  | _ => true
  end.

(* "never leak", at every instant: nobody waits for a path that has a free slot, nobody waits for
   the total limit while a unit is free (a slot is owned by a request that waits for the total
   limit or is inside the wrapped function; a cancelled request that is delayed may have been
   handed one which it has not passed on yet) *)
Definition no_idle_slot_ok (epl tot : Z) (o : obs) (ar : list (N * N)) : bool :=
  forallb (fun k =>
    let own := count_st o ar k (fun s => N.eqb s sWaitTot || N.eqb s sInFlight) in
    (count_st o ar k (N.eqb sWaitEp) =? 0) ||
    (limited epl && (own <=? epl) && (epl <=? own + count_st o ar k (N.eqb sCancelling)))) (key_ids o) &&
  ((count_all o ar (N.eqb sWaitTot) =? 0) ||
   (limited tot && (count_all o ar (N.eqb sInFlight) =? tot))).

Definition sane (o : obs) : bool := forallb (fun s => N.leb s sDoneErrTot || N.eqb s sCancelling) (o_sts o).

Definition log_arrival (ar : list (N * N)) (e : ev) : list (N * N) :=
  match e with EArr r k | EArrC r k => ar ++ [(r, k)] | _ => ar end.

(* failure class of one step (0 = every clause holds) *)
Definition step_class (epl tot : Z) (o : obs) (e : ev) (o' : obs) (ar : list (N * N)) : N :=
  let ar' := log_arrival ar e in
  if negb (sane o') then 7%N
  else if negb (ep_limit_ok epl o' ar') then 1%N
  else if negb (total_limit_ok tot o' ar') then 2%N
  else if negb (fifo_ok o o' [] ar') then 3%N
  else if negb (match e with
                | ECan r => cancel_ok o o' r ar
                | ECanH r => cancel_hold_ok o o' r ar
                | ERes r => resume_ok o o' r ar
                | _ => true end) then 4%N
  else if negb (slots_accounted_ok o' ar') then (match e with ECan _ | ECanH _ | ERes _ => 4%N | _ => 9%N end)
  else if negb (idle_ok o' ar') then 5%N
  else if negb (admitted_when_idle_ok o o' e ar) then 6%N
  else if negb (no_idle_slot_ok epl tot o' ar') then 8%N
  else 0%N.

Fixpoint hist_class (epl tot : Z) (o : obs) (ar : list (N * N)) (h : list (ev * obs)) : N :=
  match h with
  | [] => 0%N
  | (e, o') :: h' =>
      let c := step_class epl tot o e o' ar in
      if N.eqb c 0 then hist_class epl tot o' (log_arrival ar e) h' else c
  end.

(* ---------------- Part 2: the clauses over a set of requests ---------------- *)
(* number of requests of the arrival log [rs] that satisfy p *)
Definition count_where (p : N -> bool) (rs : list N) : Z := Z.of_nat (length (filter p rs)).
