(* C07: proofs about the stream re-framing model (Stream/Model.v) against the
   property predicates of Stream/Spec.v. *)
From Coq Require Import ZArith List Bool Lia.
From GoCoap Require Import Base.Bytes Gen.StreamConsts Stream.Model Stream.Spec.
Import ListNotations.
Open Scope Z_scope.

Ltac Zify.zify_post_hook ::= Z.div_mod_to_equations.

Lemma blen_app {A} (a b : list A) : blen (a ++ b) = blen a + blen b.
Proof. unfold blen. rewrite app_length. lia. Qed.
Lemma blen_nonneg {A} (a : list A) : 0 <= blen a.
Proof. unfold blen. lia. Qed.
Lemma blen_cons {A} (x : A) (a : list A) : blen (x :: a) = 1 + blen a.
Proof. unfold blen. cbn [length]. lia. Qed.

Lemma firstn_app_l {A} (a b : list A) n : (n <= length a)%nat -> firstn n (a ++ b) = firstn n a.
Proof.
  intros H. rewrite firstn_app. replace (n - length a)%nat with 0%nat by lia.
  cbn [firstn]. apply app_nil_r.
Qed.
Lemma skipn_app_l {A} (a b : list A) n : (n <= length a)%nat -> skipn n (a ++ b) = skipn n a ++ b.
Proof.
  intros H. rewrite skipn_app. replace (n - length a)%nat with 0%nat by lia. reflexivity.
Qed.
Lemma firstn_exact {A} (a b : list A) : firstn (length a) (a ++ b) = a.
Proof. rewrite firstn_app_l by lia. apply firstn_all. Qed.
Lemma skipn_exact {A} (a b : list A) : skipn (length a) (a ++ b) = b.
Proof. rewrite skipn_app_l by lia. rewrite skipn_all. reflexivity. Qed.

(* ================================================================== *)
(* Part 1: the accumulate-then-parse loop, for any one-frame function  *)
(* whose decided answers are stable under extension of the buffer      *)

Section Loop.
  Variable stp : list Z -> sres.
  Hypothesis stp_emit_len : forall b it n, stp b = Emit it n -> (0 < n <= length b)%nat.
  Hypothesis stp_emit_stable : forall b it n c, stp b = Emit it n -> stp (b ++ c) = Emit it n.
  Hypothesis stp_fail_stable : forall b e c, stp b = Fail e -> stp (b ++ c) = Fail e.

  (* any fuel above the buffer length gives the same result: the fuel of [feed_with] never runs out *)
  Lemma drain_fuel : forall f1 f2 b acc, (length b < f1)%nat -> (length b < f2)%nat ->
    drain stp f1 b acc = drain stp f2 b acc.
  Proof.
    induction f1 as [|f1 IH]; intros f2 b acc H1 H2; [lia|].
    destruct f2 as [|f2]; [lia|]. cbn [drain].
    destruct (stp b) as [|e|it n] eqn:E; try reflexivity.
    apply stp_emit_len in E. apply IH; rewrite skipn_length; lia.
  Qed.

  Lemma drain_app : forall f b acc c, (length b < f)%nat ->
    drain stp (S (length (b ++ c))) (b ++ c) acc =
    (let r := drain stp f b acc in
     if running r then drain stp (S (length (buf r ++ c))) (buf r ++ c) (out r) else r).
  Proof.
    induction f as [|f IH]; intros b acc c Hf; [lia|].
    cbn [drain]. destruct (stp b) as [|e|it n] eqn:E.
    - reflexivity.
    - rewrite (stp_fail_stable _ _ c E). reflexivity.
    - rewrite (stp_emit_stable _ _ _ c E).
      pose proof (stp_emit_len _ _ _ E) as Hn.
      rewrite skipn_app_l by lia.
      rewrite (drain_fuel (length (b ++ c)) (S (length (skipn n b ++ c)))).
      + apply IH. rewrite skipn_length. lia.
      + rewrite !app_length, skipn_length. lia.
      + lia.
  Qed.

  Theorem feed_app : forall s a c, feed_with stp (feed_with stp s a) c = feed_with stp s (a ++ c).
  Proof.
    intros s a c. unfold feed_with at 2 3. destruct (running s) eqn:R.
    - rewrite app_assoc. unfold feed_with.
      symmetry. apply (drain_app (S (length (buf s ++ a)))). lia.
    - unfold feed_with. rewrite R. reflexivity.
  Qed.

  Lemma fold_feed : forall cs s c,
    fold_left (feed_with stp) cs (feed_with stp s c) = feed_with stp s (c ++ concat cs).
  Proof.
    induction cs as [|d cs IH]; intros s c; cbn [fold_left concat].
    - rewrite app_nil_r. reflexivity.
    - rewrite feed_app, IH, app_assoc. reflexivity.
  Qed.

  Hypothesis stp_nil : stp [] = Wait.

  Theorem segmentation : forall cs, fold_left (feed_with stp) cs init = feed_with stp init (concat cs).
  Proof.
    intros [|c cs]; cbn [fold_left concat].
    - unfold feed_with, init. cbn. rewrite stp_nil. reflexivity.
    - rewrite fold_feed. reflexivity.
  Qed.

  (* a failed connection stays as it is *)
  Lemma failed_absorbing : forall cs s, running s = false -> fold_left (feed_with stp) cs s = s.
  Proof.
    induction cs as [|c cs IH]; intros s R; cbn [fold_left]; [reflexivity|].
    unfold feed_with at 2. rewrite R. apply IH, R.
  Qed.

  (* a run of frames each of which [stp] recognises at the front of any buffer *)
  Lemma drain_frames : forall (fs : list (list Z * mitem)) rest acc f,
    (forall e it r, In (e, it) fs -> stp (e ++ r) = Emit it (length e)) ->
    (length (concat (map fst fs) ++ rest) < f)%nat ->
    drain stp f (concat (map fst fs) ++ rest) acc =
    drain stp (S (length rest)) rest (acc ++ map snd fs).
  Proof.
    induction fs as [|[e it] fs IH]; intros rest acc f Hall Hf; cbn [map concat fst snd] in Hf |- *.
    - rewrite app_nil_r. cbn [app] in *. apply drain_fuel; lia.
    - destruct f as [|f]; [lia|]. cbn [drain].
      rewrite <- app_assoc. rewrite (Hall e it _ (or_introl eq_refl)).
      rewrite skipn_exact.
      pose proof (stp_emit_len _ _ _ (Hall e it [] (or_introl eq_refl))) as Hn.
      rewrite IH.
      + rewrite <- app_assoc. reflexivity.
      + intros e' it' r Hin. apply Hall. right. exact Hin.
      + rewrite <- app_assoc, app_length in Hf. lia.
  Qed.
End Loop.

(* ================================================================== *)
(* Part 2: the header decoder and the one-frame function               *)

Lemma ltb_app_false {A} (r c : list A) n : (blen r <? n) = false -> (blen (r ++ c) <? n) = false.
Proof. intros H. apply Z.ltb_ge in H. apply Z.ltb_ge. rewrite blen_app. pose proof (blen_nonneg c). lia. Qed.

(* a header that is decided on a buffer is decided identically on every extension *)
Lemma decode_header_stable fx b c :
  decode_header_gen fx b <> HShort -> decode_header_gen fx (b ++ c) = decode_header_gen fx b.
Proof.
  destruct b as [|b0 r]; [intros H; cbn in H; congruence|].
  cbn [app]. unfold decode_header_gen.
  destruct (fx && (MaxTokenSize <? b0 mod 16)); [reflexivity|].
  destruct (blen r <? Z.of_nat (ext_size (b0 / 16))) eqn:E1; [congruence|].
  rewrite (ltb_app_false r c _ E1).
  assert (Hle : (ext_size (b0 / 16) <= length r)%nat) by (apply Z.ltb_ge in E1; unfold blen in E1; lia).
  rewrite (firstn_app_l r c _ Hle), (skipn_app_l r c _ Hle).
  destruct (fx && (b0 / 16 =? 15) && (messageMaxLen <? be (firstn (ext_size (b0 / 16)) r))); [reflexivity|].
  destruct (skipn (ext_size (b0 / 16)) r) as [|code r3]; [congruence|].
  cbn [app]. destruct (blen r3 <? b0 mod 16) eqn:E2; [congruence|].
  rewrite (ltb_app_false r3 c _ E2). reflexivity.
Qed.

(* an accepted header lies inside the buffer *)
Lemma decode_header_ok_len fx b hlen mlen code tkl :
  decode_header_gen fx b = HOk hlen mlen code tkl -> 2 <= hlen <= blen b /\ 0 <= tkl < 16 /\ 0 <= mlen < W32.
Proof.
  destruct b as [|b0 r]; [cbn; congruence|]. unfold decode_header_gen.
  destruct (fx && (MaxTokenSize <? b0 mod 16)); [congruence|].
  destruct (blen r <? Z.of_nat (ext_size (b0 / 16))) eqn:E1; [congruence|].
  destruct (fx && (b0 / 16 =? 15) && (messageMaxLen <? be (firstn (ext_size (b0 / 16)) r))); [congruence|].
  destruct (skipn (ext_size (b0 / 16)) r) as [|code' r3] eqn:ES; [congruence|].
  destruct (blen r3 <? b0 mod 16) eqn:E2; [congruence|].
  intros H.
  assert (Hh : hlen = 1 + Z.of_nat (ext_size (b0 / 16)) + 1 + b0 mod 16) by congruence.
  assert (Ht : tkl = b0 mod 16) by congruence.
  assert (Hm : mlen = (1 + Z.of_nat (ext_size (b0 / 16)) + 1 + b0 mod 16 +
                        op_len (b0 / 16) (be (firstn (ext_size (b0 / 16)) r)) mod W32) mod W32) by congruence.
  clear H. subst hlen tkl mlen.
  apply Z.ltb_ge in E1, E2.
  assert (HL : blen r = Z.of_nat (ext_size (b0 / 16)) + 1 + blen r3).
  { rewrite <- (firstn_skipn (ext_size (b0 / 16)) r) at 1. rewrite blen_app, ES, blen_cons.
    unfold blen at 1. rewrite firstn_length. unfold blen in E1. lia. }
  rewrite blen_cons. pose proof (blen_nonneg r3).
  pose proof (Z.mod_pos_bound b0 16 ltac:(lia)).
  split; [lia|]. split; [lia|]. apply Z.mod_pos_bound. reflexivity.
Qed.

(* [step] never gives up a decision when more bytes arrive *)
Lemma step_stable fx max b c : step_gen fx max b <> Wait -> step_gen fx max (b ++ c) = step_gen fx max b.
Proof.
  destruct b as [|b0 r]; [cbn; congruence|].
  cbn [app]. unfold step_gen. change (b0 :: r ++ c) with ((b0 :: r) ++ c).
  set (b := b0 :: r).
  destruct (decode_header_gen fx b) as [|e|hlen mlen code tkl] eqn:E; [congruence| |].
  - rewrite decode_header_stable by congruence. rewrite E. reflexivity.
  - rewrite decode_header_stable by congruence. rewrite E.
    destruct (max <? mlen); [reflexivity|].
    destruct (blen b <? mlen) eqn:E2; [congruence|].
    rewrite (ltb_app_false b c _ E2).
    pose proof (decode_header_ok_len _ _ _ _ _ _ E) as (_ & _ & Hm).
    apply Z.ltb_ge in E2. unfold blen in E2.
    rewrite firstn_app_l by lia. reflexivity.
Qed.

Lemma unmarshal_nil fx : unmarshal_gen fx [] = None.
Proof. reflexivity. Qed.

Lemma step_emit_len fx max b it n : step_gen fx max b = Emit it n -> (0 < n <= length b)%nat.
Proof.
  destruct b as [|b0 r]; [cbn; congruence|]. unfold step_gen. set (b := b0 :: r).
  destruct (decode_header_gen fx b) as [|e|hlen mlen code tkl]; try congruence.
  destruct (max <? mlen); [congruence|]. destruct (blen b <? mlen); [congruence|].
  destruct (firstn (Z.to_nat mlen) b) as [|x fr] eqn:EF.
  - rewrite unmarshal_nil. congruence.
  - destruct (unmarshal_gen fx (x :: fr)); [|congruence].
    intros H. assert (Hn : n = length (x :: fr)) by congruence. subst n.
    split; [cbn [length]; lia|].
    rewrite <- EF, firstn_length. lia.
Qed.

Lemma step_emit_stable fx max b it n c : step_gen fx max b = Emit it n -> step_gen fx max (b ++ c) = Emit it n.
Proof. intros H. rewrite step_stable; [exact H|congruence]. Qed.
Lemma step_fail_stable fx max b e c : step_gen fx max b = Fail e -> step_gen fx max (b ++ c) = Fail e.
Proof. intros H. rewrite step_stable; [exact H|congruence]. Qed.
Lemma step_nil fx max : step_gen fx max [] = Wait.
Proof. reflexivity. Qed.

(* ---- the loop theorems for the real one-frame function ---- *)

Theorem feed_app_step : forall max s a c, feed max (feed max s a) c = feed max s (a ++ c).
Proof.
  intros max. apply feed_app.
  - apply step_emit_len. - apply step_emit_stable. - apply step_fail_stable.
Qed.

Theorem segmentation_step : forall max cs, fold_left (feed max) cs init = feed max init (concat cs).
Proof.
  intros max. apply segmentation.
  - apply step_emit_len. - apply step_emit_stable. - apply step_fail_stable. - apply step_nil.
Qed.

(* header prefix-stability: DecodeHeader answers ErrShortRead exactly on the
   proper prefixes of a header *)
Theorem header_prefix fx b hlen mlen code tkl :
  decode_header_gen fx b = HOk hlen mlen code tkl ->
  forall n, decode_header_gen fx (firstn n b) =
            if Z.of_nat n <? hlen then HShort else HOk hlen mlen code tkl.
Proof.
  intros H n.
  destruct (Z.ltb_spec (Z.of_nat n) hlen) as [Hlt|Hge].
  - (* fewer bytes than the header: any decided answer would carry over to b *)
    destruct (decode_header_gen fx (firstn n b)) as [|e|h' m' c' t'] eqn:E; [reflexivity| |].
    + pose proof (decode_header_stable fx (firstn n b) (skipn n b)) as S.
      rewrite firstn_skipn, E, H in S. discriminate S. congruence.
    + pose proof (decode_header_stable fx (firstn n b) (skipn n b)) as S.
      rewrite firstn_skipn, E, H in S. specialize (S ltac:(congruence)). injection S as -> -> -> ->.
      apply decode_header_ok_len in E. destruct E as ((_ & E) & _).
      unfold blen in E. rewrite firstn_length in E. lia.
  - (* the whole header is there *)
    pose proof (decode_header_ok_len _ _ _ _ _ _ H) as ((H2 & Hb) & Ht & Hm).
    destruct b as [|b0 r]; [cbn in H; congruence|].
    destruct n as [|n]; [lia|]. cbn [firstn].
    revert H. unfold decode_header_gen.
    destruct (fx && (MaxTokenSize <? b0 mod 16)); [congruence|].
    destruct (blen r <? Z.of_nat (ext_size (b0 / 16))) eqn:E1; [congruence|].
    set (ext := ext_size (b0 / 16)) in *.
    destruct (fx && (b0 / 16 =? 15) && (messageMaxLen <? be (firstn ext r))) eqn:E3; [congruence|].
    destruct (skipn ext r) as [|code' r3] eqn:ES; [congruence|].
    destruct (blen r3 <? b0 mod 16) eqn:E2; [congruence|].
    intros H.
    assert (Hh : hlen = 1 + Z.of_nat ext + 1 + b0 mod 16) by congruence.
    apply Z.ltb_ge in E1, E2.
    pose proof (Z.mod_pos_bound b0 16 ltac:(lia)) as Hb0.
    assert (Hn : (ext + 1 + Z.to_nat (b0 mod 16) <= n)%nat) by lia.
    assert (Hlen : (ext <= length r)%nat) by (unfold blen in E1; lia).
    assert (E1' : (blen (firstn n r) <? Z.of_nat ext) = false).
    { apply Z.ltb_ge. unfold blen. rewrite firstn_length. lia. }
    rewrite E1'.
    assert (F1 : firstn ext (firstn n r) = firstn ext r).
    { rewrite firstn_firstn. f_equal. lia. }
    rewrite F1, E3.
    assert (F2 : skipn ext (firstn n r) = firstn (n - ext) (skipn ext r)).
    { apply skipn_firstn_comm. }
    rewrite F2, ES.
    destruct (n - ext)%nat as [|k] eqn:EK; [lia|]. cbn [firstn].
    assert (E2' : (blen (firstn k r3) <? b0 mod 16) = false).
    { apply Z.ltb_ge. unfold blen in *. rewrite firstn_length. lia. }
    rewrite E2'. exact H.
Qed.

(* ================================================================== *)
(* Part 3: frames encoded per RFC 8323 / RFC 7252 are recognised       *)

Lemma nib_div n t : 0 <= t < 16 -> (16 * n + t) / 16 = n /\ (16 * n + t) mod 16 = t.
Proof. intros H. split; lia. Qed.

Lemma ltb_false_of a b : b <= a -> (a <? b) = false.
Proof. intros. apply Z.ltb_ge. lia. Qed.

Lemma ext_size_le nib : (ext_size nib <= 4)%nat.
Proof. unfold ext_size. destruct (nib <? MessageLength13Base), (nib =? 13), (nib =? 14); lia. Qed.

(* a header assembled from its parts is decoded to those parts *)
Lemma dh_build nib tkl eb code tok rest :
  0 <= nib < 16 -> 0 <= tkl <= MaxTokenSize -> length eb = ext_size nib -> blen tok = tkl ->
  (nib = 15 -> be eb <= messageMaxLen) ->
  0 <= op_len nib (be eb) ->
  1 + Z.of_nat (ext_size nib) + 1 + tkl + op_len nib (be eb) < W32 ->
  decode_header ((16 * nib + tkl) :: eb ++ code :: tok ++ rest) =
  HOk (1 + Z.of_nat (ext_size nib) + 1 + tkl) (1 + Z.of_nat (ext_size nib) + 1 + tkl + op_len nib (be eb)) code tkl.
Proof.
  intros Hn Ht He Htok Hmax Hop Hw.
  assert (Ht16 : 0 <= tkl < 16) by (unfold MaxTokenSize in Ht; lia).
  unfold decode_header, decode_header_gen.
  destruct (nib_div nib tkl Ht16) as [-> ->].
  rewrite (ltb_false_of MaxTokenSize tkl) by lia. cbn [andb].
  rewrite ltb_false_of by (rewrite blen_app; unfold blen at 1; rewrite He; pose proof (blen_nonneg (code :: tok ++ rest)); lia).
  rewrite <- He. rewrite firstn_exact, skipn_exact.
  assert (Hc : ((nib =? 15) && (messageMaxLen <? be eb)) = false).
  { destruct (nib =? 15) eqn:E; [|reflexivity]. apply Z.eqb_eq in E. cbn [andb]. apply Z.ltb_ge. auto. }
  rewrite Hc.
  rewrite ltb_false_of by (rewrite blen_app; pose proof (blen_nonneg rest); lia).
  rewrite He.
  rewrite (Z.mod_small (op_len nib (be eb))) by lia.
  rewrite Z.mod_small by lia. reflexivity.
Qed.

Lemma be2 a b : be [a; b] = a * 256 + b.
Proof. reflexivity. Qed.
Lemma be1 a : be [a] = a.
Proof. reflexivity. Qed.
Lemma be4 a b c d : be [a; b; c; d] = ((a * 256 + b) * 256 + c) * 256 + d.
Proof. reflexivity. Qed.

(* shape of the RFC 8323 length header *)
Lemma len_hdr_shape L tkl : 0 <= L -> L - 65805 <= messageMaxLen ->
  exists nib eb, len_hdr L tkl = (16 * nib + tkl) :: eb /\ 0 <= nib < 16 /\
                 length eb = ext_size nib /\ (nib = 15 -> be eb <= messageMaxLen) /\ op_len nib (be eb) = L.
Proof.
  intros HL Hmax. unfold len_hdr.
  destruct (Z.ltb_spec L 13) as [H13|H13].
  { exists L, []. repeat split; try lia.
    - unfold ext_size, MessageLength13Base. rewrite (proj2 (Z.ltb_lt L 13)) by lia. reflexivity.
    - unfold op_len, MessageLength13Base. rewrite (proj2 (Z.ltb_lt L 13)) by lia. reflexivity. }
  destruct (Z.ltb_spec L 269) as [H269|H269].
  { exists 13, [L - 13]. rewrite be1. change (op_len 13 (L - 13)) with (13 + (L - 13)).
    repeat split; try lia; reflexivity. }
  destruct (Z.ltb_spec L 65805) as [H65|H65].
  { exists 14, [(L - 269) / 256; (L - 269) mod 256]. rewrite be2.
    change (op_len 14 ((L - 269) / 256 * 256 + (L - 269) mod 256)) with (269 + ((L - 269) / 256 * 256 + (L - 269) mod 256)).
    repeat split; try lia; reflexivity. }
  exists 15, [(L - 65805) / 16777216; ((L - 65805) / 65536) mod 256; ((L - 65805) / 256) mod 256; (L - 65805) mod 256].
  assert (Hbe : be [(L - 65805) / 16777216; ((L - 65805) / 65536) mod 256; ((L - 65805) / 256) mod 256; (L - 65805) mod 256] = L - 65805).
  { rewrite be4. lia. }
  rewrite Hbe. change (op_len 15 (L - 65805)) with (65805 + (L - 65805)).
  repeat split; try lia; reflexivity.
Qed.

Definition item_of (f : frame) : mitem := MkItem (f_code f) (f_tok f) (f_pay f).

Lemma frame_wf_parts f : frame_wf f = true ->
  blen (f_tok f) <= 8 /\ opts_wf 0 (f_opts f) = true.
Proof.
  unfold frame_wf. intros H. repeat (apply andb_prop in H as [H ?]).
  split; [apply Z.leb_le; assumption|assumption].
Qed.

Lemma encode_frame_split f rest :
  encode_frame f ++ rest = len_hdr (blen (body f)) (blen (f_tok f)) ++ f_code f :: f_tok f ++ (body f ++ rest).
Proof. unfold encode_frame. rewrite <- app_assoc. cbn [app]. rewrite <- app_assoc. reflexivity. Qed.

Lemma dh_encode f rest : frame_wf f = true -> blen (body f) - 65805 <= messageMaxLen ->
  decode_header (encode_frame f ++ rest) =
  HOk (frame_size f - blen (body f)) (frame_size f) (f_code f) (blen (f_tok f)).
Proof.
  intros Hwf Hmax. apply frame_wf_parts in Hwf as [Htok _].
  destruct (len_hdr_shape (blen (body f)) (blen (f_tok f)) (blen_nonneg _) Hmax) as (nib & eb & Hl & Hn & He & Hm & Hop).
  rewrite encode_frame_split. unfold frame_size, encode_frame. rewrite Hl. cbn [app].
  pose proof (blen_nonneg (f_tok f)) as Ht0. pose proof (blen_nonneg (body f)) as Hb0.
  rewrite dh_build; try assumption; try reflexivity.
  - assert (HS : blen (16 * nib + blen (f_tok f) :: eb ++ f_code f :: f_tok f ++ body f) =
                 1 + Z.of_nat (ext_size nib) + 1 + blen (f_tok f) + blen (body f)).
    { rewrite blen_cons, blen_app, blen_cons, blen_app. rewrite <- He. unfold blen. lia. }
    rewrite HS, Hop. f_equal. lia.
  - unfold MaxTokenSize. lia.
  - lia.
  - rewrite Hop. unfold messageMaxLen in Hmax. unfold W32. pose proof (ext_size_le nib). lia.
Qed.

(* ---- options ---- *)

Lemma parse_ext_enc v rest : 0 <= v <= 65804 ->
  parse_ext (snd (ext_enc v) ++ rest) (fst (ext_enc v)) = Some (length (snd (ext_enc v)), v) /\
  0 <= fst (ext_enc v) < 15.
Proof.
  intros Hv. unfold ext_enc.
  destruct (Z.ltb_spec v 13) as [H13|H13].
  { cbn [fst snd app length]. split; [|lia]. unfold parse_ext, ExtendOptionByteCode, ExtendOptionWordCode.
    rewrite (proj2 (Z.eqb_neq v 13)) by lia. rewrite (proj2 (Z.eqb_neq v 14)) by lia. reflexivity. }
  destruct (Z.ltb_spec v 269) as [H269|H269].
  { cbn [fst snd app length]. split; [|lia]. unfold parse_ext, ExtendOptionByteCode, ExtendOptionByteAddend.
    cbn [Z.eqb Pos.eqb]. f_equal. f_equal. lia. }
  cbn [fst snd app length]. split; [|lia].
  unfold parse_ext, ExtendOptionByteCode, ExtendOptionWordCode, ExtendOptionWordAddend.
  cbn [Z.eqb Pos.eqb]. f_equal. f_equal. lia.
Qed.

Definition pay_tail (p : list Z) : list Z := match p with [] => [] | _ => 255 :: p end.

Lemma walk_enc : forall os prev p fuel,
  0 <= prev -> opts_wf prev os = true ->
  (length (enc_opts os ++ pay_tail p) < fuel)%nat ->
  walk_opts fuel (enc_opts os ++ pay_tail p) prev = Some p.
Proof.
  induction os as [|[d v] os IH]; intros prev p fuel Hprev Hwf Hf.
  - cbn [enc_opts map concat app] in *. destruct fuel as [|fuel]; [lia|].
    destruct p as [|x p]; cbn [pay_tail walk_opts]; [reflexivity|].
    rewrite Z.eqb_refl. reflexivity.
  - cbn [opts_wf] in Hwf. repeat (apply andb_prop in Hwf as [Hwf ?]).
    apply Z.leb_le in Hwf.
    match goal with H : (prev + d <=? 65535) = true |- _ => apply Z.leb_le in H; rename H into Hid end.
    match goal with H : (blen v <=? 65804) = true |- _ => apply Z.leb_le in H; rename H into Hvl end.
    match goal with H : opts_wf (prev + d) os = true |- _ => rename H into Hrest end.
    assert (Hd : 0 <= d <= 65804) by lia.
    assert (Hl : 0 <= blen v <= 65804) by (pose proof (blen_nonneg v); lia).
    unfold enc_opts in *. cbn [map concat] in *. fold (enc_opts os) in *.
    unfold enc_opt in *. cbn [fst snd] in *.
    destruct (ext_enc d) as [dn de] eqn:ED. destruct (ext_enc (blen v)) as [ln le] eqn:EL.
    pose proof (parse_ext_enc d (le ++ v ++ enc_opts os ++ pay_tail p) Hd) as [PD RD].
    pose proof (parse_ext_enc (blen v) (v ++ enc_opts os ++ pay_tail p) Hl) as [PL RL].
    rewrite ED in PD, RD. rewrite EL in PL, RL. cbn [fst snd] in PD, RD, PL, RL.
    destruct fuel as [|fuel]; [lia|].
    cbn [app] in Hf |- *. repeat rewrite <- app_assoc in Hf |- *.
    cbn [walk_opts].
    assert (Hb : 0 <= ln < 16) by lia.
    destruct (nib_div dn ln Hb) as [Q R].
    rewrite (proj2 (Z.eqb_neq (16 * dn + ln) 255)) by lia.
    rewrite Q, R.
    unfold ExtendOptionError. rewrite (proj2 (Z.eqb_neq dn 15)) by lia. rewrite (proj2 (Z.eqb_neq ln 15)) by lia.
    cbn [orb]. rewrite PD. rewrite skipn_exact. rewrite PL. rewrite skipn_exact.
    rewrite ltb_false_of by (rewrite blen_app; pose proof (blen_nonneg (enc_opts os ++ pay_tail p)); lia).
    rewrite ltb_false_of by lia.
    replace (Z.to_nat (blen v)) with (length v) by (unfold blen; lia).
    rewrite skipn_exact. apply IH; [lia|assumption|].
    cbn [length] in Hf. rewrite !app_length in Hf. rewrite app_length. lia.
Qed.

Lemma body_eq f : body f = enc_opts (f_opts f) ++ pay_tail (f_pay f).
Proof. unfold body, pay_tail. destruct (f_pay f); reflexivity. Qed.

Lemma unmarshal_encode f : frame_wf f = true -> blen (body f) - 65805 <= messageMaxLen ->
  unmarshal_gen true (encode_frame f) = Some (item_of f).
Proof.
  intros Hwf Hmax. unfold unmarshal_gen.
  pose proof (dh_encode f [] Hwf Hmax) as HD. rewrite app_nil_r in HD. unfold decode_header in HD. rewrite HD.
  unfold frame_size. rewrite ltb_false_of by lia.
  apply frame_wf_parts in Hwf as [Htok Hopts].
  set (hd := len_hdr (blen (body f)) (blen (f_tok f))).
  assert (E : encode_frame f = (hd ++ [f_code f]) ++ f_tok f ++ body f).
  { unfold encode_frame, hd. rewrite <- app_assoc. reflexivity. }
  assert (S1 : skipn (Z.to_nat (blen (encode_frame f) - blen (body f) - blen (f_tok f))) (encode_frame f) = f_tok f ++ body f).
  { rewrite E at 2. replace (Z.to_nat _) with (length (hd ++ [f_code f])).
    - apply skipn_exact.
    - rewrite E. unfold blen. rewrite !app_length. lia. }
  assert (E2 : encode_frame f = ((hd ++ [f_code f]) ++ f_tok f) ++ body f).
  { rewrite E. rewrite app_assoc. reflexivity. }
  assert (S2 : skipn (Z.to_nat (blen (encode_frame f) - blen (body f))) (encode_frame f) = body f).
  { rewrite E2 at 2. replace (Z.to_nat _) with (length ((hd ++ [f_code f]) ++ f_tok f)).
    - apply skipn_exact.
    - rewrite E2. unfold blen. rewrite !app_length. lia. }
  rewrite S1, S2.
  replace (Z.to_nat (blen (f_tok f))) with (length (f_tok f)) by (unfold blen; lia).
  rewrite firstn_exact.
  rewrite body_eq. rewrite walk_enc; [reflexivity|lia|assumption|lia].
Qed.

Lemma step_encode max f rest : frame_wf f = true -> blen (body f) - 65805 <= messageMaxLen ->
  frame_size f <= max ->
  step max (encode_frame f ++ rest) = Emit (item_of f) (length (encode_frame f)).
Proof.
  intros Hwf Hmax Hsz. unfold step, step_gen.
  destruct (encode_frame f ++ rest) as [|x l] eqn:EE.
  { exfalso. unfold encode_frame in EE. destruct (len_hdr_shape (blen (body f)) (blen (f_tok f)) (blen_nonneg _) Hmax) as (nib & eb & Hl & _).
    rewrite Hl in EE. cbn in EE. discriminate EE. }
  rewrite <- EE. clear EE x l.
  pose proof (dh_encode f rest Hwf Hmax) as HD. unfold decode_header in HD. rewrite HD.
  rewrite ltb_false_of by lia.
  unfold frame_size.
  rewrite ltb_false_of by (rewrite blen_app; pose proof (blen_nonneg rest); lia).
  replace (Z.to_nat (blen (encode_frame f))) with (length (encode_frame f)) by (unfold blen; lia).
  rewrite firstn_exact. rewrite unmarshal_encode by assumption. reflexivity.
Qed.

(* ================================================================== *)
(* Part 4: the property theorems                                       *)

Lemma body_le_size f : blen (body f) <= frame_size f.
Proof.
  unfold frame_size, encode_frame. rewrite blen_app, blen_cons, blen_app.
  pose proof (blen_nonneg (len_hdr (blen (body f)) (blen (f_tok f)))). pose proof (blen_nonneg (f_tok f)). lia.
Qed.

Definition good (max : Z) (f : frame) : Prop := frame_wf f = true /\ frame_size f <= max.

(* k good frames followed by anything: the k frames are delivered, then the loop goes on with the rest *)
Lemma frames_then max fs rest : max <= messageMaxLen + 65805 -> (forall f, In f fs -> good max f) ->
  feed max init (concat (map encode_frame fs) ++ rest) =
  drain (step max) (S (length rest)) rest (map item_of fs).
Proof.
  intros Hmax Hgood. unfold feed, feed_with, init. cbn [running st buf out app].
  pose proof (drain_frames (step max) (step_emit_len true max) (step_emit_stable true max) (step_fail_stable true max)
                (map (fun f => (encode_frame f, item_of f)) fs) rest []) as D.
  rewrite !map_map in D. cbn [fst snd] in D. cbn [app] in D.
  rewrite (map_ext _ encode_frame) in D by reflexivity.
  rewrite (map_ext (fun x => item_of x) item_of) in D by reflexivity.
  apply D; [|lia].
  intros e it r Hin. apply in_map_iff in Hin as (f & Hf & Hin). injection Hf as <- <-.
  destruct (Hgood f Hin) as [Hwf Hsz].
  apply step_encode; [assumption| |assumption].
  pose proof (body_le_size f). lia.
Qed.

Theorem exact max fs : max <= messageMaxLen + 65805 -> (forall f, In f fs -> good max f) ->
  feed max init (concat (map encode_frame fs)) = MkState [] (map item_of fs) Running.
Proof.
  intros Hmax Hgood. rewrite <- (app_nil_r (concat _)). rewrite frames_then by assumption. reflexivity.
Qed.

(* every intermediate delivery is a prefix of the final one: nothing is delivered and later withdrawn,
   and nothing beyond the final log is ever delivered *)
Lemma drain_out_extends stp : forall f b acc, exists l, out (drain stp f b acc) = acc ++ l.
Proof.
  induction f as [|f IH]; intros b acc; cbn [drain].
  - exists []. cbn. rewrite app_nil_r. reflexivity.
  - destruct (stp b) as [|e|it n].
    + exists []. cbn. rewrite app_nil_r. reflexivity.
    + exists []. cbn. rewrite app_nil_r. reflexivity.
    + destruct (IH (skipn n b) (acc ++ [it])) as [l Hl]. exists (it :: l). rewrite Hl, <- app_assoc. reflexivity.
Qed.

Lemma feed_out_extends max s c : exists l, out (feed max s c) = out s ++ l.
Proof.
  unfold feed, feed_with. destruct (running s).
  - apply drain_out_extends.
  - exists []. rewrite app_nil_r. reflexivity.
Qed.

(* ---- oversize ---- *)

Lemma be_acc_bound : forall l a, 0 <= a -> bytes_ok l = true ->
  0 <= fold_left (fun a b => a * 256 + b) l a < (a + 1) * 256 ^ blen l.
Proof.
  induction l as [|b l IH]; intros a Ha Hok.
  - cbn. lia.
  - cbn [bytes_ok forallb] in Hok. apply andb_prop in Hok as [Hb Hok].
    unfold byte_ok in Hb. apply andb_prop in Hb as [Hb0 Hb1]. apply Z.leb_le in Hb0. apply Z.ltb_lt in Hb1.
    cbn [fold_left]. specialize (IH (a * 256 + b) ltac:(lia) Hok).
    rewrite blen_cons. rewrite Z.pow_add_r by (pose proof (blen_nonneg l); lia).
    assert (HP : 0 < 256 ^ blen l) by (apply Z.pow_pos_nonneg; [lia|apply blen_nonneg]).
    change (256 ^ 1) with 256. nia.
Qed.

Lemma be_bound l : bytes_ok l = true -> 0 <= be l < 256 ^ blen l.
Proof. intros H. pose proof (be_acc_bound l 0 ltac:(lia) H) as B. unfold be. lia. Qed.

Lemma bytes_ok_firstn n l : bytes_ok l = true -> bytes_ok (firstn n l) = true.
Proof.
  revert l. induction n as [|n IH]; intros [|x l] H; cbn [firstn bytes_ok forallb] in *; try reflexivity.
  apply andb_prop in H as [H1 H2]. rewrite H1. cbn [andb]. apply IH, H2.
Qed.

Lemma declared_model b0 r :
  declared (b0 :: r) =
  if blen r <? Z.of_nat (ext_size (b0 / 16)) then None
  else Some (1 + Z.of_nat (ext_size (b0 / 16)) + 1 + b0 mod 16,
             1 + Z.of_nat (ext_size (b0 / 16)) + 1 + b0 mod 16 + op_len (b0 / 16) (be (firstn (ext_size (b0 / 16)) r))).
Proof. reflexivity. Qed.

(* A frame start that, read per RFC 8323 in unbounded arithmetic, declares more
   than the limit is refused as soon as its header bytes are in the buffer --
   whatever follows. (False before the repair: F16.) *)
Lemma step_oversize max hdr h total :
  bytes_ok hdr = true -> declared hdr = Some (h, total) -> h <= blen hdr ->
  0 <= max < W32 -> max < total ->
  exists e, forall tail, step max (hdr ++ tail) = Fail e.
Proof.
  intros Hok Hd Hh Hmax Hov.
  cut (exists e, step max hdr = Fail e).
  { intros [e He]. exists e. intros tail. apply step_fail_stable, He. }
  destruct hdr as [|b0 r]; [cbn in Hd; discriminate|].
  rewrite declared_model in Hd.
  cbn [bytes_ok forallb] in Hok. apply andb_prop in Hok as [Hb Hok].
  unfold byte_ok in Hb. apply andb_prop in Hb as [Hb0 Hb1]. apply Z.leb_le in Hb0. apply Z.ltb_lt in Hb1.
  destruct (blen r <? Z.of_nat (ext_size (b0 / 16))) eqn:E1; [discriminate|].
  set (ext := ext_size (b0 / 16)) in *. set (nib := b0 / 16) in *. set (tkl := b0 mod 16) in *.
  set (e := be (firstn ext r)) in *.
  assert (Hh' : h = 1 + Z.of_nat ext + 1 + tkl) by congruence.
  assert (Ht' : total = h + op_len nib e) by congruence. clear Hd.
  unfold step, step_gen, decode_header_gen. fold nib tkl ext. cbn [andb].
  destruct (MaxTokenSize <? tkl) eqn:ET; [eexists; reflexivity|].
  rewrite E1. fold e.
  destruct ((nib =? 15) && (messageMaxLen <? e)) eqn:EM; [eexists; reflexivity|].
  apply Z.ltb_ge in E1, ET.
  assert (Hlen : (ext <= length r)%nat) by (unfold blen in E1; lia).
  assert (HL : blen r = Z.of_nat ext + blen (skipn ext r)).
  { rewrite <- (firstn_skipn ext r) at 1. rewrite blen_app. unfold blen at 1. rewrite firstn_length. lia. }
  rewrite blen_cons in Hh.
  destruct (skipn ext r) as [|code r3] eqn:ES.
  { exfalso. change (blen (@nil Z)) with 0 in HL. unfold MaxTokenSize in ET.
    pose proof (Z.mod_pos_bound b0 16 ltac:(lia)). fold tkl in H. lia. }
  rewrite blen_cons in HL.
  rewrite ltb_false_of by lia.
  (* no wrap: the declared size is below 2^32 *)
  pose proof (be_bound (firstn ext r) (bytes_ok_firstn ext r Hok)) as Hbe. fold e in Hbe.
  assert (Hbl : blen (firstn ext r) = Z.of_nat ext) by (unfold blen; rewrite firstn_length; lia).
  rewrite Hbl in Hbe.
  assert (Hnib : 0 <= nib < 16) by (unfold nib; lia).
  assert (Htk : 0 <= tkl <= 8) by (unfold MaxTokenSize in ET; unfold tkl; lia).
  assert (Hop : 0 <= op_len nib e /\ 1 + Z.of_nat ext + 1 + tkl + op_len nib e < W32).
  { unfold op_len, ext, ext_size, MessageLength13Base, MessageLength14Base, MessageLength15Base, W32 in *.
    fold nib in Hbe |- *.
    destruct (nib <? 13) eqn:N13; [apply Z.ltb_lt in N13; lia|].
    destruct (nib =? 13) eqn:N13'; [change (256 ^ Z.of_nat 1) with 256 in Hbe; lia|].
    destruct (nib =? 14) eqn:N14; [change (256 ^ Z.of_nat 2) with 65536 in Hbe; lia|].
    assert (nib = 15) by (apply Z.ltb_ge in N13; apply Z.eqb_neq in N13', N14; lia).
    rewrite (proj2 (Z.eqb_eq nib 15)) in EM by assumption. cbn [andb] in EM. apply Z.ltb_ge in EM.
    unfold messageMaxLen in EM. lia. }
  destruct Hop as [Hop0 HopW].
  rewrite (Z.mod_small (op_len nib e)) by lia.
  rewrite Z.mod_small by lia.
  assert (Hgt : (max <? 1 + Z.of_nat ext + 1 + tkl + op_len nib e) = true) by (apply Z.ltb_lt; lia).
  rewrite Hgt. eexists; reflexivity.
Qed.

Theorem oversize max fs hdr h total :
  0 <= max < W32 -> max <= messageMaxLen + 65805 -> (forall f, In f fs -> good max f) ->
  bytes_ok hdr = true -> declared hdr = Some (h, total) -> h <= blen hdr -> max < total ->
  exists e, forall tail,
    feed max init (concat (map encode_frame fs) ++ hdr ++ tail) = MkState [] (map item_of fs) (Failed e).
Proof.
  intros Hmax Hmm Hgood Hok Hd Hh Hov.
  destruct (step_oversize max hdr h total Hok Hd Hh Hmax Hov) as [e He].
  exists e. intros tail. rewrite frames_then by assumption.
  cbn [drain]. rewrite He. reflexivity.
Qed.

(* an oversize message encoded by a conforming sender is such a frame start *)
Lemma declared_encode f rest : frame_wf f = true -> blen (body f) - 65805 <= messageMaxLen ->
  declared (encode_frame f ++ rest) = Some (frame_size f - blen (body f), frame_size f).
Proof.
  intros Hwf Hmax. apply frame_wf_parts in Hwf as [Htok _].
  destruct (len_hdr_shape (blen (body f)) (blen (f_tok f)) (blen_nonneg _) Hmax) as (nib & eb & Hl & Hn & He & Hm & Hop).
  rewrite encode_frame_split. unfold frame_size, encode_frame. rewrite Hl. cbn [app].
  rewrite declared_model.
  pose proof (blen_nonneg (f_tok f)) as Ht0.
  assert (Ht16 : 0 <= blen (f_tok f) < 16) by lia.
  destruct (nib_div nib _ Ht16) as [-> ->].
  rewrite ltb_false_of by (rewrite blen_app; unfold blen at 1; rewrite He; pose proof (blen_nonneg (f_code f :: f_tok f ++ body f ++ rest)); lia).
  rewrite <- He. rewrite firstn_exact. rewrite Hop.
  assert (HS : blen (16 * nib + blen (f_tok f) :: eb ++ f_code f :: f_tok f ++ body f) =
               1 + Z.of_nat (length eb) + 1 + blen (f_tok f) + blen (body f)).
  { rewrite blen_cons, blen_app, blen_cons, blen_app. unfold blen. lia. }
  rewrite HS. f_equal. f_equal. lia.
Qed.

(* the state of things before the repair (F16): a frame start declaring 4 GiB is
   delivered as an empty message and the frames behind it are delivered too *)
Lemma unrepaired_refuted :
  exists max hdr h total tail,
    bytes_ok hdr = true /\ declared hdr = Some (h, total) /\ h <= blen hdr /\ 0 <= max < W32 /\ max < total /\
    running (feed_unrepaired max init (hdr ++ tail)) = true /\
    length (out (feed_unrepaired max init (hdr ++ tail))) = 2%nat.
Proof.
  exists 64, [240; 255; 254; 254; 243; 69], 6, 4294967302, [0; 1].
  vm_compute. repeat split; congruence.
Qed.

(* an oversize message of a conforming sender is refused when exactly its header
   bytes (Len/TKL, extended length, code, token) have arrived *)
Lemma step_oversize_message max g : frame_wf g = true -> blen (body g) - 65805 <= messageMaxLen ->
  max < frame_size g ->
  forall tail, step max (firstn (Z.to_nat (frame_size g - blen (body g))) (encode_frame g) ++ tail) = Fail Oversize.
Proof.
  intros Hwf Hmax Hov tail. apply step_fail_stable.
  pose proof (dh_encode g [] Hwf Hmax) as HD. rewrite app_nil_r in HD. unfold decode_header in HD.
  pose proof (decode_header_ok_len _ _ _ _ _ _ HD) as ((H2 & _) & _).
  pose proof (header_prefix true _ _ _ _ _ HD (Z.to_nat (frame_size g - blen (body g)))) as HP.
  rewrite Z2Nat.id in HP by lia. rewrite Z.ltb_irrefl in HP.
  unfold step, step_gen.
  destruct (firstn (Z.to_nat (frame_size g - blen (body g))) (encode_frame g)) as [|x l]; [cbn in HP; discriminate|].
  rewrite HP. rewrite (proj2 (Z.ltb_lt max (frame_size g))) by lia. reflexivity.
Qed.

Lemma oversize_message max fs g :
  0 <= max < W32 -> max <= messageMaxLen + 65805 ->
  (forall f, In f fs -> frame_wf f = true /\ frame_size f <= max) ->
  frame_wf g = true -> blen (body g) - 65805 <= messageMaxLen -> max < frame_size g ->
  forall tail (cs : list (list Z)),
    concat cs = concat (map encode_frame fs) ++ firstn (Z.to_nat (frame_size g - blen (body g))) (encode_frame g) ++ tail ->
    fold_left (feed max) cs init = MkState [] (map item_of fs) (Failed Oversize).
Proof.
  intros Hmax Hmm Hgood Hwf Hg Hov. intros tail cs Hcs.
  rewrite segmentation_step, Hcs, frames_then by assumption.
  cbn [drain]. rewrite step_oversize_message by assumption. reflexivity.
Qed.

(* promptness: as soon as the reads so far cover the offending header the
   connection has failed with an empty buffer, and whatever is read afterwards
   (the oversize body, later frames) changes nothing *)
Lemma oversize_prompt max fs hdr h total :
  0 <= max < W32 -> max <= messageMaxLen + 65805 -> (forall f, In f fs -> good max f) ->
  bytes_ok hdr = true -> declared hdr = Some (h, total) -> h <= blen hdr -> max < total ->
  exists e, forall t (cs1 cs2 : list (list Z)),
    concat cs1 = concat (map encode_frame fs) ++ hdr ++ t ->
    fold_left (feed max) cs1 init = MkState [] (map item_of fs) (Failed e) /\
    fold_left (feed max) (cs1 ++ cs2) init = MkState [] (map item_of fs) (Failed e).
Proof.
  intros Hmax Hmm Hgood Hok Hd Hh Hov.
  destruct (oversize max fs hdr h total Hmax Hmm Hgood Hok Hd Hh Hov) as [e He].
  exists e. intros t cs1 cs2 Hcs.
  assert (H1 : fold_left (feed max) cs1 init = MkState [] (map item_of fs) (Failed e)).
  { rewrite segmentation_step, Hcs. apply He. }
  split; [exact H1|].
  rewrite fold_left_app, H1. apply (failed_absorbing (step max)). reflexivity.
Qed.
