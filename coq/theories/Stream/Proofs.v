From Coq Require Import ZArith List Bool Lia.
From GoCoap Require Import Base.Bytes Gen.StreamConsts Stream.Model Stream.Spec.
Import ListNotations.
Open Scope Z_scope.
Lemma placeholder : True. Proof. exact I. Qed.
