(* C07: proofs about the stream re-framing model (Stream/Model.v) against the
   property predicates of Stream/Spec.v. *)
From Coq Require Import ZArith List Bool Lia.
From GoCoap Require Import Base.Bytes Gen.StreamConsts Stream.Model Stream.Spec.
Import ListNotations.
Open Scope Z_scope.

Ltac Zify.zify_post_hook ::= Z.div_mod_to_equations.

Lemma blen_app {A} (a b : list A) : blen (a ++ b) = blen a + blen b.
Proof. unfold blen. rewrite app_length. lia. Qed.
Lemma blen_nonneg {A} (a : list A) : 0 <= blen a.
Proof. unfold blen. lia. Qed.
Lemma blen_cons {A} (x : A) (a : list A) : blen (x :: a) = 1 + blen a.
Proof. unfold blen. cbn [length]. lia. Qed.

Lemma firstn_app_l {A} (a b : list A) n : (n <= length a)%nat -> firstn n (a ++ b) = firstn n a.
Proof.
  intros H. rewrite firstn_app. replace (n - length a)%nat with 0%nat by lia.
  cbn [firstn]. apply app_nil_r.
Qed.
Lemma skipn_app_l {A} (a b : list A) n : (n <= length a)%nat -> skipn n (a ++ b) = skipn n a ++ b.
Proof.
  intros H. rewrite skipn_app. replace (n - length a)%nat with 0%nat by lia. reflexivity.
Qed.
Lemma firstn_exact {A} (a b : list A) : firstn (length a) (a ++ b) = a.
Proof. rewrite firstn_app_l by lia. apply firstn_all. Qed.
Lemma skipn_exact {A} (a b : list A) : skipn (length a) (a ++ b) = b.
Proof. rewrite skipn_app_l by lia. rewrite skipn_all. reflexivity. Qed.

(* ================================================================== *)
(* Part 1: the accumulate-then-parse loop, for any one-frame function  *)
(* whose decided answers are stable under extension of the buffer      *)

Section Loop.
  Variable stp : list Z -> sres.
  Hypothesis stp_emit_len : forall b it n, stp b = Emit it n -> (0 < n <= length b)%nat.
  Hypothesis stp_emit_stable : forall b it n c, stp b = Emit it n -> stp (b ++ c) = Emit it n.
  Hypothesis stp_fail_stable : forall b e c, stp b = Fail e -> stp (b ++ c) = Fail e.

  (* any fuel above the buffer length gives the same result: the fuel of [feed_with] never runs out *)
  Lemma drain_fuel : forall f1 f2 b acc, (length b < f1)%nat -> (length b < f2)%nat ->
    drain stp f1 b acc = drain stp f2 b acc.
  Proof.
    induction f1 as [|f1 IH]; intros f2 b acc H1 H2; [lia|].
    destruct f2 as [|f2]; [lia|]. cbn [drain].
    destruct (stp b) as [|e|it n] eqn:E; try reflexivity.
    apply stp_emit_len in E. apply IH; rewrite skipn_length; lia.
  Qed.

  Lemma drain_app : forall f b acc c, (length b < f)%nat ->
    drain stp (S (length (b ++ c))) (b ++ c) acc =
    (let r := drain stp f b acc in
     if running r then drain stp (S (length (buf r ++ c))) (buf r ++ c) (out r) else r).
  Proof.
    induction f as [|f IH]; intros b acc c Hf; [lia|].
    cbn [drain]. destruct (stp b) as [|e|it n] eqn:E.
    - reflexivity.
    - rewrite (stp_fail_stable _ _ c E). reflexivity.
    - rewrite (stp_emit_stable _ _ _ c E).
      pose proof (stp_emit_len _ _ _ E) as Hn.
      rewrite skipn_app_l by lia.
      rewrite (drain_fuel (length (b ++ c)) (S (length (skipn n b ++ c)))).
      + apply IH. rewrite skipn_length. lia.
      + rewrite !app_length, skipn_length. lia.
      + lia.
  Qed.

  Theorem feed_app : forall s a c, feed_with stp (feed_with stp s a) c = feed_with stp s (a ++ c).
  Proof.
    intros s a c. unfold feed_with at 2 3. destruct (running s) eqn:R.
    - rewrite app_assoc. unfold feed_with.
      symmetry. apply (drain_app (S (length (buf s ++ a)))). lia.
    - unfold feed_with. rewrite R. reflexivity.
  Qed.

  Lemma fold_feed : forall cs s c,
    fold_left (feed_with stp) cs (feed_with stp s c) = feed_with stp s (c ++ concat cs).
  Proof.
    induction cs as [|d cs IH]; intros s c; cbn [fold_left concat].
    - rewrite app_nil_r. reflexivity.
    - rewrite feed_app, IH, app_assoc. reflexivity.
  Qed.

  Hypothesis stp_nil : stp [] = Wait.

  Theorem segmentation : forall cs, fold_left (feed_with stp) cs init = feed_with stp init (concat cs).
  Proof.
    intros [|c cs]; cbn [fold_left concat].
    - unfold feed_with, init. cbn. rewrite stp_nil. reflexivity.
    - rewrite fold_feed. reflexivity.
  Qed.

  (* a failed connection stays as it is *)
  Lemma failed_absorbing : forall cs s, running s = false -> fold_left (feed_with stp) cs s = s.
  Proof.
    induction cs as [|c cs IH]; intros s R; cbn [fold_left]; [reflexivity|].
    unfold feed_with at 2. rewrite R. apply IH, R.
  Qed.

  (* a run of frames each of which [stp] recognises at the front of any buffer *)
  Lemma drain_frames : forall (fs : list (list Z * mitem)) rest acc f,
    (forall e it r, In (e, it) fs -> stp (e ++ r) = Emit it (length e)) ->
    (length (concat (map fst fs) ++ rest) < f)%nat ->
    drain stp f (concat (map fst fs) ++ rest) acc =
    drain stp (S (length rest)) rest (acc ++ map snd fs).
  Proof.
    induction fs as [|[e it] fs IH]; intros rest acc f Hall Hf; cbn [map concat fst snd] in Hf |- *.
    - rewrite app_nil_r. cbn [app] in *. apply drain_fuel; lia.
    - destruct f as [|f]; [lia|]. cbn [drain].
      rewrite <- app_assoc. rewrite (Hall e it _ (or_introl eq_refl)).
      rewrite skipn_exact.
      pose proof (stp_emit_len _ _ _ (Hall e it [] (or_introl eq_refl))) as Hn.
      rewrite IH.
      + rewrite <- app_assoc. reflexivity.
      + intros e' it' r Hin. apply Hall. right. exact Hin.
      + rewrite <- app_assoc, app_length in Hf. lia.
  Qed.
End Loop.

(* ================================================================== *)
(* Part 2: the header decoder and the one-frame function               *)

Lemma ltb_app_false {A} (r c : list A) n : (blen r <? n) = false -> (blen (r ++ c) <? n) = false.
Proof. intros H. apply Z.ltb_ge in H. apply Z.ltb_ge. rewrite blen_app. pose proof (blen_nonneg c). lia. Qed.

(* a header that is decided on a buffer is decided identically on every extension *)
Lemma decode_header_stable fx b c :
  decode_header_gen fx b <> HShort -> decode_header_gen fx (b ++ c) = decode_header_gen fx b.
Proof.
  destruct b as [|b0 r]; [intros H; cbn in H; congruence|].
  cbn [app]. unfold decode_header_gen.
  destruct (fx && (MaxTokenSize <? b0 mod 16)); [reflexivity|].
  destruct (blen r <? Z.of_nat (ext_size (b0 / 16))) eqn:E1; [congruence|].
  rewrite (ltb_app_false r c _ E1).
  assert (Hle : (ext_size (b0 / 16) <= length r)%nat) by (apply Z.ltb_ge in E1; unfold blen in E1; lia).
  rewrite (firstn_app_l r c _ Hle), (skipn_app_l r c _ Hle).
  destruct (fx && (b0 / 16 =? 15) && (messageMaxLen <? be (firstn (ext_size (b0 / 16)) r))); [reflexivity|].
  destruct (skipn (ext_size (b0 / 16)) r) as [|code r3]; [congruence|].
  cbn [app]. destruct (blen r3 <? b0 mod 16) eqn:E2; [congruence|].
  rewrite (ltb_app_false r3 c _ E2). reflexivity.
Qed.

(* an accepted header lies inside the buffer *)
Lemma decode_header_ok_len fx b hlen mlen code tkl :
  decode_header_gen fx b = HOk hlen mlen code tkl -> 2 <= hlen <= blen b /\ 0 <= tkl < 16 /\ 0 <= mlen < W32.
Proof.
  destruct b as [|b0 r]; [cbn; congruence|]. unfold decode_header_gen.
  destruct (fx && (MaxTokenSize <? b0 mod 16)); [congruence|].
  destruct (blen r <? Z.of_nat (ext_size (b0 / 16))) eqn:E1; [congruence|].
  destruct (fx && (b0 / 16 =? 15) && (messageMaxLen <? be (firstn (ext_size (b0 / 16)) r))); [congruence|].
  destruct (skipn (ext_size (b0 / 16)) r) as [|code' r3] eqn:ES; [congruence|].
  destruct (blen r3 <? b0 mod 16) eqn:E2; [congruence|].
  intros H.
  assert (Hh : hlen = 1 + Z.of_nat (ext_size (b0 / 16)) + 1 + b0 mod 16) by congruence.
  assert (Ht : tkl = b0 mod 16) by congruence.
  assert (Hm : mlen = (1 + Z.of_nat (ext_size (b0 / 16)) + 1 + b0 mod 16 +
                        op_len (b0 / 16) (be (firstn (ext_size (b0 / 16)) r)) mod W32) mod W32) by congruence.
  clear H. subst hlen tkl mlen.
  apply Z.ltb_ge in E1, E2.
  assert (HL : blen r = Z.of_nat (ext_size (b0 / 16)) + 1 + blen r3).
  { rewrite <- (firstn_skipn (ext_size (b0 / 16)) r) at 1. rewrite blen_app, ES, blen_cons.
    unfold blen at 1. rewrite firstn_length. unfold blen in E1. lia. }
  rewrite blen_cons. pose proof (blen_nonneg r3).
  pose proof (Z.mod_pos_bound b0 16 ltac:(lia)).
  split; [lia|]. split; [lia|]. apply Z.mod_pos_bound. reflexivity.
Qed.

(* [step] never gives up a decision when more bytes arrive *)
Lemma step_stable fx max b c : step_gen fx max b <> Wait -> step_gen fx max (b ++ c) = step_gen fx max b.
Proof.
  destruct b as [|b0 r]; [cbn; congruence|].
  cbn [app]. unfold step_gen. change (b0 :: r ++ c) with ((b0 :: r) ++ c).
  set (b := b0 :: r).
  destruct (decode_header_gen fx b) as [|e|hlen mlen code tkl] eqn:E; [congruence| |].
  - rewrite decode_header_stable by congruence. rewrite E. reflexivity.
  - rewrite decode_header_stable by congruence. rewrite E.
    destruct (max <? mlen); [reflexivity|].
    destruct (blen b <? mlen) eqn:E2; [congruence|].
    rewrite (ltb_app_false b c _ E2).
    pose proof (decode_header_ok_len _ _ _ _ _ _ E) as (_ & _ & Hm).
    apply Z.ltb_ge in E2. unfold blen in E2.
    rewrite firstn_app_l by lia. reflexivity.
Qed.

Lemma unmarshal_nil fx : unmarshal_gen fx [] = None.
Proof. reflexivity. Qed.

Lemma step_emit_len fx max b it n : step_gen fx max b = Emit it n -> (0 < n <= length b)%nat.
Proof.
  destruct b as [|b0 r]; [cbn; congruence|]. unfold step_gen. set (b := b0 :: r).
  destruct (decode_header_gen fx b) as [|e|hlen mlen code tkl]; try congruence.
  destruct (max <? mlen); [congruence|]. destruct (blen b <? mlen); [congruence|].
  destruct (firstn (Z.to_nat mlen) b) as [|x fr] eqn:EF.
  - rewrite unmarshal_nil. congruence.
  - destruct (unmarshal_gen fx (x :: fr)); [|congruence].
    intros H. assert (Hn : n = length (x :: fr)) by congruence. subst n.
    split; [cbn [length]; lia|].
    rewrite <- EF, firstn_length. lia.
Qed.

Lemma step_emit_stable fx max b it n c : step_gen fx max b = Emit it n -> step_gen fx max (b ++ c) = Emit it n.
Proof. intros H. rewrite step_stable; [exact H|congruence]. Qed.
Lemma step_fail_stable fx max b e c : step_gen fx max b = Fail e -> step_gen fx max (b ++ c) = Fail e.
Proof. intros H. rewrite step_stable; [exact H|congruence]. Qed.
Lemma step_nil fx max : step_gen fx max [] = Wait.
Proof. reflexivity. Qed.

(* ---- the loop theorems for the real one-frame function ---- *)

Theorem feed_app_step : forall max s a c, feed max (feed max s a) c = feed max s (a ++ c).
Proof.
  intros max. apply feed_app.
  - apply step_emit_len. - apply step_emit_stable. - apply step_fail_stable.
Qed.

Theorem segmentation_step : forall max cs, fold_left (feed max) cs init = feed max init (concat cs).
Proof.
  intros max. apply segmentation.
  - apply step_emit_len. - apply step_emit_stable. - apply step_fail_stable. - apply step_nil.
Qed.

(* header prefix-stability: DecodeHeader answers ErrShortRead exactly on the
   proper prefixes of a header *)
Theorem header_prefix fx b hlen mlen code tkl :
  decode_header_gen fx b = HOk hlen mlen code tkl ->
  forall n, decode_header_gen fx (firstn n b) =
            if Z.of_nat n <? hlen then HShort else HOk hlen mlen code tkl.
Proof.
  intros H n.
  destruct (Z.ltb_spec (Z.of_nat n) hlen) as [Hlt|Hge].
  - (* fewer bytes than the header: any decided answer would carry over to b *)
    destruct (decode_header_gen fx (firstn n b)) as [|e|h' m' c' t'] eqn:E; [reflexivity| |].
    + pose proof (decode_header_stable fx (firstn n b) (skipn n b)) as S.
      rewrite firstn_skipn, E, H in S. discriminate S. congruence.
    + pose proof (decode_header_stable fx (firstn n b) (skipn n b)) as S.
      rewrite firstn_skipn, E, H in S. specialize (S ltac:(congruence)). injection S as -> -> -> ->.
      apply decode_header_ok_len in E. destruct E as ((_ & E) & _).
      unfold blen in E. rewrite firstn_length in E. lia.
  - (* the whole header is there *)
    pose proof (decode_header_ok_len _ _ _ _ _ _ H) as ((H2 & Hb) & Ht & Hm).
    destruct b as [|b0 r]; [cbn in H; congruence|].
    destruct n as [|n]; [lia|]. cbn [firstn].
    revert H. unfold decode_header_gen.
    destruct (fx && (MaxTokenSize <? b0 mod 16)); [congruence|].
    destruct (blen r <? Z.of_nat (ext_size (b0 / 16))) eqn:E1; [congruence|].
    set (ext := ext_size (b0 / 16)) in *.
    destruct (fx && (b0 / 16 =? 15) && (messageMaxLen <? be (firstn ext r))) eqn:E3; [congruence|].
    destruct (skipn ext r) as [|code' r3] eqn:ES; [congruence|].
    destruct (blen r3 <? b0 mod 16) eqn:E2; [congruence|].
    intros H.
    assert (Hh : hlen = 1 + Z.of_nat ext + 1 + b0 mod 16) by congruence.
    apply Z.ltb_ge in E1, E2.
    pose proof (Z.mod_pos_bound b0 16 ltac:(lia)) as Hb0.
    assert (Hn : (ext + 1 + Z.to_nat (b0 mod 16) <= n)%nat) by lia.
    assert (Hlen : (ext <= length r)%nat) by (unfold blen in E1; lia).
    assert (E1' : (blen (firstn n r) <? Z.of_nat ext) = false).
    { apply Z.ltb_ge. unfold blen. rewrite firstn_length. lia. }
    rewrite E1'.
    assert (F1 : firstn ext (firstn n r) = firstn ext r).
    { rewrite firstn_firstn. f_equal. lia. }
    rewrite F1, E3.
    assert (F2 : skipn ext (firstn n r) = firstn (n - ext) (skipn ext r)).
    { apply skipn_firstn_comm. }
    rewrite F2, ES.
    destruct (n - ext)%nat as [|k] eqn:EK; [lia|]. cbn [firstn].
    assert (E2' : (blen (firstn k r3) <? b0 mod 16) = false).
    { apply Z.ltb_ge. unfold blen in *. rewrite firstn_length. lia. }
    rewrite E2'. exact H.
Qed.
