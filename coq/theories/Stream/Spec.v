(* C07 as executable predicates, written from the property text and from
   RFC 8323 section 3.2 (framing) / RFC 7252 section 3.1 (option encoding) only.
   All arithmetic is unbounded here (no uint32). *)
From Coq Require Import ZArith NArith List Bool.
From GoCoap Require Import Base.Bytes.
Import ListNotations.
Open Scope Z_scope.

(* a message as the sender means it: options as (delta to the previous option number, value) *)
Record frame := MkFrame { f_code : Z; f_tok : list Z; f_opts : list (Z * list Z); f_pay : list Z }.

(* RFC 7252 3.1: nibble and extension bytes of an option delta / length *)
Definition ext_enc (v : Z) : Z * list Z :=
  if v <? 13 then (v, [])
  else if v <? 269 then (13, [v - 13])
  else (14, [(v - 269) / 256; (v - 269) mod 256]).

Definition enc_opt (o : Z * list Z) : list Z :=
  let '(dn, de) := ext_enc (fst o) in
  let '(ln, le) := ext_enc (blen (snd o)) in
  (16 * dn + ln) :: de ++ le ++ snd o.

Definition enc_opts (os : list (Z * list Z)) : list Z := concat (map enc_opt os).

Definition body (f : frame) : list Z :=
  enc_opts (f_opts f) ++ match f_pay f with [] => [] | p => 255 :: p end.

(* RFC 8323 3.2: Len nibble / TKL byte followed by the extended length *)
Definition len_hdr (L tkl : Z) : list Z :=
  if L <? 13 then [16 * L + tkl]
  else if L <? 269 then [16 * 13 + tkl; L - 13]
  else if L <? 65805 then [16 * 14 + tkl; (L - 269) / 256; (L - 269) mod 256]
  else let e := L - 65805 in
       [16 * 15 + tkl; e / 16777216; (e / 65536) mod 256; (e / 256) mod 256; e mod 256].

Definition encode_frame (f : frame) : list Z :=
  len_hdr (blen (body f)) (blen (f_tok f)) ++ f_code f :: f_tok f ++ body f.

Definition frame_size (f : frame) : Z := blen (encode_frame f).

(* option numbers stay below 2^16, deltas and value lengths are encodable *)
Fixpoint opts_wf (prev : Z) (os : list (Z * list Z)) : bool :=
  match os with
  | [] => true
  | (d, v) :: r =>
    (0 <=? d) && (prev + d <=? 65535) && (blen v <=? 65804) && bytes_ok v && opts_wf (prev + d) r
  end.

Definition frame_wf (f : frame) : bool :=
  byte_ok (f_code f) && bytes_ok (f_tok f) && (blen (f_tok f) <=? 8) &&
  opts_wf 0 (f_opts f) && bytes_ok (f_pay f).

(* what the receiving application sees of a message: code, token, payload *)
Definition seen (f : frame) : Z * list Z * list Z := (f_code f, f_tok f, f_pay f).

(* RFC 8323 5: 7.01 CSM, 7.02 Ping, 7.03 Pong, 7.04 Release, 7.05 Abort *)
Definition spec_is_signal (code : Z) : bool := (225 <=? code) && (code <=? 229).

(* ---- things put on the wire by a test peer ---- *)
Inductive sitem :=
| SMsg (f : frame)            (* a message, encoded per the RFCs above *)
| SRaw (bs : list Z).         (* arbitrary bytes: an oversize header with or without (part of) a body, junk, a partial frame *)

Definition item_bytes (i : sitem) : list Z :=
  match i with SMsg f => encode_frame f | SRaw bs => bs end.

Definition nth_byte (l : list Z) (n : nat) : Z := nth n l 0.

(* RFC reading of a frame start: Some (header length incl. code and token, total declared frame size) *)
Definition declared (bs : list Z) : option (Z * Z) :=
  match bs with
  | [] => None
  | b0 :: r =>
    let nib := b0 / 16 in
    let tkl := b0 mod 16 in
    let ext := if nib <? 13 then 0%nat else if nib =? 13 then 1%nat else if nib =? 14 then 2%nat else 4%nat in
    if blen r <? Z.of_nat ext then None
    else
      let e := be (firstn ext r) in
      let L := if nib <? 13 then nib else if nib =? 13 then 13 + e else if nib =? 14 then 269 + e else 65805 + e in
      let h := 1 + Z.of_nat ext + 1 + tkl in
      Some (h, h + L)
  end.

Inductive verdict :=
| VGood (f : frame)           (* must be delivered *)
| VOver (hdr_end : Z)         (* declares more than max: connection must be closed at its header *)
| VPartial                    (* incomplete frame at the very end of the stream: nothing to deliver, no error *)
| VSilent.                    (* malformed input: the property says nothing about what follows *)

Definition classify (max : Z) (last : bool) (i : sitem) : verdict :=
  match i with
  | SMsg f =>
    if frame_wf f then
      if frame_size f <=? max then VGood f
      else VOver (frame_size f - blen (body f))
    else VSilent
  | SRaw bs =>
    (* RFC 7252 3 / RFC 8323 3.2: token lengths 9-15 are a message format error *)
    if match bs with b0 :: _ => 8 <? b0 mod 16 | [] => false end then VSilent else
    match declared bs with
    | None => if last then VPartial else VSilent
    | Some (h, total) =>
      if max <? total then VOver h
      else if last && (blen bs <? total) then VPartial
      else VSilent
    end
  end.

(* order-sensitive checksum used for observations (two running sums; cheap to
   evaluate, mirrored by c07Sum in harness/c07.go) *)
Definition fsum (l : list Z) : Z :=
  let r := fold_left (fun (p : Z * Z) b => let a := fst p + b + 1 in (a, snd p + a)) l (0, 0) in
  (snd r mod 68719476736) * 268435456 + fst r mod 268435456.

(* observation of one delivered message: code, token length, token checksum, payload length, payload checksum *)
Inductive obs := Ob (code tkl tcs plen pcs : Z).
Definition obs_eqb (a b : obs) : bool :=
  match a, b with Ob c1 t1 s1 p1 q1, Ob c2 t2 s2 p2 q2 =>
    (c1 =? c2) && (t1 =? t2) && (s1 =? s2) && (p1 =? p2) && (q1 =? q2) end.
Definition obs_of_seen (x : Z * list Z * list Z) : obs :=
  let '(c, t, p) := x in Ob c (blen t) (fsum t) (blen p) (fsum p).

Fixpoint is_prefix (a b : list obs) : bool :=
  match a, b with
  | [], _ => true
  | x :: a', y :: b' => obs_eqb x y && is_prefix a' b'
  | _, _ => false
  end.
Definition obs_list_eqb := list_eqb obs_eqb.
Definition obs_code (o : obs) : Z := match o with Ob c _ _ _ _ => c end.
Fixpoint zprefix (a b : list Z) : bool :=
  match a, b with
  | [], _ => true
  | x :: a', y :: b' => (x =? y) && zprefix a' b'
  | _, _ => false
  end.
Definition zlist_eqb := list_eqb Z.eqb.

Definition sum (l : list Z) : Z := fold_left Z.add l 0.

(* Walk the sent items up to the first one that is not a good frame.
   Returns the expected handler log, the expected signal log (reversed
   accumulators), the offset of that item and its verdict (None: all good). *)
Fixpoint expect (max : Z) (items : list sitem) (off : Z) (hand sig : list obs) : list obs * list obs * Z * option verdict :=
  match items with
  | [] => (rev hand, rev sig, off, None)
  | i :: r =>
    match classify max (match r with [] => true | _ => false end) i with
    | VGood f =>
      let o := obs_of_seen (seen f) in
      if spec_is_signal (f_code f) then expect max r (off + frame_size f) hand (o :: sig)
      else expect max r (off + frame_size f) (o :: hand) sig
    | v => (rev hand, rev sig, off, Some v)
    end
  end.

(* The property on an observed run. The peer offered the whole stream cut into
   [chunks]; [o_hand] is the handler log, [o_sig] the codes seen by the signal callback, [o_err] the
   class of the error the connection ended with (0 = none / end of stream),
   [o_reads] the number of reads that returned data before the connection
   stopped reading.
   0 = property holds; 1 = a sent message missing, altered, duplicated or out of
   order; 2 = something delivered from or after an oversize frame; 3 = oversize
   frame did not end the connection with an error; 4 = the connection kept
   reading after the oversize header was complete; 5 = connection ended with an
   error although every frame was within the limit; 6 = the connection panicked
   or hung (error classes 7 / 8 of the harness). *)
Definition c07_class (max : Z) (items : list sitem) (chunks : list Z)
           (o_hand : list obs) (o_sig : list Z) (o_err o_reads : Z) : N :=
  let '(eh, es0, off, v) := expect max items 0 [] [] in
  let es := map obs_code es0 in
  (* a panic (7) or a hang (8) of the connection is never an acceptable way to end *)
  if (o_err =? 7) || (o_err =? 8) then 6%N else
  match v with
  | None | Some VPartial | Some (VGood _) =>
    if negb (obs_list_eqb o_hand eh && zlist_eqb o_sig es) then 1%N
    else if negb (o_err =? 0) then 5%N else 0%N
  | Some (VOver h) =>
    if negb (is_prefix eh o_hand && zprefix es o_sig) then 1%N
    else if negb (obs_list_eqb o_hand eh && zlist_eqb o_sig es) then 2%N
    else if sum chunks <? off + h then
      (* the stream ended inside the oversize header: nothing to close on yet *)
      (if negb (o_err =? 0) then 5%N else 0%N)
    else if o_err =? 0 then 3%N
    else
      (* bytes handed over before the last read that returned data: the header must not have been complete then *)
      let before := sum (firstn (Z.to_nat (o_reads - 1)) chunks) in
      if (1 <=? o_reads) && (off + h <=? before) then 4%N else 0%N
  | Some VSilent =>
    if negb (is_prefix eh o_hand && zprefix es o_sig) then 1%N else 0%N
  end.
