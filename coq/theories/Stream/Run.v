(* Evaluators used by the correspondence shards of C07. A case carries what a
   scripted peer put on the wire, how the bytes were cut into reads, and what
   was observed on the real tcp/client.Conn. *)
From Coq Require Import ZArith NArith List Bool Lia.
From GoCoap Require Import Base.Cases Base.Bytes Gen.StreamConsts Stream.Model Stream.Spec.
Import ListNotations.
Open Scope Z_scope.

(* items as written by the harness: payloads / bodies are (salt, length) *)
Inductive citem :=
| Msg (code : Z) (tok : list Z) (opts : list (Z * list Z)) (psalt plen : Z)
| Raw (hdr : list Z) (bsalt blen : Z).

(* Base.Bytes.gen_body without a division per byte (vm_compute cost) *)
Fixpoint gen_fast (n : nat) (x : Z) : list Z :=
  match n with
  | O => []
  | S n' => x :: gen_fast n' (let y := x + 7 in if y <? 251 then y else y - 251)
  end.

Local Ltac Zify.zify_post_hook ::= Z.div_mod_to_equations.

Lemma gen_fast_from n : forall i salt, gen_fast n ((7 * i + salt) mod 251) = gen_body_from n i salt.
Proof.
  induction n as [|n IH]; intros i salt; cbn [gen_fast gen_body_from]; [reflexivity|].
  f_equal. rewrite <- IH. f_equal. cbv zeta.
  destruct (Z.ltb_spec ((7 * i + salt) mod 251 + 7) 251) as [Hlt|Hge]; lia.
Qed.

Lemma gen_fast_eq salt n : gen_fast n (salt mod 251) = gen_body salt n.
Proof. unfold gen_body. rewrite <- gen_fast_from. f_equal. Qed.

Definition body_of (salt n : Z) : list Z := gen_fast (Z.to_nat n) (salt mod 251).

Definition to_sitem (c : citem) : sitem :=
  match c with
  | Msg code tok opts s n => SMsg (MkFrame code tok opts (body_of s n))
  | Raw h s n => SRaw (h ++ body_of s n)
  end.

(* error classes as the harness writes them: 0 none / end of stream, 1 max
   message size exceeded, 2 cannot unmarshal, 3 header: invalid token length,
   4 header: invalid encoding, 9 anything else *)
Definition err_class (s : status) : Z :=
  match s with
  | Running => 0
  | Failed Oversize => 1
  | Failed BadBody => 2
  | Failed (BadHeader ErrInvalidTokenLen) => 3
  | Failed (BadHeader ErrInvalidEncoding) => 4
  end.

(* direct observation of tcp/coder.DecodeHeader on one prefix: kind 0 ErrShortRead, 1 ok, 3 ErrInvalidTokenLen,
   4 ErrInvalidEncoding, 9 other; for kind 1: h.Length, h.MessageLength, h.Code, len(h.Token) *)
Inductive hobs := HO (kind hlen mlen code tkl : Z).

Definition hobs_of (r : hres) : hobs :=
  match r with
  | HShort => HO 0 0 0 0 0
  | HErr ErrInvalidTokenLen => HO 3 0 0 0 0
  | HErr ErrInvalidEncoding => HO 4 0 0 0 0
  | HOk hlen mlen code tkl => HO 1 hlen mlen code tkl
  end.

Definition hobs_eqb (a b : hobs) : bool :=
  match a, b with HO k1 h1 m1 c1 t1, HO k2 h2 m2 c2 t2 =>
    (k1 =? k2) && (h1 =? h2) && (m1 =? m2) && (c1 =? c2) && (t1 =? t2) end.

(* results of the model on all prefixes of bs of length n, n+1, ..., in order *)
Fixpoint hdr_prefixes (fuel : nat) (n : nat) (bs : list Z) : list hobs :=
  match fuel with
  | O => []
  | S f => hobs_of (decode_header (firstn n bs)) :: hdr_prefixes f (S n) bs
  end.

(* once DecodeHeader has decided (anything but ErrShortRead) the answer must not change on longer prefixes *)
Fixpoint hdr_stable (prev : option hobs) (l : list hobs) : bool :=
  match l with
  | [] => true
  | x :: r =>
    match prev with
    | Some p => hobs_eqb p x && hdr_stable prev r
    | None => match x with HO 0 _ _ _ _ => hdr_stable None r | _ => hdr_stable (Some x) r end
    end
  end.

(* chunk sizes are run-length encoded in case files: (size, repetitions) *)
Definition unrle (l : list (Z * Z)) : list Z := flat_map (fun p => repeat (fst p) (Z.to_nat (snd p))) l.

Inductive case :=
| Stream (cache max : Z) (items : list citem) (slen scs : Z) (rchunks : list (Z * Z))
         (o_acc o_hand : list obs) (o_sig : list Z) (o_err o_reads o_bytes o_badreq : Z)
(* DecodeHeader called directly on every prefix of bs (lengths 0 .. length bs) *)
| Hdr (bs : list Z) (o : list hobs)
(* the handler keeps (hijacks) every message: what it read on delivery, and what the same messages
   read after the rest of the stream went through the connection's receive buffer *)
| Held (o_hand o_held : list obs).

Definition obs_of_item (m : mitem) : obs :=
  Ob (m_code m) (blen (m_tok m)) (fsum (m_tok m)) (blen (m_pay m)) (fsum (m_pay m)).

(* cut a byte string by a list of sizes *)
Fixpoint cut (sizes : list Z) (s : list Z) : list (list Z) :=
  match sizes with
  | [] => []
  | n :: r => firstn (Z.to_nat n) s :: cut r (skipn (Z.to_nat n) s)
  end.

(* Session.Run: read, append, processBuffer, until an error *)
Fixpoint run (max : Z) (s : state) (chunks : list (list Z)) (reads bytes : Z) : state * Z * Z :=
  match chunks with
  | [] => (s, reads, bytes)
  | c :: r => if running s then run max (feed max s c) r (reads + 1) (bytes + blen c) else (s, reads, bytes)
  end.

Definition stream_of (items : list citem) : list Z := concat (map (fun i => item_bytes (to_sitem i)) items).

Definition agrees (c : case) : bool :=
  match c with
  | Stream cache max items slen scs rchunks o_acc o_hand o_sig o_err o_reads o_bytes o_badreq =>
    let chunks := unrle rchunks in
    let s := stream_of items in
    (* the bytes the peer sent are the RFC encoding of the items *)
    (blen s =? slen) && (fsum s =? scs) &&
    (* the chunks cover the stream and respect the read-buffer size *)
    (sum chunks =? slen) && forallb (fun n => (0 <=? n) && (n <=? cache)) chunks &&
    (o_badreq =? 0) &&
    let '(st1, reads, bytes) := run max init (cut chunks s) 0 0 in
    let outs := map obs_of_item (out st1) in
    obs_list_eqb o_acc outs &&
    obs_list_eqb o_hand (map obs_of_item (filter (fun m => negb (is_signal (m_code m))) (out st1))) &&
    zlist_eqb o_sig (map m_code (filter (fun m => is_signal (m_code m)) (out st1))) &&
    (o_err =? err_class (st st1)) && (o_reads =? reads) && (o_bytes =? bytes)
  | Hdr bs o => list_eqb hobs_eqb o (hdr_prefixes (S (length bs)) 0 bs)
  | Held o_hand o_held => obs_list_eqb o_hand o_held
  end.

(* the property (Spec) on the OBSERVED output *)
Definition pclass (c : case) : N :=
  match c with
  | Stream cache max items slen scs rchunks o_acc o_hand o_sig o_err o_reads o_bytes o_badreq =>
    c07_class max (map to_sitem items) (unrle rchunks) o_hand o_sig o_err o_reads
  | Hdr bs o => if hdr_stable None o then 0%N else 7%N
  | Held o_hand o_held => if obs_list_eqb o_hand o_held then 0%N else 8%N
  end.

Definition mismatches (cs : list case) : list N := bad_indices (fun c => negb (agrees c)) cs.
Definition property_failures (cs : list case) : list (N * N) := classes pclass cs.
