(* Model of the stream (TCP) receive path:
     tcp/coder/coder.go      DecodeHeader, Decode, DecodeWithHeader
     message/options.go      Options.Unmarshal, parseExtOpt   (only what decides error / payload start)
     tcp/client/session.go   Run, processBuffer, seekBufferToNextMessage
     tcp/client/conn.go      pushToReceivedMessageQueue, handleSignals (signal / ordinary split)
   Transcribed from the Go code of the REPAIRED tree ([fixed = true]: DecodeHeader
   refuses TKL > 8 and a 4-byte extended length above messageMaxLen, processBuffer
   returns every header error other than ErrShortRead).  [fixed = false] is the
   header decoder as it was before the repair (F16/F7); it is used only for the
   refuted instance in Proofs.v.  Bytes are Z in 0..255; uint32 arithmetic is
   written with explicit [mod W32] exactly where the code computes in uint32.
   Constants come from Gen.StreamConsts (regenerated from the source). *)
From Coq Require Import ZArith List Bool.
From GoCoap Require Import Base.Bytes Gen.StreamConsts.
Import ListNotations.
Open Scope Z_scope.

Definition W32 : Z := 4294967296.

(* ------------------------------------------------------------------ *)
(* tcp/coder: DecodeHeader                                             *)

Inductive herr := ErrInvalidTokenLen | ErrInvalidEncoding.
(* HShort = message.ErrShortRead; HOk h.Length h.MessageLength h.Code tkl *)
Inductive hres := HShort | HErr (e : herr) | HOk (hlen mlen code tkl : Z).

(* number of extended-length bytes selected by the Len nibble (switch in DecodeHeader) *)
Definition ext_size (nib : Z) : nat :=
  if nib <? MessageLength13Base then 0%nat
  else if nib =? 13 then 1%nat
  else if nib =? 14 then 2%nat
  else 4%nat.

(* opLen (a Go int, 64 bit: no wrap here) *)
Definition op_len (nib e : Z) : Z :=
  if nib <? MessageLength13Base then nib
  else if nib =? 13 then MessageLength13Base + e
  else if nib =? 14 then MessageLength14Base + e
  else MessageLength15Base + e.

Definition decode_header_gen (fixed : bool) (d : list Z) : hres :=
  match d with
  | [] => HShort                                   (* len(data) == 0 *)
  | b0 :: r =>
    let nib := b0 / 16 in
    let tkl := b0 mod 16 in
    if fixed && (MaxTokenSize <? tkl) then HErr ErrInvalidTokenLen
    else
      let ext := ext_size nib in
      if blen r <? Z.of_nat ext then HShort        (* len(data) < 1 / 2 / 4 *)
      else
        let e := be (firstn ext r) in
        if fixed && (nib =? 15) && (messageMaxLen <? e) then HErr ErrInvalidEncoding
        else
          let hoff := 1 + Z.of_nat ext in
          (* h.MessageLength = hdrOff + 1 + uint32(tkl) + CastTo[uint32](opLen)   (uint32 arithmetic) *)
          let mlen := (hoff + 1 + tkl + (op_len nib e) mod W32) mod W32 in
          match skipn ext r with
          | [] => HShort                           (* len(data) < 1 : code byte *)
          | code :: r3 =>
            if blen r3 <? tkl then HShort          (* len(data) < int(tkl) *)
            else HOk (hoff + 1 + tkl) mlen code tkl
          end
  end.

Definition decode_header := decode_header_gen true.

(* ------------------------------------------------------------------ *)
(* message: Options.Unmarshal as far as it decides success and where the
   payload starts (the option values themselves are C01/C02's subject)  *)

(* parseExtOpt: Some (processed, value) | None = ErrOptionTruncated *)
Definition parse_ext (data : list Z) (opt : Z) : option (nat * Z) :=
  if opt =? ExtendOptionByteCode then
    match data with
    | b :: _ => Some (1%nat, b + ExtendOptionByteAddend)
    | _ => None
    end
  else if opt =? ExtendOptionWordCode then
    match data with
    | b1 :: b2 :: _ => Some (2%nat, b1 * 256 + b2 + ExtendOptionWordAddend)
    | _ => None
    end
  else Some (0%nat, opt).

(* Some payload | None = any error. [prev] is the previous option number.
   Every iteration consumes at least one byte; fuel = S (length data) is
   never exhausted (Proofs.walk_opts_fuel). *)
Fixpoint walk_opts (fuel : nat) (data : list Z) (prev : Z) : option (list Z) :=
  match fuel with
  | O => None
  | S f =>
    match data with
    | [] => Some []
    | b :: d1 =>
      if b =? 255 then Some d1                                   (* payload marker *)
      else
        let delta := b / 16 in
        let len := b mod 16 in
        if (delta =? ExtendOptionError) || (len =? ExtendOptionError) then None
        else
          match parse_ext d1 delta with
          | None => None
          | Some (p1, delta') =>
            let d2 := skipn p1 d1 in
            match parse_ext d2 len with
            | None => None
            | Some (p2, len') =>
              let d3 := skipn p2 d2 in
              if blen d3 <? len' then None                       (* ErrOptionTruncated *)
              else if 65535 <? prev + delta' then None           (* SafeCastTo[OptionID] *)
              else walk_opts f (skipn (Z.to_nat len') d3) (prev + delta')
            end
          end
    end
  end.

(* ------------------------------------------------------------------ *)
(* a received message as the connection sees it *)
Record mitem := MkItem { m_code : Z; m_tok : list Z; m_pay : list Z }.

(* pool.Message.UnmarshalWithDecoder(coder, frame) = Coder.Decode(frame):
   DecodeHeader again on the frame, length check, DecodeWithHeader. The
   returned count [read] is header length + option bytes + remaining bytes =
   len(frame), which is what seekBufferToNextMessage then consumes. *)
Definition unmarshal_gen (fixed : bool) (frame : list Z) : option mitem :=
  match decode_header_gen fixed frame with
  | HOk hlen mlen code tkl =>
    if blen frame <? mlen then None
    else
      let tok := firstn (Z.to_nat tkl) (skipn (Z.to_nat (hlen - tkl)) frame) in
      let rest := skipn (Z.to_nat hlen) frame in
      match walk_opts (S (length rest)) rest 0 with
      | None => None
      | Some pl => Some (MkItem code tok pl)
      end
  | _ => None
  end.

(* ------------------------------------------------------------------ *)
(* tcp/client/session.go: one iteration of the processBuffer loop      *)

Inductive fail := Oversize | BadHeader (e : herr) | BadBody.
Inductive sres := Wait | Fail (f : fail) | Emit (it : mitem) (n : nat).

Definition step_gen (fixed : bool) (max : Z) (b : list Z) : sres :=
  match b with
  | [] => Wait                                                  (* for buffer.Len() > 0 *)
  | _ =>
    match decode_header_gen fixed b with
    | HShort => Wait                                            (* return nil *)
    | HErr e => Fail (BadHeader e)                              (* return "cannot decode header" *)
    | HOk hlen mlen code tkl =>
      if max <? mlen then Fail Oversize                         (* MessageLength > maxMessageSize *)
      else if blen b <? mlen then Wait                          (* buffer.Len() < MessageLength *)
      else
        let frame := firstn (Z.to_nat mlen) b in
        match unmarshal_gen fixed frame with
        | None => Fail BadBody                                  (* "cannot unmarshal with header" *)
        | Some it => Emit it (length frame)
        end
    end
  end.

Definition step := step_gen true.

(* ------------------------------------------------------------------ *)
(* the loop, generic in the one-frame function *)

Inductive status := Running | Failed (f : fail).
Record state := MkState { buf : list Z; out : list mitem; st : status }.

Definition running (s : state) : bool := match st s with Running => true | _ => false end.

(* processBuffer: repeat [stp] until it waits or fails. When Run returns with
   an error the buffer is dropped with the connection, hence [buf := []]. *)
Fixpoint drain (stp : list Z -> sres) (fuel : nat) (b : list Z) (acc : list mitem) : state :=
  match fuel with
  | O => MkState b acc Running                                  (* unreachable: Proofs.drain_fuel *)
  | S f =>
    match stp b with
    | Wait => MkState b acc Running
    | Fail e => MkState [] acc (Failed e)
    | Emit it n => drain stp f (skipn n b) (acc ++ [it])
    end
  end.

(* one successful Read of [c] bytes followed by processBuffer *)
Definition feed_with (stp : list Z -> sres) (s : state) (c : list Z) : state :=
  if running s then drain stp (S (length (buf s ++ c))) (buf s ++ c) (out s) else s.

Definition feed (max : Z) := feed_with (step max).
Definition feed_unrepaired (max : Z) := feed_with (step_gen false max).

Definition init : state := MkState [] [] Running.

(* handleSignals: these codes are handled inline, everything else is queued for the handler *)
Definition is_signal (code : Z) : bool :=
  (code =? codeCSM) || (code =? codePing) || (code =? codePong) || (code =? codeRelease) || (code =? codeAbort).
