(* C20 for handlers that call SetResponse more than once on one writer (NoResp/SeqModel.v):
   every attempt is judged on its own code -- an earlier refusal (or acceptance) changes nothing --,
   the response left in the writer is the one of the LAST accepted attempt, and the wire follows. *)
From Coq Require Import ZArith List Bool Lia.
From GoCoap Require Import Base.Bytes NoResp.Model NoResp.Spec NoResp.Proofs Dedup.Model Dedup.Proofs
  NoResp.BwModel NoResp.BwProofs NoResp.SeqModel.
Import ListNotations.
Open Scope Z_scope.

Lemma run_attempts_app : forall nv l1 l2 m,
  run_attempts nv m (l1 ++ l2) =
    (fst (run_attempts nv (fst (run_attempts nv m l1)) l2),
     snd (run_attempts nv m l1) ++ snd (run_attempts nv (fst (run_attempts nv m l1)) l2)).
Proof.
  intros nv l1 l2. induction l1 as [|a l1 IH]; intros m; cbn [app run_attempts fst snd].
  - destruct (run_attempts nv m l2); reflexivity.
  - destruct (set_response nv m a) as [m1 x]. rewrite IH.
    destruct (run_attempts nv m1 l1) as [m2 xs]. cbn [fst snd app]. reflexivity.
Qed.

(* what each call returns depends on its own code only: no memory of the earlier calls *)
Theorem seq_refusals_stateless : forall nv l m,
  snd (run_attempts nv m l) = map (fun a => nv_refuses nv (a_code a)) l.
Proof.
  intros nv l. induction l as [|a l IH]; intros m; cbn [run_attempts map snd]; [reflexivity|].
  unfold set_response. destruct (nv_refuses nv (a_code a)) eqn:E;
    [specialize (IH m)|specialize (IH {| rm_mod := true; rm_code := a_code a;
        rm_opts := match a_body a with Some _ => set_cf (a_opts a) | None => a_opts a end;
        rm_pay := match a_body a with Some p => p | None => rm_pay m end |})];
    destruct (run_attempts nv _ l) as [m2 xs]; cbn [snd] in *; rewrite IH; reflexivity.
Qed.

(* ... and is exactly the RFC 7967 decision on the value the request carries, for every attempt of every
   sequence, whatever was attempted before *)
Theorem seq_attempt_exact : forall pre bs post code0 l k a,
  Forall (fun b => 0 <= b) bs ->
  Forall (fun o => fst o <> NoResponseID) pre ->
  nth_error l k = Some a -> 0 <= a_code a ->
  nth_error (snd (seq_session (pre ++ (NoResponseID, bs) :: post) code0 l)) k =
    Some (spec_suppressed (a_code a) (decode_uint32 bs)).
Proof.
  intros pre bs post code0 l k a Hbs Hpre Hk Hc. unfold seq_session.
  rewrite seq_refusals_stateless. rewrite nth_error_map, Hk. cbn [option_map]. f_equal.
  pose proof (rw_exact pre bs post (a_code a) Hc Hbs Hpre) as R. unfold rw_refuses in R.
  unfold nv_refuses. exact R.
Qed.

Theorem seq_attempt_without_option : forall reqopts code0 l,
  get_uint32 reqopts NoResponseID = None ->
  snd (seq_session reqopts code0 l) = map (fun _ => false) l.
Proof.
  intros reqopts code0 l H. unfold seq_session. rewrite seq_refusals_stateless, H. reflexivity.
Qed.

(* attempts that are all refused leave the response message untouched (not modified) *)
Theorem seq_all_refused : forall nv l m,
  Forall (fun a => nv_refuses nv (a_code a) = true) l -> fst (run_attempts nv m l) = m.
Proof.
  intros nv l. induction l as [|a l IH]; intros m H; cbn [run_attempts fst]; [reflexivity|].
  inversion H as [|a' l' Ha Hl]; subst. unfold set_response. rewrite Ha.
  specialize (IH m Hl). destruct (run_attempts nv m l) as [m2 xs]. cbn [fst] in *. exact IH.
Qed.

Lemma run_attempts_cons : forall nv m a l,
  fst (run_attempts nv m (a :: l)) = fst (run_attempts nv (fst (set_response nv m a)) l).
Proof.
  intros nv m a l. cbn [run_attempts]. destruct (set_response nv m a) as [m1 x]. cbn [fst].
  destruct (run_attempts nv m1 l); reflexivity.
Qed.

(* the response left in the writer is the one of the LAST attempt that was not refused: its code and
   options, its body when it gave one; attempts refused before or after it do not matter *)
Theorem seq_last_accepted : forall nv l1 a l2 m,
  nv_refuses nv (a_code a) = false ->
  Forall (fun x => nv_refuses nv (a_code x) = true) l2 ->
  let m' := fst (run_attempts nv m (l1 ++ a :: l2)) in
  rm_mod m' = true /\ rm_code m' = a_code a /\
  rm_opts m' = (match a_body a with Some _ => set_cf (a_opts a) | None => a_opts a end) /\
  (forall p, a_body a = Some p -> rm_pay m' = p).
Proof.
  intros nv l1 a l2 m Ha Hl2 m'. subst m'. rewrite run_attempts_app. cbn [fst].
  rewrite run_attempts_cons. unfold set_response. rewrite Ha. cbn [fst].
  rewrite seq_all_refused by exact Hl2. cbn [rm_mod rm_code rm_opts rm_pay].
  split; [reflexivity|]. split; [reflexivity|]. split; [reflexivity|].
  intros p Hp. rewrite Hp. reflexivity.
Qed.

(* a single attempt is the [BResp] behaviour of Dedup/Model.v *)
Theorem seq_single_is_resp : forall tok reqopts rc o p,
  seq_result tok reqopts [attempt_of rc o p] = handler_result tok reqopts (BResp rc o p).
Proof.
  intros tok reqopts rc o p. unfold seq_result, seq_session. cbn [run_attempts handler_result].
  unfold set_response, rw_refuses, nv_refuses. cbn [attempt_of a_code a_opts a_body].
  destruct (get_uint32 reqopts NoResponseID) as [v|]; [destruct (is_suppressed rc v)|]; cbn [fst rm_mod m_init];
    try reflexivity; destruct p; reflexivity.
Qed.

Theorem sstep_single_is_step : forall s typ mid tok code reqopts rc o p,
  fst (sstep s typ mid tok code reqopts [attempt_of rc o p]) = step s (Req typ mid tok code reqopts (BResp rc o p)).
Proof.
  intros s typ mid tok code reqopts rc o p. unfold sstep. cbn [step].
  destruct (req_lookup typ mid (cache s)) as [en|]; [reflexivity|].
  cbn [fst]. rewrite seq_single_is_resp, <- req_handle_of_result. reflexivity.
Qed.

(* ---------- the wire ---------- *)

Lemma seq_result_none : forall tok reqopts l,
  Forall (fun a => rw_refuses reqopts (a_code a) = true) l -> seq_result tok reqopts l = None.
Proof.
  intros tok reqopts l H. unfold seq_result, seq_session. rewrite seq_all_refused; [reflexivity|].
  eapply Forall_impl; [|exact H]. intros a Ha. exact Ha.
Qed.

(* every attempt of the handler is of a class the request is not interested in: nothing for a
   non-confirmable request, exactly the bare acknowledgement for a confirmable one *)
Theorem seq_wire_all_suppressed : forall s typ mid tok code reqopts l,
  (if is_cacheable_typ typ then cache_load (cache s) mid else None) = None ->
  Forall (fun a => rw_refuses reqopts (a_code a) = true) l ->
  o_out (snd (fst (sstep s typ mid tok code reqopts l))) = (if typ =? CON then [bare_ack mid] else []).
Proof.
  intros s typ mid tok code reqopts l Hm Hl. unfold sstep, req_lookup. rewrite Hm.
  rewrite seq_result_none by exact Hl. cbn [fst snd]. unfold req_handle_res.
  destruct (typ =? CON); reflexivity.
Qed.

(* at least one attempt is of a class that was not suppressed: the response of the LAST such attempt goes
   out -- its code, the request's token, its body if it gave one -- however many attempts were refused
   before it and after it *)
Theorem seq_wire_last_accepted : forall s typ mid tok code reqopts l1 a l2,
  (if is_cacheable_typ typ then cache_load (cache s) mid else None) = None ->
  rw_refuses reqopts (a_code a) = false ->
  Forall (fun x => rw_refuses reqopts (a_code x) = true) l2 ->
  exists r, o_out (snd (fst (sstep s typ mid tok code reqopts (l1 ++ a :: l2)))) = [r] /\
            w_code r = a_code a /\ w_tok r = tok /\ (forall p, a_body a = Some p -> w_pay r = p).
Proof.
  intros s typ mid tok code reqopts l1 a l2 Hm Ha Hl2. unfold sstep, req_lookup. rewrite Hm.
  cbn [fst snd]. unfold seq_result, seq_session.
  destruct (seq_last_accepted (get_uint32 reqopts NoResponseID) l1 a l2 (m_init 0) Ha Hl2) as [H1 [H2 [_ H4]]].
  rewrite H1. unfold req_handle_res.
  destruct (is_special _); destruct (typ =? CON); eexists; (split; [reflexivity|]);
    cbn [w_code w_tok w_pay h_code h_tok h_pay]; repeat split; try exact H2; exact H4.
Qed.

(* the design "evaluate the option once and keep the outcome" (NOT the code) breaks the property: *)
Definition memo_refusals (nv : option Z) (l : list attempt) : list bool :=
  snd (fold_left (fun '(memo, acc) a => let r := memo || nv_refuses nv (a_code a) in (r, acc ++ [r])) l (false, [])).

Theorem seq_memo_refuted :
  exists nv l k a, nth_error l k = Some a /\ nv_refuses nv (a_code a) = false /\
                   nth_error (memo_refusals nv l) k = Some true.
Proof.
  exists (Some 2), [{| a_code := 69; a_opts := []; a_body := None |}; {| a_code := 160; a_opts := []; a_body := None |}],
         1%nat, {| a_code := 160; a_opts := []; a_body := None |}.
  repeat split.
Qed.
