(* C20 for requests that pass through block-wise transfer, as a predicate over an OBSERVED history.
   Written from the property text, RFC 7967 (No-Response) and RFC 7959 (what a block of a body is):

   (a) the handler of a request -- a plain one or one reassembled from a Block1 transfer -- sets a
       response of code rc through the response writer: the attempt is refused exactly when the
       request's No-Response value marks the class of rc as not of interest;
   (b) a refused (suppressed) response puts nothing on the wire for a non-confirmable request and exactly
       the bare acknowledgement (Empty code, no token, no option, no payload, the request's message ID)
       for a confirmable one -- also when the request is the last block of a Block1 transfer;
   (c) a response that was not suppressed is sent: code rc, the request's token, and either the whole
       body or, with a Block2 option, the block of the body that the option names (RFC 7959 2.2);
   (d) the following blocks of a response that was not suppressed are not dropped either: a request
       for block k of it (same token, same No-Response value) is answered with that block.

   "The request's No-Response value": a response answers ONE request message.  The response the handler sets
   for a Block1 transfer is the response to the request that carries the final block (RFC 7959 2.5/2.9: the
   earlier blocks have already been answered, each by its own 2.31 Continue; "the final response" belongs to
   the final request), and RFC 7967 lets a client express its disinterest per request.  So the value that
   counts is the one of the datagram being answered -- for an upload the LAST block's, whatever the earlier
   blocks carried (classes 26/27 when the handler saw another No-Response option than that datagram carries,
   i.e. when first and last block differ; 21/22 otherwise).  A value longer than 4 bytes is not judged.
   Replies that the block-wise layer produces on its own (2.31 Continue for a block, 4.08) are not
   responses the handler set and are not judged; a 4.08 in place of the handler's response is an error
   of the transfer (e.g. a second transfer under a token still in use), not a No-Response matter. *)
From Coq Require Import ZArith NArith List Bool.
From GoCoap Require Import Base.Bytes NoResp.Spec.
From GoCoap Require Dedup.Spec.
Import ListNotations.
Open Scope Z_scope.

Notation owire := Dedup.Spec.owire.
Notation ow_typ := Dedup.Spec.ow_typ. Notation ow_code := Dedup.Spec.ow_code. Notation ow_mid := Dedup.Spec.ow_mid.
Notation ow_tok := Dedup.Spec.ow_tok. Notation ow_opts := Dedup.Spec.ow_opts.
Notation ow_plen := Dedup.Spec.ow_plen. Notation ow_pcs := Dedup.Spec.ow_pcs.

Definition opts_t := list (Z * list Z).

(* one received request with everything observed about it.
   q_set = Some (rc, body): the handler, IF called for this datagram, attempts SetResponse(rc, body);
   q_called: it was called; q_hopts: the options of the request as the handler saw it;
   q_refused: SetResponse returned an error; q_out: datagrams written while it was processed *)
Record oreq := { q_typ : Z; q_mid : Z; q_tok : list Z; q_code : Z; q_opts : opts_t;
                 q_set : option (Z * list Z);
                 q_called : bool; q_hopts : opts_t; q_refused : bool; q_out : list owire }.

Fixpoint first_opt (o : opts_t) (id : Z) : option (list Z) :=
  match o with [] => None | (i, v) :: r => if i =? id then Some v else first_opt r id end.

Definition optb_eqb (a b : option (list Z)) : bool :=
  match a, b with
  | None, None => true
  | Some x, Some y => bytes_eqb x y
  | _, _ => false
  end.

Definition NoResponse := 258. Definition Block2 := 23. Definition Block1 := 27.

(* RFC 7959 2.2: a block option value is NUM * 16 + M * 8 + SZX, a block has 2^(SZX+4) bytes *)
Definition blk_szx (v : Z) : Z := v mod 8.
Definition blk_more (v : Z) : bool := (v / 8) mod 2 =? 1.
Definition blk_num (v : Z) : Z := v / 16.
Definition blk_size (szx : Z) : Z := 2 ^ (szx + 4).

Definition slice (p : list Z) (off n : Z) : list Z := firstn (Z.to_nat n) (skipn (Z.to_nat off) p).

(* the reply [r] carries the body [p] as a whole, or the block of it that its Block2 option names *)
Definition carries_body (r : owire) (p : list Z) : bool :=
  match first_opt (ow_opts r) Block2 with
  | None => (ow_plen r =? blen p) && (ow_pcs r =? csum p)
  | Some bv =>
      let v := be bv in
      if blk_szx v =? 7 then true else
      let off := blk_num v * blk_size (blk_szx v) in
      let d := slice p off (blk_size (blk_szx v)) in
      (ow_plen r =? blen d) && (ow_pcs r =? csum d) && Bool.eqb (blk_more v) (off + blen d <? blen p)
  end.

Definition is_bare_ack (r : owire) (mid : Z) : bool :=
  (ow_typ r =? 2) && (ow_code r =? 0) && (ow_mid r =? mid) && (blen (ow_tok r) =? 0) && (blen (ow_opts r) =? 0)
  && (ow_plen r =? 0).

(* classes: 21 a response of a suppressed class was accepted, 22 a response of a class that was not
   suppressed was refused, 23 a suppressed response (or anything in its place) is on the wire,
   24 a response that was not suppressed is dropped or altered, 25 a following block of a response that
   was not suppressed is dropped or altered, 26/27 = 21/22 for the last block of an upload whose first block
   carried another No-Response option (the handler sees the first block's options) *)

(* (a)-(c) *)
Definition judge_set (e : oreq) (rc : Z) (p : list Z) : N :=
  let mixed := negb (optb_eqb (first_opt (q_opts e) NoResponse) (first_opt (q_hopts e) NoResponse)) in
  let sup := match first_opt (q_opts e) NoResponse with
             | None => Some false
             | Some bs => if (length bs <=? 4)%nat then Some (spec_suppressed rc (be bs)) else None
             end in
  match sup with
  | None => 0%N
  | Some true =>
      if negb (q_refused e) then (if mixed then 26%N else 21%N)
      else match q_out e with
           | [] => if q_typ e =? 0 then 23%N else 0%N
           | [r] => if (q_typ e =? 0) && is_bare_ack r (q_mid e) then 0%N else 23%N
           | _ => 23%N
           end
  | Some false =>
      if q_refused e then (if mixed then 27%N else 22%N)
      else match q_out e with
           | [r] =>
               if (ow_code r =? 136) && negb (rc =? 136) then 0%N     (* the layer's own error reply *)
               else if (ow_code r =? rc) && bytes_eqb (ow_tok r) (q_tok e) && carries_body r p then 0%N else 24%N
           | _ => 24%N
           end
  end.

Definition fresh_mid (rev_prefix : list oreq) (m : Z) : bool :=
  forallb (fun f => negb (q_mid f =? m)) rev_prefix.

(* the most recent earlier request with the token for which the handler was called *)
Fixpoint origin (rev_prefix : list oreq) (tok : list Z) : option oreq :=
  match rev_prefix with
  | [] => None
  | f :: r => if bytes_eqb (q_tok f) tok && q_called f then Some f else origin r tok
  end.

(* (d): [e] was not handed to the handler, is not a duplicate (its message ID is new), is a GET/DELETE
   asking for block k > 0 (in blocks not larger than the size the server chose for the first one) of the
   response that the handler set for the most recent request with this token and that went out as a
   block-wise response; that block exists (its offset lies inside the body) *)
Definition judge_next (rev_prefix : list oreq) (e : oreq) : N :=
  if negb (((q_code e =? 1) || (q_code e =? 4)) && fresh_mid rev_prefix (q_mid e)) then 0%N else
  match first_opt (q_opts e) Block2, first_opt (q_opts e) Block1, origin rev_prefix (q_tok e) with
  | Some bv, None, Some f =>
      match q_set f, q_out f with
      | Some (rc, p), [r0] =>
          let v := be bv in
          let off := blk_num v * blk_size (blk_szx v) in
          if negb (q_refused f) && (ow_code r0 =? rc)
             && (match first_opt (ow_opts r0) Block2 with
                 | Some b0 => blk_more (be b0) && (blk_szx v <=? blk_szx (be b0))   (* the size the server chose *)
                 | None => false
                 end)
             && optb_eqb (first_opt (q_opts e) NoResponse) (first_opt (q_opts f) NoResponse)
             && optb_eqb (first_opt (q_opts f) NoResponse) (first_opt (q_hopts f) NoResponse)
             && (length bv <=? 3)%nat && negb (blk_szx v =? 7) && (0 <? blk_num v) && (off <? blen p)
          then match q_out e with
               | [r] =>
                   if (ow_code r =? rc) && bytes_eqb (ow_tok r) (q_tok e) && carries_body r p
                      && (match first_opt (ow_opts r) Block2 with
                          | Some b1 => blk_num (be b1) * blk_size (blk_szx (be b1)) =? off
                          | None => false
                          end)
                   then 0%N else 25%N
               | _ => 25%N
               end
          else 0%N
      | _, _ => 0%N
      end
  | _, _, _ => 0%N
  end.

Definition judge (rev_prefix : list oreq) (e : oreq) : N :=
  if q_called e then
    match q_set e with Some (rc, p) => judge_set e rc p | None => 0%N end
  else judge_next rev_prefix e.

Fixpoint judge_all (rev_prefix : list oreq) (h : list oreq) : N :=
  match h with
  | [] => 0%N
  | e :: r => let c := judge rev_prefix e in if N.eqb c 0 then judge_all (e :: rev_prefix) r else c
  end.

Definition c20bw_class (h : list oreq) : N := judge_all [] h.
