(* C20 -- a handler (or a chain of middlewares) that calls SetResponse SEVERAL times on one response writer.

   net/responsewriter: New decodes the request's No-Response value once (noResponseValue *uint32);
   every SetResponse(code, contentFormat, d, opts...) call
       if r.noResponseValue != nil { if err := IsNoResponseCode(code, *r.noResponseValue); err != nil { return err } }
       r.response.SetCode(code); r.response.ResetOptionsTo(opts)
       if d != nil { r.response.SetContentFormat(contentFormat); r.response.SetBody(d) }
   looks at ITS code only: the writer keeps no memory of earlier attempts.  What an accepted attempt
   leaves in the response message: the code, the options (replaced), the body only when a reader is given
   (a body set by an earlier accepted attempt stays), the modified flag (SetCode sets it).

   The connection part is the request step of Dedup/Model.v with the handler's result given
   (NoResp/BwModel.v [req_handle_res]). *)
From Coq Require Import ZArith List Bool.
From GoCoap Require Import Base.Bytes NoResp.Model Dedup.Model NoResp.BwModel.
Import ListNotations.
Open Scope Z_scope.

(* one SetResponse(code, TextPlain, body, opts...) call; a_body = None: the reader is nil *)
Record attempt := { a_code : Z; a_opts : opts_t; a_body : option (list Z) }.

(* the response message held by the writer *)
Record rmsg := { rm_mod : bool; rm_code : Z; rm_opts : opts_t; rm_pay : list Z }.

(* the check at the head of SetResponse, on the value decoded by New *)
Definition nv_refuses (nv : option Z) (code : Z) : bool :=
  match nv with Some v => is_suppressed code v | None => false end.

(* SetResponse: the message afterwards, and whether an error was returned *)
Definition set_response (nv : option Z) (m : rmsg) (a : attempt) : rmsg * bool :=
  if nv_refuses nv (a_code a) then (m, true)
  else ({| rm_mod := true; rm_code := a_code a;
           rm_opts := match a_body a with Some _ => set_cf (a_opts a) | None => a_opts a end;
           rm_pay := match a_body a with Some p => p | None => rm_pay m end |}, false).

Fixpoint run_attempts (nv : option Z) (m : rmsg) (l : list attempt) : rmsg * list bool :=
  match l with
  | [] => (m, [])
  | a :: r => let '(m1, x) := set_response nv m a in
              let '(m2, xs) := run_attempts nv m1 r in (m2, x :: xs)
  end.

(* the response message the connection hands to the writer: not modified, no option, no payload *)
Definition m_init (code : Z) : rmsg := {| rm_mod := false; rm_code := code; rm_opts := []; rm_pay := [] |}.

(* responsewriter.New(resp, cc, reqopts...) followed by the attempts *)
Definition seq_session (reqopts : opts_t) (code0 : Z) (l : list attempt) : rmsg * list bool :=
  run_attempts (get_uint32 reqopts NoResponseID) (m_init code0) l.

(* what the handler leaves for processResponse (Dedup.Model.handler_result for a handler that makes the attempts) *)
Definition seq_result (tok : list Z) (reqopts : opts_t) (l : list attempt) : option hres :=
  let m := fst (seq_session reqopts 0 l) in
  if rm_mod m then Some {| h_rst := false; h_code := rm_code m; h_tok := tok; h_opts := rm_opts m; h_pay := rm_pay m |}
  else None.

(* the request step of udp/client.Conn (Dedup.Model.step for [Req]) with such a handler; the third component:
   what each SetResponse call returned (None: the handler was not called) *)
Definition sstep (s : st) (typ mid : Z) (tok : list Z) (code : Z) (reqopts : opts_t) (l : list attempt)
  : st * obs * option (list bool) :=
  let own1 := req_check typ mid (own s) in
  match req_lookup typ mid (cache s) with
  | Some en =>
      let r' := retarget typ mid (e_reply en) in
      ({| cache := cache s; own := own_after_write (Some r') own1 |}, obs_of_reply false (Some r'), None)
  | None =>
      let h := req_handle_res typ mid (seq_result tok reqopts l) own1 in
      ({| cache := req_store mid h (cache s); own := own_after_write (hd_reply h) (hd_own h) |},
       obs_of_reply true (hd_reply h), Some (snd (seq_session reqopts 0 l)))
  end.

(* the attempt a [BResp] behaviour makes (harness: a nil reader for an empty body) *)
Definition attempt_of (rc : Z) (o : opts_t) (p : list Z) : attempt :=
  {| a_code := rc; a_opts := o; a_body := match p with [] => None | _ => Some p end |}.
