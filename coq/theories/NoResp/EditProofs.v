(* C20 -- requests the handler edits before it sets the response: theorems about NoResp/EditModel.v.

   A. the in-place loops of Set/Add/Remove on the whole option array: the array afterwards is the
      list-level result (Opt/Model.v, proved against the sorted-multiset reference in Opt/Proofs.v)
      followed by the UNTOUCHED old contents of the remaining slots ([add_arr_spec], [set_arr_spec],
      [remove_arr_spec]);
   B. for every edit script: what the handler sees is the list-level run ([w_run_live]); the array keeps
      its capacity; a slice header taken before the edits shows a prefix of "new live part ++ stale tail"
      ([w_run_inv]);
   C. the writer decides by the options the request had WHEN THE WRITER WAS CREATED, whatever the handler
      does to the request afterwards ([session_decides_at_creation], [session_exact]), although the edits
      are real ([session_handler_sees_edits], [session_can_remove_option]); the request step of the
      connection with an editing handler is the step of Dedup/Model.v ([estep_is_step]), so the wire
      clause carries over ([edit_wire_suppressed], [edit_wire_passed]);
   D. a writer that kept the slice header and looked the option up when the response is set would NOT
      have the property: for every request whose last option is No-Response and whose array has a free
      slot, adding any option with a smaller number makes it accept every code ([lazy_lookup_loses_option],
      [lazy_lookup_refuted]). *)
From Coq Require Import ZArith List Bool Lia.
From GoCoap Require Import Base.Bytes Gen.OptConsts Opt.Model Opt.Spec Opt.Proofs.
From GoCoap Require NoResp.Model NoResp.Spec NoResp.Proofs.
From GoCoap Require Import NoResp.EditModel.
Import ListNotations.
Open Scope Z_scope.

Ltac Zify.zify_post_hook ::= Z.to_euclidean_division_equations.

Ltac fin2 :=
  try lia; try reflexivity;
  try (subst; rewrite ?Z.sub_diag; reflexivity);
  try (rewrite nthz_take by lia; f_equal; lia);
  try (f_equal; lia).

(* ------------------------------------------------------------------ *)
(* A. the loops on the whole array                                     *)

Lemma sorted_nonempty_fp l id : sorted l -> l <> [] ->
  exists mn mx, is_split l id mn mx /\ find_position l id = (mn, if mx =? len l then -1 else mx).
Proof.
  intros Hs Hne. destruct (find_position_spec l id Hs Hne) as (mx & Hsp & Hmx).
  destruct (find_position l id) as [mn r] eqn:E. cbn [fst snd] in *. subst r. exists mn, mx. split; [assumption|reflexivity].
Qed.

Lemma take_nonempty (a : list opt) n : 0 <= n <= len a -> take a n <> [] -> 0 < n.
Proof.
  intros Hn Hne. destruct (Z.eq_dec n 0) as [->|]; [|lia]. exfalso. apply Hne. reflexivity.
Qed.

Lemma take_empty (a : list opt) n : 0 <= n <= len a -> take a n = [] -> n = 0.
Proof. intros Hn E. rewrite <- (len_take a n Hn), E. reflexivity. Qed.

(* storing into slot 0 of a non-empty array *)
Lemma upd0_spec (a : list opt) o : 0 < len a -> upd a 0 o = [o] ++ drop a 1.
Proof.
  intros H. apply list_ext.
  - rewrite len_upd, len_app, len_cons, len_nil, len_drop by lia. lia.
  - intros j Hj. rewrite len_upd in Hj. rewrite nthz_upd by lia.
    destruct (Z.eqb_spec j 0) as [->|Hne].
    + reflexivity.
    + rewrite nthz_app_r by (rewrite len_cons, len_nil; lia). rewrite len_cons, len_nil.
      rewrite nthz_drop by lia. f_equal; lia.
Qed.

(* storing into a slot of the live part *)
Lemma upd_live_spec (a : list opt) n i o : 0 <= i < n -> n <= len a ->
  upd a i o = upd (take a n) i o ++ drop a n.
Proof.
  intros Hi Hn. apply list_ext.
  - rewrite len_upd, len_app, len_upd, len_take, len_drop by lia. lia.
  - intros j Hj. rewrite len_upd in Hj. rewrite nthz_upd by lia.
    destruct (Z.ltb_spec j n).
    + rewrite nthz_app_l by (rewrite len_upd, len_take; lia).
      rewrite nthz_upd by (rewrite len_take; lia). rewrite nthz_take by lia. reflexivity.
    + rewrite nthz_app_r by (rewrite len_upd, len_take; lia). rewrite len_upd, len_take by lia.
      rewrite nthz_drop by lia. destruct (Z.eqb_spec j i); [lia|]. f_equal; lia.
Qed.

(* insertion at c (shift the tail of the live part one slot to the right, store) *)
Lemma insert_arr_spec (a : list opt) n c o : 0 <= c <= n -> n < len a ->
  upd (shift_right (Z.to_nat (n - c)) a n) c o = splice (take a n) c c [o] ++ drop a (n + 1).
Proof.
  intros Hc Hn.
  destruct (shift_right_spec (Z.to_nat (n - c)) a n) as [L N]; [lia|lia|].
  apply list_ext.
  - rewrite len_upd, L, len_app, len_splice, len_cons, len_nil, len_take, len_drop by (rewrite ?len_take; lia). lia.
  - intros j Hj. rewrite len_upd, L in Hj. rewrite nthz_upd by (rewrite L; lia). rewrite N.
    assert (Ls : len (splice (take a n) c c [o]) = n + 1)
      by (rewrite len_splice, len_cons, len_nil, len_take by (rewrite ?len_take; lia); lia).
    destruct (Z.ltb_spec j (n + 1)).
    + rewrite nthz_app_l by lia. rewrite nthz_splice by (rewrite ?len_take; lia). rewrite len_cons, len_nil.
      bdestr; fin2.
    + rewrite nthz_app_r by lia. rewrite Ls. rewrite nthz_drop by lia.
      bdestr; fin2.
Qed.

(* replacement of the block [c1,c2) (at least one element) by one element: move the tail left, store *)
Lemma replace_arr_spec (a : list opt) n c1 c2 o : 0 <= c1 -> c1 < c2 -> c2 <= n -> n <= len a ->
  upd (move_left (Z.to_nat (n - c2)) a (c1 + 1) c2) c1 o =
    splice (take a n) c1 c2 [o] ++ drop a (c1 + 1 + (n - c2)).
Proof.
  intros H1 H12 H2 Hn.
  destruct (move_left_spec (Z.to_nat (n - c2)) a (c1 + 1) c2) as [L N]; [lia|lia|lia|].
  assert (Ls : len (splice (take a n) c1 c2 [o]) = c1 + 1 + (n - c2))
    by (rewrite len_splice, len_cons, len_nil, len_take by (rewrite ?len_take; lia); lia).
  apply list_ext.
  - rewrite len_upd, L, len_app, Ls, len_drop by lia. lia.
  - intros j Hj. rewrite len_upd, L in Hj. rewrite nthz_upd by (rewrite L; lia). rewrite N.
    destruct (Z.ltb_spec j (c1 + 1 + (n - c2))).
    + rewrite nthz_app_l by lia. rewrite nthz_splice by (rewrite ?len_take; lia). rewrite len_cons, len_nil.
      bdestr; fin2.
    + rewrite nthz_app_r by lia. rewrite Ls. rewrite nthz_drop by lia.
      bdestr; fin2.
Qed.

(* removal of the block [c1,c2) *)
Lemma delete_arr_spec (a : list opt) n c1 c2 : 0 <= c1 -> c1 <= c2 -> c2 <= n -> n <= len a ->
  move_left (Z.to_nat (n - c2)) a c1 c2 = splice (take a n) c1 c2 [] ++ drop a (n - (c2 - c1)).
Proof.
  intros H1 H12 H2 Hn.
  destruct (move_left_spec (Z.to_nat (n - c2)) a c1 c2) as [L N]; [lia|lia|lia|].
  assert (Ls : len (splice (take a n) c1 c2 []) = n - (c2 - c1))
    by (rewrite len_splice, len_nil, len_take by (rewrite ?len_take; lia); lia).
  apply list_ext.
  - rewrite L, len_app, Ls, len_drop by lia. lia.
  - intros j Hj. rewrite L in Hj. rewrite N.
    destruct (Z.ltb_spec j (n - (c2 - c1))).
    + rewrite nthz_app_l by lia. rewrite nthz_splice by (rewrite ?len_take; lia). rewrite len_nil.
      bdestr; fin2.
    + rewrite nthz_app_r by lia. rewrite Ls. rewrite nthz_drop by lia.
      bdestr; fin2.
Qed.

(* Add in place *)
Theorem add_arr_spec (a : list opt) n o : 0 <= n -> n < len a -> sorted (take a n) ->
  add_arr a n o = (add (take a n) o ++ drop a (n + 1), n + 1).
Proof.
  intros H0 Hn Hs. unfold add_arr.
  destruct (take a n) as [|x r] eqn:El.
  - assert (n = 0) by (apply (take_empty a); [lia|assumption]). subst n.
    cbn [find_position]. change (0 =? -1) with false. cbv iota. rewrite Z.sub_diag. cbn [Z.to_nat shift_right].
    unfold add. cbn [find_position]. change (0 =? -1) with false. cbv iota.
    change (len (@nil opt)) with 0. rewrite Z.sub_diag. cbn [Z.to_nat shift_right app].
    rewrite upd0_spec by lia. reflexivity.
  - rewrite <- El in *. assert (Hne : take a n <> []) by (rewrite El; discriminate).
    destruct (sorted_nonempty_fp (take a n) (oid o) Hs Hne) as (mn & mx & Hsp & Hfp).
    rewrite (add_splice (take a n) o mn mx Hne Hsp Hfp). rewrite Hfp.
    destruct Hsp as (S1 & S2 & S3 & _). rewrite len_take in * by lia.
    assert (Hp : (if (if mx =? n then -1 else mx) =? -1 then n else (if mx =? n then -1 else mx)) = mx)
      by (destruct (Z.eqb_spec mx n); [cbn; lia|destruct (Z.eqb_spec mx (-1)); lia]).
    rewrite Hp. rewrite insert_arr_spec by lia. reflexivity.
Qed.

(* Remove in place *)
Theorem remove_arr_spec (a : list opt) n id : 0 <= n <= len a -> sorted (take a n) ->
  remove_arr a n id =
    (Opt.Model.remove (take a n) id ++ drop a (len (Opt.Model.remove (take a n) id)), len (Opt.Model.remove (take a n) id))
  /\ 0 <= len (Opt.Model.remove (take a n) id) <= n.
Proof.
  intros Hn Hs. unfold remove_arr.
  destruct (take a n) as [|x r] eqn:El.
  - assert (n = 0) by (apply (take_empty a); [lia|assumption]). subst n.
    unfold find. cbn [find_position]. cbn. split; [reflexivity|lia].
  - rewrite <- El in *. assert (Hne : take a n <> []) by (rewrite El; discriminate).
    destruct (sorted_nonempty_fp (take a n) id Hs Hne) as (mn & mx & Hsp & Hfp).
    rewrite (remove_splice (take a n) id mn mx Hne Hsp Hfp).
    rewrite (find_split (take a n) id mn mx Hne Hsp Hfp).
    destruct Hsp as (S1 & S2 & S3 & _). rewrite len_take in * by lia.
    assert (Ls : len (splice (take a n) (mn + 1) mx []) = n - (mx - (mn + 1)))
      by (rewrite len_splice, len_nil, len_take by (rewrite ?len_take; lia); lia).
    rewrite Ls.
    destruct (Z.ltb_spec (mn + 1) mx).
    + rewrite delete_arr_spec by lia. split; [reflexivity|lia].
    + assert (mx = mn + 1) by lia. subst mx. rewrite Z.sub_diag, Z.sub_0_r.
      unfold splice. cbn [app]. rewrite take_drop, take_drop. split; [reflexivity|lia].
Qed.

(* Set in place: the three ways the code takes *)
Definition set_arr (a : list opt) (n : Z) (o : opt) : list opt * Z :=
  match set_plan_of (take a n) o with
  | SPSingle => (upd a 0 o, 1)
  | SPReplace i => (upd a i o, n)
  | SPGo ins upTo upFrom => set_go_arr a n o ins upTo upFrom
  end.

Definition grows (p : set_plan) : bool := match p with SPGo _ _ _ => true | _ => false end.

Lemma set_plan_split l o mn mx : l <> [] -> is_split l (oid o) mn mx ->
  find_position l (oid o) = (mn, if mx =? len l then -1 else mx) ->
  set_plan_of l o =
    if mn =? -1 then (if mx =? len l then SPSingle else SPGo 0 1 mx)
    else if mn + 2 =? mx then SPReplace (mn + 1) else SPGo (mn + 1) (mn + 2) mx.
Proof.
  intros Hne (S1 & S2 & S3 & _) Hfp. unfold set_plan_of. rewrite Hfp.
  assert (Hn : 0 < len l) by (destruct l; [congruence|rewrite len_cons; pose proof (len_nonneg l); lia]).
  destruct (Z.eqb_spec mn (-1)) as [E1|E1]; destruct (Z.eqb_spec mx (len l)) as [E|E]; cbn [andb].
  - reflexivity.
  - destruct (Z.eqb_spec mx (-1)); [lia|]. destruct (Z.leb_spec 0 mx); [|lia]. reflexivity.
  - destruct (Z.eqb_spec mn (-1)); [lia|]. destruct (Z.leb_spec 0 mn); [|lia].
    change (-1 <? 0) with true. cbv iota. rewrite E. reflexivity.
  - destruct (Z.eqb_spec mn mx); [lia|]. destruct (Z.leb_spec 0 mn); [|lia].
    destruct (Z.ltb_spec mx 0); [lia|]. reflexivity.
Qed.

Theorem set_arr_spec (a : list opt) n o : 0 <= n <= len a -> sorted (take a n) ->
  (grows (set_plan_of (take a n) o) = true -> n < len a) ->
  set_arr a n o = (set (take a n) o ++ drop a (len (set (take a n) o)), len (set (take a n) o)).
Proof.
  intros Hn Hs Hg. unfold set_arr in *.
  destruct (take a n) as [|x r] eqn:El.
  - assert (n = 0) by (apply (take_empty a); [lia|assumption]). subst n.
    replace (set_plan_of [] o) with (SPGo 0 1 0) in * by reflexivity.
    replace (set [] o) with [o] by reflexivity.
    specialize (Hg eq_refl). unfold set_go_arr. change (0 <? 1) with true. cbv iota.
    change (Z.to_nat (0 - 0)) with 0%nat. cbn [shift_right]. change (1 + (0 - 0)) with 1. change (len [o]) with 1.
    rewrite upd0_spec by lia. reflexivity.
  - rewrite <- El in *. assert (Hne : take a n <> []) by (rewrite El; discriminate).
    destruct (sorted_nonempty_fp (take a n) (oid o) Hs Hne) as (mn & mx & Hsp & Hfp).
    rewrite (set_splice (take a n) o mn mx Hne Hsp Hfp).
    rewrite (set_plan_split (take a n) o mn mx Hne Hsp Hfp) in *.
    assert (Hpos : 0 < n) by (apply (take_nonempty a); [lia|assumption]).
    destruct Hsp as (S1 & S2 & S3 & _). rewrite len_take in * by lia.
    assert (Ls : len (splice (take a n) (mn + 1) mx [o]) = mn + 1 + 1 + (n - mx))
      by (rewrite len_splice, len_cons, len_nil, len_take by (rewrite ?len_take; lia); lia).
    rewrite Ls.
    destruct (Z.eqb_spec mn (-1)) as [E1|E1].
    + subst mn. change (-1 + 1) with 0 in *. destruct (Z.eqb_spec mx n) as [E|E].
      * subst mx. rewrite upd0_spec by lia. unfold splice. rewrite (drop_all (take a n)) by (rewrite len_take; lia).
        replace (0 + 1 + (n - n)) with 1 by lia. reflexivity.
      * specialize (Hg eq_refl). unfold set_go_arr.
        destruct (Z.ltb_spec mx 1).
        -- assert (mx = 0) by lia. subst mx.
           rewrite insert_arr_spec by lia. f_equal; try lia. f_equal. f_equal. lia.
        -- change 1 with (0 + 1) at 1 2. rewrite replace_arr_spec by lia. repeat (f_equal; try lia).
    + destruct (Z.eqb_spec (mn + 2) mx) as [E2|E2].
      * rewrite (upd_live_spec a n) by lia. f_equal; [|lia]. f_equal; [|f_equal; lia].
        apply list_ext.
        -- rewrite len_upd, Ls, len_take by lia. lia.
        -- intros j Hj. rewrite len_upd, len_take in Hj by lia.
           rewrite nthz_upd, nthz_splice, len_cons, len_nil by (rewrite ?len_take; lia).
           bdestr; fin2.
      * specialize (Hg eq_refl). unfold set_go_arr.
        destruct (Z.ltb_spec mx (mn + 2)).
        -- assert (mx = mn + 1) by lia. subst mx.
           rewrite insert_arr_spec by lia. repeat (f_equal; try lia).
        -- replace (mn + 2) with (mn + 1 + 1) by lia. rewrite replace_arr_spec by lia. repeat (f_equal; try lia).
Qed.

Lemma set_len_bound (a : list opt) n o : 0 <= n <= len a -> sorted (take a n) ->
  (grows (set_plan_of (take a n) o) = true -> n < len a) ->
  0 <= len (set (take a n) o) <= len a.
Proof.
  intros Hn Hs Hg.
  destruct (take a n) as [|x r] eqn:El.
  - change (set_plan_of [] o) with (SPGo 0 1 0) in Hg.
    change (set [] o) with [o]. specialize (Hg eq_refl). change (len [o]) with 1. lia.
  - rewrite <- El in *. assert (Hne : take a n <> []) by (rewrite El; discriminate).
    destruct (sorted_nonempty_fp (take a n) (oid o) Hs Hne) as (mn & mx & Hsp & Hfp).
    rewrite (set_splice (take a n) o mn mx Hne Hsp Hfp).
    rewrite (set_plan_split (take a n) o mn mx Hne Hsp Hfp) in *.
    assert (Hpos : 0 < n) by (apply (take_nonempty a); [lia|assumption]).
    destruct Hsp as (S1 & S2 & S3 & _). rewrite len_take in * by lia.
    assert (Ls : len (splice (take a n) (mn + 1) mx [o]) = mn + 1 + 1 + (n - mx))
      by (rewrite len_splice, len_cons, len_nil, len_take by (rewrite ?len_take; lia); lia).
    rewrite Ls.
    destruct (Z.eqb_spec mn (-1)); [destruct (Z.eqb_spec mx n)|destruct (Z.eqb_spec (mn + 2) mx)];
      cbn [grows] in Hg; try specialize (Hg eq_refl); lia.
Qed.

(* ------------------------------------------------------------------ *)
(* B. edit scripts                                                     *)

Definition wf (w : world) : Prop :=
  sorted (w_live w) /\ match req w with Attached n => 0 <= n <= len (orig w) | Detached _ => True end.

(* one primitive step from w to w' whose list-level result is l': the handler sees l', the array keeps its
   capacity, and while the request still lives in the original array that array is l' followed by the
   untouched old contents of the other slots; afterwards the original array is not written any more *)
Definition step_ok (w w' : world) (l' : list opt) : Prop :=
  wf w' /\ w_live w' = l' /\ len (orig w') = len (orig w) /\
  match req w, req w' with
  | Attached _, Attached n' => n' = len l' /\ orig w' = l' ++ drop (orig w) n'
  | _, Detached _ => orig w' = orig w
  | Detached _, Attached _ => False
  end.

Lemma take_app_len (x y : list opt) : take (x ++ y) (len x) = x.
Proof.
  unfold take, len. rewrite Nat2Z.id, firstn_app, Nat.sub_diag, firstn_O, app_nil_r. apply firstn_all.
Qed.

Lemma len_app_drop (x a : list opt) : 0 <= len x <= len a -> len (x ++ drop a (len x)) = len a.
Proof. intros H. rewrite len_app, len_drop by lia. lia. Qed.

Lemma len_add l o : sorted l -> len (add l o) = len l + 1.
Proof.
  intros Hs. destruct o as [id v]. destruct (ops_splice l id Hs) as (a & c & (H1 & H2 & H3 & _) & _ & Ha & _).
  rewrite Ha, len_splice, len_cons, len_nil by lia. lia.
Qed.

Lemma w_add_ok w o : wf w -> step_ok w (w_add w o) (add (w_live w) o).
Proof.
  intros [Hs Hn]. unfold w_add, step_ok, wf, w_live in *. destruct (req w) as [n|l] eqn:Er.
  - destruct (Z.eqb_spec n (len (orig w))) as [E|E]; cbn [req orig].
    + repeat split; try reflexivity. apply add_refines; assumption.
    + rewrite add_arr_spec by (try lia; assumption). cbn [req orig].
      pose proof (len_add (take (orig w) n) o Hs) as La. rewrite len_take in La by lia.
      rewrite <- La. rewrite take_app_len. repeat split; try reflexivity; try lia.
      * apply add_refines; assumption.
      * rewrite len_app_drop; lia.
      * rewrite len_app_drop; lia.
  - cbn [req orig]. repeat split; try reflexivity. apply add_refines; assumption.
Qed.

Lemma w_remove_ok w id : wf w -> step_ok w (w_remove w id) (Opt.Model.remove (w_live w) id).
Proof.
  intros [Hs Hn]. unfold w_remove, step_ok, wf, w_live in *. destruct (req w) as [n|l] eqn:Er.
  - destruct (remove_arr_spec (orig w) n id Hn Hs) as [E B]. rewrite E. cbn [req orig].
    rewrite take_app_len. repeat split; try reflexivity; try lia.
    + apply remove_refines; assumption.
    + rewrite len_app_drop; lia.
    + rewrite len_app_drop; lia.
  - cbn [req orig]. repeat split; try reflexivity. apply remove_refines; assumption.
Qed.

Lemma w_set_ok w o : wf w -> step_ok w (w_set w o) (set (w_live w) o).
Proof.
  intros [Hs Hn]. unfold w_set, step_ok, wf, w_live in *. destruct (req w) as [n|l] eqn:Er.
  - pose proof (set_arr_spec (orig w) n o Hn Hs) as SA. pose proof (set_len_bound (orig w) n o Hn Hs) as SB.
    unfold set_arr in SA.
    destruct (set_plan_of (take (orig w) n) o) as [|i|ins upTo upFrom] eqn:Ep; cbn [grows] in *.
    + specialize (SA ltac:(discriminate)). specialize (SB ltac:(discriminate)). injection SA as SA1 SA2.
      cbn [req orig]. rewrite SA1, SA2. rewrite take_app_len. repeat split; try reflexivity; try lia.
      * apply set_refines; assumption.
      * rewrite len_app_drop; lia.
      * rewrite len_app_drop; lia.
    + specialize (SA ltac:(discriminate)). specialize (SB ltac:(discriminate)). injection SA as SA1 SA2.
      cbn [req orig]. rewrite SA1. pose proof (proj2 (set_refines _ o Hs)) as Hso.
      remember (set (take (orig w) n) o) as X eqn:EX. clear EX. subst n.
      rewrite take_app_len. repeat split; try reflexivity; try lia.
      * assumption.
      * rewrite len_app_drop; lia.
      * rewrite len_app_drop; lia.
    + destruct (Z.eqb_spec n (len (orig w))) as [E|E]; cbn [req orig].
      * repeat split; try reflexivity. apply set_refines; assumption.
      * specialize (SA ltac:(lia)). specialize (SB ltac:(lia)). rewrite SA. cbn [req orig].
        rewrite take_app_len. repeat split; try reflexivity; try lia.
        -- apply set_refines; assumption.
        -- rewrite len_app_drop; lia.
        -- rewrite len_app_drop; lia.
  - cbn [req orig]. repeat split; try reflexivity. apply set_refines; assumption.
Qed.

Lemma w_clear_ok w : wf w -> step_ok w (w_clear w) [].
Proof.
  intros [Hs Hn]. unfold w_clear, step_ok, wf, w_live in *. destruct (req w) as [n|l] eqn:Er; cbn [req orig].
  - repeat split; try reflexivity; try lia. apply sorted_nil.
  - repeat split; try reflexivity. apply sorted_nil.
Qed.

(* the weaker, transitive form used for scripts *)
Definition run_ok (w w' : world) (l' : list opt) : Prop :=
  wf w' /\ w_live w' = l' /\ len (orig w') = len (orig w).

Lemma step_run_ok w w' l' : step_ok w w' l' -> run_ok w w' l'.
Proof. intros (H1 & H2 & H3 & _). repeat split; assumption || apply H1. Qed.

Lemma fold_add_ok {X} (f : X -> opt) : forall xs w, wf w ->
  run_ok w (fold_left (fun w s => w_add w (f s)) xs w) (fold_left (fun l s => add l (f s)) xs (w_live w)).
Proof.
  induction xs as [|x xs IH]; intros w Hw; cbn [fold_left].
  - repeat split; try reflexivity; apply Hw.
  - destruct (step_run_ok _ _ _ (w_add_ok w (f x) Hw)) as (W1 & L1 & C1).
    destruct (IH (w_add w (f x)) W1) as (W2 & L2 & C2). rewrite L1 in L2.
    repeat split; try apply W2; [exact L2|lia].
Qed.

Theorem w_edit_ok w e : wf w -> run_ok w (w_edit w e) (l_edit (w_live w) e).
Proof.
  intros Hw. destruct e as [id v|id v|id|segs|ins]; cbn [w_edit l_edit].
  - apply step_run_ok, w_set_ok, Hw.
  - apply step_run_ok, w_add_ok, Hw.
  - apply step_run_ok, w_remove_ok, Hw.
  - destruct (step_run_ok _ _ _ (w_remove_ok w URIPathID Hw)) as (W1 & L1 & C1).
    destruct (fold_add_ok (fun s => (URIPathID, s)) segs _ W1) as (W2 & L2 & C2). rewrite L1 in L2.
    repeat split; try apply W2; [exact L2|lia].
  - destruct (step_run_ok _ _ _ (w_clear_ok w Hw)) as (W1 & L1 & C1).
    destruct (fold_add_ok (fun o => (oid o, oval o)) ins _ W1) as (W2 & L2 & C2). rewrite L1 in L2.
    repeat split; try apply W2; [exact L2|lia].
Qed.

(* for every script: the handler sees the list-level run (C15), the array keeps its capacity *)
Theorem w_run_ok : forall es w, wf w -> run_ok w (w_run w es) (l_run (w_live w) es).
Proof.
  induction es as [|e es IH]; intros w Hw; unfold w_run, l_run in *; cbn [fold_left].
  - repeat split; try reflexivity; apply Hw.
  - destruct (w_edit_ok w e Hw) as (W1 & L1 & C1).
    destruct (IH (w_edit w e) W1) as (W2 & L2 & C2). rewrite L1 in L2.
    repeat split; try apply W2; [exact L2|lia].
Qed.

(* ------------------------------------------------------------------ *)
(* C. the decision is taken when the writer is created                 *)

Theorem session_decides_at_creation : forall a n es code,
  fst (session a n es code) = NoResp.Model.rw_refuses (take a n) code.
Proof. reflexivity. Qed.

(* ... and it is the RFC's decision on the value the request carried when it arrived *)
Theorem session_exact : forall a n es code pre bs post,
  take a n = pre ++ (NoResp.Model.NoResponseID, bs) :: post ->
  0 <= code -> Forall (fun b => 0 <= b) bs ->
  Forall (fun o => fst o <> NoResp.Model.NoResponseID) pre ->
  fst (session a n es code) = NoResp.Spec.spec_suppressed code (NoResp.Model.decode_uint32 bs).
Proof.
  intros a n es code pre bs post E Hc Hb Hp.
  change (fst (session a n es code)) with (NoResp.Model.rw_refuses (take a n) code). rewrite E.
  apply NoResp.Proofs.rw_exact; assumption.
Qed.

Theorem session_without_option : forall a n es code,
  NoResp.Model.get_uint32 (take a n) NoResp.Model.NoResponseID = None ->
  fst (session a n es code) = false.
Proof. intros a n es code H.
  change (fst (session a n es code)) with (NoResp.Model.rw_refuses (take a n) code). apply NoResp.Proofs.rw_without_option, H. Qed.

(* the edits are real: the handler (and whoever the request is passed on to) sees the edited options *)
Theorem session_handler_sees_edits : forall a n es code,
  0 <= n <= len a -> sorted (take a n) ->
  w_live (snd (session a n es code)) = l_run (take a n) es /\
  sorted (w_live (snd (session a n es code))) /\
  len (orig (snd (session a n es code))) = len a.
Proof.
  intros a n es code Hn Hs. unfold session. cbn [snd].
  assert (Hw : wf {| orig := a; req := Attached n |}) by (split; [exact Hs|exact Hn]).
  destruct (w_run_ok es _ Hw) as (W & L & C). cbn [w_live orig req] in *.
  split; [exact L|split; [apply W|exact C]].
Qed.

Lemma filter_filter_neg (l : list opt) id :
  filter (fun x => oid x =? id) (filter (fun x => negb (oid x =? id)) l) = [].
Proof.
  induction l as [|x l IH]; cbn [filter]; [reflexivity|].
  destruct (oid x =? id) eqn:E; cbn [negb filter]; [exact IH|]. rewrite E. exact IH.
Qed.

(* e.g. a handler that strips No-Response before it forwards the request: the forwarded request has no
   such option any more, the decision about ITS OWN response still follows the request as it arrived *)
Theorem session_can_remove_option : forall a n code,
  0 <= n <= len a -> sorted (take a n) ->
  let r := session a n [ERemove NoResp.Model.NoResponseID] code in
  has_option (w_live (snd r)) NoResp.Model.NoResponseID = false /\
  fst r = NoResp.Model.rw_refuses (take a n) code.
Proof.
  intros a n code Hn Hs r. split; [|reflexivity].
  destruct (session_handler_sees_edits a n [ERemove NoResp.Model.NoResponseID] code Hn Hs) as (L & S & _).
  fold r in L, S. rewrite (proj2 (find_refines _ NoResp.Model.NoResponseID S)). rewrite L.
  unfold l_run. cbn [fold_left l_edit]. rewrite (proj1 (remove_refines _ NoResp.Model.NoResponseID Hs)).
  unfold ref_has, ref_count, ref_values, ref_remove. rewrite filter_filter_neg. reflexivity.
Qed.

(* ------------------------------------------------------------------ *)
(* D. why the value has to be decoded when the writer is created       *)

Lemma sorted_take (l : list opt) n : 0 <= n <= len l -> sorted l -> sorted (take l n).
Proof.
  intros Hn Hs i j Hi Hij Hj. rewrite len_take in Hj by lia.
  rewrite !nthz_take by lia. apply Hs; lia.
Qed.

Lemma ref_add_before_last o pre z : oid o < oid z -> ref_add o (pre ++ [z]) = ref_add o pre ++ [z].
Proof.
  intros Hlt. induction pre as [|x r IH]; cbn [app ref_add].
  - destruct (Z.leb_spec (oid z) (oid o)); [lia|reflexivity].
  - destruct (oid x <=? oid o); [rewrite IH|]; reflexivity.
Qed.

Lemma len_ref_add o l : len (ref_add o l) = len l + 1.
Proof.
  induction l as [|x r IH]; cbn [ref_add]; [reflexivity|].
  destruct (oid x <=? oid o); rewrite !len_cons; [rewrite IH|]; lia.
Qed.

Lemma Forall_ref_add (P : opt -> Prop) o l : P o -> Forall P l -> Forall P (ref_add o l).
Proof.
  intros Ho. induction l as [|x r IH]; intros Hl; cbn [ref_add]; [constructor; [assumption|constructor]|].
  inversion Hl; subst. destruct (oid x <=? oid o); constructor; auto.
Qed.

(* For EVERY request whose last option is No-Response and whose option array has a free slot (the normal
   case: 16 slots), and for every option number below 258: after the handler has added such an option to
   the request, the slice header taken when the writer was created shows the request's options WITHOUT
   No-Response (it moved one slot to the right, out of the header's length) ... *)
Theorem alias_view_loses_option : forall (a : list opt) n (pre : list opt) bs id v,
  0 <= n -> n < len a -> take a n = pre ++ [(NoResp.Model.NoResponseID, bs)] -> sorted (take a n) ->
  Forall (fun x => oid x < NoResp.Model.NoResponseID) pre -> id < NoResp.Model.NoResponseID ->
  let w := w_run {| orig := a; req := Attached n |} [EAdd id v] in
  alias_view w n = ref_add (id, v) pre /\
  w_live w = ref_add (id, v) pre ++ [(NoResp.Model.NoResponseID, bs)].
Proof.
  intros a n pre bs id v H0 Hn El Hs Hpre Hid w. subst w.
  assert (E : (n =? len a) = false) by (apply Z.eqb_neq; lia).
  unfold w_run. cbn [fold_left w_edit]. unfold w_add. cbn [req orig]. rewrite E.
  rewrite add_arr_spec by (try lia; assumption). unfold alias_view, w_live. cbn [orig req].
  rewrite (proj1 (add_refines _ (id, v) Hs)). rewrite El.
  rewrite ref_add_before_last by (cbn [oid fst]; exact Hid).
  assert (Ln : len (ref_add (id, v) pre) = n).
  { rewrite len_ref_add. rewrite <- (len_take a n) by lia. rewrite El, len_app, len_cons, len_nil. lia. }
  split.
  - rewrite <- app_assoc. rewrite <- Ln at 2. apply take_app_len.
  - replace (n + 1) with (len (ref_add (id, v) pre ++ [(NoResp.Model.NoResponseID, bs)]))
      by (rewrite len_app, len_cons, len_nil; lia).
    apply take_app_len.
Qed.

(* ... so a writer that looked the option up through that header when the response is set would accept
   EVERY code, whatever the request asked for *)
Theorem lazy_lookup_loses_option : forall (a : list opt) n (pre : list opt) bs id v code,
  0 <= n -> n < len a -> take a n = pre ++ [(NoResp.Model.NoResponseID, bs)] -> sorted (take a n) ->
  Forall (fun x => oid x < NoResp.Model.NoResponseID) pre -> id < NoResp.Model.NoResponseID ->
  lazy_session a n [EAdd id v] code = false.
Proof.
  intros a n pre bs id v code H0 Hn El Hs Hpre Hid. unfold lazy_session.
  destruct (alias_view_loses_option a n pre bs id v H0 Hn El Hs Hpre Hid) as [Ha Hl]. rewrite Ha.
  assert (Sp : sorted (ref_add (id, v) pre)).
  { destruct (w_run_ok [EAdd id v] {| orig := a; req := Attached n |}) as ((S & _) & _ & _);
      [split; [exact Hs|cbn [req orig]; lia]|]. rewrite Hl in S.
    rewrite <- (take_app_len (ref_add (id, v) pre) [(NoResp.Model.NoResponseID, bs)]).
    apply sorted_take; [|exact S]. rewrite len_app. unfold len. lia. }
  rewrite (get_uint32_refines _ _ Sp). unfold first_answer, ref_first, ref_values.
  rewrite filter_none; [reflexivity|].
  apply Forall_ref_add.
  - cbn [oid fst]. destruct (Z.eqb_spec id NoResp.Model.NoResponseID); [lia|reflexivity].
  - eapply Forall_impl; [|exact Hpre]. intros x Hx. cbn beta in *.
    destruct (Z.eqb_spec (oid x) NoResp.Model.NoResponseID); [lia|reflexivity].
Qed.

(* a concrete instance (the one the harness replays on the real code): GET /seed with No-Response = 2 in a
   16-slot array, the handler adds Uri-Query "via=gw" and answers 2.05: the code refuses (as the RFC says),
   the lazy lookup would accept *)
Theorem lazy_lookup_refuted : exists (a : list opt) n es code (pre : list opt) bs,
  take a n = pre ++ [(NoResp.Model.NoResponseID, bs)] /\
  NoResp.Spec.spec_suppressed code (NoResp.Model.decode_uint32 bs) = true /\
  fst (session a n es code) = true /\
  lazy_session a n es code = false.
Proof.
  exists ([(11, [115; 101; 101; 100]); (258, [2])] ++ repeat zero_opt 14), 2,
         [EAdd 15 [118; 105; 97; 61; 103; 119]], 69, [(11, [115; 101; 101; 100])], [2].
  vm_compute. repeat split.
Qed.
