(* C20 for requests as they ARRIVE: raw datagrams / frames of any peer, any request method.

   Model of the receive path from the bytes to the response writer:
     udp:  udp/client.Conn.Process -> pool.Message.UnmarshalWithDecoder(udp/coder) (Codec/Pool.v,
           Codec/Udp.v, Codec/Options.v: Options.Unmarshal with its skip of options of illegal length)
           -> handleReq -> ProcessReceivedMessageWithHandler: responsewriter.New(resp, cc, req.Options()...)
           for WHATEVER the code of the received message is -> handler -> processResponse (Dedup/Model.v);
     tcp:  tcp/client.Session.processBuffer -> UnmarshalWithDecoder(tcp/coder) (Codec/Tcp.v)
           -> ProcessReceivedMessageWithHandler: responsewriter.New(origResp, cc, req.Options()...)
           -> handler -> the response is written iff it was modified.
   No proofs here. *)
From Coq Require Import ZArith List Bool.
From GoCoap Require Import Base.Bytes Gen.OptionDefs Codec.Options Codec.Udp Codec.Tcp Codec.Pool NoResp.Model Dedup.Model.
Import ListNotations.
Open Scope Z_scope.

(* RFC 7252 12.1: codes 0.01-0.31 indicate a request (GET..DELETE, FETCH/PATCH/iPATCH of RFC 8132, and
   whatever is registered later); the library has no such test on this path -- this only delimits which
   received messages the MODEL below speaks about (the handler gets every message of an unknown token) *)
Definition is_request_code (c : Z) : bool := (1 <=? c) && (c <=? 31).

(* capacity of the option array of a message fresh from the pool (message/pool: make(message.Options, 0, 16)) *)
Definition PoolOptionsCap : Z := 16.

(* one datagram received on a connection that has no exchange of its own pending: decode; a request of
   type CON/NON goes through the request step of Dedup/Model.v with the options AS DECODED.
   Result: state, observation, the options the handler (and the writer) are given.  None = outside the
   model (undecodable, not a request). *)
Definition raw_udp_step (s : st) (dg : list Z) (b : behaviour) : option (st * obs * list opt) :=
  match pool_decode (pool_fuel dg) udp_decode PoolOptionsCap dg with
  | Ok (m, _, _) =>
      if ((m_typ m =? CON) || (m_typ m =? NON)) && is_request_code (m_code m) then
        let '(s1, o) := step s (Req (m_typ m) (m_mid m) (m_tok m) (m_code m) (m_opts m) b) in
        Some (s1, o, m_opts m)
      else None
  | _ => None
  end.

(* a message written by the stream connection: code, token, options, payload *)
Record tmsg := { t_code : Z; t_tok : list Z; t_opts : list opt; t_pay : list Z }.

(* tcp/client.Conn.ProcessReceivedMessageWithHandler for a decoded request: the writer is made of the
   request's options; the response (token of the request) is written iff the handler modified it *)
Definition tcp_process (tok : list Z) (reqopts : list opt) (b : behaviour) : list tmsg :=
  match handler_result tok reqopts b with
  | None => []
  | Some h => [{| t_code := h_code h; t_tok := Dedup.Model.h_tok h; t_opts := h_opts h; t_pay := h_pay h |}]
  end.

(* one complete frame received by the stream connection (no block-wise negotiated: the peer sent no CSM) *)
Definition raw_tcp_step (frame : list Z) (b : behaviour) : option (list tmsg * list opt) :=
  match pool_decode (pool_fuel frame) tcp_decode PoolOptionsCap frame with
  | Ok (m, _, _) =>
      if is_request_code (m_code m) then Some (tcp_process (m_tok m) (m_opts m) b, m_opts m) else None
  | _ => None
  end.

(* histories of datagrams on one connection *)
Fixpoint raw_udp_run (s : st) (h : list (list Z * behaviour)) : option (st * list (obs * list opt)) :=
  match h with
  | [] => Some (s, [])
  | (dg, b) :: r =>
      match raw_udp_step s dg b with
      | None => None
      | Some (s1, o, seen) =>
          match raw_udp_run s1 r with
          | None => None
          | Some (s2, os) => Some (s2, (o, seen) :: os)
          end
      end
  end.
