(* C20 -- the wire clause for requests whose handler edits the request before it sets the response:
   the request step with an editing handler (NoResp/EditModel.v [estep]) IS the request step of
   Dedup/Model.v for the options the request had when it arrived, so the theorems about the wire
   (Dedup/Proofs.v wire_suppressed / wire_passed = C20_wire_suppressed / C20_wire_passed) carry over. *)
From Coq Require Import ZArith List Bool.
From GoCoap Require Import Base.Bytes NoResp.Model Dedup.Model Dedup.Proofs NoResp.BwModel NoResp.BwProofs.
From GoCoap Require Opt.Model.
From GoCoap Require Import NoResp.EditModel.
Import ListNotations.
Open Scope Z_scope.

Lemma handler_result_nv_new : forall tok ro b,
  handler_result_nv tok (rw_new ro) b = handler_result tok ro b.
Proof. intros tok ro b. destruct b; reflexivity. Qed.

Theorem estep_is_step : forall s typ mid tok code a n es b,
  fst (estep s typ mid tok code a n es b) = step s (Req typ mid tok code (Opt.Model.take a n) b).
Proof.
  intros s typ mid tok code a n es b. unfold estep. cbn [step].
  destruct (req_lookup typ mid (cache s)) as [en|]; [reflexivity|].
  cbn [fst]. rewrite handler_result_nv_new, <- req_handle_of_result. reflexivity.
Qed.

(* the handler is called exactly when the request is not a copy of one answered before; its edits never
   reach the connection's state or the wire *)
Theorem estep_world : forall s typ mid tok code a n es b,
  snd (estep s typ mid tok code a n es b) =
    match req_lookup typ mid (cache s) with
    | Some _ => None
    | None => Some (snd (session a n es 0))
    end.
Proof.
  intros s typ mid tok code a n es b. unfold estep. destruct (req_lookup typ mid (cache s)); reflexivity.
Qed.

Theorem edit_wire_suppressed : forall s typ mid tok code a n es rc o p,
  (if is_cacheable_typ typ then cache_load (cache s) mid else None) = None ->
  fst (session a n es rc) = true ->
  o_out (snd (fst (estep s typ mid tok code a n es (BResp rc o p)))) = (if typ =? CON then [bare_ack mid] else []).
Proof.
  intros s typ mid tok code a n es rc o p Hm Hr. rewrite estep_is_step.
  apply wire_suppressed; [exact Hm|exact Hr].
Qed.

Theorem edit_wire_passed : forall s typ mid tok code a n es rc o p,
  (if is_cacheable_typ typ then cache_load (cache s) mid else None) = None ->
  fst (session a n es rc) = false ->
  exists r, o_out (snd (fst (estep s typ mid tok code a n es (BResp rc o p)))) = [r] /\
            w_code r = rc /\ w_tok r = tok /\ w_pay r = p.
Proof.
  intros s typ mid tok code a n es rc o p Hm Hr. rewrite estep_is_step.
  apply wire_passed; [exact Hm|exact Hr].
Qed.
