(* Correspondence evaluator for handlers that call SetResponse several times on one response writer
   (harness/c20seq.go, hx C20S): family SW -- a real responsewriter over a real pool.Message --, family SH --
   request histories on a real udp/client.Conn whose handler makes the attempts. *)
From Coq Require Import ZArith NArith List Bool.
From GoCoap Require Import Base.Cases Base.Bytes NoResp.Model NoResp.Spec Dedup.Model Dedup.Spec Dedup.Run
  NoResp.BwModel NoResp.BwSpec NoResp.SeqModel.
From GoCoap Require NoResp.Run.
Import ListNotations.
Open Scope Z_scope.

(* SetResponse(code, TextPlain, body, opts...): body = gen_body salt n, a nil reader when n = 0 *)
Definition At (code : Z) (opts : opts_t) (salt : Z) (n : nat) : attempt :=
  {| a_code := code; a_opts := opts; a_body := match n with O => None | _ => Some (gen_body salt n) end |}.

Inductive sev := SReq (typ mid : Z) (tok : list Z) (code : Z) (reqopts : opts_t) (l : list attempt)
                      (called : bool) (orefs : list bool) (out : list owire).

Inductive case :=
(* writer over [reqopts], response message with code [code0]; the attempts; observed: what each call returned
   (true = error), and the response message afterwards: modified flag, code, options, payload length and checksum *)
| SW (reqopts : opts_t) (code0 : Z) (l : list attempt) (orefs : list bool) (omod : bool) (ocode : Z) (oopts : opts_t) (oplen opcs : Z)
| SHist (own0 : Z) (h : list sev).

Fixpoint bools_eqb (a b : list bool) : bool :=
  match a, b with
  | [], [] => true
  | x :: r, y :: s => Bool.eqb x y && bools_eqb r s
  | _, _ => false
  end.

Definition wf_sev (e : sev) : bool :=
  match e with SReq t m tok c ro l _ _ _ =>
    ((t =? 0) || (t =? 1)) && (1 <=? c) && (c <=? 31)
    && forallb (fun a => (64 <=? a_code a) && (a_code a <? 256)) l
  end.

Fixpoint hist_agrees (s : st) (h : list sev) : bool :=
  match h with
  | [] => true
  | e :: r =>
      match e with SReq t m tok c ro l called orefs out =>
        let '(s1, o, refs) := sstep s t m tok c ro l in
        wf_sev e && Bool.eqb (o_called o) called && list_rel wire_agrees (o_out o) out
        && match refs with None => bools_eqb [] orefs | Some x => bools_eqb x orefs end
        && hist_agrees s1 r
      end
  end.

Definition agrees (c : case) : bool :=
  match c with
  | SW ro code0 l orefs omod ocode oopts oplen opcs =>
      let '(m, refs) := seq_session ro code0 l in
      bools_eqb refs orefs && Bool.eqb (rm_mod m) omod && (rm_code m =? ocode) && opts_eqb (rm_opts m) oopts
      && (blen (rm_pay m) =? oplen) && (csum (rm_pay m) =? opcs)
  | SHist own0 h => hist_agrees (init own0) h
  end.

(* ---- the property on the observed outcome (property text + RFC 7967 only) ----
   The request carries the first option 258 (values longer than four bytes are outside the property).
   Every SetResponse attempt is refused exactly when the class of ITS code is marked as not of interest:
     51 = an attempt of a suppressed class was accepted, 52 = an attempt of a class that was not suppressed was
     refused (e.g. because an earlier attempt had been refused);
   the response that counts is the one of the last attempt of a class that was not suppressed:
     53 = the writer's response message is not that one (or is modified although every attempt was suppressed),
     54 = every attempt was suppressed, yet something other than the bare acknowledgement is on the wire,
     55 = the response of the last attempt that was not suppressed is not on the wire. *)
Definition sup_of (ro : opts_t) : option (Z -> bool) :=
  match NoResp.Run.spec_noresp ro with
  | None => Some (fun _ => false)
  | Some bs => if (length bs <=? 4)%nat then Some (fun code => spec_suppressed code (NoResp.Model.be bs)) else None
  end.

Fixpoint judge_attempts (sup : Z -> bool) (l : list attempt) (orefs : list bool) : N :=
  match l, orefs with
  | a :: r, x :: s =>
      if Bool.eqb (sup (a_code a)) x then judge_attempts sup r s else if x then 52%N else 51%N
  | _, _ => 0%N
  end.

(* the last attempt of a class that is of interest *)
Definition last_wanted (sup : Z -> bool) (l : list attempt) : option attempt :=
  fold_left (fun acc a => if sup (a_code a) then acc else Some a) l None.

Definition judge_writer (sup : Z -> bool) (l : list attempt) (omod : bool) (ocode : Z) : N :=
  match last_wanted sup l with
  | None => if omod then 53%N else 0%N
  | Some a => if omod && (ocode =? a_code a) then 0%N else 53%N
  end.

Definition judge_wire (sup : Z -> bool) (e : sev) : N :=
  match e with SReq t m tok _ _ l called _ out =>
    if negb called then 0%N else
    match l with [] => 0%N | _ =>
      match last_wanted sup l with
      | None =>
          match out with
          | [] => if t =? 0 then 54%N else 0%N
          | [r] => if (t =? 0) && is_bare_ack r m then 0%N else 54%N
          | _ => 54%N
          end
      | Some a =>
          match out with
          | [r] => if (ow_code r =? a_code a) && bytes_eqb (ow_tok r) tok then 0%N else 55%N
          | _ => 55%N
          end
      end
    end
  end.

Definition judge_sev (e : sev) : N :=
  match e with SReq _ _ _ _ ro l called orefs _ =>
    match sup_of ro with
    | None => 0%N
    | Some sup =>
        let c := if called then judge_attempts sup l orefs else 0%N in
        if N.eqb c 0 then judge_wire sup e else c
    end
  end.

Fixpoint first_nonzero (l : list N) : N :=
  match l with [] => 0%N | c :: r => if N.eqb c 0 then first_nonzero r else c end.

Definition pclass (c : case) : N :=
  match c with
  | SW ro _ l orefs omod ocode _ _ _ =>
      match sup_of ro with
      | None => 0%N
      | Some sup =>
          let c := judge_attempts sup l orefs in
          if N.eqb c 0 then judge_writer sup l omod ocode else c
      end
  | SHist _ h => first_nonzero (map judge_sev h)
  end.

Definition mismatches (cs : list case) : list N := bad_indices (fun c => negb (agrees c)) cs.
Definition property_failures (cs : list case) : list (N * N) := classes pclass cs.
