(* Correspondence evaluator for the part of C20 about requests the handler edits before it sets the
   response (harness/c20edit.go, hx name C20E):

   RWE   responsewriter.New over the options of a real pool.Message, edits of that message through its
         API, then SetResponse;
   WHist request datagrams on a real udp/client.Conn (in-memory session) whose handler edits the request
         it was given and then sets the response.

   Observed besides the outcome: the whole option array of the request before the edits (all cap slots, so
   stale contents of earlier uses of a pooled message are part of the input), the options the request has
   after the edits, and what a slice header taken before the edits shows afterwards.  [agrees] compares
   all of them with NoResp/EditModel.v; [pclass] evaluates the property TEXT on the observed outcome: the
   No-Response value that counts is the one the request CARRIED (the received options), whatever the
   handler did to its copy of the request. *)
From Coq Require Import ZArith NArith List Bool.
From GoCoap Require Import Base.Cases Base.Bytes Opt.Model NoResp.Spec Dedup.Model Dedup.Spec.
From GoCoap Require NoResp.Model NoResp.Run Dedup.Run.
From GoCoap Require Import NoResp.EditModel.
Import ListNotations.
Open Scope Z_scope.

(* one request on the connection: type, message ID, token, code; the request's option array and the
   length of its options inside the handler before the edits; the edits; what the handler does then;
   observed: handler called, SetResponse refused, options after the edits, view through the old slice
   header, datagrams written *)
Inductive wev :=
  WReq (typ mid : Z) (tok : list Z) (code : Z) (a : list opt) (n : Z) (es : list edit) (b : behaviour)
       (called refused : bool) (o_live o_alias : list opt) (out : list owire).

Inductive case :=
| RWE (a : list opt) (n : Z) (es : list edit) (code : Z)
      (o_refused : bool) (o_code : Z) (o_live o_alias : list opt)
| WHist (own0 : Z) (h : list wev).

Fixpoint sorted_ids (o : list opt) : bool :=
  match o with
  | [] => true
  | (i, _) :: r => match r with [] => true | (j, _) :: _ => (i <=? j) && sorted_ids r end
  end.

(* scope of the model: the slice lies inside the array and is sorted by option number *)
Definition wf_mem (a : list opt) (n : Z) : bool :=
  (0 <=? n) && (n <=? len a) && sorted_ids (take a n).

Definition beh_code (b : behaviour) : option Z := match b with BResp rc _ _ => Some rc | _ => None end.

Fixpoint hist_agrees (s : st) (h : list wev) : bool :=
  match h with
  | [] => true
  | WReq t m tok c a n es b called refused ol oa out :: r =>
      let '(s1, o, w) := estep s t m tok c a n es b in
      wf_mem a n
      && negb ((t =? 0) && (c =? 0) && (blen tok =? 0) && (n =? 0))
      && Bool.eqb (o_called o) called
      && list_rel Dedup.Run.wire_agrees (o_out o) out
      && match w with
         | None => negb refused
         | Some w =>
             opts_eqb (w_live w) ol && opts_eqb (alias_view w n) oa
             && match beh_code b with
                | Some rc => Bool.eqb (rw_set (rw_new (take a n)) rc) refused
                | None => negb refused
                end
         end
      && hist_agrees s1 r
  end.

Definition agrees (c : case) : bool :=
  match c with
  | RWE a n es code r oc ol oa =>
      let '(mr, w) := session a n es code in
      wf_mem a n && Bool.eqb mr r && (if r then true else oc =? code)
      && opts_eqb (w_live w) ol && opts_eqb (alias_view w n) oa
  | WHist own0 h => hist_agrees (init own0) h
  end.

(* ---- the property on the observed outcome ---- *)

(* refused <-> the RFC marks the class as not of interest for the value the RECEIVED request carries
   (NoResp/Run.v: first option 258, values longer than four bytes are outside the property):
   31 = a response of a suppressed class accepted, 32 = a response of a passed class refused,
   33 = accepted but the response message does not carry the code *)
Definition writer_clause (ro : list opt) (code : Z) (r : bool) (oc : Z) : N :=
  match NoResp.Run.pclass (NoResp.Run.RW ro code r oc) with
  | 0%N => 0%N | 1%N => 31%N | 2%N => 32%N | _ => 33%N
  end.

(* wire clause of Dedup/Run.v on the received options: 34 = suppressed response on the wire,
   35 = a response of a class that was not suppressed dropped *)
Definition wire_clause_e (e : wev) : N :=
  match e with WReq t m tok c a n _ b called refused _ _ out =>
    match Dedup.Run.wire_clause (Dedup.Run.HReq t m tok c (take a n) b called out) with
    | 0%N =>
        match beh_code b, called with
        | Some rc, true => writer_clause (take a n) rc refused rc
        | _, _ => 0%N
        end
    | 11%N => 34%N
    | _ => 35%N
    end
  end.

Fixpoint first_nonzero (l : list N) : N :=
  match l with [] => 0%N | c :: r => if N.eqb c 0 then first_nonzero r else c end.

Definition pclass (c : case) : N :=
  match c with
  | RWE a n _ code r oc _ _ => writer_clause (take a n) code r oc
  | WHist _ h => first_nonzero (map wire_clause_e h)
  end.

Definition mismatches (cs : list case) : list N := bad_indices (fun c => negb (agrees c)) cs.
Definition property_failures (cs : list case) : list (N * N) := classes pclass cs.
