(* Correspondence evaluator for the part of C20 about requests as they arrive (harness/c20raw.go, hx
   name C20R): raw datagrams on a real udp/client.Conn (in-memory session) and raw frames on a real
   tcp/client.Conn (pipe), written by the harness's own encoder -- not by the library's -- so that a request
   may carry what a foreign peer can send: every method code 0.01-0.31 (FETCH, PATCH, iPATCH, unassigned
   ones), options whose length is illegal for their number in front of / behind the No-Response option,
   unknown options, repeated options.

   A case gives the request as its sender built it (type, message ID, token, code, CARRIED options, payload),
   the bytes that were fed, what the handler does, and the observations: handler called, SetResponse refused,
   the options the handler saw, what was written.
   [agrees]: the bytes are the RFC 7252 / RFC 8323 encoding of the carried request (Codec/Spec.v), and
   NoResp/RawModel.v run on the BYTES gives the observations.
   [pclass]: the property text on the observed outcome, with the value the request carried (NoResp/RawSpec.v):
   41 a response of a suppressed class accepted, 42 a response of a passed class refused, 43 a suppressed
   response on the wire (anything but the bare ACK of a confirmable request), 44 a response of a class that
   was not suppressed dropped or altered. *)
From Coq Require Import ZArith NArith List Bool.
From GoCoap Require Import Base.Cases Base.Bytes Codec.Options Codec.Udp Codec.Spec NoResp.Spec Dedup.Model Dedup.Spec.
From GoCoap Require Dedup.Run.
From GoCoap Require Import NoResp.RawModel NoResp.RawSpec NoResp.RawProofs.
Import ListNotations.
Open Scope Z_scope.

(* observed message of the stream connection: payload as (length, checksum) *)
Record otmsg := OT { ot_code : Z; ot_tok : list Z; ot_opts : list (Z * list Z); ot_plen : Z; ot_pcs : Z }.

Inductive rreq :=
  RReq (typ mid : Z) (tok : list Z) (code : Z) (os : list opt) (pay : list Z) (raw : list Z) (b : behaviour)
       (called refused : bool) (seen : list opt) (out : list owire).

Inductive case :=
| UHist (own0 : Z) (h : list rreq)
| TReq (tok : list Z) (code : Z) (os : list opt) (pay : list Z) (raw : list Z) (b : behaviour)
       (called refused : bool) (seen : list opt) (out : list otmsg).

Definition beh_code (b : behaviour) : option Z := match b with BResp rc _ _ => Some rc | _ => None end.

Definition refusal_agrees (b : behaviour) (seen : list opt) (refused : bool) : bool :=
  match beh_code b with
  | Some rc => Bool.eqb (NoResp.Model.rw_refuses seen rc) refused
  | None => negb refused
  end.

Fixpoint hist_agrees (s : st) (h : list rreq) : bool :=
  match h with
  | [] => true
  | RReq t m tok c os pay raw b called refused seen out :: r =>
      let msg := {| m_tok := tok; m_code := c; m_opts := os; m_pay := pay; m_mid := m; m_typ := t |} in
      raw_wf_udp msg && bytes_ok pay && bytes_ok tok && bytes_eqb (spec_udp_bytes msg) raw
      && match raw_udp_step s raw b with
         | None => false
         | Some (s1, o, seen_m) =>
             Bool.eqb (o_called o) called
             && list_rel Dedup.Run.wire_agrees (o_out o) out
             && (if called then opts_eqb seen_m seen && refusal_agrees b seen_m refused else negb refused)
             && hist_agrees s1 r
         end
  end.

Definition tmsg_agrees (w : tmsg) (o : otmsg) : bool :=
  (t_code w =? ot_code o) && bytes_eqb (t_tok w) (ot_tok o) && opts_eqb (t_opts w) (ot_opts o)
  && (blen (t_pay w) =? ot_plen o) && (csum (t_pay w) =? ot_pcs o).

Definition agrees (c : case) : bool :=
  match c with
  | UHist own0 h => hist_agrees (init own0) h
  | TReq tok code os pay raw b called refused seen out =>
      let msg := {| m_tok := tok; m_code := code; m_opts := os; m_pay := pay; m_mid := 0; m_typ := 0 |} in
      raw_wf_tcp_msg msg && bytes_ok tok && bytes_ok pay && bytes_eqb (spec_tcp_bytes msg) raw
      && match raw_tcp_step raw b with
         | None => false
         | Some (out_m, seen_m) =>
             called && list_rel tmsg_agrees out_m out && opts_eqb seen_m seen && refusal_agrees b seen_m refused
         end
  end.

(* ---- the property on the observed outcome ---- *)

Definition bare_ack_obs (mid : Z) (r : owire) : bool :=
  (ow_typ r =? 2) && (ow_code r =? 0) && (ow_mid r =? mid) && (blen (ow_tok r) =? 0) && (blen (ow_opts r) =? 0)
  && (ow_plen r =? 0).

Definition udp_clause (e : rreq) : N :=
  match e with RReq t m tok c os _ _ b called refused _ out =>
    match beh_code b, called with
    | Some rc, true =>
        let want := spec_refuse os rc in
        if want && negb refused then 41%N
        else if negb want && refused then 42%N
        else if want then
          match out with
          | [] => if t =? 0 then 43%N else 0%N
          | [r] => if (t =? 0) && bare_ack_obs m r then 0%N else 43%N
          | _ => 43%N
          end
        else
          match out with
          | [r] => if (ow_code r =? rc) && bytes_eqb (ow_tok r) tok then 0%N else 44%N
          | _ => 44%N
          end
    | _, _ => 0%N
    end
  end.

Fixpoint first_nonzero (l : list N) : N :=
  match l with [] => 0%N | c :: r => if N.eqb c 0 then first_nonzero r else c end.

Definition pclass (c : case) : N :=
  match c with
  | UHist _ h => first_nonzero (map udp_clause h)
  | TReq tok code os _ _ b called refused _ out =>
      match beh_code b, called with
      | Some rc, true =>
          let want := spec_refuse os rc in
          if want && negb refused then 41%N
          else if negb want && refused then 42%N
          else if want then match out with [] => 0%N | _ => 43%N end
          else match out with
               | [r] => if (ot_code r =? rc) && bytes_eqb (ot_tok r) tok then 0%N else 44%N
               | _ => 44%N
               end
      | _, _ => 0%N
      end
  end.

Definition mismatches (cs : list case) : list N := bad_indices (fun c => negb (agrees c)) cs.
Definition property_failures (cs : list case) : list (N * N) := classes pclass cs.
