From Coq Require Import ZArith List Bool Lia.
From GoCoap Require Import NoResp.Model NoResp.Spec.
Import ListNotations.
Open Scope Z_scope.

Ltac Zify.zify_post_hook ::= Z.div_mod_to_equations.

(* n & (1 << k) > 0  <->  bit k of n *)
Lemma is_set_bit : forall n k, 0 <= n -> 0 <= k -> is_set n k = bit n (2 ^ k).
Proof.
  intros n k Hn Hk. unfold is_set, bit.
  rewrite Z.shiftl_mul_pow2 by lia. rewrite Z.mul_1_l.
  assert (H : Z.land n (2 ^ k) = if Z.testbit n k then 2 ^ k else 0).
  { apply Z.bits_inj'; intros m Hm. rewrite Z.land_spec, Z.pow2_bits_eqb by lia.
    destruct (Z.eqb_spec k m) as [->|Hne].
    - rewrite andb_true_r. destruct (Z.testbit n m) eqn:T.
      + rewrite Z.pow2_bits_eqb by lia. rewrite Z.eqb_refl. reflexivity.
      + rewrite Z.bits_0. reflexivity.
    - rewrite andb_false_r. destruct (Z.testbit n k).
      + rewrite Z.pow2_bits_eqb by lia. symmetry. apply Z.eqb_neq. exact Hne.
      + rewrite Z.bits_0. reflexivity. }
  rewrite H. assert (Hp : 0 < 2 ^ k) by (apply Z.pow_pos_nonneg; lia).
  destruct (Z.testbit n k) eqn:T.
  - apply Z.testbit_true in T; [|lia]. rewrite T.
    destruct (2 ^ k >? 0) eqn:E; [reflexivity|lia].
  - apply Z.testbit_false in T; [|lia]. rewrite T. reflexivity.
Qed.

(* the decision is the RFC 7967 one for every code and every value (no bound on v) *)
Theorem suppressed_exact : forall code v, 0 <= code -> 0 <= v ->
  is_suppressed code v = spec_suppressed code v.
Proof.
  intros code v Hc Hv. unfold is_suppressed, spec_suppressed, class_of.
  rewrite Z.shiftr_div_pow2 by lia. change (2 ^ 5) with 32.
  rewrite !is_set_bit by lia. change (2 ^ 1) with 2. change (2 ^ 3) with 8. change (2 ^ 4) with 16.
  destruct (code / 32 =? 2) eqn:E2; destruct (code / 32 =? 4) eqn:E4; destruct (code / 32 =? 5) eqn:E5;
    cbn [andb orb]; rewrite ?orb_false_r; try reflexivity; lia.
Qed.

(* only bits 1, 3, 4 of the value matter *)
Theorem suppressed_low_bits : forall code v, 0 <= code -> 0 <= v ->
  is_suppressed code v = is_suppressed code (v mod 32).
Proof.
  intros code v Hc Hv. rewrite !suppressed_exact by lia.
  unfold spec_suppressed, bit.
  replace ((v mod 32 / 2) mod 2) with ((v / 2) mod 2) by lia.
  replace ((v mod 32 / 8) mod 2) with ((v / 8) mod 2) by lia.
  replace ((v mod 32 / 16) mod 2) with ((v / 16) mod 2) by lia.
  reflexivity.
Qed.

(* classes other than 2, 4, 5 are never suppressed *)
Theorem other_classes_pass : forall code v, 0 <= code -> 0 <= v ->
  class_of code <> 2 -> class_of code <> 4 -> class_of code <> 5 -> is_suppressed code v = false.
Proof.
  intros code v Hc Hv H2 H4 H5. rewrite suppressed_exact by lia. unfold spec_suppressed.
  destruct (Z.eqb_spec (class_of code) 2); [contradiction|].
  destruct (Z.eqb_spec (class_of code) 4); [contradiction|].
  destruct (Z.eqb_spec (class_of code) 5); [contradiction|]. reflexivity.
Qed.

Lemma be_nonneg : forall l a, 0 <= a -> Forall (fun b => 0 <= b) l -> 0 <= fold_left (fun a b => a * 256 + b) l a.
Proof.
  induction l as [|b l IH]; intros a Ha Hl; cbn [fold_left]; [exact Ha|].
  inversion Hl; subst. apply IH; [lia|assumption].
Qed.

Lemma Forall_firstn {A} (P : A -> Prop) n l : Forall P l -> Forall P (firstn n l).
Proof.
  revert l; induction n as [|n IH]; intros l H; cbn [firstn]; [constructor|].
  destruct l; [constructor|]. inversion H; subst. constructor; auto.
Qed.

(* response writer: without the option nothing is refused; with it, the refusal
   is exactly the RFC decision on the option's integer value *)
Theorem rw_without_option : forall opts code,
  get_uint32 opts NoResponseID = None -> rw_refuses opts code = false.
Proof. intros opts code H. unfold rw_refuses. rewrite H. reflexivity. Qed.

Theorem rw_exact : forall pre bs post code,
  0 <= code -> Forall (fun b => 0 <= b) bs ->
  Forall (fun o => fst o <> NoResponseID) pre ->
  rw_refuses (pre ++ (NoResponseID, bs) :: post) code = spec_suppressed code (decode_uint32 bs).
Proof.
  intros pre bs post code Hc Hbs Hpre. unfold rw_refuses.
  assert (G : get_uint32 (pre ++ (NoResponseID, bs) :: post) NoResponseID = Some (decode_uint32 bs)).
  { induction pre as [|[i v] pre IH]; cbn [app get_uint32].
    - rewrite Z.eqb_refl. reflexivity.
    - inversion Hpre; subst. cbn [fst] in *. destruct (Z.eqb_spec i NoResponseID); [contradiction|]. auto. }
  rewrite G. apply suppressed_exact; [exact Hc|].
  unfold decode_uint32, be. apply be_nonneg; [lia|]. apply Forall_firstn. exact Hbs.
Qed.
