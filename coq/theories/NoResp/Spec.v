(* RFC 7967 section 2: the No-Response option value is a bit map;
   bit value 2 = not interested in 2.xx, 8 = 4.xx, 16 = 5.xx.
   Written from the RFC and the property text only. *)
From Coq Require Import ZArith Bool.
Open Scope Z_scope.

Definition class_of (code : Z) : Z := code / 32.
Definition bit (v k : Z) : bool := (v / k) mod 2 =? 1.   (* k a power of two *)

Definition spec_suppressed (code v : Z) : bool :=
  ((class_of code =? 2) && bit v 2) || ((class_of code =? 4) && bit v 8) || ((class_of code =? 5) && bit v 16).
