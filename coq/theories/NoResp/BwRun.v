(* Correspondence evaluator for the block-wise part of C20: histories of request datagrams on a real
   udp/client.Conn with the real net/blockwise layer (harness/c20bw.go). *)
From Coq Require Import ZArith NArith List Bool.
From GoCoap Require Import Base.Cases Base.Bytes Block.Model NoResp.Model NoResp.Spec Dedup.Model Dedup.Spec Dedup.Run
  NoResp.BwModel NoResp.BwSpec.
Import ListNotations.
Open Scope Z_scope.

(* what was observed for one request: the handler call (code, options, body length and checksum, whether
   SetResponse returned an error) if there was one, the datagrams written *)
Inductive ocall := NoCall | Call (code : Z) (opts : opts_t) (blen bcs : Z) (refused : bool).

Inductive bhev := BReq (typ mid : Z) (tok : list Z) (code : Z) (reqopts : opts_t) (pay : list Z) (b : behaviour)
                       (c : ocall) (out : list owire).

(* configured SZX, maximum message size, initial own message ID, the history *)
Inductive case := BHist (szx maxmsg own0 : Z) (h : list bhev).

Definition to_bev (e : bhev) : bev :=
  match e with BReq t m tok c o p b _ _ =>
    {| e_typ := t; e_mid := m; e_tok := tok; e_code := c; e_opts := o; e_pay := p; e_beh := b |} end.

(* the scope of the model (NoResp/BwModel.v) *)
Definition small_val (id : Z) (n : nat) (o : opts_t) : bool :=
  forallb (fun x => negb (fst x =? id) || (length (snd x) <=? n)%nat) o.
Fixpoint sorted_ids (o : opts_t) : bool :=
  match o with
  | [] => true
  | (i, _) :: r => match r with [] => true | (j, _) :: _ => (i <=? j) && sorted_ids r end
  end.
Definition resp_opts_ok (o : opts_t) : bool :=
  sorted_ids o && forallb (fun x => negb ((fst x =? 6) || (fst x =? 23) || (fst x =? 28) || (fst x =? 27) || (fst x =? 60))) o.

Definition wf_ev (e : bhev) : bool :=
  match e with BReq t m tok c o p b _ _ =>
    ((t =? 0) || (t =? 1)) && (1 <=? c) && (c <=? 4) && (1 <=? blen tok) && (blen tok <=? 8)
    && sorted_ids o && small_val 23 3 o && small_val 27 3 o && small_val 258 1 o
    && negb (has_opt o 4) && negb (has_opt o 6)
    && match b with
       | BNone => true
       | BResp rc ro _ => (64 <=? rc) && (rc <? 256) && resp_opts_ok ro
       | _ => false
       end
  end.

Definition call_agrees (m : option hcall) (o : ocall) (b : behaviour) (wopts : opts_t) : bool :=
  match m, o with
  | None, NoCall => true
  | Some hc, Call code opts bl bcs refused =>
      (hc_code hc =? code) && opts_eqb (hc_opts hc) opts && (blen (hc_body hc) =? bl) && (csum (hc_body hc) =? bcs)
      && match b with
         | BResp rc _ _ => Bool.eqb (rw_refuses wopts rc) refused
         | _ => negb refused
         end
  | _, _ => false
  end.

Fixpoint hist_agrees (c : cfg) (s : bst) (h : list bhev) : bool :=
  match h with
  | [] => true
  | e :: r =>
      let '(s1, o) := bstep c s (to_bev e) in
      match e with BReq _ _ _ _ ro _ b oc out =>
        wf_ev e && call_agrees (bo_call o) oc b ro && list_rel wire_agrees (bo_out o) out && hist_agrees c s1 r
      end
  end.

Definition agrees (c : case) : bool :=
  match c with BHist szx maxmsg own0 h =>
    (0 <=? szx) && (szx <=? 7) && hist_agrees {| c_szx := szx; c_maxmsg := maxmsg |} (binit own0) h end.

Definition to_oreq (e : bhev) : oreq :=
  match e with BReq t m tok c o _ b oc out =>
    {| q_typ := t; q_mid := m; q_tok := tok; q_code := c; q_opts := o;
       q_set := match b with BResp rc _ p => Some (rc, p) | _ => None end;
       q_called := match oc with NoCall => false | Call _ _ _ _ _ => true end;
       q_hopts := match oc with NoCall => [] | Call _ ho _ _ _ => ho end;
       q_refused := match oc with NoCall => false | Call _ _ _ _ r => r end;
       q_out := out |} end.

Definition pclass (c : case) : N := match c with BHist _ _ _ h => c20bw_class (map to_oreq h) end.

Definition mismatches (cs : list case) : list N := bad_indices (fun c => negb (agrees c)) cs.
Definition property_failures (cs : list case) : list (N * N) := classes pclass cs.
