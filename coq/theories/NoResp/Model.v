(* Model of message/noresponse.IsNoResponseCode and of the response writer's
   use of it (net/responsewriter: New reads the No-Response option of the
   request with Options.GetUint32, SetResponse refuses a suppressed code). *)
From Coq Require Import ZArith List Bool.
Import ListNotations.
Open Scope Z_scope.

(* func isSet(n uint32, pos uint32) bool { return n & (1 << pos) > 0 } *)
Definition is_set (n pos : Z) : bool := Z.land n (Z.shiftl 1 pos) >? 0.

(* IsNoResponseCode(code codes.Code (uint16), noRespValue uint32): true = ErrMessageNotInterested *)
Definition is_suppressed (code v : Z) : bool :=
  let cls := Z.shiftr code 5 in
  if cls =? 2 then is_set v 1
  else if cls =? 4 then is_set v 3
  else if cls =? 5 then is_set v 4
  else false.

(* message.DecodeUint32: big-endian value of the first (at most) four bytes *)
Definition be (l : list Z) : Z := fold_left (fun a b => a * 256 + b) l 0.
Definition decode_uint32 (bs : list Z) : Z := be (firstn 4 bs).

Definition NoResponseID : Z := 258.

(* Options.GetUint32(id) on a list sorted by option number: value of the first
   option carrying that number *)
Fixpoint get_uint32 (opts : list (Z * list Z)) (id : Z) : option Z :=
  match opts with
  | [] => None
  | (i, v) :: r => if i =? id then Some (decode_uint32 v) else get_uint32 r id
  end.

(* responsewriter.New(..., requestOptions...) followed by SetResponse(code, ...):
   returns true when SetResponse returns an error (response left untouched) *)
Definition rw_refuses (reqopts : list (Z * list Z)) (code : Z) : bool :=
  match get_uint32 reqopts NoResponseID with
  | None => false
  | Some v => is_suppressed code v
  end.
