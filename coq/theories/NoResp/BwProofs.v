(* C20, block-wise part: theorems about NoResp/BwModel.v.

   - the connection part of the model is Dedup/Model.v's ([req_handle_of_result]) and the layer is
     transparent for plain requests ([plain_request_is_step]): the wire theorems of Dedup/Proofs.v carry over;
   - the layer never turns a refused response into a sent one ([refused_untouched]) and keeps no state
     for it ([refused_get_no_state]);
   - wire clause for EVERY request that reaches the handler through the layer, in every state of the
     two caches ([bw_wire_suppressed], [bw_wire_passed_small]);
   - Block1 uploads of any number of blocks: the blocks before the last are answered by the layer
     without the handler, the last one hands over the reassembled body with the options of the first
     block, and the writer decides by the options of the LAST datagram ([upload_reassembles],
     [upload_suppressed], [upload_wire_suppressed]);
   - Block2 downloads: first block and following blocks of a passed response ([download_first_block],
     [download_next_block]). *)
From Coq Require Import ZArith List Bool Lia.
From GoCoap Require Import Base.Bytes Gen.BlockConsts Block.Model Block.Spec Block.Proofs NoResp.Model Dedup.Model NoResp.BwModel.
Import ListNotations.
Open Scope Z_scope.

(* ---------- the connection part is the one of Dedup/Model.v ---------- *)

Theorem req_handle_of_result : forall typ mid tok ro b own1,
  req_handle typ mid tok ro b own1 = req_handle_res typ mid (handler_result tok ro b) own1.
Proof. intros. unfold req_handle, req_handle_res. destruct (handler_result tok ro b); reflexivity. Qed.

Lemma has_opt_get_uint32 : forall o id, has_opt o id = false -> get_uint32 o id = None.
Proof.
  induction o as [|[i v] o IH]; intros id H; cbn [get_uint32]; [reflexivity|].
  unfold has_opt in H. cbn [existsb fst] in H. apply orb_false_iff in H. destruct H as [H1 H2].
  rewrite H1. apply IH. exact H2.
Qed.

Lemma has_opt_get_block : forall o id, has_opt o id = false -> get_block o id = None.
Proof. intros o id H. unfold get_block. rewrite has_opt_get_uint32 by exact H. reflexivity. Qed.

Lemma size_ge_16 : forall szx, 0 <= szx <= 7 -> 16 <= size szx.
Proof.
  intros szx H.
  assert (C : szx = 0 \/ szx = 1 \/ szx = 2 \/ szx = 3 \/ szx = 4 \/ szx = 5 \/ szx = 6 \/ szx = 7) by lia.
  destruct C as [->|[->|[->|[->|[->|[->|[->| ->]]]]]]]; vm_compute; discriminate.
Qed.

Lemma start_sending_none : forall b maxszx maxmsg d, start_sending b None maxszx maxmsg d = (b, inr None).
Proof. reflexivity. Qed.

Lemma start_sending_small : forall b h maxszx maxmsg d,
  blen (h_pay h) < size maxszx -> start_sending b (Some h) maxszx maxmsg d = (b, inr (Some h)).
Proof.
  intros b h maxszx maxmsg d H. unfold start_sending.
  destruct (blen (h_pay h) <? size maxszx) eqn:E; [reflexivity|]. apply Z.ltb_ge in E. lia.
Qed.

(* what the handler leaves in the writer *)
Lemma call_refused : forall tok o rc ro p, rw_refuses o rc = true -> call_handler tok o (BResp rc ro p) = None.
Proof. intros tok o rc ro p H. unfold call_handler. cbn [handler_result]. rewrite H. reflexivity. Qed.

Lemma call_passed : forall tok o rc ro p, rw_refuses o rc = false ->
  call_handler tok o (BResp rc ro p) =
  Some {| h_rst := false; h_code := rc; h_tok := tok; h_opts := match p with [] => ro | _ => set_cf ro end; h_pay := p |}.
Proof. intros tok o rc ro p H. unfold call_handler. cbn [handler_result]. rewrite H. reflexivity. Qed.

(* ---------- the layer never turns a refused response into a sent one ---------- *)

(* processReceivedMessage: whenever it hands the request to the handler, the writer holds exactly what the
   handler left in it (decided by the options [o] of the datagram being processed) *)
Lemma process_block1_call : forall b maxszx tok code o pay beh b1 w hc,
  process_block1 b maxszx tok code o pay beh = inr (b1, w, Some hc) -> w = call_handler tok o beh.
Proof.
  intros b maxszx tok code o pay beh b1 w hc H. unfold process_block1 in H.
  destruct (get_block o Block1ID) as [d|].
  - destruct (d_err d); [discriminate|].
    destruct (tget (rcvc b) tok) as [en|]; destruct (d_more d); destruct (negb (d_num d =? 0)); cbn [andb negb] in H;
      repeat match type of H with
             | context [if ?c then _ else _] => destruct c; cbn [andb negb] in H
             | context [match encode ?a ?b ?c with _ => _ end] => destruct (encode a b c)
             end; try discriminate; inversion H; reflexivity.
  - destruct (is_response_continuation o); [discriminate|]. inversion H. reflexivity.
Qed.

Theorem refused_untouched : forall c b tok code o pay rc ro p,
  rw_refuses o rc = true ->
  b_call (bw_handle c b tok code o pay (BResp rc ro p)) <> None ->
  b_res (bw_handle c b tok code o pay (BResp rc ro p)) = None.
Proof.
  intros c b tok code o pay rc ro p Hr Hc.
  assert (HR : b_call (handle_received c b tok code o pay (BResp rc ro p)) <> None ->
               b_res (handle_received c b tok code o pay (BResp rc ro p)) = None).
  { clear Hc. intros Hc. unfold handle_received in *.
    destruct ((code =? GET) || (code =? DELETE)).
    - rewrite call_refused by exact Hr. rewrite start_sending_none. reflexivity.
    - destruct (process_block1 b (req_maxszx c code o) tok code o pay (BResp rc ro p)) as [u|[[b1 w] call]] eqn:P.
      + cbn [b_call] in Hc. contradiction.
      + destruct call as [hc|].
        * apply process_block1_call in P. rewrite call_refused in P by exact Hr. subst w.
          rewrite start_sending_none. reflexivity.
        * destruct (start_sending b1 w (req_maxszx c code o) (c_maxmsg c) _) as [b2 [u|w1]]; cbn [b_call] in Hc; contradiction. }
  unfold bw_handle in *. destruct (tget (sndc b) tok) as [se|]; [|exact (HR Hc)].
  destruct (wants_to_be_received code o); [exact (HR Hc)|].
  exfalso. apply Hc. unfold continue_sending.
  destruct (get_block o _) as [d|]; [|reflexivity].
  destruct (create_sending _ _ _ _ _ _ d) as [[sm more]|]; reflexivity.
Qed.

(* a refused response to a GET/DELETE leaves the caches as they were: no transfer is started for it *)
Theorem refused_get_no_state : forall c b tok code o pay rc ro p,
  (code =? GET) || (code =? DELETE) = true ->
  rw_refuses o rc = true ->
  b_bw (handle_received c b tok code o pay (BResp rc ro p)) = b.
Proof.
  intros c b tok code o pay rc ro p Hg Hr. unfold handle_received. rewrite Hg.
  rewrite call_refused by exact Hr. rewrite start_sending_none. reflexivity.
Qed.

(* ---------- wire clause, for every state of the connection and of the layer ---------- *)

Theorem bw_wire_suppressed : forall c s typ mid tok code o pay rc ro p,
  req_lookup typ mid (cache (conn s)) = None ->
  rw_refuses o rc = true ->
  let e := {| e_typ := typ; e_mid := mid; e_tok := tok; e_code := code; e_opts := o; e_pay := pay; e_beh := BResp rc ro p |} in
  bo_call (snd (bstep c s e)) <> None ->
  bo_out (snd (bstep c s e)) = (if typ =? CON then [bare_ack mid] else []).
Proof.
  intros c s typ mid tok code o pay rc ro p Hm Hr e Hc. subst e. unfold bstep in *.
  cbn [e_typ e_mid e_tok e_code e_opts e_pay e_beh] in *. rewrite Hm in *. cbn [snd bo_call bo_out] in *.
  rewrite (refused_untouched c (layer s) tok code o pay rc ro p Hr Hc).
  unfold req_handle_res. destruct (typ =? CON); reflexivity.
Qed.

(* the response the handler set, when it is smaller than one block *)
Lemma passed_small_result : forall c b tok code o pay rc ro p,
  rw_refuses o rc = false ->
  blen p < size (req_maxszx c code o) ->
  b_call (bw_handle c b tok code o pay (BResp rc ro p)) <> None ->
  exists h, b_res (bw_handle c b tok code o pay (BResp rc ro p)) = Some h /\ h_rst h = false /\ h_code h = rc /\ h_tok h = tok /\ h_pay h = p.
Proof.
  intros c b tok code o pay rc ro p Hr Hs Hc.
  assert (HR : b_call (handle_received c b tok code o pay (BResp rc ro p)) <> None ->
    exists h, b_res (handle_received c b tok code o pay (BResp rc ro p)) = Some h /\ h_rst h = false /\ h_code h = rc /\ h_tok h = tok /\ h_pay h = p).
  { clear Hc. intros Hc. unfold handle_received in *.
    destruct ((code =? GET) || (code =? DELETE)).
    - rewrite call_passed by exact Hr. rewrite start_sending_small by (cbn [h_pay]; exact Hs).
      eexists; split; [reflexivity|]. repeat split.
    - destruct (process_block1 b (req_maxszx c code o) tok code o pay (BResp rc ro p)) as [u|[[b1 w] call]] eqn:P.
      + cbn [b_call] in Hc. contradiction.
      + destruct call as [hc|].
        * apply process_block1_call in P. rewrite call_passed in P by exact Hr. subst w.
          rewrite start_sending_small by (cbn [h_pay]; exact Hs).
          eexists; split; [reflexivity|]. repeat split.
        * destruct (start_sending b1 w (req_maxszx c code o) (c_maxmsg c) _) as [b2 [u|w1]]; cbn [b_call] in Hc; contradiction. }
  unfold bw_handle in *. destruct (tget (sndc b) tok) as [se|]; [|exact (HR Hc)].
  destruct (wants_to_be_received code o); [exact (HR Hc)|].
  exfalso. apply Hc. unfold continue_sending.
  destruct (get_block o _) as [d|]; [|reflexivity].
  destruct (create_sending _ _ _ _ _ _ d) as [[sm more]|]; reflexivity.
Qed.

Theorem bw_wire_passed_small : forall c s typ mid tok code o pay rc ro p,
  req_lookup typ mid (cache (conn s)) = None ->
  rw_refuses o rc = false ->
  blen p < size (req_maxszx c code o) ->
  let e := {| e_typ := typ; e_mid := mid; e_tok := tok; e_code := code; e_opts := o; e_pay := pay; e_beh := BResp rc ro p |} in
  bo_call (snd (bstep c s e)) <> None ->
  exists r, bo_out (snd (bstep c s e)) = [r] /\ w_code r = rc /\ w_tok r = tok /\ w_pay r = p.
Proof.
  intros c s typ mid tok code o pay rc ro p Hm Hr Hs e Hc. subst e. unfold bstep in *.
  cbn [e_typ e_mid e_tok e_code e_opts e_pay e_beh] in *. rewrite Hm in *. cbn [snd bo_call bo_out] in *.
  destruct (passed_small_result c (layer s) tok code o pay rc ro p Hr Hs Hc) as [h [Hh [H1 [H2 [H3 H4]]]]].
  rewrite Hh. unfold req_handle_res.
  destruct (is_special h); destruct (typ =? CON); cbn [hd_reply]; eexists; (split; [reflexivity|]); cbn [w_code w_tok w_pay]; auto.
Qed.

(* ---------- the layer is transparent for plain requests ---------- *)

(* no block option, no transfer of a response under the token, the handler's body shorter than a block:
   the step is the one of Dedup/Model.v and the caches stay as they are *)
Theorem plain_request_is_step : forall c s typ mid tok code o pay b,
  tget (sndc (layer s)) tok = None ->
  has_opt o Block1ID = false -> has_opt o Block2ID = false -> 0 <= c_szx c <= 7 ->
  (forall rc ro p, b = BResp rc ro p -> blen p < size (c_szx c)) ->
  (forall rc t ro p, b = BMsg rc t ro p -> blen p < size (c_szx c)) ->
  let e := {| e_typ := typ; e_mid := mid; e_tok := tok; e_code := code; e_opts := o; e_pay := pay; e_beh := b |} in
  conn (fst (bstep c s e)) = fst (step (conn s) (Req typ mid tok code o b)) /\
  layer (fst (bstep c s e)) = layer s /\
  bo_out (snd (bstep c s e)) = o_out (snd (step (conn s) (Req typ mid tok code o b))).
Proof.
  intros c s typ mid tok code o pay b Hs H1 H2 H7 Hp Hq e. subst e. unfold bstep. cbn [step].
  cbn [e_typ e_mid e_tok e_code e_opts e_pay e_beh].
  destruct (req_lookup typ mid (cache (conn s))) as [en|]; [repeat split|].
  assert (Hmax : req_maxszx c code o = c_szx c).
  { unfold req_maxszx, fit_szx. rewrite !has_opt_get_block by assumption. destruct ((code =? GET) || (code =? DELETE)); reflexivity. }
  assert (Hsmall : forall h, handler_result tok o b = Some h -> blen (h_pay h) < size (c_szx c)).
  { intros h Hh. destruct b as [|rc ro p|rc t ro p|]; cbn [handler_result] in Hh.
    - discriminate.
    - destruct (rw_refuses o rc); [discriminate|]. inversion Hh. cbn [h_pay]. eapply Hp. reflexivity.
    - inversion Hh. cbn [h_pay]. eapply Hq. reflexivity.
    - inversion Hh. cbn [h_pay]. pose proof (size_ge_16 (c_szx c) H7). unfold blen. cbn [length Z.of_nat]. lia. }
  assert (HB : bw_handle c (layer s) tok code o pay b =
               {| b_bw := layer s; b_res := handler_result tok o b; b_call := Some {| hc_code := code; hc_opts := o; hc_body := pay |} |}).
  { unfold bw_handle. rewrite Hs. unfold handle_received. rewrite Hmax.
    destruct ((code =? GET) || (code =? DELETE)).
    - unfold call_handler. destruct (handler_result tok o b) as [h|] eqn:Hh.
      + rewrite has_opt_get_block by assumption. rewrite start_sending_small by (apply Hsmall; reflexivity). reflexivity.
      + rewrite start_sending_none. reflexivity.
    - unfold process_block1. rewrite has_opt_get_block by assumption.
      unfold is_response_continuation. rewrite has_opt_get_block by assumption.
      unfold call_handler. destruct (handler_result tok o b) as [h|] eqn:Hh.
      + rewrite start_sending_small by (apply Hsmall; reflexivity). reflexivity.
      + rewrite start_sending_none. reflexivity. }
  rewrite HB. cbn [b_res b_bw b_call]. rewrite <- req_handle_of_result.
  cbn [fst snd conn layer bo_out o_out]. unfold req_store, obs_of_reply. cbn [o_out]. repeat split.
Qed.

(* ---------- Block1 uploads ---------- *)

(* the Block1 option of a datagram says (szx, num, more) *)
Definition block1_is (o : opts_t) (szx num : Z) (more : bool) : Prop :=
  get_block o Block1ID = Some {| d_szx := szx; d_num := num; d_more := more; d_err := None |}.

Lemma fit_block1 : forall c code o szx num more,
  (code =? GET) || (code =? DELETE) = false ->
  block1_is o szx num more -> szx <= c_szx c -> req_maxszx c code o = szx.
Proof.
  intros c code o szx num more Hc Hb Hle. unfold req_maxszx, fit_szx. rewrite Hc, Hb. cbn [d_err d_szx].
  destruct (c_szx c >? szx) eqn:G; [reflexivity|]. rewrite Z.gtb_ltb in G. apply Z.ltb_ge in G. lia.
Qed.

Lemma wants_block1 : forall code o szx num more,
  (code =? POST) || (code =? PUT) = true -> block1_is o szx num more -> wants_to_be_received code o = true.
Proof.
  intros code o szx num more Hc Hb. unfold wants_to_be_received.
  assert (H : has_opt o Block1ID = true).
  { destruct (has_opt o Block1ID) eqn:E; [reflexivity|]. unfold block1_is in Hb. rewrite has_opt_get_block in Hb by exact E. discriminate. }
  rewrite H, Hc. reflexivity.
Qed.

Lemma bw_handle_block1 : forall c b tok code o pay beh szx num more,
  (code =? POST) || (code =? PUT) = true -> block1_is o szx num more ->
  bw_handle c b tok code o pay beh = handle_received c b tok code o pay beh.
Proof.
  intros. unfold bw_handle. destruct (tget (sndc b) tok); [|reflexivity].
  erewrite wants_block1 by eassumption. reflexivity.
Qed.

Lemma upload_not_get : forall code, (code =? POST) || (code =? PUT) = true -> (code =? GET) || (code =? DELETE) = false.
Proof.
  intros code H. unfold GET, DELETE, POST, PUT in *. apply orb_true_iff in H.
  destruct H as [H|H]; apply Z.eqb_eq in H; subst; reflexivity.
Qed.

Lemma tget_tput_same {V} (t : list (list Z * V)) k v : tget (tput t k v) k = Some v.
Proof.
  unfold tput. cbn [tget].
  assert (R : bytes_eqb k k = true).
  { unfold bytes_eqb. induction k as [|x k IH]; cbn [list_eqb]; [reflexivity|]. rewrite Z.eqb_refl, IH. reflexivity. }
  rewrite R. reflexivity.
Qed.

Lemma bytes_eqb_refl k : bytes_eqb k k = true.
Proof. unfold bytes_eqb. induction k as [|x k IH]; cbn [list_eqb]; [reflexivity|]. rewrite Z.eqb_refl, IH. reflexivity. Qed.

Lemma tget_tdel_same {V} (t : list (list Z * V)) k : tget (tdel t k) k = None.
Proof.
  induction t as [|[k' v] t IH]; cbn [tdel tget]; [reflexivity|].
  destruct (bytes_eqb k k') eqn:E; [exact IH|]. cbn [tget]. rewrite E. exact IH.
Qed.

Lemma firstn_blen {A} (l : list A) : firstn (Z.to_nat (blen l)) l = l.
Proof. unfold blen. rewrite Nat2Z.id. apply firstn_all. Qed.

Lemma blen_app {A} (a b : list A) : blen (a ++ b) = blen a + blen b.
Proof. unfold blen. rewrite app_length. lia. Qed.

(* the first block (NUM 0, more to come), no transfer under the token yet: answered with 2.31 Continue
   by the layer, the handler is not called, the body so far is the block *)
Lemma upload_first : forall c b tok code o pay beh szx,
  (code =? POST) || (code =? PUT) = true ->
  block1_is o szx 0 true -> 0 <= szx <= c_szx c -> c_szx c <= 7 ->
  tget (rcvc b) tok = None ->
  let r := bw_handle c b tok code o pay beh in
  b_call r = None /\
  (exists h, b_res r = Some h /\ h_code h = Continue /\ h_tok h = tok) /\
  tget (rcvc (b_bw r)) tok = Some {| re_code := code; re_opts := o; re_body := pay |} /\
  sndc (b_bw r) = sndc b.
Proof.
  intros c b tok code o pay beh szx Hc Hb Hs H7 Hn r. subst r.
  erewrite bw_handle_block1 by eassumption. unfold handle_received.
  rewrite (upload_not_get code Hc). erewrite fit_block1; try eassumption; [|apply upload_not_get; exact Hc|lia].
  unfold process_block1. unfold block1_is in Hb. rewrite Hb. cbn [d_err d_szx d_num d_more]. rewrite Hn.
  cbn [negb andb]. rewrite Z.eqb_refl. cbn [negb]. rewrite Z.gtb_ltb, Z.ltb_irrefl.
  cbn [re_body re_code re_opts andb]. rewrite firstn_nil. cbn [app].
  assert (E : exists bv, encode szx 0 true = inr bv).
  { unfold encode. destruct (szx >? szxBERT) eqn:G; [rewrite Z.gtb_ltb in G; apply Z.ltb_lt in G; unfold szxBERT in G; lia|].
    cbn. eexists. reflexivity. }
  destruct E as [bv E]. rewrite E. rewrite start_sending_small.
  - cbn [b_call b_res b_bw rcvc sndc]. split; [reflexivity|]. split; [eexists; split; [reflexivity|split; reflexivity]|].
    split; [apply tget_tput_same|reflexivity].
  - cbn [h_pay]. unfold blen. cbn [length Z.of_nat]. pose proof (size_ge_16 szx ltac:(lia)). lia.
Qed.


Lemma encode_ok : forall szx num more, 0 <= szx <= 7 -> 0 <= num <= maxBlockNumber ->
  encode szx num more = inr (spec_value szx num more).
Proof.
  intros szx num more Hs Hn. apply encode_total. unfold enc_dom, maxBlockNumber in *.
  repeat (apply andb_true_intro; split); try apply Z.leb_le; try apply Z.ltb_lt; lia.
Qed.

(* a following block (more to come) that continues the body held for the token *)
Lemma upload_middle : forall c b tok code o pay beh szx num en,
  (code =? POST) || (code =? PUT) = true ->
  block1_is o szx num true -> 0 <= szx <= c_szx c -> c_szx c <= 7 -> 0 <= num <= maxBlockNumber ->
  tget (rcvc b) tok = Some en -> blen (re_body en) = num * size szx ->
  let r := bw_handle c b tok code o pay beh in
  b_call r = None /\
  (exists h, b_res r = Some h /\ h_code h = Continue /\ h_tok h = tok) /\
  tget (rcvc (b_bw r)) tok = Some {| re_code := re_code en; re_opts := re_opts en; re_body := re_body en ++ pay |} /\
  sndc (b_bw r) = sndc b.
Proof.
  intros c b tok code o pay beh szx num en Hc Hb Hs H7 Hnum Hn Hlen r. subst r.
  erewrite bw_handle_block1 by eassumption. unfold handle_received.
  rewrite (upload_not_get code Hc). erewrite fit_block1; try eassumption; [|apply upload_not_get; exact Hc|lia].
  unfold process_block1. unfold block1_is in Hb. rewrite Hb. cbn [d_err d_szx d_num d_more]. rewrite Hn.
  cbn [negb andb]. rewrite Hlen, Z.eqb_refl. cbn [andb]. rewrite Z.gtb_ltb, Z.ltb_irrefl.
  rewrite encode_ok by lia. rewrite <- Hlen, firstn_blen.
  rewrite start_sending_small.
  - cbn [b_call b_res b_bw rcvc sndc]. split; [reflexivity|]. split; [eexists; split; [reflexivity|split; reflexivity]|].
    split; [apply tget_tput_same|reflexivity].
  - cbn [h_pay]. unfold blen. cbn [length Z.of_nat]. pose proof (size_ge_16 szx ltac:(lia)). lia.
Qed.

(* the last block: the reassembled request goes to the handler; the writer is the one made of the
   options [o] of this last datagram *)
Lemma upload_last : forall c b tok code o pay beh szx num en,
  (code =? POST) || (code =? PUT) = true ->
  block1_is o szx num false -> 0 <= szx <= c_szx c -> c_szx c <= 7 ->
  tget (rcvc b) tok = Some en -> blen (re_body en) = num * size szx ->
  let r := bw_handle c b tok code o pay beh in
  b_call r = Some {| hc_code := re_code en; hc_opts := opt_remove (opt_remove (re_opts en) Block1ID) Size1ID;
                     hc_body := re_body en ++ pay |} /\
  tget (rcvc (b_bw r)) tok = None /\
  (call_handler tok o beh = None -> b_res r = None) /\
  (forall h, call_handler tok o beh = Some h -> blen (h_pay h) < size szx -> b_res r = Some h).
Proof.
  intros c b tok code o pay beh szx num en Hc Hb Hs H7 Hn Hlen r. subst r.
  erewrite bw_handle_block1 by eassumption. unfold handle_received.
  rewrite (upload_not_get code Hc). erewrite fit_block1; try eassumption; [|apply upload_not_get; exact Hc|lia].
  unfold process_block1. unfold block1_is in Hb. rewrite Hb. cbn [d_err d_szx d_num d_more]. rewrite Hn.
  cbn [negb andb]. rewrite Hlen, Z.eqb_refl. cbn [andb].
  rewrite <- Hlen, firstn_blen.
  destruct (call_handler tok o beh) as [h|] eqn:Hh.
  - destruct (start_sending _ (Some h) szx (c_maxmsg c) _) as [b2 [u|w1]] eqn:S.
    + unfold start_sending in S. destruct (blen (h_pay h) <? size szx) eqn:L.
      * discriminate.
      * split; [|split; [|split]].
        -- reflexivity.
        -- cbn [b_bw].
           destruct (create_sending _ _ _ _ _ _ _) as [[sm m]|]; [destruct (tget (sndc _) (h_tok sm))|]; inversion S; subst b2;
             cbn [rcvc]; apply tget_tdel_same.
        -- discriminate.
        -- intros h0 E Hl. inversion E; subst h0. apply Z.ltb_ge in L. lia.
    + split; [reflexivity|]. unfold start_sending in S. destruct (blen (h_pay h) <? size szx) eqn:L.
      * inversion S; subst b2 w1. cbn [b_bw rcvc b_res]. split; [apply tget_tdel_same|]. split; [discriminate|].
        intros h0 E _. inversion E. reflexivity.
      * split; [|split; [discriminate|]].
        -- cbn [b_bw].
           destruct (create_sending _ _ _ _ _ _ _) as [[sm m]|]; [destruct (tget (sndc _) (h_tok sm))|]; inversion S; subst b2;
             cbn [rcvc]; apply tget_tdel_same.
        -- intros h0 E Hl. inversion E; subst h0. apply Z.ltb_ge in L. lia.
  - rewrite start_sending_none. cbn [b_call b_bw b_res rcvc]. split; [reflexivity|]. split; [apply tget_tdel_same|].
    split; [reflexivity|]. discriminate.
Qed.

(* ---- whole uploads: any number of blocks ---- *)

(* feeding the datagrams [bl] (options, payload) of one token to the layer: the caches afterwards and
   the handler calls that happened *)
Fixpoint feed (c : cfg) (b : bw) (tok : list Z) (code : Z) (bl : list (opts_t * list Z)) (beh : behaviour)
  : bw * list (option hcall) :=
  match bl with
  | [] => (b, [])
  | (o, p) :: r =>
      let x := bw_handle c b tok code o p beh in
      let '(b', calls) := feed c (b_bw x) tok code r beh in (b', b_call x :: calls)
  end.

(* blocks number i, i+1, ... of full size, each announcing more *)
Fixpoint mids_ok (szx i : Z) (bl : list (opts_t * list Z)) : Prop :=
  match bl with
  | [] => True
  | (o, p) :: r => block1_is o szx i true /\ blen p = size szx /\ 0 <= i <= maxBlockNumber /\ mids_ok szx (i + 1) r
  end.

Lemma feed_middle : forall bl c b tok code beh szx i en,
  (code =? POST) || (code =? PUT) = true -> 0 <= szx <= c_szx c -> c_szx c <= 7 ->
  tget (rcvc b) tok = Some en -> blen (re_body en) = i * size szx -> mids_ok szx i bl ->
  tget (rcvc (fst (feed c b tok code bl beh))) tok =
    Some {| re_code := re_code en; re_opts := re_opts en; re_body := re_body en ++ concat (map snd bl) |} /\
  Forall (fun x => x = None) (snd (feed c b tok code bl beh)).
Proof.
  induction bl as [|[o p] bl IH]; intros c b tok code beh szx i en Hc Hs H7 Hn Hlen Hok.
  - cbn [feed fst snd map concat]. rewrite app_nil_r. split; [|constructor]. rewrite Hn. destruct en; reflexivity.
  - cbn [mids_ok] in Hok. destruct Hok as [Hb [Hp [Hi Hok]]].
    destruct (upload_middle c b tok code o p beh szx i en Hc Hb Hs H7 Hi Hn Hlen) as [Hcall [_ [Hrcv _]]].
    cbn [feed]. destruct (feed c (b_bw (bw_handle c b tok code o p beh)) tok code bl beh) as [b' calls] eqn:F.
    specialize (IH c (b_bw (bw_handle c b tok code o p beh)) tok code beh szx (i + 1) _ Hc Hs H7 Hrcv).
    cbn [re_body re_code re_opts] in IH. rewrite F in IH. cbn [fst snd] in *.
    destruct IH as [IH1 IH2]; [rewrite blen_app, Hlen, Hp; lia|exact Hok|].
    split.
    + rewrite IH1. cbn [map snd concat]. rewrite <- app_assoc. reflexivity.
    + constructor; assumption.
Qed.

Lemma mids_len : forall szx i bl, mids_ok szx i bl -> blen (concat (map snd bl)) = blen bl * size szx.
Proof.
  intros szx i bl. revert i. induction bl as [|[o p] bl IH]; intros i Hm.
  - reflexivity.
  - cbn [mids_ok] in Hm. destruct Hm as [_ [Hp [_ Hm]]]. cbn [map snd concat]. rewrite blen_app, Hp, (IH _ Hm).
    unfold blen. cbn [length]. lia.
Qed.

(* A Block1 upload of 2 + |mids| blocks under a token for which nothing is held: only the last datagram
   reaches the handler, with the body put together from all blocks and the options of the FIRST block
   minus Block1/Size1; what the handler then leaves in the writer -- decided by the options [ol] of the
   LAST datagram -- is what the layer passes on. *)
Theorem upload_reassembles : forall c b tok code beh szx o0 p0 mids ol pl,
  (code =? POST) || (code =? PUT) = true -> 0 <= szx <= c_szx c -> c_szx c <= 7 ->
  tget (rcvc b) tok = None ->
  block1_is o0 szx 0 true -> blen p0 = size szx ->
  mids_ok szx 1 mids ->
  block1_is ol szx (1 + blen mids) false ->
  let x0 := bw_handle c b tok code o0 p0 beh in
  let f := feed c (b_bw x0) tok code mids beh in
  let r := bw_handle c (fst f) tok code ol pl beh in
  b_call x0 = None /\ Forall (fun x => x = None) (snd f) /\
  b_call r = Some {| hc_code := code; hc_opts := opt_remove (opt_remove o0 Block1ID) Size1ID;
                     hc_body := p0 ++ concat (map snd mids) ++ pl |} /\
  tget (rcvc (b_bw r)) tok = None /\
  (call_handler tok ol beh = None -> b_res r = None) /\
  (forall h, call_handler tok ol beh = Some h -> blen (h_pay h) < size szx -> b_res r = Some h).
Proof.
  intros c b tok code beh szx o0 p0 mids ol pl Hc Hs H7 Hn Hb0 Hp0 Hmid Hbl x0 f r. subst x0 f r.
  destruct (upload_first c b tok code o0 p0 beh szx Hc Hb0 Hs H7 Hn) as [Hcall0 [_ [Hrcv0 _]]].
  destruct (feed_middle mids c (b_bw (bw_handle c b tok code o0 p0 beh)) tok code beh szx 1 _ Hc Hs H7 Hrcv0) as [Hrcv1 Hcalls];
    [cbn [re_body]; lia|exact Hmid|].
  cbn [re_body re_code re_opts] in Hrcv1.
  assert (Hlen : blen (p0 ++ concat (map snd mids)) = (1 + blen mids) * size szx).
  { rewrite blen_app, Hp0, (mids_len szx 1 mids Hmid). lia. }
  destruct (upload_last c _ tok code ol pl beh szx (1 + blen mids) _ Hc Hbl Hs H7 Hrcv1 Hlen) as [Hcall [Hdel [Hnone Hsome]]].
  cbn [re_body re_code re_opts] in Hcall.
  split; [exact Hcall0|]. split; [exact Hcalls|]. split; [rewrite Hcall, <- app_assoc; reflexivity|].
  split; [exact Hdel|]. split; assumption.
Qed.

(* ... whose last datagram carries a No-Response value that suppresses the class of the handler's code:
   the handler is called with the whole body, the response writer refuses, and the layer passes on an
   UNMODIFIED response *)
Theorem upload_suppressed : forall c b tok code szx o0 p0 mids ol pl rc ro p,
  (code =? POST) || (code =? PUT) = true -> 0 <= szx <= c_szx c -> c_szx c <= 7 ->
  tget (rcvc b) tok = None ->
  block1_is o0 szx 0 true -> blen p0 = size szx ->
  mids_ok szx 1 mids ->
  block1_is ol szx (1 + blen mids) false ->
  rw_refuses ol rc = true ->
  let beh := BResp rc ro p in
  let x0 := bw_handle c b tok code o0 p0 beh in
  let f := feed c (b_bw x0) tok code mids beh in
  let r := bw_handle c (fst f) tok code ol pl beh in
  (exists hc, b_call r = Some hc /\ hc_body hc = p0 ++ concat (map snd mids) ++ pl) /\ b_res r = None.
Proof.
  intros c b tok code szx o0 p0 mids ol pl rc ro p Hc Hs H7 Hn Hb0 Hp0 Hmid Hbl Hr beh x0 f r. subst x0 f r.
  destruct (upload_reassembles c b tok code beh szx o0 p0 mids ol pl Hc Hs H7 Hn Hb0 Hp0 Hmid Hbl) as [_ [_ [Hcall [_ [Hnone _]]]]].
  split; [eexists; split; [exact Hcall|reflexivity]|].
  apply Hnone. apply call_refused. exact Hr.
Qed.

(* ... and on the wire: the datagram of the last block (a message ID not in the response cache) is answered
   by the bare acknowledgement if confirmable and by nothing otherwise *)
Theorem upload_wire_suppressed : forall c s typ mid tok code szx o0 p0 mids ol pl rc ro p,
  (code =? POST) || (code =? PUT) = true -> 0 <= szx <= c_szx c -> c_szx c <= 7 ->
  tget (rcvc (layer s)) tok = None ->
  block1_is o0 szx 0 true -> blen p0 = size szx ->
  mids_ok szx 1 mids ->
  block1_is ol szx (1 + blen mids) false ->
  rw_refuses ol rc = true ->
  let beh := BResp rc ro p in
  let x0 := bw_handle c (layer s) tok code o0 p0 beh in
  let f := feed c (b_bw x0) tok code mids beh in
  forall cn, req_lookup typ mid (cache cn) = None ->
  let e := {| e_typ := typ; e_mid := mid; e_tok := tok; e_code := code; e_opts := ol; e_pay := pl; e_beh := beh |} in
  bo_out (snd (bstep c {| conn := cn; layer := fst f |} e)) = (if typ =? CON then [bare_ack mid] else []).
Proof.
  intros c s typ mid tok code szx o0 p0 mids ol pl rc ro p Hc Hs H7 Hn Hb0 Hp0 Hmid Hbl Hr beh x0 f cn Hm e.
  subst e. apply bw_wire_suppressed; [exact Hm|exact Hr|].
  unfold bstep. cbn [e_typ e_mid e_tok e_code e_opts e_pay e_beh conn layer]. rewrite Hm. cbn [snd bo_call].
  destruct (upload_suppressed c (layer s) tok code szx o0 p0 mids ol pl rc ro p Hc Hs H7 Hn Hb0 Hp0 Hmid Hbl Hr) as [[hc [Hcall _]] _].
  subst f x0 beh. rewrite Hcall. discriminate.
Qed.

(* ... whose last datagram does NOT suppress the class of the handler's code (small response body): the response is
   handed on -- code, token, body -- whatever No-Response option the FIRST block carried *)
Theorem upload_passed : forall c b tok code szx o0 p0 mids ol pl rc ro p,
  (code =? POST) || (code =? PUT) = true -> 0 <= szx <= c_szx c -> c_szx c <= 7 ->
  tget (rcvc b) tok = None ->
  block1_is o0 szx 0 true -> blen p0 = size szx ->
  mids_ok szx 1 mids ->
  block1_is ol szx (1 + blen mids) false ->
  rw_refuses ol rc = false -> blen p < size szx ->
  let beh := BResp rc ro p in
  let x0 := bw_handle c b tok code o0 p0 beh in
  let f := feed c (b_bw x0) tok code mids beh in
  let r := bw_handle c (fst f) tok code ol pl beh in
  exists h, b_res r = Some h /\ h_code h = rc /\ h_tok h = tok /\ h_pay h = p.
Proof.
  intros c b tok code szx o0 p0 mids ol pl rc ro p Hc Hs H7 Hn Hb0 Hp0 Hmid Hbl Hr Hp beh x0 f r. subst x0 f r.
  destruct (upload_reassembles c b tok code beh szx o0 p0 mids ol pl Hc Hs H7 Hn Hb0 Hp0 Hmid Hbl) as [_ [_ [_ [_ [_ Hsome]]]]].
  eexists. split; [apply Hsome; [apply call_passed; exact Hr|exact Hp]|].
  cbn [h_code h_tok h_pay]. repeat split.
Qed.

(* the response of an upload belongs to the request that carries the LAST block: the refusal the handler meets is
   the writer decision on the last datagram's options for every first block -- in particular for every No-Response
   option the first block (whose options the handler is shown) may carry *)
Theorem upload_final_request_decides : forall c b tok code szx o0 o0' p0 mids ol pl rc ro p,
  (code =? POST) || (code =? PUT) = true -> 0 <= szx <= c_szx c -> c_szx c <= 7 ->
  tget (rcvc b) tok = None ->
  block1_is o0 szx 0 true -> block1_is o0' szx 0 true -> blen p0 = size szx ->
  mids_ok szx 1 mids ->
  block1_is ol szx (1 + blen mids) false ->
  blen p < size szx ->
  let beh := BResp rc ro p in
  let run := fun o => bw_handle c (fst (feed c (b_bw (bw_handle c b tok code o p0 beh)) tok code mids beh)) tok code ol pl beh in
  b_res (run o0) = b_res (run o0') /\
  (b_res (run o0) = None <-> rw_refuses ol rc = true).
Proof.
  intros c b tok code szx o0 o0' p0 mids ol pl rc ro p Hc Hs H7 Hn Hb0 Hb0' Hp0 Hmid Hbl Hp beh run. subst run. cbn beta.
  destruct (rw_refuses ol rc) eqn:Hr.
  - destruct (upload_suppressed c b tok code szx o0 p0 mids ol pl rc ro p Hc Hs H7 Hn Hb0 Hp0 Hmid Hbl Hr) as [_ E1].
    destruct (upload_suppressed c b tok code szx o0' p0 mids ol pl rc ro p Hc Hs H7 Hn Hb0' Hp0 Hmid Hbl Hr) as [_ E2].
    cbn zeta in E1, E2. fold beh in E1, E2. rewrite E1, E2. split; [reflexivity|split; reflexivity].
  - pose proof (upload_reassembles c b tok code beh szx o0 p0 mids ol pl Hc Hs H7 Hn Hb0 Hp0 Hmid Hbl) as [_ [_ [_ [_ [_ S1]]]]].
    pose proof (upload_reassembles c b tok code beh szx o0' p0 mids ol pl Hc Hs H7 Hn Hb0' Hp0 Hmid Hbl) as [_ [_ [_ [_ [_ S2]]]]].
    cbn zeta in S1, S2.
    rewrite (S1 _ (call_passed tok ol rc ro p Hr) Hp), (S2 _ (call_passed tok ol rc ro p Hr) Hp).
    split; [reflexivity|split; discriminate].
Qed.

(* ---------- Block2 downloads ---------- *)

Lemma decode_start0 : forall szx, 0 <= szx <= 7 ->
  decode (block_value szx 0 true) = {| d_szx := szx; d_num := 0; d_more := true; d_err := None |}.
Proof.
  intros szx H. unfold block_value.
  assert (D : enc_dom szx 0 = true).
  { unfold enc_dom. repeat (apply andb_true_intro; split); try apply Z.leb_le; try apply Z.ltb_lt; lia. }
  rewrite encode_total by exact D. apply (decode_encode szx 0 true); [exact D|]. apply encode_total. exact D.
Qed.

(* a GET/DELETE without a Block2 option whose handler sets a response (not suppressed by the request's
   No-Response value) with a body of at least one block: the first block goes out -- code, token, the first
   size(SZX) bytes -- and the whole response is kept for the following requests *)
Theorem download_first_block : forall c b tok code o pay rc ro p,
  (code =? GET) || (code =? DELETE) = true -> 0 <= c_szx c <= 6 ->
  has_opt o Block2ID = false ->
  tget (sndc b) tok = None ->
  rw_refuses o rc = false ->
  size (c_szx c) <= blen p ->
  let r := bw_handle c b tok code o pay (BResp rc ro p) in
  exists h, b_res r = Some h /\ h_code h = rc /\ h_tok h = tok /\
            h_pay h = firstn (Z.to_nat (size (c_szx c))) p /\
            tget (sndc (b_bw r)) tok = Some {| se_code := rc; se_opts := set_cf ro; se_pay := p |}.
Proof.
  intros c b tok code o pay rc ro p Hg Hs H2 Hn Hr Hlen r. subst r.
  unfold bw_handle. rewrite Hn. unfold handle_received. rewrite Hg.
  rewrite call_passed by exact Hr. rewrite has_opt_get_block by exact H2.
  assert (Hmax : req_maxszx c code o = c_szx c).
  { unfold req_maxszx, fit_szx. rewrite Hg. rewrite has_opt_get_block by exact H2. reflexivity. }
  rewrite Hmax. rewrite decode_start0 by lia.
  pose proof (size_ge_16 (c_szx c) ltac:(lia)) as H16.
  assert (Hp : match p with [] => ro | _ => set_cf ro end = set_cf ro).
  { destruct p; [|reflexivity]. unfold blen in Hlen. cbn [length Z.of_nat] in Hlen. lia. }
  rewrite Hp.
  unfold start_sending. cbn [h_pay h_code h_tok h_opts].
  destruct (blen p <? size (c_szx c)) eqn:L; [apply Z.ltb_lt in L; lia|].
  unfold create_sending. cbn [d_err d_szx d_num].
  rewrite Z.gtb_ltb, Z.ltb_irrefl. rewrite Z.mul_0_l.
  destruct (blen p <? 0) eqn:L0; [apply Z.ltb_lt in L0; unfold blen in L0; lia|].
  rewrite nonbert_buffer by lia.
  replace (2 ^ (c_szx c + 4)) with (size (c_szx c)).
  2:{ rewrite size_spec by lia. unfold spec_size. destruct (c_szx c =? 7) eqn:E; [apply Z.eqb_eq in E; lia|reflexivity]. }
  change (Z.to_nat 0) with 0%nat. cbn [skipn]. rewrite Z.div_0_l by lia.
  rewrite encode_ok by (unfold maxBlockNumber; lia).
  cbn [h_tok]. rewrite Hn. cbn [b_res b_bw sndc].
  eexists. split; [reflexivity|]. cbn [h_code h_tok h_pay]. repeat split. apply tget_tput_same.
Qed.

(* a GET/DELETE asking for block [num] of the response kept for the token: the layer answers with that
   block -- code of the response, the token, bytes [num*size, (num+1)*size) of the body -- without calling
   the handler and whatever No-Response option the request for the block carries: a response that was
   not suppressed when the handler set it is not dropped afterwards *)
Theorem download_next_block : forall c b tok code o pay beh se szx num more,
  GET <= code <= DELETE ->
  get_block o Block2ID = Some {| d_szx := szx; d_num := num; d_more := more; d_err := None |} ->
  has_opt o Block1ID = false ->
  0 <= szx <= c_szx c -> c_szx c <= 6 -> 0 <= num <= maxBlockNumber ->
  tget (sndc b) tok = Some se -> DELETE < se_code se ->
  num * size szx <= blen (se_pay se) ->
  let r := bw_handle c b tok code o pay beh in
  b_call r = None /\
  exists h, b_res r = Some h /\ h_code h = se_code se /\ h_tok h = tok /\
            h_pay h = firstn (Z.to_nat (size szx)) (skipn (Z.to_nat (num * size szx)) (se_pay se)).
Proof.
  intros c b tok code o pay beh se szx num more Hcode Hb H1 Hs H6 Hnum Hse Hrc Hoff r. subst r.
  unfold bw_handle. rewrite Hse.
  assert (H2 : has_opt o Block2ID = true).
  { destruct (has_opt o Block2ID) eqn:E; [reflexivity|]. rewrite has_opt_get_block in Hb by exact E. discriminate. }
  assert (Hw : wants_to_be_received code o = false).
  { unfold wants_to_be_received. rewrite H1, H2. cbn [andb].
    destruct (GET <=? code) eqn:G1; [|apply Z.leb_gt in G1; lia].
    destruct (code <=? DELETE) eqn:G2; [|apply Z.leb_gt in G2; lia]. reflexivity. }
  rewrite Hw. unfold continue_sending.
  assert (Hid : (se_code se =? POST) || (se_code se =? PUT) = false).
  { unfold POST, PUT, DELETE in *. apply orb_false_iff. split; apply Z.eqb_neq; lia. }
  rewrite Hid, Hb. unfold create_sending. cbn [d_err d_szx d_num].
  assert (Hmin : (if szx >? c_szx c then c_szx c else szx) = szx).
  { destruct (szx >? c_szx c) eqn:G; [rewrite Z.gtb_ltb in G; apply Z.ltb_lt in G; lia|reflexivity]. }
  rewrite Hmin.
  destruct (blen (se_pay se) <? num * size szx) eqn:L; [apply Z.ltb_lt in L; lia|].
  pose proof (size_ge_16 szx ltac:(lia)) as H16.
  rewrite nonbert_buffer by lia.
  replace (2 ^ (szx + 4)) with (size szx).
  2:{ rewrite size_spec by lia. unfold spec_size. destruct (szx =? 7) eqn:E; [apply Z.eqb_eq in E; lia|reflexivity]. }
  rewrite Z.div_mul by lia. rewrite encode_ok by lia.
  destruct (negb _ && _); cbn [b_call b_res]; (split; [reflexivity|]); eexists; (split; [reflexivity|]); cbn [h_code h_tok h_pay]; repeat split.
Qed.
