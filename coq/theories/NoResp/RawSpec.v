(* C20 on received bytes, written from the property text and the RFCs only.

   What a request CARRIES is the list of (option number, value) pairs its sender put into it; on the wire
   (RFC 7252 3.1) every option is written as the DELTA to the number of the option before it -- whatever
   the receiver thinks of that option -- followed by its length and value (Codec/Spec.v: spec_options,
   spec_udp_bytes, spec_tcp_bytes).
   RFC 7967 2: No-Response is option 258, a uint of 0..1 bytes.  RFC 7252 5.4.3: an option whose length is
   outside the defined range is treated like an unrecognized one; 258 is elective, so such a No-Response
   option is ignored (and so is every other elective option of illegal length: it must not change the
   meaning of the options that follow it).
   The property: for EVERY request (RFC 7252 12.1.1: codes 0.01-0.31, i.e. also FETCH/PATCH/iPATCH) the
   writer refuses exactly when the carried value marks the class of the response as not of interest. *)
From Coq Require Import ZArith List Bool.
From GoCoap Require Import Base.Bytes NoResp.Spec.
Import ListNotations.
Open Scope Z_scope.

Definition NoResponseNumber : Z := 258.
Definition NoResponseMaxLen : Z := 1.

(* the No-Response value a request carries: the first option 258 of legal length *)
Fixpoint carried_noresp (os : list (Z * list Z)) : option Z :=
  match os with
  | [] => None
  | (i, v) :: r =>
      if (i =? NoResponseNumber) && (blen v <=? NoResponseMaxLen) then Some (be v) else carried_noresp r
  end.

(* must SetResponse(code) be refused for a request carrying [os]? *)
Definition spec_refuse (os : list (Z * list Z)) (code : Z) : bool :=
  match carried_noresp os with
  | Some v => spec_suppressed code v
  | None => false
  end.
