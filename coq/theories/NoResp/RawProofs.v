(* C20 on received bytes: Options.Unmarshal keeps every option it keeps under the number the sender gave
   it (the sum of ALL deltas before it, those of skipped options included), so the No-Response option of
   a request is found whatever precedes it; the writer is made of the decoded options for every request
   code; hence refusal and wire follow the carried value for every request of every peer. *)
From Coq Require Import ZArith List Bool Lia.
From GoCoap Require Import Base.Bytes Gen.OptionDefs Gen.TcpConsts Codec.Options Codec.Udp Codec.Tcp Codec.Pool Codec.Spec
  Codec.ProofsOpt Codec.ProofsC01.
From GoCoap Require Import NoResp.Model NoResp.Spec NoResp.Proofs Dedup.Model Dedup.Proofs NoResp.RawModel NoResp.RawSpec.
Import ListNotations.
Open Scope Z_scope.
Ltac Zify.zify_post_hook ::= Z.div_mod_to_equations.

(* ---------- what a sender can put on the wire ---------- *)

(* option list a request can carry: numbers 0..65535 in non-decreasing order, deltas and lengths
   expressible (<= 65804), values are bytes.  NO condition on the lengths being legal for the option. *)
Fixpoint raw_opts_wf (prev : Z) (os : list opt) : bool :=
  match os with
  | [] => true
  | (id, v) :: rest =>
      (prev <=? id) && (id <=? 65535) && (id - prev <=? max_opt_value) && (blen v <=? max_opt_value)
      && bytes_ok v && raw_opts_wf id rest
  end.

Fixpoint opts_enc_ok (prev : Z) (os : list opt) : Prop :=
  match os with
  | [] => True
  | o :: r => opt_ok prev o /\ 0 <= prev <= fst o /\ fst o <= 65535 /\ bytes_ok (snd o) = true /\ opts_enc_ok (fst o) r
  end.

Lemma raw_opts_wf_enc os : forall prev, 0 <= prev -> raw_opts_wf prev os = true -> opts_enc_ok prev os.
Proof.
  induction os as [|[id v] r IH]; intros prev Hp H; cbn [raw_opts_wf opts_enc_ok] in *; [exact I|].
  rewrite !andb_true_iff in H. destruct H as (((((H1 & H2) & H3) & H4) & H5) & H6).
  apply Z.leb_le in H1, H2, H3, H4. unfold max_opt_value in *. pose proof (blen_nonneg v).
  cbn [fst snd]. repeat split; try (unfold nib_ok; cbn [fst snd]; lia); try lia; try assumption.
  apply IH; [lia|exact H6].
Qed.

(* the decoder's verdict on one option: kept (appended under its number) or skipped *)
Definition kept (defs : optdefs) (o : opt) : bool := option_keep defs (fst o) (blen (snd o)) && negb (fst o =? 0).

(* ---------- Options.Unmarshal on the RFC encoding of ANY option list ---------- *)
Theorem unmarshal_skip defs os : forall fuel prev processed len cap acc rest,
  opts_enc_ok prev os -> rest_ok rest -> (length os < fuel)%nat -> len + blen os <= cap ->
  unmarshal_opts fuel defs (spec_options prev os ++ rest) prev processed len cap acc =
    Ok (processed + blen (spec_options prev os) + rest_len rest, acc ++ filter (kept defs) os).
Proof.
  induction os as [|o r IH]; intros fuel prev processed len cap acc rest Hok Hrest Hfuel Hcap.
  - cbn [spec_options app filter]. destruct fuel as [|f]; [cbn in Hfuel; lia|].
    rewrite unmarshal_rest by exact Hrest. rewrite blen_nil, !Z.add_0_r, app_nil_r. reflexivity.
  - destruct fuel as [|f]; [cbn in Hfuel; lia|]. cbn [length] in Hfuel.
    destruct Hok as ([Hd Hl] & Hpr & Hid & _ & Hr).
    cbn [spec_options]. rewrite spec_option_eq. rewrite <- !app_assoc.
    rewrite blen_cons in Hcap. pose proof (blen_nonneg r) as Hrn.
    rewrite (unmarshal_step f defs (fst o - prev) (snd o)) by (assumption || lia).
    replace (prev + (fst o - prev)) with (fst o) by lia.
    ff (cap =? len). cbv zeta.
    cbn [filter]. change (option_keep defs (fst o) (blen (snd o)) && negb (fst o =? 0)) with (kept defs o).
    destruct (kept defs o).
    + rewrite IH by (assumption || lia).
      rewrite <- app_assoc. cbn [app]. destruct o as [id v]. cbn [fst snd].
      rewrite !blen_app, spec_hdr_len. f_equal. f_equal. lia.
    + rewrite IH by (assumption || lia).
      destruct o as [id v]. cbn [fst snd].
      rewrite !blen_app, spec_hdr_len. f_equal. f_equal. lia.
Qed.

(* the number under which a kept option is stored is the number its sender gave it: the decoded list is a
   sub-list of the carried one (nothing renumbered, nothing reordered, nothing invented) *)
Corollary unmarshal_skip_sublist defs os fuel cap rest p acc :
  opts_enc_ok 0 os -> rest_ok rest -> (length os < fuel)%nat -> blen os <= cap ->
  unmarshal_opts fuel defs (spec_options 0 os ++ rest) 0 0 0 cap [] = Ok (p, acc) ->
  acc = filter (kept defs) os /\ forall o, In o acc -> In o os.
Proof.
  intros H1 H2 H3 H4 H5. rewrite unmarshal_skip in H5 by (assumption || lia).
  inversion H5; subst. cbn [app]. split; [reflexivity|]. intros o Ho. apply filter_In in Ho. tauto.
Qed.

(* ---------- the No-Response option survives whatever precedes it ---------- *)
Lemma kept_noresp v : 0 <= blen v < W32 -> kept CoapOptionDefs (NoResponseID, v) = (blen v <=? 1).
Proof.
  intros H. unfold kept. cbn [fst snd].
  assert (K : forall len, option_keep CoapOptionDefs NoResponseID len =
                          negb ((Codec.Options.u32 len <? 0) || (Codec.Options.u32 len >? 1))) by (intros; reflexivity).
  rewrite K. unfold Codec.Options.u32. rewrite Z.mod_small by exact H.
  change (NoResponseID =? 0) with false. cbn [negb]. rewrite andb_true_r.
  ff (blen v <? 0). cbn [orb]. rewrite Z.gtb_ltb. destruct (blen v <=? 1) eqn:E.
  - apply Z.leb_le in E. ff (1 <? blen v). reflexivity.
  - apply Z.leb_gt in E. tt (1 <? blen v). reflexivity.
Qed.

Lemma short_decode v : blen v <= 1 -> decode_uint32 v = Base.Bytes.be v.
Proof.
  destruct v as [|x [|y v]]; intros H; try reflexivity.
  rewrite !blen_cons in H. pose proof (blen_nonneg v). lia.
Qed.

Lemma found_noresp os : forall prev, opts_enc_ok prev os ->
  get_uint32 (filter (kept CoapOptionDefs) os) NoResponseID = carried_noresp os.
Proof.
  induction os as [|[i v] r IH]; intros prev Hok; [reflexivity|].
  destruct Hok as ([_ Hl] & _ & _ & _ & Hr). cbn [fst snd] in *. specialize (IH i Hr).
  cbn [filter carried_noresp]. unfold NoResponseNumber, NoResponseMaxLen.
  destruct (Z.eqb_spec i 258) as [->|Hne].
  - change 258 with NoResponseID at 1. rewrite kept_noresp by (unfold nib_ok, W32 in *; lia).
    cbn [andb]. destruct (blen v <=? 1) eqn:E.
    + cbn [get_uint32]. change (NoResponseID =? NoResponseID) with true. cbv iota.
      apply Z.leb_le in E. rewrite short_decode by exact E. reflexivity.
    + exact IH.
  - cbn [andb]. destruct (kept CoapOptionDefs (i, v)); [|exact IH].
    cbn [get_uint32]. unfold NoResponseID in *. destruct (Z.eqb_spec i 258); [contradiction|]. exact IH.
Qed.

Lemma be_bytes_nonneg v : bytes_ok v = true -> 0 <= Base.Bytes.be v.
Proof.
  intros H. unfold Base.Bytes.be. apply be_nonneg; [lia|].
  apply Forall_forall. intros b Hb. unfold bytes_ok in H. rewrite forallb_forall in H. specialize (H b Hb).
  unfold byte_ok in H. apply andb_true_iff in H. destruct H as [H _]. apply Z.leb_le in H. exact H.
Qed.

Lemma carried_nonneg os : forall prev v, opts_enc_ok prev os -> carried_noresp os = Some v -> 0 <= v.
Proof.
  induction os as [|[i w] r IH]; intros prev v Hok H; [discriminate|].
  destruct Hok as (_ & _ & _ & Hb & Hr). cbn [fst snd] in *. cbn [carried_noresp] in H.
  destruct ((i =? NoResponseNumber) && (blen w <=? NoResponseMaxLen)).
  - inversion H; subst. apply be_bytes_nonneg. exact Hb.
  - exact (IH i v Hr H).
Qed.

(* the writer made of the DECODED options of a request decides as RFC 7967 says for the value the request
   CARRIES: for every carried option list (illegal lengths anywhere), every response code *)
Theorem raw_writer_exact os code : opts_enc_ok 0 os -> 0 <= code ->
  rw_refuses (filter (kept CoapOptionDefs) os) code = spec_refuse os code.
Proof.
  intros Hok Hc. unfold rw_refuses, spec_refuse. rewrite (found_noresp os 0 Hok).
  destruct (carried_noresp os) as [v|] eqn:E; [|reflexivity].
  apply suppressed_exact; [exact Hc|]. exact (carried_nonneg os 0 v Hok E).
Qed.

(* ---------- datagram coder on a request of any peer ---------- *)
Record raw_udp_facts (m : msg) : Prop := {
  ru_tok : blen (m_tok m) <= 8; ru_code : 0 <= m_code m <= 255;
  ru_opts : raw_opts_wf 0 (m_opts m) = true;
  ru_typ : 0 <= m_typ m <= 3; ru_mid : 0 <= m_mid m <= 65535 }.

Definition raw_wf_udp (m : msg) : bool :=
  (blen (m_tok m) <=? 8) && (0 <=? m_code m) && (m_code m <=? 255) && raw_opts_wf 0 (m_opts m)
  && (0 <=? m_typ m) && (m_typ m <=? 3) && (0 <=? m_mid m) && (m_mid m <=? 65535).

Lemma raw_udp_facts_of m : raw_wf_udp m = true -> raw_udp_facts m.
Proof.
  unfold raw_wf_udp. rewrite !andb_true_iff. intros (((((((H1 & H2) & H3) & H4) & H5) & H6) & H7) & H8).
  apply Z.leb_le in H1, H2, H3, H5, H6, H7, H8. constructor; (lia || assumption).
Qed.

(* the message the handler is given *)
Definition decoded (m : msg) : msg :=
  {| m_tok := m_tok m; m_code := m_code m; m_opts := filter (kept CoapOptionDefs) (m_opts m); m_pay := m_pay m;
     m_mid := m_mid m; m_typ := m_typ m |}.

Lemma unmarshal_body_skip d os pay cap : opts_enc_ok 0 os -> blen os <= cap ->
  let body := spec_options 0 os ++ spec_payload pay in
  unmarshal_opts (S (length body)) d body 0 0 0 cap [] =
    Ok (blen (spec_options 0 os) + rest_len (spec_payload pay), filter (kept d) os).
Proof.
  intros Hok Hcap body. subst body.
  rewrite (unmarshal_skip d os) by
    (try assumption; try apply spec_payload_rest_ok; try lia;
     pose proof (spec_options_long os 0) as HL; unfold blen in HL; rewrite app_length; lia).
  reflexivity.
Qed.

Theorem udp_decode_raw m cap : raw_wf_udp m = true -> blen (m_opts m) <= cap ->
  udp_decode cap (spec_udp_bytes m) = Ok (decoded m, blen (spec_udp_bytes m)).
Proof.
  intros Hwf Hcap. pose proof (raw_udp_facts_of m Hwf) as F. destruct F as [Ft Fc Fo Fy Fm].
  pose proof (blen_nonneg (m_tok m)) as Htk. pose proof (blen_nonneg (m_opts m)) as Hon.
  unfold udp_decode. rewrite spec_udp_len.
  pose proof (blen_nonneg (spec_options 0 (m_opts m))). pose proof (blen_nonneg (spec_payload (m_pay m))).
  ff (4 + blen (m_tok m) + (blen (spec_options 0 (m_opts m)) + blen (spec_payload (m_pay m))) <? 4).
  unfold spec_udp_bytes. cbn [app]. rewrite idx_0. cbn [bind].
  replace ((64 + m_typ m * 16 + blen (m_tok m)) / 64) with 1 by lia. change (1 =? 1) with true. cbn [negb].
  rewrite land3 by lia. rewrite land15 by lia.
  replace ((64 + m_typ m * 16 + blen (m_tok m)) / 16 mod 4) with (m_typ m) by lia.
  replace ((64 + m_typ m * 16 + blen (m_tok m)) mod 16) with (blen (m_tok m)) by lia.
  ff (blen (m_tok m) >? 8). rewrite idx_1. cbn [bind].
  set (rest := m_tok m ++ spec_body m).
  change (64 + m_typ m * 16 + blen (m_tok m) :: m_code m :: m_mid m / 256 :: m_mid m mod 256 :: rest)
    with ([64 + m_typ m * 16 + blen (m_tok m); m_code m; m_mid m / 256; m_mid m mod 256] ++ rest).
  change 4 with (blen [64 + m_typ m * 16 + blen (m_tok m); m_code m; m_mid m / 256; m_mid m mod 256]) at 1 2.
  rewrite sl_to_app. cbn [bind]. rewrite sl_from_2. cbn [bind]. rewrite idx_0, idx_1. cbn [bind].
  rewrite sl_from_app. cbn [bind]. subst rest.
  rewrite blen_app. pose proof (blen_nonneg (spec_body m)). ff (blen (m_tok m) + blen (spec_body m) <? blen (m_tok m)).
  rewrite sl_to_app, sl_from_app. cbn [bind]. unfold spec_body.
  rewrite (unmarshal_body_skip CoapOptionDefs) by (try (apply raw_opts_wf_enc; [lia|exact Fo]); lia).
  cbn [bind]. cbv iota beta. rewrite sl_from_payload. cbn [bind].
  replace (m_mid m / 256 * 256 + m_mid m mod 256) with (m_mid m) by lia.
  reflexivity.
Qed.

(* ---------- the request step on the bytes ---------- *)
Theorem raw_udp_is_step s m b : raw_wf_udp m = true -> blen (m_opts m) <= PoolOptionsCap ->
  (m_typ m = CON \/ m_typ m = NON) -> is_request_code (m_code m) = true ->
  raw_udp_step s (spec_udp_bytes m) b =
    let ro := filter (kept CoapOptionDefs) (m_opts m) in
    let '(s1, o) := step s (Req (m_typ m) (m_mid m) (m_tok m) (m_code m) ro b) in Some (s1, o, ro).
Proof.
  intros Hwf Hcap Ht Hc. unfold raw_udp_step, pool_fuel. cbn [pool_decode].
  rewrite (udp_decode_raw m PoolOptionsCap Hwf Hcap). cbn [decoded m_typ m_code m_mid m_tok m_opts].
  rewrite Hc. replace ((m_typ m =? CON) || (m_typ m =? NON)) with true
    by (destruct Ht as [-> | ->]; reflexivity).
  cbn [andb]. reflexivity.
Qed.

(* wire clause for every request of every peer: every method code 0.01-0.31, every carried option list *)
Theorem raw_udp_suppressed s m rc o p : raw_wf_udp m = true -> blen (m_opts m) <= PoolOptionsCap ->
  (m_typ m = CON \/ m_typ m = NON) -> is_request_code (m_code m) = true ->
  req_lookup (m_typ m) (m_mid m) (cache s) = None -> 0 <= rc ->
  spec_refuse (m_opts m) rc = true ->
  exists s1 ob seen, raw_udp_step s (spec_udp_bytes m) (BResp rc o p) = Some (s1, ob, seen) /\
    o_called ob = true /\ rw_refuses seen rc = true /\
    o_out ob = (if m_typ m =? CON then [bare_ack (m_mid m)] else []).
Proof.
  intros Hwf Hcap Ht Hc Hm Hrc Hs.
  pose proof (raw_udp_facts_of m Hwf) as F. pose proof (raw_opts_wf_enc _ 0 ltac:(lia) (ru_opts _ F)) as Hok.
  rewrite (raw_udp_is_step s m _ Hwf Hcap Ht Hc). cbv zeta.
  set (ro := filter (kept CoapOptionDefs) (m_opts m)).
  assert (Hr : rw_refuses ro rc = true) by (subst ro; rewrite raw_writer_exact by assumption; exact Hs).
  pose proof (wire_suppressed s (m_typ m) (m_mid m) (m_tok m) (m_code m) ro rc o p Hm Hr) as W.
  assert (Hcall : o_called (snd (step s (Req (m_typ m) (m_mid m) (m_tok m) (m_code m) ro (BResp rc o p)))) = true)
    by (cbn [step]; rewrite Hm; reflexivity).
  destruct (step s (Req (m_typ m) (m_mid m) (m_tok m) (m_code m) ro (BResp rc o p))) as [s1 ob]. cbn [snd] in *.
  exists s1, ob, ro. repeat split; assumption.
Qed.

Theorem raw_udp_passed s m rc o p : raw_wf_udp m = true -> blen (m_opts m) <= PoolOptionsCap ->
  (m_typ m = CON \/ m_typ m = NON) -> is_request_code (m_code m) = true ->
  req_lookup (m_typ m) (m_mid m) (cache s) = None -> 0 <= rc ->
  spec_refuse (m_opts m) rc = false ->
  exists s1 ob seen r, raw_udp_step s (spec_udp_bytes m) (BResp rc o p) = Some (s1, ob, seen) /\
    o_called ob = true /\ rw_refuses seen rc = false /\
    o_out ob = [r] /\ w_code r = rc /\ w_tok r = m_tok m /\ w_pay r = p.
Proof.
  intros Hwf Hcap Ht Hc Hm Hrc Hs.
  pose proof (raw_udp_facts_of m Hwf) as F. pose proof (raw_opts_wf_enc _ 0 ltac:(lia) (ru_opts _ F)) as Hok.
  rewrite (raw_udp_is_step s m _ Hwf Hcap Ht Hc). cbv zeta.
  set (ro := filter (kept CoapOptionDefs) (m_opts m)).
  assert (Hr : rw_refuses ro rc = false) by (subst ro; rewrite raw_writer_exact by assumption; exact Hs).
  destruct (wire_passed s (m_typ m) (m_mid m) (m_tok m) (m_code m) ro rc o p Hm Hr) as (r & W1 & W2 & W3 & W4).
  assert (Hcall : o_called (snd (step s (Req (m_typ m) (m_mid m) (m_tok m) (m_code m) ro (BResp rc o p)))) = true)
    by (cbn [step]; rewrite Hm; reflexivity).
  destruct (step s (Req (m_typ m) (m_mid m) (m_tok m) (m_code m) ro (BResp rc o p))) as [s1 ob]. cbn [snd] in *.
  exists s1, ob, ro, r. repeat split; assumption.
Qed.

(* ---------- stream connection: the writer of a decoded request ---------- *)
Theorem raw_tcp_process_exact tok os rc o p : opts_enc_ok 0 os -> 0 <= rc ->
  tcp_process tok (filter (kept CoapOptionDefs) os) (BResp rc o p) =
    if spec_refuse os rc then []
    else [{| t_code := rc; t_tok := tok; t_opts := match p with [] => o | _ => set_cf o end; t_pay := p |}].
Proof.
  intros Hok Hrc. unfold tcp_process. cbn [handler_result]. rewrite raw_writer_exact by assumption.
  destruct (spec_refuse os rc); reflexivity.
Qed.

(* ---------- stream coder on a request of any peer ---------- *)
Record raw_tcp_facts (m : msg) : Prop := {
  rt_tok : blen (m_tok m) <= 8; rt_code : 0 <= m_code m <= 255;
  rt_opts : raw_opts_wf 0 (m_opts m) = true;
  rt_len : blen (spec_body m) < messageMaxLen }.

Definition raw_wf_tcp_msg (m : msg) : bool :=
  (blen (m_tok m) <=? 8) && (0 <=? m_code m) && (m_code m <=? 255) && raw_opts_wf 0 (m_opts m)
  && (blen (spec_body m) <? messageMaxLen).

Lemma raw_tcp_facts_of m : raw_wf_tcp_msg m = true -> raw_tcp_facts m.
Proof.
  unfold raw_wf_tcp_msg. rewrite !andb_true_iff. intros ((((H1 & H2) & H3) & H4) & H5).
  apply Z.leb_le in H1, H2, H3. apply Z.ltb_lt in H5. constructor; (lia || assumption).
Qed.

Lemma tcp_header_raw m : raw_tcp_facts m ->
  tcp_decode_header (spec_tcp_bytes m) =
  Ok {| h_len := blen (spec_tcp_hdr m); h_mlen := blen (spec_tcp_bytes m); Codec.Tcp.h_code := m_code m; Codec.Tcp.h_tok := m_tok m |}.
Proof.
  intros F. destruct F as [Ft Fc Fo Fl].
  pose proof (blen_nonneg (m_tok m)) as Htk. pose proof (blen_nonneg (spec_body m)) as Hb.
  pose proof (spec_len_field_facts (blen (spec_body m)) ltac:(lia)) as [Hn He].
  pose proof (tcp_ext_len_spec (blen (spec_body m))) as HX.
  rewrite spec_tcp_eq, blen_app, spec_tcp_hdr_len. unfold spec_tcp_hdr.
  destruct (spec_len_field (blen (spec_body m))) as [ln ext]. cbn [fst snd] in *.
  unfold tcp_decode_header. rewrite <- !app_assoc. cbn [app].
  rewrite blen_cons. set (rest := ext ++ m_code m :: m_tok m ++ spec_body m). pose proof (blen_nonneg rest).
  ff (1 + blen rest =? 0). rewrite idx_0, sl_from_1. cbn [bind]. cbv zeta.
  rewrite land240 by lia. rewrite land15 by lia.
  replace ((ln * 16 + blen (m_tok m)) / 16) with ln by lia.
  replace ((ln * 16 + blen (m_tok m)) mod 16) with (blen (m_tok m)) by lia.
  unfold MaxTokenSize. ff (blen (m_tok m) >? 8). subst rest.
  rewrite HX by lia. cbn [bind]. cbv iota beta.
  rewrite blen_cons. pose proof (blen_nonneg (m_tok m ++ spec_body m)). ff (1 + blen (m_tok m ++ spec_body m) <? 1).
  rewrite idx_0, sl_from_1. cbn [bind].
  rewrite blen_app. ff (blen (m_tok m) + blen (spec_body m) <? blen (m_tok m)).
  assert (Htok : (if blen (m_tok m) >? 0 then sl_to (m_tok m ++ spec_body m) (blen (m_tok m)) else Ok []) = Ok (m_tok m)).
  { destruct (blen (m_tok m) >? 0) eqn:E; [apply sl_to_app|]. rewrite Z.gtb_ltb in E. apply Z.ltb_ge in E.
    rewrite (blen0_nil (m_tok m)) by lia. reflexivity. }
  rewrite Htok. cbn [bind]. unfold Codec.Options.u32, W32, messageMaxLen in *.
  f_equal. f_equal; repeat rewrite Z.mod_small by lia; lia.
Qed.

(* the frame as the handler gets it: the kept options under their numbers (type and message ID do not exist) *)
Definition decoded_tcp (m : msg) : msg :=
  {| m_tok := m_tok m; m_code := m_code m; m_opts := filter (kept (defs_for_code (m_code m))) (m_opts m); m_pay := m_pay m;
     m_mid := 0; m_typ := 0 |}.

Theorem tcp_decode_raw m cap : raw_wf_tcp_msg m = true -> blen (m_opts m) <= cap ->
  tcp_decode cap (spec_tcp_bytes m) = Ok (decoded_tcp m, blen (spec_tcp_bytes m)).
Proof.
  intros Hwf Hcap. pose proof (raw_tcp_facts_of m Hwf) as F. pose proof F as F'. destruct F' as [Ft Fc Fo Fl].
  pose proof (blen_nonneg (m_tok m)) as Htk. pose proof (blen_nonneg (spec_body m)) as Hb. pose proof (blen_nonneg (m_opts m)) as Hon.
  pose proof (spec_len_field_facts (blen (spec_body m)) ltac:(lia)) as [Hn He].
  unfold tcp_decode. rewrite (tcp_header_raw m F). cbn [bind h_mlen h_len].
  pose proof (spec_tcp_hdr_len m) as HL.
  assert (Htot : blen (spec_tcp_bytes m) = blen (spec_tcp_hdr m) + blen (spec_body m)) by (rewrite spec_tcp_eq; apply blen_app).
  unfold Codec.Options.u32, W32, messageMaxLen in *. rewrite (Z.mod_small (blen (spec_tcp_bytes m))) by lia.
  ff (blen (spec_tcp_bytes m) <? blen (spec_tcp_bytes m)).
  rewrite sl_to_all. cbn [bind]. rewrite spec_tcp_eq at 1. rewrite sl_from_app. cbn [bind].
  unfold tcp_decode_with_header. cbn [Codec.Tcp.h_code h_len Codec.Tcp.h_tok].
  unfold spec_body at 1 2.
  rewrite (unmarshal_body_skip (defs_for_code (m_code m))) by (try (apply raw_opts_wf_enc; [lia|exact Fo]); lia).
  cbn [bind]. cbv iota beta. unfold spec_body. rewrite sl_from_payload. cbn [bind].
  unfold decoded_tcp. f_equal. f_equal.
  pose proof (blen_nonneg (spec_options 0 (m_opts m))). pose proof (blen_nonneg (m_pay m)).
  rewrite spec_body_len, spec_payload_len in *.
  assert (Hrl : rest_len (spec_payload (m_pay m)) + blen (m_pay m) = if blen (m_pay m) >? 0 then blen (m_pay m) + 1 else blen (m_pay m)).
  { destruct (m_pay m) as [|x p]; [reflexivity|]. cbn [spec_payload rest_len]. rewrite blen_cons. pose proof (blen_nonneg p). tt (1 + blen p >? 0). lia. }
  unfold Codec.Options.u32, W32. repeat rewrite Z.mod_small by lia. lia.
Qed.

Lemma request_defs c : is_request_code c = true -> defs_for_code c = CoapOptionDefs.
Proof.
  unfold is_request_code, defs_for_code, codeCSM, codePing, codePong, codeRelease, codeAbort. intros H.
  apply andb_true_iff in H. destruct H as [H1 H2]. apply Z.leb_le in H1, H2.
  ff (c =? 225). ff (c =? 226). ff (c =? 227). ff (c =? 228). ff (c =? 229). reflexivity.
Qed.

(* the stream connection on the BYTES of a request frame of any peer: every request code, every carried option
   list (up to 16 options): nothing is written when the carried value suppresses the class of the response,
   the response (code, token of the request, payload) otherwise *)
Theorem raw_tcp_exact m rc o p : raw_wf_tcp_msg m = true -> blen (m_opts m) <= PoolOptionsCap ->
  is_request_code (m_code m) = true -> 0 <= rc ->
  raw_tcp_step (spec_tcp_bytes m) (BResp rc o p) =
    Some ((if spec_refuse (m_opts m) rc then []
           else [{| t_code := rc; t_tok := m_tok m; t_opts := match p with [] => o | _ => set_cf o end; t_pay := p |}]),
          filter (kept CoapOptionDefs) (m_opts m)).
Proof.
  intros Hwf Hcap Hc Hrc. pose proof (raw_tcp_facts_of m Hwf) as F.
  pose proof (raw_opts_wf_enc _ 0 ltac:(lia) (rt_opts _ F)) as Hok.
  unfold raw_tcp_step, pool_fuel. cbn [pool_decode].
  rewrite (tcp_decode_raw m PoolOptionsCap Hwf Hcap). cbn [decoded_tcp m_code m_tok m_opts].
  rewrite Hc, (request_defs _ Hc). rewrite raw_tcp_process_exact by assumption. reflexivity.
Qed.

(* had the decoder taken the delta base from the option it STORED (0 for a skipped one), a No-Response option
   behind a skipped option would be filed under a wrong number: the witness of seed C20-8, Accept with
   three bytes in front of No-Response = 2 (the real decoder keeps 258) *)
Example raw_skip_witness :
  let os := [(11, [97]); (17, [0; 0; 50]); (258, [2])] in
  raw_opts_wf 0 os = true /\
  filter (kept CoapOptionDefs) os = [(11, [97]); (258, [2])] /\
  spec_refuse os 69 = true /\ rw_refuses (filter (kept CoapOptionDefs) os) 69 = true.
Proof. vm_compute. repeat split. Qed.
