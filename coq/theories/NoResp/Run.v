From Coq Require Import ZArith NArith List Bool.
From GoCoap Require Import Base.Cases NoResp.Model NoResp.Spec.
Import ListNotations.
Open Scope Z_scope.

Inductive case :=
(* IsNoResponseCode(code, vlo+i) for i in [0,n): bit i of [bits] set = error returned *)
| Tab (code vlo : Z) (n : N) (bits : Z)
| One (code v : Z) (o : bool)
(* response writer built from request options; SetResponse(code): o_refused, and the code of the
   response message afterwards (o_code) *)
| RW (reqopts : list (Z * list Z)) (code : Z) (o_refused : bool) (o_code : Z).

Definition tab_of (f : Z -> Z -> bool) (code vlo : Z) (n : N) : Z :=
  snd (N.iter n (fun '(i, acc) => (i + 1, if f code (vlo + i) then Z.lor acc (Z.shiftl 1 i) else acc)) (0, 0)).

Definition agrees (c : case) : bool :=
  match c with
  | Tab code vlo n bits => tab_of is_suppressed code vlo n =? bits
  | One code v o => Bool.eqb (is_suppressed code v) o
  | RW opts code r oc =>
      Bool.eqb (rw_refuses opts code) r && (if r then true else oc =? code)
  end.

(* first value of option 258 as the RFC reads it: an unsigned integer of up to 4 bytes
   (longer values are outside what the property speaks about) *)
Fixpoint spec_noresp (opts : list (Z * list Z)) : option (list Z) :=
  match opts with
  | [] => None
  | (i, v) :: r => if i =? 258 then Some v else spec_noresp r
  end.

(* classes: 1 = a response of a suppressed class is accepted, 2 = a response of a class that was
   not suppressed is refused, 3 = response writer differs from the RFC decision *)
Definition pclass_one (code v : Z) (o : bool) : N :=
  if Bool.eqb (spec_suppressed code v) o then 0%N else if o then 2%N else 1%N.

Definition pclass (c : case) : N :=
  match c with
  | Tab code vlo n bits =>
      if tab_of spec_suppressed code vlo n =? bits then 0%N
      else if Z.land (tab_of spec_suppressed code vlo n) (Z.lnot bits) =? 0 then 2%N else 1%N
  | One code v o => pclass_one code v o
  | RW opts code r oc =>
      match spec_noresp opts with
      | None => if r then 2%N else if oc =? code then 0%N else 3%N
      | Some bs =>
          if (length bs <=? 4)%nat then
            let c := pclass_one code (be bs) r in
            if N.eqb c 0 then (if r then 0%N else if oc =? code then 0%N else 3%N) else c
          else 0%N
      end
  end.

Definition mismatches (cs : list case) : list N := bad_indices (fun c => negb (agrees c)) cs.
Definition property_failures (cs : list case) : list (N * N) := classes pclass cs.
