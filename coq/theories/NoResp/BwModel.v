(* C20, block-wise part: model of the request path of udp/client.Conn WITH the net/blockwise layer
   between the connection and the application handler (server role):

     Process -> handleReq (response cache by message ID, Dedup/Model.v) -> cc.handle
       -> blockwise.Handle (continueSendingMessage | handleReceivedMessage
            -> processReceivedMessage (Block1 reassembly, 2.31 Continue) -> handler
            -> startSendingMessage (first Block2 block of a large response))
       -> processResponse -> write if the response message is MODIFIED.

   The response writer is created from the options of the datagram being processed
   (ProcessReceivedMessageWithHandler: responsewriter.New(resp, cc, req.Options()...)); the handler gets
   the reassembled request, whose options are those of the FIRST block without Block1/Size1.
   The response message is [None] while it is unmodified (pool.Message.IsModified() = false) and
   [Some h] as soon as any setter ran on it or it was replaced (w.SetMessage).

   Transcribed from the Go code as it is.  Scope (checked by [wf_ev] in NoResp/BwRun.v): request codes
   GET/POST/PUT/DELETE, non-empty tokens, no ETag/Observe option in requests, handler behaviours
   BNone / BResp with response codes >= 2.01 and options without Block2/Size2/Observe; nothing expires
   (the harness configures one hour). *)
From Coq Require Import ZArith List Bool.
From GoCoap Require Import Base.Bytes Gen.BlockConsts Block.Model NoResp.Model Dedup.Model.
Import ListNotations.
Open Scope Z_scope.

Definition GET := 1. Definition POST := 2. Definition PUT := 3. Definition DELETE := 4.
Definition Content := 69. Definition Continue := 95. Definition Incomplete := 136.
Definition Block2ID := 23. Definition Block1ID := 27. Definition Size2ID := 28. Definition Size1ID := 60.

(* ---- options ---- *)

Definition has_opt (o : opts_t) (id : Z) : bool := existsb (fun x => fst x =? id) o.
(* Options.Remove: all options with the ID *)
Definition opt_remove (o : opts_t) (id : Z) : opts_t := filter (fun x => negb (fst x =? id)) o.
(* Options.Set on a list sorted by ID: one option with the ID, at its sorted position *)
Definition opt_set (o : opts_t) (id : Z) (v : list Z) : opts_t :=
  filter (fun x => fst x <? id) o ++ (id, v) :: filter (fun x => id <? fst x) o.
(* message.EncodeUint32: shortest big-endian form *)
Definition enc_u32 (v : Z) : list Z :=
  if v =? 0 then []
  else if v <? 256 then [v]
  else if v <? 65536 then [v / 256; v mod 256]
  else if v <? 16777216 then [v / 65536; (v / 256) mod 256; v mod 256]
  else [v / 16777216; (v / 65536) mod 256; (v / 256) mod 256; v mod 256].

(* a block option of the request, decoded: None = option absent *)
Definition get_block (o : opts_t) (id : Z) : option dres :=
  match get_uint32 o id with Some v => Some (decode v) | None => None end.

Definition block_value (szx num : Z) (more : bool) : Z :=
  match encode szx num more with inr v => v | inl _ => 0 end.

(* fitSZX *)
Definition fit_szx (o : opts_t) (id : Z) (maxszx : Z) : Z :=
  match get_block o id with
  | Some d => match d_err d with
              | Some _ => maxszx
              | None => if maxszx >? d_szx d then d_szx d else maxszx
              end
  | None => maxszx
  end.

(* ---- state of the block-wise layer ---- *)

(* receivingMessagesCache: the request being reassembled (options of its first block, body so far) *)
Record rentry := { re_code : Z; re_opts : opts_t; re_body : list Z }.
(* sendingMessagesCache: the complete response a peer is fetching block by block *)
Record sentry := { se_code : Z; se_opts : opts_t; se_pay : list Z }.

Section Tbl.
  Context {V : Type}.
  Fixpoint tget (t : list (list Z * V)) (k : list Z) : option V :=
    match t with [] => None | (k', v) :: r => if bytes_eqb k k' then Some v else tget r k end.
  Fixpoint tdel (t : list (list Z * V)) (k : list Z) : list (list Z * V) :=
    match t with [] => [] | (k', v) :: r => if bytes_eqb k k' then tdel r k else (k', v) :: tdel r k end.
  Definition tput (t : list (list Z * V)) (k : list Z) (v : V) : list (list Z * V) := (k, v) :: tdel t k.
End Tbl.

Record bw := { rcvc : list (list Z * rentry); sndc : list (list Z * sentry) }.

(* configuration: Config.BlockwiseSZX and the session's maximum message size *)
Record cfg := { c_szx : Z; c_maxmsg : Z }.

(* what the application handler was called with *)
Record hcall := { hc_code : Z; hc_opts : opts_t; hc_body : list Z }.

(* outcome of blockwise.Handle for one request: the caches afterwards, the response message in the
   writer (None = unmodified), the handler call if there was one *)
Record bres := { b_bw : bw; b_res : option hres; b_call : option hcall }.

Definition entity_incomplete (tok : list Z) : hres :=
  {| h_rst := false; h_code := Incomplete; h_tok := tok; h_opts := []; h_pay := [] |}.

(* createSendingMessage for a response (Block2/Size2): block [d] of the message (code, opts, pay);
   None = error *)
Definition create_sending (code : Z) (tok : list Z) (opts : opts_t) (pay : list Z) (maxszx maxmsg : Z) (d : dres)
  : option (hres * bool) :=
  match d_err d with
  | Some _ => None
  | None =>
    let szx := if d_szx d >? maxszx then maxszx else d_szx d in
    let buflen := buffer_size szx maxmsg in
    let off := d_num d * size szx in
    let psize := blen pay in
    if psize <? off then None
    else
      let data := firstn (Z.to_nat buflen) (skipn (Z.to_nat off) pay) in
      let more := negb (off + blen data =? psize) in
      match encode szx (off / size szx) more with
      | inl _ => None
      | inr bv =>
        Some ({| h_rst := false; h_code := code; h_tok := tok;
                 h_opts := opt_set (opt_set opts Size2ID (enc_u32 psize)) Block2ID (enc_u32 bv);
                 h_pay := data |}, more)
      end
  end.

(* startSendingMessage: a response body of at least one block is replaced by its block [d] and kept in
   the sending cache; a second transfer under the same token is an error.  inl = error *)
Definition start_sending (b : bw) (w : option hres) (maxszx maxmsg : Z) (d : dres) : bw * (unit + option hres) :=
  match w with
  | None => (b, inr None)
  | Some h =>
    if blen (h_pay h) <? size maxszx then (b, inr w)
    else match create_sending (h_code h) (h_tok h) (h_opts h) (h_pay h) maxszx maxmsg d with
         | None => (b, inl tt)
         | Some (sm, _) =>
           match tget (sndc b) (h_tok sm) with
           | Some _ => (b, inl tt)
           | None => ({| rcvc := rcvc b; sndc := tput (sndc b) (h_tok sm) {| se_code := h_code h; se_opts := h_opts h; se_pay := h_pay h |} |},
                      inr (Some sm))
           end
         end
  end.

(* wantsToBeReceived *)
Definition wants_to_be_received (code : Z) (o : opts_t) : bool :=
  if has_opt o Block1ID && ((code =? POST) || (code =? PUT)) then true
  else if has_opt o Block2ID && (GET <=? code) && (code <=? DELETE) then false
  else if code =? Continue then false
  else true.

(* the application handler, called through [next]: response writer made of the options [wopts] of the
   datagram being processed *)
Definition call_handler (tok : list Z) (wopts : opts_t) (b : behaviour) : option hres := handler_result tok wopts b.

(* isResponseContinuation *)
Definition is_response_continuation (o : opts_t) : bool :=
  match get_block o Block2ID with
  | Some d => match d_err d with None => negb (d_num d =? 0) | Some _ => false end
  | None => false
  end.

(* processReceivedMessage for POST/PUT (Block1/Size1).  inl = error (the caller answers 4.08) *)
Definition process_block1 (b : bw) (maxszx : Z) (tok : list Z) (code : Z) (o : opts_t) (pay : list Z) (beh : behaviour)
  : unit + (bw * option hres * option hcall) :=
  match get_block o Block1ID with
  | None =>
      if is_response_continuation o then inl tt
      else inr (b, call_handler tok o beh, Some {| hc_code := code; hc_opts := o; hc_body := pay |})
  | Some d =>
    match d_err d with
    | Some _ => inl tt
    | None =>
      let cached := tget (rcvc b) tok in
      let szx0 := match cached with None => (if d_szx d >? maxszx then maxszx else d_szx d) | Some _ => d_szx d end in
      match cached, d_more d, negb (d_num d =? 0) with
      | None, false, true => inl tt                       (* last block without the previous ones *)
      | None, false, false =>                             (* the only block: forwarded as it is *)
          inr (b, call_handler tok o beh, Some {| hc_code := code; hc_opts := o; hc_body := pay |})
      | _, _, _ =>
        let en := match cached with Some en => en | None => {| re_code := code; re_opts := o; re_body := [] |} end in
        let rcv1 := match cached with Some _ => rcvc b | None => tput (rcvc b) tok en end in
        let off := d_num d * size szx0 in
        let fits := off =? blen (re_body en) in
        let body1 := if fits then firstn (Z.to_nat off) (re_body en) ++ pay else re_body en in
        if fits && negb (d_more d) then
          (* complete: the reassembled request goes to the handler *)
          let ho := opt_remove (opt_remove (re_opts en) Block1ID) Size1ID in
          inr ({| rcvc := tdel rcv1 tok; sndc := sndc b |}, call_handler tok o beh,
               Some {| hc_code := re_code en; hc_opts := ho; hc_body := body1 |})
        else
          let szx := if d_szx d >? maxszx then maxszx else d_szx d in
          match encode szx (d_num d) (d_more d) with
          | inl _ => inl tt
          | inr bv =>
            inr ({| rcvc := tput rcv1 tok {| re_code := re_code en; re_opts := re_opts en; re_body := body1 |}; sndc := sndc b |},
                 Some {| h_rst := false; h_code := Continue; h_tok := tok; h_opts := [(Block1ID, enc_u32 bv)]; h_pay := [] |},
                 None)
          end
      end
    end
  end.

(* the block size limit of one request: fitSZX on the block option that belongs to the request code *)
Definition req_maxszx (c : cfg) (code : Z) (o : opts_t) : Z :=
  if (code =? GET) || (code =? DELETE) then fit_szx o Block2ID (c_szx c) else fit_szx o Block1ID (c_szx c).

(* handleReceivedMessage *)
Definition handle_received (c : cfg) (b : bw) (tok : list Z) (code : Z) (o : opts_t) (pay : list Z) (beh : behaviour) : bres :=
  let start0 := decode (block_value (c_szx c) 0 true) in
  let maxszx := req_maxszx c code o in
  if (code =? GET) || (code =? DELETE) then
    let w := call_handler tok o beh in
    let call := Some {| hc_code := code; hc_opts := o; hc_body := pay |} in
    let start := match w, get_block o Block2ID with
                 | Some h, Some d => if h_code h =? Content then d else start0
                 | _, _ => start0
                 end in
    match start_sending b w maxszx (c_maxmsg c) start with
    | (b1, inr w1) => {| b_bw := b1; b_res := w1; b_call := call |}
    | (b1, inl _) => {| b_bw := b1; b_res := Some (entity_incomplete tok); b_call := call |}
    end
  else
    match process_block1 b maxszx tok code o pay beh with
    | inl _ => {| b_bw := b; b_res := Some (entity_incomplete tok); b_call := None |}
    | inr (b1, w, call) =>
      match start_sending b1 w maxszx (c_maxmsg c) start0 with
      | (b2, inr w1) => {| b_bw := b2; b_res := w1; b_call := call |}
      | (b2, inl _) => {| b_bw := b2; b_res := Some (entity_incomplete tok); b_call := call |}
      end
    end.

(* continueSendingMessage (+ the clean-up in Handle): the next block of a cached response; the handler
   is not called and the response writer's No-Response value is not consulted *)
Definition continue_sending (c : cfg) (b : bw) (tok : list Z) (o : opts_t) (se : sentry) : bres :=
  let drop := {| b_bw := {| rcvc := rcvc b; sndc := tdel (sndc b) tok |}; b_res := None; b_call := None |} in
  let blockid := if (se_code se =? POST) || (se_code se =? PUT) then Block1ID else Block2ID in
  match get_block o blockid with
  | None => drop
  | Some d =>
    match create_sending (se_code se) tok (se_opts se) (se_pay se) (c_szx c) (c_maxmsg c) d with
    | None => drop
    | Some (sm, more) =>
      {| b_bw := if negb more && (se_code se >? DELETE) then {| rcvc := rcvc b; sndc := tdel (sndc b) tok |} else b;
         b_res := Some sm; b_call := None |}
    end
  end.

(* blockwise.Handle (token not empty) *)
Definition bw_handle (c : cfg) (b : bw) (tok : list Z) (code : Z) (o : opts_t) (pay : list Z) (beh : behaviour) : bres :=
  match tget (sndc b) tok with
  | Some se => if wants_to_be_received code o then handle_received c b tok code o pay beh
               else continue_sending c b tok o se
  | None => handle_received c b tok code o pay beh
  end.

(* ---- the connection around it ---- *)

(* Dedup.Model.req_handle with the handler's result given (NoResp/BwProofs.v: req_handle_of_result) *)
Definition req_handle_res (typ mid : Z) (res : option hres) (own1 : Z) : hdl :=
  match res with
  | None =>
      if typ =? CON then {| hd_own := own1; hd_reply := Some (bare_ack mid); hd_store := true |}
      else {| hd_own := own1; hd_reply := None; hd_store := false |}
  | Some h =>
      if is_special h then
        if typ =? CON then
          {| hd_own := own1;
             hd_reply := Some {| w_typ := ACK; w_code := h_code h; w_mid := mid; w_tok := h_tok h; w_opts := h_opts h; w_pay := h_pay h |};
             hd_store := true |}
        else
          let own2 := u32 (own1 + 1) in
          {| hd_own := own2;
             hd_reply := Some {| w_typ := if h_rst h then RST else NON; w_code := h_code h; w_mid := u16 own2;
                                 w_tok := h_tok h; w_opts := h_opts h; w_pay := h_pay h |};
             hd_store := typ =? NON |}
      else
        let own2 := u32 (own1 + 1) in
        if typ =? CON then
          {| hd_own := own2;
             hd_reply := Some {| w_typ := ACK; w_code := h_code h; w_mid := mid; w_tok := h_tok h; w_opts := h_opts h; w_pay := h_pay h |};
             hd_store := true |}
        else
          {| hd_own := own2;
             hd_reply := Some {| w_typ := CON; w_code := h_code h; w_mid := u16 own2; w_tok := h_tok h; w_opts := h_opts h; w_pay := h_pay h |};
             hd_store := typ =? NON |}
  end.

Record bst := { conn : st; layer : bw }.

(* one received request datagram *)
Record bev := { e_typ : Z; e_mid : Z; e_tok : list Z; e_code : Z; e_opts : opts_t; e_pay : list Z; e_beh : behaviour }.

Record bobs := { bo_call : option hcall; bo_out : list wire }.

Definition bstep (c : cfg) (s : bst) (e : bev) : bst * bobs :=
  let own1 := req_check (e_typ e) (e_mid e) (own (conn s)) in
  match req_lookup (e_typ e) (e_mid e) (cache (conn s)) with
  | Some en =>
      let r' := retarget (e_typ e) (e_mid e) (e_reply en) in
      ({| conn := {| cache := cache (conn s); own := own_after_write (Some r') own1 |}; layer := layer s |},
       {| bo_call := None; bo_out := [r'] |})
  | None =>
      let r := bw_handle c (layer s) (e_tok e) (e_code e) (e_opts e) (e_pay e) (e_beh e) in
      let h := req_handle_res (e_typ e) (e_mid e) (b_res r) own1 in
      ({| conn := {| cache := req_store (e_mid e) h (cache (conn s)); own := own_after_write (hd_reply h) (hd_own h) |};
          layer := b_bw r |},
       {| bo_call := b_call r; bo_out := match hd_reply h with Some w => [w] | None => [] end |})
  end.

Fixpoint brun (c : cfg) (s : bst) (evs : list bev) : bst * list bobs :=
  match evs with
  | [] => (s, [])
  | e :: r => let '(s1, o) := bstep c s e in let '(s2, os) := brun c s1 r in (s2, o :: os)
  end.

Definition binit (own0 : Z) : bst := {| conn := init own0; layer := {| rcvc := []; sndc := [] |} |}.
