(* C20 -- the request message as an OBJECT the handler may edit before it sets the response.

   udp/client.Conn.handleReq, tcp/client.Conn.handleReq and net/blockwise create the response writer with

       w := responsewriter.New(resp, cc, req.Options()...)

   req.Options() returns r.msg.Options, and a slice passed as  s...  is passed as it is: the variadic
   parameter of New is a slice header over the SAME backing array as the options of the request message
   (its length = the number of options at that moment, its capacity = that of the message's array:
   16 for a pooled message, doubled by the decoder while a datagram has more options).  The handler then
   gets that very message and may edit it (AddQuery, SetOptionString, SetAccept, SetPath, Remove,
   ResetOptionsTo ... : a gateway that annotates a request before it passes it on); message.Options.
   Set / Add / Remove work IN PLACE while the capacity suffices (they shift the elements of the array),
   and move to a fresh array only when  len == cap  (append).

   This file models exactly that: the option array, the in-place loops of Set/Add/Remove run on the
   whole array (the list-level functions of Opt/Model.v -- C15 -- run them on the live part only), the
   writer as the two steps New (here the No-Response option is decoded, into a value) and SetResponse,
   and the request step of the connection (Dedup/Model.v) with the handler's edits in between.
   [alias_view] is what a slice header taken at creation time shows afterwards; nothing in the code
   reads it -- Proofs: that is what makes the decision independent of the edits, and a writer that
   looked the option up through it at SetResponse time would not be (EditProofs.v, the lazy_lookup theorems).

   No proofs here. *)
From Coq Require Import ZArith List Bool.
From GoCoap Require Import Opt.Model.
From GoCoap Require NoResp.Model.
Import ListNotations.
Open Scope Z_scope.

(* ------------------------------------------------------------------ *)
(* the in-place loops on the whole array [a]; [n] = len of the slice    *)

(* Options.Add, capacity left (n < len a): options = options[:n+1]; shift; options[idxPost] = opt *)
Definition add_arr (a : list opt) (n : Z) (o : opt) : list opt * Z :=
  let '(_, post) := find_position (take a n) (oid o) in
  let post := if post =? -1 then n else post in
  (upd (shift_right (Z.to_nat (n - post)) a n) post o, n + 1).

(* Options.Set: the branch taken (the search looks at the slice only) *)
Inductive set_plan :=
| SPSingle                          (* every option has this ID: append(options[:0], opt) *)
| SPReplace (i : Z)                 (* exactly one option with this ID: options[i] = opt *)
| SPGo (ins upTo upFrom : Z).       (* grow by one slot, move, store, cut *)

Definition set_plan_of (l : list opt) (o : opt) : set_plan :=
  let '(pre, post) := find_position l (oid o) in
  if (pre =? -1) && (post =? -1) then SPSingle
  else
    let n := len l in
    if (pre =? -1) && (0 <=? post) then SPGo 0 1 post
    else if pre =? post then SPGo pre (pre + 1) pre
    else if 0 <=? pre then
      let upFrom := if post <? 0 then n else post in
      if pre + 2 =? upFrom then SPReplace (pre + 1) else SPGo (pre + 1) (pre + 2) upFrom
    else SPGo 0 0 0.

(* the "replace + move" part of Set on an array with at least n+1 slots *)
Definition set_go_arr (a : list opt) (n : Z) (o : opt) (ins upTo upFrom : Z) : list opt * Z :=
  let k := Z.to_nat (n - upFrom) in
  let a := if upFrom <? upTo then shift_right k a n else move_left k a upTo upFrom in
  (upd a ins o, upTo + (n - upFrom)).

(* Options.Remove *)
Definition remove_arr (a : list opt) (n : Z) (id : Z) : list opt * Z :=
  match find (take a n) id with
  | None => (a, n)
  | Some (pre, post) => (move_left (Z.to_nat (n - post)) a pre post, n - (post - pre))
  end.

(* ------------------------------------------------------------------ *)
(* the request's options while the handler runs                        *)

Inductive rslice :=
| Attached (n : Z)             (* r.msg.Options = orig[:n] *)
| Detached (l : list opt).     (* after an append that had to allocate: another array, of which only
                                  the live part can matter to anybody *)

(* [orig]: the array the request's options occupied when the writer was created (len = its capacity),
   with its elements as they are NOW *)
Record world := { orig : list opt; req : rslice }.

Definition w_live (w : world) : list opt :=
  match req w with Attached n => take (orig w) n | Detached l => l end.

(* what a slice header of length n0 over the original array shows *)
Definition alias_view (w : world) (n0 : Z) : list opt := take (orig w) n0.

Definition w_add (w : world) (o : opt) : world :=
  match req w with
  | Attached n =>
      if n =? len (orig w) then {| orig := orig w; req := Detached (add (take (orig w) n) o) |}
      else let '(a, n') := add_arr (orig w) n o in {| orig := a; req := Attached n' |}
  | Detached l => {| orig := orig w; req := Detached (add l o) |}
  end.

Definition w_set (w : world) (o : opt) : world :=
  match req w with
  | Attached n =>
      match set_plan_of (take (orig w) n) o with
      | SPSingle => {| orig := upd (orig w) 0 o; req := Attached 1 |}
      | SPReplace i => {| orig := upd (orig w) i o; req := Attached n |}
      | SPGo ins upTo upFrom =>
          if n =? len (orig w) then {| orig := orig w; req := Detached (set (take (orig w) n) o) |}
          else let '(a, n') := set_go_arr (orig w) n o ins upTo upFrom in {| orig := a; req := Attached n' |}
      end
  | Detached l => {| orig := orig w; req := Detached (set l o) |}
  end.

Definition w_remove (w : world) (id : Z) : world :=
  match req w with
  | Attached n => let '(a, n') := remove_arr (orig w) n id in {| orig := a; req := Attached n' |}
  | Detached l => {| orig := orig w; req := Detached (remove l id) |}
  end.

(* options[:0] *)
Definition w_clear (w : world) : world :=
  match req w with
  | Attached _ => {| orig := orig w; req := Attached 0 |}
  | Detached _ => {| orig := orig w; req := Detached [] |}
  end.

(* what the handler does to the request before it sets the response (values are copied into the
   message's value buffer, which only grows: an option value, once stored, is never overwritten) *)
Inductive edit :=
| ESet (id : Z) (v : list Z)          (* SetOptionBytes/String/Uint32, SetAccept, SetContentFormat, SetObserve, SetETag *)
| EAdd (id : Z) (v : list Z)          (* AddOptionBytes/String/Uint32, AddQuery, AddETag *)
| ERemove (id : Z)                    (* Remove *)
| ESetPath (segs : list (list Z))     (* SetPath of a non-empty path: Remove(URIPath), then Add per segment *)
| EResetTo (ins : list opt).          (* ResetOptionsTo: options[:0], then Add per option *)

Definition URIPathID : Z := 11.

Definition w_edit (w : world) (e : edit) : world :=
  match e with
  | ESet id v => w_set w (id, v)
  | EAdd id v => w_add w (id, v)
  | ERemove id => w_remove w id
  | ESetPath segs => fold_left (fun w s => w_add w (URIPathID, s)) segs (w_remove w URIPathID)
  | EResetTo ins => fold_left (fun w o => w_add w (oid o, oval o)) ins (w_clear w)
  end.

Definition w_run (w : world) (es : list edit) : world := fold_left w_edit es w.

(* the same edits on the list level (Opt/Model.v): what the handler itself sees *)
Definition l_edit (l : list opt) (e : edit) : list opt :=
  match e with
  | ESet id v => set l (id, v)
  | EAdd id v => add l (id, v)
  | ERemove id => remove l id
  | ESetPath segs => fold_left (fun l s => add l (URIPathID, s)) segs (remove l URIPathID)
  | EResetTo ins => fold_left (fun l o => add l (oid o, oval o)) ins []
  end.
Definition l_run (l : list opt) (es : list edit) : list opt := fold_left l_edit es l.

(* ------------------------------------------------------------------ *)
(* the response writer in two steps                                    *)

(* responsewriter.New: the No-Response option of the request is decoded HERE, into a value *)
Definition rw_new (reqopts : list opt) : option Z :=
  NoResp.Model.get_uint32 reqopts NoResp.Model.NoResponseID.

(* SetResponse(code, ...): true = ErrMessageNotInterested, the response is left untouched *)
Definition rw_set (nv : option Z) (code : Z) : bool :=
  match nv with None => false | Some v => NoResp.Model.is_suppressed code v end.

(* handleReq for a request whose options are a[:n], with a handler that edits the request and then calls
   SetResponse(code): (refused, the request's memory afterwards) *)
Definition session (a : list opt) (n : Z) (es : list edit) (code : Z) : bool * world :=
  let nv := rw_new (take a n) in
  let w := w_run {| orig := a; req := Attached n |} es in
  (rw_set nv code, w).

(* NOT the code: a writer that keeps the slice header and looks the option up when the response is set
   (Options.GetUint32 = Find by binary search + DecodeUint32, Opt/Model.v).  Used only to show that the
   model distinguishes the two (EditProofs.v). *)
Definition lazy_session (a : list opt) (n : Z) (es : list edit) (code : Z) : bool :=
  let w := w_run {| orig := a; req := Attached n |} es in
  match Opt.Model.get_uint32 (alias_view w n) NoResp.Model.NoResponseID with
  | Ok (e, v) => if e =? ENone then NoResp.Model.is_suppressed code v else false
  | Panic => false
  end.

(* ------------------------------------------------------------------ *)
(* the request step of the connection (Dedup/Model.v [step] for [Req]) with the writer created before
   the handler runs and the handler editing the request before it acts as [b]                          *)
From GoCoap Require Import Dedup.Model NoResp.BwModel.

(* Dedup.Model.handler_result with the writer's decoded value instead of the request options *)
Definition handler_result_nv (tok : list Z) (nv : option Z) (b : behaviour) : option hres :=
  match b with
  | BNone => None
  | BResp code opts pay =>
      if rw_set nv code then None
      else Some {| h_rst := false; h_code := code; h_tok := tok;
                   h_opts := match pay with [] => opts | _ => set_cf opts end; h_pay := pay |}
  | BMsg code tok' opts pay => Some {| h_rst := false; h_code := code; h_tok := tok'; h_opts := opts; h_pay := pay |}
  | BRst => Some {| h_rst := true; h_code := 0; h_tok := tok; h_opts := []; h_pay := [] |}
  end.

(* the third component: the request's memory when the handler returns (None: the handler was not called) *)
Definition estep (s : st) (typ mid : Z) (tok : list Z) (code : Z) (a : list opt) (n : Z) (es : list edit) (b : behaviour)
  : st * obs * option world :=
  let own1 := req_check typ mid (own s) in
  match req_lookup typ mid (cache s) with
  | Some en =>
      let r' := retarget typ mid (e_reply en) in
      ({| cache := cache s; own := own_after_write (Some r') own1 |}, obs_of_reply false (Some r'), None)
  | None =>
      let nv := rw_new (take a n) in                                 (* responsewriter.New(resp, cc, req.Options()...) *)
      let w := w_run {| orig := a; req := Attached n |} es in        (* cc.handle(w, req): the handler edits req ... *)
      let h := req_handle_res typ mid (handler_result_nv tok nv b) own1 in   (* ... acts as b; processResponse *)
      ({| cache := req_store mid h (cache s); own := own_after_write (hd_reply h) (hd_own h) |},
       obs_of_reply true (hd_reply h), Some w)
  end.
