(* placeholder *)
