(* Dedup/Conc.v -- the concurrency argument of C05 made explicit.

   Dedup/Model.v describes the processing of one received copy as ONE step.  In the code that
   processing is a sequence of accesses to state shared by all goroutines that process received
   messages (config.ProcessReceivedMessage may start one goroutine per message):

     pc 0  Process: checkMyMessageID            atomic read-modify-write of the own-ID counter
     pc 1  handleReq: msgIDMutex.Lock(mid)      blocks while another copy holds the lock of mid
     pc 2  checkResponseCache                   read of the response cache at key mid
     pc 3  handler, processResponse             the handler runs; GetMessageID(): atomic increment
     pc 4  addResponseToCache                   LoadOrStore of the response cache at key mid
     pc 5  Unlock
     pc 6  writeMessageAsync                    GetMessageID(): atomic increment; the datagram is written

   Here every copy is a thread of Base/Interleave.v whose program is that sequence of atomic
   actions over the shared state (response cache, own counter, the set of locked message IDs);
   a schedule is a list of thread numbers; a thread whose next action is Lock on a held ID does
   not move.  The per-key lock map itself (reference counts, entry removal) is the subject of
   Conn/MutexMap.v (mutual_exclusion, never_panics); here it is the set of held keys.

   Ghost state: [acq], the events in the order their threads took the lock, and per thread [pos],
   its index in that order.

   What is proved (for every number of threads, every program, every schedule, from every state):
     - solo:                a thread that runs alone performs exactly Dedup.Model.step;
     - commute:             two copies with different message IDs commute, up to the own counter;
     - sections_serialise:  every execution is equivalent to the sequential history in lock order;
     - once_concurrent:     concurrently processed copies of one request: the handler runs for the
                            first one to take the lock only, every other copy gets the stored reply.
   "Equivalent" and "up to the own counter": the own counter is the one location that sections of
   different message IDs share; it is projected out.  It shows in an observation only as the message
   ID of the reply to a request that is not confirmable and was handled (not answered from the cache):
   [eobs] erases exactly that field.  In a cache entry it shows only in the ID (and type) of the stored
   reply, which checkResponseCache overwrites: [kv] compares code, token, options, payload and the
   validity left. *)
From Coq Require Import ZArith List Bool Lia Arith Permutation.
From GoCoap Require Import Base.Bytes Base.Interleave NoResp.Model Dedup.Model Dedup.Proofs.
Import ListNotations.
Open Scope Z_scope.

(* ------------------------------------------------------------------ *)
(* 1. the threads                                                     *)

Record sh := { g : st; held : list Z; acq : list ev }.

Record loc := { pc : nat; pos : nat; l_called : bool; l_reply : option wire; l_store : bool }.
Definition res := (obs * nat)%type.

Definition init_loc (_ : ev) : loc := {| pc := 0; pos := 0; l_called := false; l_reply := None; l_store := false |}.

Fixpoint memz (x : Z) (l : list Z) : bool := match l with [] => false | y :: r => (x =? y) || memz x r end.
Fixpoint remz (x : Z) (l : list Z) : list Z := match l with [] => [] | y :: r => if x =? y then remz x r else y :: remz x r end.

Definition with_own (s : sh) (o : Z) : sh := {| g := {| cache := cache (g s); own := o |}; held := held s; acq := acq s |}.
Definition with_cache (s : sh) (c : list (Z * entry)) : sh := {| g := {| cache := c; own := own (g s) |}; held := held s; acq := acq s |}.

Definition at_pc (n : nat) (l : loc) : loc :=
  {| pc := n; pos := pos l; l_called := l_called l; l_reply := l_reply l; l_store := l_store l |}.

(* the next atomic action of the copy [o]; None = not enabled *)
Definition act (o : ev) (l : loc) (s : sh) : option (loc * sh * option res) :=
  match o with
  | Req typ mid tok code ro b =>
      match pc l with
      | 0%nat => Some (at_pc 1 l, with_own s (req_check typ mid (own (g s))), None)
      | 1%nat => if memz mid (held s) then None
                 else Some ({| pc := 2; pos := length (acq s); l_called := false; l_reply := None; l_store := false |},
                            {| g := g s; held := mid :: held s; acq := o :: acq s |}, None)
      | 2%nat => match req_lookup typ mid (cache (g s)) with
                 | Some en => Some ({| pc := 5; pos := pos l; l_called := false;
                                       l_reply := Some (retarget typ mid (e_reply en)); l_store := false |}, s, None)
                 | None => Some (at_pc 3 l, s, None)
                 end
      | 3%nat => let h := req_handle typ mid tok ro b (own (g s)) in
                 Some ({| pc := 4; pos := pos l; l_called := true; l_reply := hd_reply h; l_store := hd_store h |},
                       with_own s (hd_own h), None)
      | 4%nat => Some (at_pc 5 l, with_cache s (store_reply mid (l_store l) (l_reply l) (cache (g s))), None)
      | 5%nat => Some (at_pc 6 l, {| g := g s; held := remz mid (held s); acq := acq s |}, None)
      | _ => Some (l, with_own s (own_after_write (l_reply l) (own (g s))),
                   Some (obs_of_reply (l_called l) (l_reply l), pos l))
      end
  | _ => None   (* threads are copies of requests; any other operation is never enabled *)
  end.

Definition no_lp (_ : loc) : option res := None.

Definition config := Interleave.config sh ev loc res.
Definition cstep : config -> nat -> config := Interleave.step sh ev loc res init_loc act no_lp.
Definition cexec : list nat -> config -> config := Interleave.exec sh ev loc res init_loc act no_lp.
Definition start (s0 : st) : sh := {| g := s0; held := []; acq := [] |}.
Definition cinit (s0 : st) (progs : list (list ev)) : config := Interleave.init sh ev loc res (start s0) progs.

Notation threads := (Interleave.threads sh ev loc res).
Notation shared := (Interleave.shared sh ev loc res).
Notation rhist := (Interleave.rhist sh ev loc res).
Notation cur := (Interleave.cur ev loc res).
Notation todo := (Interleave.todo ev loc res).
Notation idx := (Interleave.idx ev loc res).

(* the history in lock-acquisition order *)
Definition order (c : config) : list ev := rev (acq (shared c)).

(* ------------------------------------------------------------------ *)
(* 2. a thread that runs alone is Dedup.Model.step                    *)

Fixpoint run_actions (fuel : nat) (o : ev) (l : loc) (s : sh) : option (sh * res) :=
  match fuel with
  | O => None
  | S f => match act o l s with
           | None => None
           | Some (l', s', Some r) => Some (s', r)
           | Some (l', s', None) => run_actions f o l' s'
           end
  end.

Lemma memz_in x l : memz x l = true <-> In x l.
Proof.
  induction l as [|y r IH]; cbn [memz In]; [split; [discriminate|tauto]|].
  rewrite orb_true_iff, IH, Z.eqb_eq. split; intros [H|H]; auto.
Qed.

Lemma remz_in x y l : In y (remz x l) <-> In y l /\ y <> x.
Proof.
  induction l as [|z r IH]; cbn [remz In]; [tauto|].
  destruct (Z.eqb_spec x z) as [->|Hne]; cbn [In]; rewrite IH; split.
  - tauto.
  - intros [[->|H] Hn]; [contradiction|tauto].
  - intros [->|[H Hn]]; [split; [left; reflexivity|congruence]|tauto].
  - tauto.
Qed.

Lemma remz_notin x l : ~ In x l -> remz x l = l.
Proof.
  induction l as [|z r IH]; cbn [remz In]; [reflexivity|]. intros H.
  destruct (Z.eqb_spec x z) as [->|Hne]; [tauto|]. rewrite IH by tauto. reflexivity.
Qed.

Theorem solo : forall typ mid tok code ro b s,
  ~ In mid (held s) ->
  let o := Req typ mid tok code ro b in
  run_actions 7 o (init_loc o) s =
  Some ({| g := fst (step (g s) o); held := held s; acq := o :: acq s |}, (snd (step (g s) o), length (acq s))).
Proof.
  intros typ mid tok code ro b s Hh o. subst o.
  assert (Hm : memz mid (held s) = false).
  { destruct (memz mid (held s)) eqn:E; [|reflexivity]. apply memz_in in E. contradiction. }
  assert (Hr : remz mid (mid :: held s) = held s).
  { cbn [remz]. rewrite Z.eqb_refl. apply remz_notin. exact Hh. }
  cbn [run_actions act init_loc pc at_pc with_own g held acq cache own]. rewrite Hm.
  cbn [run_actions act pc g cache step].
  destruct (req_lookup typ mid (cache (g s))) as [en|].
  - cbn [run_actions act pc at_pc pos l_called l_reply l_store with_own g held acq cache own fst snd].
    rewrite Hr. reflexivity.
  - cbn [run_actions act pc at_pc pos l_called l_reply l_store with_own with_cache g held acq cache own fst snd].
    rewrite Hr. unfold req_store. reflexivity.
Qed.

(* ------------------------------------------------------------------ *)
(* 3. what a section depends on: the cache entry of its own message ID *)

(* content of a wire message, and of a cache entry, that survive checkResponseCache *)
Definition cnt (w : wire) := (w_code w, w_tok w, w_opts w, w_pay w).
Definition nent (en : entry) := (cnt (e_reply en), e_left en).
Definition kv (c : list (Z * entry)) (m : Z) := option_map nent (lookup c m).

(* an observation with the own-counter-drawn message ID erased *)
Definition erase_mid (w : wire) : wire :=
  {| w_typ := w_typ w; w_code := w_code w; w_mid := 0; w_tok := w_tok w; w_opts := w_opts w; w_pay := w_pay w |}.
Definition eobs (typ : Z) (o : obs) : obs :=
  if (typ =? CON) || negb (o_called o) then o
  else {| o_called := o_called o; o_out := map erase_mid (o_out o) |}.
Definition oeq (typ : Z) (o1 o2 : obs) : Prop := eobs typ o1 = eobs typ o2.

(* a request with another message ID *)
Definition other (m : Z) (e : ev) : bool :=
  match e with Req _ mid _ _ _ _ => negb (mid =? m) | _ => false end.

Lemma eobs_called typ o : o_called (eobs typ o) = o_called o.
Proof. unfold eobs. destruct ((typ =? CON) || negb (o_called o)); reflexivity. Qed.

Lemma oeq_called typ o1 o2 : oeq typ o1 o2 -> o_called o1 = o_called o2.
Proof. intros H. rewrite <- (eobs_called typ o1), <- (eobs_called typ o2), H. reflexivity. Qed.

Lemma oeq_exact typ o1 o2 : oeq typ o1 o2 -> (typ = CON \/ o_called o2 = false) -> o1 = o2.
Proof.
  intros H Hc. pose proof (oeq_called _ _ _ H) as Hcal. unfold oeq, eobs in H. rewrite Hcal in H.
  destruct Hc as [->|Hc]; [cbn in H; exact H|]. rewrite Hc in H. rewrite orb_true_r in H. exact H.
Qed.

Lemma oeq_content typ o1 o2 r2 : oeq typ o1 o2 -> o_out o2 = [r2] ->
  exists r1, o_out o1 = [r1] /\ cnt r1 = cnt r2 /\ w_typ r1 = w_typ r2.
Proof.
  intros H Ho. pose proof (oeq_called _ _ _ H) as Hcal. unfold oeq, eobs in H. rewrite Hcal in H.
  destruct ((typ =? CON) || negb (o_called o2)).
  - subst o1. exists r2. auto.
  - injection H as H. rewrite Ho in H. destruct (o_out o1) as [|r1 [|? ?]]; cbn in H; try discriminate.
    exists r1. split; [reflexivity|].
    destruct r1, r2; cbn in *. injection H; intros; subst. auto.
Qed.

Lemma step_other_lookup s e m : other m e = true -> lookup (cache (fst (step s e))) m = lookup (cache s) m.
Proof.
  destruct e as [typ mid tok code ro b| | | | |]; cbn [other]; try discriminate. intros H.
  apply negb_true_iff, Z.eqb_neq in H. cbn [step].
  destruct (req_lookup typ mid (cache s)); cbn [fst cache]; [reflexivity|].
  destruct (req_store_cases mid (req_handle typ mid tok ro b (req_check typ mid (own s))) (cache s)) as [->|[r ->]];
    [reflexivity|]. apply lookup_store_other. congruence.
Qed.

Lemma final_app s a b : final s (a ++ b) = final (final s a) b.
Proof. revert s. induction a as [|e a IH]; intros s; cbn [app]; [reflexivity|]. rewrite !final_cons. apply IH. Qed.

Lemma final_other_lookup evs : forall s m, Forall (fun e => other m e = true) evs ->
  lookup (cache (final s evs)) m = lookup (cache s) m.
Proof.
  induction evs as [|e evs IH]; intros s m H; [reflexivity|]. inversion H; subst.
  rewrite final_cons, IH by assumption. apply step_other_lookup. assumption.
Qed.

(* Q1: the lookup depends on the entry only *)
Lemma kv_load c1 c2 m : kv c1 m = kv c2 m ->
  match cache_load c1 m, cache_load c2 m with
  | Some e1, Some e2 => cnt (e_reply e1) = cnt (e_reply e2)
  | None, None => True
  | _, _ => False
  end.
Proof.
  unfold kv, cache_load. destruct (lookup c1 m) as [e1|], (lookup c2 m) as [e2|]; cbn [option_map]; try discriminate; [|auto].
  intros H. unfold nent in H.
  assert (Hc : cnt (e_reply e1) = cnt (e_reply e2)) by congruence.
  assert (Hl : e_left e1 = e_left e2) by congruence.
  unfold expired. rewrite Hl. destruct (e_left e2 <? 0); auto.
Qed.

Lemma kv_lookup_req c1 c2 typ m : kv c1 m = kv c2 m ->
  match req_lookup typ m c1, req_lookup typ m c2 with
  | Some e1, Some e2 => retarget typ m (e_reply e1) = retarget typ m (e_reply e2)
  | None, None => True
  | _, _ => False
  end.
Proof.
  intros H. unfold req_lookup. destruct (is_cacheable_typ typ); [|exact I].
  pose proof (kv_load _ _ _ H) as HL. destruct (cache_load c1 m) as [e1|], (cache_load c2 m) as [e2|]; try contradiction; [|exact I].
  unfold cnt in HL. injection HL; intros. unfold retarget. f_equal; assumption.
Qed.

(* Q2: the handler / processResponse piece depends on the own counter only through the ID of a reply
   to a request that is not confirmable *)
Lemma handle_own_indep typ mid tok ro b x y :
  hd_store (req_handle typ mid tok ro b x) = hd_store (req_handle typ mid tok ro b y) /\
  option_map cnt (hd_reply (req_handle typ mid tok ro b x)) = option_map cnt (hd_reply (req_handle typ mid tok ro b y)) /\
  oeq typ (obs_of_reply true (hd_reply (req_handle typ mid tok ro b x))) (obs_of_reply true (hd_reply (req_handle typ mid tok ro b y))).
Proof.
  unfold req_handle, oeq, eobs.
  destruct (handler_result tok ro b) as [h|]; [destruct (is_special h)|]; destruct (typ =? CON);
    cbn [hd_store hd_reply option_map obs_of_reply o_called o_out orb negb map erase_mid cnt w_typ w_code w_mid w_tok w_opts w_pay];
    repeat split; reflexivity.
Qed.

(* Q3: the store depends on the entry and on the content of the reply only *)
Lemma kv_remove_same c m : lookup (remove c m) m = None.
Proof.
  induction c as [|[k e] c IH]; cbn [remove lookup]; [reflexivity|].
  destruct (Z.eqb_spec m k) as [->|Hne]; [exact IH|]. cbn [lookup]. destruct (Z.eqb_spec m k); [contradiction|exact IH].
Qed.

Lemma kv_store c1 c2 m st r1 r2 : kv c1 m = kv c2 m -> option_map cnt r1 = option_map cnt r2 ->
  kv (store_reply m st r1 c1) m = kv (store_reply m st r2 c2) m.
Proof.
  intros H Hr. unfold store_reply. destruct st; [|exact H].
  destruct r1 as [w1|], r2 as [w2|]; cbn [option_map] in Hr; try discriminate; [|exact H].
  assert (Hr' : cnt w1 = cnt w2) by congruence. clear Hr. rename Hr' into Hr. unfold cache_store. pose proof (kv_load _ _ _ H) as HL.
  destruct (cache_load c1 m), (cache_load c2 m); try contradiction; [exact H|].
  unfold kv. cbn [lookup]. rewrite Z.eqb_refl. cbn [option_map]. unfold nent. cbn [e_reply e_left]. rewrite Hr. reflexivity.
Qed.

Lemma kv_store_other c m k st r : k <> m -> lookup (store_reply m st r c) k = lookup c k.
Proof.
  intros Hne. unfold store_reply. destruct st; [|reflexivity]. destruct r; [|reflexivity].
  apply lookup_store_other. exact Hne.
Qed.

(* L2: one sequential step on m, from two states that agree on the entry of m *)
Lemma step_kv_congr s1 s2 typ mid tok code ro b : kv (cache s1) mid = kv (cache s2) mid ->
  let e := Req typ mid tok code ro b in
  kv (cache (fst (step s1 e))) mid = kv (cache (fst (step s2 e))) mid /\ oeq typ (snd (step s1 e)) (snd (step s2 e)).
Proof.
  intros H e. subst e. cbn [step]. pose proof (kv_lookup_req _ _ typ mid H) as HL.
  destruct (req_lookup typ mid (cache s1)) as [e1|], (req_lookup typ mid (cache s2)) as [e2|]; try contradiction.
  - cbn [fst snd cache]. rewrite HL. split; [exact H|reflexivity].
  - cbn [fst snd cache]. unfold req_store.
    destruct (handle_own_indep typ mid tok ro b (req_check typ mid (own s1)) (req_check typ mid (own s2))) as [Hs [Hc Ho]].
    rewrite Hs. split; [apply kv_store; assumption|exact Ho].
Qed.

(* ------------------------------------------------------------------ *)
(* 4. sections of different message IDs commute, up to the own counter *)

Theorem commute : forall s typ1 mid1 tok1 code1 ro1 b1 typ2 mid2 tok2 code2 ro2 b2,
  mid1 <> mid2 ->
  let e1 := Req typ1 mid1 tok1 code1 ro1 b1 in
  let e2 := Req typ2 mid2 tok2 code2 ro2 b2 in
  let s1 := fst (step s e1) in let s12 := fst (step s1 e2) in
  let s2 := fst (step s e2) in let s21 := fst (step s2 e1) in
  (forall k, kv (cache s12) k = kv (cache s21) k) /\
  oeq typ1 (snd (step s e1)) (snd (step s2 e1)) /\
  oeq typ2 (snd (step s1 e2)) (snd (step s e2)).
Proof.
  intros s typ1 mid1 tok1 code1 ro1 b1 typ2 mid2 tok2 code2 ro2 b2 Hne e1 e2 s1 s12 s2 s21.
  assert (O12 : other mid1 e2 = true) by (cbn; apply negb_true_iff, Z.eqb_neq; congruence).
  assert (O21 : other mid2 e1 = true) by (cbn; apply negb_true_iff, Z.eqb_neq; congruence).
  (* e1 sees the same entry of mid1 before and after e2, and vice versa *)
  assert (K1 : kv (cache s) mid1 = kv (cache s2) mid1).
  { unfold kv, s2. rewrite step_other_lookup by exact O12. reflexivity. }
  assert (K2 : kv (cache s1) mid2 = kv (cache s) mid2).
  { unfold kv, s1. rewrite step_other_lookup by exact O21. reflexivity. }
  destruct (step_kv_congr s s2 typ1 mid1 tok1 code1 ro1 b1 K1) as [C1 E1].
  destruct (step_kv_congr s1 s typ2 mid2 tok2 code2 ro2 b2 K2) as [C2 E2].
  split; [|split; assumption].
  intros k. destruct (Z.eq_dec k mid1) as [->|N1].
  - (* the entry of mid1: written by e1, untouched by e2 *)
    unfold s12, s21. fold e1 e2. transitivity (kv (cache s1) mid1).
    + unfold kv. rewrite step_other_lookup by exact O12. reflexivity.
    + exact C1.
  - destruct (Z.eq_dec k mid2) as [->|N2].
    + unfold s12, s21. fold e1 e2. transitivity (kv (cache s2) mid2).
      * exact C2.
      * unfold kv. rewrite step_other_lookup by exact O21. reflexivity.
    + assert (Ok1 : other k e1 = true) by (cbn; apply negb_true_iff, Z.eqb_neq; congruence).
      assert (Ok2 : other k e2 = true) by (cbn; apply negb_true_iff, Z.eqb_neq; congruence).
      unfold kv, s12, s21, s1, s2. rewrite !step_other_lookup by assumption. reflexivity.
Qed.

(* the own counter itself does not commute: the own-ID check of a confirmable request depends on how far
   the counter has been advanced by the other copy *)
Theorem commute_own_counter_refuted :
  exists s e1 e2, other 5 e1 = true /\ other 16383 e2 = true /\
    own (fst (step (fst (step s e1)) e2)) <> own (fst (step (fst (step s e2)) e1)).
Proof.
  exists (init 0), (Req CON 16383 [] 1 [] (BResp 69 [] [])), (Req NON 5 [] 1 [] (BResp 69 [] [])).
  vm_compute. repeat split; discriminate.
Qed.

(* ------------------------------------------------------------------ *)
(* 5. the invariant that ties an interleaved execution to the          *)
(*    sequential history in lock-acquisition order                     *)

Notation tstate := (Interleave.tstate ev loc res).

Section Invariant.
Variable s0 : st.

(* the sequential state just before position p of the history A, and the sequential step at p *)
Definition before (A : list ev) (p : nat) : st := final s0 (firstn p A).
Definition refstep (A : list ev) (p : nat) (o : ev) : st * obs := step (before A p) o.

(* a thread inside its critical section: it is at position p of the order, its ID is locked, and no
   copy with the same ID has taken the lock since *)
Definition sec_at (hd : list Z) (A : list ev) (o : ev) (mid : Z) (p : nat) : Prop :=
  nth_error A p = Some o /\ In mid hd /\ Forall (fun e => other mid e = true) (skipn (S p) A).

Definition tinv (c : list (Z * entry)) (hd : list Z) (A : list ev) (cu : tstate) : Prop :=
  match cu with
  | Running (Req typ mid tok code ro b as o) l =>
      match pc l with
      | 0%nat | 1%nat => True
      | 2%nat => sec_at hd A o mid (pos l) /\ kv c mid = kv (cache (before A (pos l))) mid
      | 3%nat => sec_at hd A o mid (pos l) /\ kv c mid = kv (cache (before A (pos l))) mid /\ req_lookup typ mid c = None
      | 4%nat => sec_at hd A o mid (pos l) /\ kv c mid = kv (cache (before A (pos l))) mid /\ req_lookup typ mid c = None /\
                 l_called l = true /\
                 exists x, l_reply l = hd_reply (req_handle typ mid tok ro b x) /\
                           l_store l = hd_store (req_handle typ mid tok ro b x)
      | 5%nat => sec_at hd A o mid (pos l) /\ kv c mid = kv (cache (fst (refstep A (pos l) o))) mid /\
                 oeq typ (obs_of_reply (l_called l) (l_reply l)) (snd (refstep A (pos l) o))
      | _ => nth_error A (pos l) = Some o /\ oeq typ (obs_of_reply (l_called l) (l_reply l)) (snd (refstep A (pos l) o))
      end
  | Finished (Req typ mid tok code ro b as o) (ob, p) => nth_error A p = Some o /\ oeq typ ob (snd (refstep A p o))
  | _ => True
  end.

(* the result of a returned call *)
Definition rinv (A : list ev) (o : ev) (r : res) : Prop :=
  match o with
  | Req typ _ _ _ _ _ => nth_error A (snd r) = Some o /\ oeq typ (fst r) (snd (refstep A (snd r) o))
  | _ => True
  end.

Definition insec (cu : tstate) (m : Z) : Prop :=
  match cu with
  | Running (Req _ mid _ _ _ _) l => mid = m /\ (2 <= pc l <= 5)%nat
  | _ => False
  end.

Record Inv (c : config) : Prop := {
  i_thr : forall t th, nth_error (threads c) t = Some th ->
            tinv (cache (g (shared c))) (held (shared c)) (order c) (cur th);
  i_res : forall t n o r, In (ERes t n o r) (rhist c) -> rinv (order c) o r;
  i_cache : forall m, ~ In m (held (shared c)) -> kv (cache (g (shared c))) m = kv (cache (final s0 (order c))) m;
  i_held : forall m, In m (held (shared c)) -> exists t th, nth_error (threads c) t = Some th /\ insec (cur th) m;
  i_excl : forall t1 t2 th1 th2 m, nth_error (threads c) t1 = Some th1 -> nth_error (threads c) t2 = Some th2 ->
             insec (cur th1) m -> insec (cur th2) m -> t1 = t2
}.

(* ---- stability of the sequential reference when the order grows at the end ---- *)

Lemma nth_app_stable {X} (A : list X) e p o : nth_error A p = Some o -> nth_error (A ++ [e]) p = Some o.
Proof. intros H. rewrite nth_error_app1; [exact H|]. apply nth_error_Some. congruence. Qed.

Lemma before_stable A e p o : nth_error A p = Some o -> before (A ++ [e]) p = before A p.
Proof.
  intros H. unfold before. f_equal. rewrite firstn_app.
  assert (Hl : (p < length A)%nat) by (apply nth_error_Some; congruence).
  replace (p - length A)%nat with 0%nat by lia. cbn [firstn]. apply app_nil_r.
Qed.

Lemma skipn_app_stable {X} (A : list X) e p o : nth_error A p = Some o -> skipn (S p) (A ++ [e]) = skipn (S p) A ++ [e].
Proof.
  intros H. assert (Hl : (p < length A)%nat) by (apply nth_error_Some; congruence).
  rewrite skipn_app. replace (S p - length A)%nat with 0%nat by lia. reflexivity.
Qed.

Lemma req_lookup_ext typ m c c' : lookup c' m = lookup c m -> req_lookup typ m c' = req_lookup typ m c.
Proof. intros H. unfold req_lookup, cache_load. rewrite H. reflexivity. Qed.

Lemma kv_ext m c c' : lookup c' m = lookup c m -> kv c' m = kv c m.
Proof. intros H. unfold kv. rewrite H. reflexivity. Qed.

Lemma tinv_insec_held c hd A cu m : tinv c hd A cu -> insec cu m -> In m hd.
Proof.
  destruct cu as [|o l|o r]; cbn [insec]; try contradiction.
  destruct o as [typ mid tok code ro b| | | | |]; try contradiction. intros T [<- Hp]. cbn [tinv] in T.
  destruct (pc l) as [|[|[|[|[|[|n]]]]]]; try lia; destruct T as [[_ [H _]] _]; exact H.
Qed.

(* the other threads: nothing they rely on changes when a thread acts on its own message ID *)
Lemma tinv_frame c hd A c' hd' A' cu :
  tinv c hd A cu ->
  (A' = A \/ exists e, A' = A ++ [e] /\ forall m, insec cu m -> other m e = true) ->
  (forall m, insec cu m -> lookup c' m = lookup c m /\ In m hd') ->
  tinv c' hd' A' cu.
Proof.
  intros T HA HF. destruct cu as [|o l|o r]; [exact I| |].
  - destruct o as [typ mid tok code ro b| | | | |]; try exact I. cbn [tinv] in *.
    assert (Hsec : forall p, sec_at hd A (Req typ mid tok code ro b) mid p -> (2 <= pc l <= 5)%nat ->
                   sec_at hd' A' (Req typ mid tok code ro b) mid p /\ before A' p = before A p /\
                   lookup c' mid = lookup c mid).
    { intros p [Hn [Hh Hf]] Hp. destruct (HF mid) as [HL Hh']; [cbn; auto|].
      destruct HA as [->|[e [-> He]]].
      - repeat split; auto.
      - repeat split; auto.
        + apply nth_app_stable; exact Hn.
        + rewrite (skipn_app_stable _ _ _ _ Hn). apply Forall_app. split; [exact Hf|]. constructor; [|constructor].
          apply He. cbn; auto.
        + eapply before_stable; exact Hn. }
    assert (Hout : forall p, nth_error A p = Some (Req typ mid tok code ro b) ->
                   nth_error A' p = Some (Req typ mid tok code ro b) /\ before A' p = before A p).
    { intros p Hn. destruct HA as [->|[e [-> He]]]; [auto|]. split; [apply nth_app_stable; exact Hn|eapply before_stable; exact Hn]. }
    unfold refstep in *.
    destruct (pc l) as [|[|[|[|[|[|n]]]]]] eqn:Hpc; try exact I.
    + destruct T as [S K]. destruct (Hsec _ S ltac:(lia)) as [S' [B L]]. rewrite B, (kv_ext _ _ _ L). auto.
    + destruct T as [S [K R]]. destruct (Hsec _ S ltac:(lia)) as [S' [B L]]. rewrite B, (kv_ext _ _ _ L), (req_lookup_ext _ _ _ _ L). auto.
    + destruct T as [S [K [R X]]]. destruct (Hsec _ S ltac:(lia)) as [S' [B L]]. rewrite B, (kv_ext _ _ _ L), (req_lookup_ext _ _ _ _ L). auto.
    + destruct T as [S [K R]]. destruct (Hsec _ S ltac:(lia)) as [S' [B L]]. rewrite B, (kv_ext _ _ _ L). auto.
    + destruct T as [Hn R]. destruct (Hout _ Hn) as [Hn' B]. rewrite B. auto.
  - destruct o as [typ mid tok code ro b| | | | |]; try exact I. destruct r as [ob p]. cbn [tinv] in *.
    destruct T as [Hn R]. unfold refstep in *.
    destruct HA as [->|[e [-> He]]]; [auto|]. rewrite (before_stable _ _ _ _ Hn). split; [apply nth_app_stable; exact Hn|exact R].
Qed.

Lemma rinv_frame A e o r : rinv A o r -> rinv (A ++ [e]) o r.
Proof.
  destruct o as [typ mid tok code ro b| | | | |]; try exact (fun x => x). cbn [rinv]. intros [Hn R]. unfold refstep in *.
  rewrite (before_stable _ _ _ _ Hn). split; [apply nth_app_stable; exact Hn|exact R].
Qed.

End Invariant.

(* ---- the invariant holds initially and is preserved by every step of every thread ---- *)

Lemma inv_init s0 progs : Inv s0 (cinit s0 progs).
Proof.
  unfold cinit, Interleave.init. constructor; cbn.
  - intros t th H. rewrite nth_error_map in H. destruct (nth_error progs t); cbn in H; [|discriminate].
    injection H as <-. exact I.
  - intros t n o r [].
  - intros m _. reflexivity.
  - intros m [].
  - intros t1 t2 th1 th2 m H1 _ Hi _. rewrite nth_error_map in H1. destruct (nth_error progs t1); cbn in H1; [|discriminate].
    injection H1 as <-. destruct Hi.
Qed.

Lemma inv_rebuild s0 (c : config) t th th' sh' rh' :
  Inv s0 c -> nth_error (threads c) t = Some th ->
  tinv s0 (cache (g sh')) (held sh') (rev (acq sh')) (cur th') ->
  (forall t' th'', t' <> t -> nth_error (threads c) t' = Some th'' ->
     tinv s0 (cache (g sh')) (held sh') (rev (acq sh')) (cur th'')) ->
  (forall t0 n o r, In (ERes t0 n o r) rh' -> rinv s0 (rev (acq sh')) o r) ->
  (forall m, ~ In m (held sh') -> kv (cache (g sh')) m = kv (cache (final s0 (rev (acq sh')))) m) ->
  (forall m, In m (held sh') -> insec (cur th') m \/
     exists t' th'', t' <> t /\ nth_error (threads c) t' = Some th'' /\ insec (cur th'') m) ->
  (forall m, insec (cur th') m -> forall t' th'', t' <> t -> nth_error (threads c) t' = Some th'' -> ~ insec (cur th'') m) ->
  Inv s0 (Interleave.mkC sh ev loc res sh' (upd t th' (threads c)) rh' (Interleave.rlin sh ev loc res c)).
Proof.
  intros I Hth Tme Toth Hres Hcache Hheld Hexcl. constructor; cbn [Interleave.threads Interleave.shared Interleave.rhist]; unfold order; cbn [Interleave.shared].
  - intros t' th'' Hn. destruct (Nat.eq_dec t t') as [<-|Hne].
    + rewrite (nth_upd_eq _ _ _ _ Hth) in Hn. injection Hn as <-. exact Tme.
    + rewrite nth_upd_neq in Hn by exact Hne. apply (Toth t'); auto.
  - exact Hres.
  - exact Hcache.
  - intros m Hm. destruct (Hheld m Hm) as [Hi|[t' [th'' [Hne [Hn Hi]]]]].
    + exists t, th'. split; [eapply nth_upd_eq; exact Hth|exact Hi].
    + exists t', th''. split; [rewrite nth_upd_neq by auto; exact Hn|exact Hi].
  - intros t1 t2 th1 th2 m H1 H2 Hi1 Hi2.
    destruct (Nat.eq_dec t t1) as [<-|N1]; destruct (Nat.eq_dec t t2) as [<-|N2]; [reflexivity| | |].
    + rewrite (nth_upd_eq _ _ _ _ Hth) in H1. injection H1 as <-. rewrite nth_upd_neq in H2 by exact N2.
      exfalso. apply (Hexcl m Hi1 t2 th2); auto.
    + rewrite (nth_upd_eq _ _ _ _ Hth) in H2. injection H2 as <-. rewrite nth_upd_neq in H1 by exact N1.
      exfalso. apply (Hexcl m Hi2 t1 th1); auto.
    + rewrite nth_upd_neq in H1 by exact N1. rewrite nth_upd_neq in H2 by exact N2.
      apply (i_excl s0 c I t1 t2 th1 th2 m); assumption.
Qed.

(* nth_error / firstn / skipn around position p *)
Lemma split_at {X} (A : list X) p o : nth_error A p = Some o -> A = firstn p A ++ o :: skipn (S p) A.
Proof.
  revert p. induction A as [|a A IH]; intros [|p] H; cbn in *; try discriminate.
  - injection H as ->. reflexivity.
  - f_equal. apply IH. exact H.
Qed.

Lemma firstn_succ_snoc {X} (A : list X) p o : nth_error A p = Some o -> firstn (S p) A = firstn p A ++ [o].
Proof.
  revert p. induction A as [|a A IH]; intros [|p] H; cbn in *; try discriminate.
  - injection H as ->. reflexivity.
  - f_equal. apply IH. exact H.
Qed.

Lemma inv_step s0 c t : Inv s0 c -> Inv s0 (cstep c t).
Proof.
  intros J. unfold cstep, Interleave.step.
  destruct (nth_error (threads c) t) as [th|] eqn:Hth; [|exact J].
  pose proof (i_thr s0 c J t th Hth) as Tme.
  assert (Hothers_same : forall t' th'', t' <> t -> nth_error (threads c) t' = Some th'' ->
            tinv s0 (cache (g (shared c))) (held (shared c)) (rev (acq (shared c))) (cur th'')).
  { intros t' th'' _ Hn. apply (i_thr s0 c J t' th'' Hn). }
  assert (Hheld_same : forall cu', (forall m, insec (cur th) m -> insec cu' m) ->
            forall m, In m (held (shared c)) -> insec cu' m \/
              exists t' th'', t' <> t /\ nth_error (threads c) t' = Some th'' /\ insec (cur th'') m).
  { intros cu' Hcu m Hm. destruct (i_held s0 c J m Hm) as [t' [th'' [Hn Hi]]].
    destruct (Nat.eq_dec t' t) as [->|Hne]; [|right; eauto].
    rewrite Hth in Hn. injection Hn as <-. left. apply Hcu. exact Hi. }
  assert (Hexcl_same : forall cu', (forall m, insec cu' m -> insec (cur th) m) ->
            forall m, insec cu' m -> forall t' th'', t' <> t -> nth_error (threads c) t' = Some th'' -> ~ insec (cur th'') m).
  { intros cu' Hcu m Hi t' th'' Hne Hn Hi'. apply Hne. apply (i_excl s0 c J t' t th'' th m); auto. }
  destruct (cur th) as [|o l|o r] eqn:Hc.
  - (* the next call is invoked *)
    destruct (todo th) as [|o rest] eqn:Ht; [exact J|].
    apply (inv_rebuild s0 c t th); [exact J|exact Hth| | | | | |].
    + cbn [cur]. destruct o; cbn [tinv init_loc pc]; exact I.
    + exact Hothers_same.
    + intros t0 n o' r [E|Hin]; [discriminate|]. apply (i_res s0 c J t0 n o' r Hin).
    + apply (i_cache s0 c J).
    + apply Hheld_same. intros m [].
    + apply Hexcl_same. cbn [cur insec]. destruct o; try tauto. cbn [init_loc pc]. intros m [_ H]. lia.
  - (* one atomic action *)
    destruct (act o l (shared c)) as [[[l' s'] d]|] eqn:Ha; [|exact J].
    destruct o as [typ mid tok code ro b| | | | |]; try (cbn in Ha; discriminate).
    set (o := Req typ mid tok code ro b) in *.
    cbn [tinv] in Tme. unfold act, o in Ha. cbv iota beta in Ha. fold o in Ha. revert Ha Tme.
    destruct (pc l) as [|[|[|[|[|[|n]]]]]] eqn:Hpc; intros Ha Tme.
    + (* pc 0: own-ID check *)
      injection Ha as <- <- <-. apply (inv_rebuild s0 c t th); [exact J|exact Hth| | | | | |].
      * exact I.
      * exact Hothers_same.
      * apply (i_res s0 c J).
      * apply (i_cache s0 c J).
      * apply Hheld_same. cbn [cur insec]. rewrite Hpc. intros m [_ H]. lia.
      * apply Hexcl_same. cbn [cur insec at_pc pc]. intros m [_ H]. lia.
    + (* pc 1: Lock *)
      revert Ha. destruct (memz mid (held (shared c))) eqn:Hm; intros Ha; [discriminate|]. injection Ha as <- <- <-.
      assert (Hnh : ~ In mid (held (shared c))) by (intros H; apply memz_in in H; congruence).
      assert (Hoth : forall t' th'' m, t' <> t -> nth_error (threads c) t' = Some th'' -> insec (cur th'') m -> m <> mid).
      { intros t' th'' m _ Hn Hi ->. apply Hnh. eapply tinv_insec_held; [apply (i_thr s0 c J t' th'' Hn)|exact Hi]. }
      apply (inv_rebuild s0 c t th); [exact J|exact Hth| | | | | |]; cbn [g held acq rev cur].
      * (* this thread: at the end of the order, sees the sequential cache *)
        cbn [tinv pc pos]. fold o. split.
        -- split; [|split].
           ++ rewrite nth_error_app2; rewrite rev_length; [|lia]. rewrite Nat.sub_diag. reflexivity.
           ++ left; reflexivity.
           ++ rewrite skipn_all2; [constructor|]. rewrite app_length, rev_length. cbn. lia.
        -- unfold before. rewrite firstn_app, rev_length, Nat.sub_diag, firstn_all2 by (rewrite rev_length; lia).
           cbn [firstn]. rewrite app_nil_r. apply (i_cache s0 c J). exact Hnh.
      * intros t' th'' Hne Hn. eapply tinv_frame; [apply (i_thr s0 c J t' th'' Hn)| |].
        -- right. exists o. split; [reflexivity|]. intros m Hi. cbn [other o]. apply negb_true_iff, Z.eqb_neq.
           intros ->. eapply (Hoth t' th'' m); eauto.
        -- intros m Hi. split; [reflexivity|]. right. eapply tinv_insec_held; [apply (i_thr s0 c J t' th'' Hn)|exact Hi].
      * intros t0 n o' r Hin. apply rinv_frame. apply (i_res s0 c J t0 n o' r Hin).
      * intros m Hm'. assert (m <> mid /\ ~ In m (held (shared c))) as [Hne Hnm] by (split; intros H; apply Hm'; [left; congruence|right; exact H]).
        rewrite (i_cache s0 c J m Hnm). unfold kv, order. rewrite final_app, final_cons, final_nil.
        rewrite step_other_lookup; [reflexivity|]. cbn [other o]. apply negb_true_iff, Z.eqb_neq. congruence.
      * intros m [<-|Hm'].
        -- left. cbn [insec o pc]. split; [reflexivity|lia].
        -- destruct (i_held s0 c J m Hm') as [t' [th'' [Hn Hi]]]. right. exists t', th''. split; [|auto].
           intros ->. rewrite Hth in Hn. injection Hn as <-. rewrite Hc in Hi. cbn [insec o] in Hi. lia.
      * intros m Hi t' th'' Hne Hn Hi'. cbn [insec o] in Hi. destruct Hi as [<- _]. eapply (Hoth t' th'' mid); eauto.
    + (* pc 2: checkResponseCache *)
      destruct Tme as [S K].
      revert Ha. destruct (req_lookup typ mid (cache (g (shared c)))) as [en|] eqn:Hl; intros Ha; injection Ha as <- <- <-.
      * (* answered from the cache *)
        apply (inv_rebuild s0 c t th); [exact J|exact Hth| | | | | |].
        -- cbn [cur tinv pc pos l_called l_reply]. fold o. split; [exact S|].
           unfold refstep. pose proof (kv_lookup_req _ _ typ mid K) as HL. rewrite Hl in HL.
           subst o. cbn [step]. fold (order c).
           destruct (req_lookup typ mid (cache (before s0 (order c) (pos l)))) as [e2|]; [|contradiction].
           cbn [fst snd cache]. rewrite HL. split; [exact K|reflexivity].
        -- exact Hothers_same.
        -- apply (i_res s0 c J).
        -- apply (i_cache s0 c J).
        -- apply Hheld_same. cbn [cur insec o]. rewrite Hpc. cbn [pc]. intros m [E _]. split; [exact E|lia].
        -- apply Hexcl_same. cbn [cur insec o]. rewrite Hpc. cbn [pc]. intros m [E _]. split; [exact E|lia].
      * apply (inv_rebuild s0 c t th); [exact J|exact Hth| | | | | |].
        -- cbn [cur tinv at_pc pc pos]. fold o. split; [exact S|]. split; [exact K|exact Hl].
        -- exact Hothers_same.
        -- apply (i_res s0 c J).
        -- apply (i_cache s0 c J).
        -- apply Hheld_same. cbn [cur insec o at_pc pc]. rewrite Hpc. intros m [E _]. split; [exact E|lia].
        -- apply Hexcl_same. cbn [cur insec o at_pc pc]. rewrite Hpc. intros m [E _]. split; [exact E|lia].
    + (* pc 3: handler, processResponse *)
      destruct Tme as [S [K R]]. injection Ha as <- <- <-.
      apply (inv_rebuild s0 c t th); [exact J|exact Hth| | | | | |].
      * cbn [cur tinv pc pos l_called l_reply l_store with_own g cache held acq]. fold o.
        split; [exact S|]. split; [exact K|]. split; [exact R|]. split; [reflexivity|].
        exists (own (g (shared c))). split; reflexivity.
      * exact Hothers_same.
      * apply (i_res s0 c J).
      * apply (i_cache s0 c J).
      * apply Hheld_same. cbn [cur insec o]. rewrite Hpc. cbn [pc]. intros m [E _]. split; [exact E|lia].
      * apply Hexcl_same. cbn [cur insec o]. rewrite Hpc. cbn [pc]. intros m [E _]. split; [exact E|lia].
    + (* pc 4: addResponseToCache *)
      destruct Tme as [S [K [R [Cal [x [Hr Hs]]]]]]. injection Ha as <- <- <-.
      assert (Hoth : forall t' th'' m, t' <> t -> nth_error (threads c) t' = Some th'' -> insec (cur th'') m -> m <> mid).
      { intros t' th'' m Hne Hn Hi ->. apply Hne. apply (i_excl s0 c J t' t th'' th mid); auto.
        rewrite Hc. cbn [insec o]. split; [reflexivity|lia]. }
      apply (inv_rebuild s0 c t th); [exact J|exact Hth| | | | | |]; cbn [with_cache g cache held acq cur].
      * cbn [tinv at_pc pc pos l_called l_reply l_store]. fold o. split; [exact S|].
        unfold refstep. pose proof (kv_lookup_req _ _ typ mid K) as HL. rewrite R in HL.
        subst o. cbn [step]. fold (order c).
        destruct (req_lookup typ mid (cache (before s0 (order c) (pos l)))) as [e2|]; [contradiction|].
        cbn [fst snd cache]. unfold req_store. rewrite Hr, Hs, Cal.
        destruct (handle_own_indep typ mid tok ro b x (req_check typ mid (own (before s0 (order c) (pos l))))) as [Es [Ec Eo]].
        rewrite Es. split; [apply kv_store; assumption|exact Eo].
      * intros t' th'' Hne Hn. eapply tinv_frame; [apply (i_thr s0 c J t' th'' Hn)|left; reflexivity|].
        intros m Hi. split; [apply kv_store_other; eapply Hoth; eauto|].
        eapply tinv_insec_held; [apply (i_thr s0 c J t' th'' Hn)|exact Hi].
      * apply (i_res s0 c J).
      * intros m Hm. pose proof (i_cache s0 c J m Hm) as E. unfold order in E. rewrite <- E. apply kv_ext. apply kv_store_other.
        intros ->. apply Hm. apply S.
      * apply Hheld_same. cbn [cur insec o at_pc pc]. rewrite Hpc. intros m [E _]. split; [exact E|lia].
      * apply Hexcl_same. cbn [cur insec o at_pc pc]. rewrite Hpc. intros m [E _]. split; [exact E|lia].
    + (* pc 5: Unlock *)
      destruct Tme as [[Hn [Hh Hf]] [K R]]. injection Ha as <- <- <-.
      assert (Hoth : forall t' th'' m, t' <> t -> nth_error (threads c) t' = Some th'' -> insec (cur th'') m -> m <> mid).
      { intros t' th'' m Hne Hn' Hi ->. apply Hne. apply (i_excl s0 c J t' t th'' th mid); auto.
        rewrite Hc. cbn [insec o]. split; [reflexivity|lia]. }
      apply (inv_rebuild s0 c t th); [exact J|exact Hth| | | | | |]; cbn [g cache held acq cur].
      * cbn [tinv at_pc pc pos l_called l_reply]. fold o. split; [exact Hn|exact R].
      * intros t' th'' Hne Hn'. eapply tinv_frame; [apply (i_thr s0 c J t' th'' Hn')|left; reflexivity|].
        intros m Hi. split; [reflexivity|]. apply remz_in. split; [|eapply Hoth; eauto].
        eapply tinv_insec_held; [apply (i_thr s0 c J t' th'' Hn')|exact Hi].
      * apply (i_res s0 c J).
      * intros m Hm. destruct (Z.eq_dec m mid) as [->|Hne].
        -- (* the released ID: the section's store is the last access to its entry in the sequential history too *)
           rewrite K. unfold kv. f_equal. unfold refstep, before. fold (order c).
           rewrite (split_at _ _ _ Hn) at 2. rewrite final_app, final_cons.
           symmetry. apply final_other_lookup. exact Hf.
        -- apply (i_cache s0 c J). intros H. apply Hm. apply remz_in. auto.
      * intros m Hm. apply remz_in in Hm as [Hm Hne]. destruct (i_held s0 c J m Hm) as [t' [th'' [Hn' Hi]]].
        right. exists t', th''. split; [|auto]. intros ->. rewrite Hth in Hn'. injection Hn' as <-.
        rewrite Hc in Hi. cbn [insec o] in Hi. destruct Hi as [E _]. congruence.
      * intros m Hi. cbn [insec o at_pc pc] in Hi. lia.
    + (* pc >= 6: writeMessageAsync; the call returns *)
      destruct Tme as [Hn R]. injection Ha as <- <- <-.
      apply (inv_rebuild s0 c t th); [exact J|exact Hth| | | | | |].
      * cbn [cur tinv fst snd]. fold o. split; [exact Hn|exact R].
      * exact Hothers_same.
      * apply (i_res s0 c J).
      * apply (i_cache s0 c J).
      * apply Hheld_same. cbn [cur insec o]. rewrite Hpc. intros m [_ H]. lia.
      * apply Hexcl_same. cbn [cur insec]. intros m [].
  - (* the call returns *)
    apply (inv_rebuild s0 c t th); [exact J|exact Hth| | | | | |].
    + exact I.
    + exact Hothers_same.
    + intros t0 n o' r' [E|Hin]; [|apply (i_res s0 c J t0 n o' r' Hin)].
      injection E as <- <- <- <-. cbn [tinv] in Tme. destruct o as [typ mid tok code ro b| | | | |]; try exact I.
      destruct r as [ob p]. exact Tme.
    + apply (i_cache s0 c J).
    + apply Hheld_same. intros m [].
    + apply Hexcl_same. intros m [].
Qed.

Lemma inv_exec s0 sched : forall c, Inv s0 c -> Inv s0 (cexec sched c).
Proof.
  unfold cexec, Interleave.exec. induction sched as [|t sched IH]; intros c I; cbn [fold_left]; [exact I|].
  apply IH. apply inv_step. exact I.
Qed.

(* ------------------------------------------------------------------ *)
(* 6. every execution is the sequential history in lock order          *)

Lemma run_fst s A : fst (run s A) = final s A.
Proof. reflexivity. Qed.

Lemma run_nth : forall A s p o, nth_error A p = Some o ->
  nth_error (snd (run s A)) p = Some (snd (step (final s (firstn p A)) o)).
Proof.
  induction A as [|e A IH]; intros s [|p] o H; cbn [nth_error] in H; try discriminate.
  - injection H as ->. cbn [run firstn]. rewrite final_nil.
    destruct (step s o) as [s1 o1]. destruct (run s1 A) as [s2 os]. reflexivity.
  - cbn [run firstn]. rewrite final_cons. specialize (IH (fst (step s e)) p o H).
    destruct (step s e) as [s1 o1]. cbn [fst] in *. destruct (run s1 A) as [s2 os]. exact IH.
Qed.

(* For every initial state, every set of programs and every schedule: let A be the events in the order in
   which their threads acquired the per-message-ID lock.  Then
   (1) every call that has returned observed what the sequential run of A observes at its position,
   (2) the cache entry of every message ID whose lock is free is the one the sequential run of A leaves,
   (3) at most one thread is inside the critical section of a message ID. *)
Theorem sections_serialise : forall s0 progs sched,
  let c := cexec sched (cinit s0 progs) in
  let A := order c in
  (forall t n typ mid tok code ro b ob p, In (ERes t n (Req typ mid tok code ro b) (ob, p)) (rhist c) ->
     nth_error A p = Some (Req typ mid tok code ro b) /\
     exists ob', nth_error (snd (run s0 A)) p = Some ob' /\ oeq typ ob ob') /\
  (forall m, ~ In m (held (shared c)) -> kv (cache (g (shared c))) m = kv (cache (fst (run s0 A))) m) /\
  (forall t1 t2 th1 th2 m, nth_error (threads c) t1 = Some th1 -> nth_error (threads c) t2 = Some th2 ->
     insec (cur th1) m -> insec (cur th2) m -> t1 = t2).
Proof.
  intros s0 progs sched c A. pose proof (inv_exec s0 sched _ (inv_init s0 progs)) as J. fold c in J.
  split; [|split].
  - intros t n typ mid tok code ro b ob p Hin. pose proof (i_res s0 c J _ _ _ _ Hin) as [Hn R]. cbn [fst snd] in *.
    split; [exact Hn|]. eexists. split; [apply run_nth; exact Hn|exact R].
  - intros m Hm. rewrite run_fst. apply (i_cache s0 c J m Hm).
  - apply (i_excl s0 c J).
Qed.

(* once no section is in progress, the whole cache is the sequential one *)
Corollary quiescent_cache : forall s0 progs sched,
  let c := cexec sched (cinit s0 progs) in
  held (shared c) = [] -> forall m, kv (cache (g (shared c))) m = kv (cache (final s0 (order c))) m.
Proof.
  intros s0 progs sched c Hh m. destruct (sections_serialise s0 progs sched) as [_ [H _]]. fold c in H.
  rewrite (H m); [reflexivity|]. rewrite Hh. intros [].
Qed.

(* ------------------------------------------------------------------ *)
(* 7. positions in the lock order are never shared                     *)

Definition tpos (cu : tstate) : list nat :=
  match cu with
  | Running (Req _ _ _ _ _ _) l => if (2 <=? pc l)%nat then [pos l] else []
  | Finished (Req _ _ _ _ _ _) r => [snd r]
  | _ => []
  end.
Definition rpos (e : Interleave.event ev res) : list nat :=
  match e with ERes _ _ (Req _ _ _ _ _ _) r => [snd r] | _ => [] end.
Definition allpos (c : config) : list nat :=
  flat_map (fun th => tpos (cur th)) (threads c) ++ flat_map rpos (rhist c).

Record PInv (c : config) : Prop := {
  p_nodup : NoDup (allpos c);
  p_bound : forall p, In p (allpos c) -> (p < length (acq (shared c)))%nat
}.

Lemma upd_split {X} (l : list X) t x y : nth_error l t = Some y ->
  l = firstn t l ++ y :: skipn (S t) l /\ upd t x l = firstn t l ++ x :: skipn (S t) l.
Proof.
  revert t. induction l as [|a l IH]; intros [|t] H; cbn in *; try discriminate.
  - injection H as ->. auto.
  - destruct (IH t H) as [E1 E2]. split; f_equal; assumption.
Qed.

Lemma flat_map_upd {X Y} (f : X -> list Y) l t x y : nth_error l t = Some y ->
  exists a b, flat_map f l = a ++ f y ++ b /\ flat_map f (upd t x l) = a ++ f x ++ b.
Proof.
  intros H. destruct (upd_split l t x y H) as [E1 E2].
  exists (flat_map f (firstn t l)), (flat_map f (skipn (S t) l)). split.
  - rewrite E1 at 1. rewrite flat_map_app. reflexivity.
  - rewrite E2. rewrite flat_map_app. reflexivity.
Qed.

Lemma pinv_init s0 progs : PInv (cinit s0 progs).
Proof.
  assert (E : allpos (cinit s0 progs) = []).
  { unfold allpos, cinit, Interleave.init. cbn. rewrite app_nil_r. induction progs as [|p r IH]; cbn; [reflexivity|exact IH]. }
  constructor; rewrite E; [constructor|intros p []].
Qed.

Lemma pinv_step c t : PInv c -> PInv (cstep c t).
Proof.
  intros [ND BD]. unfold cstep, Interleave.step.
  destruct (nth_error (threads c) t) as [th|] eqn:Hth; [|constructor; assumption].
  (* a step that keeps the positions, the results and the length of the order *)
  assert (Same : forall th' sh' rh', tpos (cur th') = tpos (cur th) -> flat_map rpos rh' = flat_map rpos (rhist c) ->
            length (acq sh') = length (acq (shared c)) ->
            PInv (Interleave.mkC sh ev loc res sh' (upd t th' (threads c)) rh' (Interleave.rlin sh ev loc res c))).
  { intros th' sh' rh' Et Er El.
    assert (E : allpos (Interleave.mkC sh ev loc res sh' (upd t th' (threads c)) rh' (Interleave.rlin sh ev loc res c)) = allpos c).
    { unfold allpos. cbn [Interleave.threads Interleave.rhist]. rewrite Er. f_equal.
      destruct (flat_map_upd (fun th => tpos (cur th)) _ t th' th Hth) as [a [b [E1 E2]]]. rewrite E1, E2, Et. reflexivity. }
    constructor; rewrite E; cbn [Interleave.shared]; [exact ND|]. intros p Hp. rewrite El. apply BD. exact Hp. }
  destruct (cur th) as [|o l|o r] eqn:Hc.
  - destruct (todo th) as [|o rest]; [constructor; assumption|].
    apply Same; [|reflexivity|reflexivity]. cbn [cur]. destruct o; reflexivity.
  - destruct (act o l (shared c)) as [[[l' s'] d]|] eqn:Ha; [|constructor; assumption].
    destruct o as [typ mid tok code ro b| | | | |]; try (cbn in Ha; discriminate).
    unfold act in Ha. revert Ha.
    destruct (pc l) as [|[|[|[|[|[|n]]]]]] eqn:Hpc; intros Ha.
    + injection Ha as <- <- <-. apply Same; [|reflexivity|reflexivity]. cbn [cur tpos at_pc pc]. rewrite Hpc. reflexivity.
    + (* Lock: a new position, beyond all the others *)
      revert Ha. destruct (memz mid (held (shared c))); intros Ha; [discriminate|]. injection Ha as <- <- <-.
      destruct (flat_map_upd (fun th => tpos (cur th)) (threads c) t
                  {| Interleave.todo := todo th;
                     Interleave.cur := Running (Req typ mid tok code ro b)
                        {| pc := 2; pos := length (acq (shared c)); l_called := false; l_reply := None; l_store := false |};
                     Interleave.idx := idx th |} th Hth) as [a [b' [E1 E2]]].
      cbn [cur tpos pc pos Nat.leb] in E2. rewrite Hc in E1. cbn [tpos] in E1. rewrite Hpc in E1. cbn [Nat.leb app] in E1.
      assert (P : Permutation (allpos (Interleave.mkC sh ev loc res
                    {| g := g (shared c); held := mid :: held (shared c); acq := Req typ mid tok code ro b :: acq (shared c) |}
                    (upd t {| Interleave.todo := todo th;
                              Interleave.cur := Running (Req typ mid tok code ro b)
                                {| pc := 2; pos := length (acq (shared c)); l_called := false; l_reply := None; l_store := false |};
                              Interleave.idx := idx th |} (threads c))
                    (rhist c) (Interleave.rlin sh ev loc res c)))
                  (length (acq (shared c)) :: allpos c)).
      { unfold allpos. cbn [Interleave.threads Interleave.rhist]. rewrite E1, E2. cbn [app].
        rewrite <- !app_assoc. cbn [app]. symmetry. apply Permutation_middle. }
      constructor.
      * eapply Permutation_NoDup; [symmetry; exact P|]. constructor; [|exact ND].
        intros Hin. apply BD in Hin. lia.
      * intros p Hp. cbn [Interleave.shared acq length]. eapply Permutation_in in Hp; [|exact P].
        destruct Hp as [<-|Hp]; [lia|]. apply BD in Hp. lia.
    + revert Ha. destruct (req_lookup typ mid (cache (g (shared c)))); intros Ha; injection Ha as <- <- <-;
        (apply Same; [|reflexivity|reflexivity]); cbn [cur tpos at_pc pc pos]; rewrite Hpc; reflexivity.
    + injection Ha as <- <- <-. apply Same; [|reflexivity|reflexivity]. cbn [cur tpos pc pos]. rewrite Hpc. reflexivity.
    + injection Ha as <- <- <-. apply Same; [|reflexivity|reflexivity]. cbn [cur tpos at_pc pc pos]. rewrite Hpc. reflexivity.
    + injection Ha as <- <- <-. apply Same; [|reflexivity|reflexivity]. cbn [cur tpos at_pc pc pos]. rewrite Hpc. reflexivity.
    + injection Ha as <- <- <-. apply Same; [|reflexivity|reflexivity]. cbn [cur tpos snd]. rewrite Hpc. reflexivity.
  - (* the position moves from the thread to the returned call *)
    destruct (flat_map_upd (fun th => tpos (cur th)) (threads c) t
                {| Interleave.todo := todo th; Interleave.cur := Idle; Interleave.idx := S (idx th) |} th Hth) as [a [b' [E1 E2]]].
    cbn [cur tpos app] in E2. rewrite Hc in E1.
    assert (P : Permutation (allpos (Interleave.mkC sh ev loc res (shared c)
                  (upd t {| Interleave.todo := todo th; Interleave.cur := Idle; Interleave.idx := S (idx th) |} (threads c))
                  (ERes t (idx th) o r :: rhist c) (Interleave.rlin sh ev loc res c))) (allpos c)).
    { unfold allpos. cbn [Interleave.threads Interleave.rhist flat_map]. rewrite E1, E2.
      assert (Er : rpos (ERes t (idx th) o r) = tpos (Finished o r)) by (destruct o; reflexivity). rewrite Er.
      rewrite <- !app_assoc. apply Permutation_app_head.
      rewrite !app_assoc. apply Permutation_app_tail. apply Permutation_app_comm. }
    constructor.
    + eapply Permutation_NoDup; [symmetry; exact P|exact ND].
    + intros p Hp. cbn [Interleave.shared]. apply BD. eapply Permutation_in; [exact P|exact Hp].
Qed.

Lemma pinv_exec sched : forall c, PInv c -> PInv (cexec sched c).
Proof.
  unfold cexec, Interleave.exec. induction sched as [|t sched IH]; intros c I; cbn [fold_left]; [exact I|].
  apply IH. apply pinv_step. exact I.
Qed.

Lemma nodup_app_r {X} (a b : list X) : NoDup (a ++ b) -> NoDup b.
Proof. induction a as [|x a IH]; cbn [app]; [auto|]. intros H. inversion H; subst. auto. Qed.

(* two returned calls never share a position of the lock order *)
Theorem positions_distinct : forall s0 progs sched t1 n1 t2 n2 typ1 mid1 tok1 code1 ro1 b1 typ2 mid2 tok2 code2 ro2 b2 ob1 ob2 p,
  let c := cexec sched (cinit s0 progs) in
  forall X Y, rhist c = X ++ ERes t1 n1 (Req typ1 mid1 tok1 code1 ro1 b1) (ob1, p) :: Y ->
  ~ In (ERes t2 n2 (Req typ2 mid2 tok2 code2 ro2 b2) (ob2, p)) (X ++ Y).
Proof.
  intros s0 progs sched t1 n1 t2 n2 typ1 mid1 tok1 code1 ro1 b1 typ2 mid2 tok2 code2 ro2 b2 ob1 ob2 p c X Y HE Hin.
  pose proof (pinv_exec sched _ (pinv_init s0 progs)) as [ND _]. fold c in ND.
  unfold allpos in ND. apply nodup_app_r in ND. rewrite HE in ND.
  rewrite flat_map_app in ND. cbn [flat_map rpos snd app] in ND.
  apply NoDup_remove_2 in ND. apply ND. rewrite <- flat_map_app.
  apply in_flat_map. eexists. split; [exact Hin|]. cbn. left; reflexivity.
Qed.

(* ------------------------------------------------------------------ *)
(* 8. the order contains only operations of the programs               *)

Section Good.
Variable P : ev -> Prop.

Definition ginv (c : config) : Prop :=
  (forall t th, nth_error (threads c) t = Some th ->
     Forall P (todo th) /\ match cur th with Running o _ | Finished o _ => P o | Idle => True end) /\
  Forall P (acq (shared c)).

Lemma act_acq o l s l' s' d : act o l s = Some (l', s', d) -> acq s' = acq s \/ acq s' = o :: acq s.
Proof.
  destruct o as [typ mid tok code ro b| | | | |]; try discriminate. unfold act.
  destruct (pc l) as [|[|[|[|[|[|n]]]]]]; try (intros H; injection H as <- <- <-; left; reflexivity).
  - destruct (memz mid (held s)); [discriminate|]. intros H; injection H as <- <- <-. right; reflexivity.
  - destruct (req_lookup typ mid (cache (g s))); intros H; injection H as <- <- <-; left; reflexivity.
Qed.

Lemma ginv_step c t : ginv c -> ginv (cstep c t).
Proof.
  intros [GT GA]. unfold cstep, Interleave.step.
  destruct (nth_error (threads c) t) as [th|] eqn:Hth; [|split; assumption].
  destruct (GT t th Hth) as [Gtodo Gcur].
  assert (Upd : forall th' sh' rh', (Forall P (todo th') /\ match cur th' with Running o _ | Finished o _ => P o | Idle => True end) ->
            Forall P (acq sh') ->
            ginv (Interleave.mkC sh ev loc res sh' (upd t th' (threads c)) rh' (Interleave.rlin sh ev loc res c))).
  { intros th' sh' rh' G' GA'. split; [|exact GA']. cbn [Interleave.threads]. intros t' th'' Hn.
    destruct (Nat.eq_dec t t') as [<-|Hne].
    - rewrite (nth_upd_eq _ _ _ _ Hth) in Hn. injection Hn as <-. exact G'.
    - rewrite nth_upd_neq in Hn by exact Hne. apply (GT t' th'' Hn). }
  destruct (cur th) as [|o l|o r] eqn:Hc.
  - destruct (todo th) as [|o rest] eqn:Ht; [split; assumption|]. inversion Gtodo; subst.
    apply Upd; [|exact GA]. cbn [todo cur]. auto.
  - destruct (act o l (shared c)) as [[[l' s'] d]|] eqn:Ha; [|split; assumption].
    apply Upd.
    + cbn [todo cur]. split; [exact Gtodo|]. destruct d; exact Gcur.
    + destruct (act_acq _ _ _ _ _ _ Ha) as [->| ->]; [exact GA|constructor; assumption].
  - apply Upd; [|exact GA]. cbn [todo cur]. auto.
Qed.

Lemma acq_good s0 progs sched : (forall prog, In prog progs -> Forall P prog) ->
  Forall P (acq (shared (cexec sched (cinit s0 progs)))).
Proof.
  intros HP. assert (G0 : ginv (cinit s0 progs)).
  { split; [|constructor]. unfold cinit, Interleave.init. cbn [Interleave.threads]. intros t th Hn.
    rewrite nth_error_map in Hn. destruct (nth_error progs t) as [p|] eqn:E; cbn in Hn; [|discriminate].
    injection Hn as <-. cbn [todo cur]. split; [|exact I]. apply HP. eapply nth_error_In; exact E. }
  revert G0. generalize (cinit s0 progs). unfold cexec, Interleave.exec.
  induction sched as [|t sched IH]; intros c G; cbn [fold_left]; [apply G|]. apply IH. apply ginv_step. exact G.
Qed.
End Good.

(* ------------------------------------------------------------------ *)
(* 9. concurrently processed copies of one request                     *)

Fixpoint first_on (m : Z) (A : list ev) : option nat :=
  match A with
  | [] => None
  | x :: r => if is_req_on m x then Some 0%nat else option_map S (first_on m r)
  end.

Lemma first_on_none m A : first_on m A = None -> Forall (fun x => is_req_on m x = false) A.
Proof.
  induction A as [|x A IH]; cbn [first_on]; [constructor|].
  destruct (is_req_on m x) eqn:E; [discriminate|]. destruct (first_on m A); [discriminate|]. intros _. constructor; auto.
Qed.

Lemma first_on_some m A : forall p, first_on m A = Some p ->
  exists A0 x A1, A = A0 ++ x :: A1 /\ length A0 = p /\ Forall (fun y => is_req_on m y = false) A0 /\ is_req_on m x = true.
Proof.
  induction A as [|x A IH]; cbn [first_on]; intros p H; [discriminate|].
  destruct (is_req_on m x) eqn:E.
  - injection H as <-. exists [], x, A. repeat split; auto.
  - destruct (first_on m A) as [q|]; [|discriminate]. injection H as <-.
    destruct (IH q eq_refl) as [A0 [y [A1 [-> [Hl [Hf Hy]]]]]]. exists (x :: A0), y, A1. cbn [app length]. repeat split; auto.
Qed.

Section Once.
Variables (typ m : Z) (tok : list Z) (code : Z) (ro : opts_t) (b : behaviour).
Let e := Req typ m tok code ro b.
(* every operation is a copy of e or a request with another message ID *)
Let good (x : ev) : Prop := x = e \/ other m x = true.

Hypothesis cacheable : is_cacheable_typ typ = true.
(* a confirmable request, or one for which the handler produces a reply *)
Hypothesis replied : typ = CON \/ handler_result tok ro b <> None.

Lemma good_on x : good x -> is_req_on m x = true -> x = e.
Proof.
  intros [->|H] Hx; [reflexivity|]. destruct x; cbn in *; try discriminate. rewrite Hx in H. discriminate.
Qed.

Lemma good_off x : good x -> is_req_on m x = false -> other m x = true.
Proof. intros [->|H] Hx; [|exact H]. cbn in Hx. rewrite Z.eqb_refl in Hx. discriminate. Qed.

Lemma good_ages l : Forall good l -> ages_ok l /\ total_age l = 0.
Proof.
  induction 1 as [|x l Hx _ [IH1 IH2]]; [split; [constructor|reflexivity]|].
  assert (Hage : age_of x = 0) by (destruct Hx as [->|Hx]; [reflexivity|destruct x; cbn in Hx; try discriminate; reflexivity]).
  split; [constructor; [unfold age_ok; lia|exact IH1]|]. cbn [total_age]. lia.
Qed.

Lemma replied_out s : typ = CON \/ o_out (snd (step s e)) <> [] \/ o_called (snd (step s e)) = false.
Proof.
  destruct replied as [H|H]; [left; exact H|right]. unfold e. cbn [step].
  destruct (req_lookup typ m (cache s)); [right; reflexivity|left]. cbn [snd obs_of_reply o_out].
  unfold req_handle. destruct (handler_result tok ro b) as [h|]; [|contradiction].
  destruct (is_special h); destruct (typ =? CON); cbn [hd_reply]; discriminate.
Qed.

(* the sequential history: the first copy runs the handler, every later copy gets its reply *)
Lemma seq_once s0 A : cache_load (cache s0) m = None -> Forall good A ->
  forall p0, first_on m A = Some p0 ->
  nth_error A p0 = Some e /\
  exists r1,
    (o_called (snd (step (final s0 (firstn p0 A)) e)) = true /\ o_out (snd (step (final s0 (firstn p0 A)) e)) = [r1]) /\
    forall p, nth_error A p = Some e -> p <> p0 ->
      o_called (snd (step (final s0 (firstn p A)) e)) = false /\
      exists r, o_out (snd (step (final s0 (firstn p A)) e)) = [r] /\ same_content r r1 /\ w_mid r = m /\
                w_typ r = (if typ =? CON then ACK else NON).
Proof.
  intros Hfresh HG p0 Hp0.
  destruct (first_on_some m A p0 Hp0) as [A0 [x [A1 [-> [Hl [Hf Hx]]]]]].
  apply Forall_app in HG as [G0 G1]. inversion G1 as [|? ? Gx G1']; subst.
  assert (Ex : x = e) by (apply good_on; assumption). subst x.
  assert (O0 : Forall (fun y => other m y = true) A0).
  { rewrite Forall_forall in *. intros y Hy. apply good_off; auto. }
  assert (F0 : firstn (length A0) (A0 ++ e :: A1) = A0) by (rewrite firstn_app, Nat.sub_diag, firstn_all; cbn; apply app_nil_r).
  split; [rewrite nth_error_app2, Nat.sub_diag by lia; reflexivity|].
  rewrite F0. set (S0 := final s0 A0).
  assert (L0 : cache_load (cache S0) m = None).
  { unfold cache_load, S0. rewrite final_other_lookup by exact O0. exact Hfresh. }
  destruct (step S0 e) as [s1 o1] eqn:St.
  assert (Cal : o_called o1 = true).
  { unfold e in St. cbn [step] in St. unfold req_lookup in St. rewrite cacheable, L0 in St. injection St as _ <-. reflexivity. }
  assert (Hc : typ = CON \/ o_out o1 <> []).
  { pose proof (replied_out S0) as H. rewrite St in H. cbn [snd] in H. destruct H as [H|[H|H]]; auto. congruence. }
  destruct (first_copy_stores _ _ _ _ _ _ _ _ _ St cacheable Cal Hc) as [r1 [Ho1 L1]].
  exists r1. cbn [snd]. split; [split; assumption|].
  intros p Hn Hne.
  (* a copy before the first one does not exist *)
  destruct (Nat.lt_ge_cases p (length A0)) as [Hlt|Hge].
  { exfalso. rewrite nth_error_app1 in Hn by exact Hlt. apply nth_error_In in Hn.
    rewrite Forall_forall in O0. specialize (O0 _ Hn). cbn in O0. rewrite Z.eqb_refl in O0. discriminate. }
  assert (Hk : exists k, p = (length A0 + S k)%nat) by (exists (p - length A0 - 1)%nat; lia).
  destruct Hk as [k ->].
  assert (Fk : firstn (length A0 + S k) (A0 ++ e :: A1) = A0 ++ e :: firstn k A1).
  { rewrite firstn_app. replace (length A0 + S k - length A0)%nat with (S k) by lia.
    rewrite firstn_all2 by lia. reflexivity. }
  rewrite Fk, final_app, final_cons. fold S0. rewrite St. cbn [fst].
  assert (Gk : Forall good (firstn k A1)).
  { rewrite <- (firstn_skipn k A1) in G1'. apply Forall_app in G1' as [G _]. exact G. }
  destruct (good_ages _ Gk) as [Ha Ht].
  pose proof (dedup_once S0 typ m tok code ro b s1 o1 (firstn k A1) typ tok code ro b St cacheable Cal Hc Ha
                ltac:(rewrite Ht; apply lifetime_nonneg) cacheable) as [Hcal2 [r1' [r2 [Ho1' [Ho2 [Hs [Hm Hty]]]]]]].
  fold e in Hcal2, Ho2. split; [exact Hcal2|]. exists r2. rewrite Ho1 in Ho1'. injection Ho1' as <-. auto.
Qed.

(* n copies of one request, and any number of copies of requests with other message IDs, processed
   concurrently, in every schedule: there is one position p0 of the lock order -- the first copy to take the
   lock -- such that every copy that has returned ran the handler iff it is the one at p0, and every copy got one
   datagram of the same code, token, options and payload; for the copies that did not run the handler it is
   the stored reply re-addressed to the copy (exactly the sequential observation) *)
Theorem once_concurrent : forall s0 progs sched,
  cache_load (cache s0) m = None ->
  (forall prog, In prog progs -> Forall good prog) ->
  let c := cexec sched (cinit s0 progs) in
  exists p0 r1, forall t n ob p, In (ERes t n e (ob, p)) (rhist c) ->
    (p = p0 -> o_called ob = true /\ exists r, o_out ob = [r] /\ same_content r r1) /\
    (p <> p0 -> o_called ob = false /\ exists r, o_out ob = [r] /\ same_content r r1 /\ w_mid r = m /\
                w_typ r = (if typ =? CON then ACK else NON)).
Proof.
  intros s0 progs sched Hfresh HP c.
  pose proof (inv_exec s0 sched _ (inv_init s0 progs)) as J. fold c in J.
  assert (GA : Forall good (order c)).
  { unfold order. apply Forall_rev. apply acq_good. exact HP. }
  destruct (first_on m (order c)) as [p0|] eqn:Hf.
  - destruct (seq_once s0 (order c) Hfresh GA p0 Hf) as [Hn0 [r1 [[Hc1 Ho1] Hrest]]].
    exists p0, r1. intros t n ob p Hin.
    pose proof (i_res s0 c J _ _ _ _ Hin) as [Hn R]. cbn [fst snd] in Hn, R. unfold refstep, before in R. fold e in R.
    split.
    + intros ->. split; [rewrite (oeq_called _ _ _ R); exact Hc1|].
      destruct (oeq_content _ _ _ _ R Ho1) as [r [Hr [Hcnt _]]]. exists r. split; [exact Hr|].
      unfold cnt in Hcnt. unfold same_content. injection Hcnt; auto.
    + intros Hne. destruct (Hrest p Hn Hne) as [Hc2 [r [Ho2 Hr2]]].
      rewrite (oeq_exact _ _ _ R (or_intror Hc2)). split; [exact Hc2|]. exists r. split; [exact Ho2|exact Hr2].
  - (* no copy has taken the lock yet: none has returned *)
    exists 0%nat, (bare_ack 0). intros t n ob p Hin. exfalso.
    pose proof (i_res s0 c J _ _ _ _ Hin) as [Hn _]. cbn [snd] in Hn. apply nth_error_In in Hn.
    pose proof (first_on_none _ _ Hf) as Hno. rewrite Forall_forall in Hno. specialize (Hno _ Hn).
    cbn in Hno. rewrite Z.eqb_refl in Hno. discriminate.
Qed.

(* hence: of two copies that have returned, at most one ran the handler *)
Corollary handler_once : forall s0 progs sched,
  cache_load (cache s0) m = None ->
  (forall prog, In prog progs -> Forall good prog) ->
  let c := cexec sched (cinit s0 progs) in
  forall X Y t1 n1 ob1 p1 t2 n2 ob2 p2,
    rhist c = X ++ ERes t1 n1 e (ob1, p1) :: Y -> In (ERes t2 n2 e (ob2, p2)) (X ++ Y) ->
    o_called ob1 = true -> o_called ob2 = false.
Proof.
  intros s0 progs sched Hfresh HP c X Y t1 n1 ob1 p1 t2 n2 ob2 p2 HE Hin Hc1.
  destruct (once_concurrent s0 progs sched Hfresh HP) as [p0 [r1 H]]. fold c in H.
  assert (In1 : In (ERes t1 n1 e (ob1, p1)) (rhist c)) by (rewrite HE; apply in_or_app; right; left; reflexivity).
  assert (In2 : In (ERes t2 n2 e (ob2, p2)) (rhist c)).
  { rewrite HE. apply in_app_or in Hin as [Hi|Hi]; apply in_or_app; [left|right; right]; exact Hi. }
  destruct (Nat.eq_dec p1 p0) as [->|N1]; [|destruct (H _ _ _ _ In1) as [_ H1]; destruct (H1 N1) as [H1' _]; congruence].
  destruct (Nat.eq_dec p2 p0) as [->|N2]; [|destruct (H _ _ _ _ In2) as [_ H2]; destruct (H2 N2) as [H2' _]; exact H2'].
  exfalso. unfold e in HE, Hin.
  exact (positions_distinct s0 progs sched t1 n1 t2 n2 typ m tok code ro b typ m tok code ro b ob1 ob2 p0 X Y HE Hin).
Qed.
End Once.
