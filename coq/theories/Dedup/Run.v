From Coq Require Import ZArith NArith List Bool.
From GoCoap Require Import Base.Cases Base.Bytes NoResp.Model NoResp.Spec Dedup.Model Dedup.Spec.
Import ListNotations.
Open Scope Z_scope.

(* a request that was received and completely processed while a sweep was in flight (see [HSweep]) *)
Inductive hreq :=
| HR (typ mid : Z) (tok : list Z) (code : Z) (reqopts : opts_t) (b : behaviour) (called : bool) (out : list owire).

(* one event of a history with what was observed on the implementation *)
Inductive hev :=
| HReq (typ mid : Z) (tok : list Z) (code : Z) (reqopts : opts_t) (b : behaviour) (called : bool) (out : list owire)
(* a request whose handler uses the request message itself as [u] (re-labels it, releases it) before it returns *)
| HReqU (u : ruse) (typ mid : Z) (tok : list Z) (code : Z) (reqopts : opts_t) (b : behaviour) (called : bool) (out : list owire)
| HAge (ms : Z)
| HTick (out : list owire)
(* a housekeeping sweep (Conn.CheckExpirations) during which -- between two of its steps: after it has found a cached
   reply expired and before it removes it, or after it has fetched an entry and before it looks at it -- the requests
   [inner] were received and completely processed.  Judged and compared as "the inner requests, then Tick":
   Dedup/Sweep.v ([sweep_unobservable]) proves that the steps of sweeps, interleaved in any way with the events of
   a history, change no observation. *)
| HSweep (inner : list hreq) (out : list owire)
| HDrop (typ mid : Z) (called : bool) (out : list owire)
| HPing (mid : Z) (called : bool) (out : list owire)
| HSend (typ : Z) (tok : list Z) (code : Z) (opts : opts_t) (pay : list Z) (called : bool) (out : list owire).

Inductive case := Hist (own0 : Z) (h : list hev).

Definition to_ev (e : hev) : ev :=
  match e with
  | HReq t m tok c ro b _ _ | HReqU _ t m tok c ro b _ _ => Req t m tok c ro b
  | HAge ms => Age ms
  | HTick _ | HSweep _ _ => Tick
  | HDrop t m _ _ => Drop t m
  | HPing m _ _ => Ping m
  | HSend t tok c o p _ _ => Send t tok c o p
  end.

(* precondition of the model's [Req]: the message is not an empty confirmable one (a ping) *)
Definition wf_hev (e : hev) : bool :=
  match e with
  | HReq t _ tok c ro _ _ _ | HReqU _ t _ tok c ro _ _ _ => negb ((t =? 0) && (c =? 0) && (blen tok =? 0) && (blen ro =? 0))
  | HSweep _ _ => false        (* histories are expanded ([expand]) before they are evaluated *)
  | _ => true
  end.

Definition wire_agrees (w : wire) (o : owire) : bool :=
  (w_typ w =? ow_typ o) && (w_code w =? ow_code o) && (w_mid w =? ow_mid o) && bytes_eqb (w_tok w) (ow_tok o)
  && opts_eqb (w_opts w) (ow_opts o) && (blen (w_pay w) =? ow_plen o) && (csum (w_pay w) =? ow_pcs o).

Definition obs_agrees (o : obs) (e : hev) : bool :=
  match e with
  | HReq _ _ _ _ _ _ called out | HReqU _ _ _ _ _ _ _ called out => Bool.eqb (o_called o) called && list_rel wire_agrees (o_out o) out
  | HAge _ => true
  | HTick out | HSweep _ out => list_rel wire_agrees (o_out o) out
  | HDrop _ _ called out | HPing _ called out | HSend _ _ _ _ _ called out =>
      Bool.eqb (o_called o) called && list_rel wire_agrees (o_out o) out
  end.

(* the model's step for an observed event: a request with a handler that uses the request message goes through the
   object-level step of the code ([step_u RBefore]; Dedup/Proofs.v req_use_irrelevant: it is [step] of the erased event) *)
Definition step_h (s : st) (e : hev) : st * obs :=
  match e with
  | HReqU u t m tok c ro b _ _ => step_u RBefore s u t m tok c ro b
  | _ => step s (to_ev e)
  end.

Fixpoint hist_agrees (s : st) (h : list hev) : bool :=
  match h with
  | [] => true
  | e :: r => let '(s1, o) := step_h s e in wf_hev e && obs_agrees o e && hist_agrees s1 r
  end.

(* a sweep with requests processed in its window = those requests, then the sweep *)
Definition hreq_hev (r : hreq) : hev := match r with HR t m tok c ro b called out => HReq t m tok c ro b called out end.
Definition expand1 (e : hev) : list hev :=
  match e with HSweep inner out => map hreq_hev inner ++ [HTick out] | _ => [e] end.
Definition expand (h : list hev) : list hev := flat_map expand1 h.

Definition agrees (c : case) : bool := match c with Hist own0 h => hist_agrees (init own0) (expand h) end.

Definition to_oev (e : hev) : oev :=
  match e with
  | HReq t m _ _ _ _ called out | HReqU _ t m _ _ _ _ called out => {| k := KReq; typ := t; mid := m; ms := 0; called := called; out := out |}
  | HAge d => {| k := KAge; typ := 0; mid := 0; ms := d; called := false; out := [] |}
  | HTick out | HSweep _ out => {| k := KTick; typ := 0; mid := 0; ms := 0; called := false; out := out |}
  | HDrop t m called out => {| k := KOther; typ := t; mid := m; ms := 0; called := called; out := out |}
  | HPing m called out => {| k := KOther; typ := 0; mid := m; ms := 0; called := called; out := out |}
  | HSend t _ _ _ _ called out => {| k := KOther; typ := t; mid := 0; ms := 0; called := called; out := out |}
  end.

(* C20 wire clause, evaluated on the same histories: for a FRESH request carrying a No-Response
   option of at most 4 bytes whose handler sets a response of code c: suppressed by the RFC rule =>
   nothing but a bare ACK (CON) / nothing at all (NON) goes on the wire; not suppressed => the reply
   carries code c.  Classes 11 (suppressed response on the wire) and 12 (unsuppressed response dropped). *)
Fixpoint noresp_value (o : opts_t) : option (list Z) :=
  match o with [] => None | (i, v) :: r => if i =? 258 then Some v else noresp_value r end.

Definition wire_clause (e : hev) : N :=
  match e with
  | HReq t m tok c ro (BResp rc _ _) true out =>
      match noresp_value ro with
      | Some v =>
          if (length v <=? 4)%nat then
            if spec_suppressed rc (be v) then
              match out with
              | [] => if t =? 0 then 11%N else 0%N
              | [r] => if (t =? 0) && (ow_typ r =? 2) && (ow_code r =? 0) && (ow_plen r =? 0) then 0%N else 11%N
              | _ => 11%N
              end
            else match out with [r] => if ow_code r =? rc then 0%N else 12%N | _ => 12%N end
          else 0%N
      | None => match out with [r] => if ow_code r =? rc then 0%N else 12%N | _ => 12%N end
      end
  | _ => 0%N
  end.

(* the wire clause does not depend on what the handler does with the request message *)
Definition strip_use (e : hev) : hev :=
  match e with HReqU _ t m tok c ro b called out => HReq t m tok c ro b called out | _ => e end.

Fixpoint first_nonzero (l : list N) : N :=
  match l with [] => 0%N | c :: r => if N.eqb c 0 then first_nonzero r else c end.

Definition pclass (c : case) : N :=
  match c with Hist _ h0 =>
    let h := expand h0 in
    let c5 := c05_class (map to_oev h) in
    if N.eqb c5 0 then first_nonzero (map (fun e => wire_clause (strip_use e)) h) else c5
  end.

Definition mismatches (cs : list case) : list N := bad_indices (fun c => negb (agrees c)) cs.
Definition property_failures (cs : list case) : list (N * N) := classes pclass cs.
