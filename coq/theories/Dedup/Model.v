(* Model of the request path of udp/client.Conn for requests received from the
   peer: Process (checkMyMessageID) -> handleReq (per-MID mutex, response cache
   lookup, application handler, processResponse, response cache store) ->
   ProcessReceivedMessageWithHandler (write the reply if modified), and of the
   housekeeping sweep of the response cache.  One [step] is one critical section
   of the per-message-ID mutex, so a history is also a schedule at that
   granularity.  Time: each cache entry carries the milliseconds of validity it
   has left; [Age d] lets d ms pass. *)
From Coq Require Import ZArith List Bool.
From GoCoap Require Import Base.Bytes NoResp.Model.
Import ListNotations.
Open Scope Z_scope.

Definition CON := 0. Definition NON := 1. Definition ACK := 2. Definition RST := 3.
Definition LIFETIME : Z := 247000.   (* ExchangeLifetime in ms; regenerated constant, see Gen/Timing.v *)

Definition opts_t := list (Z * list Z).

Record wire := W { w_typ : Z; w_code : Z; w_mid : Z; w_tok : list Z; w_opts : opts_t; w_pay : list Z }.

(* what the application handler does with a request *)
Inductive behaviour :=
| BNone                                           (* returns without touching the response *)
| BResp (code : Z) (opts : opts_t) (pay : list Z) (* w.SetResponse(code, TextPlain, body, opts...) *).

Inductive ev :=
| Req (typ mid : Z) (tok : list Z) (code : Z) (reqopts : opts_t) (b : behaviour)
| Age (ms : Z)
| Tick.

Record entry := { e_reply : wire; e_left : Z }.
Record st := { cache : list (Z * entry); own : Z (* uint32 message-ID counter *) }.

Record obs := { o_called : bool; o_out : list wire }.

Definition u16 (x : Z) : Z := x mod 65536.
Definition u32 (x : Z) : Z := x mod 4294967296.

(* checkMyMessageID: keep the own counter at distance >= 0xffff/4 from a confirmable peer MID *)
Fixpoint check_my_mid (fuel : nat) (mid own : Z) : Z :=
  match fuel with
  | O => own
  | S f => if u16 (u16 mid - u16 own) >=? 16383 then own else check_my_mid f mid (u32 (own + 32767))
  end.

Fixpoint lookup (c : list (Z * entry)) (k : Z) : option entry :=
  match c with
  | [] => None
  | (k', e) :: r => if k =? k' then Some e else lookup r k
  end.

Fixpoint remove (c : list (Z * entry)) (k : Z) : list (Z * entry) :=
  match c with
  | [] => []
  | (k', e) :: r => if k =? k' then remove r k else (k', e) :: remove r k
  end.

Definition expired (e : entry) : bool := e_left e <? 0.

(* cache.Load: entry present and not expired *)
Definition cache_load (c : list (Z * entry)) (k : Z) : option entry :=
  match lookup c k with
  | Some e => if expired e then None else Some e
  | None => None
  end.

(* cache.LoadOrStore: an unexpired entry is kept, otherwise (re)placed *)
Definition cache_store (c : list (Z * entry)) (k : Z) (r : wire) : list (Z * entry) :=
  match cache_load c k with
  | Some _ => c
  | None => (k, {| e_reply := r; e_left := LIFETIME |}) :: remove c k
  end.

(* Options.Set of the Content-Format option (12) with an empty value (TextPlain = 0) *)
Fixpoint set_cf (o : opts_t) : opts_t :=
  match o with
  | [] => [(12, [])]
  | (i, v) :: r => if i <? 12 then (i, v) :: set_cf r
                   else if i =? 12 then (12, []) :: filter (fun x => negb (fst x =? 12)) r
                   else (12, []) :: (i, v) :: r
  end.

(* the response the handler leaves in the writer: None = unmodified *)
Definition handler_result (reqopts : opts_t) (b : behaviour) : option (Z * opts_t * list Z) :=
  match b with
  | BNone => None
  | BResp code opts pay =>
      if rw_refuses reqopts code then None           (* SetResponse returned ErrMessageNotInterested *)
      else Some (code, match pay with [] => opts | _ => set_cf opts end, pay)
  end.

Definition is_cacheable_typ (typ : Z) : bool := (typ =? CON) || (typ =? NON).

Definition step (s : st) (e : ev) : st * obs :=
  match e with
  | Req typ mid tok code reqopts b =>
      let own1 := if typ =? CON then check_my_mid 4 mid (own s) else own s in
      match (if is_cacheable_typ typ then cache_load (cache s) mid else None) with
      | Some en =>
          let r := e_reply en in
          let r' := {| w_typ := if typ =? CON then ACK else NON; w_code := w_code r; w_mid := mid;
                       w_tok := w_tok r; w_opts := w_opts r; w_pay := w_pay r |} in
          (* writeMessageAsync evaluates cc.GetMessageID() for UpsertMessageID even when the ID is already set *)
          ({| cache := cache s; own := u32 (own1 + 1) |}, {| o_called := false; o_out := [r'] |})
      | None =>
          match handler_result reqopts b with
          | None =>
              if typ =? CON then
                let r := {| w_typ := ACK; w_code := 0; w_mid := mid; w_tok := []; w_opts := []; w_pay := [] |} in
                ({| cache := cache_store (cache s) mid r; own := u32 (own1 + 1) |}, {| o_called := true; o_out := [r] |})
              else ({| cache := cache s; own := own1 |}, {| o_called := true; o_out := [] |})
          | Some (rc, ro, rp) =>
              (* processResponse takes a fresh own message ID first (cc.GetMessageID()) and then, for a
                 confirmable request, overrides it with the request's ID *)
              let own2 := u32 (own1 + 1) in
              if typ =? CON then
                let r := {| w_typ := ACK; w_code := rc; w_mid := mid; w_tok := tok; w_opts := ro; w_pay := rp |} in
                ({| cache := cache_store (cache s) mid r; own := u32 (own2 + 1) |}, {| o_called := true; o_out := [r] |})
              else
                let r := {| w_typ := CON; w_code := rc; w_mid := u16 own2; w_tok := tok; w_opts := ro; w_pay := rp |} in
                let c := if typ =? NON then cache_store (cache s) mid r else cache s in
                ({| cache := c; own := u32 (own2 + 1) |}, {| o_called := true; o_out := [r] |})
          end
      end
  | Age ms =>
      ({| cache := map (fun '(k, en) => (k, {| e_reply := e_reply en; e_left := e_left en - ms |})) (cache s); own := own s |},
       {| o_called := false; o_out := [] |})
  | Tick =>
      ({| cache := filter (fun '(_, en) => negb (expired en)) (cache s); own := own s |},
       {| o_called := false; o_out := [] |})
  end.

Fixpoint run (s : st) (evs : list ev) : st * list obs :=
  match evs with
  | [] => (s, [])
  | e :: r => let '(s1, o) := step s e in let '(s2, os) := run s1 r in (s2, o :: os)
  end.

Definition init (own0 : Z) : st := {| cache := []; own := own0 |}.
