(* Model of the request path of udp/client.Conn for messages received from the
   peer: Process (checkMyMessageID, request monitor, handleSpecialMessages) ->
   handleReq (per-MID mutex, response cache lookup, application handler,
   processResponse, response cache store) -> ProcessReceivedMessageWithHandler
   (write the reply if modified), of the application's own cc.WriteMessage
   (separate responses) and of the housekeeping sweep of the response cache.
   One [step] is one critical section of the per-message-ID mutex together with
   the lock-free prologue (own-ID check) and epilogue (write) of the same copy;
   Dedup/Conc.v splits it into its atomic actions and interleaves them.
   Time: each cache entry carries the milliseconds of validity it has left;
   [Age d] lets d ms pass. *)
From Coq Require Import ZArith List Bool.
From GoCoap Require Import Base.Bytes NoResp.Model Gen.DedupConsts.
Import ListNotations.
Open Scope Z_scope.

Definition CON := 0. Definition NON := 1. Definition ACK := 2. Definition RST := 3.
(* validity of a cached reply in ms: udp/client.ExchangeLifetime (nanoseconds, generated from the live constant) *)
Definition LIFETIME : Z := ExchangeLifetime / 1000000.

Definition opts_t := list (Z * list Z).

Record wire := W { w_typ : Z; w_code : Z; w_mid : Z; w_tok : list Z; w_opts : opts_t; w_pay : list Z }.

(* what the application handler does with a request *)
Inductive behaviour :=
| BNone                                           (* returns without touching the response; a separate
                                                     response, if any, is a later [Send] *)
| BResp (code : Z) (opts : opts_t) (pay : list Z) (* w.SetResponse(code, TextPlain, body, opts...) *)
| BMsg (code : Z) (tok : list Z) (opts : opts_t) (pay : list Z)
                                                  (* m := cc.AcquireMessage; m.SetCode/SetToken/ResetOptionsTo/SetBody;
                                                     w.SetMessage(m): the response message is replaced *)
| BRst.                                           (* w.Message().SetType(message.Reset) *)

(* [Req] is a message that is not an empty confirmable one (those are [Ping]) and that the request
   monitor lets through (otherwise [Drop]) *)
Inductive ev :=
| Req (typ mid : Z) (tok : list Z) (code : Z) (reqopts : opts_t) (b : behaviour)
| Age (ms : Z)
| Tick
| Drop (typ mid : Z)                              (* Process: the request monitor answers drop = true *)
| Ping (mid : Z)                                  (* Process: handleSpecialMessages -> sendPong *)
| Send (typ : Z) (tok : list Z) (code : Z) (opts : opts_t) (pay : list Z).
                                                  (* the application calls cc.WriteMessage (separate response) *)

Record entry := { e_reply : wire; e_left : Z }.
Record st := { cache : list (Z * entry); own : Z (* uint32 message-ID counter *) }.

Record obs := { o_called : bool; o_out : list wire }.

Definition u16 (x : Z) : Z := x mod 65536.
Definition u32 (x : Z) : Z := x mod 4294967296.

(* checkMyMessageID: keep the own counter at distance >= 0xffff/4 from a confirmable peer MID *)
Fixpoint check_my_mid (fuel : nat) (mid own : Z) : Z :=
  match fuel with
  | O => own
  | S f => if u16 (u16 mid - u16 own) >=? 16383 then own else check_my_mid f mid (u32 (own + 32767))
  end.

Fixpoint lookup (c : list (Z * entry)) (k : Z) : option entry :=
  match c with
  | [] => None
  | (k', e) :: r => if k =? k' then Some e else lookup r k
  end.

Fixpoint remove (c : list (Z * entry)) (k : Z) : list (Z * entry) :=
  match c with
  | [] => []
  | (k', e) :: r => if k =? k' then remove r k else (k', e) :: remove r k
  end.

Definition expired (e : entry) : bool := e_left e <? 0.

(* cache.Load: entry present and not expired *)
Definition cache_load (c : list (Z * entry)) (k : Z) : option entry :=
  match lookup c k with
  | Some e => if expired e then None else Some e
  | None => None
  end.

(* cache.LoadOrStore: an unexpired entry is kept, otherwise (re)placed *)
Definition cache_store (c : list (Z * entry)) (k : Z) (r : wire) : list (Z * entry) :=
  match cache_load c k with
  | Some _ => c
  | None => (k, {| e_reply := r; e_left := LIFETIME |}) :: remove c k
  end.

(* Options.Set of the Content-Format option (12) with an empty value (TextPlain = 0) *)
Fixpoint set_cf (o : opts_t) : opts_t :=
  match o with
  | [] => [(12, [])]
  | (i, v) :: r => if i <? 12 then (i, v) :: set_cf r
                   else if i =? 12 then (12, []) :: filter (fun x => negb (fst x =? 12)) r
                   else (12, []) :: (i, v) :: r
  end.

(* the response message the handler leaves in the writer (None = not modified): is its type Reset,
   its code, token, options and payload *)
Record hres := { h_rst : bool; h_code : Z; h_tok : list Z; h_opts : opts_t; h_pay : list Z }.

Definition handler_result (tok : list Z) (reqopts : opts_t) (b : behaviour) : option hres :=
  match b with
  | BNone => None
  | BResp code opts pay =>
      if rw_refuses reqopts code then None           (* SetResponse returned ErrMessageNotInterested *)
      else Some {| h_rst := false; h_code := code; h_tok := tok;
                   h_opts := match pay with [] => opts | _ => set_cf opts end; h_pay := pay |}
  | BMsg code tok' opts pay =>                       (* no No-Response check on this path *)
      Some {| h_rst := false; h_code := code; h_tok := tok'; h_opts := opts; h_pay := pay |}
  | BRst => Some {| h_rst := true; h_code := 0; h_tok := tok; h_opts := []; h_pay := [] |}
  end.

(* isPongOrResetResponse (the message is modified here) *)
Definition is_special (h : hres) : bool := h_rst h || (h_code h =? 0).

(* behaviours whose reply, if any, is an ordinary response: not of type Reset, code not Empty *)
Definition plain_beh (b : behaviour) : bool :=
  match b with
  | BNone => true
  | BResp c _ _ | BMsg c _ _ _ => negb (c =? 0)
  | BRst => false
  end.

Definition is_cacheable_typ (typ : Z) : bool := (typ =? CON) || (typ =? NON).

Definition bare_ack (mid : Z) : wire := {| w_typ := ACK; w_code := 0; w_mid := mid; w_tok := []; w_opts := []; w_pay := [] |}.

(* ---- the pieces of one copy's processing, in program order ---- *)

(* Process: checkMyMessageID *)
Definition req_check (typ mid own : Z) : Z := if typ =? CON then check_my_mid 4 mid own else own.

(* handleReq: checkResponseCache *)
Definition req_lookup (typ mid : Z) (c : list (Z * entry)) : option entry :=
  if is_cacheable_typ typ then cache_load c mid else None.
(* ... a stored reply is re-addressed to the copy *)
Definition retarget (typ mid : Z) (r : wire) : wire :=
  {| w_typ := if typ =? CON then ACK else NON; w_code := w_code r; w_mid := mid;
     w_tok := w_tok r; w_opts := w_opts r; w_pay := w_pay r |}.

(* handleReq: handler + processResponse up to the cache store: the own counter afterwards, the
   message to write (None = not modified, nothing is written), whether it is stored *)
Record hdl := { hd_own : Z; hd_reply : option wire; hd_store : bool }.

Definition req_handle (typ mid : Z) (tok : list Z) (reqopts : opts_t) (b : behaviour) (own1 : Z) : hdl :=
  match handler_result tok reqopts b with
  | None =>
      if typ =? CON then {| hd_own := own1; hd_reply := Some (bare_ack mid); hd_store := true |}
      else {| hd_own := own1; hd_reply := None; hd_store := false |}
  | Some h =>
      if is_special h then
        (* Reset / Empty reply: matched to a confirmable request, an own message ID otherwise *)
        if typ =? CON then
          {| hd_own := own1;
             hd_reply := Some {| w_typ := ACK; w_code := h_code h; w_mid := mid; w_tok := h_tok h; w_opts := h_opts h; w_pay := h_pay h |};
             hd_store := true |}
        else
          let own2 := u32 (own1 + 1) in
          {| hd_own := own2;
             hd_reply := Some {| w_typ := if h_rst h then RST else NON; w_code := h_code h; w_mid := u16 own2;
                                 w_tok := h_tok h; w_opts := h_opts h; w_pay := h_pay h |};
             hd_store := typ =? NON |}
      else
        (* processResponse takes a fresh own message ID first (cc.GetMessageID()) and then, for a
           confirmable request, overrides it with the request's ID *)
        let own2 := u32 (own1 + 1) in
        if typ =? CON then
          {| hd_own := own2;
             hd_reply := Some {| w_typ := ACK; w_code := h_code h; w_mid := mid; w_tok := h_tok h; w_opts := h_opts h; w_pay := h_pay h |};
             hd_store := true |}
        else
          {| hd_own := own2;
             hd_reply := Some {| w_typ := CON; w_code := h_code h; w_mid := u16 own2; w_tok := h_tok h; w_opts := h_opts h; w_pay := h_pay h |};
             hd_store := typ =? NON |}
  end.

(* handleReq: addResponseToCache *)
Definition store_reply (mid : Z) (store : bool) (r : option wire) (c : list (Z * entry)) : list (Z * entry) :=
  if store then match r with Some w => cache_store c mid w | None => c end else c.
Definition req_store (mid : Z) (h : hdl) (c : list (Z * entry)) : list (Z * entry) :=
  store_reply mid (hd_store h) (hd_reply h) c.

(* ProcessReceivedMessageWithHandler: writeMessageAsync evaluates cc.GetMessageID() for UpsertMessageID
   even when the ID is already set; nothing is written (or drawn) for an unmodified message *)
Definition own_after_write (r : option wire) (own : Z) : Z :=
  match r with Some _ => u32 (own + 1) | None => own end.

Definition obs_of_reply (called : bool) (r : option wire) : obs :=
  {| o_called := called; o_out := match r with Some w => [w] | None => [] end |}.

Definition step (s : st) (e : ev) : st * obs :=
  match e with
  | Req typ mid tok code reqopts b =>
      let own1 := req_check typ mid (own s) in
      match req_lookup typ mid (cache s) with
      | Some en =>
          let r' := retarget typ mid (e_reply en) in
          ({| cache := cache s; own := own_after_write (Some r') own1 |}, obs_of_reply false (Some r'))
      | None =>
          let h := req_handle typ mid tok reqopts b own1 in
          ({| cache := req_store mid h (cache s); own := own_after_write (hd_reply h) (hd_own h) |},
           obs_of_reply true (hd_reply h))
      end
  | Age ms =>
      ({| cache := map (fun '(k, en) => (k, {| e_reply := e_reply en; e_left := e_left en - ms |})) (cache s); own := own s |},
       {| o_called := false; o_out := [] |})
  | Tick =>
      ({| cache := filter (fun '(_, en) => negb (expired en)) (cache s); own := own s |},
       {| o_called := false; o_out := [] |})
  | Drop typ mid =>
      (* the own-ID check comes before the request monitor *)
      ({| cache := cache s; own := req_check typ mid (own s) |}, {| o_called := false; o_out := [] |})
  | Ping mid =>
      (* sendPong: Reset with the ping's ID; writeMessageAsync draws one ID; the handler never sees it *)
      let own1 := req_check CON mid (own s) in
      ({| cache := cache s; own := u32 (own1 + 1) |},
       {| o_called := false; o_out := [{| w_typ := RST; w_code := 0; w_mid := mid; w_tok := []; w_opts := []; w_pay := [] |}] |})
  | Send typ tok code opts pay =>
      (* writeMessage: UpsertMessageID(cc.GetMessageID()) sets the ID; a non-confirmable message goes through
         writeMessageAsync, which draws (and discards) one more; a confirmable one waits for its
         acknowledgement, which the peer is assumed to send *)
      let own1 := u32 (own s + 1) in
      ({| cache := cache s; own := if typ =? CON then own1 else u32 (own1 + 1) |},
       {| o_called := false; o_out := [{| w_typ := typ; w_code := code; w_mid := u16 own1; w_tok := tok; w_opts := opts; w_pay := pay |}] |})
  end.

Fixpoint run (s : st) (evs : list ev) : st * list obs :=
  match evs with
  | [] => (s, [])
  | e :: r => let '(s1, o) := step s e in let '(s2, os) := run s1 r in (s2, o :: os)
  end.

Definition init (own0 : Z) : st := {| cache := []; own := own0 |}.

(* ---------- the request message as an object: what the handler does with it ----------
   handleReq hands the received message itself (a *pool.Message) to the application handler, which owns it while
   it runs: it may re-label it (a forwarding proxy sets the message ID, type and token of the upstream exchange
   with r.SetMessageID / r.SetType / r.SetToken; passing it to another connection's Do overwrites its message ID),
   or take it over (r.Hijack()) and give it back to the pool (ReleaseMessage -> pool.Message.Reset: type Unset
   = -1, message ID -1) before it returns.  Of the request, handleReq needs the type and the message ID after the
   handler has returned: for processResponse (the acknowledgement's ID; whether and under which key the reply is
   stored).  [rlabel] is that part of the message object; [readpt] says where handleReq reads it. *)
Record rlabel := { r_typ : Z; r_mid : Z }.

Definition UNSET : Z := -1.         (* message.Unset *)

Inductive ruse :=
| UKeep                             (* the handler leaves the request as it is *)
| URelabel (typ' mid' : Z)          (* r.SetType(typ'); r.SetMessageID(mid') (and SetToken: never read again) *)
| URelease.                         (* r.Hijack(); ...; cc.ReleaseMessage(r), by the handler or a worker it waits for *)

Definition use_req (u : ruse) (l : rlabel) : rlabel :=
  match u with
  | UKeep => l
  | URelabel t m => {| r_typ := t; r_mid := m |}
  | URelease => {| r_typ := UNSET; r_mid := -1 |}
  end.

(* RBefore: the code -- [reqType := req.Type(); reqMessageID := req.MessageID()] are taken before cc.handle(w, req).
   RAfter: the variant that reads req.Type() / req.MessageID() when it calls processResponse, i.e. after the
   handler returned (Dedup/Proofs.v: refuted). *)
Inductive readpt := RBefore | RAfter.

Definition label_read (rp : readpt) (u : ruse) (l : rlabel) : rlabel :=
  match rp with RBefore => l | RAfter => use_req u l end.

(* one received copy whose handler uses the request as [u]; the response is prepared (token of the request) before
   the handler runs and the No-Response value is parsed when the response writer is created, so neither depends
   on [u]; the lock, the own-ID check and the cache lookup happen before the handler *)
Definition step_u (rp : readpt) (s : st) (u : ruse) (typ mid : Z) (tok : list Z) (code : Z) (reqopts : opts_t) (b : behaviour)
  : st * obs :=
  let own1 := req_check typ mid (own s) in
  match req_lookup typ mid (cache s) with
  | Some en =>
      let r' := retarget typ mid (e_reply en) in
      ({| cache := cache s; own := own_after_write (Some r') own1 |}, obs_of_reply false (Some r'))
  | None =>
      let k := label_read rp u {| r_typ := typ; r_mid := mid |} in
      let h := req_handle (r_typ k) (r_mid k) tok reqopts b own1 in
      ({| cache := req_store (r_mid k) h (cache s); own := own_after_write (hd_reply h) (hd_own h) |},
       obs_of_reply true (hd_reply h))
  end.

(* histories in which every request says what its handler does with the request message *)
Inductive uev :=
| UReq (u : ruse) (typ mid : Z) (tok : list Z) (code : Z) (reqopts : opts_t) (b : behaviour)
| UEv (e : ev).

Definition erase_use (e : uev) : ev :=
  match e with UReq _ typ mid tok code ro b => Req typ mid tok code ro b | UEv e => e end.

Definition ustep (rp : readpt) (s : st) (e : uev) : st * obs :=
  match e with
  | UReq u typ mid tok code ro b => step_u rp s u typ mid tok code ro b
  | UEv e => step s e
  end.

Fixpoint urun (rp : readpt) (s : st) (evs : list uev) : st * list obs :=
  match evs with
  | [] => (s, [])
  | e :: r => let '(s1, o) := ustep rp s e in let '(s2, os) := urun rp s1 r in (s2, o :: os)
  end.
